import Dashu.Proofs.Int.Repr
import Dashu.Props.GenInt
import Dashu.Proofs.Int.Ops
import Dashu.Proofs.Int.Mul
import Dashu.Proofs.Int.Pow
import Dashu.Proofs.Int.Memory
import Dashu.Proofs.Int.MulCompose
import Dashu.Proofs.Int.PowCompose
import Dashu.Proofs.Int.PowBuf
import Dashu.Proofs.Int.PowFull
import Dashu.Proofs.Int.Scratch
import Dashu.Proofs.Int.MulPrim
/-
  C01 — Integer ring arithmetic is exact for every operand size and sign.

  Property theorems only (helper lemmas live in `Dashu/Proofs`).  Every statement quantifies over
  all word sizes `W` and all operand lengths; nothing is bounded.  Operands are word lists
  (`IsWords W`), or canonical magnitudes (`TRepr.Canon W`).
-/
namespace Dashu.Props.C01
open Dashu.Model

/-- `add_same_len_in_place`: digits + carry·B^n = a + b + carry-in; length and word-ness kept. -/
theorem add_same_len_exact (W : Nat) (as bs : List Nat) (c : Nat)
    (ha : IsWords W as) (hb : IsWords W bs) (hl : as.length = bs.length) (hc : c ≤ 1) :
    let r := addSameLen W as bs c
    val W r.1 + 2 ^ (W * as.length) * r.2 = val W as + val W bs + c ∧
    r.1.length = as.length ∧ IsWords W r.1 ∧ r.2 ≤ 1 :=
  addSameLen_spec W as bs c ha hb hl hc

/-- `sub_same_len_in_place`: digits + b + borrow-in = a + borrow·B^n. -/
theorem sub_same_len_exact (W : Nat) (as bs : List Nat) (c : Nat)
    (ha : IsWords W as) (hb : IsWords W bs) (hl : as.length = bs.length) (hc : c ≤ 1) :
    let r := subSameLen W as bs c
    val W r.1 + val W bs + c = val W as + 2 ^ (W * as.length) * r.2 ∧
    r.1.length = as.length ∧ IsWords W r.1 ∧ r.2 ≤ 1 :=
  subSameLen_spec W as bs c ha hb hl hc

/-- `add_one_in_place` / `sub_one_in_place` -/
theorem add_one_exact (W : Nat) (ws : List Nat) (h : IsWords W ws) :
    let r := addOne W ws
    val W r.1 + 2 ^ (W * ws.length) * r.2 = val W ws + 1 ∧
    r.1.length = ws.length ∧ IsWords W r.1 ∧ r.2 ≤ 1 :=
  addOne_spec W ws h

theorem sub_one_exact (W : Nat) (ws : List Nat) (h : IsWords W ws) :
    let r := subOne W ws
    val W r.1 + 1 = val W ws + 2 ^ (W * ws.length) * r.2 ∧
    r.1.length = ws.length ∧ IsWords W r.1 ∧ r.2 ≤ 1 :=
  subOne_spec W ws h

/-- `Repr::from_buffer` keeps the value and produces the canonical form, for any buffer content. -/
theorem from_buffer_exact (W : Nat) (ws : List Nat) (h : IsWords W ws) :
    (fromBuffer W ws).value W = val W ws ∧ (fromBuffer W ws).Canon W :=
  ⟨fromBuffer_value W ws, fromBuffer_canon W ws h⟩

/-- inline + inline addition, including the spill into a 3-word heap value -/
theorem add_dword_exact (W a b : Nat) (ha : a < 2 ^ (2 * W)) (hb : b < 2 ^ (2 * W)) :
    (addDword W a b).value W = a + b ∧ (addDword W a b).Canon W :=
  ⟨addDword_value W a b ha hb, addDword_canon W a b ha hb⟩

-- ====================================================================== + and − : word layer

/-- `add_in_place` (lhs += rhs, `rhs.len() ≤ lhs.len()`) -/
theorem add_in_place_exact (W : Nat) (lhs rhs : List Nat)
    (hl : IsWords W lhs) (hr : IsWords W rhs) (hlen : rhs.length ≤ lhs.length) :
    let r := addInPlace W lhs rhs
    val W r.1 + 2 ^ (W * lhs.length) * r.2 = val W lhs + val W rhs ∧
    r.1.length = lhs.length ∧ IsWords W r.1 ∧ r.2 ≤ 1 :=
  addInPlace_spec W lhs rhs hl hr hlen

/-- `sub_in_place`; the borrow is set exactly when `lhs < rhs` -/
theorem sub_in_place_exact (W : Nat) (lhs rhs : List Nat)
    (hl : IsWords W lhs) (hr : IsWords W rhs) (hlen : rhs.length ≤ lhs.length) :
    let r := subInPlace W lhs rhs
    (val W r.1 + val W rhs = val W lhs + 2 ^ (W * lhs.length) * r.2 ∧
     r.1.length = lhs.length ∧ IsWords W r.1 ∧ r.2 ≤ 1) ∧
    (r.2 = 0 ↔ val W rhs ≤ val W lhs) :=
  ⟨subInPlace_spec W lhs rhs hl hr hlen, subInPlace_borrow_iff W lhs rhs hl hr hlen⟩

/-- `add_word_in_place` / `sub_word_in_place` -/
theorem add_word_in_place_exact (W : Nat) (ws : List Nat) (r : Nat) (h : IsWords W ws)
    (hr : r < 2 ^ W) (hne : ws ≠ []) :
    let o := addWord W ws r
    val W o.1 + 2 ^ (W * ws.length) * o.2 = val W ws + r ∧
    o.1.length = ws.length ∧ IsWords W o.1 ∧ o.2 ≤ 1 :=
  addWord_spec W ws r h hr hne

theorem sub_word_in_place_exact (W : Nat) (ws : List Nat) (r : Nat) (h : IsWords W ws)
    (hr : r < 2 ^ W) (hne : ws ≠ []) :
    let o := subWord W ws r
    val W o.1 + r = val W ws + 2 ^ (W * ws.length) * o.2 ∧
    o.1.length = ws.length ∧ IsWords W o.1 ∧ o.2 ≤ 1 :=
  subWord_spec W ws r h hr hne

/-- `add_dword_in_place` / `sub_dword_in_place` on a slice of ≥ 2 words -/
theorem add_dword_in_place_exact (W : Nat) (ws : List Nat) (d : Nat)
    (hw : IsWords W ws) (hlen : 2 ≤ ws.length) (hd : d < 2 ^ (2 * W)) :
    let r := addDwordInPlace W ws d
    val W r.1 + 2 ^ (W * ws.length) * r.2 = val W ws + d ∧
    r.1.length = ws.length ∧ IsWords W r.1 ∧ r.2 ≤ 1 :=
  addDwordInPlace_spec W ws d hw hlen hd

theorem sub_dword_in_place_exact (W : Nat) (ws : List Nat) (d : Nat)
    (hw : IsWords W ws) (hlen : 2 ≤ ws.length) (hd : d < 2 ^ (2 * W)) :
    let r := subDwordInPlace W ws d
    val W r.1 + d = val W ws + 2 ^ (W * ws.length) * r.2 ∧
    r.1.length = ws.length ∧ IsWords W r.1 ∧ r.2 ≤ 1 :=
  subDwordInPlace_spec W ws d hw hlen hd

/-- `sub_in_place_with_sign`: the buffer keeps its length (equal top words are zeroed, not dropped),
    holds `|lhs − rhs|`, and the returned sign is `Negative` exactly when `lhs < rhs`. -/
theorem sub_in_place_with_sign_exact (W : Nat) (lhs rhs : List Nat) (hl : IsWords W lhs)
    (hr : IsWords W rhs) (hlen : rhs.length ≤ lhs.length) :
    let r := subInPlaceWithSign W lhs rhs
    r.2.length = lhs.length ∧ IsWords W r.2 ∧
    (r.1 = false → val W r.2 + val W rhs = val W lhs) ∧
    (r.1 = true → val W r.2 + val W lhs = val W rhs ∧ val W lhs < val W rhs) :=
  subInPlaceWithSign_spec W lhs rhs hl hr hlen

-- ====================================================================== + and − : dispatch layer

/-- `add_large_dword` and `add_large` (either operand order, any lengths) -/
theorem add_large_dword_exact (W : Nat) (hW : 1 ≤ W) (buf : List Nat) (d : Nat)
    (hb : IsWords W buf) (hlen : 2 ≤ buf.length) (hd : d < 2 ^ (2 * W)) :
    (addLargeDword W buf d).value W = val W buf + d ∧ (addLargeDword W buf d).Canon W :=
  ⟨addLargeDword_value W buf d hb hlen hd, addLargeDword_canon W hW buf d hb hlen hd⟩

theorem add_large_exact (W : Nat) (hW : 1 ≤ W) (buffer rhs : List Nat)
    (hb : IsWords W buffer) (hr : IsWords W rhs) :
    (addLarge W buffer rhs).value W = val W buffer + val W rhs ∧ (addLarge W buffer rhs).Canon W :=
  addLarge_spec W hW buffer rhs hb hr

/-- **UBig + UBig** — every ownership form (`form` = 0,1,2 selects ref/ref|val/val, ref/val, val/ref)
    of `TypedRepr + TypedRepr` returns the canonical representation of the exact sum. -/
theorem u_add_exact (W : Nat) (hW : 1 ≤ W) (a b : TRepr) (form : Nat)
    (ha : a.Canon W) (hb : b.Canon W) :
    (a.add W b form).value W = a.value W + b.value W ∧ (a.add W b form).Canon W :=
  TRepr.add_spec W hW a b form ha hb

/-- `sub_large_dword`: no borrow out of a canonical heap value, exact, canonical -/
theorem sub_large_dword_exact (W : Nat) (lhs : List Nat) (d : Nat)
    (hc : (TRepr.large lhs).Canon W) (hd : d < 2 ^ (2 * W)) :
    (subDwordInPlace W lhs d).2 = 0 ∧
    (subLargeDword W lhs d).value W + d = val W lhs ∧ (subLargeDword W lhs d).Canon W :=
  subLargeDword_spec W lhs d hc hd

/-- `sub_large_ref_val` is `sub_large` computed in the other buffer -/
theorem sub_large_ref_val_eq (W : Nat) (lhs rhs : List Nat) :
    subLargeRefVal W lhs rhs = subLarge W lhs rhs :=
  subLargeRefVal_eq W lhs rhs

/-- **UBig − UBig** — both dispatch variants: exact canonical difference when `b ≤ a`,
    the documented panic otherwise (never a wrapped value). -/
theorem u_sub_exact (W : Nat) (a b : TRepr) (refVal : Bool) (ha : a.Canon W) (hb : b.Canon W) :
    (b.value W ≤ a.value W →
      ∃ r, a.sub W b refVal = .ok r ∧ r.value W = a.value W - b.value W ∧ r.Canon W) ∧
    (a.value W < b.value W → a.sub W b refVal = .error .negativeUBig) := by
  refine ⟨fun h => ?_, fun h => TRepr.sub_err W a b refVal ha hb h⟩
  obtain ⟨r, h1, h2, h3⟩ := TRepr.sub_ok W a b refVal ha hb h
  exact ⟨r, h1, by omega, h3⟩

/-- the subtraction succeeds **iff** it does not go below zero -/
theorem u_sub_ok_iff (W : Nat) (a b : TRepr) (refVal : Bool) (ha : a.Canon W) (hb : b.Canon W) :
    (∃ r, a.sub W b refVal = .ok r) ↔ b.value W ≤ a.value W := by
  constructor
  · rintro ⟨r, hr⟩
    apply Nat.le_of_not_lt
    intro hlt
    rw [TRepr.sub_err W a b refVal ha hb hlt] at hr
    cases hr
  · intro h
    obtain ⟨r, h1, _, _⟩ := TRepr.sub_ok W a b refVal ha hb h
    exact ⟨r, h1⟩

/-- `SubSigned` on magnitudes (all forms): exact signed difference, canonical, no negative zero -/
theorem sub_signed_exact (W : Nat) (a b : TRepr) (form : Nat) (ha : a.Canon W) (hb : b.Canon W) :
    (a.subSigned W b form).value W = (a.value W : Int) - b.value W ∧
    (a.subSigned W b form).WF W :=
  TRepr.subSigned_spec W a b form ha hb

/-- the canonical representation of a natural number (what the driver feeds to the model) -/
theorem of_nat_exact (W : Nat) (hW : 1 ≤ W) (n : Nat) :
    (ofNat W n).value W = n ∧ (ofNat W n).Canon W :=
  ⟨ofNat_value W hW n, ofNat_canon W hW n⟩

/-- `Repr::with_sign`, `Repr::neg`, `into_sign_repr` -/
theorem with_sign_exact (W : Nat) (m : TRepr) (neg : Bool) (hc : m.Canon W) :
    (withSign m neg).value W = (if neg then -(m.value W : Int) else (m.value W : Int)) ∧
    (withSign m neg).WF W :=
  ⟨withSign_value W m neg, withSign_wf W m neg hc⟩

theorem i_neg_exact (W : Nat) (r : SRepr) (h : r.WF W) :
    r.negate.value W = - r.value W ∧ r.negate.WF W :=
  ⟨SRepr.negate_value W r, SRepr.negate_wf W r h⟩

theorem of_int_exact (W : Nat) (hW : 1 ≤ W) (i : Int) :
    (SRepr.ofInt W i).value W = i ∧ (SRepr.ofInt W i).WF W :=
  ⟨SRepr.ofInt_value W hW i, SRepr.ofInt_wf W hW i⟩

-- ====================================================================== + and − : operators

/-- **IBig + IBig** (and the mixed UBig/IBig forms, which pass a non-negative operand) for every
    sign combination and every ownership form: exact `Int` sum, canonical magnitude, never "−0". -/
theorem i_add_exact (W : Nat) (hW : 1 ≤ W) (a b : SRepr) (form : Nat) (ha : a.WF W) (hb : b.WF W) :
    (ibigAdd W a b form).value W = a.value W + b.value W ∧ (ibigAdd W a b form).WF W :=
  ibigAdd_spec W hW a b form ha hb

/-- **IBig − IBig** likewise -/
theorem i_sub_exact (W : Nat) (hW : 1 ≤ W) (a b : SRepr) (form : Nat) (ha : a.WF W) (hb : b.WF W) :
    (ibigSub W a b form).value W = a.value W - b.value W ∧ (ibigSub W a b form).WF W :=
  ibigSub_spec W hW a b form ha hb

/-- exactly what the driver evaluates for `i.add` / `i.sub`: for all integers -/
theorem i_add_sub_of_int (W : Nat) (hW : 1 ≤ W) (x y : Int) (form : Nat) :
    (ibigAdd W (.ofInt W x) (.ofInt W y) form).value W = x + y ∧
    (ibigSub W (.ofInt W x) (.ofInt W y) form).value W = x - y := by
  have hx := SRepr.ofInt_wf W hW x
  have hy := SRepr.ofInt_wf W hW y
  rw [(ibigAdd_spec W hW _ _ form hx hy).1, (ibigSub_spec W hW _ _ form hx hy).1,
    SRepr.ofInt_value W hW, SRepr.ofInt_value W hW]
  exact ⟨rfl, rfl⟩

/-- `u.add` / `u.sub` through the hand-written dispatch with its `form` argument, for all naturals (the driver runs the
    REGENERATED four-form dispatch, proved equal to this one and exact in `Props/C01Dispatch.lean`) -/
theorem u_add_sub_of_nat (W : Nat) (hW : 1 ≤ W) (x y : Nat) (form : Nat) (refVal : Bool) :
    ((ofNat W x).add W (ofNat W y) form).value W = x + y ∧
    (y ≤ x → ∃ r, (ofNat W x).sub W (ofNat W y) refVal = .ok r ∧ r.value W = x - y) ∧
    (x < y → (ofNat W x).sub W (ofNat W y) refVal = .error .negativeUBig) := by
  have hx := ofNat_canon W hW x
  have hy := ofNat_canon W hW y
  have vx := ofNat_value W hW x
  have vy := ofNat_value W hW y
  refine ⟨?_, ?_, ?_⟩
  · rw [(TRepr.add_spec W hW _ _ form hx hy).1, vx, vy]
  · intro h
    obtain ⟨r, h1, h2, _⟩ := TRepr.sub_ok W _ _ refVal hx hy (by rw [vx, vy]; exact h)
    rw [vx, vy] at h2
    exact ⟨r, h1, by omega⟩
  · intro h
    exact TRepr.sub_err W _ _ refVal hx hy (by rw [vx, vy]; exact h)

-- ====================================================================== × : small operands

/-- `mul_word_in_place_with_carry` -/
theorem mul_word_in_place_exact (W : Nat) (ws : List Nat) (rhs c : Nat) (hw : IsWords W ws)
    (hr : rhs < 2 ^ W) (hc : c < 2 ^ W) :
    let r := mulWordInPlace W ws rhs c
    val W r.1 + 2 ^ (W * ws.length) * r.2 = val W ws * rhs + c ∧
    r.1.length = ws.length ∧ IsWords W r.1 ∧ r.2 < 2 ^ W :=
  mulWordInPlace_spec W ws rhs c hw hr hc

/-- `shl_in_place` by `s ≤ W` bits with a carry-in `< 2^s`: the OR of disjoint bits is the sum, so the
    shift is multiplication by `2^s` -/
theorem shl_in_place_exact (W : Nat) (ws : List Nat) (s c : Nat) (hw : IsWords W ws)
    (hs : s < W) (hc : c < 2 ^ s) :
    let r := shlInPlace W ws s c
    val W r.1 + 2 ^ (W * ws.length) * r.2 = val W ws * 2 ^ s + c ∧
    r.1.length = ws.length ∧ IsWords W r.1 ∧ r.2 < 2 ^ W := by
  rw [shlInPlace_eq_mulWord W ws s c hw (by omega) hc]
  exact mulWordInPlace_spec W ws (2 ^ s) c hw (Nat.pow_lt_pow_right (by omega) hs)
    (Nat.lt_of_lt_of_le hc (Nat.pow_le_pow_right (by omega) (by omega)))

/-- `mul_dword_in_place`, including the odd leftover word; the carry is a double word -/
theorem mul_dword_in_place_exact (W : Nat) (ws : List Nat) (rhs c : Nat) (hw : IsWords W ws)
    (hr : rhs < 2 ^ (2 * W)) (hc : c < 2 ^ (2 * W)) :
    let r := mulDwordInPlace W ws rhs c
    val W r.1 + 2 ^ (W * ws.length) * r.2 = val W ws * rhs + c ∧
    r.1.length = ws.length ∧ IsWords W r.1 ∧ r.2 < 2 ^ (2 * W) :=
  mulDwordInPlace_spec W rhs hr ws.length ws c rfl hw hc

/-- `u64::is_power_of_two` as modelled: a set `isPow2` flag means `n = 2^log2 n` -/
theorem is_pow2_exact (n : Nat) (h : isPow2 n = true) : n = 2 ^ Nat.log2 n := isPow2_eq n h

theorem mul_dword_exact (W a b : Nat) (ha : a < 2 ^ (2 * W)) (hb : b < 2 ^ (2 * W)) :
    (mulDword W a b).value W = a * b ∧ (mulDword W a b).Canon W :=
  mulDword_spec W a b ha hb

theorem mul_large_dword_exact (W : Nat) (buffer : List Nat) (rhs : Nat) (hw : IsWords W buffer)
    (hr : rhs < 2 ^ (2 * W)) :
    (mulLargeDword W buffer rhs).value W = val W buffer * rhs ∧
    (mulLargeDword W buffer rhs).Canon W :=
  mulLargeDword_spec W buffer rhs hw hr

/-- **UBig × UBig** over the model: exact and canonical in every arm.  Inline×inline, heap×inline and
    heap×heap (schoolbook, chunk splitting, Karatsuba, Toom-3, the squaring shortcut) are refined down to the
    word loops; nothing in it is a frontier kernel any more (`div_by_word_in_place(t1, 6)` and
    `shr_in_place(t2, 1)` inside Toom-3 are taken at their specification, see `FRONTIER` in
    vlib/props/c01.py). -/
theorem u_mul_exact (W : Nat) (hW : 4 ≤ W) (a b : TRepr) (ha : a.Canon W) (hb : b.Canon W) :
    (a.mul W b).value W = a.value W * b.value W ∧ (a.mul W b).Canon W :=
  TRepr.mul_spec W hW a b ha hb

theorem u_sqr_exact (W : Nat) (hW : 4 ≤ W) (a : TRepr) (ha : a.Canon W) :
    (a.sqr W).value W = a.value W * a.value W ∧ (a.sqr W).Canon W :=
  TRepr.sqr_spec W hW a ha

/-- **IBig × IBig**: sign rule `sign0 * sign1` on top of the magnitude product; never "−0" -/
theorem i_mul_exact (W : Nat) (hW : 4 ≤ W) (a b : SRepr) (ha : a.WF W) (hb : b.WF W) :
    (ibigMul W a b).value W = a.value W * b.value W ∧ (ibigMul W a b).WF W :=
  ibigMul_spec W hW a b ha hb

/-- `cubic = a · a²` as the driver evaluates it -/
theorem u_cubic_exact (W : Nat) (hW : 4 ≤ W) (a : TRepr) (ha : a.Canon W) :
    (a.mul W (a.sqr W)).value W = a.value W * a.value W * a.value W := by
  have hs := TRepr.sqr_spec W hW a ha
  rw [(TRepr.mul_spec W hW a _ ha hs.2).1, hs.1, Nat.mul_assoc]

-- ====================================================================== × : schoolbook kernels

/-- `add_mul_word_same_len_in_place` (one `mul_add_2carry` per word): digits + carry·B^n = words + mult·rhs -/
theorem add_mul_word_same_len_exact (W : Nat) (ws : List Nat) (mult : Nat) (rhs : List Nat)
    (hw : IsWords W ws) (hr : IsWords W rhs) (hl : ws.length = rhs.length) (hm : mult < 2 ^ W) :
    let r := addMulWordSameLen W ws mult rhs
    val W r.1 + 2 ^ (W * ws.length) * r.2 = val W ws + mult * val W rhs ∧
    r.1.length = ws.length ∧ IsWords W r.1 ∧ r.2 < 2 ^ W :=
  addMulWordSameLen_spec W ws mult rhs hw hr hl hm

theorem add_mul_word_in_place_exact (W : Nat) (ws : List Nat) (mult : Nat) (rhs : List Nat)
    (hw : IsWords W ws) (hr : IsWords W rhs) (hl : rhs.length ≤ ws.length) (hm : mult < 2 ^ W) :
    let r := addMulWordInPlace W ws mult rhs
    val W r.1 + 2 ^ (W * ws.length) * r.2 = val W ws + mult * val W rhs ∧
    r.1.length = ws.length ∧ IsWords W r.1 ∧ r.2 < 2 ^ W :=
  addMulWordInPlace_spec W ws mult rhs hw hr hl hm

/-- the claim in the comment of `sub_mul_word_same_len_in_place`: with
    `v = a + carry_plus_max + (double_word(0, MAX) − MAX) − mult·b` the subtraction never underflows,
    `v` fits a double word, and (writing the borrow as `MAX − carry_plus_max`) the step is exact -/
theorem sub_mul_word_step_no_overflow (B a b mult cpm : Nat) (ha : a < B) (hb : b < B) (hm : mult < B)
    (hc : cpm < B) :
    mult * b ≤ a + cpm + ((B - 1) * B - (B - 1)) ∧
    a + cpm + ((B - 1) * B - (B - 1)) - mult * b < B * B ∧
    (a + cpm + ((B - 1) * B - (B - 1)) - mult * b) / B < B ∧
    (a + cpm + ((B - 1) * B - (B - 1)) - mult * b) % B + mult * b + (B - 1 - cpm)
      = a + B * (B - 1 - (a + cpm + ((B - 1) * B - (B - 1)) - mult * b) / B) :=
  sub_mul_step B a b mult cpm ha hb hm hc

/-- `sub_mul_word_same_len_in_place`: digits + mult·rhs = words + borrow·B^n -/
theorem sub_mul_word_same_len_exact (W : Nat) (ws : List Nat) (mult : Nat) (rhs : List Nat)
    (hw : IsWords W ws) (hr : IsWords W rhs) (hl : ws.length = rhs.length) (hm : mult < 2 ^ W) :
    let r := subMulWordSameLen W ws mult rhs
    val W r.1 + mult * val W rhs = val W ws + 2 ^ (W * ws.length) * r.2 ∧
    r.1.length = ws.length ∧ IsWords W r.1 ∧ r.2 < 2 ^ W :=
  subMulWordSameLen_spec W ws mult rhs hw hr hl hm

/-- `simple::add_mul_chunk` / `sub_mul_chunk` (carry/borrow bit handed from `c[i + a.len()]` to the next row) -/
theorem add_mul_chunk_exact (W : Nat) (a b c : List Nat) (ha : IsWords W a) (hb : IsWords W b)
    (hc : IsWords W c) (hl : c.length = a.length + b.length) :
    let r := addMulChunk W a c b 0
    val W r.1 + 2 ^ (W * c.length) * r.2 = val W c + val W a * val W b ∧
    r.1.length = c.length ∧ IsWords W r.1 ∧ r.2 ≤ 1 := by
  have := addMulChunk_spec W a ha b c 0 hl hc hb (by omega)
  simpa using this

theorem sub_mul_chunk_exact (W : Nat) (a b c : List Nat) (ha : IsWords W a) (hb : IsWords W b)
    (hc : IsWords W c) (hl : c.length = a.length + b.length) :
    let r := subMulChunk W a c b 0
    val W r.1 + val W a * val W b = val W c + 2 ^ (W * c.length) * r.2 ∧
    r.1.length = c.length ∧ IsWords W r.1 ∧ r.2 ≤ 1 := by
  have := subMulChunk_spec W a ha b c 0 hl hc hb (by omega)
  simpa using this

/-- `simple::add_signed_mul_chunk` = "c += sign·a·b, returns the signed carry" for operands of any length -/
theorem simple_add_signed_mul_exact (W : Nat) (c : List Nat) (neg : Bool) (a b : List Nat)
    (hl : c.length = a.length + b.length) (hc : IsWords W c) (ha : IsWords W a) (hb : IsWords W b) :
    MulContract W (addSignedMulChunk W) c neg a b :=
  addSignedMulChunk_contract W c neg a b hl hc ha hb

-- ====================================================================== × : signed helpers, Karatsuba, dispatch

/-- `add_signed_word_in_place`, `add_signed_same_len_in_place`, `add_signed_in_place` -/
theorem add_signed_word_in_place_exact (W : Nat) (ws : List Nat) (rhs : Int) (hw : IsWords W ws)
    (hr : |rhs| < (2 : Int) ^ W) :
    Upd W ws (addSignedWord W ws rhs).1 (addSignedWord W ws rhs).2 rhs :=
  addSignedWord_upd W ws rhs hw hr

theorem add_signed_same_len_in_place_exact (W : Nat) (ws : List Nat) (neg : Bool) (rhs : List Nat)
    (hw : IsWords W ws) (hr : IsWords W rhs) (hl : ws.length = rhs.length) :
    Upd W ws (addSignedSameLen W ws neg rhs).1 (addSignedSameLen W ws neg rhs).2
      (sgn neg * val W rhs) :=
  addSignedSameLen_upd W ws neg rhs hw hr hl

theorem add_signed_in_place_exact (W : Nat) (ws : List Nat) (neg : Bool) (rhs : List Nat)
    (hw : IsWords W ws) (hr : IsWords W rhs) (hl : rhs.length ≤ ws.length) :
    Upd W ws (addSignedInPlace W ws neg rhs).1 (addSignedInPlace W ws neg rhs).2
      (sgn neg * val W rhs) :=
  addSignedInPlace_upd W ws neg rhs hw hr hl

/-- the slice-window rule used for every in-place update of `c[i..j]`: an update of the window by `δ` with
    carry `k` changes the whole slice by `B^i·δ − B^j·k` -/
theorem window_update_exact (W : Nat) (c : List Nat) (i j : Nat) (hij : i ≤ j) (hj : j ≤ c.length)
    (hc : IsWords W c) (w' : List Nat) (k δ : Int) (h : Upd W (window c i j) w' k δ) :
    (setWindow c i w').length = c.length ∧ IsWords W (setWindow c i w') ∧
    (val W (setWindow c i w') : Int)
      = (val W c : Int) + (2 : Int) ^ (W * i) * δ - (2 : Int) ^ (W * j) * k :=
  setWindow_upd W c i j hij hj hc w' k δ h

/-- **Karatsuba** (`karatsuba::add_signed_mul_same_len`), one level: three products (`a_lo·b_lo`,
    `a_hi·b_hi`, `(a_lo − a_hi)(b_lo − b_hi)` with sign `−sign·diff_sign`), the carries `carry_c0` at `2·mid`
    and `carry_c1` at `3·mid`; if the recursive callee meets the contract, so does this level (any `n ≥ 2`). -/
theorem karatsuba_same_len_exact (W : Nat) (hW : 4 ≤ W) (rec : MulKernel)
    (hrec : SameLenContract W rec) (c : List Nat) (neg : Bool) (a b : List Nat)
    (hab : a.length = b.length) (hn : 2 ≤ a.length) (hcl : c.length = a.length + b.length)
    (hc : IsWords W c) (ha : IsWords W a) (hb : IsWords W b) :
    MulContract W (karatsubaSameLen W rec) c neg a b :=
  karatsubaSameLen_contract W (by omega) rec hrec c neg a b hab hn hcl hc ha hb

/-- **Toom-3** (`toom_3::add_signed_mul_same_len`), one level: evaluation at 0, 2, ∞, 1, −1 (five recursive
    products), interpolation `t1 = (3V(0)+2V(−1)+V(2))/6 − 2V(∞)`, `t2 = (V(1)+V(−1))/2` with every asserted
    zero (carries of the scratch products, "never negative", the two exact divisions) proved zero, thirteen
    window updates of `c` with the carries `carry_c0..carry_c3`; if the recursive callee meets the contract,
    so does this level (any `n ≥ MIN_LEN = 16`, words of at least 4 bits because of the constants 6 and 12). -/
theorem toom3_same_len_exact (W : Nat) (hW : 4 ≤ W) (rec : MulKernel)
    (hrec : SameLenContract W rec) (c : List Nat) (neg : Bool) (a b : List Nat)
    (hab : a.length = b.length) (hn : 16 ≤ a.length) (hcl : c.length = a.length + b.length)
    (hc : IsWords W c) (ha : IsWords W a) (hb : IsWords W b) :
    MulContract W (toom3SameLen W rec) c neg a b :=
  toom3SameLen_contract W hW rec hrec c neg a b hab hn hcl hc ha hb

/-- the scratch buffers of Toom-3 hold exactly the interpolation values (`c_i` = coefficients of the
    product polynomial in `x = B^n3`): `t1 = c0 + c2 + c3 + c4`, `t2 = c0 + c2 + c4` -/
theorem toom3_scratch_exact (W : Nat) (hW : 4 ≤ W) (rec : MulKernel) (hrec : SameLenContract W rec)
    (a b : List Nat) (hab : a.length = b.length) (hn : 16 ≤ a.length) (ha : IsWords W a)
    (hb : IsWords W b) (n3 : Nat) (hn3 : n3 = (a.length + 2) / 3)
    (A0 A1 A2 B0 B1 B2 : Nat)
    (hA0 : A0 = val W (a.take n3)) (hA1 : A1 = val W ((a.drop n3).take n3))
    (hA2 : A2 = val W (a.drop (2 * n3)))
    (hB0 : B0 = val W (b.take n3)) (hB1 : B1 = val W ((b.drop n3).take n3))
    (hB2 : B2 = val W (b.drop (2 * n3))) :
    val W (toomScratch W rec a b).v0 = A0 * B0 ∧ val W (toomScratch W rec a b).vinf = A2 * B2 ∧
    val W (toomScratch W rec a b).t2a = (A0 + A1 + A2) * (B0 + B1 + B2) ∧
    val W (toomScratch W rec a b).t1
      = A0 * B0 + (A0 * B2 + A1 * B1 + A2 * B0) + (A1 * B2 + A2 * B1) + A2 * B2 ∧
    val W (toomScratch W rec a b).t2 = A0 * B0 + (A0 * B2 + A1 * B1 + A2 * B0) + A2 * B2 := by
  obtain ⟨h0, hi, h1, ht1, ht2⟩ := toomScratch_spec W hW rec hrec a b hab hn ha hb n3 hn3
    A0 A1 A2 B0 B1 B2 hA0 hA1 hA2 hB0 hB1 hB2
  exact ⟨h0.2.2, hi.2.2, h1.2.2, ht1.2.2, ht2.2.2⟩

/-- `mul::add_signed_mul_same_len` (dispatch schoolbook / Karatsuba recursion / Toom-3 recursion) -/
theorem add_signed_mul_same_len_exact (W : Nat) (hW : 4 ≤ W) (fuel : Nat) :
    SameLenContract W (addSignedMulSameLen W fuel) :=
  addSignedMulSameLen_contract W hW fuel

/-- `helpers::add_signed_mul_split_into_chunks`: the signed carry at `c[n]` handed from chunk to chunk -/
theorem split_into_chunks_exact (W : Nat) (hW : 4 ≤ W) (chunkLen : Nat) (hL : 1 ≤ chunkLen)
    (f tail : MulKernel) (b : List Nat) (hb : IsWords W b)
    (hf : ∀ c' neg a', a'.length = chunkLen → c'.length = chunkLen + b.length → IsWords W c' →
      IsWords W a' → MulContract W f c' neg a' b)
    (htail : GenContract W tail) (c : List Nat) (neg : Bool) (a : List Nat)
    (hcl : c.length = a.length + b.length) (hc : IsWords W c) (ha : IsWords W a) :
    MulContract W (fun c neg a b => splitLoop W chunkLen f tail a.length c neg a b 0) c neg a b := by
  have := splitLoop_spec W (by omega) chunkLen hL f tail b hb hf htail a.length c neg a 0 hcl hc ha
    (by omega) (by omega)
  unfold MulContract
  simpa using this

/-- **`mul::add_signed_mul`** = "c += sign·a·b, returns the signed carry" for operands of every length and
    either order: schoolbook (≤ THRESHOLD_SIMPLE, chunked above CHUNK_LEN), Karatsuba (≤ THRESHOLD_KARATSUBA,
    chunked by `b.len()`), Toom-3 above — all mirrored and refined down to the word loops. -/
theorem add_signed_mul_exact (W : Nat) (hW : 4 ≤ W) (fuel : Nat) :
    GenContract W (addSignedMul W fuel) :=
  addSignedMul_contract W hW fuel

/-- `mul::multiply` as called by `mul_large`: the asserted-zero carry is zero -/
theorem multiply_carry_zero_exact (W : Nat) (hW : 4 ≤ W) (lhs rhs : List Nat) (hl : IsWords W lhs)
    (hr : IsWords W rhs) :
    (addSignedMul W (lhs.length + rhs.length) (List.replicate (lhs.length + rhs.length) 0) false
      lhs rhs).2 = 0 :=
  multiply_carry_zero W hW lhs rhs hl hr

/-- `mul_large` -/
theorem mul_large_exact (W : Nat) (hW : 4 ≤ W) (lhs rhs : List Nat) (hl : IsWords W lhs)
    (hr : IsWords W rhs) :
    (mulLarge W lhs rhs).value W = val W lhs * val W rhs ∧ (mulLarge W lhs rhs).Canon W :=
  mulLarge_spec W hW lhs rhs hl hr

-- non-vacuity: a 25-word (Karatsuba-sized) operand pair runs through the mirrored kernel
example : (addSignedMulSameLen 64 25 (List.replicate 50 0) false (List.replicate 25 (2^64-1))
    (List.replicate 25 (2^64-1))).2 = 0 := by decide +kernel

-- ====================================================================== squaring

/-- `sqr::simple::square` on a zero-filled buffer (triangular part with the carry bit `c0`, diagonal part fused
    with the doubling and the two overflow bits `c1`, `c2`, final `b.last += c0 + c1 + c2` which adds zero) -/
theorem sqr_simple_exact (W : Nat) (a : List Nat) (ha : IsWords W a) (hne : a ≠ []) :
    val W (sqrSimple W a) = val W a * val W a ∧ (sqrSimple W a).length = 2 * a.length ∧
    IsWords W (sqrSimple W a) :=
  sqrSimple_spec W a ha hne

/-- the two loops of `sqr::simple::square` separately -/
theorem sqr_tri_loop_exact (W : Nat) (aCur s : List Nat) (c0 : Nat) (hl : s.length = 2 * aCur.length)
    (hs : IsWords W s) (ha : IsWords W aCur) (hc : c0 ≤ 1) :
    Upd W s (sqrTriLoop W s aCur c0).1 ((sqrTriLoop W s aCur c0).2 : Int)
      ((tri W aCur : Int) + (2 : Int) ^ (W * aCur.length) * c0) ∧ (sqrTriLoop W s aCur c0).2 ≤ 1 :=
  sqrTriLoop_spec W aCur s c0 hl hs ha hc

theorem sqr_diag_loop_exact (W : Nat) (a s : List Nat) (c1 c2 : Nat) (hl : s.length = 2 * a.length)
    (hs : IsWords W s) (ha : IsWords W a) (h1 : c1 ≤ 1) (h2 : c2 ≤ 1) :
    val W (sqrDiagLoop W s a c1 c2).1
        + 2 ^ (W * s.length) * ((sqrDiagLoop W s a c1 c2).2.1 + (sqrDiagLoop W s a c1 c2).2.2)
      = 2 * val W s + diag W a + c1 + c2 ∧
    (sqrDiagLoop W s a c1 c2).1.length = s.length ∧ IsWords W (sqrDiagLoop W s a c1 c2).1 ∧
    (sqrDiagLoop W s a c1 c2).2.1 ≤ 1 ∧ (sqrDiagLoop W s a c1 c2).2.2 ≤ 1 :=
  sqrDiagLoop_spec W a s c1 c2 hl hs ha h1 h2

/-- `a² = 2·tri(a) + diag(a)` — the identity behind the fused loop -/
theorem sqr_identity (W : Nat) (a : List Nat) : val W a * val W a = 2 * tri W a + diag W a :=
  sq_eq_tri_diag W a

/-- `sqr::sqr` (simple up to `MAX_LEN_SIMPLE`, otherwise `mul::add_signed_mul_same_len(b, +, a, a)`) and
    `square_large` -/
theorem sqr_exact (W : Nat) (hW : 4 ≤ W) (a : List Nat) (ha : IsWords W a) (hne : a ≠ []) :
    val W (sqrBuffer W a) = val W a * val W a ∧ IsWords W (sqrBuffer W a) :=
  sqrBuffer_spec W hW a ha hne

theorem square_large_exact (W : Nat) (hW : 4 ≤ W) (ws : List Nat) (hw : IsWords W ws) (hne : ws ≠ []) :
    (squareLarge W ws).value W = val W ws * val W ws ∧ (squareLarge W ws).Canon W :=
  squareLarge_spec W hW ws hw hne

-- ====================================================================== pow

/-- `math::max_exp_in_word(base)` (`base > 2`): returns `(k, base^k)` with `k ≥ 1` and `base^k` a word, so
    the `base.pow(exp)` calls for `exp < k` in `pow_word_base` cannot overflow -/
theorem max_exp_in_word_exact (W base : Nat) (hb : 2 < base) (hlt : base < 2 ^ W) :
    (maxExpInWord W base).2 = base ^ (maxExpInWord W base).1 ∧ 1 ≤ (maxExpInWord W base).1 ∧
    (maxExpInWord W base).2 < 2 ^ W :=
  maxExpInWord_spec W base hb hlt

/-- the left-to-right binary loop of `pow_word_base` / `pow_dword_base` / `pow_large_base`, for any carrier
    whose `mul`/`sqr` are exact: started on `b²` at bit `bit_len(exp) − 2` it returns `b^exp` -/
theorem pow_loop_exact {α : Type} (v : α → Nat) (Inv : α → Prop) (mulBase sqr : α → α) (b : Nat)
    (hm : ∀ r, Inv r → v (mulBase r) = v r * b ∧ Inv (mulBase r))
    (hs : ∀ r, Inv r → v (sqr r) = v r * v r ∧ Inv (sqr r)) (exp : Nat) (hexp : 2 ≤ exp)
    (init : α) (hi : Inv init) (hv : v init = b * b) :
    v (powLoop mulBase sqr exp (bitLen exp - 2) init) = b ^ exp ∧
    Inv (powLoop mulBase sqr exp (bitLen exp - 2) init) :=
  powLoop_start v Inv mulBase sqr b hm hs exp hexp init hi hv

/-- `pow_word_base` (bases 0, 1, 2, powers of two, word lifting through `max_exp_in_word`, binary loop) -/
theorem pow_word_base_exact (W base exp : Nat) (hb : base < 2 ^ W) (hexp : exp ≠ 0) :
    powWordBase W base exp = base ^ exp :=
  powWordBase_spec W base exp hb hexp

theorem pow_dword_base_exact (base exp : Nat) (hexp : 2 ≤ exp) : powDwordBase base exp = base ^ exp :=
  powDwordBase_spec base exp hexp

theorem pow_large_base_exact (W : Nat) (hW : 4 ≤ W) (base : List Nat) (exp : Nat)
    (hb : (TRepr.large base).Canon W) (hexp : 2 ≤ exp) :
    (powLargeBase W base exp).value W = val W base ^ exp ∧ (powLargeBase W base exp).Canon W :=
  powLargeBase_spec W hW base exp hb hexp

/-- `TypedReprRef::pow` (shortcuts 0, 1, 2 and the three base classes) -/
theorem repr_pow_exact (W : Nat) (hW : 4 ≤ W) (a : TRepr) (exp : Nat) (ha : a.Canon W) :
    (a.pow W exp).value W = a.value W ^ exp ∧ (a.pow W exp).Canon W :=
  TRepr.pow_spec W hW a exp ha

/-- `trailing_zeros`: `2^tz(n)` divides `n` exactly (the factor removed by `UBig::pow`) -/
theorem trailing_zeros_exact (n : Nat) : n / 2 ^ trailingZeros n * 2 ^ trailingZeros n = n :=
  trailingZeros_spec n

/-- **UBig::pow** over the model (factor-2 removal, then `TypedReprRef::pow`, then shift back): `base^exp`,
    canonical, for every exponent (`usize` arithmetic of `exp * shift`: see `u_pow_checked_exact`). -/
theorem u_pow_exact (W : Nat) (hW : 4 ≤ W) (a : TRepr) (exp : Nat) (ha : a.Canon W) :
    (ubigPow W a exp).value W = a.value W ^ exp ∧ (ubigPow W a exp).Canon W :=
  ubigPow_spec W hW a exp ha

/-- **IBig::pow**: exact, canonical, never "−0" -/
theorem i_pow_exact (W : Nat) (hW : 4 ≤ W) (a : SRepr) (exp : Nat) (ha : a.WF W) :
    (ibigPow W a exp).value W = a.value W ^ exp ∧ (ibigPow W a exp).WF W :=
  ibigPow_spec W hW a exp ha

/-- sign rule of `IBig::pow`: negative iff the base is negative and the exponent is odd -/
theorem i_pow_sign (W : Nat) (hW : 4 ≤ W) (a : SRepr) (exp : Nat) (ha : a.WF W) :
    (ibigPow W a exp).value W < 0 ↔ (a.value W < 0 ∧ exp % 2 = 1) :=
  ibigPow_neg_iff W hW a exp ha

/-- **`UBig::pow` with its `usize` exponent** (`exp.checked_mul(shift)`), as the driver evaluates it: the
    exact power and a canonical result, except that when `exp * shift ≥ 2^64` the result has more than
    `2^64` bits (second clause) and the documented allocation panic is raised.  This is the full statement:
    since `fix: 099d251` the code checks the product (before, it overflowed on exactly the
    `powShiftOverflows` class — witness `corpus/C01/pow_shift_overflow.case`). -/
theorem u_pow_checked_exact (W : Nat) (hW : 4 ≤ W) (a : TRepr) (exp : Nat) (ha : a.Canon W) :
    (powShiftOverflows (a.value W) exp = false →
      ∃ r, ubigPowChecked W a exp = .ok r ∧ r.value W = a.value W ^ exp ∧ r.Canon W) ∧
    (powShiftOverflows (a.value W) exp = true →
      ubigPowChecked W a exp = .error .allocTooMuch ∧ 2 ^ (2 ^ 64) ≤ a.value W ^ exp) := by
  constructor
  · intro h
    exact ⟨ubigPow W a exp, by simp [ubigPowChecked, h], ubigPow_spec W hW a exp ha⟩
  · intro h
    exact ⟨by simp [ubigPowChecked, h], powShiftOverflows_huge _ _ h⟩

/-- the panic class is not empty: `4.pow(2^63)` -/
theorem pow_shift_overflow_witness : powShiftOverflows 4 (2 ^ 63) = true := powShiftOverflows_witness

-- ====================================================================== scratch memory is always sufficient

/-- **`mul_large` can never hit `expect("internal error: not enough memory allocated")`.**
    `memMulLarge l r` replays, for operands of `l` and `r` words, every `Memory::allocate_slice_*` of
    `mul::multiply` (chunk splitting, Karatsuba, Toom-3, recursively; sizes only, block-scoped re-use of the
    chunk as in the source) against the `MemoryAllocation` that `mul_large` makes,
    `mul::memory_requirement_exact(l + r, min(l, r))`; it returns `.ok ()` for all `l`, `r`. -/
theorem mul_scratch_sufficient (l r : Nat) : memMulLarge l r = .ok () := memMulLarge_ok l r

/-- **`square_large` likewise**, with `sqr::memory_requirement_exact(len)` -/
theorem sqr_scratch_sufficient (len : Nat) : memSquareLarge len = .ok () := memSquareLarge_ok len

/-- reusable shape (div / gcd callers pass sub-chunks): any chunk with at least
    `mul::memory_requirement_up_to(_, min(a, b))` free words is enough for `mul::add_signed_mul` on operands of
    `a` and `b` words, and any chunk with `memBound n ≤ mulMemReq n` words for the same-length kernel -/
theorem add_signed_mul_scratch_sufficient (fuel a b avail : Nat) (h : mulMemReq (min a b) ≤ avail) :
    memAddSignedMul fuel a b avail = .ok () := memAddSignedMul_ok fuel a b avail h

theorem add_signed_mul_same_len_scratch_sufficient (fuel n avail : Nat) (h : mulMemReq n ≤ avail) :
    memSameLen fuel n avail = .ok () :=
  memSameLen_ok fuel n avail (Nat.le_trans (memBound_le_req n) h)

/-- the potential behind the proof: what the recursion needs is at most `memBound n`, and `memBound n` is at
    most the requirement.  For Toom-3 it is `4n + 20·(⌈log₃(2n−5)⌉ − 2)` (the requirement `4n + 13·ceil_log2 n`
    does not satisfy its own recurrence level by level; `3^13 ≥ 2^20` closes the gap). -/
theorem scratch_potential_le_requirement (n : Nat) : memBound n ≤ mulMemReq n := memBound_le_req n

/-- the requirements are monotone in the operand length (needed because the remainder call of the chunk
    splitting runs in the same chunk with a shorter operand) -/
theorem mul_requirement_monotone {a b : Nat} (h : a ≤ b) : mulMemReq a ≤ mulMemReq b := mulMemReq_mono h

/-- `math::ceil_log2` is the ceiling logarithm -/
theorem ceil_log2_exact (n : Nat) : ceilLog2 n = Nat.clog 2 n := ceilLog2_eq_clog n

/-- non-vacuity / tightness: with 35 words less than required a 49-word square does run out of memory -/
theorem scratch_requirement_tight : memSameLen 49 49 (sqrMemReq 49 - 35) = .error memPanic :=
  memSameLen_tight

-- ====================================================================== composition with C02 / C09 kernels

/-- `div::div_by_word_in_place(t, 6)` (C02's mirrored kernel) returns exactly what `toomScratch` writes for
    `t1 /= 6`: the words of `val t / 6`, and the remainder `val t % 6` -/
theorem toom3_div6_is_kernel (W : Nat) (hW : 3 ≤ W) (t : List Nat) (ht : IsWords W t) :
    Div.divByWordInPlace W t 6 = .ok (wordsOfLen W t.length (val W t / 6), val W t % 6) :=
  divByWord6_eq W hW t ht

/-- `shift::shr_in_place(t, 1)` (mirrored in C02's model) likewise for `t2 /= 2` -/
theorem toom3_shr1_is_kernel (W : Nat) (hW : 1 ≤ W) (t : List Nat) (ht : IsWords W t) :
    Div.shrInPlace W t 1 = (wordsOfLen W t.length (val W t / 2), (val W t % 2) * 2 ^ (W - 1)) :=
  shrInPlace1_eq W hW t ht

/-- **Toom-3 has no step left at its specification**: on the interpolation buffers the two division kernels
    return exactly the `t1`, `t2` used by the updates of `c`, with remainder zero
    (`assert_eq!(t1_rem, 0)`, `assert_eq!(t2_rem, 0)`) -/
theorem toom3_division_steps_exact (W : Nat) (hW : 4 ≤ W) (rec : MulKernel)
    (hrec : SameLenContract W rec) (a b : List Nat) (hab : a.length = b.length) (hn : 16 ≤ a.length)
    (ha : IsWords W a) (hb : IsWords W b) :
    Div.divByWordInPlace W (toomScratchPre W rec a b).t1 6 = .ok ((toomScratch W rec a b).t1, 0) ∧
    Div.shrInPlace W (toomScratchPre W rec a b).t2 1 = ((toomScratch W rec a b).t2, 0) :=
  toom3_division_steps W hW rec hrec a b hab hn ha hb

/-- **UBig::pow through the mirrored C09 kernels** (`trailing_zeros`, `TypedReprRef >> usize`,
    `TypedRepr << usize`; the driver runs this plus the `Buffer::allocate` checks, `Props/C01Dispatch.u_pow_guarded_iff`): the exact power, canonical; the documented allocation
    panic exactly when `exp * shift` does not fit `usize` -/
theorem u_pow_kernels_exact (W : Nat) (hW : 4 ≤ W) (a : TRepr) (exp : Nat) (ha : a.Canon W) :
    (powShiftOverflows (a.value W) exp = true → ubigPowKernels W a exp = .error .allocTooMuch) ∧
    (powShiftOverflows (a.value W) exp = false →
      ∃ r, ubigPowKernels W a exp = .ok r ∧ r.value W = a.value W ^ exp ∧ r.Canon W) :=
  ubigPowKernels_spec W hW a exp ha

/-- **IBig::pow through the mirrored kernels** -/
theorem i_pow_kernels_exact (W : Nat) (hW : 4 ≤ W) (a : SRepr) (exp : Nat) (ha : a.WF W) :
    (powShiftOverflows (a.mag.value W) exp = true → ibigPowKernels W a exp = .error .allocTooMuch) ∧
    (powShiftOverflows (a.mag.value W) exp = false →
      ∃ r, ibigPowKernels W a exp = .ok r ∧ r.value W = a.value W ^ exp ∧ r.WF W) :=
  ibigPowKernels_spec W hW a exp ha

-- ====================================================================== pow with real buffers

/-- **`pow_word_base` with its buffers as word lists** (branch `exp ≥ 2·wexp`): `Buffer::allocate(e + 1)` with
    `e = exp / wexp`, scratch `array_layout(e/2 + 1)` + `sqr::memory_requirement_exact(e/2 + 1)`; no `push` /
    `push_zeros` capacity assertion fails, no scratch allocation fails (the copy of `res` before each squaring
    fits because `res` has at most `e/2` words then), `push_resizing` never resizes (capacity unchanged), the
    final buffer has at most `e + 1` words ("result is at most exp + 1 words") and holds `base ^ exp` -/
theorem pow_word_base_buffer_exact (W : Nat) (hW : 4 ≤ W) (base exp : Nat) (hb : 2 < base)
    (hlt : base < 2 ^ W) (hexp : 2 * (maxExpInWord W base).1 ≤ exp) :
    ∃ b, powWordBaseBuf W base exp = .ok b ∧ val W b.ws = base ^ exp ∧ IsWords W b.ws ∧
      b.ws.length ≤ exp / (maxExpInWord W base).1 + 1 ∧
      b.cap = bufDefaultCapacity (exp / (maxExpInWord W base).1 + 1) :=
  powWordBaseBuf_spec W hW base exp hb hlt hexp

/-- **`pow_dword_base` likewise**: `Buffer::allocate(2·exp)`, scratch `array_layout(exp)` +
    `sqr::memory_requirement_exact(exp)`; at most `2·exp` words ("result is at most 2 * exp words") -/
theorem pow_dword_base_buffer_exact (W : Nat) (hW : 4 ≤ W) (base exp : Nat) (hlt : base < 2 ^ (2 * W))
    (hexp : 2 ≤ exp) :
    ∃ b, powDwordBaseBuf W base exp = .ok b ∧ val W b.ws = base ^ exp ∧ IsWords W b.ws ∧
      b.ws.length ≤ 2 * exp ∧ b.cap = bufDefaultCapacity (2 * exp) :=
  powDwordBaseBuf_spec W hW base exp hlt hexp

/-- `Repr::from_buffer` of those buffers is the `Repr` that `TRepr.pow` (value-level loop) returns -/
theorem pow_base_buffer_repr (W : Nat) (hW : 4 ≤ W) (base exp : Nat) :
    (2 < base → base < 2 ^ W → 2 * (maxExpInWord W base).1 ≤ exp →
      ∃ b, powWordBaseBuf W base exp = .ok b ∧ fromBuffer W b.ws = ofNat W (powWordBase W base exp)) ∧
    (base < 2 ^ (2 * W) → 2 ≤ exp →
      ∃ b, powDwordBaseBuf W base exp = .ok b ∧ fromBuffer W b.ws = ofNat W (powDwordBase base exp)) :=
  ⟨fun h1 h2 h3 => powWordBaseBuf_repr W hW base exp h1 h2 h3,
   fun h1 h2 => powDwordBaseBuf_repr W hW base exp h1 h2⟩

/-- canonical representations are unique (same value ⇒ same `TRepr`) -/
theorem canonical_unique (W : Nat) (x y : TRepr) (hx : x.Canon W) (hy : y.Canon W)
    (h : x.value W = y.value W) : x = y := canon_unique W x y hx hy h

/-- **`TypedReprRef::pow` end to end with real buffers** (`pow_word_base` / `pow_dword_base` on word lists with
    capacity assertions and scratch allocations, `pow_large_base` on heap values): never panics and returns
    the `Repr` of `base ^ exp` -/
theorem repr_pow_buffers_exact (W : Nat) (hW : 4 ≤ W) (a : TRepr) (exp : Nat) (ha : a.Canon W) :
    ∃ r, a.powBuf W exp = .ok r ∧ r.value W = a.value W ^ exp ∧ r.Canon W := by
  have h := TRepr.pow_spec W hW a exp ha
  exact ⟨a.pow W exp, TRepr.powBuf_eq W hW a exp ha, h.1, h.2⟩

/-- **`UBig::pow` / `IBig::pow` with real buffers** (the driver runs these plus the MAX_CAPACITY checks of
    `Buffer::allocate`, see `Props/C01Dispatch.u_pow_guarded_iff`; mirrored C09 kernels for `trailing_zeros`,
    `>>`, `<<`; buffers for the word / double-word bases): the exact power, canonical; the documented
    allocation panic exactly when `exp * shift` does not fit `usize` -/
theorem u_pow_full_exact (W : Nat) (hW : 4 ≤ W) (a : TRepr) (exp : Nat) (ha : a.Canon W) :
    (powShiftOverflows (a.value W) exp = true → ubigPowFull W a exp = .error .allocTooMuch) ∧
    (powShiftOverflows (a.value W) exp = false →
      ∃ r, ubigPowFull W a exp = .ok r ∧ r.value W = a.value W ^ exp ∧ r.Canon W) := by
  rw [ubigPowFull_eq W hW a exp ha]
  exact ubigPowKernels_spec W hW a exp ha

theorem i_pow_full_exact (W : Nat) (hW : 4 ≤ W) (a : SRepr) (exp : Nat) (ha : a.WF W) :
    (powShiftOverflows (a.mag.value W) exp = true → ibigPowFull W a exp = .error .allocTooMuch) ∧
    (powShiftOverflows (a.mag.value W) exp = false →
      ∃ r, ibigPowFull W a exp = .ok r ∧ r.value W = a.value W ^ exp ∧ r.WF W) := by
  rw [ibigPowFull_eq W hW a exp ha]
  exact ibigPowKernels_spec W hW a exp ha

-- ====================================================================== exactly what the driver evaluates

/-- `u.mul`, `u.sqr`, `u.cubic` as evaluated by the driver, for all naturals -/
theorem u_mul_sqr_cubic_of_nat (W : Nat) (hW : 4 ≤ W) (x y : Nat) :
    ((ofNat W x).mul W (ofNat W y)).value W = x * y ∧
    ((ofNat W x).sqr W).value W = x * x ∧
    ((ofNat W x).mul W ((ofNat W x).sqr W)).value W = x * x * x := by
  have hx := ofNat_canon W (by omega) x
  have hy := ofNat_canon W (by omega) y
  have vx := ofNat_value W (by omega) x
  have vy := ofNat_value W (by omega) y
  have hs := TRepr.sqr_spec W hW _ hx
  refine ⟨?_, ?_, ?_⟩
  · rw [(TRepr.mul_spec W hW _ _ hx hy).1, vx, vy]
  · rw [hs.1, vx]
  · rw [(TRepr.mul_spec W hW _ _ hx hs.2).1, hs.1, vx, Nat.mul_assoc]

/-- `i.mul` as evaluated by the driver, for all integers -/
theorem i_mul_of_int (W : Nat) (hW : 4 ≤ W) (x y : Int) :
    (ibigMul W (.ofInt W x) (.ofInt W y)).value W = x * y := by
  rw [(ibigMul_spec W hW _ _ (SRepr.ofInt_wf W (by omega) x) (SRepr.ofInt_wf W (by omega) y)).1,
    SRepr.ofInt_value W (by omega), SRepr.ofInt_value W (by omega)]

/-- `i.sqr`, `i.cubic` and the mixed `ui.*` / `iu.*` operators as evaluated by the driver, for all integers -/
theorem i_sqr_cubic_of_int (W : Nat) (hW : 4 ≤ W) (x : Int) :
    (((ofNat W x.natAbs).sqr W).value W : Int) = x * x ∧
    (ibigMul W (.ofInt W x) ⟨false, (ofNat W x.natAbs).sqr W⟩).value W = x * x * x := by
  have hs := TRepr.sqr_spec W hW _ (ofNat_canon W (by omega) x.natAbs)
  have hv := ofNat_value W (by omega) x.natAbs
  have hsq : ((x.natAbs * x.natAbs : Nat) : Int) = x * x := by
    push_cast; rw [← Int.natAbs_mul_self (a := x)]; push_cast; rfl
  have hwf : (SRepr.mk false ((ofNat W x.natAbs).sqr W)).WF W := ⟨hs.2, by simp⟩
  refine ⟨by rw [hs.1, hv]; exact hsq, ?_⟩
  rw [(ibigMul_spec W hW _ _ (SRepr.ofInt_wf W (by omega) x) hwf).1, SRepr.ofInt_value W (by omega)]
  simp only [SRepr.value_mk, Bool.false_eq_true, if_false]
  rw [hs.1, hv, hsq]; ring

theorem mixed_ops_of_nat_int (W : Nat) (hW : 4 ≤ W) (x : Nat) (y : Int) (form : Nat) :
    (ibigAdd W ⟨false, ofNat W x⟩ (.ofInt W y) form).value W = x + y ∧
    (ibigSub W ⟨false, ofNat W x⟩ (.ofInt W y) form).value W = x - y ∧
    (ibigMul W ⟨false, ofNat W x⟩ (.ofInt W y)).value W = x * y ∧
    (ibigAdd W (.ofInt W y) ⟨false, ofNat W x⟩ form).value W = y + x ∧
    (ibigSub W (.ofInt W y) ⟨false, ofNat W x⟩ form).value W = y - x ∧
    (ibigMul W (.ofInt W y) ⟨false, ofNat W x⟩).value W = y * x := by
  have hx := SRepr.mk_ofNat_wf W (by omega) x
  have hy := SRepr.ofInt_wf W (by omega) y
  have vx := SRepr.mk_ofNat_value W (by omega) x
  have vy := SRepr.ofInt_value W (by omega) y
  refine ⟨?_, ?_, ?_, ?_, ?_, ?_⟩
  · rw [(ibigAdd_spec W (by omega) _ _ form hx hy).1, vx, vy]
  · rw [(ibigSub_spec W (by omega) _ _ form hx hy).1, vx, vy]
  · rw [(ibigMul_spec W hW _ _ hx hy).1, vx, vy]
  · rw [(ibigAdd_spec W (by omega) _ _ form hy hx).1, vx, vy]
  · rw [(ibigSub_spec W (by omega) _ _ form hy hx).1, vx, vy]
  · rw [(ibigMul_spec W hW _ _ hy hx).1, vx, vy]

/-- `u.pow` / `i.pow` in the value-level formulation (`ubigPowChecked`); the driver runs the buffer-level
    `ubigPowFull` / `ibigPowFull`, see `pow_full_of_nat_int` -/
theorem pow_of_nat_int (W : Nat) (hW : 4 ≤ W) (x : Nat) (z : Int) (n : Nat) :
    (powShiftOverflows x n = false →
      ∃ r, ubigPowChecked W (ofNat W x) n = .ok r ∧ r.value W = x ^ n) ∧
    (powShiftOverflows x n = true → ubigPowChecked W (ofNat W x) n = .error .allocTooMuch) ∧
    (powShiftOverflows z.natAbs n = false →
      ∃ r, ibigPowChecked W (.ofInt W z) n = .ok r ∧ r.value W = z ^ n) ∧
    (powShiftOverflows z.natAbs n = true → ibigPowChecked W (.ofInt W z) n = .error .allocTooMuch) := by
  have vx := ofNat_value W (by omega) x
  have vz : (SRepr.ofInt W z).mag.value W = z.natAbs := by
    simp only [SRepr.ofInt]; exact ofNat_value W (by omega) _
  refine ⟨?_, ?_, ?_, ?_⟩
  · intro h
    refine ⟨ubigPow W (ofNat W x) n, by simp [ubigPowChecked, vx, h], ?_⟩
    rw [(ubigPow_spec W hW _ n (ofNat_canon W (by omega) x)).1, vx]
  · intro h; simp [ubigPowChecked, vx, h]
  · intro h
    refine ⟨ibigPow W (.ofInt W z) n, by simp [ibigPowChecked, vz, h], ?_⟩
    rw [(ibigPow_spec W hW _ n (SRepr.ofInt_wf W (by omega) z)).1, SRepr.ofInt_value W (by omega)]
  · intro h; simp [ibigPowChecked, vz, h]

/-- **`u.pow` / `i.pow` as the driver evaluates them up to the `Buffer::allocate` checks** (`ubigPowFull` / `ibigPowFull` on `ofNat` / `ofInt`
    inputs): the exact power whenever `exp * shift` fits `usize`, the documented allocation panic otherwise -/
theorem pow_full_of_nat_int (W : Nat) (hW : 4 ≤ W) (x : Nat) (z : Int) (n : Nat) :
    (powShiftOverflows x n = false → ∃ r, ubigPowFull W (ofNat W x) n = .ok r ∧ r.value W = x ^ n) ∧
    (powShiftOverflows x n = true → ubigPowFull W (ofNat W x) n = .error .allocTooMuch) ∧
    (powShiftOverflows z.natAbs n = false →
      ∃ r, ibigPowFull W (.ofInt W z) n = .ok r ∧ r.value W = z ^ n) ∧
    (powShiftOverflows z.natAbs n = true → ibigPowFull W (.ofInt W z) n = .error .allocTooMuch) := by
  have vx := ofNat_value W (by omega) x
  have vz : (SRepr.ofInt W z).mag.value W = z.natAbs := by
    simp only [SRepr.ofInt]; exact ofNat_value W (by omega) _
  obtain ⟨u1, u2⟩ := u_pow_full_exact W hW (ofNat W x) n (ofNat_canon W (by omega) x)
  obtain ⟨i1, i2⟩ := i_pow_full_exact W hW (.ofInt W z) n (SRepr.ofInt_wf W (by omega) z)
  rw [vx] at u1 u2
  rw [vz] at i1 i2
  refine ⟨fun h => ?_, u1, fun h => ?_, i1⟩
  · obtain ⟨r, e, v, _⟩ := u2 h
    exact ⟨r, e, v⟩
  · obtain ⟨r, e, v, _⟩ := i2 h
    exact ⟨r, e, by rw [v, SRepr.ofInt_value W (by omega)]⟩

-- ====================================================================== agreement with the regenerated glue

/-- the `Sign` the code's `into_sign_repr` returns for a modelled signed value -/
def signOf (r : SRepr) : Dashu.Sign := if r.neg then .Negative else .Positive

theorem signOf_apply (W : Nat) (r : SRepr) : (signOf r).apply (r.mag.value W) = r.value W := by
  unfold signOf SRepr.value Dashu.Sign.apply
  cases r.neg <;> simp

/-- the hand-written executable compositions `ibigAdd` / `ibigSub` / `ibigMul` (what the driver runs) compute
    the same values as the sign tables regenerated from `/repo`'s `impl_ibig_add/_sub/_mul` macros
    (`Dashu.Gen`, Tie A), with the magnitude kernels refined here -/
theorem i_add_agrees_with_generated_glue (W : Nat) (hW : 1 ≤ W) (a b : SRepr) (form : Nat)
    (ha : a.WF W) (hb : b.WF W) :
    (ibigAdd W a b form).value W
      = Dashu.Gen.impl_ibig_add (signOf a) (a.mag.value W) (signOf b) (b.mag.value W) := by
  rw [(ibigAdd_spec W hW a b form ha hb).1,
    Dashu.Props.GenInt.ibig_add_exact _ _ _ _ (Int.natCast_nonneg _) (Int.natCast_nonneg _),
    signOf_apply, signOf_apply]

theorem i_sub_agrees_with_generated_glue (W : Nat) (hW : 1 ≤ W) (a b : SRepr) (form : Nat)
    (ha : a.WF W) (hb : b.WF W) :
    (ibigSub W a b form).value W
      = Dashu.Gen.impl_ibig_sub (signOf a) (a.mag.value W) (signOf b) (b.mag.value W) := by
  rw [(ibigSub_spec W hW a b form ha hb).1,
    Dashu.Props.GenInt.ibig_sub_exact _ _ _ _ (Int.natCast_nonneg _) (Int.natCast_nonneg _),
    signOf_apply, signOf_apply]

theorem i_mul_agrees_with_generated_glue (W : Nat) (hW : 4 ≤ W) (a b : SRepr)
    (ha : a.WF W) (hb : b.WF W) :
    (ibigMul W a b).value W
      = Dashu.Gen.impl_ibig_mul (signOf a) (a.mag.value W) (signOf b) (b.mag.value W) := by
  rw [(ibigMul_spec W hW a b ha hb).1,
    Dashu.Props.GenInt.ibig_mul_exact _ _ _ _ (Int.natCast_nonneg _) (Int.natCast_nonneg _),
    signOf_apply, signOf_apply]

-- ====================================================================== word-multiplication primitives (math.rs)

/-- **`math::mul_add_carry_dword`** (the four word multiplications behind `mul_dword_spilled`, `square_dword_spilled`
    and the first step of `pow_dword_base`, mirrored and executed by the driver): exactly the low and the high
    double word of `lhs·rhs + carry`, for all naturals -/
theorem mul_add_carry_dword_exact (W lhs rhs carry : Nat) :
    mulAddCarryDword W lhs rhs carry
      = ((lhs * rhs + carry) % 2 ^ (2 * W), (lhs * rhs + carry) / 2 ^ (2 * W)) :=
  mulAddCarryDword_eq W lhs rhs carry

/-- "This operation will not overflow" (`mul_add_carry`, `mul_add_2carry`): on word operands the double-word
    expression `extend_word(a)·extend_word(b) + carries` stays below `B²` -/
theorem mul_add_carry_no_overflow (B a b c0 c1 : Nat) (ha : a < B) (hb : b < B) (h0 : c0 < B) (h1 : c1 < B) :
    a * b + c0 < B * B ∧ a * b + c0 + c1 < B * B :=
  ⟨mulAddCarry_fits B a b c0 ha hb h0, mulAdd2Carry_fits B a b c0 c1 ha hb h0 h1⟩

example : mulAddCarryDword 64 (2^128 - 1) (2^128 - 1) (2^128 - 1) = (0, 2^128 - 1) := by decide +kernel

-- ====================================================================== Tie A: scratch formulas and buffer sizes

open Dashu.Gen.Scratch in
/-- **The scratch formulas of the model are the ones in /repo** (`Dashu.Gen.Scratch` is regenerated from
    `mul/{mod,karatsuba,toom_3}.rs`, `sqr/mod.rs` on every run; `math::ceil_log2` is instantiated by `ceilLog2`,
    which is the regenerated `MathHelpers.ceil_log2` wherever that does not panic) -/
theorem scratch_formulas_regenerated (total n : Nat) :
    karatsubaMemReq n = karatsuba_memory_requirement_up_to ceilLog2 n ∧
    toom3MemReq n = toom_3_memory_requirement_up_to ceilLog2 n ∧
    mulMemReq n = mul_memory_requirement_up_to ceilLog2 total n ∧
    mulMemReq n = mul_memory_requirement_exact ceilLog2 total n ∧
    sqrMemReq n = sqr_memory_requirement_exact ceilLog2 n ∧
    (∀ bits, n < 2 ^ bits → n ≠ 0 → Dashu.Gen.MathHelpers.ceil_log2 bits n = some (ceilLog2 n)) :=
  ⟨rfl, rfl, rfl, rfl, rfl, fun bits h h0 => ceilLog2_eq_gen bits n h h0⟩

open Dashu.Gen.Scratch in
/-- **`mul_large` / `square_large` with the REGENERATED requirement as the size of their `MemoryAllocation`**:
    no `Memory::allocate_slice_*` of `mul::multiply` / `sqr::sqr` (chunk splitting, Karatsuba, Toom-3, recursively) can
    hit "internal error: not enough memory allocated", for all operand lengths -/
theorem mul_sqr_scratch_sufficient_regenerated (l r : Nat) :
    memAddSignedMul (l + r) l r (mul_memory_requirement_exact ceilLog2 (l + r) (min l r)) = .ok () ∧
    memSqr l (sqr_memory_requirement_exact ceilLog2 l) = .ok () :=
  ⟨memMulLarge_gen_ok l r, memSquareLarge_gen_ok l⟩

open Dashu.Gen.Scratch in
/-- callers that pass a sub-chunk (division, gcd, modular multiplication): the regenerated
    `mul::memory_requirement_up_to(_, min(a, b))` words are enough for `mul::add_signed_mul` on `a` and `b` words -/
theorem add_signed_mul_scratch_sufficient_regenerated (fuel a b total avail : Nat)
    (h : mul_memory_requirement_up_to ceilLog2 total (min a b) ≤ avail) :
    memAddSignedMul fuel a b avail = .ok () :=
  memAddSignedMul_gen_ok fuel a b total avail h

open Dashu.Gen.Scratch in
/-- **`pow_word_base`'s three arms and the buffer / scratch sizes of `pow_word_base`, `pow_dword_base` are the
    regenerated ones**: the value-level mirror takes `base^exp` (one word) iff the regenerated split says 0, the
    double-word product iff 1, the buffer loop iff 2; `Buffer::allocate(e + 1)` / `allocate(2·exp)` and the scratch
    layouts of `powWordBaseBuf` / `powDwordBaseBuf` are `pow_*_buffer_words` / `pow_*_scratch_words` -/
theorem pow_split_and_sizes_regenerated (W base exp : Nat) (hb : 2 < base) (hp : isPow2 base = false) :
    ((pow_word_base_path exp (maxExpInWord W base).1 = 0 ↔ exp < (maxExpInWord W base).1) ∧
     (pow_word_base_path exp (maxExpInWord W base).1 = 1 ↔
        (maxExpInWord W base).1 ≤ exp ∧ exp < 2 * (maxExpInWord W base).1) ∧
     (pow_word_base_path exp (maxExpInWord W base).1 = 2 ↔ 2 * (maxExpInWord W base).1 ≤ exp)) ∧
    (pow_word_base_path exp (maxExpInWord W base).1 = 0 → powWordBase W base exp = base ^ exp) ∧
    (pow_word_base_path exp (maxExpInWord W base).1 = 1 →
      powWordBase W base exp = (maxExpInWord W base).2 * base ^ (exp - (maxExpInWord W base).1)) ∧
    (exp + 1 = pow_word_base_buffer_words exp ∧
     (exp / 2 + 1) + sqrMemReq (exp / 2 + 1) = pow_word_base_scratch_words ceilLog2 exp ∧
     2 * exp = pow_dword_base_buffer_words exp ∧
     exp + sqrMemReq exp = pow_dword_base_scratch_words ceilLog2 exp) :=
  ⟨pow_word_base_path_spec exp _, (powWordBase_by_path W base exp hb hp).1,
   (powWordBase_by_path W base exp hb hp).2.1, powBuf_sizes_eq_gen exp⟩

example : isPow2 10 = false ∧ Dashu.Gen.Scratch.pow_word_base_path 25 (maxExpInWord 64 10).1 = 1 := by decide

open Dashu.Gen.Scratch in
/-- the same regenerated formulas are what C02's division-memory model and C17's ledger model carry by hand
    (`div::memory_requirement_exact` under its own `assert!`, `root::memory_requirement_sqrt_rem`, the `shl_large`
    capacity guard with its `shift_words`, `shl_large_ref`'s allocation) — proved here so that those models are tied to
    /repo without being edited -/
theorem other_models_scratch_formulas_regenerated (la lb n cap rhs W : Nat) :
    (div_memory_requirement_exact_asserts la lb = true →
      Div.divMemReq la lb = .ok (div_memory_requirement_exact ceilLog2 la lb)) ∧
    (div_memory_requirement_exact_asserts la lb = false → ∃ k, Div.divMemReq la lb = .error k) ∧
    Mem.mulScratchWords n = mul_memory_requirement_up_to ceilLog2 la n ∧
    Mem.sqrScratchWords Dashu.Gen.sqr_MAX_LEN_SIMPLE n = sqr_memory_requirement_exact ceilLog2 n ∧
    Mem.divScratchWords la lb = div_memory_requirement_exact ceilLog2 la lb ∧
    Mem.sqrtScratchWords Dashu.Gen.sqr_MAX_LEN_SIMPLE n = root_memory_requirement_sqrt_rem ceilLog2 n ∧
    (decide (cap < la + rhs / W + 1) = shl_large_takes_ref_path cap la (shl_large_shift_words W rhs)) ∧
    rhs / W + la + 1 = shl_large_ref_buffer_words (shl_large_shift_words W rhs) la ∧
    (n / 2 + 1) + Mem.sqrScratchWords Dashu.Gen.sqr_MAX_LEN_SIMPLE (n / 2 + 1) = pow_word_base_scratch_words ceilLog2 n ∧
    n + Mem.sqrScratchWords Dashu.Gen.sqr_MAX_LEN_SIMPLE n = pow_dword_base_scratch_words ceilLog2 n :=
  ⟨(divMemReq_eq_gen la lb).1, (divMemReq_eq_gen la lb).2, mulScratchWords_eq_gen la n, sqrScratchWords_eq_gen n,
   divScratchWords_eq_gen la lb, sqrtScratchWords_eq_gen n, (shl_large_guard_eq_gen W cap la rhs).1,
   (shl_large_guard_eq_gen W cap la rhs).2, (memPow_sizes_eq_gen n).1, (memPow_sizes_eq_gen n).2⟩

-- non-vacuity: canonical heap operands exist, reach the borrow/shrink and sign paths
example : (TRepr.large [0, 0, 1]).Canon 64 ∧ (TRepr.large [1, 0, 1]).Canon 64 := by
  constructor <;> decide
example : (TRepr.large [0, 0, 1]).sub 64 (TRepr.large [1, 0, 1]) = .error .negativeUBig := by decide
example : (TRepr.large [1, 0, 1]).sub 64 (TRepr.large [0, 0, 1]) = .ok (.small 1) := by decide
example : (TRepr.large [0, 0, 1]).subSigned 64 (TRepr.large [1, 0, 1]) = ⟨true, .small 1⟩ := by decide
example : (SRepr.mk true (.small 5)).WF 64 := ⟨by decide, by decide⟩
example : IsWords 8 [255, 255, 1] ∧ (mulWordInPlace 8 [255, 255, 1] 255 0) = ([1, 255, 253], 1) := by
  constructor <;> decide


-- non-vacuity: a concrete 3-word operand pair meets the hypotheses and carries out of the top word
example : IsWords 64 [2^64-1, 2^64-1, 2^64-1] ∧ IsWords 64 [1, 0, 0] ∧
    (addSameLen 64 [2^64-1, 2^64-1, 2^64-1] [1, 0, 0] 0) = ([0, 0, 0], 1) := by
  refine ⟨by decide, by decide, by decide⟩


-- non-vacuity of the hypotheses of the multiplication / pow / memory theorems: concrete large instances
example : IsWords 64 (List.replicate 200 (2^64-1)) := by decide +kernel
example : (TRepr.large (List.replicate 193 1)).Canon 64 := by decide +kernel          -- a Toom-3-sized operand
example : (SRepr.mk true (.large [0,0,1])).WF 64 := ⟨by decide, by decide⟩             -- a negative heap IBig
example : SameLenContract 64 (addSignedMulSameLen 64 200) := add_signed_mul_same_len_exact 64 (by decide) 200
example : GenContract 64 (addSignedMul 64 400) := add_signed_mul_exact 64 (by decide) 400
example : 2 < 3 ∧ 3 < 2^64 ∧ 2 * (maxExpInWord 64 3).1 ≤ 100 := by decide            -- pow_word_base loop branch
example : (List.replicate 16 7).length = (List.replicate 16 9).length ∧ 16 ≤ (List.replicate 16 7).length := by
  decide                                                                              -- Toom-3 MIN_LEN
example : powShiftOverflows 3 5 = false := by simp [powShiftOverflows, trailingZeros_odd 3 (by decide)]
example : mulMemReq (min 400 193) ≤ mulMemReq 193 := Nat.le_refl _

end Dashu.Props.C01
