import Dashu.Props.GenFloatForms
import Dashu.Proofs.Float.Digits
/-
  C15 — the four hand-written variants of float addition (`add_val_val`, `add_val_ref`, `add_ref_val`, `add_ref_ref` of
  float/src/add.rs, AS REGENERATED on this run into Gen/FloatAdd.lean) return the same result — value, precision, panic —
  for all operands.  `GenFloatForms` has the two reference-taking variants; here are the two CONSUMING ones, which are
  written differently: they multiply the sign into the right operand first and call the alignment routines with sign
  `Positive` (`add_ref_val` moreover with the operands exchanged, because the consumed right operand is the one whose
  buffer is reused).  That they still compute `opAddSub` needs one fact about the model, `addLS_sign`: moving the sign
  from the parameter into the right significand does not change `reprAddLargeSmall` — true when the digit estimate
  `Repr::digits_ub` does not depend on the sign of the significand (hypothesis `hdub`; it is computed from the magnitude).
-/
set_option linter.unusedSimpArgs false
namespace Dashu.Props.C15FloatAdd
open Dashu Dashu.Gen Dashu.GluePrelude Dashu.Proofs.Gen Dashu.Model.Float Dashu.Props.GenFloatOps Dashu.Props.GenFloatAdd
  Dashu.Props.GenFloatForms

theorem splitDigits_neg (B : Nat) (v : Int) (n : Nat) :
    splitDigits B (-v) n = (-(splitDigits B v n).1, -(splitDigits B v n).2) := by
  rw [splitDigits_eq, splitDigits_eq]
  unfold splitSpec
  simp [Int.neg_tdiv, Int.neg_tmod]

theorem sgn_neg (x : Int) : sgn (-x) = -sgn x := by
  have := sgn_rsI .Negative x
  simpa [rsI] using this

theorem addLS_sign (B : Nat) (m : Mode) (c : Coarse) (dub : Int → Nat) (hdub : ∀ x, dub (-x) = dub x) (p : Nat)
    (sg : Sign) (lhs : Model.Float.FRepr) (rs re : Int) :
    reprAddLargeSmall B m c dub p lhs ⟨rsI sg * rs, re⟩ 1 = reprAddLargeSmall B m c dub p lhs ⟨rs, re⟩ (rsI sg) := by
  cases sg
  · simp only [rsI, Int.one_mul]
  · unfold reprAddLargeSmall
    simp only [rsI, Int.neg_mul, Int.one_mul, splitDigits_neg, hdub, sgn_neg]


theorem mul_rsI_ne (sg : Sign) (x : Int) (h : ¬ x = 0) : ¬ (x * rsI sg = 0) := by
  rcases rsI_cases sg with e | e <;> rw [e] <;> omega

theorem rsI_pos : rsI Sign.Positive = 1 := rfl

-- the three exponent cases of two non-zero operands, `E` = the right exponent as it stands in the goal
set_option hygiene false in
local macro "fin_val_val " E:term : tactic => `(tactic| (
  have hne := mul_rsI_ne sg rs h3
  try simp only [hne, if_false]
  rcases int_tri le $E with ⟨h_lt, h_ne, h_ngt, h_nge, h_le, h_cmp⟩ | ⟨h_nlt, h_eq, h_ngt, h_ge, h_le, h_cmp⟩ |
      ⟨h_nlt, h_ne, h_gt, h_ge, h_nle, h_cmp⟩
  · simp only [h_cmp, h_ne, h_ngt, if_false,
      repr_add_small_large_is_model B m c dub _ ls le (rs * rsI sg) $E .Positive h_le h1 hne, value_toGA, toG, rsI_pos, Int.one_mul]
  · subst h_eq
    simp only [compare_self_int, if_true, modelK_repr_new, repr_round_is_model, new_not_inf, if_false, value_toGA, toG]
  · simp only [h_cmp, h_ne, h_gt, if_false, if_true,
      repr_add_large_small_is_model B m c dub _ ls le (rs * rsI sg) $E .Positive h_ge h1 hne, value_toGA, toG, rsI_pos,
      ← addLS_sign B m c dub hdub, Int.mul_comm]))

/-- **`add_val_val` (`FBig ± FBig`, both consumed) as regenerated** — same closed form as `add_val_ref_is_model`; the
    sign is multiplied into the right operand first, so the digit estimate must not depend on the sign (`hdub`) -/
theorem add_val_val_is_model (B : Nat) (m : Mode) (c : Coarse) (dub : Int → Nat) (hdub : ∀ x, dub (-x) = dub x)
    (ls le : Int) (pl : Nat) (rs re : Int) (pr : Nat) (sg : Sign) :
    add_val_val (modelK B m c dub) ⟨⟨ls, le⟩, ⟨(pl : Int)⟩⟩ ⟨⟨rs, re⟩, ⟨(pr : Int)⟩⟩ sg =
      if (ls = 0 ∧ le ≠ 0) ∨ (rs = 0 ∧ re ≠ 0) then .error .OperateWithInf
      else .ok ⟨toG (formValue B m c dub (Nat.max pl pr) ⟨ls, le⟩ ⟨rs, re⟩ (rsI sg)), ⟨((Nat.max pl pr : Nat) : Int)⟩⟩ := by
  unfold add_val_val formValue ctxAddSub
  simp only [context_max_eq, assert_finite_operands, Repr_is_infinite, Repr_is_zero, Model.Float.FRepr.isZero, is_zero_int,
    eq_int, ne_int, cmp_int, int_mul_sign, sign_mul_int_eq, FBig_new, add_int, sub_int]
  gcases h1 : ls = 0 <;> gcases h2 : le = 0 <;> gcases h3 : rs = 0 <;> gcases h4 : re = 0
  all_goals (try simp only [apply_eq, toG, Int.mul_comm, Int.zero_mul, Int.mul_zero, repr_round_is_model,
    repr_round_ref_is_model, value_toGA])
  all_goals (try simp only [if_true])
  all_goals (try (first | fin_val_val re | fin_val_val (0 : Int)))
  -- zero-operand arms (fix 164990d): `context.repr_round(other).value()`; the other operand is finite here
  all_goals (try (
    have hc : ¬ (rs * rsI sg = 0 ∧ re ≠ 0) := by
      rintro ⟨h0, _⟩
      rcases rsI_cases sg with h | h <;> rw [h] at h0 <;> omega
    simp only [hc, if_false, value_toGA, toG]))
  all_goals (try simp only [h1, ne_eq, not_true_eq_false, and_false, false_and, if_false, value_toGA, toG])


-- `add_ref_val`: the consumed right operand is the buffer the sum is built in, so the two alignment routines are called
-- with the operands exchanged
set_option hygiene false in
local macro "fin_ref_val " E:term : tactic => `(tactic| (
  have hne := mul_rsI_ne sg rs h3
  try simp only [hne, if_false]
  rcases int_tri le $E with ⟨h_lt, h_ne, h_ngt, h_nge, h_le, h_cmp⟩ | ⟨h_nlt, h_eq, h_ngt, h_ge, h_le, h_cmp⟩ |
      ⟨h_nlt, h_ne, h_gt, h_ge, h_nle, h_cmp⟩
  · simp only [h_cmp, h_ne, h_ngt, if_false,
      repr_add_large_small_is_model B m c dub _ (rs * rsI sg) $E ls le .Positive h_le hne h1, value_toGA, toG, rsI_pos, Int.one_mul]
  · subst h_eq
    simp only [compare_self_int, if_true, modelK_repr_new, repr_round_is_model, new_not_inf, if_false, value_toGA, toG]
  · simp only [h_cmp, h_ne, h_gt, if_false, if_true,
      repr_add_small_large_is_model B m c dub _ (rs * rsI sg) $E ls le .Positive h_ge hne h1, value_toGA, toG, rsI_pos,
      Int.one_mul, Int.mul_one, ← addLS_sign B m c dub hdub, Int.mul_comm]))

/-- **`add_ref_val` (`&FBig ± FBig`) as regenerated** -/
theorem add_ref_val_is_model (B : Nat) (m : Mode) (c : Coarse) (dub : Int → Nat) (hdub : ∀ x, dub (-x) = dub x)
    (ls le : Int) (pl : Nat) (rs re : Int) (pr : Nat) (sg : Sign) :
    add_ref_val (modelK B m c dub) ⟨⟨ls, le⟩, ⟨(pl : Int)⟩⟩ ⟨⟨rs, re⟩, ⟨(pr : Int)⟩⟩ sg =
      if (ls = 0 ∧ le ≠ 0) ∨ (rs = 0 ∧ re ≠ 0) then .error .OperateWithInf
      else .ok ⟨toG (formValue B m c dub (Nat.max pl pr) ⟨ls, le⟩ ⟨rs, re⟩ (rsI sg)), ⟨((Nat.max pl pr : Nat) : Int)⟩⟩ := by
  unfold add_ref_val formValue ctxAddSub
  simp only [context_max_eq, assert_finite_operands, Repr_is_infinite, Repr_is_zero, Model.Float.FRepr.isZero, is_zero_int,
    eq_int, ne_int, cmp_int, int_mul_sign, sign_mul_int_eq, FBig_new, add_int, sub_int]
  gcases h1 : ls = 0 <;> gcases h2 : le = 0 <;> gcases h3 : rs = 0 <;> gcases h4 : re = 0
  all_goals (try simp only [apply_eq, toG, Int.mul_comm, Int.zero_mul, Int.mul_zero, repr_round_is_model,
    repr_round_ref_is_model, value_toGA])
  all_goals (try simp only [if_true])
  all_goals (try (first | fin_ref_val re | fin_ref_val (0 : Int)))
  -- zero-operand arms (fix 164990d): `context.repr_round(other).value()`; the other operand is finite here
  all_goals (try (
    have hc : ¬ (rs * rsI sg = 0 ∧ re ≠ 0) := by
      rintro ⟨h0, _⟩
      rcases rsI_cases sg with h | h <;> rw [h] at h0 <;> omega
    simp only [hc, if_false, value_toGA, toG]))
  all_goals (try simp only [h1, ne_eq, not_true_eq_false, and_false, false_and, if_false, value_toGA, toG])

/-- **C15 for `FBig + FBig` and `FBig − FBig`: the four hand-written variants agree** (value, precision, panic), for every
    base, rounding mode, coarse test and every digit estimate that does not depend on the sign of its argument -/
theorem float_add_forms_agree (B : Nat) (m : Mode) (c : Coarse) (dub : Int → Nat) (hdub : ∀ x, dub (-x) = dub x)
    (ls le : Int) (pl : Nat) (rs re : Int) (pr : Nat) (sg : Sign) :
    add_val_val (modelK B m c dub) ⟨⟨ls, le⟩, ⟨(pl : Int)⟩⟩ ⟨⟨rs, re⟩, ⟨(pr : Int)⟩⟩ sg =
      add_ref_ref (modelK B m c dub) ⟨⟨ls, le⟩, ⟨(pl : Int)⟩⟩ ⟨⟨rs, re⟩, ⟨(pr : Int)⟩⟩ sg ∧
    add_val_ref (modelK B m c dub) ⟨⟨ls, le⟩, ⟨(pl : Int)⟩⟩ ⟨⟨rs, re⟩, ⟨(pr : Int)⟩⟩ sg =
      add_ref_ref (modelK B m c dub) ⟨⟨ls, le⟩, ⟨(pl : Int)⟩⟩ ⟨⟨rs, re⟩, ⟨(pr : Int)⟩⟩ sg ∧
    add_ref_val (modelK B m c dub) ⟨⟨ls, le⟩, ⟨(pl : Int)⟩⟩ ⟨⟨rs, re⟩, ⟨(pr : Int)⟩⟩ sg =
      add_ref_ref (modelK B m c dub) ⟨⟨ls, le⟩, ⟨(pl : Int)⟩⟩ ⟨⟨rs, re⟩, ⟨(pr : Int)⟩⟩ sg := by
  rw [add_val_val_is_model B m c dub hdub, add_ref_val_is_model B m c dub hdub, add_val_ref_is_model, add_ref_ref_is_model]
  exact ⟨rfl, rfl, rfl⟩

/-- the hypothesis on the digit estimate holds for every estimate computed from the magnitude — `Repr::digits_ub` is
    (`log2_bounds` of the significand's magnitude; `Driver/Float.dubF32` starts with `let n := v.natAbs`) -/
theorem dub_of_magnitude (f : Nat → Nat) (x : Int) : (fun v : Int => f v.natAbs) (-x) = (fun v : Int => f v.natAbs) x := by
  simp only [Int.natAbs_neg]

example : add_val_val (modelK 10 .halfAway coarseNone (fun v => v.natAbs)) ⟨⟨123, 2⟩, ⟨(3 : Nat)⟩⟩ ⟨⟨45, -1⟩, ⟨(2 : Nat)⟩⟩ .Negative =
    add_ref_val (modelK 10 .halfAway coarseNone (fun v => v.natAbs)) ⟨⟨123, 2⟩, ⟨(3 : Nat)⟩⟩ ⟨⟨45, -1⟩, ⟨(2 : Nat)⟩⟩ .Negative := by
  have h := float_add_forms_agree 10 .halfAway coarseNone (fun v => v.natAbs) (dub_of_magnitude id) 123 2 3 45 (-1) 2 .Negative
  exact h.1.trans h.2.2.symm

end Dashu.Props.C15FloatAdd
