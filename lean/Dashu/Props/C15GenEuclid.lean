import Dashu.Props.C15Values
import Dashu.Gen.FormsGlue
namespace Dashu.Props.C15GenEuclid
open Dashu Dashu.Model.Float Dashu.Model.Forms Dashu.Props.C15Values

/-! ### Tie A: the BY-VALUE bodies of `DivEuclid` / `RemEuclid` / `DivRemEuclid` for `FBig`, as regenerated from
    float/src/div.rs on this run (`Gen/FormsGlue.lean`: `f_DivEuclid_val_val`, `f_RemEuclid_val_val`,
    `f_DivRemEuclid_val_val`), evaluated in a value domain that interprets every callee by the model, ARE the mirrored
    definitions the driver executes.  (Until round 4 only the delegation of the reference forms to these bodies was a
    theorem.)  A change of the source body — another exponent for the remainder, a dropped zero test, `max` for `min`,
    a different context — changes the regenerated text and breaks these statements. -/

/-- the values that occur in the three bodies -/
inductive Val where
  | fb (x : FBigM) | rp (r : FRepr) | int (i : Int) | ctx (p : Nat) | bool (b : Bool) | bad
  deriving DecidableEq

def iExp : Val → Val | .rp r => .int r.exp | _ => .bad
def iRepr : Val → Val | .fb x => .rp x.repr | _ => .bad
def iMin : Val → Val → Val | .int a, .int b => .int (min a b) | _, _ => .bad
def iCtx : Val → Val | .fb x => .ctx x.prec | _ => .bad
def iMax : Val → Val → Val | .ctx a, .ctx b => .ctx (ctxMax a b) | _, _ => .bad
def iAlign (B : Nat) : Val → Val → Val × Val
  | .fb x, .fb y => (.int (alignAsInt B x.repr y.repr).1, .int (alignAsInt B x.repr y.repr).2)
  | _, _ => (.bad, .bad)
/-- `IBig::div_euclid`, `rem_euclid`, `div_rem_euclid` at their contract (C02; non-zero divisor) -/
def iDivE : Val → Val → Val | .int a, .int b => .int (a / b) | _, _ => .bad
def iRemE : Val → Val → Val | .int a, .int b => .int (a % b) | _, _ => .bad
def iDivRemE : Val → Val → Val × Val | .int a, .int b => (.int (a / b), .int (a % b)) | _, _ => (.bad, .bad)
/-- `Context::convert_int(n)` (`.value()` and `.into()` are the identity on values) -/
def iConv (B : Nat) (m : Mode) (c : Coarse) : Val → Val → Val
  | .ctx p, .int r => .fb ⟨convertInt B m c p r, p⟩ | _, _ => .bad
def iNot : Val → Val | .bool b => .bool (!b) | _ => .bad
def iSignif : Val → Val | .rp r => .int r.signif | _ => .bad
/-- `IBig::is_zero` and `Repr::is_zero` -/
def iIsZero : Val → Val | .int i => .bool (i == 0) | .rp r => .bool r.isZero | _ => .bad
def iAdd : Val → Val → Val | .int a, .int b => .int (a + b) | _, _ => .bad
def iUpd : Val → Val → Val | .fb x, .int e => .fb ⟨⟨x.repr.signif, e⟩, x.prec⟩ | _, _ => .bad
def iIte : Val → Val → Val → Val | .bool true, a, _ => a | .bool false, _, b => b | _, _, _ => .bad

theorem gen_DivEuclid_is_model (B : Nat) (x y : FBigM) (q : Int) (h : fDivEuclid B x y = .ok q) :
    Gen.f_DivEuclid_val_val (iAlign B) iDivE (.fb x) (.fb y) = .int q := by
  unfold fDivEuclid at h
  by_cases hd : (alignAsInt B x.repr y.repr).2 = 0
  · simp [hd] at h
  · simp only [hd, if_false, Except.ok.injEq] at h
    simp [Gen.f_DivEuclid_val_val, iAlign, iDivE, h]

theorem gen_RemEuclid_is_model (B : Nat) (m : Mode) (c : Coarse) (x y r : FBigM) (h : fRemEuclid B m c x y = .ok r) :
    Gen.f_RemEuclid_val_val iExp iRepr iMin iCtx iMax (iAlign B) iRemE id (iConv B m c) id iNot iSignif iIsZero iAdd
      iUpd iIte (.fb x) (.fb y) = .fb r := by
  unfold fRemEuclid at h
  by_cases hd : (alignAsInt B x.repr y.repr).2 = 0
  · simp [hd] at h
  · simp only [hd, if_false, Except.ok.injEq] at h
    subst h
    unfold euclidRemTail
    by_cases hz : (convertInt B m c (ctxMax x.prec y.prec)
        ((alignAsInt B x.repr y.repr).1 % (alignAsInt B x.repr y.repr).2)).signif = 0
    · simp [Gen.f_RemEuclid_val_val, iExp, iRepr, iMin, iCtx, iMax, iAlign, iRemE, iConv, iNot, iSignif, iIsZero,
        iAdd, iUpd, iIte, hz]
    · have hb : ((convertInt B m c (ctxMax x.prec y.prec)
          ((alignAsInt B x.repr y.repr).1 % (alignAsInt B x.repr y.repr).2)).signif == 0) = false := by simpa using hz
      simp [Gen.f_RemEuclid_val_val, iExp, iRepr, iMin, iCtx, iMax, iAlign, iRemE, iConv, iNot, iSignif, iIsZero,
        iAdd, iUpd, iIte, hz, hb]

theorem gen_DivRemEuclid_is_model (B : Nat) (m : Mode) (c : Coarse) (x y r : FBigM) (q : Int)
    (h : fDivRemEuclid B m c x y = .ok (q, r)) :
    Gen.f_DivRemEuclid_val_val iExp iRepr iMin iCtx iMax (iAlign B) iDivRemE id (iConv B m c) id iNot iSignif iIsZero
      iAdd iUpd iIte (.fb x) (.fb y) = (.int q, .fb r) := by
  unfold fDivRemEuclid at h
  by_cases hd : (alignAsInt B x.repr y.repr).2 = 0
  · simp [hd] at h
  · simp only [hd, if_false, Except.ok.injEq, Prod.mk.injEq] at h
    obtain ⟨hq, hr⟩ := h
    subst hq; subst hr
    unfold euclidRemTail
    by_cases hz : (convertInt B m c (ctxMax x.prec y.prec)
        ((alignAsInt B x.repr y.repr).1 % (alignAsInt B x.repr y.repr).2)).signif = 0
    · simp [Gen.f_DivRemEuclid_val_val, iExp, iRepr, iMin, iCtx, iMax, iAlign, iDivRemE, iConv, iNot, iSignif,
        iIsZero, iAdd, iUpd, iIte, hz]
    · have hb : ((convertInt B m c (ctxMax x.prec y.prec)
          ((alignAsInt B x.repr y.repr).1 % (alignAsInt B x.repr y.repr).2)).signif == 0) = false := by simpa using hz
      simp [Gen.f_DivRemEuclid_val_val, iExp, iRepr, iMin, iCtx, iMax, iAlign, iDivRemE, iConv, iNot, iSignif,
        iIsZero, iAdd, iUpd, iIte, hz, hb]

/-- hence the trait-method form on the REGENERATED bodies: `div_rem_euclid` returns the pair of what `div_euclid` and
    `rem_euclid` return -/
theorem gen_euclid_method_forms (B : Nat) (m : Mode) (c : Coarse) (x y r : FBigM) (q : Int)
    (h : fDivRemEuclid B m c x y = .ok (q, r)) :
    Gen.f_DivRemEuclid_val_val iExp iRepr iMin iCtx iMax (iAlign B) iDivRemE id (iConv B m c) id iNot iSignif iIsZero
      iAdd iUpd iIte (.fb x) (.fb y)
    = (Gen.f_DivEuclid_val_val (iAlign B) iDivE (.fb x) (.fb y),
       Gen.f_RemEuclid_val_val iExp iRepr iMin iCtx iMax (iAlign B) iRemE id (iConv B m c) id iNot iSignif iIsZero iAdd
         iUpd iIte (.fb x) (.fb y)) := by
  have hp := fDivRemEuclid_pair B m c x y
  rw [h] at hp
  cases hq : fDivEuclid B x y with
  | error e => rw [hq] at hp; simp [bind, Except.bind] at hp
  | ok q' =>
    cases hr : fRemEuclid B m c x y with
    | error e => rw [hq, hr] at hp; simp [bind, Except.bind] at hp
    | ok r' =>
      rw [hq, hr] at hp
      simp only [bind, Except.bind, pure, Except.pure, Except.ok.injEq, Prod.mk.injEq] at hp
      rw [gen_DivRemEuclid_is_model B m c x y r q h, gen_DivEuclid_is_model B x y q' hq,
        gen_RemEuclid_is_model B m c x y r' hr, hp.1, hp.2]


/-! ### the same tie for the other hand-written float operator bodies: shifts (float/src/shift.rs), the four `Mul` impls
    (float/src/mul.rs) and the `Div` / `Rem` macro `impl_div_or_rem_for_fbig` (float/src/div.rs) -/

def iSub : Val → Val → Val | .int a, .int b => .int (a - b) | _, _ => .bad
def iMul : Val → Val → Val | .int a, .int b => .int (a * b) | _, _ => .bad
/-- `Repr::new(significand, exponent)` and `FBig::new(repr, context)` (the translator has one name for both) -/
def iNew (B : Nat) : Val → Val → Val
  | .int s, .int e => .rp (FRepr.new B s e)
  | .rp r, .ctx p => .fb ⟨r, p⟩
  | _, _ => .bad
/-- `Context::repr_round(repr)` (`.value()` is the identity on values) -/
def iRound (B : Nat) (m : Mode) (c : Coarse) : Val → Val → Val
  | .ctx p, .rp r => .rp (reprRound B m c p r).1 | _, _ => .bad
/-- `Context::repr_div` below its guards (finite operands, limited precision, dividend length) -/
def iReprDiv (B : Nat) (m : Mode) : Val → Val → Val → Val
  | .ctx p, .rp l, .rp r => (match reprDiv B m p l r with | .ok v => .rp v.1 | .error _ => .bad)
  | _, _, _ => .bad
/-- `Context::repr_rem` -/
def iReprRem (B : Nat) (m : Mode) (c : Coarse) : Val → Val → Val → Val
  | .ctx p, .rp l, .rp r => (match reprRem B m c p l r with | .ok v => .rp v.1 | .error _ => .bad)
  | _, _, _ => .bad

/-- `x << n`, `x <<= n` (regenerated) = `fShl` wherever the exponent stays inside `isize`; the guard (`assert_finite`) is
    returned beside the value and not interpreted -/
theorem gen_Shl_is_model (g : Val → Val) (x y : FBigM) (n : Int) (h : fShl x n = .ok y) :
    (Gen.f_Shl_val_val iRepr g iNot iIsZero iAdd iExp iUpd iIte (.fb x) (.int n)).1 = .fb y ∧
    (Gen.f_ShlAssign_mut_val iRepr g iNot iIsZero iAdd iExp iUpd iIte (.fb x) (.int n)).1 = .fb y := by
  unfold fShl at h
  by_cases hz : x.repr.isZero = true
  · simp only [hz, if_true, Except.ok.injEq] at h
    subst h
    simp [Gen.f_Shl_val_val, Gen.f_ShlAssign_mut_val, iRepr, iNot, iIsZero, iAdd, iExp, iUpd, iIte, hz]
  · simp only [hz, Bool.false_eq_true, if_false] at h
    split at h
    · exact absurd h (by simp)
    · simp only [Except.ok.injEq] at h
      subst h
      have hb : x.repr.isZero = false := by simpa using hz
      simp [Gen.f_Shl_val_val, Gen.f_ShlAssign_mut_val, iRepr, iNot, iIsZero, iAdd, iExp, iUpd, iIte, hb]

theorem gen_Shr_is_model (g : Val → Val) (x y : FBigM) (n : Int) (h : fShr x n = .ok y) :
    (Gen.f_Shr_val_val iRepr g iNot iIsZero iSub iExp iUpd iIte (.fb x) (.int n)).1 = .fb y ∧
    (Gen.f_ShrAssign_mut_val iRepr g iNot iIsZero iSub iExp iUpd iIte (.fb x) (.int n)).1 = .fb y := by
  unfold fShr at h
  by_cases hz : x.repr.isZero = true
  · simp only [hz, if_true, Except.ok.injEq] at h
    subst h
    simp [Gen.f_Shr_val_val, Gen.f_ShrAssign_mut_val, iRepr, iNot, iIsZero, iSub, iExp, iUpd, iIte, hz]
  · simp only [hz, Bool.false_eq_true, if_false] at h
    split at h
    · exact absurd h (by simp)
    · simp only [Except.ok.injEq] at h
      subst h
      have hb : x.repr.isZero = false := by simpa using hz
      simp [Gen.f_Shr_val_val, Gen.f_ShrAssign_mut_val, iRepr, iNot, iIsZero, iSub, iExp, iUpd, iIte, hb]

/-- the four hand-written `Mul` impls (regenerated) = the model's operator product `opMul` at `Context::max` -/
theorem gen_Mul_is_model (B : Nat) (m : Mode) (c : Coarse) (g : Val → Val → Val) (x y : FBigM) :
    let r : Val := .fb ⟨(opMul B m c (ctxMax x.prec y.prec) x.repr y.repr).1, ctxMax x.prec y.prec⟩
    (Gen.f_Mul_val_val iRepr g iCtx iMax iMul iSignif iAdd iExp (iNew B) (iRound B m c) id (.fb x) (.fb y)).1 = r ∧
    (Gen.f_Mul_val_ref iRepr g iCtx iMax iMul iSignif iAdd iExp (iNew B) (iRound B m c) id (.fb x) (.fb y)).1 = r ∧
    (Gen.f_Mul_ref_val iRepr g iCtx iMax iMul iSignif iAdd iExp (iNew B) (iRound B m c) id (.fb x) (.fb y)).1 = r ∧
    (Gen.f_Mul_ref_ref iRepr g iCtx iMax iMul iSignif iAdd iExp (iNew B) (iRound B m c) id (.fb x) (.fb y)).1 = r := by
  simp [Gen.f_Mul_val_val, Gen.f_Mul_val_ref, Gen.f_Mul_ref_val, Gen.f_Mul_ref_ref, iRepr, iCtx, iMax, iMul, iSignif,
    iAdd, iExp, iNew, iRound, opMul]

/-- the `/` forms of `impl_div_or_rem_for_fbig` (regenerated, all four ownership forms) = the model's `opDiv` -/
theorem gen_Div_is_model (B : Nat) (m : Mode) (x y : FBigM) (r : FRepr)
    (h : opDiv B m (ctxMax x.prec y.prec) x.repr y.repr = .ok r) :
    Gen.f_impl_div_or_rem_for_fbig_val_val iCtx iMax iRepr (iReprDiv B m) id (iNew B) (.fb x) (.fb y)
      = .fb ⟨r, ctxMax x.prec y.prec⟩ ∧
    Gen.f_impl_div_or_rem_for_fbig_ref_val iCtx iMax iRepr (iReprDiv B m) id (iNew B) (.fb x) (.fb y)
      = .fb ⟨r, ctxMax x.prec y.prec⟩ ∧
    Gen.f_impl_div_or_rem_for_fbig_val_ref iCtx iMax iRepr (iReprDiv B m) id (iNew B) (.fb x) (.fb y)
      = .fb ⟨r, ctxMax x.prec y.prec⟩ ∧
    Gen.f_impl_div_or_rem_for_fbig_ref_ref iCtx iMax iRepr (iReprDiv B m) id (iNew B) (.fb x) (.fb y)
      = .fb ⟨r, ctxMax x.prec y.prec⟩ := by
  unfold opDiv at h
  split at h
  · exact absurd h (by simp)
  · split at h
    · exact absurd h (by simp)
    · cases hd : reprDiv B m (ctxMax x.prec y.prec) x.repr y.repr with
      | error e => rw [hd] at h; exact absurd h (by simp)
      | ok v =>
        rw [hd] at h
        simp only [Except.ok.injEq] at h
        subst h
        simp [Gen.f_impl_div_or_rem_for_fbig_val_val, Gen.f_impl_div_or_rem_for_fbig_ref_val,
          Gen.f_impl_div_or_rem_for_fbig_val_ref, Gen.f_impl_div_or_rem_for_fbig_ref_ref, iCtx, iMax, iRepr, iReprDiv,
          iNew, hd]

/-- the `%` forms of `impl_div_or_rem_for_fbig` (regenerated) = the model's `reprRem` at `Context::max` -/
theorem gen_Rem_is_model (B : Nat) (m : Mode) (c : Coarse) (x y : FBigM) (v : Rounded FRepr)
    (h : reprRem B m c (ctxMax x.prec y.prec) x.repr y.repr = .ok v) :
    Gen.f_impl_div_or_rem_for_fbig_val_val iCtx iMax iRepr (iReprRem B m c) id (iNew B) (.fb x) (.fb y)
      = .fb ⟨v.1, ctxMax x.prec y.prec⟩ ∧
    Gen.f_impl_div_or_rem_for_fbig_ref_ref iCtx iMax iRepr (iReprRem B m c) id (iNew B) (.fb x) (.fb y)
      = .fb ⟨v.1, ctxMax x.prec y.prec⟩ := by
  simp [Gen.f_impl_div_or_rem_for_fbig_val_val, Gen.f_impl_div_or_rem_for_fbig_ref_ref, iCtx, iMax, iRepr, iReprRem,
    iNew, h]

example : fShl ⟨⟨5, -3⟩, 10⟩ 7 = .ok ⟨⟨5, 4⟩, 10⟩ := by decide
example : opDiv 10 .halfAway 2 ⟨1, 0⟩ ⟨3, 0⟩ = .ok ⟨33, -2⟩ := by decide
example : reprRem 10 .halfAway coarseNone 2 ⟨7, 0⟩ ⟨2, 0⟩ = .ok (⟨-1, 0⟩, none) := by decide

/-! ### the primitive-operand macros of float/src/helper_macros.rs (`impl_binop_with_primitive_one_way`,
    `impl_binop_with_primitive`, `impl_binop_assign_with_primitive`, `impl_binop_assign_by_taking`), regenerated:
    every one of the 14 bodies is the float-float operation on `FBig::from(int)` — what the driver computes for the
    `FN` / `NF` groups (`Driver/FormsMore.fform`: `opBin fam x (fromInt n)` resp. `opBin fam (fromInt n) y`) -/

/-- `FBig::from(n)` for `UBig`, `IBig` and the twelve primitive integer types -/
def iFrom (B : Nat) : Val → Val | .int n => .fb (fromInt B n) | _ => .bad
/-- a float-float operation given as a function of the model -/
def iOp (op : FBigM → FBigM → Val) : Val → Val → Val | .fb a, .fb b => op a b | _, _ => .bad

theorem gen_primitive_forms_are_model (B : Nat) (op : FBigM → FBigM → Val) (x : FBigM) (n : Int) :
    -- FBig ∘ int, four ownership forms, and the two assign forms
    Gen.f_impl_binop_with_primitive_one_way_val_val (iFrom B) (iOp op) (.fb x) (.int n) = op x (fromInt B n) ∧
    Gen.f_impl_binop_with_primitive_one_way_ref_val (iFrom B) (iOp op) (.fb x) (.int n) = op x (fromInt B n) ∧
    Gen.f_impl_binop_with_primitive_one_way_val_ref (iFrom B) (iOp op) (.fb x) (.int n) = op x (fromInt B n) ∧
    Gen.f_impl_binop_with_primitive_one_way_ref_ref (iFrom B) (iOp op) (.fb x) (.int n) = op x (fromInt B n) ∧
    Gen.f_impl_binop_assign_with_primitive_mut_val (iFrom B) (iOp op) (.fb x) (.int n) = op x (fromInt B n) ∧
    Gen.f_impl_binop_assign_with_primitive_mut_ref (iFrom B) (iOp op) (.fb x) (.int n) = op x (fromInt B n) ∧
    -- int ∘ FBig, four ownership forms
    Gen.f_impl_binop_with_primitive_val_val (iFrom B) (iOp op) (.int n) (.fb x) = op (fromInt B n) x ∧
    Gen.f_impl_binop_with_primitive_ref_val (iFrom B) (iOp op) (.int n) (.fb x) = op (fromInt B n) x ∧
    Gen.f_impl_binop_with_primitive_val_ref (iFrom B) (iOp op) (.int n) (.fb x) = op (fromInt B n) x ∧
    Gen.f_impl_binop_with_primitive_ref_ref (iFrom B) (iOp op) (.int n) (.fb x) = op (fromInt B n) x :=
  ⟨rfl, rfl, rfl, rfl, rfl, rfl, rfl, rfl, rfl, rfl⟩

/-- `x op= y` by taking (`*self = mem::take(self).op(rhs)`): what `x op y` returns -/
theorem gen_assign_by_taking_is_model (op : FBigM → FBigM → Val) (x y : FBigM) :
    Gen.f_impl_binop_assign_by_taking_mut_val (iOp op) (.fb x) (.fb y) = op x y ∧
    Gen.f_impl_binop_assign_by_taking_mut_ref (iOp op) (.fb x) (.fb y) = op x y := ⟨rfl, rfl⟩

/-- precision of `FBig::from(n)`: the digit count of `n` as given (at least 1), value `n` -/
theorem fromInt_spec (B : Nat) (hB : 2 ≤ B) (n : Int) :
    (fromInt B n).prec = max (digitsI B n) 1 ∧ (fromInt B n).repr.toRat B = (n : ℚ) := by
  refine ⟨rfl, ?_⟩
  unfold fromInt fromParts
  exact new_int_value B hB n


end Dashu.Props.C15GenEuclid
