import Dashu.Model.Macro.Literal
import Dashu.Gen.MacroGen
/-
  C20 — Tie A for the token loops: the `for token in input { match token { … } }` state machines of
  `parse_integer_with_error` (macros/src/parse/int.rs) and `parse_ratio_with_error` (ratio.rs) as
  REGENERATED from the source (`Gen/MacroGen.lean`: one function per token kind over a record of the
  `let mut` variables) against the hand model the driver executes and Props/C20 reasons about
  (`intStepNew`, `ratStepNew`): the hand model simulates the regenerated machine step by step, under the
  abstraction that forgets which token a value came from and splits `Option Bool` signs into the two
  flags `*_signed` / `*_neg` of the code.
-/
namespace Dashu.Props.C20GenLoop
open Dashu.Model.Serde Dashu.Model.Macro Dashu.Gen.Macro

/-- the code's variables for a state of the hand model -/
def absI (st : IS) : IntLoop :=
  { val := st.val.map Tok.text, neg := st.sign == some true, sign_marked := st.sign.isSome,
    base_marked := st.baseMarked, base := st.base }

/-- one iteration of the regenerated loop on a token of the hand model -/
def intGenStep (signed : Bool) (st : IntLoop) : Tok → Option IntLoop
  | .lit s => int_loop_literal signed st s
  | .ident s => int_loop_ident signed st s
  | .punct c => int_loop_punct signed st c
  | .group _ => none

/-- **the hand-written integer token loop is the regenerated one**, step by step, for every state and token -/
theorem int_loop_regenerated (signed : Bool) (st : IS) (t : Tok) :
    (intStepNew signed st t).map absI = intGenStep signed (absI st) t := by
  obtain ⟨sign, val, baseMarked, base⟩ := st
  cases t with
  | lit s =>
    cases val <;> cases base <;> cases baseMarked <;>
      simp [intStepNew, intGenStep, int_loop_literal, absI, Tok.text]
  | ident s =>
    cases val <;> cases base <;> cases baseMarked <;>
      simp [intStepNew, intGenStep, int_loop_ident, absI, Tok.text, baseKw]
  | punct c =>
    cases val <;> cases sign <;> cases signed <;>
      simp [intStepNew, intGenStep, int_loop_punct, absI]
  | group g => simp [intStepNew, intGenStep]

/-- the whole loop: running the hand model and abstracting = running the regenerated machine from the
    abstracted start state -/
def intGenLoop (signed : Bool) : IntLoop → List Tok → Option IntLoop
  | st, [] => some st
  | st, t :: ts => (intGenStep signed st t).bind fun st' => intGenLoop signed st' ts

theorem int_loop_run_regenerated (signed : Bool) (toks : List Tok) (st : IS) :
    (intLoopNew signed st toks).map absI = intGenLoop signed (absI st) toks := by
  induction toks generalizing st with
  | nil => rfl
  | cons t ts ih =>
    unfold intLoopNew intGenLoop
    rw [← int_loop_regenerated]
    cases h : intStepNew signed st t with
    | none => rfl
    | some st' => simpa using ih st'

/-- the start state: all `None` / `false` -/
theorem int_loop_start : absI {} = {} := rfl

-- ====================================================================== rbig!

def absR (st : RS) : RatioLoop :=
  { num_val := st.nVal.map Tok.text, num_neg := st.nSign == some true, num_signed := st.nSign.isSome,
    den_val := st.dVal.map Tok.text, den_neg := st.dSign == some true, den_signed := st.dSign.isSome,
    den_marked := st.marked, relaxed := st.rel, base_marked := st.baseMarked, base := st.base }

def ratGenStep (st : RatioLoop) : Tok → Option RatioLoop
  | .lit s => ratio_loop_literal st s
  | .ident s => ratio_loop_ident st s
  | .punct c => ratio_loop_punct st c
  | .group _ => none

/-- **the hand-written rational token loop is the regenerated one**, step by step, for every state and token -/
theorem ratio_loop_regenerated (st : RS) (t : Tok) :
    (ratStepNew st t).map absR = ratGenStep (absR st) t := by
  obtain ⟨rel, nSign, nVal, marked, dSign, dVal, baseMarked, base⟩ := st
  cases t with
  | lit s =>
    cases nVal <;> cases dVal <;> cases marked <;> cases baseMarked <;> cases base <;>
      simp [ratStepNew, ratGenStep, ratio_loop_literal, absR, Tok.text]
  | ident s =>
    cases nVal <;> cases dVal <;> cases marked <;> cases baseMarked <;> cases base <;>
      simp [ratStepNew, ratGenStep, ratio_loop_ident, absR, Tok.text, baseKw]
  | punct c =>
    by_cases h47 : c = 47
    · subst h47
      cases nVal <;> cases marked <;> cases baseMarked <;>
        simp [ratStepNew, ratGenStep, ratio_loop_punct, absR]
    · by_cases h126 : c = 126
      · subst h126
        cases nVal <;> cases marked <;> cases rel <;> cases nSign <;>
          simp [ratStepNew, ratGenStep, ratio_loop_punct, absR]
      · by_cases hs : c = 45 ∨ c = 43
        · rcases hs with h | h <;> subst h <;>
            cases nVal <;> cases marked <;> cases nSign <;> cases dVal <;> cases dSign <;>
              simp [ratStepNew, ratGenStep, ratio_loop_punct, absR]
        · have h45 : c ≠ 45 := fun h => hs (Or.inl h)
          have h43 : c ≠ 43 := fun h => hs (Or.inr h)
          simp [ratStepNew, ratGenStep, ratio_loop_punct, absR, h47, h126, h45, h43]
  | group g => simp [ratStepNew, ratGenStep]

def ratGenLoop : RatioLoop → List Tok → Option RatioLoop
  | st, [] => some st
  | st, t :: ts => (ratGenStep st t).bind fun st' => ratGenLoop st' ts

theorem ratio_loop_run_regenerated (toks : List Tok) (st : RS) :
    (ratLoopNew st toks).map absR = ratGenLoop (absR st) toks := by
  induction toks generalizing st with
  | nil => rfl
  | cons t ts ih =>
    unfold ratLoopNew ratGenLoop
    rw [← ratio_loop_regenerated]
    cases h : ratStepNew st t with
    | none => rfl
    | some st' => simpa using ih st'

theorem ratio_loop_start : absR {} = {} := rfl

-- ====================================================================== round 6: behind the loop of ubig!/ibig!

/-- **the code of `parse_integer_with_error` behind the token loop is the regenerated one**: the hand model
    `intFinishNew` = the regenerated `int_finish` on the code's variables, with the run-time parsers the model
    uses (`parseU32` = `str::parse::<u32>`, `ubigRadixOpt` = `UBig::from_str_radix`, `ubigPrefixOpt · 10` =
    `UBig::from_str_with_radix_prefix`), for every state -/
theorem int_finish_regenerated (st : IS) :
    intFinishNew st = int_finish parseU32 ubigRadixOpt (fun s => ubigPrefixOpt s 10) (absI st) := by
  obtain ⟨sign, val, baseMarked, base⟩ := st
  cases val <;> cases base <;> cases baseMarked <;> simp [intFinishNew, int_finish, absI] <;> rfl

/-- the whole function: `intNew` (what the driver runs, what the grammar theorems of Props/C20 are about) is
    the regenerated loop from the regenerated start state followed by the regenerated finish -/
theorem int_parse_regenerated (signed : Bool) (toks : List Tok) :
    intNew signed toks =
      (intGenLoop signed {} toks).bind (int_finish parseU32 ubigRadixOpt (fun s => ubigPrefixOpt s 10)) := by
  unfold intNew
  rw [← int_loop_start, ← int_loop_run_regenerated]
  cases intLoopNew signed {} toks with
  | none => rfl
  | some st => simp [int_finish_regenerated]

/-- the radix parser of the model accepts exactly what fits the regenerated integer width -/
theorem int_finish_radix_width (b : Bytes) (r : Nat) (h : parseU32 b = some r) : r < 2 ^ int_finish_radix_bits := by
  have aux : ∀ body : Bytes, (if body.isEmpty then none
      else if body.all (fun c => 48 ≤ c && c ≤ 57) then
        (let m : Nat := body.foldl (fun a c => a * 10 + (c - 48)) 0
         if m < 2 ^ 32 then some m else none)
      else none) = some r → r < 2 ^ 32 := by
    intro body hb
    by_cases h1 : body.isEmpty = true
    · simp [h1] at hb
    · by_cases h2 : body.all (fun c => 48 ≤ c && c ≤ 57) = true
      · simp only [h1, h2, if_true, Bool.false_eq_true, if_false] at hb
        by_cases h3 : body.foldl (fun a c => a * 10 + (c - 48)) 0 < 2 ^ 32
        · simp only [h3, if_true, Option.some.injEq] at hb; omega
        · simp [h3] at hb
      · simp [h1, h2] at hb
  unfold parseU32 at h
  exact aux _ h

-- ====================================================================== round 6: behind the loop of rbig!

/-- `RBig::from_parts_signed(num, den)` / `Relaxed::from_parts_signed` by value: zero denominator panics
    (`none`), the sign of the denominator moves to the numerator, then the reduction of the type -/
def fromPartsSigned (red : Int → Nat → QVal) (n d : Int) : Option QVal :=
  if d = 0 then none else some (red (if d < 0 then -n else n) d.natAbs)

theorem signed_parts (nn dn : Bool) (n d : Nat) (hd : d ≠ 0) (red : Int → Nat → QVal) :
    fromPartsSigned red ((if nn then -1 else 1) * (n : Int)) ((if dn then -1 else 1) * (d : Int)) =
      some (red (signedVal (nn != dn) n) d) := by
  have hd' : (0 : Int) < d := by omega
  unfold fromPartsSigned signedVal
  have h1 : ¬ ((d : Int) < 0) := by omega
  have h2 : 0 < d := by omega
  cases nn <;> cases dn <;> simp [hd, h1, h2]

theorem signed_parts_zero (nn dn : Bool) (n : Nat) (red : Int → Nat → QVal) :
    fromPartsSigned red ((if nn then -1 else 1) * (n : Int)) ((if dn then -1 else 1) * ((0 : Nat) : Int)) = none := by
  unfold fromPartsSigned; simp

theorem finish_tail (rel nn dn : Bool) (p : Nat × Nat) :
    ((if rel then fromPartsSigned qreduce2 ((if nn then -1 else 1) * (p.1 : Int)) ((if dn then -1 else 1) * (p.2 : Int))
      else fromPartsSigned qreduce ((if nn then -1 else 1) * (p.1 : Int)) ((if dn then -1 else 1) * (p.2 : Int))).map
        fun q => (q, rel)) =
    if p.2 = 0 then none
    else some (if rel then qreduce2 (signedVal (nn != dn) p.1) p.2 else qreduce (signedVal (nn != dn) p.1) p.2, rel) := by
  obtain ⟨n, d⟩ := p
  by_cases hd : d = 0
  · subst hd; simp only [signed_parts_zero]; cases rel <;> simp
  · simp only [signed_parts _ _ _ _ hd, hd, if_false]; cases rel <;> simp

/-- **the code of `parse_ratio_with_error` behind the token loop is the regenerated one**: the hand model
    `ratFinishNew` = the regenerated `ratio_finish` on the code's variables, with the run-time parsers of the
    model and `from_parts_signed` by value, for every state -/
theorem ratio_finish_regenerated (st : RS) :
    ratFinishNew st =
      ratio_finish parseU32 ubigRadixOpt (fun s => ubigPrefixOpt s 10) ubigPrefixOpt
        (fromPartsSigned qreduce2) (fromPartsSigned qreduce) (absR st) := by
  obtain ⟨rel, nSign, nVal, marked, dSign, dVal, baseMarked, base⟩ := st
  cases nVal with
  | none => simp [ratFinishNew, ratio_finish, absR]
  | some nt =>
    unfold ratio_finish
    simp only [finish_tail]
    cases dVal <;> cases base <;> cases baseMarked <;> cases marked <;>
      simp [ratFinishNew, absR, optSign]
    all_goals first | rfl | (congr 1; funext x; obtain ⟨a, b⟩ := x; rfl)

/-- the whole function: `ratNew` (what the driver runs, what the grammar / value theorems of Props/C20 are about)
    is the regenerated loop from the regenerated start state followed by the regenerated finish -/
theorem ratio_parse_regenerated (toks : List Tok) :
    ratNew toks =
      (ratGenLoop {} toks).bind (ratio_finish parseU32 ubigRadixOpt (fun s => ubigPrefixOpt s 10) ubigPrefixOpt
        (fromPartsSigned qreduce2) (fromPartsSigned qreduce)) := by
  unfold ratNew
  rw [← ratio_loop_start, ← ratio_loop_run_regenerated]
  cases ratLoopNew {} toks with
  | none => rfl
  | some st => simp [ratio_finish_regenerated]

/-- non-vacuity: the sign of the denominator moves to the numerator, a zero denominator panics -/
example : fromPartsSigned qreduce (-6) (-4) = some (qreduce 6 4) ∧ fromPartsSigned qreduce2 6 (-4) = some (qreduce2 (-6) 4) ∧
    fromPartsSigned qreduce 1 0 = none := by
  refine ⟨?_, ?_, ?_⟩ <;> simp [fromPartsSigned]

end Dashu.Props.C20GenLoop
