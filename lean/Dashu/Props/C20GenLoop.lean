import Dashu.Model.Macro.Literal
import Dashu.Gen.MacroGen
/-
  C20 — Tie A for the token loops: the `for token in input { match token { … } }` state machines of
  `parse_integer_with_error` (macros/src/parse/int.rs) and `parse_ratio_with_error` (ratio.rs) as
  REGENERATED from the source (`Gen/MacroGen.lean`: one function per token kind over a record of the
  `let mut` variables) against the hand model the driver executes and Props/C20 reasons about
  (`intStepNew`, `ratStepNew`): the hand model simulates the regenerated machine step by step, under the
  abstraction that forgets which token a value came from and splits `Option Bool` signs into the two
  flags `*_signed` / `*_neg` of the code.
-/
namespace Dashu.Props.C20GenLoop
open Dashu.Model.Serde Dashu.Model.Macro Dashu.Gen.Macro

/-- the code's variables for a state of the hand model -/
def absI (st : IS) : IntLoop :=
  { val := st.val.map Tok.text, neg := st.sign == some true, sign_marked := st.sign.isSome,
    base_marked := st.baseMarked, base := st.base }

/-- one iteration of the regenerated loop on a token of the hand model -/
def intGenStep (signed : Bool) (st : IntLoop) : Tok → Option IntLoop
  | .lit s => int_loop_literal signed st s
  | .ident s => int_loop_ident signed st s
  | .punct c => int_loop_punct signed st c
  | .group _ => none

/-- **the hand-written integer token loop is the regenerated one**, step by step, for every state and token -/
theorem int_loop_regenerated (signed : Bool) (st : IS) (t : Tok) :
    (intStepNew signed st t).map absI = intGenStep signed (absI st) t := by
  obtain ⟨sign, val, baseMarked, base⟩ := st
  cases t with
  | lit s =>
    cases val <;> cases base <;> cases baseMarked <;>
      simp [intStepNew, intGenStep, int_loop_literal, absI, Tok.text]
  | ident s =>
    cases val <;> cases base <;> cases baseMarked <;>
      simp [intStepNew, intGenStep, int_loop_ident, absI, Tok.text, baseKw]
  | punct c =>
    cases val <;> cases sign <;> cases signed <;>
      simp [intStepNew, intGenStep, int_loop_punct, absI]
  | group g => simp [intStepNew, intGenStep]

/-- the whole loop: running the hand model and abstracting = running the regenerated machine from the
    abstracted start state -/
def intGenLoop (signed : Bool) : IntLoop → List Tok → Option IntLoop
  | st, [] => some st
  | st, t :: ts => (intGenStep signed st t).bind fun st' => intGenLoop signed st' ts

theorem int_loop_run_regenerated (signed : Bool) (toks : List Tok) (st : IS) :
    (intLoopNew signed st toks).map absI = intGenLoop signed (absI st) toks := by
  induction toks generalizing st with
  | nil => rfl
  | cons t ts ih =>
    unfold intLoopNew intGenLoop
    rw [← int_loop_regenerated]
    cases h : intStepNew signed st t with
    | none => rfl
    | some st' => simpa using ih st'

/-- the start state: all `None` / `false` -/
theorem int_loop_start : absI {} = {} := rfl

-- ====================================================================== rbig!

def absR (st : RS) : RatioLoop :=
  { num_val := st.nVal.map Tok.text, num_neg := st.nSign == some true, num_signed := st.nSign.isSome,
    den_val := st.dVal.map Tok.text, den_neg := st.dSign == some true, den_signed := st.dSign.isSome,
    den_marked := st.marked, relaxed := st.rel, base_marked := st.baseMarked, base := st.base }

def ratGenStep (st : RatioLoop) : Tok → Option RatioLoop
  | .lit s => ratio_loop_literal st s
  | .ident s => ratio_loop_ident st s
  | .punct c => ratio_loop_punct st c
  | .group _ => none

/-- **the hand-written rational token loop is the regenerated one**, step by step, for every state and token -/
theorem ratio_loop_regenerated (st : RS) (t : Tok) :
    (ratStepNew st t).map absR = ratGenStep (absR st) t := by
  obtain ⟨rel, nSign, nVal, marked, dSign, dVal, baseMarked, base⟩ := st
  cases t with
  | lit s =>
    cases nVal <;> cases dVal <;> cases marked <;> cases baseMarked <;> cases base <;>
      simp [ratStepNew, ratGenStep, ratio_loop_literal, absR, Tok.text]
  | ident s =>
    cases nVal <;> cases dVal <;> cases marked <;> cases baseMarked <;> cases base <;>
      simp [ratStepNew, ratGenStep, ratio_loop_ident, absR, Tok.text, baseKw]
  | punct c =>
    by_cases h47 : c = 47
    · subst h47
      cases nVal <;> cases marked <;> cases baseMarked <;>
        simp [ratStepNew, ratGenStep, ratio_loop_punct, absR]
    · by_cases h126 : c = 126
      · subst h126
        cases nVal <;> cases marked <;> cases rel <;> cases nSign <;>
          simp [ratStepNew, ratGenStep, ratio_loop_punct, absR]
      · by_cases hs : c = 45 ∨ c = 43
        · rcases hs with h | h <;> subst h <;>
            cases nVal <;> cases marked <;> cases nSign <;> cases dVal <;> cases dSign <;>
              simp [ratStepNew, ratGenStep, ratio_loop_punct, absR]
        · have h45 : c ≠ 45 := fun h => hs (Or.inl h)
          have h43 : c ≠ 43 := fun h => hs (Or.inr h)
          simp [ratStepNew, ratGenStep, ratio_loop_punct, absR, h47, h126, h45, h43]
  | group g => simp [ratStepNew, ratGenStep]

def ratGenLoop : RatioLoop → List Tok → Option RatioLoop
  | st, [] => some st
  | st, t :: ts => (ratGenStep st t).bind fun st' => ratGenLoop st' ts

theorem ratio_loop_run_regenerated (toks : List Tok) (st : RS) :
    (ratLoopNew st toks).map absR = ratGenLoop (absR st) toks := by
  induction toks generalizing st with
  | nil => rfl
  | cons t ts ih =>
    unfold ratLoopNew ratGenLoop
    rw [← ratio_loop_regenerated]
    cases h : ratStepNew st t with
    | none => rfl
    | some st' => simpa using ih st'

theorem ratio_loop_start : absR {} = {} := rfl

end Dashu.Props.C20GenLoop
