import Dashu.Proofs.Ratio.Extra
import Dashu.Proofs.Ratio.Const
import Dashu.Proofs.Ratio.Hist
/-
  C04 — Rational arithmetic is exact and RBig stays in lowest terms.

  Property theorems only (proofs in `Dashu/Proofs/Ratio`).  The model (`Dashu/Model/Ratio`) mirrors
  the macro bodies of `rational/src/{repr,rbig,add,mul,div,sign,round}.rs` over exact integers;
  `Q` is a pair *as stored*, `Q.val` its value in Lean's `Rat` (`num / den`), `Reduced` the RBig
  invariant (`0 < den ∧ gcd |num| den = 1`), `RelaxedInv` the Relaxed one (`0 < den`, not both
  even).  No statement bounds the size of any integer or the length of any program.
  `Spec.*` (`Model/Ratio/Spec.lean`) is the value-level meaning of each operation in `Rat`.
-/
namespace Dashu.Props.C04
open Dashu.Model Dashu.Model.Ratio

-- ------------------------------------------------------------------ canonical form

/-- zero is stored as 0/1 -/
theorem reduced_zero_is_zero_over_one (q : Q) (h : Reduced q) (h0 : q.num = 0) : q.den = 1 :=
  h.zero_den h0

/-- the canonical form is unique: reduced pairs with equal values are equal pairs -/
theorem reduced_unique (a b : Q) (ha : Reduced a) (hb : Reduced b) (h : a.val = b.val) : a = b :=
  Reduced.ext ha hb h

/-- `Repr::reduce` returns the canonical form of the same number -/
theorem reduce_canonical (q : Q) (hd : 0 < q.den) :
    ∃ r, reduce q = .ok r ∧ Reduced r ∧ r.val = q.val :=
  reduce_spec q hd

/-- `Repr::reduce_with_hint` is a full reduction whenever the common factor divides the hint -/
theorem reduce_with_hint_canonical (q : Q) (hint : Nat) (hd : 0 < q.den) (hh : 0 < hint)
    (hdvd : Nat.gcd q.num.natAbs q.den ∣ hint) :
    ∃ r, reduceWithHint q hint = .ok r ∧ Reduced r ∧ r.val = q.val :=
  reduceWithHint_spec q hint hd hh hdvd

/-- `Repr::reduce2` strips exactly the common power of two and keeps the value -/
theorem reduce2_strips_common_power_of_two (q : Q) (hd : 0 < q.den) :
    ∃ r, reduce2 q = .ok r ∧ RelaxedInv r ∧ r.val = q.val ∧
      (q.num ≠ 0 → ∃ k, q.num = r.num * 2 ^ k ∧ q.den = r.den * 2 ^ k) :=
  reduce2_spec q hd

/-- `RBig::from_parts` / `Relaxed::from_parts`: zero denominator panics, otherwise canonical -/
theorem rbig_from_parts (n : Int) (d : Nat) :
    (d = 0 → rFromParts n d = .error .divideByZero) ∧
    (0 < d → ∃ r, rFromParts n d = .ok r ∧ Reduced r ∧ r.val = (n : Rat) / (d : Rat)) :=
  ⟨fun h => h ▸ rFromParts_zero n, rFromParts_spec n d⟩

theorem relaxed_from_parts (n : Int) (d : Nat) :
    (d = 0 → xFromParts n d = .error .divideByZero) ∧
    (0 < d → ∃ r, xFromParts n d = .ok r ∧ RelaxedInv r ∧ r.val = (n : Rat) / (d : Rat)) :=
  ⟨fun h => by simp [xFromParts, h], xFromParts_spec n d⟩

theorem rbig_from_parts_signed (n d : Int) :
    (d = 0 → rFromPartsSigned n d = .error .divideByZero) ∧
    (d ≠ 0 → ∃ r, rFromPartsSigned n d = .ok r ∧ Reduced r ∧ r.val = (n : Rat) / d) :=
  rFromPartsSigned_spec n d

theorem relaxed_from_parts_signed (n d : Int) :
    (d = 0 → xFromPartsSigned n d = .error .divideByZero) ∧
    (d ≠ 0 → ∃ r, xFromPartsSigned n d = .ok r ∧ RelaxedInv r ∧ r.val = (n : Rat) / d) :=
  xFromPartsSigned_spec n d

/-- `RBig::from_parts_const`: the const Euclid loop reduces to lowest terms (any magnitudes) -/
theorem rbig_from_parts_const (neg : Bool) (n d : Nat) :
    (d = 0 → rFromPartsConst neg n d = .error .divideByZero) ∧
    (0 < d → ∃ r, rFromPartsConst neg n d = .ok r ∧ Reduced r ∧
      r.val = (if neg then -((n : Rat) / d) else (n : Rat) / d)) :=
  rFromPartsConst_spec neg n d

/-- `Relaxed::from_parts_const`: exactly the common power of two is removed -/
theorem relaxed_from_parts_const (neg : Bool) (n d : Nat) :
    (d = 0 → xFromPartsConst neg n d = .error .divideByZero) ∧
    (0 < d → ∃ r, xFromPartsConst neg n d = .ok r ∧ RelaxedInv r ∧
      r.val = (if neg then -((n : Rat) / d) else (n : Rat) / d) ∧
      (n ≠ 0 → ∃ k, n = r.num.natAbs * 2 ^ k ∧ d = r.den * 2 ^ k)) :=
  xFromPartsConst_spec neg n d

-- non-vacuity: -6/4 is reduced to a pair of value -3/2
example : ∃ r, rFromPartsConst true 6 4 = .ok r ∧ Reduced r ∧ r.val = -((6 : Rat) / 4) := by
  obtain ⟨r, h1, h2, h3⟩ := (rbig_from_parts_const true 6 4).2 (by decide)
  exact ⟨r, h1, h2, by simpa using h3⟩

-- ------------------------------------------------------------------ addition through gcd(b, d)

/-- key lemma of add.rs: with `g = gcd(b,d)`, whatever `(d/g)·a ± (b/g)·c` and `b·(d/g)` still
    have in common divides `g` (so the gcd with the hint `g` is a full reduction, and `g = 1`
    needs none) -/
theorem addsub_remaining_factor_divides_hint (a c : Int) (b d : Nat) (hb : 0 < b) (hd : 0 < d)
    (hab : Nat.gcd a.natAbs b = 1) (hcd : Nat.gcd c.natAbs d = 1) (s : Int) (hs : s = 1 ∨ s = -1) :
    Nat.gcd (((d / Nat.gcd b d : Nat) : Int) * a + s * (((b / Nat.gcd b d : Nat) : Int) * c)).natAbs
      (b * (d / Nat.gcd b d)) ∣ Nat.gcd b d :=
  addsub_gcd_dvd a c b d hb hd
    ((reduced_iff_isCoprime ⟨a, b⟩).1 ⟨hb, hab⟩).2 ((reduced_iff_isCoprime ⟨c, d⟩).1 ⟨hd, hcd⟩).2 s hs

theorem rbig_add_exact (x y : Q) (hx : Reduced x) (hy : Reduced y) :
    ∃ r, R.add x y = .ok r ∧ Reduced r ∧ r.val = x.val + y.val :=
  R.add_spec x y hx hy

theorem rbig_sub_exact (x y : Q) (hx : Reduced x) (hy : Reduced y) :
    ∃ r, R.sub x y = .ok r ∧ Reduced r ∧ r.val = x.val - y.val :=
  R.sub_spec x y hx hy

-- non-vacuity: both branches of add.rs on concrete reduced operands
example : Reduced ⟨3, 4⟩ ∧ Reduced ⟨-5, 6⟩ ∧ R.add ⟨3, 4⟩ ⟨-5, 6⟩ = .ok ⟨-1, 12⟩ := by decide
example : Reduced ⟨1, 6⟩ ∧ Reduced ⟨1, 3⟩ ∧ R.add ⟨1, 6⟩ ⟨1, 3⟩ = .ok ⟨1, 2⟩ := by decide
example : Reduced ⟨1, 2⟩ ∧ Reduced ⟨1, 3⟩ ∧ R.sub ⟨1, 2⟩ ⟨1, 3⟩ = .ok ⟨1, 6⟩ := by decide

-- ------------------------------------------------------------------ multiplication, division

/-- cross cancellation `gcd(a,d)`, `gcd(b,c)` before multiplying leaves a reduced product -/
theorem rbig_mul_exact (x y : Q) (hx : Reduced x) (hy : Reduced y) :
    ∃ r, R.mul x y = .ok r ∧ Reduced r ∧ r.val = x.val * y.val :=
  R.mul_spec x y hx hy

theorem rbig_div_exact (x y : Q) (hx : Reduced x) (hy : Reduced y) :
    (y.num = 0 → R.div x y = .error .divideByZero) ∧
    (y.num ≠ 0 → ∃ r, R.div x y = .ok r ∧ Reduced r ∧ r.val = x.val / y.val) :=
  R.div_spec x y hx hy

example : Reduced ⟨-10, 9⟩ ∧ Reduced ⟨-15, 4⟩ ∧ R.div ⟨-10, 9⟩ ⟨-15, 4⟩ = .ok ⟨8, 27⟩ := by decide

/-- inverse; the inverse of zero is the `DivideByZero` panic -/
theorem rbig_inv_exact (x : Q) (hx : Reduced x) :
    (x.num = 0 → inv x = .error .divideByZero) ∧
    (x.num ≠ 0 → ∃ r, inv x = .ok r ∧ Reduced r ∧ r.val = 1 / x.val) :=
  inv_spec x hx

theorem rbig_pow_exact (x : Q) (n : Nat) (hx : Reduced x) :
    Reduced (pow x n) ∧ (pow x n).val = x.val ^ n :=
  pow_spec x n hx

theorem rbig_sqr_exact (x : Q) (hx : Reduced x) :
    Reduced (sqr x) ∧ (sqr x).val = x.val * x.val := by
  rw [sqr_eq_pow]; have := pow_spec x 2 hx; exact ⟨this.1, by rw [this.2, pow_two]⟩

theorem rbig_cubic_exact (x : Q) (hx : Reduced x) :
    Reduced (cubic x) ∧ (cubic x).val = x.val * x.val * x.val := by
  rw [cubic_eq_pow]; have := pow_spec x 3 hx; exact ⟨this.1, by rw [this.2]; ring⟩

theorem rbig_neg_exact (x : Q) (hx : Reduced x) : Reduced (neg x) ∧ (neg x).val = -x.val :=
  neg_spec x hx

theorem rbig_abs_exact (x : Q) (hx : Reduced x) : Reduced (abs x) ∧ (abs x).val = |x.val| :=
  abs_spec x hx

theorem rbig_signum_exact (x : Q) (hx : Reduced x) :
    Reduced (signum x) ∧ (signum x).val = Spec.sgnRat x.val := by
  rcases signum_spec x with h | h
  · exact h
  · have := hx.den_pos; omega

theorem rbig_mul_sign_exact (x : Q) (s : Bool) (hx : Reduced x) :
    Reduced (mulSign x s) ∧ (mulSign x s).val = if s then -x.val else x.val :=
  mulSign_spec x s hx

-- ------------------------------------------------------------------ remainders

/-- `%`: the remainder of least magnitude, `x − y·round(x/y)`, ties away from zero -/
theorem rbig_rem_exact (x y : Q) (hx : Reduced x) (hy : Reduced y) :
    (y.num = 0 → R.rem x y = .error .divideByZero) ∧
    (y.num ≠ 0 → ∃ r, R.rem x y = .ok r ∧ Reduced r ∧ r.val = Spec.rem x.val y.val) :=
  R.rem_spec x y hx hy

/-- what `Spec.round` is: the nearest integer, ties away from zero -/
theorem spec_round_characterisation (q : Rat) :
    (0 ≤ q → ((Spec.round q : Int) : Rat) - 1 / 2 ≤ q ∧ q < (Spec.round q : Int) + 1 / 2) ∧
    (q < 0 → ((Spec.round q : Int) : Rat) - 1 / 2 < q ∧ q ≤ (Spec.round q : Int) + 1 / 2) :=
  round_bounds q

theorem rbig_rem_euclid_exact (x y : Q) (hx : Reduced x) (hy : Reduced y) :
    (y.num = 0 → R.remEuclid x y = .error .divideByZero) ∧
    (y.num ≠ 0 → ∃ r, R.remEuclid x y = .ok r ∧ Reduced r ∧ r.val = Spec.remEuclid x.val y.val) :=
  R.remEuclid_spec x y hx hy

/-- `div_euclid` (RBig and Relaxed share the body) -/
theorem div_euclid_exact (x y : Q) (hb : 0 < x.den) (hd : 0 < y.den) :
    (y.num = 0 → R.divEuclid x y = .error .divideByZero) ∧
    (y.num ≠ 0 → R.divEuclid x y = .ok (Spec.divEuclid x.val y.val)) :=
  divEuclid_spec x y hb hd

theorem rbig_div_rem_euclid_exact (x y : Q) (hx : Reduced x) (hy : Reduced y) :
    (y.num = 0 → R.divRemEuclid x y = .error .divideByZero) ∧
    (y.num ≠ 0 → ∃ r, R.divRemEuclid x y = .ok (Spec.divEuclid x.val y.val, r) ∧ Reduced r ∧
        r.val = Spec.remEuclid x.val y.val) :=
  R.divRemEuclid_spec x y hx hy

example : Reduced ⟨-1, 2⟩ ∧ Reduced ⟨1, 3⟩ ∧ R.rem ⟨-1, 2⟩ ⟨1, 3⟩ = .ok ⟨1, 6⟩ ∧
    R.divRemEuclid ⟨-1, 2⟩ ⟨1, 3⟩ = .ok (-2, ⟨1, 6⟩) := by decide

-- ------------------------------------------------------------------ rounding (round.rs)

theorem trunc_exact (x : Q) (hb : 0 < x.den) : trunc x = .ok (Spec.trunc x.val) :=
  trunc_spec x hb

theorem floor_exact (x : Q) (hb : 0 < x.den) : floor x = .ok x.val.floor := floor_spec x hb

theorem ceil_exact (x : Q) (hb : 0 < x.den) : ceil x = .ok x.val.ceil := ceil_spec x hb

theorem round_exact (x : Q) (hb : 0 < x.den) : round x = .ok (Spec.round x.val) := round_spec x hb

/-- `fract` of an RBig needs no reduction ("no need to reduce here", round.rs) -/
theorem rbig_fract_exact (x : Q) (hx : Reduced x) :
    ∃ r, fract x = .ok r ∧ Reduced r ∧ r.val = x.val - (Spec.trunc x.val : Rat) :=
  R.fract_spec x hx

theorem split_at_point_is_trunc_fract (x : Q) (hb : 0 < x.den) :
    splitAtPoint x = (trunc x >>= fun t => fract x >>= fun f => pure (t, f)) :=
  splitAtPoint_eq x hb

-- ------------------------------------------------------------------ mixed with integers

theorem rbig_add_int_exact (sub : Bool) (x : Q) (i : Int) (hx : Reduced x) :
    Reduced (R.addSubInt sub x i) ∧
      (R.addSubInt sub x i).val = if sub then x.val - i else x.val + i :=
  R.addSubInt_spec sub x i hx

theorem int_sub_rbig_exact (i : Int) (x : Q) (hx : Reduced x) :
    Reduced (R.intSub i x) ∧ (R.intSub i x).val = i - x.val :=
  R.intSub_spec i x hx

theorem rbig_mul_int_exact (x : Q) (i : Int) (hx : Reduced x) :
    ∃ r, R.mulInt x i = .ok r ∧ Reduced r ∧ r.val = x.val * i :=
  R.mulInt_spec x i hx

theorem rbig_div_int_exact (x : Q) (i : Int) (hx : Reduced x) :
    (i = 0 → R.divInt x i = .error .divideByZero) ∧
    (i ≠ 0 → ∃ r, R.divInt x i = .ok r ∧ Reduced r ∧ r.val = x.val / i) :=
  R.divInt_spec x i hx

theorem int_div_rbig_exact (i : Int) (x : Q) (hx : Reduced x) :
    (x.num = 0 → R.intDiv i x = .error .divideByZero) ∧
    (x.num ≠ 0 → ∃ r, R.intDiv i x = .ok r ∧ Reduced r ∧ r.val = i / x.val) :=
  R.intDiv_spec i x hx

-- ------------------------------------------------------------------ Relaxed

/-- every binary operator of both types against the value-level specification: a valid result
    with the specified value, or `DivideByZero` exactly where the specification divides by zero -/
theorem binary_ops_exact (o : Bin) (k : Kind) (x y : Q) (hx : k.Inv x) (hy : k.Inv y) :
    match evalBin o k x y with
    | .ok q => k.Inv q ∧ Spec.bin o x.val y.val = some q.val
    | .error e => e = .divideByZero ∧ Spec.bin o x.val y.val = none :=
  evalBin_good o k x y hx hy

theorem int_right_ops_exact (o : IntOp) (k : Kind) (x : Q) (z : Int) (hx : k.Inv x) :
    match evalIntR o k x z with
    | .ok q => k.Inv q ∧ Spec.intR o x.val z = some q.val
    | .error e => e = .divideByZero ∧ Spec.intR o x.val z = none :=
  evalIntR_good o k x z hx

theorem int_left_ops_exact (o : IntOp) (k : Kind) (z : Int) (x : Q) (hx : k.Inv x) :
    match evalIntL o k z x with
    | .ok q => k.Inv q ∧ Spec.intL o z x.val = some q.val
    | .error e => e = .divideByZero ∧ Spec.intL o z x.val = none :=
  evalIntL_good o k z x hx

theorem unary_ops_exact (o : Un) (r : Reg) (hr : r.Inv) :
    match evalUn o r with
    | .ok r' => r'.Inv ∧ Spec.un o r.val = some r'.val
    | .error e => e = .divideByZero ∧ Spec.un o r.val = none :=
  evalUn_good o r hr

theorem relaxed_div_rem_euclid_exact (x y : Q) (hx : RelaxedInv x) (hy : RelaxedInv y) :
    (y.num = 0 → X.divRemEuclid x y = .error .divideByZero) ∧
    (y.num ≠ 0 → ∃ r, X.divRemEuclid x y = .ok (Spec.divEuclid x.val y.val, r) ∧ RelaxedInv r ∧
        r.val = Spec.remEuclid x.val y.val) :=
  X.divRemEuclid_spec x y hx hy

/-- **Relaxed = RBig**: on operands denoting the same numbers every binary operator panics with
    the same kind on both types or returns the same value, and canonicalising the Relaxed result
    gives exactly the stored RBig result -/
theorem relaxed_equals_rbig (o : Bin) (x y x' y' : Q) (hx : RelaxedInv x) (hy : RelaxedInv y)
    (hx' : Reduced x') (hy' : Reduced y') (ex : x.val = x'.val) (ey : y.val = y'.val) :
    match evalBin o .X x y, evalBin o .R x' y' with
    | .ok r, .ok r' => r.val = r'.val ∧ reduce r = .ok r'
    | .error e, .error e' => e = e'
    | _, _ => False :=
  relaxed_eq_rbig o x y x' y' hx hy hx' hy' ex ey

example : RelaxedInv ⟨9, 6⟩ ∧ RelaxedInv ⟨15, 9⟩ ∧ X.mul ⟨9, 6⟩ ⟨15, 9⟩ = .ok ⟨135, 54⟩ ∧
    R.mul ⟨3, 2⟩ ⟨5, 3⟩ = .ok ⟨5, 2⟩ := by
  refine ⟨by decide, by decide, ?_, by decide⟩
  simp [X.mul, xFromParts, reduce2, tz]

-- ------------------------------------------------------------------ histories

/-- **step theorem** -/
theorem step_exact (env : List Reg) (op : Op) (henv : ∀ r ∈ env, r.Inv) :
    match step env op with
    | .ok r => r.Inv ∧ Spec.step (env.map Reg.val) op = some r.val
    | .panic k => k = .divideByZero ∧ Spec.step (env.map Reg.val) op = none
    | .bad => True :=
  step_sound env op henv

/-- **history theorem** (the "every RBig ever produced" quantifier): for every finite program over
    a register file of valid values, every register ever produced — also those produced before a
    panic — satisfies the invariant of its type: an RBig register has a positive denominator
    coprime to its numerator (zero is 0/1), a Relaxed register is not even/even. -/
theorem history_invariant (ops : List Op) (env : List Reg) (henv : ∀ r ∈ env, r.Inv) :
    ∀ r ∈ (run ops env).1, r.Inv :=
  run_inv ops env henv

/-- **history theorem** (values): a program computes exactly the value-level interpretation of
    the same program, stops at the same step, and only ever panics with `DivideByZero`. -/
theorem history_values (ops : List Op) (env : List Reg) (henv : ∀ r ∈ env, r.Inv) :
    match (run ops env).2 with
    | .done => Spec.run ops (env.map Reg.val) = ((run ops env).1.map Reg.val, true)
    | .panic k => k = .divideByZero ∧
        Spec.run ops (env.map Reg.val) = ((run ops env).1.map Reg.val, false)
    | .bad => True :=
  run_vals ops env henv

-- non-vacuity: a program feeding results back, all registers reduced
example : (run [.bin .add 0 1, .bin .mul 2 2, .bin .div 3 0, .un .inv 4, .intR .add 5 (-5)]
    [⟨.R, ⟨3, 4⟩⟩, ⟨.R, ⟨-5, 6⟩⟩]).1.map (·.q) =
    [⟨3, 4⟩, ⟨-5, 6⟩, ⟨-1, 12⟩, ⟨1, 144⟩, ⟨1, 108⟩, ⟨108, 1⟩, ⟨103, 1⟩] := by decide

-- ------------------------------------------------------------------ histories: Relaxed = RBig, reduce2 invariant (round 5)

/-- **history theorem, Relaxed = RBig**: the same program run on two register files denoting the
    same numbers (one all-`Relaxed`, one all-`RBig`, or any mix), neither run malformed: both runs
    stop at the same step in the same way (done, or `DivideByZero`) and every register ever
    produced denotes the same number in both. -/
theorem history_relaxed_equals_rbig (ops : List Op) (e1 e2 : List Reg) (h1 : ∀ r ∈ e1, r.Inv)
    (h2 : ∀ r ∈ e2, r.Inv) (hv : e1.map Reg.val = e2.map Reg.val)
    (nb1 : (run ops e1).2 ≠ .bad) (nb2 : (run ops e2).2 ≠ .bad) :
    (run ops e1).1.map Reg.val = (run ops e2).1.map Reg.val ∧
    (((run ops e1).2 = .done ∧ (run ops e2).2 = .done) ∨
     ((run ops e1).2 = .panic .divideByZero ∧ (run ops e2).2 = .panic .divideByZero)) :=
  run_vals_agree ops e1 e2 h1 h2 hv nb1 nb2

/-- … and as stored pairs: canonicalising register `i` of the first run gives exactly the
    numerator/denominator stored in register `i` of the second run wherever that one is an `RBig` -/
theorem history_canonicalize_equals_rbig (ops : List Op) (e1 e2 : List Reg) (h1 : ∀ r ∈ e1, r.Inv)
    (h2 : ∀ r ∈ e2, r.Inv) (hv : e1.map Reg.val = e2.map Reg.val)
    (nb1 : (run ops e1).2 ≠ .bad) (nb2 : (run ops e2).2 ≠ .bad)
    (i : Nat) (r1 r2 : Reg) (g1 : (run ops e1).1[i]? = some r1) (g2 : (run ops e2).1[i]? = some r2)
    (hk : r2.kind = .R) : reduce r1.q = .ok r2.q :=
  run_canonicalize_agree ops e1 e2 h1 h2 hv nb1 nb2 i r1 r2 g1 g2 hk

/-- **Relaxed history theorem** (the `reduce2` invariant over all histories): every register ever
    produced by a program over `Relaxed` registers that never canonicalises is a `Relaxed`, has a
    positive denominator, is not even/even, and (unless zero) is a fixed point of `Repr::reduce2`. -/
theorem history_relaxed_reduce2_invariant (ops : List Op) (env : List Reg) (hk : ∀ r ∈ env, r.kind = .X)
    (henv : ∀ r ∈ env, RelaxedInv r.q) (hops : ∀ op ∈ ops, op.noCanon) :
    ∀ r ∈ (run ops env).1, r.kind = .X ∧ RelaxedInv r.q ∧ (r.q.num ≠ 0 → reduce2 r.q = .ok r.q) :=
  run_relaxed_inv ops env hk henv hops

-- non-vacuity: the same program on Relaxed 9/6, 15/9 and on RBig 3/2, 5/3
example : (run [.bin .mul 0 1, .un .inv 2] [⟨.X, ⟨9, 6⟩⟩, ⟨.X, ⟨15, 9⟩⟩]).1.map (·.q)
      = [⟨9, 6⟩, ⟨15, 9⟩, ⟨135, 54⟩, ⟨54, 135⟩] ∧
    (run [.bin .mul 0 1, .un .inv 2] [⟨.R, ⟨3, 2⟩⟩, ⟨.R, ⟨5, 3⟩⟩]).1.map (·.q)
      = [⟨3, 2⟩, ⟨5, 3⟩, ⟨5, 2⟩, ⟨2, 5⟩] ∧
    reduce ⟨54, 135⟩ = .ok ⟨2, 5⟩ ∧ Op.noCanon (.bin .mul 0 1) ∧ Op.noCanon (.un .inv 2) := by
  refine ⟨?_, by decide, by decide, trivial, trivial⟩
  simp [run, step, evalBin, evalUn, liftQ, liftR, X.mul, inv, xFromParts, reduce2, tz, sgn, Except.map]

-- ------------------------------------------------------------------ sign corners of inv / pow (round 5)

/-- `Inverse`: for either sign of the operand the result has the positive denominator `|numerator|`,
    the magnitude of the old denominator as numerator and the operand's sign -/
theorem inv_sign_corner (x : Q) (hn : x.num ≠ 0) :
    ∃ r, inv x = .ok r ∧ r.den = x.num.natAbs ∧ 0 < r.den ∧ r.num.natAbs = x.den ∧
      (0 < x.den → (r.num < 0 ↔ x.num < 0)) :=
  inv_sign x hn

theorem repr_inv_involutive (x : Q) (hd : 0 < x.den) (hn : x.num ≠ 0) : (inv x >>= inv) = .ok x :=
  inv_inv x hd hn

/-- `x.inv()` stores the same pair as `RBig::ONE / x`, same panic for zero -/
theorem rbig_inv_is_one_div (x : Q) (hx : Reduced x) : inv x = R.div Q.one x :=
  rbig_inv_eq_one_div x hx

/-- `pow(0)` is 1/1 for every operand (also `0^0`); zero stays 0/1 under positive powers;
    `(±1)^n` for every `n` -/
theorem pow_corners (x : Q) (n : Nat) :
    pow x 0 = Q.one ∧ pow x 1 = x ∧ (0 < n → pow Q.zero n = Q.zero) ∧ pow Q.one n = Q.one ∧
    pow Q.negOne n = ⟨if n % 2 = 0 then 1 else -1, 1⟩ :=
  ⟨pow_zero_exp x, pow_one_exp x, pow_zero_base n, pow_one_base n, pow_neg_one n⟩

/-- the power kernels the driver executes (`IBig::pow`: sign by the parity of the exponent, magnitude by `UBig::pow`
    with its shortcuts for exponent 0 and the bases 0, 1) are `^`, hence `Repr::pow` is component-wise `^`; and the
    specification's `qpow` (which spares the long product for the bases 0, ±1) IS `x ^ n` — for every exponent -/
theorem pow_kernels_are_powers (x : Q) (a : Int) (b n : Nat) (v : Rat) :
    upowK b n = b ^ n ∧ ipowK a n = a ^ n ∧ pow x n = ⟨x.num ^ n, x.den ^ n⟩ ∧ Spec.qpow v n = v ^ n :=
  ⟨upowK_eq b n, ipowK_eq a n, pow_def x n, Spec.qpow_eq v n⟩

/-- sign of a power: positive denominator; negative numerator exactly for negative base, odd exponent -/
theorem pow_sign_corner (x : Q) (n : Nat) (hd : 0 < x.den) :
    0 < (pow x n).den ∧ ((pow x n).num < 0 ↔ (x.num < 0 ∧ n % 2 = 1)) :=
  pow_sign x n hd

/-- `pow` agrees with repeated `RBig *` as stored pairs -/
theorem rbig_pow_succ_is_mul (x : Q) (n : Nat) (hx : Reduced x) : R.mul (pow x n) x = .ok (pow x (n + 1)) :=
  rbig_pow_succ x n hx

example : inv ⟨-3, 4⟩ = .ok ⟨-4, 3⟩ ∧ (inv ⟨-3, 4⟩ >>= inv) = .ok ⟨-3, 4⟩ ∧ R.div Q.one ⟨-3, 4⟩ = .ok ⟨-4, 3⟩ := by decide
example : ipowK (-1) (2 ^ 64 - 1) = -1 ∧ pow Q.negOne (2 ^ 64 - 1) = Q.negOne ∧ Spec.qpow (-1) (2 ^ 64 - 2) = 1 := by decide
example : pow ⟨-2, 3⟩ 3 = ⟨-8, 27⟩ ∧ pow ⟨-2, 3⟩ 4 = ⟨16, 81⟩ ∧ R.mul (pow ⟨-2, 3⟩ 3) ⟨-2, 3⟩ = .ok ⟨16, 81⟩ := by decide

-- ------------------------------------------------------------------ predicates (rbig.rs, sign.rs; round 5)

/-- `is_zero`, `sign` (both types): read off the numerator, they decide `value = 0` / `value < 0` -/
theorem predicates_exact (k : Kind) (x : Q) (hx : k.Inv x) :
    (isZero x = true ↔ x.val = 0) ∧ (isNegative x = true ↔ x.val < 0) :=
  preds_val x hx.den_pos

/-- `RBig::is_one` (1/1 stored) and `RBig::is_int` (denominator 1) decide `value = 1` / "the value is an integer" -/
theorem rbig_is_one_is_int_exact (x : Q) (hx : Reduced x) :
    (R.isOne x = true ↔ x.val = 1) ∧ (R.isInt x = true ↔ x.val.den = 1) :=
  rbig_isOne_isInt_val x hx

/-- `Relaxed::is_one` compares numerator with denominator (3/3 is one): it decides `value = 1`, so it agrees
    with `RBig::is_one` of the RBig denoting the same number -/
theorem relaxed_is_one_exact (x r : Q) (hx : RelaxedInv x) (hr : Reduced r) (hv : x.val = r.val) :
    (X.isOne x = true ↔ x.val = 1) ∧ X.isOne x = R.isOne r := by
  have h1 := relaxed_isOne_val x hx.den_pos
  refine ⟨h1, ?_⟩
  have h2 := (rbig_isOne_isInt_val r hr).1
  rw [Bool.eq_iff_iff, h1, h2, hv]

example : RelaxedInv ⟨3, 3⟩ ∧ X.isOne ⟨3, 3⟩ = true ∧ R.isOne ⟨1, 1⟩ = true ∧ R.isInt ⟨-2, 1⟩ = true ∧
    isNegative ⟨-2, 1⟩ = true ∧ isZero ⟨0, 1⟩ = true := by decide

-- ------------------------------------------------------------------ non-vacuity: concrete values meeting the hypotheses

example : Nat.gcd (6 : Int).natAbs 8 ∣ 4 ∧ reduceWithHint ⟨6, 8⟩ 4 = .ok ⟨3, 4⟩ := by decide
example : reduce2 ⟨12, 8⟩ = .ok ⟨3, 2⟩ := by simp [reduce2, tz]; decide
example : Reduced ⟨-3, 4⟩ ∧ inv ⟨-3, 4⟩ = .ok ⟨-4, 3⟩ ∧ inv ⟨0, 1⟩ = .error .divideByZero := by decide
example : Reduced ⟨-2, 3⟩ ∧ pow ⟨-2, 3⟩ 3 = ⟨-8, 27⟩ ∧ sqr ⟨-2, 3⟩ = ⟨4, 9⟩ := by decide
example : R.mulInt ⟨3, 4⟩ 6 = .ok ⟨9, 2⟩ ∧ R.divInt ⟨3, 4⟩ (-6) = .ok ⟨-1, 8⟩ ∧
    R.intDiv 6 ⟨-3, 4⟩ = .ok ⟨-8, 1⟩ ∧ R.divInt ⟨3, 4⟩ 0 = .error .divideByZero := by decide
example : Reduced (R.addSubInt true ⟨3, 4⟩ 2) ∧ R.addSubInt true ⟨3, 4⟩ 2 = ⟨-5, 4⟩ ∧
    R.intSub 2 ⟨3, 4⟩ = ⟨5, 4⟩ := by decide
example : trunc ⟨-7, 2⟩ = .ok (-3) ∧ floor ⟨-7, 2⟩ = .ok (-4) ∧ ceil ⟨-7, 2⟩ = .ok (-3) ∧
    Ratio.round ⟨-7, 2⟩ = .ok (-4) ∧ fract ⟨-7, 2⟩ = .ok ⟨-1, 2⟩ := by decide
example : R.remEuclid ⟨-10, 9⟩ ⟨-15, 4⟩ = .ok ⟨95, 36⟩ ∧ R.divEuclid ⟨-10, 9⟩ ⟨-15, 4⟩ = .ok 1 := by
  decide
example : RelaxedInv ⟨9, 6⟩ ∧ RelaxedInv ⟨15, 9⟩ ∧ Reduced ⟨3, 2⟩ ∧ Reduced ⟨5, 3⟩ ∧
    (⟨9, 6⟩ : Q).val = (⟨3, 2⟩ : Q).val ∧ (⟨15, 9⟩ : Q).val = (⟨5, 3⟩ : Q).val := by
  refine ⟨by decide, by decide, by decide, by decide, ?_, ?_⟩ <;> norm_num [Q.val_def]
example : ∀ r ∈ [(⟨.R, ⟨3, 4⟩⟩ : Reg), ⟨.X, ⟨9, 6⟩⟩], r.Inv := by decide
example : rFromPartsSigned 6 (-4) = .ok ⟨-3, 2⟩ ∧ rFromParts 5 0 = .error .divideByZero := by decide


end Dashu.Props.C04
