import Dashu.Model.Ratio.Spec
namespace Dashu.Props.C04
open Dashu.Model Dashu.Model.Ratio

theorem neg_reduced (x : Q) (h : Reduced x) : Reduced (neg x) := by
  simpa [Reduced, neg] using h

end Dashu.Props.C04
