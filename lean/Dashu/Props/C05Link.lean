import Dashu.Props.C05
import Dashu.Props.C04
/-
  C05 ↔ C04 (round 5): the clause "this holds whichever constructor or operation produced the values" for RATIONALS.
  C05's own theorems (`ratio_cmp`, `relaxed_eq`, `rbig_eq`, `rbig_hash_follows_value`) carry the hypotheses
  `0 < den` / `gcd |num| den = 1`; C04's history theorem (`history_invariant`) proves exactly these for every register
  ever produced by any finite program over its instruction set (constructors, + - * / %, euclidean forms, inv, pow, sqr,
  cubic, neg, abs, signum, rounding family, mixed-integer forms; RBig and Relaxed).  Composed here, so no rational
  producer is used at contract level.  Kept apart from `Props/C05.lean` so that C05's own theorems do not depend on
  another group's proof files.
-/
namespace Dashu.Props.C05Link
open Dashu.Model Dashu.Model.Ratio

/-- a stored C04 pair seen by the C05 comparison model (same two fields) -/
def ofQ (q : Q) : QRepr := ⟨q.num, q.den⟩

/-- values are equal iff the cross products are -/
theorem val_eq_iff_cross (a b : Q) (ha : 0 < a.den) (hb : 0 < b.den) :
    a.val = b.val ↔ a.num * b.den = b.num * a.den := by
  unfold Q.val
  have ha' : (a.den : Rat) ≠ 0 := by exact_mod_cast (Nat.pos_iff_ne_zero.mp ha)
  have hb' : (b.den : Rat) ≠ 0 := by exact_mod_cast (Nat.pos_iff_ne_zero.mp hb)
  rw [div_eq_div_iff ha' hb']
  constructor
  · intro h; exact_mod_cast h
  · intro h; exact_mod_cast h

/-- values are ordered as the cross products are -/
theorem val_lt_iff_cross (a b : Q) (ha : 0 < a.den) (hb : 0 < b.den) :
    a.val < b.val ↔ a.num * b.den < b.num * a.den := by
  unfold Q.val
  have ha' : (0 : Rat) < (a.den : Rat) := by exact_mod_cast ha
  have hb' : (0 : Rat) < (b.den : Rat) := by exact_mod_cast hb
  rw [div_lt_div_iff₀ ha' hb']
  constructor
  · intro h; exact_mod_cast h
  · intro h; exact_mod_cast h

theorem inv_den_pos {r : Reg} (h : r.Inv) : 0 < r.q.den := by
  unfold Reg.Inv at h
  cases hk : r.kind <;> rw [hk] at h
  · exact h.1
  · exact h.1

/-- **rational history theorem for ==, cmp and Hash.**  For every finite program of C04's instruction set over a
    register file of valid values, ANY two registers ever produced (RBig or Relaxed, also those produced before a
    `DivideByZero`) satisfy: `cmp` (`repr_cmp` with its bit-length shortcuts) says Less / Equal / Greater exactly when
    the values are so ordered; `Relaxed ==` (`repr_eq`) holds exactly when the values are equal — hence
    `cmp == Equal ⇔ ==`; and for two RBig registers the structural `==` and equality of the `Hash` feeds each hold
    exactly when the values are equal. -/
theorem rational_history_eq_cmp_hash (W : Nat) (hW : 1 ≤ W) (ops : List Op) (env : List Reg) (henv : ∀ r ∈ env, r.Inv)
    (r1 r2 : Reg) (h1 : r1 ∈ (run ops env).1) (h2 : r2 ∈ (run ops env).1) :
    (reprCmp (ofQ r1.q) (ofQ r2.q) = .lt ↔ r1.val < r2.val) ∧
    (reprCmp (ofQ r1.q) (ofQ r2.q) = .eq ↔ r1.val = r2.val) ∧
    (reprCmp (ofQ r1.q) (ofQ r2.q) = .gt ↔ r2.val < r1.val) ∧
    (reprEq (ofQ r1.q) (ofQ r2.q) = true ↔ r1.val = r2.val) ∧
    (r1.kind = .R → r2.kind = .R →
      (rbigEq (ofQ r1.q) (ofQ r2.q) = true ↔ r1.val = r2.val) ∧
      ((ofQ r1.q).hashFeed W = (ofQ r2.q).hashFeed W ↔ r1.val = r2.val)) := by
  have i1 := Dashu.Props.C04.history_invariant ops env henv r1 h1
  have i2 := Dashu.Props.C04.history_invariant ops env henv r2 h2
  have d1 : 0 < (ofQ r1.q).den := inv_den_pos i1
  have d2 : 0 < (ofQ r2.q).den := inv_den_pos i2
  have hc := Dashu.Props.C05.ratio_cmp (ofQ r1.q) (ofQ r2.q) d1 d2
  have he := Dashu.Props.C05.relaxed_eq (ofQ r1.q) (ofQ r2.q) d1 d2
  have ve := val_eq_iff_cross r1.q r2.q d1 d2
  have vl := val_lt_iff_cross r1.q r2.q d1 d2
  have vg := val_lt_iff_cross r2.q r1.q d2 d1
  simp only [ofQ] at hc he d1 d2 ⊢
  unfold Reg.val
  refine ⟨?_, ?_, ?_, ?_, ?_⟩
  · rw [hc, vl, compare_lt_iff_lt]
  · rw [hc, ve, compare_eq_iff_eq]
  · rw [hc, vg, compare_gt_iff_gt]
  · rw [he, ve]
  · intro k1 k2
    have g1 : Nat.gcd r1.q.num.natAbs r1.q.den = 1 := by
      unfold Reg.Inv at i1; rw [k1] at i1; exact i1.2
    have g2 : Nat.gcd r2.q.num.natAbs r2.q.den = 1 := by
      unfold Reg.Inv at i2; rw [k2] at i2; exact i2.2
    have hr := Dashu.Props.C05.rbig_eq ⟨r1.q.num, r1.q.den⟩ ⟨r2.q.num, r2.q.den⟩ d1 d2 g1 g2
    have hh := Dashu.Props.C05.rbig_hash_follows_value W hW ⟨r1.q.num, r1.q.den⟩ ⟨r2.q.num, r2.q.den⟩ d1 d2 g1 g2
    exact ⟨by rw [hr.1, ve], by rw [hh, ve]⟩

-- non-vacuity: a program feeding results back (C04's example); registers 2 and 6 hold different values, 3/4 + (-5/6) < 103
example : (∀ r ∈ ([⟨.R, ⟨3, 4⟩⟩, ⟨.R, ⟨-5, 6⟩⟩] : List Reg), r.Inv) ∧
    ((run [.bin .add 0 1, .bin .mul 2 2, .bin .div 3 0, .un .inv 4, .intR .add 5 (-5)]
      [⟨.R, ⟨3, 4⟩⟩, ⟨.R, ⟨-5, 6⟩⟩]).1.map (·.q)) = [⟨3, 4⟩, ⟨-5, 6⟩, ⟨-1, 12⟩, ⟨1, 144⟩, ⟨1, 108⟩, ⟨108, 1⟩, ⟨103, 1⟩] ∧
    reprCmp (ofQ ⟨-1, 12⟩) (ofQ ⟨103, 1⟩) = .lt := by
  refine ⟨by decide, by decide, by decide⟩

end Dashu.Props.C05Link
