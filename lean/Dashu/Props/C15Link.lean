import Dashu.Props.C04
/-
  C15 ↔ C04 (link by import): the call forms of a dashu-ratio operator that take an INTEGER operand (`RBig ∘ UBig/IBig/prim`
  and the reversed direction — helper macro `impl_binop_with_int`, proved in `Props/C15Forms` to reach one integer-operand
  core per direction) return the same number as the form that takes the integer as a rational, and panic together.
  Composes C04's `int_right_ops_exact` / `int_left_ops_exact` / `binary_ops_exact` (all for every valid operand).
-/
namespace Dashu.Props.C15Link
open Dashu.Model Dashu.Model.Ratio Dashu.Props.C04

/-- the rational operator an integer-operand rule belongs to -/
def binOf : IntOp → Bin
  | .add => .add | .sub => .sub | .mul => .mul | .div => .div

theorem spec_intR_eq_bin (o : IntOp) (x : Rat) (z : Int) : Spec.intR o x z = Spec.bin (binOf o) x (z : Rat) := by
  cases o <;> simp [Spec.intR, Spec.bin, binOf]

theorem spec_intL_eq_bin (o : IntOp) (z : Int) (x : Rat) : Spec.intL o z x = Spec.bin (binOf o) (z : Rat) x := by
  cases o <;> simp [Spec.intL, Spec.bin, binOf]

/-- `x ∘ z` through the integer-operand rule = `x ∘ y` through the rational rule whenever `y` denotes `z`: same value,
    or both panic with the same kind -/
theorem int_right_form_value (o : IntOp) (k : Kind) (x y : Q) (z : Int) (hx : k.Inv x) (hy : k.Inv y)
    (hyz : y.val = (z : Rat)) :
    match evalIntR o k x z, evalBin (binOf o) k x y with
    | .ok r, .ok r' => r.val = r'.val
    | .error e, .error e' => e = e'
    | _, _ => False := by
  have h1 := int_right_ops_exact o k x z hx
  have h2 := binary_ops_exact (binOf o) k x y hx hy
  rw [spec_intR_eq_bin, ← hyz] at h1
  cases e1 : evalIntR o k x z <;> cases e2 : evalBin (binOf o) k x y <;> rw [e1] at h1 <;> rw [e2] at h2 <;>
    simp only at h1 h2 ⊢
  · rw [h1.1, h2.1]
  · rw [h1.2] at h2; exact absurd h2.2 (by simp)
  · rw [h2.2] at h1; exact absurd h1.2 (by simp)
  · have := h1.2.symm.trans h2.2
    simpa using this

/-- the reversed direction `z ∘ x` -/
theorem int_left_form_value (o : IntOp) (k : Kind) (x y : Q) (z : Int) (hx : k.Inv x) (hy : k.Inv y)
    (hyz : y.val = (z : Rat)) :
    match evalIntL o k z x, evalBin (binOf o) k y x with
    | .ok r, .ok r' => r.val = r'.val
    | .error e, .error e' => e = e'
    | _, _ => False := by
  have h1 := int_left_ops_exact o k z x hx
  have h2 := binary_ops_exact (binOf o) k y x hy hx
  rw [spec_intL_eq_bin, ← hyz] at h1
  cases e1 : evalIntL o k z x <;> cases e2 : evalBin (binOf o) k y x <;> rw [e1] at h1 <;> rw [e2] at h2 <;>
    simp only at h1 h2 ⊢
  · rw [h1.1, h2.1]
  · rw [h1.2] at h2; exact absurd h2.2 (by simp)
  · rw [h2.2] at h1; exact absurd h1.2 (by simp)
  · have := h1.2.symm.trans h2.2
    simpa using this

example : Reduced ⟨7, 3⟩ ∧ Reduced ⟨5, 1⟩ ∧ (⟨5, 1⟩ : Q).val = ((5 : Int) : Rat) ∧
    evalIntR .mul .R ⟨7, 3⟩ 5 = .ok ⟨35, 3⟩ ∧ evalBin .mul .R ⟨7, 3⟩ ⟨5, 1⟩ = .ok ⟨35, 3⟩ := by
  refine ⟨by decide, by decide, by simp [Q.val], by decide, by decide⟩

/-- the trait-method form for `RBig`: `div_rem_euclid` returns the pair of what `div_euclid` and `rem_euclid` return
    (the three bodies scale the operands differently — by the gcd of the denominators or not at all), or all three panic -/
theorem rbig_euclid_method_forms (x y : Q) (hx : Reduced x) (hy : Reduced y) :
    (y.num = 0 → R.divRemEuclid x y = .error .divideByZero ∧ R.divEuclid x y = .error .divideByZero ∧
        R.remEuclid x y = .error .divideByZero) ∧
    (y.num ≠ 0 → ∃ q r r', R.divRemEuclid x y = .ok (q, r) ∧ R.divEuclid x y = .ok q ∧ R.remEuclid x y = .ok r' ∧
        r = r') := by
  have h1 := rbig_div_rem_euclid_exact x y hx hy
  have h2 := div_euclid_exact x y hx.1 hy.1
  have h3 := rbig_rem_euclid_exact x y hx hy
  refine ⟨fun h0 => ⟨h1.1 h0, h2.1 h0, h3.1 h0⟩, fun hn => ?_⟩
  obtain ⟨r, hr, hred, hval⟩ := h1.2 hn
  obtain ⟨r', hr', hred', hval'⟩ := h3.2 hn
  exact ⟨_, r, r', hr, h2.2 hn, hr', reduced_unique r r' hred hred' (hval.trans hval'.symm)⟩

/-- the same for `Relaxed`, by value (its representation is not canonical) -/
theorem relaxed_euclid_method_forms (x y : Q) (hx : RelaxedInv x) (hy : RelaxedInv y) (hn : y.num ≠ 0) :
    ∃ q r, X.divRemEuclid x y = .ok (q, r) ∧ R.divEuclid x y = .ok q ∧ r.val = Spec.remEuclid x.val y.val := by
  obtain ⟨r, hr, _, hval⟩ := (relaxed_div_rem_euclid_exact x y hx hy).2 hn
  exact ⟨_, r, hr, (div_euclid_exact x y hx.1 hy.1).2 hn, hval⟩


end Dashu.Props.C15Link
