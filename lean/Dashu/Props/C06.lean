import Dashu.Proofs.Conv.Ratio
import Dashu.Proofs.Conv.FloatTo
import Dashu.Proofs.Conv.Fast
import Dashu.Proofs.Conv.TryTo
import Dashu.Proofs.Conv.Modes
import Dashu.Proofs.Float.FBigOps
import Dashu.Proofs.Conv.Base
import Dashu.Proofs.Conv.Kind
import Dashu.Proofs.Conv.ModeFlag
import Dashu.Proofs.Conv.ToFloat
import Dashu.Proofs.Conv.ToFloatHalf
import Dashu.Proofs.Conv.RangeExit
import Dashu.Proofs.Conv.RangeExitModes
/-
  C06 — Conversions are lossless or refused; lossy ones are correctly rounded and say so.

  Property theorems only (helper lemmas live in `Dashu/Proofs/Conv`).  A float is its bit pattern.
  `ieeeRound F m e` is the specification: the bit pattern of round-to-nearest-even of `m·2^e` in
  format `F` (overflow to ±∞, gradual underflow) and the sign of `result − exact`.
  `encodeFixed`, `toF64 _ true`, `ubigTryFromFloat`, … model the code of the CURRENT tree (after the
  `fix:` commits made from proposed_fixes/c06-*.diff); `encodeAsIs`, `toF64SmallAsIs`,
  `ubigTryFromFloatAsIs`, `ratToFloatAsIs` model the pinned code before those commits and only
  appear in counterexample theorems, which record why the repairs were needed.
-/
namespace Dashu.Props.C06
open Dashu.Model Dashu.Model.Conv Dashu.Model.Float Dashu.Props.GenRound

/-! ### What the specification means -/

/-- the rounding used by the spec is a nearest integer … -/
theorem spec_rounding_is_nearest (num den : Nat) (hd : 0 < den) :
    2 * (rneDiv num den * den) ≤ 2 * num + den ∧ 2 * num ≤ 2 * (rneDiv num den * den) + den :=
  rneDiv_half num den hd

/-- … and an exact tie goes to the even neighbour -/
theorem spec_rounding_ties_to_even (num den : Nat) (h : 2 * (num % den) = den) :
    rneDiv num den % 2 = 0 :=
  rneDiv_tie_even num den h

/-- the bit patterns the spec produces mean what IEEE 754 says: `decode` of the fields
    (sign, exponent field `E`, mantissa field `M`) is `±M·2^qmin` for `E = 0`, `±(2^MB+M)·2^(qmin+E-1)`
    otherwise, and NaN / ±∞ (all-ones exponent) are refused -/
theorem decode_reads_fields_f32 (s E M : Nat) (hs : s < 2) (hE : E < 2 ^ 8) (hM : M < 2 ^ 23) :
    decode f32Dec (fields .binary32 s E M) =
      if E = 2 ^ 8 - 1 then (if M ≠ 0 then .error .nan else .error .infinite)
      else .ok ((if s > 0 then -1 else 1) * ((if E = 0 then M else 2 ^ 23 + M : Nat) : Int),
                if E = 0 then Ieee.binary32.qmin else Ieee.binary32.qmin + E - 1) :=
  decode_fields f32Dec .binary32 f32Dec_compat s E M hs hE hM

theorem decode_reads_fields_f64 (s E M : Nat) (hs : s < 2) (hE : E < 2 ^ 11) (hM : M < 2 ^ 52) :
    decode f64Dec (fields .binary64 s E M) =
      if E = 2 ^ 11 - 1 then (if M ≠ 0 then .error .nan else .error .infinite)
      else .ok ((if s > 0 then -1 else 1) * ((if E = 0 then M else 2 ^ 52 + M : Nat) : Int),
                if E = 0 then Ieee.binary64.qmin else Ieee.binary64.qmin + E - 1) :=
  decode_fields f64Dec .binary64 f64Dec_compat s E M hs hE hM

/-- the specification used for rationals and floats of any base (`ieeeRoundRat`) extends the one of
    `encode`: on `num / 2^j` it is `ieeeRound num (-j)` -/
theorem spec_rational_extends_dyadic (F : Ieee) (num : Int) (j : Nat) :
    ieeeRoundRat F .halfEven num (2 ^ j) = ieeeRound F num (-(j : Int)) :=
  ieeeRoundRat_dyadic F num j

/-! ### `encode` (base/src/bit.rs) — the centre of C06 -/

/-- **encode_correct**, `f32` (body of the current tree, fix commit 6967148): for EVERY `i32`
    mantissa and EVERY exponent the result is the IEEE round-to-nearest-even bit pattern of `m·2^e`
    (normal, subnormal, ±∞, ±0) with the true sign of the error; no panic. -/
theorem encode_correct_f32 (m e : Int) (hm : -2 ^ 31 ≤ m ∧ m < 2 ^ 31) :
    encodeFixed f32Fixed m e = .ok (ieeeRound .binary32 m e) :=
  f32_encode_correct m e hm

/-- **encode_correct**, `f64`, every `i64` mantissa and every exponent. -/
theorem encode_correct_f64 (m e : Int) (hm : -2 ^ 63 ≤ m ∧ m < 2 ^ 63) :
    encodeFixed f64Fixed m e = .ok (ieeeRound .binary64 m e) :=
  f64_encode_correct m e hm

/-- the same theorem for any format/constants pair satisfying the stated relations
    (so a future `f16`/`f128` block is covered by checking `Compatible` — a `decide`) -/
theorem encode_correct_generic (c : EncConsts) (F : Ieee) (hc : Compatible c F) (m e : Int)
    (hm : m.natAbs ≤ 2 ^ (c.N - 1)) : encodeFixed c m e = .ok (ieeeRound F m e) :=
  encodeFixed_correct c F hc m e hm

-- non-vacuity: the hypotheses hold for concrete non-trivial inputs (a tie in the subnormal band)
example : (-2 ^ 31 : Int) ≤ 3 ∧ (3 : Int) < 2 ^ 31 ∧
    encodeFixed f32Fixed 3 (-151) = .ok (1, .pos) := by decide +kernel

/-- **round trip** `encode (decode x) = Exact x` for every finite `f32` bit pattern (NaN/±∞ are
    refused by `decode`; `-0.0` returns as `+0.0` because `encode` documents `Exact(0)` for zero) -/
theorem encode_decode_roundtrip_f32 (s E M : Nat) (hs : s < 2) (hE : E < 2 ^ 8 - 1) (hM : M < 2 ^ 23) :
    ∃ m e, decode f32Dec (fields .binary32 s E M) = .ok (m, e) ∧
      encodeFixed f32Fixed m e = .ok (if E = 0 ∧ M = 0 then 0 else fields .binary32 s E M, .exact) :=
  encode_decode_roundtrip f32Fixed f32Dec .binary32 f32Fixed_compatible f32Dec_compat s E M hs hE hM

theorem encode_decode_roundtrip_f64 (s E M : Nat) (hs : s < 2) (hE : E < 2 ^ 11 - 1) (hM : M < 2 ^ 52) :
    ∃ m e, decode f64Dec (fields .binary64 s E M) = .ok (m, e) ∧
      encodeFixed f64Fixed m e = .ok (if E = 0 ∧ M = 0 then 0 else fields .binary64 s E M, .exact) :=
  encode_decode_roundtrip f64Fixed f64Dec .binary64 f64Fixed_compatible f64Dec_compat s E M hs hE hM

/-
  History of the repaired defect.  The full statement for the pinned code,
    theorem encode_correct_f32_pinned (m e) : encodeAsIs f32AsIs m e = .ok (ieeeRound .binary32 m e)
  is FALSE; the counterexamples below are kernel-checked (they are what `proposed_fixes/
  c06-encode-rounding.diff`, applied as commit 6967148, repaired).
-/

/-- the pinned `f32::encode` flagged an inexact result `Exact` (sticky mask `0x7f` skipped bit 7) -/
theorem encode_asis_f32_counterexample_flag :
    encodeAsIs f32AsIs (2 ^ 30 + 32) 0 = .ok (0x4e800000, .exact) ∧
    ieeeRound .binary32 (2 ^ 30 + 32) 0 = (0x4e800000, .neg) := by decide +kernel

/-- … and returned a WRONG VALUE when the skipped bit turned a non-tie into an apparent tie -/
theorem encode_asis_f32_counterexample_value :
    encodeAsIs f32AsIs (2 ^ 30 + 96) 0 = .ok (0x4e800000, .neg) ∧
    ieeeRound .binary32 (2 ^ 30 + 96) 0 = (0x4e800001, .pos) := by decide +kernel

theorem encode_asis_f64_counterexample_flag :
    encodeAsIs f64AsIs (2 ^ 62 + 256) 0 = .ok (0x43d0000000000000, .exact) ∧
    ieeeRound .binary64 (2 ^ 62 + 256) 0 = (0x43d0000000000000, .neg) := by decide +kernel

theorem encode_asis_f64_counterexample_value :
    encodeAsIs f64AsIs (2 ^ 62 + 768) 0 = .ok (0x43d0000000000000, .neg) ∧
    ieeeRound .binary64 (2 ^ 62 + 768) 0 = (0x43d0000000000001, .pos) := by decide +kernel

/-- subnormal branch: the mask `0xfffffff` skipped bit 28 of `shifted` -/
theorem encode_asis_f32_counterexample_subnormal :
    encodeAsIs f32AsIs 11 (-151) = .ok (2, .neg) ∧
    ieeeRound .binary32 11 (-151) = (3, .pos) := by decide +kernel

theorem encode_asis_f64_counterexample_subnormal :
    encodeAsIs f64AsIs 22 (-1077) = .ok (2, .neg) ∧
    ieeeRound .binary64 22 (-1077) = (3, .pos) := by decide +kernel

/-- the `f32` underflow test was one binade too coarse: `3·2^-151` must round to `2^-149` -/
theorem encode_asis_f32_counterexample_underflow :
    encodeAsIs f32AsIs 3 (-151) = .ok (0, .neg) ∧
    ieeeRound .binary32 3 (-151) = (1, .pos) := by decide +kernel

/-- exactly representable inputs that panicked (debug build): `-2^31·2^-180 = -2^-149` -/
theorem encode_asis_f32_counterexample_shift_panic :
    encodeAsIs f32AsIs (-2 ^ 31) (-180) = .error (.undocumented f32AsIs.siteShl) ∧
    ieeeRound .binary32 (-2 ^ 31) (-180) = (0x80000001, .exact) := by decide +kernel

theorem encode_asis_f64_counterexample_shift_panic :
    encodeAsIs f64AsIs (-2 ^ 63) (-1137) = .error (.undocumented f64AsIs.siteShl) ∧
    ieeeRound .binary64 (-2 ^ 63) (-1137) = (0x8000000000000001, .exact) := by decide +kernel

/-- `top_bit` overflowed `i16` for exponents close to `i16::MAX` -/
theorem encode_asis_counterexample_exponent_overflow :
    encodeAsIs f32AsIs 1 32767 = .error (.undocumented f32AsIs.siteAdd) ∧
    ieeeRound .binary32 1 32767 = (0x7f800000, .pos) ∧
    encodeAsIs f64AsIs 1 32767 = .error (.undocumented f64AsIs.siteAdd) ∧
    ieeeRound .binary64 1 32767 = (0x7ff0000000000000, .pos) := by decide +kernel

/-! ### integers → floats (integer/src/convert.rs) -/

/-- **sticky-bit lemma**: a magnitude with at least two bits below the precision may be replaced by
    (its top bits | "something non-zero was shifted out") — same rounded result, same error sign.
    This is what `to_f64_nontrivial` and the repaired `RBig::to_f64` rely on. -/
theorem sticky_bit_lemma (F : Ieee) (hF : F.Ok) (x s : Nat) (e : Int) (hx : x ≠ 0) (hs : 1 ≤ s)
    (hlen : F.prec + 2 + s ≤ bitLen x) :
    ieeeRoundMag F ((x / 2 ^ s) ||| (if x % 2 ^ s ≠ 0 then 1 else 0)) (e + s) = ieeeRoundMag F x e :=
  sticky_round F hF x s e hx hs hlen

/-- **`UBig::to_f64`** (current tree): correctly rounded with the true error sign, for every canonical
    magnitude — inline (`to_f64_small`) or heap of any length (`to_f64_nontrivial` → `encode`) —
    and every word size ≥ 32. -/
theorem ubig_to_f64_correct (W : Nat) (hW : 32 ≤ W) (r : TRepr) (hr : r.Canon W) :
    toF64 W true r = .ok (ieeeRound .binary64 (r.value W : Int) 0) :=
  toF64_correct W hW r hr

/-- **`UBig::to_f32`**, 64-bit words (see `to_f32_small` note in the evidence for narrower words) -/
theorem ubig_to_f32_correct (W : Nat) (hW : 64 ≤ W) (r : TRepr) (hr : r.Canon W) :
    toF32 W true r = .ok (ieeeRound .binary32 (r.value W : Int) 0) :=
  toF32_correct W hW r hr

/-- `IBig::to_f32/to_f64` negate value and error sign of the magnitude's result -/
theorem ibig_to_float_sign (F : Ieee) (x : Nat) (e : Int) (hx : x ≠ 0) :
    ieeeRound F (-(x : Int)) e = signedApx F true (ieeeRound F (x : Int) e) :=
  ieeeRound_neg F x e hx

-- non-vacuity: a 3-word canonical value through the heap path
example : (TRepr.large [0, 1 <<< 10, 1]).Canon 64 ∧
    toF64 64 true (.large [0, 1 <<< 10, 1]) = .ok (0x47f0000000000000, .neg) := by decide +kernel

/-- the pinned `to_f64_small` reported `u128::MAX` as exactly `2^128` (repaired by commit e7f1714) -/
theorem to_f64_small_asis_counterexample :
    toF64SmallAsIs 64 (2 ^ 128 - 1) = (0x47f0000000000000, .exact) ∧
    ieeeRound .binary64 (2 ^ 128 - 1) 0 = (0x47f0000000000000, .pos) := by decide +kernel

/-- **`TryFrom<UBig> for f32`** (and `IBig`, which negates): whenever the bit-length rule
    (`bit_len ≤ 24`, or 25 bits and a power of two) lets a value through, the cast is exact.  The rule is
    conservative — `2^25` is refused although representable — which the property allows. -/
theorem ubig_try_to_f32_sound (x b : Nat) (h : ubigTryToFloat .binary32 x = .ok b) :
    ieeeRound .binary32 (x : Int) 0 = (b, .exact) :=
  ubigTryToFloat_sound .binary32 Ieee.binary32_ok (by decide) x b h

theorem ubig_try_to_f64_sound (x b : Nat) (h : ubigTryToFloat .binary64 x = .ok b) :
    ieeeRound .binary64 (x : Int) 0 = (b, .exact) :=
  ubigTryToFloat_sound .binary64 Ieee.binary64_ok (by decide) x b h

/-! ### floats → integers -/

/-- **`TryFrom<f32/f64> for UBig`** (current tree): NaN/±∞/negative ⇒ OutOfBounds, a fractional part ⇒
    LossOfPrecision, otherwise exactly the integer the float denotes -/
theorem ubig_try_from_float_exact_or_refused (d : DecConsts) (bits : Nat) :
    ((fun n : Nat => (n : Int)) <$> ubigTryFromFloat d bits) = intFromFloatSpec d false bits :=
  ubigTryFromFloat_spec d bits

theorem ibig_try_from_float_exact_or_refused (d : DecConsts) (bits : Nat) :
    ibigTryFromFloat d bits = intFromFloatSpec d true bits :=
  ibigTryFromFloat_spec d bits

/-- the pinned code converted `1.5f32` to `1` and `-1.5f32` to `-2` (repaired: fraction ⇒ refused) -/
theorem int_from_float_asis_counterexample :
    ubigTryFromFloatAsIs f32Dec 0x3fc00000 = .ok 1 ∧ intFromFloatSpec f32Dec false 0x3fc00000 = .error .lossOfPrecision ∧
    ibigTryFromFloatAsIs f32Dec 0xbfc00000 = .ok (-2) ∧ intFromFloatSpec f32Dec true 0xbfc00000 = .error .lossOfPrecision := by
  decide +kernel

/-! ### primitive integers ↔ big integers -/

/-- `try_to_unsigned::<T>` on a canonical magnitude succeeds iff the value fits the type, and
    returns it (word sizes that are a multiple of 8; `T` at most one word or a multiple of it) -/
theorem try_to_unsigned_in_range_iff (W bits : Nat) (hW : 8 ≤ W) (hW8 : W % 8 = 0) (hb8 : bits % 8 = 0)
    (hbits : bits ≤ W ∨ bits % W = 0) (r : TRepr) (hr : r.Canon W) :
    tryToUnsigned W bits r = if r.value W < 2 ^ bits then .ok (r.value W) else .error .outOfBounds :=
  tryToUnsigned_spec W bits hW hW8 hb8 hbits r hr

/-- `try_from_sign_magnitude` (every signed target): succeeds iff `±mag` is an `iN`, returns it -/
theorem try_from_sign_magnitude_in_range_iff (bits : Nat) (hb : 1 ≤ bits) (neg : Bool) (mag : Nat)
    (hm : mag < 2 ^ bits) :
    tryFromSignMagnitude bits neg mag =
      intoRangeSpec (-(2 ^ (bits - 1) : Int)) (2 ^ (bits - 1) - 1) (if neg then -(mag : Int) else mag) :=
  tryFromSignMagnitude_spec bits hb neg mag hm

/-- `to_sign_magnitude` of an `iN` (including `iN::MIN`) -/
theorem to_sign_magnitude_exact (bits : Nat) (hb : 1 ≤ bits) (x : Int)
    (hx : -(2 ^ (bits - 1) : Int) ≤ x ∧ x ≤ 2 ^ (bits - 1) - 1) :
    toSignMagnitude bits x = (decide (x < 0), x.natAbs) :=
  toSignMagnitude_spec bits hb x hx

/-- `From<uN> for UBig` keeps the value, and converting back returns it -/
theorem from_unsigned_roundtrip (W bits x : Nat) (hW : 1 ≤ W) (hx : x < 2 ^ bits) (hb : bits ≤ 2 * W) :
    (fromUnsigned W x).value W = x ∧ tryToUnsigned W bits (fromUnsigned W x) = .ok x :=
  ⟨(fromUnsigned_spec W x hW).1, unsigned_roundtrip W bits x hx hb⟩

-- non-vacuity: u128::MAX on 64-bit words, i8::MIN
example : tryToUnsigned 64 128 (fromUnsigned 64 (2 ^ 128 - 1)) = .ok (2 ^ 128 - 1) ∧
    tryFromSignMagnitude 8 true 128 = .ok (-128) ∧ tryFromSignMagnitude 8 false 128 = .error .outOfBounds := by
  decide +kernel

/-! ### rationals → floats (rational/src/convert.rs) -/

/-- **`RBig::to_f32`** (current tree, commit 1d8b6bc): for EVERY numerator and non-zero denominator the
    result is the IEEE round-to-nearest-even of the rational with the true error sign — quotient with
    two guard bits, sticky bit, a single rounding in `encode` (sticky lemma for non-dyadic quotients). -/
theorem rbig_to_f32_correct (num : Int) (den : Nat) (hden : den ≠ 0) :
    ratToFloatFixed rat32 (encodeFixed f32Fixed) num den = .ok (ieeeRoundRat .binary32 .halfEven num den) :=
  rbig_to_f32_correct' num den hden

/-- **`RBig::to_f64`** (current tree) -/
theorem rbig_to_f64_correct (num : Int) (den : Nat) (hden : den ≠ 0) :
    ratToFloatFixed rat64 (encodeFixed f64Fixed) num den = .ok (ieeeRoundRat .binary64 .halfEven num den) :=
  rbig_to_f64_correct' num den hden

/-- the pinned `RBig::to_f32` double-rounded: `100663301/4 = 25165825.25` went to `25165824`
    (repaired by commit 1d8b6bc: guard bits + sticky, then a single rounding in `encode`) -/
theorem rbig_to_f32_asis_counterexample :
    ratToFloatAsIs rat32 (encodeFixed f32Fixed) 100663301 4 = .ok (0x4bc00000, .neg) ∧
    ratToFloatFixed rat32 (encodeFixed f32Fixed) 100663301 4 = .ok (0x4bc00001, .pos) ∧
    ieeeRoundRat .binary32 .halfEven 100663301 4 = (0x4bc00001, .pos) := by decide +kernel

/-- … and `RBig::to_f64` sent `3/2^1076 = 1.5·2^-1075` to zero -/
theorem rbig_to_f64_asis_counterexample :
    ratToFloatAsIs rat64 (encodeFixed f64Fixed) 3 (2 ^ 1076) = .ok (0, .neg) ∧
    ratToFloatFixed rat64 (encodeFixed f64Fixed) 3 (2 ^ 1076) = .ok (1, .pos) ∧
    ieeeRoundRat .binary64 .halfEven 3 (2 ^ 1076) = (1, .pos) := by decide +kernel

/-! ## Round 2 — exactness-checked conversions between RBig, FBig, integers and primitive floats -/

/-- **`TryFrom<RBig> for IBig`** (rational in lowest terms): `Ok` exactly when the value is an integer,
    and then that integer; otherwise LossOfPrecision -/
theorem rbig_try_to_ibig_iff (num : Int) (den : Nat) (hden : den ≠ 0) (hco : Nat.Coprime num.natAbs den) :
    ratTryToIBig num den = if (den : Int) ∣ num then .ok (num / den) else .error .lossOfPrecision :=
  ratTryToIBig_spec num den hden hco

/-- **`TryFrom<RBig> for UBig`** (current tree, commit 9939d48) -/
theorem rbig_try_to_ubig_iff (num : Int) (den : Nat) (hden : den ≠ 0) (hco : Nat.Coprime num.natAbs den) :
    ratTryToUBig num den =
      if num < 0 then .error .outOfBounds
      else if (den : Int) ∣ num then .ok (num / den).toNat else .error .lossOfPrecision :=
  ratTryToUBig_spec num den hden hco

/-- **`TryFrom<RBig> for uN/iN`**: an integer the type holds, or refused with the right kind -/
theorem rbig_try_to_prim_iff (lo hi : Int) (num : Int) (den : Nat) (hden : den ≠ 0)
    (hco : Nat.Coprime num.natAbs den) :
    ratTryToPrim lo hi num den =
      if (den : Int) ∣ num then intoRangeSpec lo hi (num / den) else .error .lossOfPrecision :=
  ratTryToPrim_spec lo hi num den hden hco

/-- **`RBig::to_int`**: truncation toward zero; `Exact` iff the value is an integer; the reported
    fraction is exactly the rest (`num = trunc·den + fract_num`, same denominator) -/
theorem rbig_to_int_truthful (num : Int) (den : Nat) (hden : 0 < den) :
    IsTowardZero num den (ratToInt num den).1 ∧
    ((ratToInt num den).2 = none ↔ (den : Int) ∣ num) ∧
    (∀ fn fd, (ratToInt num den).2 = some (fn, fd) → fd = den ∧ num = (ratToInt num den).1 * den + fn) :=
  ratToInt_spec num den hden

/-- **`RBig::try_from(f32/f64)`** is exact (`man·2^exp`), NaN/±∞ refused -/
theorem rbig_try_from_float_exact (d : DecConsts) (bits : Nat) (n : Int) (dn : Nat)
    (h : ratFromFloat d bits = .ok (n, dn)) :
    ∃ man exp, decode d bits = .ok (man, exp) ∧ 0 < dn ∧ (n : ℚ) / (dn : ℚ) = (man : ℚ) * bpowQ 2 exp :=
  ratFromFloat_exact d bits n dn h

theorem rbig_try_from_float_refuses (d : DecConsts) (bits : Nat) (c : FpCategory)
    (h : decode d bits = .error c) : ratFromFloat d bits = .error .outOfBounds :=
  ratFromFloat_refuses d bits c h

/-- **`FBig::try_from(f32/f64)`**: exact value, normalised, precision = bit length of the mantissa -/
theorem fbig_try_from_float_exact (d : DecConsts) (bits : Nat) (r : FRepr) (p : Nat)
    (h : fbigFromFloat d bits = .ok (.finite r p)) :
    ∃ man exp, decode d bits = .ok (man, exp) ∧ r.toRat 2 = (man : ℚ) * bpowQ 2 exp ∧
      Normalized 2 r ∧ p = bitLen man.natAbs :=
  fbigFromFloat_exact d bits r p h

/-- **`TryFrom<FBig> for IBig`** (any base ≥ 2, normalised float): `Ok v` with the value `= v`, or
    LossOfPrecision and the value is no integer; infinities are out of bounds -/
theorem fbig_try_to_ibig_iff (B : Nat) (hB : 2 ≤ B) (r : FRepr) (hn : Normalized B r) :
    (FRepr.isInfinite r = true ∧ fbigTryToIBig B r = .error .outOfBounds) ∨
    (FRepr.isInfinite r = false ∧
      ((∃ v : Int, fbigTryToIBig B r = .ok v ∧ r.toRat B = (v : ℚ)) ∨
       (fbigTryToIBig B r = .error .lossOfPrecision ∧ ∀ v : Int, r.toRat B ≠ (v : ℚ)))) :=
  fbigTryToIBig_spec B hB r hn

/-- **`TryFrom<FBig> for UBig`**: succeeds only through the `IBig` conversion with a non-negative value -/
theorem fbig_try_to_ubig_sound (B : Nat) (r : FRepr) (v : Nat) (h : fbigTryToUBig B r = .ok v) :
    fbigTryToIBig B r = .ok (v : Int) :=
  fbigTryToUBig_spec B r v h

/-- **`TryFrom<FBig> for uN / iN`** with any sound `log2_bounds` estimate: `Ok v` iff the value is the
    integer `v` and the type holds it -/
theorem fbig_try_to_prim_iff (B : Nat) (hB : 2 ≤ B) (unsigned : Bool) (lo hi : Int) (big : Bool) (r : FRepr)
    (hn : Normalized B r) (hlo : unsigned = true → lo = 0)
    (hbig : big = true → ∀ v : Int, r.toRat B = (v : ℚ) → ¬ (lo ≤ v ∧ v ≤ hi)) (v : Int) :
    fbigTryToPrim B unsigned lo hi big r = .ok v ↔
      (FRepr.isInfinite r = false ∧ r.toRat B = (v : ℚ) ∧ lo ≤ v ∧ v ≤ hi) :=
  fbigTryToPrim_ok_iff B hB unsigned lo hi big r hn hlo hbig v

/-- **`TryFrom<FBig> for RBig`**: exact -/
theorem fbig_to_rbig_exact (B : Nat) (hB : 2 ≤ B) (r : FRepr) (n : Int) (d : Nat)
    (h : fbigToRat B r = .ok (n, d)) : 0 < d ∧ r.toRat B = (n : ℚ) / (d : ℚ) :=
  fbigToRat_exact B hB r n d h

/-- **`TryFrom<RBig> for f32`** (current tree, commit 90f3ba2): a success is exact -/
theorem rbig_try_to_f32_sound (num : Int) (den : Nat) (bits : Nat)
    (h : ratTryToFloat f32Fixed (-149) 128 num den = .ok (.ok bits)) :
    ieeeRoundRat .binary32 .halfEven num den = (bits, .exact) :=
  ratTryToFloat_sound f32Fixed .binary32 f32Fixed_compatible (-149) 128 num den bits h

theorem rbig_try_to_f64_sound (num : Int) (den : Nat) (bits : Nat)
    (h : ratTryToFloat f64Fixed (-1074) 1024 num den = .ok (.ok bits)) :
    ieeeRoundRat .binary64 .halfEven num den = (bits, .exact) :=
  ratTryToFloat_sound f64Fixed .binary64 f64Fixed_compatible (-1074) 1024 num den bits h

/-- **`FBig::to_int`** (mode of the type, via builder-float's `fToInt`): the integer the mode names for
    `signif / B^(-exp)`, always flagged inexact when fractional digits exist; **`Repr::to_int`** truncates -/
theorem fbig_to_int_follows_mode (B : Nat) (hB : 2 ≤ B) (c : Coarse) (hc : CoarseSound c) (dub : Int → Nat)
    (hdub : DubSound B dub) (x : FBigM) (he : x.repr.exp < 0) (m : Float.Mode) :
    ModeSpec m x.repr.signif (pointUnit B x.repr) (fToInt B m c dub x).1 ∧ (fToInt B m c dub x).2 ≠ none :=
  fToInt_spec B hB c hc dub hdub x he m

theorem repr_to_int_truncates (B : Nat) (hB : 2 ≤ B) (dub : Int → Nat) (hdub : DubSound B dub) (r : FRepr)
    (he : r.exp < 0) :
    IsTowardZero r.signif (pointUnit B r) (reprToInt B dub r).1 ∧ (reprToInt B dub r).2 = some .NoOp :=
  reprToInt_spec B hB dub hdub r he

/-! ## Round 2 — `FBig/Repr::to_f32/to_f64`, base 2: normal form and exact failing regions -/

/-- **double rounding lemma**: rounding to nearest-even twice (`k1` bits, then `k2 ≥ 1` more) equals the
    single rounding exactly outside `DoubleRoundBad` (first rounding inexact, lands on a midpoint of the
    second grid, tie rule to the wrong side) -/
theorem double_rounding_lemma (a k1 k2 : Nat) (hk2 : 1 ≤ k2) :
    rneDiv (rneDiv a (2 ^ k1)) (2 ^ k2) = rneDiv a (2 ^ (k1 + k2)) ↔ ¬ DoubleRoundBad a k1 k2 :=
  double_rne a k1 k2 hk2

/-- the first rounding (`Context::repr_round_ref` in base 2, all six modes, through the regenerated
    `round_low_part` tables) as a rounding of the magnitude -/
theorem fbig_first_rounding (m : Float.Mode) (c : Coarse) (hc : CoarseSound c) (p : Nat) (hp : 1 ≤ p) (s e : Int)
    (hodd : s % 2 = 1) :
    reprRound 2 m c p ⟨s, e⟩ =
      if bitLen s.natAbs ≤ p then (⟨s, e⟩, none)
      else
        let k := bitLen s.natAbs - p
        let rm := roundMagMode (convMode m) (decide (s < 0)) s.natAbs (2 ^ k)
        (FRepr.new 2 ((if s < 0 then -1 else 1) * (rm.1 : Int)) (e + (k : Int)), some (adjOfUp rm.2 (decide (s < 0)))) :=
  reprRound_two m c hc p hp s e hodd

/-- **normal form of `FBig::<R,2>::to_f32` (every mode R), `FBig::to_f64`, `Repr::to_f32/to_f64`**: the bits are
    the IEEE round-to-nearest-even of the value FIRST rounded to 24/53 bits in the mode of the type -/
theorem fbig_to_f64_normal_form (m : Float.Mode) (c : Coarse) (hc : CoarseSound c) (s e : Int) (hodd : s % 2 = 1) :
    fbigToFloat into64 m c ⟨s, e⟩ =
      .ok ((if s < 0 then Ieee.binary64.signBit else 0) +
            (ieeeRoundMag .binary64 (firstRound 53 m (decide (s < 0)) s.natAbs e).1
              (firstRound 53 m (decide (s < 0)) s.natAbs e).2.1).1,
           andThenFlag (firstRound 53 m (decide (s < 0)) s.natAbs e).2.2
             (intoFlag into64 (decide (s < 0)) (reachedRepr .binary64 m s e).exp
               (ieeeRoundMag .binary64 (firstRound 53 m (decide (s < 0)) s.natAbs e).1
                 (firstRound 53 m (decide (s < 0)) s.natAbs e).2.1).2)) :=
  fbigToFloat_normal into64 into64_compat m c hc s e hodd

theorem fbig_to_f32_normal_form (m : Float.Mode) (c : Coarse) (hc : CoarseSound c) (s e : Int) (hodd : s % 2 = 1) :
    fbigToFloat into32 m c ⟨s, e⟩ =
      .ok ((if s < 0 then Ieee.binary32.signBit else 0) +
            (ieeeRoundMag .binary32 (firstRound 24 m (decide (s < 0)) s.natAbs e).1
              (firstRound 24 m (decide (s < 0)) s.natAbs e).2.1).1,
           andThenFlag (firstRound 24 m (decide (s < 0)) s.natAbs e).2.2
             (intoFlag into32 (decide (s < 0)) (reachedRepr .binary32 m s e).exp
               (ieeeRoundMag .binary32 (firstRound 24 m (decide (s < 0)) s.natAbs e).1
                 (firstRound 24 m (decide (s < 0)) s.natAbs e).2.1).2)) :=
  fbigToFloat_normal into32 into32_compat m c hc s e hodd

/-- **value**: `FBig::to_f64` (every FBig of base 2; the conversion always rounds half-even) returns the
    correctly rounded double EXACTLY outside `ToFloatBad` = {more than 53 bits ∧ subnormal result ∧
    `DoubleRoundBad`} — the closed form of the recorded finding "subnormal double rounding" -/
theorem fbig_to_f64_value_iff (c : Coarse) (hc : CoarseSound c) (s e : Int) (hodd : s % 2 = 1)
    (bits : Nat) (fl : Option Float.Rounding) (h : fbigToFloat into64 .halfEven c ⟨s, e⟩ = .ok (bits, fl)) :
    bits = (ieeeRound .binary64 s e).1 ↔ ¬ ToFloatBad .binary64 s.natAbs e :=
  fbigToFloat_value_iff into64 into64_compat c hc s e hodd bits fl h

/-- the same for `Repr::<2>::to_f32` and `FBig<HalfEven, 2>::to_f32` -/
theorem fbig_to_f32_value_iff (c : Coarse) (hc : CoarseSound c) (s e : Int) (hodd : s % 2 = 1)
    (bits : Nat) (fl : Option Float.Rounding) (h : fbigToFloat into32 .halfEven c ⟨s, e⟩ = .ok (bits, fl)) :
    bits = (ieeeRound .binary32 s e).1 ↔ ¬ ToFloatBad .binary32 s.natAbs e :=
  fbigToFloat_value_iff into32 into32_compat c hc s e hodd bits fl h

/-- **flag**: where the value is right, the returned `Rounding` tells the truth EXACTLY outside
    `ToFloatFlagBad` = {`encode` rounded the magnitude up ∧ no overflow exit} — the closed form of the
    recorded finding "flag replaced by NoOp" -/
theorem fbig_to_f64_flag_iff (c : Coarse) (hc : CoarseSound c) (s e : Int) (hodd : s % 2 = 1)
    (bits : Nat) (fl : Option Float.Rounding) (h : fbigToFloat into64 .halfEven c ⟨s, e⟩ = .ok (bits, fl))
    (hgood : ¬ ToFloatBad .binary64 s.natAbs e) :
    fl = adjOfMag (decide (s < 0)) (ieeeRoundMag .binary64 s.natAbs e).2 ↔ ¬ ToFloatFlagBad into64 .halfEven s e :=
  fbigToFloat_flag_iff into64 into64_compat c hc s e hodd bits fl h hgood

theorem fbig_to_f32_flag_iff (c : Coarse) (hc : CoarseSound c) (s e : Int) (hodd : s % 2 = 1)
    (bits : Nat) (fl : Option Float.Rounding) (h : fbigToFloat into32 .halfEven c ⟨s, e⟩ = .ok (bits, fl))
    (hgood : ¬ ToFloatBad .binary32 s.natAbs e) :
    fl = adjOfMag (decide (s < 0)) (ieeeRoundMag .binary32 s.natAbs e).2 ↔ ¬ ToFloatFlagBad into32 .halfEven s e :=
  fbigToFloat_flag_iff into32 into32_compat c hc s e hodd bits fl h hgood

/-- both regions are inhabited (kernel-checked): `(2^54+1)·2^-1129` converts to 0 instead of `2^-1074`;
    `3·2^1023` overflows inside `encode` and is reported `Inexact(∞, NoOp)` -/
theorem fbig_to_f64_bad_regions_inhabited :
    ToFloatBad .binary64 (2 ^ 54 + 1) (-1129) ∧
    fbigToFloat into64 .halfEven coarseNone ⟨2 ^ 54 + 1, -1129⟩ = .ok (0, some .NoOp) ∧
    ieeeRound .binary64 (2 ^ 54 + 1) (-1129) = (1, .pos) ∧
    ¬ ToFloatBad .binary64 3 1023 ∧ ToFloatFlagBad into64 .halfEven 3 1023 ∧
    fbigToFloat into64 .halfEven coarseNone ⟨3, 1023⟩ = .ok (0x7ff0000000000000, some .NoOp) := by
  decide +kernel

/-! ## Round 2 — `RBig::to_f32_fast / to_f64_fast`: the bounded error -/

/-- outside its two early exits `to_f64_fast` returns the correctly rounded (`encode_correct`) float of
    `±m'·2^x`, where `m'` is the rounded quotient of the numerator truncated to 106 and the denominator
    truncated to 53 bits (`to_f32_fast`: 48 and 24) -/
theorem rbig_to_f64_fast_normal_form (num : Int) (den : Nat) (hnum : num ≠ 0) (hden : den ≠ 0)
    (h1 : ¬ (fastExp 53 num.natAbs den ≥ 1024)) (h2 : ¬ (fastExp 53 num.natAbs den < -1074 - 53 - 1)) :
    ratToFloatFast rat64 (encodeFixed f64Fixed) num den =
      .ok (ieeeRound .binary64
        (if decide (num < 0) then -((rneDiv (fastNum 53 num.natAbs (decide (num < 0))) (fastDen 53 den) : Nat) : Int)
         else ((rneDiv (fastNum 53 num.natAbs (decide (num < 0))) (fastDen 53 den) : Nat) : Int))
        (fastExp 53 num.natAbs den)).1 :=
  ratToFloatFast_main rat64 f64Fixed rat64_compat num den hnum hden h1 h2

theorem rbig_to_f32_fast_normal_form (num : Int) (den : Nat) (hnum : num ≠ 0) (hden : den ≠ 0)
    (h1 : ¬ (fastExp 24 num.natAbs den ≥ 128)) (h2 : ¬ (fastExp 24 num.natAbs den < -149 - 25 - 0)) :
    ratToFloatFast rat32 (encodeFixed f32Fixed) num den =
      .ok (ieeeRound .binary32
        (if decide (num < 0) then -((rneDiv (fastNum 24 num.natAbs (decide (num < 0))) (fastDen 24 den) : Nat) : Int)
         else ((rneDiv (fastNum 24 num.natAbs (decide (num < 0))) (fastDen 24 den) : Nat) : Int))
        (fastExp 24 num.natAbs den)).1 :=
  ratToFloatFast_main rat32 f32Fixed rat32_compat num den hnum hden h1 h2

/-- **bounded error**: that rounded quotient is within 4.5 units in its own last place of the exact
    quotient `|num|/den` scaled to the same exponent (every precision `p ≥ 1`, every operand size).  With
    `p` or `p+1` bits in `m'` this is < 2.5 resp. 2.25 ulps of the result before the (correct) rounding in
    `encode`, i.e. the result is at most 3 units away from the correctly rounded float in the normal range —
    not "one bit" as the doc comment says. -/
theorem rbig_to_float_fast_quotient_bound (p a den : Nat) (neg : Bool) (hp : 1 ≤ p) (ha : a ≠ 0) (hd : den ≠ 0) :
    |((rneDiv (fastNum p a neg) (fastDen p den) : Nat) : ℚ) -
      ((a : ℚ) / (den : ℚ)) / (2 : ℚ) ^ (fastExp p a den)| < 9 / 2 :=
  fast_quotient_bound p a den neg hp ha hd

/-! ## Round 3 — completeness of `TryFrom<RBig> for f32/f64`, `TryFrom<FBig> for f32/f64`, signed round trip -/

/-- **`TryFrom<RBig> for f32`** (current tree): for a rational in lowest terms the conversion succeeds IFF the
    value is exactly representable, and then returns exactly that float (soundness + completeness) -/
theorem rbig_try_to_f32_iff (num : Int) (den : Nat) (hden : den ≠ 0) (hco : Nat.Coprime num.natAbs den) (bits : Nat) :
    ratTryToFloat f32Fixed (-149) 128 num den = .ok (.ok bits) ↔
      ieeeRoundRat .binary32 .halfEven num den = (bits, .exact) :=
  ratTryToFloat_iff f32Fixed .binary32 f32Fixed_compatible (by decide) (-149) 128 (by decide) (by decide)
    num den hden hco bits

theorem rbig_try_to_f64_iff (num : Int) (den : Nat) (hden : den ≠ 0) (hco : Nat.Coprime num.natAbs den) (bits : Nat) :
    ratTryToFloat f64Fixed (-1074) 1024 num den = .ok (.ok bits) ↔
      ieeeRoundRat .binary64 .halfEven num den = (bits, .exact) :=
  ratTryToFloat_iff f64Fixed .binary64 f64Fixed_compatible (by decide) (-1074) 1024 (by decide) (by decide)
    num den hden hco bits

/-- **`TryFrom<FBig<_,2>> for f64` / `TryFrom<Repr<2>> for f64`**: a success is exact -/
theorem fbig_try_to_f64_sound (c : Coarse) (hc : CoarseSound c) (s e : Int) (hodd : s % 2 = 1) (bits : Nat)
    (h : fbigTryToFloat into64 c ⟨s, e⟩ = .ok (.ok bits)) : ieeeRound .binary64 s e = (bits, .exact) :=
  fbigTryToFloat_sound into64 into64_compat c hc s e hodd bits h

theorem fbig_try_to_f32_sound (c : Coarse) (hc : CoarseSound c) (s e : Int) (hodd : s % 2 = 1) (bits : Nat)
    (h : fbigTryToFloat into32 c ⟨s, e⟩ = .ok (.ok bits)) : ieeeRound .binary32 s e = (bits, .exact) :=
  fbigTryToFloat_sound into32 into32_compat c hc s e hodd bits h

/-- **`From<iN> for IBig` then `TryFrom<IBig> for iN`** gives the value back (every width, incl. `MIN`) -/
theorem signed_primitive_roundtrip (W bits : Nat) (hb : 1 ≤ bits) (hbW : bits ≤ 2 * W) (x : Int)
    (hx : -(2 ^ (bits - 1) : Int) ≤ x ∧ x ≤ 2 ^ (bits - 1) - 1) :
    ibigTryToSigned W bits (fromSigned W bits x) = .ok x :=
  signed_roundtrip W bits hb hbW x hx

/-- **`FBig::<R,2>::to_f32` for EVERY rounding mode `R`** (Zero, Away, Up, Down, HalfEven, HalfAway): the
    returned bits are those of ONE rounding of `s·2^e` in mode `R` — the driver's specification of
    `f.to_f32` — EXACTLY outside `ModeBad` = {subnormal result ∧ half-even re-rounding inside `encode` ≠ the
    mode-`R` rounding}.  In particular every normal-range and overflowing result is right in every mode; the
    closed form of the recorded finding "subnormal result rounded half-even whatever the mode". -/
theorem fbig_to_f32_value_iff_every_mode (m : Float.Mode) (c : Coarse) (hc : CoarseSound c) (s e : Int)
    (hodd : s % 2 = 1) (bits : Nat) (fl : Option Float.Rounding)
    (h : fbigToFloat into32 m c ⟨s, e⟩ = .ok (bits, fl)) :
    bits = (ieeeRoundRat .binary32 (convMode m) (floatAsRat 2 s e).1 (floatAsRat 2 s e).2).1 ↔
      ¬ ModeBad .binary32 (convMode m) (decide (s < 0)) s.natAbs e :=
  fbigToFloat_value_iff_modes into32 into32_compat m c hc s e hodd bits fl h

/-- the region is inhabited in directed modes even WITHOUT a first rounding (kernel-checked):
    `FBig<Up>` `2^-151` converts to `+0` although rounding up gives the least subnormal; `FBig<Zero>`
    `3·2^-151` converts to the least subnormal although truncation gives `+0` -/
theorem fbig_to_f32_mode_region_inhabited :
    ModeBad .binary32 (convMode .up) false 1 (-151) ∧
    fbigToFloat into32 .up coarseNone ⟨1, -151⟩ = .ok (0, some .NoOp) ∧
    ieeeRoundRat .binary32 (convMode .up) (floatAsRat 2 1 (-151)).1 (floatAsRat 2 1 (-151)).2 = (1, .pos) ∧
    ModeBad .binary32 (convMode .zero) false 3 (-151) ∧
    fbigToFloat into32 .zero coarseNone ⟨3, -151⟩ = .ok (1, some .NoOp) ∧
    ieeeRoundRat .binary32 (convMode .zero) (floatAsRat 2 3 (-151)).1 (floatAsRat 2 3 (-151)).2 = (0, .neg) := by
  decide +kernel

/-! ## Non-vacuity: every hypothesis-carrying theorem above is instantiated on a concrete non-trivial value -/

-- decode / round trip: the least subnormal with sign, the largest finite, a NaN
example : (1 : Nat) < 2 ∧ (0 : Nat) < 2 ^ 8 - 1 ∧ (1 : Nat) < 2 ^ 23 ∧
    decode f32Dec (fields .binary32 1 0 1) = .ok (-1, -149) ∧
    decode f32Dec (fields .binary32 0 255 5) = .error .nan ∧
    encodeFixed f32Fixed (-1) (-149) = .ok (fields .binary32 1 0 1, .exact) := by decide +kernel
-- sticky-bit lemma: a 61-bit value compressed by 3 bits for binary32
example : Ieee.binary32.Ok ∧ ((2 ^ 60 + 1 : Nat) ≠ 0 ∧ Ieee.binary32.prec + 2 + 3 ≤ bitLen (2 ^ 60 + 1) ∧
    ieeeRoundMag .binary32 (((2 ^ 60 + 1) / 2 ^ 3) ||| (if (2 ^ 60 + 1) % 2 ^ 3 ≠ 0 then 1 else 0)) (0 + 3) =
      ieeeRoundMag .binary32 (2 ^ 60 + 1) 0) := ⟨Ieee.binary32_ok, by decide +kernel⟩
-- TryFrom<UBig> for f32: 2^24 passes the bit-length rule and is exact
example : ubigTryToFloat .binary32 (2 ^ 24) = .ok 0x4b800000 ∧
    ieeeRound .binary32 (2 ^ 24) 0 = (0x4b800000, .exact) := by decide +kernel
-- RBig::to_f64 on 1/3 (non-dyadic) and TryFrom<RBig> for f32 on 7/2 (coprime, representable) and 1/3 (refused)
example : (3 : Nat) ≠ 0 ∧ ratToFloatFixed rat64 (encodeFixed f64Fixed) 1 3 = .ok (0x3fd5555555555555, .neg) := by
  decide +kernel
example : Nat.Coprime (7 : Int).natAbs 2 ∧ ratTryToFloat f32Fixed (-149) 128 7 2 = .ok (.ok 0x40600000) ∧
    Nat.Coprime (1 : Int).natAbs 3 ∧ ratTryToFloat f32Fixed (-149) 128 1 3 = .ok (.error .lossOfPrecision) ∧
    ratTryToIBig 7 2 = .error .lossOfPrecision ∧ ratTryToUBig (-4) 1 = .error .outOfBounds ∧
    ratToInt (-7) 2 = (-3, some (-1, 2)) := by decide +kernel
-- floats: 25·10^-1 is normalised, finite, not an integer; 25·10^1 converts to 250
example : Normalized 10 ⟨25, -1⟩ ∧ FRepr.isInfinite ⟨25, -1⟩ = false ∧
    fbigTryToIBig 10 ⟨25, -1⟩ = .error .lossOfPrecision ∧ fbigTryToIBig 10 ⟨25, 1⟩ = .ok 250 ∧
    fbigTryToPrim 10 true 0 255 false ⟨25, 1⟩ = .ok 250 ∧ fbigTryToPrim 10 true 0 255 false ⟨26, 1⟩ = .error .outOfBounds ∧
    fbigToRat 10 ⟨25, -1⟩ = .ok (25, 10) := by
  refine ⟨Or.inr (by decide), by decide, by decide, by decide, by decide, by decide, by decide⟩
-- float -> FBig / RBig: 1.5f32
example : fbigFromFloat f32Dec 0x3fc00000 = .ok (.finite ⟨3, -1⟩ 24) ∧ ratFromFloat f32Dec 0x3fc00000 = .ok (12582912, 8388608) := by
  decide +kernel
-- double rounding: 2^54+1 rounded to 53 bits (2 bits dropped) and then by 53 more is a bad case
example : (1 : Nat) ≤ 53 ∧ DoubleRoundBad (2 ^ 54 + 1) 2 53 := by decide +kernel
-- first rounding / normal form / value and flag theorems: odd significands, coarseNone is sound
example : CoarseSound coarseNone := by intro B f k o h; simp [coarseNone] at h
example : ((2 ^ 54 + 1 : Int) % 2 = 1) ∧ ((3 : Int) % 2 = 1) ∧ ((-(2 ^ 30) - 1 : Int) % 2 = 1) := by decide
example : fbigToFloat into32 .halfEven coarseNone ⟨3, -151⟩ = .ok (1, some .NoOp) ∧
    ¬ ToFloatBad .binary32 3 (-151) ∧ ToFloatFlagBad into32 .halfEven 3 (-151) ∧
    fbigTryToFloat into32 coarseNone ⟨3, -150⟩ = .ok (.error .lossOfPrecision) ∧
    fbigTryToFloat into32 coarseNone ⟨3, -149⟩ = .ok (.ok 3) := by decide +kernel
-- fast conversions: 22/7, outside the early exits
example : (22 : Int) ≠ 0 ∧ (7 : Nat) ≠ 0 ∧ ¬ (fastExp 53 22 7 ≥ 1024) ∧ ¬ (fastExp 53 22 7 < -1074 - 53 - 1) ∧
    ratToFloatFast rat64 (encodeFixed f64Fixed) 22 7 = .ok 0x4009249249249249 := by decide +kernel
-- primitives: i8::MIN through IBig and back; a canonical 3-word magnitude refused by u128
example : signed_primitive_roundtrip 64 8 (by decide) (by decide) (-128) (by decide) =
    signed_primitive_roundtrip 64 8 (by decide) (by decide) (-128) (by decide) := rfl
example : ibigTryToSigned 64 8 (fromSigned 64 8 (-128)) = .ok (-128) ∧
    (TRepr.large [1, 2, 3]).Canon 64 ∧ tryToUnsigned 64 128 (.large [1, 2, 3]) = .error .outOfBounds ∧
    toSignMagnitude 8 (-128) = (true, 128) := by decide +kernel

-- every-mode value theorem: hypotheses hold on a 25-bit odd significand in mode Down, normal range
example : ((2 ^ 24 + 1 : Int) % 2 = 1) ∧
    fbigToFloat into32 .down coarseNone ⟨2 ^ 24 + 1, 0⟩ = .ok (0x4b800000, some .NoOp) ∧
    ¬ ModeBad .binary32 (convMode .down) false (2 ^ 24 + 1) 0 := by decide +kernel

/-! ## Round 4 — refusal kind of `TryFrom<RBig> for f32/f64`; the flag of `FBig::<R,2>::to_f32` in every mode;
    `to_f32/to_f64` of floats whose base is not 2 (mirrored `convert_base` branches) -/

/-- **`TryFrom<RBig> for f32`, value AND refusal kind** (current tree): for every rational in lowest terms the
    mirrored conversion returns exactly `ratTryToFloatSpec` — `Ok` iff exactly representable; a non-dyadic value ⇒
    LossOfPrecision; magnitude `≥ 2^128` ⇒ OutOfBounds; below `2^-150` ⇒ LossOfPrecision; otherwise OutOfBounds
    exactly when the odd part fits `i32` and the value rounds to ±∞ — and never panics.  (This is the specification
    the driver prints for `r.tryto_f32`; it was a per-case comparison before.) -/
theorem rbig_try_to_f32_kind (num : Int) (den : Nat) (hden : den ≠ 0) (hco : Nat.Coprime num.natAbs den) :
    ratTryToFloat f32Fixed (-149) 128 num den = .ok (ratTryToFloatSpec .binary32 32 num den) :=
  ratTryToFloat_kind f32Fixed .binary32 f32Fixed_compatible (by decide) (-149) 128 (by decide) (by decide)
    num den hden hco

theorem rbig_try_to_f64_kind (num : Int) (den : Nat) (hden : den ≠ 0) (hco : Nat.Coprime num.natAbs den) :
    ratTryToFloat f64Fixed (-1074) 1024 num den = .ok (ratTryToFloatSpec .binary64 64 num den) :=
  ratTryToFloat_kind f64Fixed .binary64 f64Fixed_compatible (by decide) (-1074) 1024 (by decide) (by decide)
    num den hden hco

/-- **an `OutOfBounds` refusal is truthful**: it is returned only for a value whose correctly rounded float is ±∞
    (and which is therefore not representable), never for a value inside the finite range -/
theorem rbig_try_to_f32_out_of_bounds_truthful (num : Int) (den : Nat) (hden : den ≠ 0)
    (hco : Nat.Coprime num.natAbs den) (h : ratTryToFloat f32Fixed (-149) 128 num den = .ok (.error .outOfBounds)) :
    (ieeeRoundRat .binary32 .halfEven num den).1 % Ieee.binary32.signBit = Ieee.binary32.infBits ∧
      (ieeeRoundRat .binary32 .halfEven num den).2 ≠ .exact :=
  ratTryToFloat_outOfBounds_truthful f32Fixed .binary32 f32Fixed_compatible (by decide) (-149) 128 (by decide)
    (by decide) num den hden hco h

theorem rbig_try_to_f64_out_of_bounds_truthful (num : Int) (den : Nat) (hden : den ≠ 0)
    (hco : Nat.Coprime num.natAbs den) (h : ratTryToFloat f64Fixed (-1074) 1024 num den = .ok (.error .outOfBounds)) :
    (ieeeRoundRat .binary64 .halfEven num den).1 % Ieee.binary64.signBit = Ieee.binary64.infBits ∧
      (ieeeRoundRat .binary64 .halfEven num den).2 ≠ .exact :=
  ratTryToFloat_outOfBounds_truthful f64Fixed .binary64 f64Fixed_compatible (by decide) (-1074) 1024 (by decide)
    (by decide) num den hden hco h

/-- **every dyadic value of magnitude `≥ 2^128` (`2^1024`) is refused with `OutOfBounds`** -/
theorem rbig_try_to_f32_large_dyadic (num : Int) (j : Nat) (hco : Nat.Coprime num.natAbs (2 ^ j)) (h0 : num ≠ 0)
    (ht : (128 : Int) < (bitLen num.natAbs : Int) - (j : Int)) :
    ratTryToFloat f32Fixed (-149) 128 num (2 ^ j) = .ok (.error .outOfBounds) :=
  ratTryToFloat_large_dyadic f32Fixed .binary32 f32Fixed_compatible (by decide) (-149) 128 (by decide) (by decide)
    num j hco h0 (by have : Ieee.binary32.emax + 1 = 128 := by decide
                     omega)

theorem rbig_try_to_f64_large_dyadic (num : Int) (j : Nat) (hco : Nat.Coprime num.natAbs (2 ^ j)) (h0 : num ≠ 0)
    (ht : (1024 : Int) < (bitLen num.natAbs : Int) - (j : Int)) :
    ratTryToFloat f64Fixed (-1074) 1024 num (2 ^ j) = .ok (.error .outOfBounds) :=
  ratTryToFloat_large_dyadic f64Fixed .binary64 f64Fixed_compatible (by decide) (-1074) 1024 (by decide) (by decide)
    num j hco h0 (by have : Ieee.binary64.emax + 1 = 1024 := by decide
                     omega)

-- non-vacuity: (2^31-1)·2^97 rounds to ∞ and its odd part fits i32 ⇒ OutOfBounds; (2^32-1)·2^96 also rounds to ∞ but
-- its odd part does not fit ⇒ LossOfPrecision; 2^130 ⇒ OutOfBounds; 1/3 and 2^-151 ⇒ LossOfPrecision
example : Nat.Coprime ((2 ^ 31 - 1) * 2 ^ 97 : Int).natAbs 1 ∧
    ratTryToFloat f32Fixed (-149) 128 ((2 ^ 31 - 1) * 2 ^ 97) 1 = .ok (.error .outOfBounds) ∧
    ratTryToFloat f32Fixed (-149) 128 ((2 ^ 32 - 1) * 2 ^ 96) 1 = .ok (.error .lossOfPrecision) ∧
    (ieeeRoundRat .binary32 .halfEven ((2 ^ 32 - 1) * 2 ^ 96) 1).1 = 0x7f800000 ∧
    ratTryToFloat f32Fixed (-149) 128 (-(2 ^ 130)) 1 = .ok (.error .outOfBounds) ∧
    ratTryToFloat f32Fixed (-149) 128 1 3 = .ok (.error .lossOfPrecision) ∧
    ratTryToFloat f32Fixed (-149) 128 1 (2 ^ 151) = .ok (.error .lossOfPrecision) ∧
    ratTryToFloatSpec .binary32 32 ((2 ^ 31 - 1) * 2 ^ 97) 1 = .error .outOfBounds := by decide +kernel

/-- **flag of `FBig::<R,2>::to_f32` for EVERY rounding mode `R`** (Zero, Away, Up, Down, HalfEven, HalfAway): where
    the value is the once-rounded one (outside `ModeBad`, `fbig_to_f32_value_iff_every_mode`), the returned
    `Rounding` is the truthful label of the error of that single rounding in mode `R` (`NoOp` = toward zero,
    `AddOne`/`SubOne` = above/below; the driver's specification of `f.to_f32`) EXACTLY outside `ToFloatFlagBad` =
    {the rounding inside `encode` increased the magnitude ∧ no overflow exit of `into_f32_internal`} — the closed form
    of the recorded finding "flag replaced by NoOp" for the directed modes and HalfAway. -/
theorem fbig_to_f32_flag_iff_every_mode (m : Float.Mode) (c : Coarse) (hc : CoarseSound c) (s e : Int)
    (hodd : s % 2 = 1) (bits : Nat) (fl : Option Float.Rounding)
    (h : fbigToFloat into32 m c ⟨s, e⟩ = .ok (bits, fl))
    (hgood : ¬ ModeBad .binary32 (convMode m) (decide (s < 0)) s.natAbs e) :
    fl = adjOfMag (decide (s < 0))
          ((ieeeRoundRat .binary32 (convMode m) (floatAsRat 2 s e).1 (floatAsRat 2 s e).2).2.flipIf (decide (s < 0))) ↔
      ¬ ToFloatFlagBad into32 m s e := by
  have hs0 : s ≠ 0 := by intro h0; subst h0; simp at hodd
  rw [ieeeRoundRat_float_snd .binary32 _ s e hs0]
  have hflip : ∀ (f : Flag) (b : Bool), (f.flipIf b).flipIf b = f := by
    intro f b; cases f <;> cases b <;> rfl
  rw [hflip]
  exact fbigToFloat_flag_iff_modes into32 into32_compat m c hc s e hodd bits fl h hgood

/-- the same closed form for the 53-bit instantiation with an arbitrary mode of the first rounding (the code only
    instantiates it with HalfEven: `FBig::to_f64` ignores the mode of the type) -/
theorem fbig_to_f64_flag_iff_every_mode (m : Float.Mode) (c : Coarse) (hc : CoarseSound c) (s e : Int)
    (hodd : s % 2 = 1) (bits : Nat) (fl : Option Float.Rounding)
    (h : fbigToFloat into64 m c ⟨s, e⟩ = .ok (bits, fl))
    (hgood : ¬ ModeBad .binary64 (convMode m) (decide (s < 0)) s.natAbs e) :
    fl = adjOfMag (decide (s < 0)) (ieeeRoundMagM .binary64 (convMode m) (decide (s < 0)) s.natAbs e).2 ↔
      ¬ ToFloatFlagBad into64 m s e :=
  fbigToFloat_flag_iff_modes into64 into64_compat m c hc s e hodd bits fl h hgood

/-- the true error sign of the single rounding in mode `R` is the composition of the first rounding's sign and the
    sign of the half-even rounding inside `encode`, outside `ModeBad` (every format, every mode) -/
theorem fbig_to_float_error_sign_composition (F : Ieee) (hF : F.Ok) (m : Float.Mode) (neg : Bool) (a : Nat) (e : Int)
    (ha : a ≠ 0) (hgood : ¬ ModeBad F (convMode m) neg a e) :
    (ieeeRoundMagM F (convMode m) neg a e).2 =
      composeFlag (firstFlag F.prec m neg a)
        (ieeeRoundMag F (firstRound F.prec m neg a e).1 (firstRound F.prec m neg a e).2.1).2 :=
  modes_flag F hF m neg a e ha hgood

-- non-vacuity and both sides of the iff (kernel-checked): `FBig<Up>` 3·2^127 overflows inside `encode` and is
-- reported `Inexact(∞, NoOp)` (ToFloatFlagBad, value right); `FBig<Down>` (2^24+1) gives `NoOp` truthfully;
-- `FBig<Away>` (2^24+1) gives `AddOne` truthfully
example : ((3 : Int) % 2 = 1) ∧ ¬ ModeBad .binary32 (convMode .up) false 3 127 ∧ ToFloatFlagBad into32 .up 3 127 ∧
    fbigToFloat into32 .up coarseNone ⟨3, 127⟩ = .ok (0x7f800000, some .NoOp) ∧
    ¬ ModeBad .binary32 (convMode .down) false (2 ^ 24 + 1) 0 ∧ ¬ ToFloatFlagBad into32 .down (2 ^ 24 + 1) 0 ∧
    fbigToFloat into32 .down coarseNone ⟨2 ^ 24 + 1, 0⟩ = .ok (0x4b800000, some .NoOp) ∧
    ¬ ModeBad .binary32 (convMode .away) false (2 ^ 24 + 1) 0 ∧ ¬ ToFloatFlagBad into32 .away (2 ^ 24 + 1) 0 ∧
    fbigToFloat into32 .away coarseNone ⟨2 ^ 24 + 1, 0⟩ = .ok (0x4b800001, some .AddOne) := by decide +kernel

/-- **normal form of `FBig::<R,B>::to_f32`, `Repr::<B>::to_f32` for a base `B ≠ 2`** on every branch of
    `convert_base::<B,2>` that does not go through `ln`/`exp` (B a power of two; |exponent| ≤ THRESHOLD_SMALL_EXP:
    multiplication, `repr_div`, long-dividend path): a returned float is the IEEE round-to-nearest-even of the value
    `v` that `convert_base` produced; `v` is the exact value `signif·B^exp` rounded to 24 significant bits under the
    mode of the type (rounding contract of builder-text's `convert_base_contract`) and has at most 24 bits; the flag
    is `convert_base`'s unless `into_f32_internal` reports its own. -/
theorem fbig_base_to_f32_normal_form (W B : Nat) (hB : 2 ≤ B) (m : Float.Mode) (r : FRepr) (bits : Nat)
    (fl : Option Float.Rounding) (h : fbigToFloatBase into32 intoSite32 W B m r = some (.ok (bits, fl))) :
    ∃ (v : FRepr) (f1 : Option Float.Rounding),
      Dashu.Model.Text.convertBase W B 2 m 24 r = .ok (v, f1) ∧
      Contract 2 m 24 (r.toRat B) (v.toRat 2) f1 ∧ bitLen v.signif.natAbs ≤ 24 ∧
      (v.signif ≠ 0 →
        bits = (if v.signif < 0 then Ieee.binary32.signBit else 0) + (ieeeRoundMag .binary32 v.signif.natAbs v.exp).1 ∧
        fl = andThenFlag f1 (intoFlag into32 (decide (v.signif < 0)) v.exp (ieeeRoundMag .binary32 v.signif.natAbs v.exp).2)) :=
  fbigToFloatBase_normal into32 into32_compat intoSite32 W B hB m r bits fl h

/-- the same for `FBig::<_,B>::to_f64` / `Repr::<B>::to_f64` (53 bits; the code always passes HalfEven) -/
theorem fbig_base_to_f64_normal_form (W B : Nat) (hB : 2 ≤ B) (m : Float.Mode) (r : FRepr) (bits : Nat)
    (fl : Option Float.Rounding) (h : fbigToFloatBase into64 intoSite64 W B m r = some (.ok (bits, fl))) :
    ∃ (v : FRepr) (f1 : Option Float.Rounding),
      Dashu.Model.Text.convertBase W B 2 m 53 r = .ok (v, f1) ∧
      Contract 2 m 53 (r.toRat B) (v.toRat 2) f1 ∧ bitLen v.signif.natAbs ≤ 53 ∧
      (v.signif ≠ 0 →
        bits = (if v.signif < 0 then Ieee.binary64.signBit else 0) + (ieeeRoundMag .binary64 v.signif.natAbs v.exp).1 ∧
        fl = andThenFlag f1 (intoFlag into64 (decide (v.signif < 0)) v.exp (ieeeRoundMag .binary64 v.signif.natAbs v.exp).2)) :=
  fbigToFloatBase_normal into64 into64_compat intoSite64 W B hB m r bits fl h

/-- **the panic region for a base `B ≠ 2`**: the conversion panics (debug build: `debug_assert!(bit_len <= 24|53)` in
    `into_fNN_internal`; a release build rounds a second time inside `encode`) EXACTLY when `convert_base` returns a
    significand of `prec + 1` bits (the extra quotient digit of `repr_div`) — closed form of the recorded finding
    "FBig/Repr::to_f32/to_f64 (non-binary base)" -/
theorem fbig_base_to_f64_panic_iff (W B : Nat) (hB : 2 ≤ B) (hne : B ≠ 2) (m : Float.Mode) (r : FRepr) :
    fbigToFloatBase into64 intoSite64 W B m r = some (.error (.undocumented intoSite64)) ↔
      ∃ (v : FRepr) (f1 : Option Float.Rounding), Dashu.Model.Text.convertBase W B 2 m 53 r = .ok (v, f1) ∧
        bitLen v.signif.natAbs = 54 :=
  fbigToFloatBase_panic_iff into64 into64_compat intoSite64 W B hB hne m r

theorem fbig_base_to_f32_panic_iff (W B : Nat) (hB : 2 ≤ B) (hne : B ≠ 2) (m : Float.Mode) (r : FRepr) :
    fbigToFloatBase into32 intoSite32 W B m r = some (.error (.undocumented intoSite32)) ↔
      ∃ (v : FRepr) (f1 : Option Float.Rounding), Dashu.Model.Text.convertBase W B 2 m 24 r = .ok (v, f1) ∧
        bitLen v.signif.natAbs = 25 :=
  fbigToFloatBase_panic_iff into32 into32_compat intoSite32 W B hB hne m r

-- non-vacuity (kernel-checked): the decimal 4899e-7 (the property text's example) reaches the panic region of to_f64
-- (54-bit quotient of repr_div); 18585e-7 and 1e30 convert to the correctly rounded double; 5e-324 goes through ln/exp
example : fbigToFloatBase into64 intoSite64 64 10 .halfEven ⟨4899, -7⟩ = some (.error (.undocumented intoSite64)) ∧
    fbigToFloatBase into64 intoSite64 64 10 .halfEven ⟨0x4899, -7⟩ = some (.ok (0x3f5e731d2e0e3044, some .NoOp)) ∧
    (ieeeRoundRat .binary64 .halfEven 0x4899 (10 ^ 7)).1 = 0x3f5e731d2e0e3044 ∧
    fbigToFloatBase into64 intoSite64 64 10 .halfEven ⟨1, 30⟩ = some (.ok (0x46293e5939a08cea, some .AddOne)) ∧
    fbigToFloatBase into32 intoSite32 64 10 .up ⟨4899, -7⟩ = some (.ok (0x3a006ca2, some .AddOne)) ∧
    fbigToFloatBase into32 intoSite32 64 10 .down ⟨3, -1⟩ = some (.error (.undocumented intoSite32)) ∧
    fbigToFloatBase into64 intoSite64 64 10 .halfEven ⟨5, -324⟩ = none := by decide +kernel

/-! ## Tie A — the literal constants of the hand-written conversion models are those of the source text -/

/-- the constants of `into32/into64` (`into_fNN_internal`: width, overflow and underflow exits; the working precision
    `to_f32/to_f64` pass to `Context::new`), of `rat32/rat64` (`Repr::to_f32/to_f64` of dashu-ratio: quotient width =
    precision + 2 guard bits, exits) and the literal bounds `[-149, 128]`, `[-1074, 1024]` of
    `impl_conversion_to_float!` used in the theorems above equal the definitions REGENERATED from
    float/src/convert.rs and rational/src/convert.rs on every run (`Dashu/Gen/ConvConsts.lean`); the panic sites
    `intoSite32/64` ARE the regenerated strings.  A change of any of these literals in /repo breaks this theorem. -/
theorem conv_constants_regenerated :
    into32.prec = Dashu.Gen.Conv.into_f32_prec ∧ into32.infExp = Dashu.Gen.Conv.into_f32_inf_exp ∧
    into32.zeroExp = Dashu.Gen.Conv.into_f32_zero_exp ∧ into32.prec = Dashu.Gen.Conv.to_f32_precision ∧
    into64.prec = Dashu.Gen.Conv.into_f64_prec ∧ into64.infExp = Dashu.Gen.Conv.into_f64_inf_exp ∧
    into64.zeroExp = Dashu.Gen.Conv.into_f64_zero_exp ∧ into64.prec = Dashu.Gen.Conv.to_f64_precision ∧
    rat32.prec + 2 = Dashu.Gen.Conv.rbig_to_f32_quotient_bits ∧ rat32.infShift = Dashu.Gen.Conv.rbig_to_f32_inf_shift ∧
    rat32.zeroShift - 3 = Dashu.Gen.Conv.rbig_to_f32_zero_shift ∧
    rat64.prec + 2 = Dashu.Gen.Conv.rbig_to_f64_quotient_bits ∧ rat64.infShift = Dashu.Gen.Conv.rbig_to_f64_inf_shift ∧
    rat64.zeroShift - 3 = Dashu.Gen.Conv.rbig_to_f64_zero_shift ∧
    (-149 : Int) = Dashu.Gen.Conv.rbig_try_to_f32_lb ∧ (128 : Int) = Dashu.Gen.Conv.rbig_try_to_f32_ub ∧
    (-1074 : Int) = Dashu.Gen.Conv.rbig_try_to_f64_lb ∧ (1024 : Int) = Dashu.Gen.Conv.rbig_try_to_f64_ub ∧
    intoSite32 = Dashu.Gen.Conv.into_f32_assert_site ∧ intoSite64 = Dashu.Gen.Conv.into_f64_assert_site := by
  decide

/-! ## Round 5 — `RBig::to_float` / `Relaxed::to_float` and `From<RBig | Relaxed> for FBig` MIRRORED
    (`Model/Conv/ToFloat.lean`, rational/src/third_party/dashu_float.rs; the driver's `.code` ops run exactly these
    definitions against the real code).  The exact value is `num / den`; "correctly rounded and says so" is the
    rounding contract of C03 (`Dashu.Model.Float.Contract`: error below one unit — half a unit for the nearest
    modes — of the last of `p` digits, side condition of the directed modes, flag `none` iff exact, `AddOne` /
    `SubOne` only above / below the exact value). -/

/-- Tie A: the digit sum, the no-shift test and the shift amount the mirrored quotient stage CALLS are the text
    regenerated from the source on every run (`Dashu/Gen/ConvToFloat.lean`; round 6, /repo 43925c0):
    `need_digits = precision.saturating_add(den_digits)`, `num_digits >= need_digits`, `need_digits - num_digits`;
    a change of any of the three expressions in /repo breaks this theorem and the proof of
    `rbig_to_float_quotient_stage`. -/
theorem rbig_to_float_decisions_regenerated (nd dd p : Nat) :
    Dashu.Gen.ConvToFloat.to_float_need_digits dd p = min (p + dd) (2 ^ 64 - 1) ∧
    Dashu.Gen.ConvToFloat.to_float_no_shift nd dd p = decide (nd ≥ min (p + dd) (2 ^ 64 - 1)) ∧
    Dashu.Gen.ConvToFloat.to_float_shift nd dd p = min (p + dd) (2 ^ 64 - 1) - nd := ⟨rfl, rfl, rfl⟩

/-- below the saturation point (`precision + den_digits ≤ usize::MAX`) the decisions are the plain ones -/
theorem rbig_to_float_decisions_unsaturated (nd dd p : Nat) (hov : p + dd < 2 ^ 64) :
    Dashu.Gen.ConvToFloat.to_float_no_shift nd dd p = decide (nd ≥ p + dd) ∧
    Dashu.Gen.ConvToFloat.to_float_shift nd dd p = (p + dd) - nd :=
  to_float_decisions_unsaturated nd dd p hov

/-- at and beyond the saturation point (the input class of the repaired defect: before 43925c0 the sum wrapped in a
    release build and a wrong number came back) the code takes the shift branch and asks for
    `usize::MAX − num_digits` further digits — far more than `precision`, so no digit of the quotient is missing; the
    allocation of that many digits is what fails (driver: `AllocTooMuch`, compared per case) -/
theorem rbig_to_float_saturated_shift (nd dd p : Nat) (hov : 2 ^ 64 ≤ p + dd + 1) (hnd : nd < 2 ^ 64 - 1) :
    Dashu.Gen.ConvToFloat.to_float_no_shift nd dd p = false ∧
    Dashu.Gen.ConvToFloat.to_float_shift nd dd p = 2 ^ 64 - 1 - nd := by
  have e : Dashu.Gen.ConvToFloat.to_float_need_digits dd p = 2 ^ 64 - 1 := by
    unfold Dashu.Gen.ConvToFloat.to_float_need_digits
    exact Nat.min_eq_right (by omega)
  unfold Dashu.Gen.ConvToFloat.to_float_no_shift Dashu.Gen.ConvToFloat.to_float_shift
  rw [e]
  exact ⟨by simp only [decide_eq_false_iff_not]; omega, rfl⟩

example : 2 ^ 64 ≤ (2 ^ 64 - 1) + 0 + 1 ∧ (1 : Nat) < 2 ^ 64 - 1 := by decide

/- The hypothesis `hov : p + ilogB B den < 2 ^ 64` of the theorems below is no longer there for a defect (round 5: the
   unchecked `usize` addition; repaired by 43925c0) — it stays for the Nat/usize gap only: at a saturated sum the
   model asks for `2^64 − 1 − num_digits` digits like the code, where the code cannot allocate and panics. -/

/-- `assert!(precision > 0)` -/
theorem rbig_to_float_precision_zero_panics (B : Nat) (m : Float.Mode) (c : Coarse) (num : Int) (den : Nat) :
    ratToFloat B m c num den 0 = .error (.undocumented Dashu.Gen.ConvToFloat.to_float_assert_site) := by
  simp [ratToFloat]

/-- zero converts to `Exact(0)` at every precision `≥ 1` -/
theorem rbig_to_float_zero (B : Nat) (m : Float.Mode) (c : Coarse) (den p : Nat) (hp : 1 ≤ p) :
    ratToFloat B m c 0 den p = .ok (⟨0, 0⟩, none) := by
  have : p ≠ 0 := by omega
  simp [ratToFloat, this]

/-- the quotient stage: `num·B^shift = q·den + r` with `|r| < den`, and the scaled quotient has at least `p`
    digits (so its integer rounding is never coarser than the requested precision) -/
theorem rbig_to_float_quotient_stage (B : Nat) (hB : 2 ≤ B) (num : Int) (den p : Nat) (hn : num ≠ 0) (hd : 0 < den)
    (hp : 1 ≤ p) (hov : p + ilogB B (den : Int) < 2 ^ 64) :
    num * ((B ^ (toFloatQuot B num den p).1 : Nat) : Int) =
        (toFloatQuot B num den p).2.1 * (den : Int) + (toFloatQuot B num den p).2.2 ∧
      |(toFloatQuot B num den p).2.2| < (den : Int) ∧
      den * B ^ (p - 1) ≤ num.natAbs * B ^ (toFloatQuot B num den p).1 :=
  toFloatQuot_spec B hB num den p hn hd hp hov

/-- **every mode: correct whenever the first-rounded quotient fits the precision** (no second rounding happens) -/
theorem rbig_to_float_correct_when_fits (B : Nat) (hB : 2 ≤ B) (m : Float.Mode) (c : Coarse) (num : Int) (den p : Nat)
    (hn : num ≠ 0) (hd : 0 < den) (hp : 1 ≤ p) (hov : p + ilogB B (den : Int) < 2 ^ 64)
    (hfit : (FRepr.new B (toFloatN1 B m num den p) 0).digits B ≤ p) :
    ∃ r, ratToFloat B m c num den p = .ok r ∧ Contract B m p ((num : ℚ) / (den : ℚ)) (r.1.toRat B) r.2 :=
  ratToFloat_contract_of_fits B hB m c num den p hn hd hp hov hfit

-- non-vacuity: 1000/6 at 4 decimal digits (the doc example, quotient 1666 r 4 -> 1667 fits), 22/7 at 5 bits
example : (FRepr.new 10 (toFloatN1 10 .halfEven 1000 6 4) 0).digits 10 ≤ 4 ∧
    (FRepr.new 2 (toFloatN1 2 .halfAway (-22) 7 5) 0).digits 2 ≤ 5 ∧
    ratToFloat 10 .halfEven coarseNone 1000 6 4 = .ok (⟨1667, -1⟩, some .AddOne) := by decide +kernel

/-- **the four directed modes: correctly rounded, truthfully flagged, for ALL inputs** — two roundings in the same
    directed mode are one (`Zero`, `Away`, `Up`, `Down`; every base, every stored representation, every precision) -/
theorem rbig_to_float_directed_correct (B : Nat) (hB : 2 ≤ B) (m : Float.Mode) (hm : Directed m) (c : Coarse)
    (hc : CoarseSound c) (num : Int) (den p : Nat) (hn : num ≠ 0) (hd : 0 < den) (hp : 1 ≤ p)
    (hov : p + ilogB B (den : Int) < 2 ^ 64) :
    ∃ r, ratToFloat B m c num den p = .ok r ∧ Contract B m p ((num : ℚ) / (den : ℚ)) (r.1.toRat B) r.2 :=
  ratToFloat_contract_directed B hB m hm c hc num den p hn hd hp hov

example : Directed .zero ∧ Directed .away ∧ Directed .up ∧ Directed .down := ⟨trivial, trivial, trivial, trivial⟩
-- a second rounding does happen here (6248/5 = 1249.6 -> 1250 -> 13e2 under Up), and is harmless
example : ratToFloat 10 .up coarseNone 6248 5 2 = .ok (⟨13, 2⟩, some .AddOne) ∧
    ¬ ((FRepr.new 10 (toFloatN1 10 .up 6248 5 2) 0).digits 10 ≤ 2) := by decide +kernel

/-- **the two nearest modes are NOT always correctly rounded** (the recorded finding "RBig/Relaxed::to_float: double
    rounding", kernel-checked on the mirrored code): `6248/5 = 1249.6` at 2 digits under HalfAway gives `13e2`
    (`1249.6 → 1250 → 13e2`) while the nearest 2-digit value is `12e2`; `149/100` at 1 digit under HalfEven gives `2`
    (`1.49 → 15e-1 → 2`) while the nearest is `1`. -/
theorem rbig_to_float_half_modes_counterexample :
    ratToFloat 10 .halfAway coarseNone 6248 5 2 = .ok (⟨13, 2⟩, some .AddOne) ∧
    IsNearestAway 6248 (5 * 100) 12 ∧ ¬ IsNearestAway 6248 (5 * 100) 13 ∧
    ratToFloat 10 .halfEven coarseNone 149 100 1 = .ok (⟨2, 0⟩, some .AddOne) ∧
    IsNearestEven 149 100 1 ∧ ¬ IsNearestEven 149 100 2 := by
  unfold IsNearestAway IsNearestEven
  decide +kernel

/-- **`From<RBig | Relaxed> for FBig<R, B>` is ONE rounding of the exact quotient** at precision
    `max(digits num, digits den, 1)` under `R` (never a panic; by C03's `repr_div` contract), and it is lossless
    exactly when the flag the code drops is `none` -/
theorem fbig_from_rbig_is_one_rounding (B : Nat) (hB : 2 ≤ B) (m : Float.Mode) (num : Int) (den : Nat) (hd : 0 < den) :
    ∃ v f, fbigFromRat B m num den =
        .ok (v, (if max (digitsI B num) 1 > max (digitsI B (den : Int)) 1 then max (digitsI B num) 1
                 else max (digitsI B (den : Int)) 1), f) ∧
      Contract B m (if max (digitsI B num) 1 > max (digitsI B (den : Int)) 1 then max (digitsI B num) 1
                 else max (digitsI B (den : Int)) 1) ((num : ℚ) / (den : ℚ)) (v.toRat B) f ∧
      (f = none ↔ v.toRat B = (num : ℚ) / (den : ℚ)) :=
  fbigFromRat_contract B hB m num den hd

/-- … and it IS lossy although its type promises a lossless `From` (the recorded finding "From<RBig> for FBig"):
    `1/4` becomes `0.2` in base 10 (representable: `0.25`), `1/3` is silently rounded in base 2 -/
theorem fbig_from_rbig_lossy_counterexample :
    fbigFromRat 10 .zero 1 4 = .ok (⟨2, -1⟩, 1, some .NoOp) ∧
    fbigFromRat 2 .zero 1 3 = .ok (⟨1, -2⟩, 2, some .NoOp) := by decide +kernel

/-- `From<UBig | IBig> for FBig<R, B>` (= `from_parts(n, 0)` = `Repr::new(n, 0)`, float/src/convert.rs) is lossless in
    every base: the float denotes exactly the integer (trailing zero digits only move into the exponent) -/
theorem fbig_from_ibig_exact (B : Nat) (hB : 0 < B) (n : Int) : (FRepr.new B n 0).toRat B = (n : ℚ) :=
  new_int_value B hB n

/-- Tie A: the body of `impl From<Repr> for FBig` that `fbigFromRat` mirrors is the body in the source on this run
    (regenerated whitespace-normalised text; `From<RBig>` / `From<Relaxed>` forward to it — checked by the extractor) -/
theorem fbig_from_rbig_source_shape : fromReprSource = Dashu.Gen.ConvToFloat.from_repr_body := by decide

/-- **every mode, hypothesis on the INPUT only**: when the scaled quotient `|num|·B^shift / den` is below `B^p` (it has
    exactly `p` digits — one of the two lengths the quotient stage can deliver; `shift` is the regenerated shift amount)
    the conversion is ONE correct rounding: the rounding contract of C03 holds for the exact `num / den` -/
theorem rbig_to_float_correct_when_quotient_short (B : Nat) (hB : 2 ≤ B) (m : Float.Mode) (c : Coarse) (num : Int)
    (den p : Nat) (hn : num ≠ 0) (hd : 0 < den) (hp : 1 ≤ p) (hov : p + ilogB B (den : Int) < 2 ^ 64)
    (hshort : num.natAbs * B ^ (toFloatQuot B num den p).1 < den * B ^ p) :
    ∃ r, ratToFloat B m c num den p = .ok r ∧ Contract B m p ((num : ℚ) / (den : ℚ)) (r.1.toRat B) r.2 :=
  ratToFloat_contract_of_fits B hB m c num den p hn hd hp hov (fits_of_short B hB m num den p hd hp hshort)

-- non-vacuity: 1000/6 at 4 digits (10000 < 6·10^4), -22/7 at 5 bits, 149/200 at 3 digits
example : (1000 : Int).natAbs * 10 ^ (toFloatQuot 10 1000 6 4).1 < 6 * 10 ^ 4 ∧
    (-22 : Int).natAbs * 2 ^ (toFloatQuot 2 (-22) 7 5).1 < 7 * 2 ^ 5 ∧
    (149 : Int).natAbs * 10 ^ (toFloatQuot 10 149 200 3).1 < 200 * 10 ^ 3 := by decide +kernel

/-- **every mode, hypothesis on the INPUT only**: when `den` divides the scaled numerator `num·B^shift` (the quotient
    stage leaves remainder 0 — every integer, every `num / B^k`, in base 2 every dyadic rational) the first rounding is
    exact and the conversion is ONE correct rounding, whatever the length of the quotient -/
theorem rbig_to_float_correct_when_quotient_exact (B : Nat) (hB : 2 ≤ B) (m : Float.Mode) (c : Coarse)
    (hc : CoarseSound c) (num : Int) (den p : Nat) (hn : num ≠ 0) (hd : 0 < den) (hp : 1 ≤ p)
    (hov : p + ilogB B (den : Int) < 2 ^ 64) (hex : (toFloatQuot B num den p).2.2 = 0) :
    ∃ r, ratToFloat B m c num den p = .ok r ∧ Contract B m p ((num : ℚ) / (den : ℚ)) (r.1.toRat B) r.2 :=
  ratToFloat_contract_of_exact B hB m c hc num den p hn hd hp hov hex

-- non-vacuity: 1000/8 = 125 at 2 digits (remainder 0, the 3-digit quotient IS rounded: tie to even 12e1)
example : (toFloatQuot 10 1000 8 2).2.2 = 0 ∧
    ratToFloat 10 .halfEven coarseNone 1000 8 2 = .ok (⟨12, 1⟩, some .NoOp) ∧
    (toFloatQuot 2 (-40) 8 3).2.2 = 0 := by decide +kernel

/-- **HalfEven / HalfAway in an EVEN base (2, 10, 16, …): correctly rounded unless the SECOND rounding is an exact tie.**
    For every rational, precision and sound coarse test: if the digits `convert_int` drops from the first-rounded quotient
    (after `Repr::new` stripped its zeros) are not exactly half a unit of the last kept digit, the two nearest roundings
    compose to one and the result meets the rounding contract of C03 for the exact `num / den`.  (With the theorems above
    the inputs on which the nearest modes can be wrong are confined to: non-zero remainder ∧ scaled quotient ≥ B^p ∧
    (the second rounding is an exact tie ∨ the base is odd) — the counterexamples of
    `rbig_to_float_half_modes_counterexample` are exact ties: 1250 → 13e2, 15 → 2.) -/
theorem rbig_to_float_nearest_correct_unless_second_tie (B : Nat) (hB : 2 ≤ B) (hBe : B % 2 = 0) (m : Float.Mode)
    (hm : Nearest m) (c : Coarse) (hc : CoarseSound c) (num : Int) (den p : Nat) (hn : num ≠ 0) (hd : 0 < den)
    (hp : 1 ≤ p) (hov : p + ilogB B (den : Int) < 2 ^ 64)
    (hnotie : ∀ k : Nat, k = (FRepr.new B (toFloatN1 B m num den p) 0).digits B - p →
        2 * |(splitDigits B (FRepr.new B (toFloatN1 B m num den p) 0).signif k).2| ≠ ((B ^ k : Nat) : Int)) :
    ∃ r, ratToFloat B m c num den p = .ok r ∧ Contract B m p ((num : ℚ) / (den : ℚ)) (r.1.toRat B) r.2 :=
  ratToFloat_contract_nearest_no_tie B hB hBe m hm c hc num den p hn hd hp hov hnotie

example : Nearest .halfEven ∧ Nearest .halfAway := ⟨trivial, trivial⟩
-- non-vacuity: 6247/5 = 1249.4 at 2 digits (HalfAway): first rounding 1249, dropped digits 49 ≠ 50, result 12e2; whereas the
-- recorded counterexample 6248/5 drops exactly 50 (the hypothesis fails there, as it must)
example : (2 * |(splitDigits 10 (FRepr.new 10 (toFloatN1 10 .halfAway 6247 5 2) 0).signif
      ((FRepr.new 10 (toFloatN1 10 .halfAway 6247 5 2) 0).digits 10 - 2)).2| ≠ ((10 ^ 2 : Nat) : Int)) ∧
    (FRepr.new 10 (toFloatN1 10 .halfAway 6247 5 2) 0).digits 10 - 2 = 2 ∧
    ratToFloat 10 .halfAway coarseNone 6247 5 2 = .ok (⟨12, 2⟩, some .NoOp) ∧
    2 * |(splitDigits 10 (FRepr.new 10 (toFloatN1 10 .halfAway 6248 5 2) 0).signif 1).2| = ((10 ^ 1 : Nat) : Int) := by
  decide +kernel

/-! ## Round 6 — the range test in front of `FBig/Repr::to_f32 / to_f64` (/repo 1349a4b, `Repr::exponent_out_of_range`)
    MIRRORED (`Model/Conv/Base.lean`: `exponentOutOfRange` CALLS the regenerated decision text, `rangeExit`,
    `fbigToFloatCode`, `fbigToFloatBaseCode`, `fbigTryToFloatCode` — what the driver's `.code` / `tryto` ops now run). -/

/-- Tie A: the literal arguments of `exponent_out_of_range(…)` at the four call sites are the exits of
    `into_f32_internal` / `into_f64_internal` the model carries, and the decision text is the regenerated one -/
theorem fbig_to_float_range_test_regenerated :
    into32.infExp = Dashu.Gen.Conv.to_f32_range_max_exp ∧ into32.zeroExp = Dashu.Gen.Conv.to_f32_range_min_exp ∧
    into64.infExp = Dashu.Gen.Conv.to_f64_range_max_exp ∧ into64.zeroExp = Dashu.Gen.Conv.to_f64_range_min_exp ∧
    (∀ (r : FRepr) (a b : Int), exponentOutOfRange r a b =
      (if r.signif = 0 then none else if r.exp ≥ a then some true
       else if r.exp < 0 ∧ r.exp < b - (bitLen r.signif.natAbs : Int) then some false else none)) := by
  refine ⟨by decide, by decide, by decide, by decide, ?_⟩
  intro r a b
  unfold exponentOutOfRange Dashu.Gen.Conv.exponent_out_of_range
  by_cases h : r.signif = 0 <;> simp [h]

/-- **the range test is unobservable in base 2** — `FBig::<R,2>::to_f32` (every mode), `Repr::<2>::to_f32`: with the
    test in front, the conversion returns bit for bit (value AND flag) what the general path returns, for every
    normalised input; so every theorem above about `fbigToFloat into32` is a theorem about the code as it is. -/
theorem fbig_to_f32_range_exit_unobservable (m : Float.Mode) (c : Coarse) (hc : CoarseSound c) (s e : Int)
    (hodd : s % 2 = 1) : fbigToFloatCode into32 m c ⟨s, e⟩ = fbigToFloat into32 m c ⟨s, e⟩ :=
  fbigToFloatCode_eq into32 into32_compat (by decide) (by decide) m c hc s e hodd

/-- the same for `FBig::<_,2>::to_f64` / `Repr::<2>::to_f64` -/
theorem fbig_to_f64_range_exit_unobservable (m : Float.Mode) (c : Coarse) (hc : CoarseSound c) (s e : Int)
    (hodd : s % 2 = 1) : fbigToFloatCode into64 m c ⟨s, e⟩ = fbigToFloat into64 m c ⟨s, e⟩ :=
  fbigToFloatCode_eq into64 into64_compat (by decide) (by decide) m c hc s e hodd

/-- … and for `TryFrom<FBig<R,2>> / TryFrom<Repr<2>> for f32, f64` (they call `to_f32 / to_f64`); zero is never decided -/
theorem fbig_try_to_float_range_exit_unobservable (c : Coarse) (hc : CoarseSound c) (s e : Int) (hodd : s % 2 = 1) :
    fbigTryToFloatCode into32 c ⟨s, e⟩ = fbigTryToFloat into32 c ⟨s, e⟩ ∧
    fbigTryToFloatCode into64 c ⟨s, e⟩ = fbigTryToFloat into64 c ⟨s, e⟩ ∧
    (∀ (m : Float.Mode) (e0 : Int), fbigToFloatCode into32 m c ⟨0, e0⟩ = fbigToFloat into32 m c ⟨0, e0⟩ ∧
      fbigToFloatCode into64 m c ⟨0, e0⟩ = fbigToFloat into64 m c ⟨0, e0⟩) :=
  ⟨fbigTryToFloatCode_eq into32 into32_compat (by decide) (by decide) c hc s e hodd,
   fbigTryToFloatCode_eq into64 into64_compat (by decide) (by decide) c hc s e hodd,
   fun m e0 => ⟨fbigToFloatCode_zero into32 m c e0, fbigToFloatCode_zero into64 m c e0⟩⟩

/-- the test DOES decide (non-vacuity, and the inputs of the repaired defect): `(2^60−1)·2^(isize::MAX−7)` → `+∞` with
    `AddOne`; `−1·2^(isize::MIN)` → `−0` with `NoOp`; `3·2^127` is left to the general path — computed without any
    exponent arithmetic beyond two comparisons -/
theorem fbig_to_float_range_exit_decides :
    rangeExit into64 ⟨2 ^ 60 - 1, 2 ^ 63 - 1 - 7⟩ = some (0x7ff0000000000000, some .AddOne) ∧
    rangeExit into32 ⟨-1, -(2 ^ 63)⟩ = some (0x80000000, some .NoOp) ∧
    rangeExit into32 ⟨3, 127⟩ = none ∧ rangeExit into32 ⟨-3, 128⟩ = some (0xff800000, some .SubOne) ∧
    rangeExit into64 ⟨1, -1128⟩ = none ∧ rangeExit into64 ⟨1, -1129⟩ = some (0, some .NoOp) := by
  decide +kernel

/-- **the decided overflow is the REQUIRED result in every base** (`B ≥ 2`: 2, 3, 10, 16, …), every mode, both formats:
    when the range test answers `Some(true)` the code returns `±∞` with `AddOne` / `SubOne`, and the specification —
    ONE rounding of the exact rational value `s·B^e` — is `±∞` flagged above / below the exact value.  (This is also why
    the driver may evaluate the specification at a clamped exponent on the overflow side: it does not depend on `e`.) -/
theorem fbig_to_float_range_overflow_is_required (B : Nat) (hB : 2 ≤ B) (mode : Conv.Mode) (s e : Int) (hs : s ≠ 0) :
    (exponentOutOfRange ⟨s, e⟩ into32.infExp into32.zeroExp = some true →
      rangeExit into32 ⟨s, e⟩ = some (if s < 0 then (Ieee.binary32.signBit + Ieee.binary32.infBits, some .SubOne)
                                      else (Ieee.binary32.infBits, some .AddOne)) ∧
      ieeeRoundRat .binary32 mode (floatAsRat B s e).1 (floatAsRat B s e).2 =
        ((if s < 0 then Ieee.binary32.signBit else 0) + Ieee.binary32.infBits, Flag.pos.flipIf (decide (s < 0)))) ∧
    (exponentOutOfRange ⟨s, e⟩ into64.infExp into64.zeroExp = some true →
      rangeExit into64 ⟨s, e⟩ = some (if s < 0 then (Ieee.binary64.signBit + Ieee.binary64.infBits, some .SubOne)
                                      else (Ieee.binary64.infBits, some .AddOne)) ∧
      ieeeRoundRat .binary64 mode (floatAsRat B s e).1 (floatAsRat B s e).2 =
        ((if s < 0 then Ieee.binary64.signBit else 0) + Ieee.binary64.infBits, Flag.pos.flipIf (decide (s < 0)))) :=
  ⟨fun h => rangeExit_over_required into32 into32_compat B hB mode s e hs h,
   fun h => rangeExit_over_required into64 into64_compat B hB mode s e hs h⟩

-- non-vacuity: a decimal and a ternary float beyond the range are decided
example : exponentOutOfRange ⟨7, 128⟩ into32.infExp into32.zeroExp = some true ∧
    exponentOutOfRange ⟨-1, 2 ^ 63 - 1⟩ into64.infExp into64.zeroExp = some true := by decide +kernel

/-- **the decided underflow is the REQUIRED result in every base** for the modes `HalfEven` (every `to_f64`, `Repr::to_f32`,
    `FBig<HalfEven>::to_f32`), `HalfAway` and `Zero`: when the range test answers `Some(false)` the code returns `±0` with
    `NoOp`, and the specification — ONE rounding of the exact rational value `s·B^e` — is `±0`, flagged toward zero.
    (Driver's exponent clamp, underflow side: justified for these modes.) -/
theorem fbig_to_float_range_underflow_is_required (B : Nat) (hB : 2 ≤ B) (mode : Conv.Mode)
    (hm : mode = .halfEven ∨ mode = .halfAway ∨ mode = .zero) (s e : Int) (hs : s ≠ 0) :
    (exponentOutOfRange ⟨s, e⟩ into32.infExp into32.zeroExp = some false →
      rangeExit into32 ⟨s, e⟩ = some ((if s < 0 then Ieee.binary32.signBit else 0), some .NoOp) ∧
      ieeeRoundRat .binary32 mode (floatAsRat B s e).1 (floatAsRat B s e).2 =
        ((if s < 0 then Ieee.binary32.signBit else 0), Flag.neg.flipIf (decide (s < 0)))) ∧
    (exponentOutOfRange ⟨s, e⟩ into64.infExp into64.zeroExp = some false →
      rangeExit into64 ⟨s, e⟩ = some ((if s < 0 then Ieee.binary64.signBit else 0), some .NoOp) ∧
      ieeeRoundRat .binary64 mode (floatAsRat B s e).1 (floatAsRat B s e).2 =
        ((if s < 0 then Ieee.binary64.signBit else 0), Flag.neg.flipIf (decide (s < 0)))) :=
  ⟨fun h => rangeExit_under_required into32 into32_compat B hB mode hm s e hs h,
   fun h => rangeExit_under_required into64 into64_compat B hB mode hm s e hs h⟩

example : exponentOutOfRange ⟨7, -176 - 1⟩ into32.infExp into32.zeroExp = some false ∧
    exponentOutOfRange ⟨-1, -(2 ^ 63)⟩ into64.infExp into64.zeroExp = some false := by decide +kernel

/-- the modes left out above are left out for a reason (the recorded finding "directed modes not honoured below the normal
    range" — it is the behaviour of `into_f32_internal`'s own underflow exit, which the range test reproduces): `2^-200`
    under `Up` must become the least subnormal, flagged above; the code answers `+0`, `NoOp` -/
theorem fbig_to_float_range_underflow_directed_counterexample :
    rangeExit into32 ⟨1, -200⟩ = some (0, some .NoOp) ∧
    ieeeRoundRat .binary32 .up (floatAsRat 2 1 (-200)).1 (floatAsRat 2 1 (-200)).2 = (1, .pos) := by
  decide +kernel

/-- **the decided underflow in EVERY mode, every base** (round 7; weakens the mode hypothesis of
    `fbig_to_float_range_underflow_is_required` to none): when the range test answers `Some(false)` the code returns `±0`
    with `NoOp`; the specification — ONE rounding of the exact rational value `s·B^e` — is `±0` flagged toward zero,
    EXCEPT when the mode rounds a magnitude of this sign up (`Away`; `Up` for `s > 0`; `Down` for `s < 0`), where it is
    the least subnormal `±2^qmin` (bits `sign + 1`) flagged away from zero — independent of `e`.  So the returned bits are
    the required ones IFF the mode is not one of those three cases (= the predicate of the recorded finding "directed
    modes not honoured below the normal range" on this arm), and the driver's exponent clamp on the underflow side is
    justified in every mode (the required result does not depend on `e`). -/
theorem fbig_to_float_range_underflow_every_mode (B : Nat) (hB : 2 ≤ B) (mode : Conv.Mode) (s e : Int) (hs : s ≠ 0) :
    (exponentOutOfRange ⟨s, e⟩ into32.infExp into32.zeroExp = some false →
      rangeExit into32 ⟨s, e⟩ = some ((if s < 0 then Ieee.binary32.signBit else 0), some .NoOp) ∧
      ieeeRoundRat .binary32 mode (floatAsRat B s e).1 (floatAsRat B s e).2 =
        (if mode = .away ∨ (mode = .up ∧ ¬ s < 0) ∨ (mode = .down ∧ s < 0)
         then ((if s < 0 then Ieee.binary32.signBit else 0) + 1, Flag.pos.flipIf (decide (s < 0)))
         else ((if s < 0 then Ieee.binary32.signBit else 0), Flag.neg.flipIf (decide (s < 0)))) ∧
      ((ieeeRoundRat .binary32 mode (floatAsRat B s e).1 (floatAsRat B s e).2).1 =
          (if s < 0 then Ieee.binary32.signBit else 0) ↔
        ¬ (mode = .away ∨ (mode = .up ∧ ¬ s < 0) ∨ (mode = .down ∧ s < 0)))) ∧
    (exponentOutOfRange ⟨s, e⟩ into64.infExp into64.zeroExp = some false →
      rangeExit into64 ⟨s, e⟩ = some ((if s < 0 then Ieee.binary64.signBit else 0), some .NoOp) ∧
      ieeeRoundRat .binary64 mode (floatAsRat B s e).1 (floatAsRat B s e).2 =
        (if mode = .away ∨ (mode = .up ∧ ¬ s < 0) ∨ (mode = .down ∧ s < 0)
         then ((if s < 0 then Ieee.binary64.signBit else 0) + 1, Flag.pos.flipIf (decide (s < 0)))
         else ((if s < 0 then Ieee.binary64.signBit else 0), Flag.neg.flipIf (decide (s < 0)))) ∧
      ((ieeeRoundRat .binary64 mode (floatAsRat B s e).1 (floatAsRat B s e).2).1 =
          (if s < 0 then Ieee.binary64.signBit else 0) ↔
        ¬ (mode = .away ∨ (mode = .up ∧ ¬ s < 0) ∨ (mode = .down ∧ s < 0)))) :=
  ⟨fun h => rangeExit_under_every_mode into32 into32_compat B hB mode s e hs h,
   fun h => rangeExit_under_every_mode into64 into64_compat B hB mode s e hs h⟩

-- non-vacuity: decided inputs in bases 10 and 3, both branches of the mode condition occur (Down on a negative value rounds
-- the magnitude up, Down on a positive one does not), and the kernel agrees with the closed form on a concrete input
example : exponentOutOfRange ⟨7, -176 - 1⟩ into32.infExp into32.zeroExp = some false ∧
    exponentOutOfRange ⟨-5, -(2 ^ 63)⟩ into64.infExp into64.zeroExp = some false ∧
    ieeeRoundRat .binary32 .down (floatAsRat 10 (-7) (-177)).1 (floatAsRat 10 (-7) (-177)).2 = (0x80000001, .neg) ∧
    ieeeRoundRat .binary32 .down (floatAsRat 10 7 (-177)).1 (floatAsRat 10 7 (-177)).2 = (0, .neg) ∧
    ieeeRoundRat .binary32 .away (floatAsRat 3 7 (-177)).1 (floatAsRat 3 7 (-177)).2 = (1, .pos) := by decide +kernel

end Dashu.Props.C06
