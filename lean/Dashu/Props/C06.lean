import Dashu.Proofs.Conv.Ratio
/-
  C06 — Conversions are lossless or refused; lossy ones are correctly rounded and say so.

  Property theorems only (helper lemmas live in `Dashu/Proofs/Conv`).  A float is its bit pattern.
  `ieeeRound F m e` is the specification: the bit pattern of round-to-nearest-even of `m·2^e` in
  format `F` (overflow to ±∞, gradual underflow) and the sign of `result − exact`.
  `encodeFixed`, `toF64 _ true`, `ubigTryFromFloat`, … model the code of the CURRENT tree (after the
  `fix:` commits made from proposed_fixes/c06-*.diff); `encodeAsIs`, `toF64SmallAsIs`,
  `ubigTryFromFloatAsIs`, `ratToFloatAsIs` model the pinned code before those commits and only
  appear in counterexample theorems, which record why the repairs were needed.
-/
namespace Dashu.Props.C06
open Dashu.Model Dashu.Model.Conv

/-! ### What the specification means -/

/-- the rounding used by the spec is a nearest integer … -/
theorem spec_rounding_is_nearest (num den : Nat) (hd : 0 < den) :
    2 * (rneDiv num den * den) ≤ 2 * num + den ∧ 2 * num ≤ 2 * (rneDiv num den * den) + den :=
  rneDiv_half num den hd

/-- … and an exact tie goes to the even neighbour -/
theorem spec_rounding_ties_to_even (num den : Nat) (h : 2 * (num % den) = den) :
    rneDiv num den % 2 = 0 :=
  rneDiv_tie_even num den h

/-- the bit patterns the spec produces mean what IEEE 754 says: `decode` of the fields
    (sign, exponent field `E`, mantissa field `M`) is `±M·2^qmin` for `E = 0`, `±(2^MB+M)·2^(qmin+E-1)`
    otherwise, and NaN / ±∞ (all-ones exponent) are refused -/
theorem decode_reads_fields_f32 (s E M : Nat) (hs : s < 2) (hE : E < 2 ^ 8) (hM : M < 2 ^ 23) :
    decode f32Dec (fields .binary32 s E M) =
      if E = 2 ^ 8 - 1 then (if M ≠ 0 then .error .nan else .error .infinite)
      else .ok ((if s > 0 then -1 else 1) * ((if E = 0 then M else 2 ^ 23 + M : Nat) : Int),
                if E = 0 then Ieee.binary32.qmin else Ieee.binary32.qmin + E - 1) :=
  decode_fields f32Dec .binary32 f32Dec_compat s E M hs hE hM

theorem decode_reads_fields_f64 (s E M : Nat) (hs : s < 2) (hE : E < 2 ^ 11) (hM : M < 2 ^ 52) :
    decode f64Dec (fields .binary64 s E M) =
      if E = 2 ^ 11 - 1 then (if M ≠ 0 then .error .nan else .error .infinite)
      else .ok ((if s > 0 then -1 else 1) * ((if E = 0 then M else 2 ^ 52 + M : Nat) : Int),
                if E = 0 then Ieee.binary64.qmin else Ieee.binary64.qmin + E - 1) :=
  decode_fields f64Dec .binary64 f64Dec_compat s E M hs hE hM

/-- the specification used for rationals and floats of any base (`ieeeRoundRat`) extends the one of
    `encode`: on `num / 2^j` it is `ieeeRound num (-j)` -/
theorem spec_rational_extends_dyadic (F : Ieee) (num : Int) (j : Nat) :
    ieeeRoundRat F .halfEven num (2 ^ j) = ieeeRound F num (-(j : Int)) :=
  ieeeRoundRat_dyadic F num j

/-! ### `encode` (base/src/bit.rs) — the centre of C06 -/

/-- **encode_correct**, `f32` (body of the current tree, fix commit 6967148): for EVERY `i32`
    mantissa and EVERY exponent the result is the IEEE round-to-nearest-even bit pattern of `m·2^e`
    (normal, subnormal, ±∞, ±0) with the true sign of the error; no panic. -/
theorem encode_correct_f32 (m e : Int) (hm : -2 ^ 31 ≤ m ∧ m < 2 ^ 31) :
    encodeFixed f32Fixed m e = .ok (ieeeRound .binary32 m e) :=
  f32_encode_correct m e hm

/-- **encode_correct**, `f64`, every `i64` mantissa and every exponent. -/
theorem encode_correct_f64 (m e : Int) (hm : -2 ^ 63 ≤ m ∧ m < 2 ^ 63) :
    encodeFixed f64Fixed m e = .ok (ieeeRound .binary64 m e) :=
  f64_encode_correct m e hm

/-- the same theorem for any format/constants pair satisfying the stated relations
    (so a future `f16`/`f128` block is covered by checking `Compatible` — a `decide`) -/
theorem encode_correct_generic (c : EncConsts) (F : Ieee) (hc : Compatible c F) (m e : Int)
    (hm : m.natAbs ≤ 2 ^ (c.N - 1)) : encodeFixed c m e = .ok (ieeeRound F m e) :=
  encodeFixed_correct c F hc m e hm

-- non-vacuity: the hypotheses hold for concrete non-trivial inputs (a tie in the subnormal band)
example : (-2 ^ 31 : Int) ≤ 3 ∧ (3 : Int) < 2 ^ 31 ∧
    encodeFixed f32Fixed 3 (-151) = .ok (1, .pos) := by decide +kernel

/-- **round trip** `encode (decode x) = Exact x` for every finite `f32` bit pattern (NaN/±∞ are
    refused by `decode`; `-0.0` returns as `+0.0` because `encode` documents `Exact(0)` for zero) -/
theorem encode_decode_roundtrip_f32 (s E M : Nat) (hs : s < 2) (hE : E < 2 ^ 8 - 1) (hM : M < 2 ^ 23) :
    ∃ m e, decode f32Dec (fields .binary32 s E M) = .ok (m, e) ∧
      encodeFixed f32Fixed m e = .ok (if E = 0 ∧ M = 0 then 0 else fields .binary32 s E M, .exact) :=
  encode_decode_roundtrip f32Fixed f32Dec .binary32 f32Fixed_compatible f32Dec_compat s E M hs hE hM

theorem encode_decode_roundtrip_f64 (s E M : Nat) (hs : s < 2) (hE : E < 2 ^ 11 - 1) (hM : M < 2 ^ 52) :
    ∃ m e, decode f64Dec (fields .binary64 s E M) = .ok (m, e) ∧
      encodeFixed f64Fixed m e = .ok (if E = 0 ∧ M = 0 then 0 else fields .binary64 s E M, .exact) :=
  encode_decode_roundtrip f64Fixed f64Dec .binary64 f64Fixed_compatible f64Dec_compat s E M hs hE hM

/-
  History of the repaired defect.  The full statement for the pinned code,
    theorem encode_correct_f32_pinned (m e) : encodeAsIs f32AsIs m e = .ok (ieeeRound .binary32 m e)
  is FALSE; the counterexamples below are kernel-checked (they are what `proposed_fixes/
  c06-encode-rounding.diff`, applied as commit 6967148, repaired).
-/

/-- the pinned `f32::encode` flagged an inexact result `Exact` (sticky mask `0x7f` skipped bit 7) -/
theorem encode_asis_f32_counterexample_flag :
    encodeAsIs f32AsIs (2 ^ 30 + 32) 0 = .ok (0x4e800000, .exact) ∧
    ieeeRound .binary32 (2 ^ 30 + 32) 0 = (0x4e800000, .neg) := by decide +kernel

/-- … and returned a WRONG VALUE when the skipped bit turned a non-tie into an apparent tie -/
theorem encode_asis_f32_counterexample_value :
    encodeAsIs f32AsIs (2 ^ 30 + 96) 0 = .ok (0x4e800000, .neg) ∧
    ieeeRound .binary32 (2 ^ 30 + 96) 0 = (0x4e800001, .pos) := by decide +kernel

theorem encode_asis_f64_counterexample_flag :
    encodeAsIs f64AsIs (2 ^ 62 + 256) 0 = .ok (0x43d0000000000000, .exact) ∧
    ieeeRound .binary64 (2 ^ 62 + 256) 0 = (0x43d0000000000000, .neg) := by decide +kernel

theorem encode_asis_f64_counterexample_value :
    encodeAsIs f64AsIs (2 ^ 62 + 768) 0 = .ok (0x43d0000000000000, .neg) ∧
    ieeeRound .binary64 (2 ^ 62 + 768) 0 = (0x43d0000000000001, .pos) := by decide +kernel

/-- subnormal branch: the mask `0xfffffff` skipped bit 28 of `shifted` -/
theorem encode_asis_f32_counterexample_subnormal :
    encodeAsIs f32AsIs 11 (-151) = .ok (2, .neg) ∧
    ieeeRound .binary32 11 (-151) = (3, .pos) := by decide +kernel

theorem encode_asis_f64_counterexample_subnormal :
    encodeAsIs f64AsIs 22 (-1077) = .ok (2, .neg) ∧
    ieeeRound .binary64 22 (-1077) = (3, .pos) := by decide +kernel

/-- the `f32` underflow test was one binade too coarse: `3·2^-151` must round to `2^-149` -/
theorem encode_asis_f32_counterexample_underflow :
    encodeAsIs f32AsIs 3 (-151) = .ok (0, .neg) ∧
    ieeeRound .binary32 3 (-151) = (1, .pos) := by decide +kernel

/-- exactly representable inputs that panicked (debug build): `-2^31·2^-180 = -2^-149` -/
theorem encode_asis_f32_counterexample_shift_panic :
    encodeAsIs f32AsIs (-2 ^ 31) (-180) = .error (.undocumented f32AsIs.siteShl) ∧
    ieeeRound .binary32 (-2 ^ 31) (-180) = (0x80000001, .exact) := by decide +kernel

theorem encode_asis_f64_counterexample_shift_panic :
    encodeAsIs f64AsIs (-2 ^ 63) (-1137) = .error (.undocumented f64AsIs.siteShl) ∧
    ieeeRound .binary64 (-2 ^ 63) (-1137) = (0x8000000000000001, .exact) := by decide +kernel

/-- `top_bit` overflowed `i16` for exponents close to `i16::MAX` -/
theorem encode_asis_counterexample_exponent_overflow :
    encodeAsIs f32AsIs 1 32767 = .error (.undocumented f32AsIs.siteAdd) ∧
    ieeeRound .binary32 1 32767 = (0x7f800000, .pos) ∧
    encodeAsIs f64AsIs 1 32767 = .error (.undocumented f64AsIs.siteAdd) ∧
    ieeeRound .binary64 1 32767 = (0x7ff0000000000000, .pos) := by decide +kernel

/-! ### integers → floats (integer/src/convert.rs) -/

/-- **sticky-bit lemma**: a magnitude with at least two bits below the precision may be replaced by
    (its top bits | "something non-zero was shifted out") — same rounded result, same error sign.
    This is what `to_f64_nontrivial` and the repaired `RBig::to_f64` rely on. -/
theorem sticky_bit_lemma (F : Ieee) (hF : F.Ok) (x s : Nat) (e : Int) (hx : x ≠ 0) (hs : 1 ≤ s)
    (hlen : F.prec + 2 + s ≤ bitLen x) :
    ieeeRoundMag F ((x / 2 ^ s) ||| (if x % 2 ^ s ≠ 0 then 1 else 0)) (e + s) = ieeeRoundMag F x e :=
  sticky_round F hF x s e hx hs hlen

/-- **`UBig::to_f64`** (current tree): correctly rounded with the true error sign, for every canonical
    magnitude — inline (`to_f64_small`) or heap of any length (`to_f64_nontrivial` → `encode`) —
    and every word size ≥ 32. -/
theorem ubig_to_f64_correct (W : Nat) (hW : 32 ≤ W) (r : TRepr) (hr : r.Canon W) :
    toF64 W true r = .ok (ieeeRound .binary64 (r.value W : Int) 0) :=
  toF64_correct W hW r hr

/-- **`UBig::to_f32`**, 64-bit words (see `to_f32_small` note in the evidence for narrower words) -/
theorem ubig_to_f32_correct (W : Nat) (hW : 64 ≤ W) (r : TRepr) (hr : r.Canon W) :
    toF32 W true r = .ok (ieeeRound .binary32 (r.value W : Int) 0) :=
  toF32_correct W hW r hr

/-- `IBig::to_f32/to_f64` negate value and error sign of the magnitude's result -/
theorem ibig_to_float_sign (F : Ieee) (x : Nat) (e : Int) (hx : x ≠ 0) :
    ieeeRound F (-(x : Int)) e = signedApx F true (ieeeRound F (x : Int) e) :=
  ieeeRound_neg F x e hx

-- non-vacuity: a 3-word canonical value through the heap path
example : (TRepr.large [0, 1 <<< 10, 1]).Canon 64 ∧
    toF64 64 true (.large [0, 1 <<< 10, 1]) = .ok (0x47f0000000000000, .neg) := by decide +kernel

/-- the pinned `to_f64_small` reported `u128::MAX` as exactly `2^128` (repaired by commit e7f1714) -/
theorem to_f64_small_asis_counterexample :
    toF64SmallAsIs 64 (2 ^ 128 - 1) = (0x47f0000000000000, .exact) ∧
    ieeeRound .binary64 (2 ^ 128 - 1) 0 = (0x47f0000000000000, .pos) := by decide +kernel

/-- **`TryFrom<UBig> for f32`** (and `IBig`, which negates): whenever the bit-length rule
    (`bit_len ≤ 24`, or 25 bits and a power of two) lets a value through, the cast is exact.  The rule is
    conservative — `2^25` is refused although representable — which the property allows. -/
theorem ubig_try_to_f32_sound (x b : Nat) (h : ubigTryToFloat .binary32 x = .ok b) :
    ieeeRound .binary32 (x : Int) 0 = (b, .exact) :=
  ubigTryToFloat_sound .binary32 Ieee.binary32_ok (by decide) x b h

theorem ubig_try_to_f64_sound (x b : Nat) (h : ubigTryToFloat .binary64 x = .ok b) :
    ieeeRound .binary64 (x : Int) 0 = (b, .exact) :=
  ubigTryToFloat_sound .binary64 Ieee.binary64_ok (by decide) x b h

/-! ### floats → integers -/

/-- **`TryFrom<f32/f64> for UBig`** (current tree): NaN/±∞/negative ⇒ OutOfBounds, a fractional part ⇒
    LossOfPrecision, otherwise exactly the integer the float denotes -/
theorem ubig_try_from_float_exact_or_refused (d : DecConsts) (bits : Nat) :
    ((fun n : Nat => (n : Int)) <$> ubigTryFromFloat d bits) = intFromFloatSpec d false bits :=
  ubigTryFromFloat_spec d bits

theorem ibig_try_from_float_exact_or_refused (d : DecConsts) (bits : Nat) :
    ibigTryFromFloat d bits = intFromFloatSpec d true bits :=
  ibigTryFromFloat_spec d bits

/-- the pinned code converted `1.5f32` to `1` and `-1.5f32` to `-2` (repaired: fraction ⇒ refused) -/
theorem int_from_float_asis_counterexample :
    ubigTryFromFloatAsIs f32Dec 0x3fc00000 = .ok 1 ∧ intFromFloatSpec f32Dec false 0x3fc00000 = .error .lossOfPrecision ∧
    ibigTryFromFloatAsIs f32Dec 0xbfc00000 = .ok (-2) ∧ intFromFloatSpec f32Dec true 0xbfc00000 = .error .lossOfPrecision := by
  decide +kernel

/-! ### primitive integers ↔ big integers -/

/-- `try_to_unsigned::<T>` on a canonical magnitude succeeds iff the value fits the type, and
    returns it (word sizes that are a multiple of 8; `T` at most one word or a multiple of it) -/
theorem try_to_unsigned_in_range_iff (W bits : Nat) (hW : 8 ≤ W) (hW8 : W % 8 = 0) (hb8 : bits % 8 = 0)
    (hbits : bits ≤ W ∨ bits % W = 0) (r : TRepr) (hr : r.Canon W) :
    tryToUnsigned W bits r = if r.value W < 2 ^ bits then .ok (r.value W) else .error .outOfBounds :=
  tryToUnsigned_spec W bits hW hW8 hb8 hbits r hr

/-- `try_from_sign_magnitude` (every signed target): succeeds iff `±mag` is an `iN`, returns it -/
theorem try_from_sign_magnitude_in_range_iff (bits : Nat) (hb : 1 ≤ bits) (neg : Bool) (mag : Nat)
    (hm : mag < 2 ^ bits) :
    tryFromSignMagnitude bits neg mag =
      intoRangeSpec (-(2 ^ (bits - 1) : Int)) (2 ^ (bits - 1) - 1) (if neg then -(mag : Int) else mag) :=
  tryFromSignMagnitude_spec bits hb neg mag hm

/-- `to_sign_magnitude` of an `iN` (including `iN::MIN`) -/
theorem to_sign_magnitude_exact (bits : Nat) (hb : 1 ≤ bits) (x : Int)
    (hx : -(2 ^ (bits - 1) : Int) ≤ x ∧ x ≤ 2 ^ (bits - 1) - 1) :
    toSignMagnitude bits x = (decide (x < 0), x.natAbs) :=
  toSignMagnitude_spec bits hb x hx

/-- `From<uN> for UBig` keeps the value, and converting back returns it -/
theorem from_unsigned_roundtrip (W bits x : Nat) (hW : 1 ≤ W) (hx : x < 2 ^ bits) (hb : bits ≤ 2 * W) :
    (fromUnsigned W x).value W = x ∧ tryToUnsigned W bits (fromUnsigned W x) = .ok x :=
  ⟨(fromUnsigned_spec W x hW).1, unsigned_roundtrip W bits x hx hb⟩

-- non-vacuity: u128::MAX on 64-bit words, i8::MIN
example : tryToUnsigned 64 128 (fromUnsigned 64 (2 ^ 128 - 1)) = .ok (2 ^ 128 - 1) ∧
    tryFromSignMagnitude 8 true 128 = .ok (-128) ∧ tryFromSignMagnitude 8 false 128 = .error .outOfBounds := by
  decide +kernel

/-! ### rationals → floats (rational/src/convert.rs) -/

/-- **`RBig::to_f32`** (current tree, commit 1d8b6bc): for EVERY numerator and non-zero denominator the
    result is the IEEE round-to-nearest-even of the rational with the true error sign — quotient with
    two guard bits, sticky bit, a single rounding in `encode` (sticky lemma for non-dyadic quotients). -/
theorem rbig_to_f32_correct (num : Int) (den : Nat) (hden : den ≠ 0) :
    ratToFloatFixed rat32 (encodeFixed f32Fixed) num den = .ok (ieeeRoundRat .binary32 .halfEven num den) :=
  rbig_to_f32_correct' num den hden

/-- **`RBig::to_f64`** (current tree) -/
theorem rbig_to_f64_correct (num : Int) (den : Nat) (hden : den ≠ 0) :
    ratToFloatFixed rat64 (encodeFixed f64Fixed) num den = .ok (ieeeRoundRat .binary64 .halfEven num den) :=
  rbig_to_f64_correct' num den hden

/-- the pinned `RBig::to_f32` double-rounded: `100663301/4 = 25165825.25` went to `25165824`
    (repaired by commit 1d8b6bc: guard bits + sticky, then a single rounding in `encode`) -/
theorem rbig_to_f32_asis_counterexample :
    ratToFloatAsIs rat32 (encodeFixed f32Fixed) 100663301 4 = .ok (0x4bc00000, .neg) ∧
    ratToFloatFixed rat32 (encodeFixed f32Fixed) 100663301 4 = .ok (0x4bc00001, .pos) ∧
    ieeeRoundRat .binary32 .halfEven 100663301 4 = (0x4bc00001, .pos) := by decide +kernel

/-- … and `RBig::to_f64` sent `3/2^1076 = 1.5·2^-1075` to zero -/
theorem rbig_to_f64_asis_counterexample :
    ratToFloatAsIs rat64 (encodeFixed f64Fixed) 3 (2 ^ 1076) = .ok (0, .neg) ∧
    ratToFloatFixed rat64 (encodeFixed f64Fixed) 3 (2 ^ 1076) = .ok (1, .pos) ∧
    ieeeRoundRat .binary64 .halfEven 3 (2 ^ 1076) = (1, .pos) := by decide +kernel

end Dashu.Props.C06
