import Dashu.Proofs.Conv.Encode
/-
  C06 — Conversions are lossless or refused; lossy ones are correctly rounded and say so.

  Property theorems only (helper lemmas live in `Dashu/Proofs/Conv`).  A float is its bit pattern.
  `ieeeRound F m e` is the specification: the bit pattern of round-to-nearest-even of `m·2^e` in
  format `F` (overflow to ±∞, gradual underflow) and the sign of `result − exact`.
-/
namespace Dashu.Props.C06
open Dashu.Model Dashu.Model.Conv

/-! ### What the specification means -/

/-- the rounding used by the spec is a nearest integer … -/
theorem spec_rounding_is_nearest (num den : Nat) (hd : 0 < den) :
    2 * (rneDiv num den * den) ≤ 2 * num + den ∧ 2 * num ≤ 2 * (rneDiv num den * den) + den :=
  rneDiv_half num den hd

/-- … and an exact tie goes to the even neighbour -/
theorem spec_rounding_ties_to_even (num den : Nat) (h : 2 * (num % den) = den) :
    rneDiv num den % 2 = 0 :=
  rneDiv_tie_even num den h

/-! ### `encode` (base/src/bit.rs) — the centre of C06 -/

/-- **encode_correct**, `f32`, for the body repaired by `proposed_fixes/c06-encode-rounding.diff`:
    for EVERY `i32` mantissa and EVERY exponent the result is the IEEE round-to-nearest-even bit
    pattern of `m·2^e` (normal, subnormal, ±∞, ±0) with the true sign of the error; no panic. -/
theorem encode_correct_f32 (m e : Int) (hm : -2 ^ 31 ≤ m ∧ m < 2 ^ 31) :
    encodeFixed f32Fixed m e = .ok (ieeeRound .binary32 m e) :=
  f32_encode_correct m e hm

/-- **encode_correct**, `f64` (repaired body), every `i64` mantissa and every exponent. -/
theorem encode_correct_f64 (m e : Int) (hm : -2 ^ 63 ≤ m ∧ m < 2 ^ 63) :
    encodeFixed f64Fixed m e = .ok (ieeeRound .binary64 m e) :=
  f64_encode_correct m e hm

/-- the same theorem for any format/constants pair satisfying the stated relations
    (so a future `f16`/`f128` block is covered by checking `Compatible` — a `decide`) -/
theorem encode_correct_generic (c : EncConsts) (F : Ieee) (hc : Compatible c F) (m e : Int)
    (hm : m.natAbs ≤ 2 ^ (c.N - 1)) : encodeFixed c m e = .ok (ieeeRound F m e) :=
  encodeFixed_correct c F hc m e hm

-- non-vacuity: the hypotheses hold for concrete non-trivial inputs (a tie in the subnormal band)
example : (-2 ^ 31 : Int) ≤ 3 ∧ (3 : Int) < 2 ^ 31 ∧
    encodeFixed f32Fixed 3 (-151) = .ok (1, .pos) := by decide +kernel

/-
  theorem encode_correct_f32_full (m e) (hm : i32 range) (he : i16 range) :
      encodeAsIs f32AsIs m e = .ok (ieeeRound .binary32 m e)
  is FALSE for the code as it is in the pinned tree: the counterexamples below are kernel-checked.
-/

/-- the pinned `f32::encode` flags an inexact result `Exact` (sticky mask `0x7f` skips bit 7) -/
theorem encode_asis_f32_counterexample_flag :
    encodeAsIs f32AsIs (2 ^ 30 + 32) 0 = .ok (0x4e800000, .exact) ∧
    ieeeRound .binary32 (2 ^ 30 + 32) 0 = (0x4e800000, .neg) := by decide +kernel

/-- … and returns a WRONG VALUE when the skipped bit turns a non-tie into an apparent tie -/
theorem encode_asis_f32_counterexample_value :
    encodeAsIs f32AsIs (2 ^ 30 + 96) 0 = .ok (0x4e800000, .neg) ∧
    ieeeRound .binary32 (2 ^ 30 + 96) 0 = (0x4e800001, .pos) := by decide +kernel

theorem encode_asis_f64_counterexample_flag :
    encodeAsIs f64AsIs (2 ^ 62 + 256) 0 = .ok (0x43d0000000000000, .exact) ∧
    ieeeRound .binary64 (2 ^ 62 + 256) 0 = (0x43d0000000000000, .neg) := by decide +kernel

theorem encode_asis_f64_counterexample_value :
    encodeAsIs f64AsIs (2 ^ 62 + 768) 0 = .ok (0x43d0000000000000, .neg) ∧
    ieeeRound .binary64 (2 ^ 62 + 768) 0 = (0x43d0000000000001, .pos) := by decide +kernel

/-- subnormal branch: the mask `0xfffffff` skips bit 28 of `shifted` -/
theorem encode_asis_f32_counterexample_subnormal :
    encodeAsIs f32AsIs 11 (-151) = .ok (2, .neg) ∧
    ieeeRound .binary32 11 (-151) = (3, .pos) := by decide +kernel

theorem encode_asis_f64_counterexample_subnormal :
    encodeAsIs f64AsIs 22 (-1077) = .ok (2, .neg) ∧
    ieeeRound .binary64 22 (-1077) = (3, .pos) := by decide +kernel

/-- the `f32` underflow test is one binade too coarse: `3·2^-151` must round to `2^-149` -/
theorem encode_asis_f32_counterexample_underflow :
    encodeAsIs f32AsIs 3 (-151) = .ok (0, .neg) ∧
    ieeeRound .binary32 3 (-151) = (1, .pos) := by decide +kernel

/-- exactly representable inputs that panic (debug build): `-2^31·2^-180 = -2^-149` -/
theorem encode_asis_f32_counterexample_shift_panic :
    encodeAsIs f32AsIs (-2 ^ 31) (-180) = .error (.undocumented f32AsIs.siteShl) ∧
    ieeeRound .binary32 (-2 ^ 31) (-180) = (0x80000001, .exact) := by decide +kernel

theorem encode_asis_f64_counterexample_shift_panic :
    encodeAsIs f64AsIs (-2 ^ 63) (-1137) = .error (.undocumented f64AsIs.siteShl) ∧
    ieeeRound .binary64 (-2 ^ 63) (-1137) = (0x8000000000000001, .exact) := by decide +kernel

/-- `top_bit` overflows `i16` for exponents close to `i16::MAX` -/
theorem encode_asis_counterexample_exponent_overflow :
    encodeAsIs f32AsIs 1 32767 = .error (.undocumented f32AsIs.siteAdd) ∧
    ieeeRound .binary32 1 32767 = (0x7f800000, .pos) ∧
    encodeAsIs f64AsIs 1 32767 = .error (.undocumented f64AsIs.siteAdd) ∧
    ieeeRound .binary64 1 32767 = (0x7ff0000000000000, .pos) := by decide +kernel

end Dashu.Props.C06
