import Dashu.Props.C05
import Dashu.Props.GenFloatNorm
/-
  C05 (round 5): the clause "normalised float representation" stated about the code of `Repr::<B>::normalize`
  AS REGENERATED from float/src/repr.rs on this run (Tie A), by composing `GenFloatNorm.normalize_is_model`
  with `float_normalize`.  The `UBig::remove` arm is C12's mirrored `removeRepr` (linked through `removeRepr_spec`).
-/
namespace Dashu.Props.C05
open Dashu.Model

/-- **the regenerated `Repr::normalize`** (three arms: `B == 2`, power-of-two base, `UBig::remove`) returns the
    canonical representation of the same value — significand not divisible by the base, zero as `0·B^0`, never an
    infinity — for every base `B ≥ 2` and every input -/
theorem float_normalize_regenerated (B : Nat) (hB : 2 ≤ B) (s e : Int) :
    FCanon B ⟨(Dashu.Gen.Repr_normalize ⟨(B : Int)⟩ ⟨s, e⟩).significand, (Dashu.Gen.Repr_normalize ⟨(B : Int)⟩ ⟨s, e⟩).exponent⟩ ∧
    (s ≠ 0 → e ≤ (Dashu.Gen.Repr_normalize ⟨(B : Int)⟩ ⟨s, e⟩).exponent ∧
      s = (Dashu.Gen.Repr_normalize ⟨(B : Int)⟩ ⟨s, e⟩).significand *
        (B : Int) ^ ((Dashu.Gen.Repr_normalize ⟨(B : Int)⟩ ⟨s, e⟩).exponent - e).toNat) ∧
    (s = 0 → Dashu.Gen.Repr_normalize ⟨(B : Int)⟩ ⟨s, e⟩ = ⟨0, 0⟩) := by
  have h := Dashu.Props.GenFloatNorm.normalize_is_model B hB ⟨s, e⟩
  have hm : Dashu.Gen.Repr_normalize ⟨(B : Int)⟩ ⟨s, e⟩ = Dashu.Props.GenFloatNorm.toG ((FRepr.mk s e).normalize B) := h
  rw [hm]
  obtain ⟨h1, _, h3, h4⟩ := float_normalize B hB ⟨s, e⟩
  refine ⟨h1, h3, ?_⟩
  intro hs
  have := h4 hs
  simp only [Dashu.Props.GenFloatNorm.toG, this]

/-- the two hand models of the normalising constructor (C03's `Float.FRepr.new`, C05's `FRepr.normalize`) agree, so the
    float producer / history theorems (stated over the C03 model) and the comparison theorems (stated over the C05
    model) speak about one function — the regenerated one -/
theorem float_new_is_normalize (B : Nat) (hB : 2 ≤ B) (s e : Int) :
    (⟨(Float.FRepr.new B s e).signif, (Float.FRepr.new B s e).exp⟩ : FRepr) = (FRepr.mk s e).normalize B ∧
    Dashu.Gen.Repr_normalize ⟨(B : Int)⟩ ⟨s, e⟩ = ⟨(Float.FRepr.new B s e).signif, (Float.FRepr.new B s e).exp⟩ :=
  ⟨Dashu.Props.GenFloatNorm.repr_new_eq_normalize B hB s e, Dashu.Props.GenFloatNorm.normalize_is_repr_new B hB s e⟩

example : Dashu.Gen.Repr_normalize ⟨10⟩ ⟨-1230000, -4⟩ = ⟨-123, 0⟩ ∧ (FRepr.mk (-1230000) (-4)).normalize 10 = ⟨-123, 0⟩ := by
  decide +kernel

end Dashu.Props.C05
