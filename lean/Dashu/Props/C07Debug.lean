import Dashu.Proofs.Text.Debug
/-
  C07 — `Debug` (`{:?}`, `{:+?}`, `{:#?}`) of `UBig` / `IBig`: the head and tail printed by `DoubleEnd` are
  the true leading and trailing decimal digits.  (A separate module because it composes kernels
  owned by other properties: C02 `rem_by_word` / `div_by_word_in_place` / `normalize` /
  `div_rem_highest_word`, C09 `shl_in_place`, C10/C12 `log_word_base`, through their proved specs.)
  The definitions are the ones `Dashu/Driver/TextDebug.lean` executes for the ops `u.dbg` / `i.dbg`.
-/
namespace Dashu.Props.C07Debug
open Dashu.Model Dashu.Model.Div Dashu.Model.Text

/-- **the heap arm of `DoubleEnd::fmt_non_power_two`, on words**: for every normalised word slice of a
    value `n ≥ 2^(2W)`, every even word size `≥ 8`: `rem_by_word` delivers `n % 10^dpw`;
    `log_word_base` delivers `exp` with `10^exp ≤ n < 10^(exp+1)`; `pow / 10^(dpw-1)` is exact
    (`debug_assert_zero!`), has more than one word (`debug_assert!(pow.len() > 1)`); after
    `normalize` / `shl_in_place` the dividend window is exactly one word longer than the divisor
    (`debug_assert!(lhs_lo_len >= n)`, and no quotient word is lost), the preconditions of
    `div_rem_highest_word` hold, and its single quotient word is `n / 10^(exp+1-dpw)` -/
theorem debug_head_tail_on_words (W est : Nat) (hW : 8 ≤ W) (hev : 2 ∣ W) (words : List Nat)
    (hw : IsWords W words) (hnm : Norm words) (hbig : 2 ^ (2 * W) ≤ val W words)
    (hest : 10 ^ est ≤ val W words) :
    ∃ exp, 10 ^ exp ≤ val W words ∧ val W words < 10 ^ (exp + 1) ∧ 2 * (radixInfo W 10).dpw ≤ exp ∧
      doubleEndLarge W est words = .ok (val W words / 10 ^ (exp + 1 - (radixInfo W 10).dpw),
        val W words % 10 ^ (radixInfo W 10).dpw, exp) :=
  doubleEndLarge_eq W est hW hev words hw hnm hbig hest

/-- **`{:?}` prints the specified text** (`debugSpec`): the mirrored `DoubleEnd::fmt` — inline word,
    inline double word (word-level three-part split), heap arm on words, `format_prepared` with the
    sign, `..` and the `(digits: D, bits: B)` suffix of `{:#?}` — never fails a check and yields
    `debugSpec`, for every integer, flag combination and even word size `≥ 8`.  `est` (the f32 first
    guess inside `log_word_base`) only has to pass that function's own `assert!` -/
theorem debug_text (W est : Nat) (hW : 8 ≤ W) (hev : 2 ∣ W) (alt plus : Bool) (z : Int)
    (hest : 2 ^ (2 * W) ≤ z.natAbs → 10 ^ est ≤ z.natAbs) :
    doubleEndFmt W est alt plus z = .ok (debugSpec W alt plus z) :=
  doubleEndFmt_eq W est hW hev alt plus z hest

/-- the first guess the driver uses (`est = 1`) always passes the `assert!` on heap values -/
theorem debug_text_est_one (W : Nat) (hW : 8 ≤ W) (hev : 2 ∣ W) (alt plus : Bool) (z : Int) :
    doubleEndFmt W 1 alt plus z = .ok (debugSpec W alt plus z) := by
  apply doubleEndFmt_eq W 1 hW hev
  intro h
  have : (2 : Nat) ^ 16 ≤ 2 ^ (2 * W) := Nat.pow_le_pow_right (by omega) (by omega)
  omega

/-- **head and tail are the true leading / trailing decimal digits**: for a heap value (`|z| ≥ 2^(2W)`)
    the plain `{:?}` text is the sign, the first `dpw` characters of the reference decimal text
    (`printSpec 10` = `Display`, theorem `C07.print_eq_reference`), `..`, and its last `dpw` characters,
    where `dpw = digits_per_word` is the largest `k` with `10^k < 2^W` (so `dpw = 19` for `W = 64`);
    head and tail never overlap (`2·dpw <` number of digits) -/
theorem debug_head_tail_true_digits (W : Nat) (hW : 8 ≤ W) (hev : 2 ∣ W) (z : Int)
    (hbig : 2 ^ (2 * W) ≤ z.natAbs) :
    let ds := printSpec 10 false z.natAbs
    let dpw := (radixInfo W 10).dpw
    debugSpec W false false z = (if z < 0 then [45] else []) ++ ds.take dpw ++ [46, 46] ++ ds.drop (ds.length - dpw) ∧
    10 ^ dpw < 2 ^ W ∧ 2 ^ W ≤ 10 ^ (dpw + 1) ∧ 2 * dpw < ds.length := by
  intro ds dpw
  have h256 : (2 : Nat) ^ 8 ≤ 2 ^ W := Nat.pow_le_pow_right (by omega) hW
  have h10W : 10 < 2 ^ W := by omega
  have ht := maxExpInWord_spec W 10 (by omega) h10W
  have hpow : (radixInfo W 10).rpw = 10 ^ dpw := ht.1
  have hlt : (radixInfo W 10).rpw < 2 ^ W := ht.2.1
  have hmax : 2 ^ W ≤ (radixInfo W 10).rpw * 10 := ht.2.2.2 hev
  refine ⟨?_, by rw [← hpow]; exact hlt, by rw [pow_succ, ← hpow]; exact hmax, ?_⟩
  · have hn : ¬ z.natAbs < 2 ^ (2 * W) := by omega
    simp only [debugSpec, hn, if_false, Bool.false_eq_true, List.append_nil, List.append_assoc, ds, dpw]
  · -- number of digits: the `exp` of the heap arm has `2·dpw ≤ exp`, and there are `exp + 1` digits
    have hds : ds.length = (digits 10 z.natAbs).length := by simp [ds, printSpec]
    have hW1 : 1 ≤ W := by omega
    have hn0 : z.natAbs ≠ 0 := by have := Nat.two_pow_pos (2 * W); omega
    have hv := val_wordsOf W z.natAbs hW1
    have h16 : (2 : Nat) ^ 16 ≤ 2 ^ (2 * W) := Nat.pow_le_pow_right (by omega) (by omega)
    obtain ⟨e, he1, he2, he3, _⟩ := doubleEndLarge_eq W 1 hW hev (wordsOf W z.natAbs)
      (isWords_wordsOf W _ hW1) (norm_wordsOf W _ hW1 hn0).1 (by rw [hv]; exact hbig) (by rw [hv]; omega)
    rw [hv] at he1 he2
    have hl := (digits_head_tail z.natAbs e 0 (by omega) he1 he2).1
    rw [hds, hl]
    omega

-- non-vacuity
example : (8 : Nat) ≤ 64 ∧ (2 : Nat) ∣ 64 ∧ (radixInfo 64 10).dpw = 19 := by decide
example := debug_head_tail_on_words 64 1 (by decide) (by decide) [5, 7, 9] (by decide) (by unfold Norm; simp)
  (by decide) (by decide)
example := debug_text 64 38 (by decide) (by decide) true true (-(10 ^ 38 + 7)) (fun _ => by decide)
example := debug_text_est_one 64 (by decide) (by decide) true false (10 ^ 1233 - 1)
example := debug_head_tail_true_digits 64 (by decide) (by decide) (-(2 ^ 128)) (by decide)
example := debug_head_tail_true_digits 32 (by decide) (by decide) (10 ^ 100 + 1) (by decide)

end Dashu.Props.C07Debug
