import Dashu.Props.C20
import Dashu.Proofs.Macro.ReprNewBridge
/-
  C20 ↔ C19 link (round 8): `Repr::new(significand, exponent)` — called by the heap / static expansion
  of `fbig!` / `dbig!` (`FBig::from_repr(Repr::new(..), Context::new(prec))`) — was modelled in
  Props/C20 by its VALUE (`Serde.fnew`: multiplicity of the base in `|significand|`, `none` when the
  normalised exponent leaves `isize`).  C19 / C03 own the mirror of the function itself
  (`Model/Float/Repr.lean` `FRepr.new` = `.normalize()`: the fuelled strip loop on the signed
  significand; kernels `FRepr.new_value`, `FRepr.new_normalized`), the one the run-time parser model
  `parseF` already calls.  By import: the value-level function of the C20 model IS the mirrored code
  followed by the `isize` test, and on the parts of every accepted float literal the mirrored
  `Repr::new` of the expansion returns the parsed representation unchanged.
-/
namespace Dashu.Props.C20Link
open Dashu.Model.Serde Dashu.Model.Macro Dashu.Model.Float

/-- `Repr::new` as the C20 model uses it = C19's mirror of `normalize` + the `isize` test on the
    normalised exponent: every base ≥ 2, every significand, every exponent -/
theorem repr_new_is_mirrored_normalize (B : Nat) (hB : 2 ≤ B) (s e : Int) :
    fnew B s e =
      if inIsize (FRepr.new B s e).exp then some ⟨(FRepr.new B s e).signif, (FRepr.new B s e).exp⟩
      else none :=
  fnew_eq_mirror B hB s e

/-- whenever the value-level `Repr::new` returns, the mirror returns the same representation and
    its exponent is an `isize` (no overflow arm of the real code is reached) -/
theorem repr_new_value_is_mirror (B : Nat) (hB : 2 ≤ B) (s e : Int) (v : FVal) (h : fnew B s e = some v) :
    FRepr.new B s e = ⟨v.signif, v.exp⟩ ∧ inIsize v.exp :=
  ⟨mirror_of_fnew B hB s e v h, (fnew_canon B hB s e v h).2.2⟩

/-- **heap / static expansion of the float macros at the level of the mirrored constructor**: on the
    significand and exponent of EVERY accepted `fbig!` / `dbig!` literal, C19's mirror of
    `Repr::new(significand, exponent)` returns exactly the parsed representation (nothing left to
    strip, zero already `0·B^0`), its exponent is an `isize`, and the digit count of that representation
    (C19's `FRepr.digits`) is within the literal's precision (`FBig::from_repr`'s debug_assert) -/
theorem float_expansion_repr_fixed_mirror (binary : Bool) (toks : List Tok) (v : FPVal)
    (h : floatLiteral binary toks = some v) :
    FRepr.new (if binary then 2 else 10) v.signif v.exp = ⟨v.signif, v.exp⟩ ∧ inIsize v.exp ∧
    (FRepr.mk v.signif v.exp).digits (if binary then 2 else 10) ≤ v.prec := by
  have hB : 2 ≤ (if binary = true then 2 else 10) := by split <;> omega
  have h1 := Dashu.Props.C20.float_expansion_repr_fixed binary toks v h
  obtain ⟨a, b⟩ := repr_new_value_is_mirror _ hB v.signif v.exp _ h1
  exact ⟨a, b, Dashu.Props.C20.float_literal_digits_le_precision binary toks v h⟩

-- non-vacuity: the mirror strips (1200·10^-2 → 12·10^0; −0x1200·2^0 → −9·2^9), the guard arm exists
-- (exponent one step beyond isize::MAX → none), and an accepted literal (`fbig!(0x1_8p3)`, `dbig!(1.50e2)`)
example : fnew 10 1200 (-2) = some ⟨12, 0⟩ ∧ FRepr.new 10 1200 (-2) = ⟨12, 0⟩ ∧
    fnew 2 (-0x1200) 0 = some ⟨-9, 9⟩ ∧ FRepr.new 2 (-0x1200) 0 = ⟨-9, 9⟩ ∧
    fnew 10 10 (2 ^ 63 - 1) = none ∧ FRepr.new 10 10 (2 ^ 63 - 1) = ⟨1, 2 ^ 63⟩ := by
  refine ⟨?_, ?_, ?_, ?_, ?_, ?_⟩ <;> decide +kernel

example : floatLiteral true [.lit [48, 120, 49, 95, 56, 112, 51]] = some ⟨3, 6, 8⟩ ∧
    FRepr.new 2 3 6 = ⟨3, 6⟩ := by
  refine ⟨?_, ?_⟩ <;> decide +kernel

end Dashu.Props.C20Link
