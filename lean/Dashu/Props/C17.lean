import Dashu.Proofs.Mem.Pool
import Dashu.Proofs.Mem.Memory
import Dashu.Proofs.Mem.Slice
import Dashu.Proofs.Mem.Arith
import Dashu.Proofs.Mem.Layout
import Dashu.Proofs.Mem.PowLen
import Dashu.Model.Mem.Arith2
import Dashu.Model.Mem.Arith3
import Dashu.Proofs.Mem.Arith4
import Dashu.Proofs.Mem.Arith5
import Dashu.Proofs.Mem.DivPanic
import Dashu.Proofs.Mem.AddSubPanic
import Dashu.Gen.Scratch
/-
  C17 — The hand-managed integer storage is memory-safe and keeps its invariants  (PARTIAL).

  Model: `Dashu/Model/Mem/{Ledger,Buffer,Repr,Pool,Memory}.lean` — `integer/src/buffer.rs` and the
  storage part of `integer/src/repr.rs` as computations that emit allocator / raw-pointer events
  (`alloc/realloc/free/read/write` with ids, capacities and indices in words); an independent
  executable checker `replay` judges a trace against a ledger `id ↦ capacity`.  Histories are lists of
  `Op` over a register pool; `run` executes them.  All theorems quantify over ALL histories (induction
  over the list; no bound on length, register numbers, word values or sizes), all `MAX_CAPACITY = mx`,
  and all word sizes `W > 0` where `W` matters (`Repr::ones`).

  Round 2 additions: static-backed values (`from_static_words`) as a read-only register kind,
  `into_sign_typed`, the `&UBig ↔ &IBig` transmutes, the `unsafe` blocks of shift.rs / primitive.rs, and
  the public `UBig` operations `+ - * << >>` (all ownership forms) as histories over the same op
  alphabet (`Model/Mem/Arith.lean`), so that the representation invariant after arithmetic is a theorem.

  Round 3: `zeroize` paths (buffer.rs:438, repr.rs:253), div/rem with the divide-and-conquer scratch block,
  `sqr()`, `from_le/be_bytes`, IBig `+ - *` sign glue; model follows fixes 52b4fc5/ada6bea (`AllocTooMuch` for
  requests beyond MAX_CAPACITY in `allocate`/`reallocate`); the policy chain is proved from the regenerated text
  without assuming a closed form; a `NonVacuity` section instantiates every hypothesis on concrete values.
  NB the `file:line` in theorem names (`unsafe_buffer_rs_209`, …) are those of the pinned snapshot ab05307; the
  fix commits have since shifted buffer.rs by up to ten lines (209 → 219, 235 → 245, …).

  What "partial" means here (DESIGN §8 C17): the theorems decide the ledger facts (bounds, lifetime,
  double free, leak) and the representation invariant.  Rust-level UB that is not a ledger fact
  (aliasing/provenance, validity of `transmute`, alignment, uninitialised reads of `[len, cap)`,
  `from_static_words` values being dropped) is outside this model; Miri runs of the same histories
  are supporting evidence only.  Allocation failure (null from the allocator) is not modelled.

  Round 4: storage skeletons of `DivRem::div_rem`, `& | ^`, `UBig::pow` (`Model/Mem/Arith2.lean`, compared with the real
  allocator event stream on every run); memory.rs `array_layout / add_layout / max_layout / MemoryAllocation::new / Drop`
  size-and-alignment arithmetic (`Model/Mem/Layout.lean`): validity closure, dead `allocate_too_much` arm, `GlobalAlloc`
  contract, and sufficiency of `add_layout` for the two bump requests that consume it.
-/
namespace Dashu.Props.C17
open Dashu.Model Dashu.Model.Mem

-- ============================================================== what "safe" means, spelled out

/-- an event is memory-safe against the ledger at the moment it happens -/
def EventSafe (L : Ledger) : Event → Prop
  | .alloc id cap => L id = none ∧ 0 < cap
  | .realloc id old new => L id = some old ∧ 0 < new
  | .free id cap => L id = some cap
  | .read id i => ∃ c, L id = some c ∧ i < c
  | .write id i => ∃ c, L id = some c ∧ i < c

theorem stepEv_safe {L L' : Ledger} {e : Event} (h : stepEv L e = some L') : EventSafe L e := by
  cases e with
  | alloc id c =>
    simp only [stepEv] at h
    split at h
    · rename_i hc; exact hc
    · cases h
  | realloc id o nw =>
    simp only [stepEv] at h
    split at h
    · rename_i hc; exact hc
    · cases h
  | free id c =>
    simp only [stepEv] at h
    split at h
    · rename_i hc; exact hc
    · cases h
  | read id i =>
    simp only [stepEv] at h
    split at h
    · rename_i c hc; split at h
      · exact ⟨c, hc, ‹_›⟩
      · cases h
    · cases h
  | write id i =>
    simp only [stepEv] at h
    split at h
    · rename_i c hc; split at h
      · exact ⟨c, hc, ‹_›⟩
      · cases h
    · cases h

/-- the checker accepts a trace only if EVERY event is safe against the ledger state reached by the
    events before it: reads/writes hit a live id below its capacity; free/realloc name a live id with
    its current capacity (no double free, no realloc-after-free); allocations are non-empty and fresh -/
theorem replay_every_event_safe {es : List Event} {L L' : Ledger} (h : replay L es = some L')
    (pre : List Event) (e : Event) (post : List Event) (hs : es = pre ++ e :: post) :
    ∃ Lp, replay L pre = some Lp ∧ EventSafe Lp e := by
  subst hs
  rw [replay_append] at h
  cases hp : replay L pre with
  | none => rw [hp] at h; cases h
  | some Lp =>
    rw [hp] at h
    refine ⟨Lp, rfl, ?_⟩
    simp only [Option.bind, replay] at h
    cases hs : stepEv Lp e with
    | none => rw [hs] at h; cases h
    | some L1 => exact stepEv_safe hs

-- ============================================================== (a) invariant, all histories

/-- (a)+(b) for a history started in ANY state satisfying the invariant: every event emitted — also
    when the history ends in a panic — is safe, no `transmute`/inline-copy UB point is reached, and
    if the history completes the invariant holds again:
    every buffer has `len ≤ cap`, `0 < cap ≤ MAX_CAPACITY`; every `Repr` is canonical (inline ⇔ ≤ 2
    words, heap ⇒ ≥ 3 words, top word ≠ 0, `cap ≤ max_compact_capacity(len)`, zero not negative);
    owned ids are live with exactly the stored capacity, pairwise distinct, and cover the ledger. -/
theorem history_keeps_invariant {W mx : Nat} (hW : 0 < W) (ops : List Op)
    (hok : ∀ op ∈ ops, op.Ok mx) {P : Pool} {L : Ledger} {n : Nat} (hI : Inv mx P L)
    (hB : L.Below n) :
    ∃ L', replay L (run W mx ops P n).evs = some L' ∧
      (∀ s, (run W mx ops P n).res ≠ .error (.ub s)) ∧
      ∀ P', (run W mx ops P n).res = .ok P' → Inv mx P' L' := by
  obtain ⟨L', hr, _, _, hub, hq⟩ := run_sat hW ops hok hI hB
  exact ⟨L', hr, hub, fun P' hP => (hq P' hP).1⟩

-- ============================================================== (b) safety, from the empty state

/-- (b) SAFETY: in every history from the empty pool, every `read/write (id, i)` has `id` live at that
    moment and `i < cap(id)`; every `free/realloc` names a live id with its current capacity; this
    includes the events emitted before a panicking `assert!` -/
theorem history_safe {W mx : Nat} (hW : 0 < W) (ops : List Op) (hok : ∀ op ∈ ops, op.Ok mx)
    (pre : List Event) (e : Event) (post : List Event)
    (hs : (exec W mx ops).evs = pre ++ e :: post) :
    ∃ Lp, replay Ledger.empty pre = some Lp ∧ EventSafe Lp e := by
  obtain ⟨L', hr, _, _⟩ := history_keeps_invariant hW ops hok (Inv.empty mx)
    (n := 0) (fun _ _ => rfl)
  exact replay_every_event_safe hr pre e post hs

/-- (b') no history reaches a point where the real code would continue into UB that is not a ledger
    event (a `Buffer → Repr` transmute with capacity ≤ 2, `copy_nonoverlapping` through inline data) -/
theorem history_no_ub {W mx : Nat} (hW : 0 < W) (ops : List Op) (hok : ∀ op ∈ ops, op.Ok mx)
    (s : String) : (exec W mx ops).res ≠ .error (.ub s) := by
  obtain ⟨_, _, hub, _⟩ := history_keeps_invariant hW ops hok (Inv.empty mx)
    (n := 0) (fun _ _ => rfl)
  exact hub s

-- ============================================================== (c) no leak

/-- (c) NO LEAK: after any history over registers `< R`, dropping every register leaves no live
    allocation — and the whole trace, drops included, is safe (so nothing was freed twice) -/
theorem no_leak {W mx : Nat} (hW : 0 < W) (R : Nat) (ops : List Op) (hok : ∀ op ∈ ops, op.Ok mx)
    (hR : ∀ op ∈ ops, op.target < R) :
    ∃ L', replay Ledger.empty (exec W mx (ops ++ dropAll R)).evs = some L' ∧
      ∀ P', (exec W mx (ops ++ dropAll R)).res = .ok P' → (∀ k, P' k = .empty) ∧ ∀ id, L' id = none := by
  have hsat : Sat Ledger.empty 0 (run W mx (ops ++ dropAll R) Pool.empty)
      (fun P' L' _ => (∀ k, P' k = .empty) ∧ ∀ id, L' id = none) := by
    rw [run_append]
    apply Sat.bind
    apply Sat.conseq (run_sat hW ops hok (Inv.empty mx))
    intro P1 L1 n1 _ ⟨hI1, hfr1⟩
    apply Sat.conseq (dropList_sat (List.range R) hI1)
    intro P2 L2 n2 _ ⟨hI2, he2, hfr2⟩
    have hall : ∀ k, P2 k = .empty := by
      intro k
      by_cases hk : k < R
      · exact he2 k (List.mem_range.mpr hk)
      · rw [hfr2 k (fun h => hk (List.mem_range.mp h))]
        rw [hfr1 k (fun op hop e => hk (e ▸ hR op hop))]
        rfl
    refine ⟨hall, ?_⟩
    intro id
    cases hl : L2 id with
    | none => rfl
    | some c =>
      obtain ⟨k, hk⟩ := hI2.cov id c hl
      rw [hall k] at hk; cases hk
  obtain ⟨L', hr, _, _, _, hq⟩ := hsat (fun _ _ => rfl)
  exact ⟨L', hr, hq⟩

/-- (c') the hypothesis of `no_leak` is not vacuous: whenever the history itself completes, the
    drop-everything suffix completes too (`Drop` has no panic branch) -/
theorem no_leak_total {W mx : Nat} (R : Nat) (ops : List Op) {P1 : Pool}
    (h : (exec W mx ops).res = .ok P1) : ∃ P', (exec W mx (ops ++ dropAll R)).res = .ok P' :=
  run_append_drop_ok W mx ops (List.range R) Pool.empty 0 h

-- ============================================================== (d) from_buffer, clone_from

/-- unwrap a `Sat` triple -/
theorem Sat.elim {α : Type} {L : Ledger} {n : Nat} {m : M α} {Q : α → Ledger → Nat → Prop}
    (h : Sat L n m Q) (hB : L.Below n) :
    ∃ L', replay L (m n).evs = some L' ∧ (∀ s, (m n).res ≠ .error (.ub s)) ∧
      ∀ a, (m n).res = .ok a → Q a L' (m n).next := by
  obtain ⟨L', hr, _, _, hub, hq⟩ := h hB
  exact ⟨L', hr, hub, hq⟩

/-- (d1) `Repr::from_buffer` of ANY live buffer (any contents, any capacity ≤ MAX): safe trace; the
    result is canonical incl. `cap ≤ max_compact_capacity(len)`, positive, has the same words up to
    the trimmed high zero words; the buffer's allocation is either handed over or freed -/
theorem from_buffer_canonical {mx : Nat} {L : Ledger} {n : Nat} {b : Buf} (hB : L.Below n)
    (hL : L b.id = some b.cap) (hw : b.Wf mx) :
    ∃ L', replay L (Rep.fromBuffer mx b n).evs = some L' ∧
      (∀ s, (Rep.fromBuffer mx b n).res ≠ .error (.ub s)) ∧
      ∀ r, (Rep.fromBuffer mx b n).res = .ok r →
        Moves L L' n b.own r.own ∧ r.Canon mx ∧ r.isNeg = false ∧
        ∃ t, b.ws = r.words ++ t ∧ ∀ x ∈ t, x = 0 :=
  Sat.elim (fromBuffer_sat hL hw) hB

/-- (d2) `Clone::clone_from` between ALL size relations (inline←inline, inline←heap, heap←inline,
    heap←heap with reuse / too small / too large): safe trace; the result equals `src` (words and
    sign), is canonical, owns an allocation different from `src`'s (independence), and `src` is
    untouched (still live with its capacity) -/
theorem clone_from_correct {mx : Nat} {L : Ledger} {n : Nat} {self src : Rep} (hB : L.Below n)
    (hcs : self.Canon mx) (hcr : src.Canon mx) (hLs : self.Live L) (hLr : src.Live L)
    (hne : ∀ i c i' c', self.own = some (i, c) → src.own = some (i', c') → i ≠ i') :
    ∃ L', replay L (Rep.cloneFrom mx self src n).evs = some L' ∧
      (∀ s, (Rep.cloneFrom mx self src n).res ≠ .error (.ub s)) ∧
      ∀ r', (Rep.cloneFrom mx self src n).res = .ok r' →
        r'.words = src.words ∧ r'.isNeg = src.isNeg ∧ r'.Canon mx ∧ r'.Live L' ∧ src.Live L' ∧
        (∀ i c, r'.own = some (i, c) → ∀ c', src.own ≠ some (i, c')) := by
  obtain ⟨L', hr, hub, hq⟩ := Sat.elim (repCloneFrom_sat hcs hcr hLs hLr hne) hB
  refine ⟨L', hr, hub, ?_⟩
  intro r' hres
  obtain ⟨hm, hc, hw, hs, hind⟩ := hq r' hres
  refine ⟨hw, hs, hc, ?_, ?_, hind⟩
  · intro i c ho; exact hm.new_live i c ho
  · intro i c ho
    apply hm.other hB (hLr i c ho)
    intro c0 hc0
    exact hne i c0 i c hc0 ho rfl

/-- `Clone::clone`: fresh allocation, equal value, canonical -/
theorem clone_correct {mx : Nat} {L : Ledger} {n : Nat} {r : Rep} (hB : L.Below n)
    (hc : r.Canon mx) (hL : r.Live L) :
    ∃ L', replay L (Rep.clone mx r n).evs = some L' ∧
      (∀ s, (Rep.clone mx r n).res ≠ .error (.ub s)) ∧
      ∀ r', (Rep.clone mx r n).res = .ok r' →
        r'.words = r.words ∧ r'.isNeg = r.isNeg ∧ r'.Canon mx ∧ Moves L L' n none r'.own := by
  obtain ⟨L', hr, hub, hq⟩ := Sat.elim (repClone_sat hc hL) hB
  exact ⟨L', hr, hub, fun r' hres => by
    obtain ⟨hm, hc', hw, hs⟩ := hq r' hres
    exact ⟨hw, hs, hc', hm⟩⟩

/-- `Repr::ones(n)` (code after fix 283f2ad) is canonical for every `n` and every word size -/
theorem ones_canonical {W mx : Nat} (hW : 0 < W) (k : Nat) {L : Ledger} {n : Nat} (hB : L.Below n) :
    ∃ L', replay L (Rep.ones W mx k n).evs = some L' ∧
      (∀ s, (Rep.ones W mx k n).res ≠ .error (.ub s)) ∧
      ∀ r, (Rep.ones W mx k n).res = .ok r → r.Canon mx ∧ r.isNeg = false :=
  let ⟨L', hr, hub, hq⟩ := Sat.elim (ones_sat (k := k) hW) hB
  ⟨L', hr, hub, fun r hres => (hq r hres).2⟩

/-- `with_sign` / `neg` never make zero negative and keep canonical form -/
theorem with_sign_canonical {mx : Nat} {r : Rep} (h : r.Canon mx) (s : Bool) :
    (r.withSign s).Canon mx ∧ (r.negate).Canon mx ∧ (r.isZero = true → (r.withSign s).isNeg = r.isNeg) := by
  refine ⟨Rep.canon_withSign h s, Rep.canon_negate h, ?_⟩
  intro hz; rw [Rep.isNeg_withSign, hz]; rfl

-- ============================================================== (e) capacity policy (generated text)

/-- (e) `n ≤ default_capacity(n) ≤ max_compact_capacity(n) ≤ MAX_CAPACITY` for `n ≤ MAX_CAPACITY`;
    the two functions are `Dashu.Gen.default_capacity/max_compact_capacity`, regenerated from
    integer/src/buffer.rs on every run -/
theorem capacity_policy (mx n : Nat) (h : n ≤ mx) :
    n ≤ defaultCapacity mx n ∧ defaultCapacity mx n ≤ maxCompactCapacity mx n ∧
    maxCompactCapacity mx n ≤ mx :=
  policy_chain mx n h

-- ============================================================== hypotheses are needed / non-vacuity

/-- `Op.Ok` is needed: `ensure_capacity_exact(c)` has no `MAX_CAPACITY` check, so with `c > MAX` (and
    an allocator that succeeds) the buffer's capacity exceeds `MAX_CAPACITY`.  Not reachable through
    the public API: the only caller (modular/convert.rs:94) passes the length of an existing buffer. -/
theorem ensure_capacity_exact_breaks_max (mx : Nat) (h : 3 ≤ mx) (n : Nat) :
    (ensureCapacityExact ⟨0, 3, []⟩ (mx + 1) n).res = .ok ⟨0, mx + 1, []⟩ ∧ ¬ Buf.Wf mx ⟨0, mx + 1, []⟩ := by
  constructor
  · have h1 : mx + 1 > 3 ∧ mx + 1 > 2 := by omega
    have h2 : 0 < mx + 1 ∧ (⟨0, 3, []⟩ : Buf).len ≤ mx + 1 := ⟨by omega, Nat.zero_le _⟩
    simp only [ensureCapacityExact, h1, reallocateRaw, h2]
    rfl
  · intro hw; have := hw.2.2; simp only at this; omega

/-- the defect of the pinned snapshot (`n < DWORD_BITS`): `ones(2·W)` is a 2-word HEAP value, which is
    not canonical — the representation invariant catches it (W = 64) -/
theorem ones_prefix_not_canonical :
    (Rep.onesPreFix 64 ((2 ^ 64 - 1) / 64) 128 0).res.toOption =
      some (.heap 0 5 [2 ^ 64 - 1, 2 ^ 64 - 1] false) ∧
    ¬ (Rep.heap 0 5 [2 ^ 64 - 1, 2 ^ 64 - 1] false).Canon ((2 ^ 64 - 1) / 64) := by
  constructor
  · decide +kernel
  · intro h; have := h.1; simp at this

/-- non-vacuity: a concrete history crossing the inline/heap boundary in both directions, with a
    `clone_from` into a too-small, a reusable and a too-large buffer, satisfies every hypothesis, runs
    to completion and ends with an empty ledger -/
def demoHistory : List Op :=
  [.fromWords 0 [1, 2, 3, 4, 0, 0], .fromBuffer 0,            -- heap, 4 words
   .fromWord 1 7, .repCloneFrom 1 0,                          -- inline ← heap (too small)
   .fromWords 2 [5, 6, 7], .fromBuffer 2, .repCloneFrom 2 0,  -- heap ← heap (reuse)
   .allocate 3 100, .pushSlice 3 [1, 1, 1], .fromBuffer 3,
   .repClone 4 3, .neg 4, .repCloneFrom 0 4, .fromDword 5 1 1, .repCloneFrom 3 5,  -- heap ← inline
   .intoBuffer 2, .pushZerosFront 2 1, .eraseFront 2 2, .popZeros 2, .fromBuffer 2]

example : ∀ op ∈ demoHistory, op.Ok 1000 := by
  intro op hop; cases op <;> first | trivial | (simp [demoHistory] at hop)
example : ∀ op ∈ demoHistory, op.target < 8 := by decide
example : (exec 64 1000 (demoHistory ++ dropAll 8)).res.toBool = true := by decide +kernel
example : (replay Ledger.empty (exec 64 1000 (demoHistory ++ dropAll 8)).evs).isSome = true := by
  decide +kernel

-- ============================================================== one obligation per `unsafe` block

section Obligations
variable {L : Ledger} {n mx : Nat}

/-- buffer.rs:97 `alloc(layout)`: non-zero size, fresh id -/
theorem unsafe_buffer_rs_97 {c : Nat} : Sat L n (allocateRaw mx c)
    (fun id L' n' => id = n ∧ n' = n + 1 ∧ L' = L.set n (some c) ∧ 0 < c ∧ c ≤ mx) := allocateRaw_sat
/-- buffer.rs:111 (`unsafe fn deallocate_raw`) + buffer.rs:470 `Drop` -/
theorem unsafe_buffer_rs_111_470 {b : Buf} (hL : L b.id = some b.cap) :
    Sat L n (dropBuf b) (fun _ L' _ => Moves L L' n b.own none) := dropBuf_sat hL
/-- buffer.rs:148 `realloc` -/
theorem unsafe_buffer_rs_148 {b : Buf} {c : Nat} (hL : L b.id = some b.cap) :
    Sat L n (reallocateRaw b c)
      (fun b' L' _ => Moves L L' n b.own b'.own ∧ b' = { b with cap := c } ∧ 0 < c ∧ b.len ≤ c) :=
  reallocateRaw_sat hL
/-- buffer.rs:209 `push` -/
theorem unsafe_buffer_rs_209 {b : Buf} {w : Nat} (hL : L b.id = some b.cap) (hw : b.Wf mx) :
    Sat L n (push b w) (BPost mx L n b (fun b' => b'.id = b.id ∧ b'.cap = b.cap ∧ b'.ws = b.ws ++ [w])) :=
  push_sat hL hw
/-- buffer.rs:235 `push_repeat` -/
theorem unsafe_buffer_rs_235 {b : Buf} {elem k : Nat} (hL : L b.id = some b.cap) (hw : b.Wf mx) :
    Sat L n (pushRepeat b elem k)
      (BPost mx L n b (fun b' => b'.id = b.id ∧ b'.cap = b.cap ∧ b'.ws = b.ws ++ List.replicate k elem)) :=
  pushRepeat_sat hL hw
/-- buffer.rs:266 `push_zeros_front` -/
theorem unsafe_buffer_rs_266 {b : Buf} {k : Nat} (hL : L b.id = some b.cap) (hw : b.Wf mx) :
    Sat L n (pushZerosFront b k)
      (BPost mx L n b (fun b' => b'.id = b.id ∧ b'.cap = b.cap ∧ b'.ws = List.replicate k 0 ++ b.ws)) :=
  pushZerosFront_sat hL hw
/-- buffer.rs:293 `push_slice` -/
theorem unsafe_buffer_rs_293 {b : Buf} {src : Option Nat} {ws : List Nat} (hL : L b.id = some b.cap)
    (hw : b.Wf mx) (hs : SrcOk L src ws.length) :
    Sat L n (pushSlice b src ws)
      (BPost mx L n b (fun b' => b'.id = b.id ∧ b'.cap = b.cap ∧ b'.ws = b.ws ++ ws)) :=
  pushSlice_sat hL hw hs
/-- buffer.rs:307 `pop_zeros` -/
theorem unsafe_buffer_rs_307 {b : Buf} (hL : L b.id = some b.cap) (hw : b.Wf mx) :
    Sat L n (popZeros b)
      (BPost mx L n b (fun b' => b'.id = b.id ∧ b'.cap = b.cap ∧ b'.ws.getLast? ≠ some 0 ∧
        ∃ t, b.ws = b'.ws ++ t ∧ ∀ x ∈ t, x = 0)) := popZeros_sat hL hw
/-- buffer.rs:341 `erase_front` -/
theorem unsafe_buffer_rs_341 {b : Buf} {k : Nat} (hL : L b.id = some b.cap) (hw : b.Wf mx) :
    Sat L n (eraseFront b k) (BPost mx L n b (fun b' => b'.id = b.id ∧ b'.cap = b.cap ∧ b'.ws = b.ws.drop k)) :=
  eraseFront_sat hL hw
/-- buffer.rs:358 `lowest_dword` -/
theorem unsafe_buffer_rs_358 {b : Buf} (hL : L b.id = some b.cap) (hw : b.Wf mx) :
    Sat L n (lowestDword b) (fun _ L' _ => L' = L) := lowestDword_sat hL hw
/-- buffer.rs:376 `lowest_dword_mut` -/
theorem unsafe_buffer_rs_376 {b : Buf} {lo hi : Nat} (hL : L b.id = some b.cap) (hw : b.Wf mx) :
    Sat L n (lowestDwordMut b lo hi) (BPost mx L n b (fun b' => b'.id = b.id ∧ b'.cap = b.cap)) :=
  lowestDwordMut_sat hL hw
/-- buffer.rs:391 `clone_from_slice` -/
theorem unsafe_buffer_rs_391 {b : Buf} {src : Option Nat} {ws : List Nat} (hL : L b.id = some b.cap)
    (hw : b.Wf mx) (hs : SrcOk L src ws.length) :
    Sat L n (cloneFromSlice mx b src ws) (BPost mx L n b (fun b' => b'.ws = ws)) :=
  cloneFromSlice_sat hL hw hs
/-- buffer.rs:408 `into_boxed_slice` -/
theorem unsafe_buffer_rs_408 {b : Buf} (hL : L b.id = some b.cap) :
    Sat L n (intoBoxedSlice b) (fun r L' _ =>
      match r with
      | none => Moves L L' n b.own none
      | some bx => Moves L L' n b.own bx.own ∧ bx.id = b.id) := intoBoxedSlice_sat hL
/-- buffer.rs:440 `Clone::clone` -/
theorem unsafe_buffer_rs_440 {b : Buf} (hL : L b.id = some b.cap) (hw : b.Wf mx) :
    Sat L n (cloneBuf mx b)
      (CPost mx L n (fun nb => nb.ws = b.ws ∧ nb.cap = defaultCapacity mx b.len ∧ b.len ≤ mx)) :=
  cloneBuf_sat hL hw
/-- buffer.rs:456 `Clone::clone_from` -/
theorem unsafe_buffer_rs_456 {b src : Buf} (hL : L b.id = some b.cap) (hw : b.Wf mx)
    (hLs : L src.id = some src.cap) (hws : src.Wf mx) (hne : src.id ≠ b.id) :
    Sat L n (cloneFromBuf mx b src)
      (BPost mx L n b (fun b' => b'.ws = src.ws ∧ b'.cap ≤ maxCompactCapacity mx src.len)) :=
  cloneFromBuf_sat hL hw hLs hws hne
/-- buffer.rs:482, 490 `Deref`/`DerefMut` -/
theorem unsafe_buffer_rs_482_490 {b : Buf} (hL : L b.id = some b.cap) (hw : b.Wf mx) :
    Sat L n (deref b) (fun ws L' _ => L' = L ∧ ws = b.ws) := deref_sat hL hw
/-- repr.rs:333 (`from_buffer` transmute), 433 (`ones`), 487 (`clone`): capacity ≥ 3 at the transmute -/
theorem unsafe_repr_rs_333_433_487 {site : String} {b : Buf} (h : 3 ≤ b.cap) :
    Sat L n (Rep.ofBuf site b) (fun r L' n' => L' = L ∧ n' = n ∧ r = .heap b.id b.cap b.ws false) :=
  ofBuf_sat h
/-- repr.rs:356 `into_buffer` (incl. transmute repr.rs:376) -/
theorem unsafe_repr_rs_356 {r : Rep} (hc : r.Canon mx) (hL : r.Live L) :
    Sat L n (Rep.intoBuffer mx r) (fun b L' _ => Moves L L' n r.own b.own ∧ b.Wf mx ∧ b.ws = r.words) :=
  intoBuffer_sat hc hL
/-- repr.rs:191 `into_typed` (incl. transmute repr.rs:198) -/
theorem unsafe_repr_rs_191 {r : Rep} (hc : r.Canon mx) (hL : r.Live L) :
    Sat L n (Rep.intoTyped r) (fun t L' _ =>
      L' = L ∧ t.own = r.own ∧
      match t with
      | .small lo hi => r.words = (Rep.fromDword lo hi).words
      | .large b => b.Wf mx ∧ b.ws = r.words) := intoTyped_sat hc hL
/-- repr.rs:164, 231 `as_sign_typed` / `as_sign_slice` -/
theorem unsafe_repr_rs_164_231 {r : Rep} (hc : r.Canon mx) (hL : r.Live L) :
    Sat L n (Rep.asSlice r) (fun ws L' _ => L' = L ∧ ws = r.words) := asSlice_sat hc hL
/-- repr.rs:547 `Drop` -/
theorem unsafe_repr_rs_547 {r : Rep} (hL : r.Live L) :
    Sat L n (Rep.drop r) (fun _ L' _ => Moves L L' n r.own none) := repDrop_sat hL
/-- repr.rs:504, 519 `deallocate_raw` inside `clone_from` -/
theorem unsafe_repr_rs_504_519 {self : Rep} (hLs : self.Live L) :
    Sat L n (Rep.releaseOld self) (fun _ L1 n1 => Moves L L1 n self.own none ∧ n1 = n) :=
  releaseOld_sat hLs
/-- repr.rs:136, 441, 270, 281 `NonZeroIsize::new_unchecked`: the capacity code is never 0 -/
theorem unsafe_repr_rs_new_unchecked (r : Rep) (h : r.Canon mx) (s : Bool) :
    0 < (r.withSign s).capacity ∧ 0 < r.negate.capacity ∧
    ∀ w lo hi, 0 < (Rep.fromWord w).capacity ∧ 0 < (Rep.fromDword lo hi).capacity := by
  have hc : ∀ r : Rep, r.Canon mx → 0 < r.capacity := by
    intro r hr
    cases r with
    | inline lo hi code neg => rcases hr.1 with ⟨h1, _⟩ | ⟨h1, _⟩ <;> simp [Rep.capacity, h1]
    | heap id cap ws neg => have := hr.1; have := hr.2.2.1; simp only [Rep.capacity]; omega
  exact ⟨hc _ (Rep.canon_withSign h s), hc _ (Rep.canon_negate h),
    fun w lo hi => ⟨hc _ (Rep.canon_fromWord w), hc _ (Rep.canon_fromDword lo hi)⟩⟩

end Obligations

-- ============================================================== memory.rs bump allocator

/-- memory.rs:155 / 165 — a slice handed out by `Memory::allocate_slice_*` is aligned, inside the
    chunk, and the remaining `Memory` starts at its end -/
theorem bump_slice_inside {usz : Nat} {m : Bump.Chunk} {r : Bump.Req} {s e : Nat} (ha : 0 < r.align)
    (h : Bump.tryFind usz m r = some (s, e)) :
    m.start ≤ s ∧ s % r.align = 0 ∧ e = s + r.n * r.size ∧ e ≤ m.stop ∧ e ≤ usz :=
  Bump.tryFind_spec ha h

/-- memory.rs:86, 104, 129, 135 — every element write `ptr.add(i).write(v)` lies inside the slice -/
theorem bump_writes_inside {usz : Nat} {m : Bump.Chunk} {r : Bump.Req} {sl : Nat × Nat} {wr : List Nat}
    {rest : Bump.Chunk} (ha : 0 < r.align) (h : Bump.allocateSlice usz m r = some (sl, wr, rest)) :
    ∀ off ∈ wr, sl.1 ≤ off ∧ off + r.size ≤ sl.2 :=
  Bump.allocateSlice_writes ha h

/-- nested scratch slices are pairwise disjoint and inside the allocation -/
theorem bump_slices_disjoint {usz : Nat} (rs : List Bump.Req) (hal : ∀ r ∈ rs, 0 < r.align)
    {m : Bump.Chunk} {sls : List (Nat × Nat)} {fin : Bump.Chunk} (hm : m.start ≤ m.stop)
    (h : Bump.allocateMany usz m rs = some (sls, fin)) :
    fin.stop = m.stop ∧ m.start ≤ fin.start ∧ fin.start ≤ fin.stop ∧
    (∀ sl ∈ sls, m.start ≤ sl.1 ∧ sl.1 ≤ sl.2 ∧ sl.2 ≤ fin.start) ∧
    sls.Pairwise (fun a b => a.2 ≤ b.1) :=
  Bump.allocateMany_disjoint rs hal hm h

-- ============================================================== static-backed values, sign/typed moves

section Statics
variable {L : Ledger} {n mx : Nat}

/-- repr.rs:290 `Repr::from_static_words` (what `ubig!`/`static_ubig!` expand to inside a `static`
    item): 0/1/2 words give an ordinary canonical inline value (`[lo, hi]` asserts `hi > 0`, repr.rs:295);
    ≥ 3 words give a static-backed value with `|capacity| = len ≥ 3` (so `new_unchecked(len)` is
    non-zero) and non-zero top word (assert repr.rs:301); no allocator event -/
theorem unsafe_repr_rs_290 (ws : List Nat) :
    Sat L n (Rep.fromStaticWords ws) (fun o L' n' => L' = L ∧ n' = n ∧
      match o with
      | .value r => r.Canon mx ∧ r.own = none ∧ r.isNeg = false ∧
          ∃ t, ws = r.words ++ t ∧ ∀ x ∈ t, x = 0
      | .stat ws' => ws' = ws ∧ StaticWf ws') := fromStaticWords_sat ws

/-- `Clone::clone` of a `&'static` value allocates a fresh buffer, reads only the `static` array, and
    yields an equal canonical value -/
theorem static_clone_correct {ws : List Nat} {neg : Bool} (hs : StaticWf ws) :
    Sat L n (Rep.cloneStatic mx ws neg) (fun r' L' _ =>
      Moves L L' n none r'.own ∧ r'.Canon mx ∧ r'.words = ws ∧ r'.isNeg = neg) := cloneStatic_sat hs

/-- `x.clone_from(&STATIC)` for every size relation of `x` -/
theorem static_clone_from_correct {self : Rep} {sws : List Nat} {sneg : Bool} (hcs : self.Canon mx)
    (hLs : self.Live L) (hs : StaticWf sws) :
    Sat L n (Rep.cloneFromStatic mx self sws sneg) (fun r' L' _ =>
      Moves L L' n self.own r'.own ∧ r'.Canon mx ∧ r'.words = sws ∧ r'.isNeg = sneg) :=
  cloneFromStatic_sat hcs hLs hs

/-- a register holding a `&'static UBig/IBig` can never be the target of an operation other than
    reading its words or forgetting the reference: `Drop`, `clone_from` INTO it, `into_buffer`,
    `with_sign`, … have no arm in the model because safe Rust cannot express them on a `&'static T`
    (the macros only ever hand out `&VALUE` of an immutable `static`).  Since the static array is
    not a ledger allocation, no event of any history can free, reallocate or write it. -/
theorem static_register_readonly {W mx : Nat} {P P' : Pool} {k : Nat} {ws : List Nat} {neg : Bool}
    (h : P k = .stat ws neg) (op : Op) (ht : op.target = k) (n : Nat)
    (hr : (step W mx P op n).res = .ok P') : P' = P ∨ op = .drop k :=
  stat_target_readonly h op ht n hr

/-- repr.rs:209 `Repr::into_sign_typed` hands the allocation over unchanged and cannot panic -/
theorem unsafe_repr_rs_209 {r : Rep} (hc : r.Canon mx) (hL : r.Live L) :
    Sat L n (Rep.intoSignTyped r) (fun o L' _ =>
      L' = L ∧ o.1 = r.isNeg ∧ o.2.own = r.own ∧
      match o.2 with
      | .small lo hi => r.words = (Rep.fromDword lo hi).words
      | .large b => b.Wf mx ∧ b.ws = r.words) := intoSignTyped_sat hc hL

/-- convert.rs:563 / 695 `as_ibig` / `as_ubig`: identity on the representation (layout: both are
    `#[repr(transparent)]` over `Repr` — compile-time fact); `as_ubig` only for positive values -/
theorem unsafe_convert_rs_563_695 {r r' : Rep} (h : Rep.asUbig r = some r') :
    r' = r ∧ r'.isNeg = false ∧ Rep.asIbig r = r :=
  ⟨(as_ubig_positive h).1, (as_ubig_positive h).2, rfl⟩

/-- buffer.rs:438 `Buffer::as_full_slice` + `Zeroize for Buffer` (feature `zeroize`): the full-capacity
    slice is exactly the allocation; afterwards the buffer is empty, same allocation -/
theorem unsafe_buffer_rs_438_zeroize {b : Buf} (hL : L b.id = some b.cap) (hw : b.Wf mx) :
    Sat L n (zeroizeBuf b) (BPost mx L n b (fun b' => b'.id = b.id ∧ b'.cap = b.cap ∧ b'.ws = [])) :=
  zeroizeBuf_sat hL hw

/-- repr.rs:253 `Repr::as_full_slice` + `Zeroize for Repr/UBig/IBig`: the full slice of a heap value is
    exactly its allocation; afterwards the value is the canonical zero and the buffer was freed once.
    NOT tied by correspondence (the harness is built without the `zeroize` feature). -/
theorem unsafe_repr_rs_253_zeroize {r : Rep} (hc : r.Canon mx) (hL : r.Live L) :
    Sat L n (Rep.zeroize mx r) (fun r' L' _ => Moves L L' n r.own none ∧ r' = Rep.fromWord 0) :=
  repZeroize_sat hc hL

end Statics

-- ============================================================== shift.rs / primitive.rs

section Slices
variable {L : Ledger} {n : Nat}

/-- shift.rs:57 `shr_in_place_one_word`: safe for every NON-EMPTY slice inside a live allocation.
    The function itself has no length check; its two direct callers pass ≥ 1 words
    (div/mod.rs:127 after `debug_assert!(words.len() >= 2)`, root_ops.rs:195 a buffer of n+1 words),
    and `shr_in_place` forwards to it only for `shift == WORD_BITS`. -/
theorem unsafe_shift_rs_57 {debug : Bool} {s : Slice} (h : s.Ok L) (hl : 1 ≤ s.len) :
    Sat L n (shrInPlaceOneWord debug s) (fun _ L' _ => L' = L) := shrInPlaceOneWord_sat h hl

/-- …and the hypothesis is needed: on an empty slice at the end of its allocation the unconditional
    `ptr.read()` is out of bounds (the overflow panic of `len - 1` comes after it) -/
theorem unsafe_shift_rs_57_needs_nonempty :
    replay (Ledger.empty.set 0 (some 3)) (shrInPlaceOneWord true ⟨0, 3, 0⟩ 1).evs = none :=
  shrInPlaceOneWord_empty_unsafe

/-- primitive.rs:66 `lowest_dword` (`get_unchecked(0|1)`): safe with debug assertions for every
    slice, without them iff the caller passes ≥ 2 words -/
theorem unsafe_primitive_rs_66 {s : Slice} (h : s.Ok L) :
    Sat L n (lowestDwordSlice true s) (fun _ L' _ => L' = L) ∧
    (2 ≤ s.len → Sat L n (lowestDwordSlice false s) (fun _ L' _ => L' = L)) :=
  ⟨lowestDwordSlice_debug_sat h, lowestDwordSlice_release_sat h⟩

theorem unsafe_primitive_rs_66_needs_two :
    replay (Ledger.empty.set 0 (some 3)) (lowestDwordSlice false ⟨0, 2, 1⟩ 1).evs = none :=
  lowestDwordSlice_release_short_unsafe

/-- primitive.rs:82 `highest_dword` -/
theorem unsafe_primitive_rs_82 {s : Slice} (h : s.Ok L) :
    Sat L n (highestDwordSlice true s) (fun _ L' _ => L' = L) ∧
    (2 ≤ s.len → Sat L n (highestDwordSlice false s) (fun _ L' _ => L' = L)) :=
  ⟨highestDwordSlice_debug_sat h, highestDwordSlice_release_sat h⟩

/-- primitive.rs:96 `split_hi_word`: the `unreachable_unchecked()` arm is not reached -/
theorem unsafe_primitive_rs_96 {s : Slice} (h : s.Ok L) :
    Sat L n (splitHiWordSlice true s) (fun _ L' _ => L' = L) ∧
    (1 ≤ s.len → Sat L n (splitHiWordSlice false s) (fun _ L' _ => L' = L)) :=
  ⟨splitHiWordSlice_debug_sat h, splitHiWordSlice_release_sat h⟩

end Slices

-- ============================================================== public arithmetic as histories

/-- every register that holds a `Repr` after a completed history is canonical — in the words of the
    property: a value of ≤ 2 words is inline, a heap value has ≥ 3 words, a non-zero top word and
    `len ≤ cap ≤ max_compact_capacity(len) ≤ MAX_CAPACITY`, and zero is not negative -/
theorem invariant_says_canonical {mx : Nat} {P : Pool} {L : Ledger} (hI : Inv mx P L) (k : Nat) (r : Rep)
    (hk : P k = .rep r) :
    (r.len ≤ 2 ↔ r.capacity ≤ 2) ∧
    (2 < r.capacity → 3 ≤ r.len ∧ r.words.getLast? ≠ some 0 ∧ r.len ≤ r.capacity ∧
      r.capacity ≤ maxCompactCapacity mx r.len ∧ r.capacity ≤ mx) ∧
    (r.isZero = true → r.isNeg = false) := by
  have hw := hI.wf k
  rw [hk] at hw
  cases r with
  | inline lo hi code neg =>
    obtain ⟨h1, h2⟩ := hw
    refine ⟨?_, ?_, ?_⟩
    · simp only [Rep.len, Rep.capacity]
      rcases h1 with ⟨hc, _⟩ | ⟨hc, _⟩ <;> subst hc <;> simp <;> split <;> omega
    · intro hc; simp only [Rep.capacity] at hc
      rcases h1 with ⟨hc', _⟩ | ⟨hc', _⟩ <;> omega
    · intro hz
      simp only [Rep.isZero, decide_eq_true_eq] at hz
      cases neg with
      | false => rfl
      | true => exact absurd hz (h2 rfl)
  | heap id cap ws neg =>
    obtain ⟨h3, hlast, hlen, hcmp, hmx⟩ := hw
    refine ⟨?_, ?_, ?_⟩
    · simp only [Rep.len, Rep.capacity]; omega
    · intro _; exact ⟨h3, hlast, hlen, hcmp, hmx⟩
    · intro hz; cases hz

/-- (4) histories of PUBLIC operations: every `UBig` `+ - * / % << >>` in every ownership form is, storage-
    wise, a history over `AOp` (the skeletons `fragAdd/fragSub/fragMul/fragDivRem/fragShl/fragShr` of
    `Model/Mem/Arith.lean`, mirrored from add_ops.rs / mul_ops.rs / div_ops.rs / shift_ops.rs and compared with the
    real allocator event stream on every run), with the word-level kernels abstracted to an arbitrary
    `overwrite`.  Hence, after ANY sequence of such operations interleaved with any other history
    (clone, clone_from, from_words, drops, …), whatever the kernels wrote: all events are safe, no
    UB point is reached, and the invariant — so `invariant_says_canonical` for every value — holds. -/
theorem arithmetic_histories_keep_invariant {W mx : Nat} (hW : 0 < W)
    (segs : List (List Op ⊕ List AOp)) (hok : ∀ s ∈ segs, ∀ ops, s = .inl ops → ∀ op ∈ ops, op.Ok mx) :
    let h : List Op := segs.flatMap fun s => match s with | .inl ops => ops | .inr sk => sk.map AOp.toOp
    ∃ L', replay Ledger.empty (exec W mx h).evs = some L' ∧
      (∀ s, (exec W mx h).res ≠ .error (.ub s)) ∧
      ∀ P', (exec W mx h).res = .ok P' → Inv mx P' L' := by
  intro h
  have hall : ∀ op ∈ h, op.Ok mx := by
    intro op hop
    obtain ⟨s, hs, hin⟩ := List.mem_flatMap.mp hop
    cases s with
    | inl ops => exact hok _ hs ops rfl op hin
    | inr sk => exact AOp.map_ok mx sk op hin
  exact history_keeps_invariant hW h hall (Inv.empty mx) (n := 0) (fun _ _ => rfl)

/-- the concrete skeletons are such histories (instances for all operands, all forms) -/
theorem skeleton_ops_ok (W mx sq : Nat) (f : Form) (a b : List Nat) (byVal : Bool) (k : Nat) :
    (∀ op ∈ ((fragAdd W f a b).ops ++ (fragAdd W f a b).cleanup).map AOp.toOp, op.Ok mx) ∧
    (∀ op ∈ ((fragSub W f a b).ops ++ (fragSub W f a b).cleanup).map AOp.toOp, op.Ok mx) ∧
    (∀ op ∈ ((fragMul W sq f a b).ops ++ (fragMul W sq f a b).cleanup).map AOp.toOp, op.Ok mx) ∧
    (∀ op ∈ ((fragDivRem W byVal f a b).ops ++ (fragDivRem W byVal f a b).cleanup).map AOp.toOp, op.Ok mx) ∧
    (∀ op ∈ ((fragSqr W sq a).ops ++ (fragSqr W sq a).cleanup).map AOp.toOp, op.Ok mx) ∧
    (∀ op ∈ ((fragFromBytes W k sq).ops ++ (fragFromBytes W k sq).cleanup).map AOp.toOp, op.Ok mx) ∧
    (∀ op ∈ ((fragShl W mx byVal a k).ops ++ (fragShl W mx byVal a k).cleanup).map AOp.toOp, op.Ok mx) ∧
    (∀ op ∈ ((fragShr W byVal a k).ops ++ (fragShr W byVal a k).cleanup).map AOp.toOp, op.Ok mx) :=
  ⟨AOp.map_ok mx _, AOp.map_ok mx _, AOp.map_ok mx _, AOp.map_ok mx _, AOp.map_ok mx _, AOp.map_ok mx _, AOp.map_ok mx _,
    AOp.map_ok mx _⟩

-- ============================================================== non-vacuity: concrete instances of every hypothesis

section NonVacuity

/-- a ledger with two live allocations: id 0 (8 words) and id 1 (5 words) -/
def exL : Ledger := (Ledger.empty.set 0 (some 8)).set 1 (some 5)
/-- a live 6-word buffer with two high zero words, capacity 8 -/
def exB : Buf := ⟨0, 8, [1, 2, 3, 4, 0, 0]⟩
/-- two canonical heap values (4 words in 8, 3 words in 5, negative) and an inline one -/
def exR0 : Rep := .heap 0 8 [1, 2, 3, 4] false
def exR1 : Rep := .heap 1 5 [7, 8, 9] true
def exRi : Rep := .inline 5 0 1 true

theorem exL_below : exL.Below 2 := by
  intro j hj
  have h0 : j ≠ 0 := by omega
  have h1 : j ≠ 1 := by omega
  simp [exL, Ledger.set, Ledger.empty, h0, h1]
theorem exB_live : exL exB.id = some exB.cap := by decide
theorem exB_wf : exB.Wf 1000 := by unfold Buf.Wf Buf.len; decide
theorem exR0_canon : exR0.Canon 1000 := by
  refine ⟨by decide, by decide, by decide, ?_, by decide⟩
  show 8 ≤ maxCompactCapacity 1000 4
  have := (policy_chain 1000 4 (by decide)); decide
theorem exR1_canon : exR1.Canon 1000 := by
  refine ⟨by decide, by decide, by decide, ?_, by decide⟩
  show 5 ≤ maxCompactCapacity 1000 3
  decide
theorem exRi_canon : exRi.Canon 1000 := ⟨Or.inl ⟨rfl, rfl⟩, by intro _ h; cases h.2⟩
theorem exR0_live : exR0.Live exL := by intro id c h; cases h; decide
theorem exR1_live : exR1.Live exL := by intro id c h; cases h; decide
theorem exRi_live : exRi.Live exL := by intro id c h; cases h

-- (d1) from_buffer on a concrete buffer: hypotheses hold, and the result is the 4-word heap value
example := from_buffer_canonical (mx := 1000) exL_below exB_live exB_wf
example : (Rep.fromBuffer 1000 exB 2).res.toOption = some (.heap 0 8 [1, 2, 3, 4] false) := by decide +kernel

-- (d2) clone_from: heap ← heap (reuse), heap ← inline, inline ← heap
example := clone_from_correct (mx := 1000) exL_below exR0_canon exR1_canon exR0_live exR1_live
  (by intro i c i' c' h h'; cases h; cases h'; decide)
example := clone_from_correct (mx := 1000) exL_below exR0_canon exRi_canon exR0_live exRi_live
  (by intro i c i' c' _ h'; cases h')
example := clone_from_correct (mx := 1000) exL_below exRi_canon exR1_canon exRi_live exR1_live
  (by intro i c i' c' h; cases h)
example : (Rep.cloneFrom 1000 exR0 exR1 2).res.toOption = some (.heap 0 8 [7, 8, 9] true) → False := by
  -- cap 8 > max_compact_capacity(3) = 7: the old buffer is NOT reused but freed and replaced
  decide +kernel
example : (Rep.cloneFrom 1000 exR0 exR1 2).res.toOption = some (.heap 2 5 [7, 8, 9] true) := by decide +kernel
example : (Rep.cloneFrom 1000 exR1 exR0 2).res.toOption = some (.heap 1 5 [1, 2, 3, 4] false) := by decide +kernel  -- reuse

example := clone_correct (mx := 1000) exL_below exR1_canon exR1_live
example := ones_canonical (W := 64) (mx := 1000) (by decide) 200 exL_below
example := with_sign_canonical exR1_canon false
example := capacity_policy 1000 37 (by decide)
example : ¬ (∀ op ∈ [Op.ensureCapacityExact 0 1001], op.Ok 1000) := by
  intro h; have := h _ List.mem_cons_self; simp [Op.Ok] at this

-- the per-block obligations: their hypotheses on the concrete buffer / values
example := unsafe_buffer_rs_111_470 (n := 2) exB_live
example := unsafe_buffer_rs_148 (n := 2) (c := 20) exB_live
example := unsafe_buffer_rs_209 (n := 2) (w := 9) exB_live exB_wf
example := unsafe_buffer_rs_235 (n := 2) (elem := 0) (k := 2) exB_live exB_wf
example := unsafe_buffer_rs_266 (n := 2) (k := 2) exB_live exB_wf
example := unsafe_buffer_rs_293 (n := 2) (src := some 1) (ws := [1, 2]) exB_live exB_wf
  (by intro s hs; cases hs; exact ⟨5, by decide, by decide⟩)
example := unsafe_buffer_rs_307 (n := 2) exB_live exB_wf
example := unsafe_buffer_rs_341 (n := 2) (k := 3) exB_live exB_wf
example := unsafe_buffer_rs_358 (n := 2) exB_live exB_wf
example := unsafe_buffer_rs_376 (n := 2) (lo := 1) (hi := 2) exB_live exB_wf
example := unsafe_buffer_rs_391 (n := 2) (src := none) (ws := List.replicate 20 1) exB_live exB_wf
  (by intro s hs; cases hs)
example := unsafe_buffer_rs_408 (n := 2) exB_live
example := unsafe_buffer_rs_440 (n := 2) exB_live exB_wf
example := unsafe_buffer_rs_456 (n := 2) (b := exB) (src := ⟨1, 5, [7, 8, 9]⟩) exB_live exB_wf (by decide)
  (by unfold Buf.Wf Buf.len; decide) (by decide)
example := unsafe_buffer_rs_482_490 (n := 2) exB_live exB_wf
example := unsafe_buffer_rs_438_zeroize (n := 2) exB_live exB_wf
example := unsafe_repr_rs_333_433_487 (L := exL) (n := 2) (site := "x") (b := exB) (by decide)
example := unsafe_repr_rs_356 (n := 2) exR1_canon exR1_live
example := unsafe_repr_rs_191 (n := 2) exR0_canon exR0_live
example := unsafe_repr_rs_164_231 (n := 2) exR0_canon exR0_live
example := unsafe_repr_rs_547 (n := 2) exR1_live
example := unsafe_repr_rs_504_519 (n := 2) exR1_live
example := unsafe_repr_rs_209 (n := 2) exR1_canon exR1_live
example := unsafe_repr_rs_253_zeroize (n := 2) exR1_canon exR1_live
example := unsafe_repr_rs_new_unchecked exR1 exR1_canon true

-- statics
theorem exS_wf : StaticWf [1, 2, 3] := ⟨by decide, by decide⟩
example := static_clone_correct (L := exL) (n := 2) (mx := 1000) (neg := true) exS_wf
example := static_clone_from_correct (n := 2) (sneg := false) exR0_canon exR0_live exS_wf
example : (exec 64 1000 [.fromStaticWords 0 [1, 2, 3] true, .repClone 1 0, .repCloneFrom 1 0, .asSlice 0, .drop 0,
    .drop 1]).res.toBool = true := by decide +kernel
example : (exec 64 1000 [.fromStaticWords 0 [1, 2, 3] true, .neg 0]).res.toBool = false := by decide +kernel

-- slices (shift.rs / primitive.rs)
theorem exS_ok : Slice.Ok exL ⟨0, 2, 4⟩ := ⟨8, by decide, by decide⟩
example := unsafe_shift_rs_57 (n := 2) (debug := false) exS_ok (by decide)
example := (unsafe_primitive_rs_66 (n := 2) exS_ok).2 (by decide)
example := (unsafe_primitive_rs_82 (n := 2) exS_ok).2 (by decide)
example := (unsafe_primitive_rs_96 (n := 2) exS_ok).2 (by decide)

-- bump allocator: a chain u8×3, u64×2, u16×1 in a 64-byte block
example : Bump.allocateMany (2 ^ 64 - 1) ⟨0, 64⟩ [⟨1, 1, 3⟩, ⟨8, 8, 2⟩, ⟨2, 2, 1⟩] =
    some ([(0, 3), (8, 24), (24, 26)], ⟨26, 64⟩) := by decide +kernel
example := bump_slices_disjoint (usz := 2 ^ 64 - 1) [⟨1, 1, 3⟩, ⟨8, 8, 2⟩, ⟨2, 2, 1⟩]
  (by intro r hr; simp at hr; rcases hr with rfl | rfl | rfl <;> decide)
  (m := ⟨0, 64⟩) (sls := [(0, 3), (8, 24), (24, 26)]) (fin := ⟨26, 64⟩) (by decide) (by decide +kernel)

-- arithmetic skeletons: `&a + &b` with a carry into a 4th word, then `a - &b` back, as one history
def exArith : List (List Op ⊕ List AOp) :=
  [.inl [.fromWords 0 [2 ^ 64 - 1, 2 ^ 64 - 1, 2 ^ 64 - 1], .fromBuffer 0, .fromWords 1 [1], .fromBuffer 1],
   .inr ((fragAdd 64 .rr [2 ^ 64 - 1, 2 ^ 64 - 1, 2 ^ 64 - 1] [1]).ops)]
example := arithmetic_histories_keep_invariant (W := 64) (mx := 1000) (by decide) exArith
  (by intro s hs ops he op hop
      simp [exArith] at hs
      rcases hs with rfl | rfl
      · cases he; simp at hop; rcases hop with rfl | rfl | rfl | rfl <;> trivial
      · cases he)
example : (exec 64 1000 (exArith.flatMap fun s => match s with | .inl ops => ops | .inr sk => sk.map AOp.toOp)).res.toBool
    = true := by decide +kernel
example : ((exec 64 1000 (exArith.flatMap fun s => match s with | .inl ops => ops | .inr sk => sk.map AOp.toOp)).res.toOption.map
    fun P => P 2) = some (.rep (.heap 2 5 [0, 0, 0, 1] false)) := by decide +kernel

end NonVacuity
-- ============================================================== round 4: more skeletons, memory.rs layouts

/-- the round-4 skeletons — `DivRem::div_rem` (quotient in the lhs buffer, remainder in the rhs buffer), `& | ^` with
    buffer reuse, `UBig::pow` (one growing result buffer / a chain of `square_large`·`mul_large` results) — are histories
    over the same proved alphabet, for all operands, forms and exponents; so `arithmetic_histories_keep_invariant`
    covers any interleaving of them with every other operation -/
theorem skeleton_ops_ok_round4 (W mx sq : Nat) (f : Form) (bop : BitOp) (a b : List Nat) (k : Nat) :
    (∀ op ∈ ((fragDivRemBoth W f a b).ops ++ (fragDivRemBoth W f a b).cleanup).map AOp.toOp, op.Ok mx) ∧
    (∀ op ∈ ((fragBit W bop f a b).ops ++ (fragBit W bop f a b).cleanup).map AOp.toOp, op.Ok mx) ∧
    (∀ op ∈ ((fragPow W mx sq a k).ops ++ (fragPow W mx sq a k).cleanup).map AOp.toOp, op.Ok mx) :=
  ⟨AOp.map_ok mx _, AOp.map_ok mx _, AOp.map_ok mx _⟩

/-- second batch (`Model/Mem/Arith3.lean`): the in-place bit methods of `UBig` (`set_bit`, `clear_bit`, `clear_high_bits`,
    `split_bits`, `next_power_of_two`) and the `IBig` sign glue over the `UBig` skeletons (`/ % div_rem << >> pow`; a negative
    `>>` is a shift followed by a by-value subtraction on the shifted value) are histories over the proved alphabet too -/
theorem skeleton_ops_ok_round4b (W mx sq kind : Nat) (f : Form) (fn : BitFn) (na nb byVal : Bool) (a b : List Nat) (k : Nat) :
    (∀ op ∈ ((fragBitFn W mx fn a k).ops ++ (fragBitFn W mx fn a k).cleanup).map AOp.toOp, op.Ok mx) ∧
    (∀ op ∈ ((fragSignedDiv W kind f na a nb b).ops ++ (fragSignedDiv W kind f na a nb b).cleanup).map AOp.toOp, op.Ok mx) ∧
    (∀ op ∈ ((fragSignedShl W mx byVal na a k).ops ++ (fragSignedShl W mx byVal na a k).cleanup).map AOp.toOp, op.Ok mx) ∧
    (∀ op ∈ ((fragSignedShr W sq byVal na a k).ops ++ (fragSignedShr W sq byVal na a k).cleanup).map AOp.toOp, op.Ok mx) ∧
    (∀ op ∈ ((fragSignedPow W mx sq na a k).ops ++ (fragSignedPow W mx sq na a k).cleanup).map AOp.toOp, op.Ok mx) :=
  ⟨AOp.map_ok mx _, AOp.map_ok mx _, AOp.map_ok mx _, AOp.map_ok mx _, AOp.map_ok mx _⟩

-- `set_bit(1536)` on a 4-word value: the value's own buffer grows (ensure_capacity, push_zeros, push)
example : (fragBitFn 64 1000 .setBit [1, 2, 3, 4] 1536).ops =
    [.intoTyped 0, .ensureCapacity 0 25, .pushZeros 0 20, .push 0 1, .fromBuffer 0] := by decide +kernel
-- `-(2^197 - 1) >> 5 = -(2^192)`: shift in place, negate, subtract the rounding bit by value (carry into a 4th word)
example : (fragSignedShr 64 30 true true (toWords 64 4 (2 ^ 197 - 1)) 5).res = 0 := by decide +kernel

/-- `UBig::sqrt_rem(&self)` (root_ops.rs `sqrt_rem_large(words, false)`: shifted copy `shl_large_ref(..).into_buffer()`, root in
    a fresh buffer, remainder left in the truncated copy, scratch block of `max_layout(sqr, div)` words) is a history over
    the proved alphabet.  The compound assignments `x op= y`, `x op= &y`, `x <<= n`, `x >>= n` are
    `*self = mem::take(self) op rhs` and run the by-value skeletons (compared under the form names `av`, `ar`, `a`). -/
theorem skeleton_ops_ok_sqrt_rem (W mx sq : Nat) (a : List Nat) :
    ∀ op ∈ ((fragSqrtRem W sq a).ops ++ (fragSqrtRem W sq a).cleanup).map AOp.toOp, op.Ok mx :=
  AOp.map_ok mx _

-- a 5-word operand: odd length ⇒ the copy is shifted by a whole word (+ the even part of the leading zeros), n = 3
example : ((fragSqrtRem 64 30 [1, 2, 3, 4, 5]).ops.take 3, (fragSqrtRem 64 30 [1, 2, 3, 4, 5]).res2) =
    ([.allocate 3 7, .pushZeros 3 1, .pushTailFrom 3 0 0], some 3) := by decide +kernel

/-- `IBig & | ^` for all sign pairs (bits.rs `impl_ibig_bitand / bitor / bitxor`: `sub_one` on the negative magnitudes —
    in place by value, in a copy by reference —, the crate-internal `and_not`, a final `!` = `add_one` with
    `push_resizing(1)` on carry) is a history over the proved alphabet -/
theorem skeleton_ops_ok_ibig_bits (W mx op : Nat) (f : Form) (na nb : Bool) (a b : List Nat) :
    ∀ o ∈ ((fragSignedBit W op f na a nb b).ops ++ (fragSignedBit W op f na a nb b).cleanup).map AOp.toOp, o.Ok mx :=
  AOp.map_ok mx _

-- `-(2^192) & -(2^192)` by value: both magnitudes lose a word by `sub_one`, `|` in place, the final `!` carries back
example : (fragSignedBit 64 0 .vv true [0, 0, 0, 1] true [0, 0, 0, 1]).res = 0 := by decide +kernel

/-- memory.rs `array_layout::<T>(n)`: returns (instead of `panic_allocate_too_much`) iff `n · size_of::<T>()` fits
    `isize::MAX - (align - 1)`; the layout returned is valid and has exactly that size — in particular the
    multiplication cannot have wrapped -/
theorem array_layout_spec (U esize alog n : Nat) (hU : alog < U) :
    ((Lay.arrayLayout U esize alog n).isSome = true ↔ esize * n ≤ Lay.maxSizeForAlign U alog) ∧
    ∀ l, Lay.arrayLayout U esize alog n = some l → l.Valid U ∧ l.size = esize * n ∧ l.alog = alog :=
  ⟨Lay.arrayLayout_isSome_iff U esize alog n, fun _ h => Lay.arrayLayout_valid hU h⟩

/-- memory.rs `add_layout` / `max_layout` preserve validity; `add_layout` places the second part at an offset that is
    aligned for it, not before the end of the first part and less than one alignment after it -/
theorem add_max_layout_valid {U : Nat} {a b : Lay.Layout} (ha : a.Valid U) (hb : b.Valid U) :
    (∀ l off, Lay.addLayout U a b = some (l, off) →
      l.Valid U ∧ l.alog = max a.alog b.alog ∧ a.size ≤ off ∧ off < a.size + b.align ∧ off % b.align = 0 ∧
      l.size = off + b.size) ∧
    (∀ l, Lay.maxLayout U a b = some l → l.Valid U ∧ l.size = max a.size b.size ∧ l.alog = max a.alog b.alog) :=
  ⟨fun _ _ h => Lay.addLayout_valid ha hb h, fun _ h => Lay.maxLayout_valid h⟩

/-- memory.rs:36-50, 66-72 `MemoryAllocation::new` / `Drop`: for every valid layout (all that `array_layout`,
    `add_layout`, `max_layout`, `zero_layout` can produce) the `size > isize::MAX` arm is dead; a zero-size layout makes
    no allocator call and none on drop; otherwise `alloc` gets a non-zero size whose round-up to the power-of-two
    alignment is ≤ `isize::MAX` (the `GlobalAlloc` contract of the `unsafe { alloc(layout) }` at memory.rs:43) and
    `dealloc` gets the same `(size, align)` (contract of memory.rs:70) -/
theorem unsafe_memory_rs_43_70 {U : Nat} {l : Lay.Layout} (h : l.Valid U) :
    Lay.memoryAllocationNew U l ≠ .tooMuch ∧
    (l.size = 0 → Lay.memoryAllocationNew U l = .dangling l.align ∧ Lay.memoryAllocationDrop l = none) ∧
    (l.size ≠ 0 → Lay.memoryAllocationNew U l = .alloc l.size l.align ∧
      Lay.memoryAllocationDrop l = some (l.size, l.align) ∧ l.size + (l.align - 1) ≤ Lay.isizeMax U) :=
  Lay.memoryAllocationNew_contract h

/-- `add_layout(array_layout::<A>(na), array_layout::<B>(nb))` is sufficient and correctly aligned for the two nested
    bump requests that consume it (`allocate_slice::<A>(na)` then `allocate_slice::<B>(nb)` on the remainder): both
    succeed in a block at any address aligned to the combined alignment; the slices are `[s, s + size_a)` and
    `[s + offset, s + size)`, nothing is left — all element sizes, alignments, counts -/
theorem add_layout_serves_bump {U usz : Nat} {ea aa na eb ab nb : Nat} {la lb l : Lay.Layout} {off : Nat}
    (ha : Lay.arrayLayout U ea aa na = some la) (hb : Lay.arrayLayout U eb ab nb = some lb)
    (h : Lay.addLayout U la lb = some (l, off)) (s : Nat) (hs : s % l.align = 0) (hfit : s + l.size ≤ usz) :
    Bump.allocateMany usz ⟨s, s + l.size⟩ [Lay.reqOf ea aa na, Lay.reqOf eb ab nb] =
      some ([(s, s + la.size), (s + off, s + l.size)], ⟨s + l.size, s + l.size⟩) :=
  Lay.addLayout_serves_bump ha hb h s hs hfit

/-- memory.rs `max_layout(a, b)` serves either consumer alone at the block start (root.rs `memory_requirement_sqrt_rem` =
    `max_layout(sqr, div)`: one squaring or one division at a time) — all element sizes, alignments, counts -/
theorem max_layout_serves_each {U usz : Nat} {ea aa na eb ab nb : Nat} {la lb l : Lay.Layout}
    (ha : Lay.arrayLayout U ea aa na = some la) (hb : Lay.arrayLayout U eb ab nb = some lb)
    (h : Lay.maxLayout U la lb = some l) (s : Nat) (hs : s % l.align = 0) (hfit : s + l.size ≤ usz) :
    Bump.tryFind usz ⟨s, s + l.size⟩ (Lay.reqOf ea aa na) = some (s, s + la.size) ∧
    Bump.tryFind usz ⟨s, s + l.size⟩ (Lay.reqOf eb ab nb) = some (s, s + lb.size) :=
  Lay.maxLayout_serves_each ha hb h s hs hfit

example := max_layout_serves_each (U := 64) (usz := 2 ^ 64 - 1) (ea := 8) (aa := 3) (na := 100) (eb := 8) (ab := 3) (nb := 40)
  (la := ⟨800, 3⟩) (lb := ⟨320, 3⟩) (l := ⟨800, 3⟩) (by decide +kernel) (by decide +kernel) (by decide +kernel)
  4096 (by decide) (by decide)

/-- two `Word` arrays: `na + nb` words, no padding — the scratch word count of the pow skeletons
    (`allocScratch s (n + sqrScratchWords n)`) -/
theorem add_layout_words {U k na nb : Nat} {l : Lay.Layout} {off : Nat}
    (h : Lay.addLayout U ⟨2 ^ k * na, k⟩ ⟨2 ^ k * nb, k⟩ = some (l, off)) :
    l.size = 2 ^ k * (na + nb) ∧ off = 2 ^ k * na ∧ l.alog = k := Lay.addLayout_words h


/-- pow.rs `pow_word_base` (`res.push_resizing(carry); // actually never resize`): in the loop exactly as the skeleton
    `fPowWordBase` runs it — from `wbase²` (2 words) at bit `bit_len(e) - 2` of `e = exp / wexp ≥ 2` — the tracked length
    of the single result buffer ends ≤ `e`; lengths only grow, so every `push_zeros(len)` doubling and every
    `push_resizing(carry)`, the final one included, stays within the capacity of `Buffer::allocate(e + 1)`.  All word
    sizes, multipliers, exponents, values.  (That the real buffer shows no realloc event is compared on every run.) -/
theorem pow_word_base_never_resizes (W mx r m e : Nat) (he : 2 ≤ e) (hmx : e + 1 ≤ mx) (val : Nat) :
    (powLoop W r m false e (Nat.log2 e - 1) val 2).2.2 ≤ e ∧
    (powLoop W r m false e (Nat.log2 e - 1) val 2).2.2 + 1 ≤ defaultCapacity mx (e + 1) := by
  refine ⟨?_, powLoop_word_fits W mx r m e he hmx val⟩
  have hne : e ≠ 0 := by omega
  have hl : 1 ≤ Nat.log2 e := (Nat.le_log2 hne).mpr (by simpa using he)
  have hp : Nat.log2 e - 1 + 1 = Nat.log2 e := by omega
  have h1 : 1 ≤ e / 2 ^ (Nat.log2 e - 1 + 1) := by
    rw [hp]; exact Nat.div_pos (Nat.log2_self_le hne) (Nat.two_pow_pos _)
  exact powLoop_word_len_le W r m e (Nat.log2 e - 1) val 2 (by omega)

/-- pow.rs `pow_dword_base` (`res.push(c0); res.push_resizing(c1); // actually never resize`): from `base²` (4 words) the
    length stays ≤ `2·exp`, the `num_words` of its `Buffer::allocate(2·exp)` -/
theorem pow_dword_base_never_resizes (W mx r m e : Nat) (he : 2 ≤ e) (hmx : 2 * e ≤ mx) (val : Nat) :
    (powLoop W r m true e (Nat.log2 e - 1) val 4).2.2 ≤ defaultCapacity mx (2 * e) :=
  powLoop_dword_fits W mx r m e he hmx val

example := pow_word_base_never_resizes 64 1000 5 (3 ^ 40) 7 (by decide) (by decide) ((3 ^ 40) ^ 2)
example : (powLoop 64 5 (3 ^ 40) false 7 1 ((3 ^ 40) ^ 2) 2).2.2 = 7 := by decide +kernel

-- non-vacuity (64-bit usize, Word = u64: esize 8, alog 3)
example : Lay.arrayLayout 64 8 3 41 = some ⟨328, 3⟩ := by decide +kernel
example : Lay.arrayLayout 64 8 3 (2 ^ 60) = none := by decide +kernel            -- 2^63 bytes: the documented panic
example : Lay.addLayout 64 ⟨3, 0⟩ ⟨16, 3⟩ = some (⟨24, 3⟩, 8) := by decide +kernel  -- u8×3 then u64×2: offset 8
example : (⟨328, 3⟩ : Lay.Layout).Valid 64 := by unfold Lay.Layout.Valid Lay.maxSizeForAlign Lay.isizeMax; decide
example := add_layout_serves_bump (U := 64) (usz := 2 ^ 64 - 1) (ea := 1) (aa := 0) (na := 3) (eb := 8) (ab := 3) (nb := 2)
  (la := ⟨3, 0⟩) (lb := ⟨16, 3⟩) (l := ⟨24, 3⟩) (off := 8) (by decide +kernel) (by decide +kernel) (by decide +kernel)
  4096 (by decide) (by decide)
example : Lay.memoryAllocationNew 64 ⟨328, 3⟩ = .alloc 328 8 := by decide +kernel
example : Lay.memoryAllocationNew 64 Lay.zeroLayout = .dangling 1 := by decide +kernel

-- div_rem of a 4-word by a 3-word value, both by value: quotient stays in the lhs buffer, remainder in the rhs buffer
example : ((fragDivRemBoth 64 .vv [1, 2, 3, 4] [5, 6, 7]).res, (fragDivRemBoth 64 .vv [1, 2, 3, 4] [5, 6, 7]).res2) =
    (0, some 1) := by decide +kernel
-- 3^100: the word-base buffer path
example : ((fragPow 64 ((2 ^ 64 - 1) / 64) 30 [3] 100).ops.length) = 8 := by decide +kernel

-- ============================================================== round 5: sqrt, gcd, gcd_ext on C12's mirrored kernels

/-- round 5 (`Model/Mem/Arith4.lean`): `!IBig` / `!&IBig` (add_one / sub_one in the operand's buffer or in a copy), `UBig::sqrt()` (root_only: `from_buffer` on the raw 2n-word work buffer, whose high half
    is what C12's mirrored `root::sqrt_rem` leaves there), `Gcd::gcd` of `UBig` and `IBig` (both operands copied; the copy
    that holds the result is selected by the `swapped` flag of the mirrored Lehmer loop) and `ExtendedGcd::gcd_ext` of `UBig`, of `IBig` and of the mixed
    `UBig`/`IBig` operand pairs (`fragMixedGcd`: sign glue, the coefficients are multiplied by the operand signs)
    (by-value large operands become the work buffers; gcd in the smaller operand's buffer, `|b|` in the larger one's, `|a|`
    copied out of the scratch block) in all ownership forms are histories over the proved alphabet, for all operands — so
    `arithmetic_histories_keep_invariant` covers any interleaving of them with every other operation, whatever the
    kernels write -/
theorem skeleton_ops_ok_round5 (W mx sq : Nat) (f : Form) (byVal na : Bool) (a b : List Nat) :
    (∀ op ∈ ((fragNot W byVal na a).ops ++ (fragNot W byVal na a).cleanup).map AOp.toOp, op.Ok mx) ∧
    (∀ op ∈ ((fragSqrt W sq a).ops ++ (fragSqrt W sq a).cleanup).map AOp.toOp, op.Ok mx) ∧
    (∀ op ∈ ((fragGcd W f a b).ops ++ (fragGcd W f a b).cleanup).map AOp.toOp, op.Ok mx) ∧
    (∀ op ∈ ((fragSignedGcd W f a b).ops ++ (fragSignedGcd W f a b).cleanup).map AOp.toOp, op.Ok mx) ∧
    (∀ op ∈ ((fragGcdExt W f a b).ops ++ (fragGcdExt W f a b).cleanup).map AOp.toOp, op.Ok mx) ∧
    (∀ (ext aI bI nb : Bool), ∀ op ∈ ((fragMixedGcd W ext f aI na a bI nb b).ops ++
        (fragMixedGcd W ext f aI na a bI nb b).cleanup).map AOp.toOp, op.Ok mx) :=
  ⟨AOp.map_ok mx _, AOp.map_ok mx _, AOp.map_ok mx _, AOp.map_ok mx _, AOp.map_ok mx _, fun _ _ _ _ => AOp.map_ok mx _⟩

-- `!(2^128 - 1) = -(2^128)` by value on an inline value: the carry leaves the inline form (a 3-word buffer is allocated)
example : (fragNot 64 true false [2 ^ 64 - 1, 2 ^ 64 - 1]).ops =
    [.intoSignTyped 0, .allocate 2 3, .push 2 0, .push 2 0, .push 2 1, .fromBuffer 2, .withSign 2 true] := by decide +kernel

/-- round 6 (`Model/Mem/Arith5.lean`): `IBig`'s Euclidean division family — `div_euclid`, `rem_euclid`, `div_rem_euclid` of
    `IBig` in all four ownership forms and all sign pairs (div_ops.rs `impl_ibig_div_euclid / rem_euclid / divrem_euclid`: the
    `UBig` `div_rem` / `%` skeleton on the magnitudes, with the divisor only borrowed when the dividend is negative; then, for a
    non-zero remainder, `q.into_typed().add_one()` in the quotient's own buffer and the by-value subtraction
    `mag1 - r.into_typed()`; the unused remainder / by-value divisor dropped at the end of the block) are histories over the
    proved alphabet, so `arithmetic_histories_keep_invariant` covers them, whatever the kernels write -/
theorem skeleton_ops_ok_round6 (W mx : Nat) (f : Form) (na nb : Bool) (a b : List Nat) :
    (∀ op ∈ ((fragSignedDivEuclid W f na a nb b).ops ++ (fragSignedDivEuclid W f na a nb b).cleanup).map AOp.toOp, op.Ok mx) ∧
    (∀ op ∈ ((fragSignedRemEuclid W f na a b).ops ++ (fragSignedRemEuclid W f na a b).cleanup).map AOp.toOp, op.Ok mx) ∧
    (∀ op ∈ ((fragSignedDivRemEuclid W f na a nb b).ops ++ (fragSignedDivRemEuclid W f na a nb b).cleanup).map AOp.toOp,
      op.Ok mx) :=
  ⟨AOp.map_ok mx _, AOp.map_ok mx _, AOp.map_ok mx _⟩

-- `(-(2^128 - 1) * 3 - 1).div_rem_euclid(&3)` by value / by reference: q = 2^128 - 1 is inline, `add_one` leaves the inline form
-- (3-word buffer, register 6), the remainder 3 - 1 = 2 is a fresh inline value (register 5)
example : ((fragSignedDivRemEuclid 64 .vr true (toWords 64 3 ((2 ^ 128 - 1) * 3 + 1)) false [3]).res,
           (fragSignedDivRemEuclid 64 .vr true (toWords 64 3 ((2 ^ 128 - 1) * 3 + 1)) false [3]).res2) = (6, some 5) := by
  decide +kernel

/-- the by-value subtraction `mag1 - r.into_typed()` of the Euclidean fix-up never reaches `panic_negative_ubig`: for a
    divisor stored with the length of its value (what `Repr::from_buffer` guarantees) and every `rm ≤ |b|` (the fix-up runs
    with `0 < rm < |b|`) the `UBig - UBig` skeleton it runs has no panic arm — in the by-value and the borrowed-divisor form -/
theorem euclid_fix_sub_no_panic (W : Nat) (bVal : Bool) (b : List Nat) (rm : Nat)
    (hb : b.length = wordLen W (wval W b)) (hrm : rm ≤ wval W b) :
    (fragSub W (if bVal then .vv else .rv) b (trimmed W rm)).panic = none :=
  Dashu.Proofs.Mem.euclid_fix_sub_no_panic W bVal b rm hb hrm

-- non-vacuity: a 3-word divisor with the length of its value, remainder 2^64 (two words)
example : [5, 6, 7].length = wordLen 64 (wval 64 [5, 6, 7]) ∧ 2 ^ 64 ≤ wval 64 [5, 6, 7] := by decide +kernel

/-- **the division storage skeletons panic only on a zero divisor** (round 7; was "observed, not proved"): for `UBig / UBig`,
    `UBig % UBig`, `UBig::div_rem` and `IBig`'s `div_euclid` / `rem_euclid` / `div_rem_euclid` skeletons, in every ownership
    form, sign pair and for ANY operand words, `Dashu.Proofs.Mem.DivPanicSpec W b fr` holds: the only panic is the documented
    `divideByZero`; there is none when the divisor's value is non-zero; and an inline zero divisor (≤ 2 words — the only zero a
    canonical `Repr` can be) always panics.  (The UBig `div_euclid` family forwards to these; IBig `/ % div_rem` are sign glue
    over them.)  The Euclidean fix-up subtraction adds no panic arm by `euclid_fix_sub_no_panic`. -/
theorem div_skeletons_panic_only_on_zero_divisor (W : Nat) (f : Form) (na nb wantRem : Bool) (a b : List Nat) :
    Dashu.Proofs.Mem.DivPanicSpec W b (fragDivRem W wantRem f a b) ∧
    Dashu.Proofs.Mem.DivPanicSpec W b (fragDivRemBoth W f a b) ∧
    Dashu.Proofs.Mem.DivPanicSpec W b (fragSignedDivEuclid W f na a nb b) ∧
    Dashu.Proofs.Mem.DivPanicSpec W b (fragSignedRemEuclid W f na a b) ∧
    Dashu.Proofs.Mem.DivPanicSpec W b (fragSignedDivRemEuclid W f na a nb b) :=
  ⟨Dashu.Proofs.Mem.fragDivRem_panic W wantRem f a b, Dashu.Proofs.Mem.fragDivRemBoth_panic W f a b,
   Dashu.Proofs.Mem.fragSignedDivEuclid_panic W f na a nb b, Dashu.Proofs.Mem.fragSignedRemEuclid_panic W f na a b,
   Dashu.Proofs.Mem.fragSignedDivRemEuclid_panic W f na a nb b⟩

/-- what `DivPanicSpec` says, spelled out -/
theorem div_panic_spec_unfold (W : Nat) (b : List Nat) (fr : Frag) :
    Dashu.Proofs.Mem.DivPanicSpec W b fr ↔
      ((fr.panic = none ∨ fr.panic = some .divideByZero) ∧ (wval W b ≠ 0 → fr.panic = none) ∧
       (isSmall b = true → wval W b = 0 → fr.panic = some .divideByZero)) := Iff.rfl

-- non-vacuity: both outcomes occur — a 5-word by 3-word Euclidean division of a negative dividend runs to the end, the same
-- with an empty (zero) divisor panics; the non-zero-divisor clause applied to a concrete input
example : (fragSignedDivRemEuclid 64 .vv true [1, 2, 3, 4, 5] false [7, 8, 9]).panic = none ∧
    (fragSignedDivRemEuclid 64 .rv true [1, 2, 3, 4, 5] true []).panic = some .divideByZero ∧
    (fragDivRem 64 true .rr [1, 2, 3] [0]).panic = some .divideByZero := by decide +kernel
example := (div_skeletons_panic_only_on_zero_divisor 64 .vv true false true [1, 2, 3, 4, 5] [7, 8, 9]).2.2.2.1.2.1 (by decide)

/-- **the add / sub storage skeletons and their panic arm** (round 8; was "observed, not proved").  For ANY operand words,
    every ownership form and sign: `UBig + UBig` has no panic arm; `IBig + IBig` and `IBig - IBig` (`fragSigned`, op 0 / 1: `add` or
    `sub_signed` on the magnitudes) have none; `UBig - UBig` has only the documented `panic_negative_ubig`, taken exactly under the
    branch conditions `Dashu.Proofs.Mem.subUnderflowArm` (spelled out in `sub_underflow_arm_unfold`). -/
theorem addsub_skeletons_panic_arms (W sqrSimple : Nat) (f : Form) (na nb : Bool) (a b : List Nat) :
    (fragAdd W f a b).panic = none ∧
    (fragSigned W sqrSimple 0 f na a nb b).panic = none ∧ (fragSigned W sqrSimple 1 f na a nb b).panic = none ∧
    ((fragSub W f a b).panic = none ∨ (fragSub W f a b).panic = some .negativeUBig) ∧
    ((fragSub W f a b).panic = some .negativeUBig ↔ Dashu.Proofs.Mem.subUnderflowArm W a b) :=
  ⟨Dashu.Proofs.Mem.fragAdd_no_panic W f a b,
   Dashu.Proofs.Mem.fragSigned_addsub_no_panic W sqrSimple 0 (Or.inl rfl) f na a nb b,
   Dashu.Proofs.Mem.fragSigned_addsub_no_panic W sqrSimple 1 (Or.inr rfl) f na a nb b,
   (Dashu.Proofs.Mem.fragSub_panic_any W f a b).1, (Dashu.Proofs.Mem.fragSub_panic_any W f a b).2⟩

/-- what `subUnderflowArm` says, spelled out: both inline — by value; inline minus heap — always; heap minus inline — never;
    heap minus heap — shorter or smaller -/
theorem sub_underflow_arm_unfold (W : Nat) (a b : List Nat) :
    Dashu.Proofs.Mem.subUnderflowArm W a b ↔
      (if isSmall a && isSmall b then wval W a < wval W b
       else if isSmall a then True
       else if isSmall b then False
       else a.length < b.length ∨ wval W a < wval W b) := Iff.rfl

/-- **`UBig - UBig` panics iff the result would be negative** (round 8): for operands stored with the length of their value
    (what `Repr::from_buffer` / `from_dword` guarantee: no leading zero word) the skeleton's panic is `panic_negative_ubig` when
    `a < b` as values and there is none otherwise — in every ownership form.  (Without the hypothesis the length tests of
    `sub_large` / the `(Small, Large)` arm are not value tests: see `sub_underflow_arm_unfold`.) -/
theorem sub_skeleton_panics_iff_negative (W : Nat) (f : Form) (a b : List Nat)
    (ha : a.length = wordLen W (wval W a)) (hb : b.length = wordLen W (wval W b)) :
    (fragSub W f a b).panic = if wval W a < wval W b then some .negativeUBig else none :=
  Dashu.Proofs.Mem.fragSub_panic_canonical W f a b ha hb

-- non-vacuity: operands stored with the length of their value on both sides of the test, in the arms that only look at lengths
example : [5, 6, 7].length = wordLen 64 (wval 64 [5, 6, 7]) ∧ [9, 9].length = wordLen 64 (wval 64 [9, 9]) ∧
    (fragSub 64 .rv [9, 9] [5, 6, 7]).panic = some .negativeUBig ∧ (fragSub 64 .rv [5, 6, 7] [9, 9]).panic = none ∧
    (fragSub 64 .rr [5, 6, 7] [5, 6, 8]).panic = some .negativeUBig ∧ (fragSub 64 .vv [5, 6, 8] [5, 6, 7]).panic = none ∧
    (fragSigned 64 32 1 .vv false [5, 6, 7] false [5, 6, 8]).panic = none := by decide +kernel
example := sub_skeleton_panics_iff_negative 64 .rr [5, 6, 7] [5, 6, 8] (by decide +kernel) (by decide +kernel)
-- without the hypothesis the (Small, Large) arm panics although 9 > 0: a three-word zero is not a state a `Repr` can be in
example : (fragSub 64 .rr [9] [0, 0, 0]).panic = some .negativeUBig := by decide +kernel

/-- **the bit-operation and shift skeletons** (round 8): `UBig & | ^ UBig`, `and_not`, `UBig >> n` have no panic arm for ANY words,
    form and shift count; `UBig << n` has only the documented allocation panic (`Buffer::allocate` beyond `MAX_CAPACITY = mx`,
    before any allocator call), and none when `n / W + len + 3 ≤ mx`. -/
theorem bit_shift_skeletons_panic_arms (W mx : Nat) (op : BitOp) (f : Form) (byVal : Bool) (a b : List Nat) (n : Nat) :
    (fragBit W op f a b).panic = none ∧ (fragAndNot W f a b).panic = none ∧ (fragShr W byVal a n).panic = none ∧
    ((fragShl W mx byVal a n).panic = none ∨ (fragShl W mx byVal a n).panic = some .allocTooMuch) ∧
    (n / W + a.length + 3 ≤ mx → (fragShl W mx byVal a n).panic = none) :=
  ⟨Dashu.Proofs.Mem.fragBit_no_panic W op f a b, Dashu.Proofs.Mem.fragAndNot_no_panic W f a b,
   Dashu.Proofs.Mem.fragShr_no_panic W byVal a n, (Dashu.Proofs.Mem.fragShl_panic W mx byVal a n).1,
   (Dashu.Proofs.Mem.fragShl_panic W mx byVal a n).2⟩

-- non-vacuity: a shift that fits and one whose request exceeds MAX_CAPACITY (both outcomes of the `<<` clause occur)
example : (fragShl 64 1000 true [1, 2, 3] 640).panic = none ∧ (fragShl 64 1000 false [1, 2, 3] 64000).panic = some .allocTooMuch := by
  decide +kernel
example := (bit_shift_skeletons_panic_arms 64 1000 .xor .rv true [1, 2, 3] [4, 5, 6, 7] 640).2.2.2.2 (by decide)

/-- the flag-tracking Lehmer loop of the gcd skeleton has, as its value, C12's mirrored `lehmerGcdLoop` — for every fuel,
    operands and initial flag (the flag is the only thing C17 adds to C12's kernel) -/
theorem gcd_skeleton_value_is_c12_loop (W fuel x y : Nat) (sw : Bool) :
    (lehmerGcdLoopSw W fuel x y sw).map Prod.fst = NT.lehmerGcdLoop W fuel x y :=
  Dashu.Proofs.Mem.lehmerGcdLoopSw_fst W fuel x y sw

/-- the high half of the work buffer that `UBig::sqrt()` hands to `from_buffer` (`sqrtLeftover`) is computed from the same
    inner call and the same `kDiv` as the top level of C12's mirrored `sqrtRemRec` (fuel `n`, as `sqrtRemKernel` runs
    it): it is the `a_hi` that `kSub` subtracts there -/
theorem sqrt_leftover_is_kernel_state (W : Nat) (prim : Nat → Nat × Nat) (n a : Nat) (hn : 2 < n) :
    (NT.sqrtRemRec W prim n n a =
      (let split := n / 2
       let h := n - split
       let B := 2 ^ (W * split)
       let (s1, r1, r1top) := NT.sqrtRemRec W prim (n - 1) h (a / (B * B))
       NT.kStep B (2 ^ (W * split - 1)) (2 ^ (W * h)) (2 ^ (W * n)) (decide (2 * split < n)) s1 r1 r1top (a / B % B) (a % B))) ∧
    (sqrtLeftover W prim n a =
      (let split := n / 2
       let h := n - split
       let B := 2 ^ (W * split)
       let (s1, r1, r1top) := NT.sqrtRemRec W prim (n - 1) h (a / (B * B))
       let (qlo, qtop, _, _) := NT.kDiv B (2 ^ (W * split - 1)) (2 ^ (W * h)) s1 r1 r1top (a / B % B)
       if decide (2 * split < n) then (if qtop then 0 else qlo * qlo) + (if qtop then B * B else 0)
       else (if qtop then 0 else qlo * qlo))) ∧
    (∀ (B Mn : Nat) (odd : Bool) (qlo : Nat) (qtop : Bool) (u : Nat) (c : Int) (b0 : Nat),
      (NT.kSub B Mn odd qlo qtop u c b0).1 =
        (u * B + b0 + Mn -
          (if odd then (if qtop then 0 else qlo * qlo) + (if qtop then B * B else 0) else (if qtop then 0 else qlo * qlo))) % Mn) :=
  ⟨Dashu.Proofs.Mem.sqrtRemRec_top W prim n a hn, Dashu.Proofs.Mem.sqrtLeftover_top W prim n a hn,
   Dashu.Proofs.Mem.kSub_uses_leftover⟩

example := sqrt_leftover_is_kernel_state 64 (NT.sqrtRemDwordM 64) 3 (2 ^ 383 + 12345) (by decide)

-- `sqrt` of the 6-word value 2^320 + 5 (shifted by 62 bits to 2^382 + 5·2^62, n = 3): the root 2^191 has a zero low word, so
-- `q = 0` and the high half of the work buffer is zero: `from_buffer` pops the buffer down to the one-word remainder and
-- frees it on the spot; for 2^383 + 12345 (root ≈ 2^191.5) the high half holds q² ≠ 0 and the buffer survives until `.1` drops
example : sqrtLeftover 64 (NT.sqrtRemDwordM 64) 3 (2 ^ 382 + 5 * 2 ^ 62) = 0 := by decide +kernel
example : sqrtLeftover 64 (NT.sqrtRemDwordM 64) 3 (2 ^ 383 + 12345) ≠ 0 := by decide +kernel
-- `gcd` of two 3-word values by reference: both copied, scratch-free Lehmer, result from one copy, the other dropped
example : ((fragGcd 64 .rr [6, 0, 9] [4, 0, 6]).ops.take 2, (fragGcd 64 .rr [6, 0, 9] [4, 0, 6]).panic) =
    ([.bufFromView 2 0, .bufFromView 3 1], none) := by decide +kernel
-- `gcd_ext` with both operands large and by value: no copy, the scratch block is the first event
example : (fragGcdExt 64 .vv [1, 2, 3, 4] [5, 6, 7]).ops.take 3 =
    [.intoTyped 0, .intoTyped 1, .allocScratch 7 (gcdExtScratchWords 4 3)] := by decide +kernel
example : gcdExtScratchWords 4 3 = 17 := by decide +kernel   -- 7 (clones) + max(10 (t0, t1), 7 (residue))

/-- **Tie A for the scratch blocks**: the sizes of the `MemoryAllocation` blocks in the storage skeletons (`mul`, `sqr`, `div`,
    `sqrt_rem` / `sqrt`, `gcd`, `gcd_ext`) are the formulas REGENERATED from /repo (`Dashu.Gen.Scratch`, vlib/extract_scratch.py:
    `memory_requirement_*` of mul / karatsuba / toom_3 / sqr / div / divide_conquer / root / gcd / lehmer and the
    `clone_mem / gcd_mem / post_mem` combination inside gcd_ops.rs `gcd_ext_large`), with `math::ceil_log2` = `ceilLog2`.
    A change of any of these source lines breaks this theorem (or the build), not only the sampled allocator streams. -/
theorem scratch_formulas_regenerated (t n la lb : Nat) :
    mulScratchWords n = Dashu.Gen.Scratch.mul_memory_requirement_up_to ceilLog2 t n ∧
    sqrScratchWords Dashu.Gen.sqr_MAX_LEN_SIMPLE n = Dashu.Gen.Scratch.sqr_memory_requirement_exact ceilLog2 n ∧
    divScratchWords la lb = Dashu.Gen.Scratch.div_memory_requirement_exact ceilLog2 la lb ∧
    sqrtScratchWords Dashu.Gen.sqr_MAX_LEN_SIMPLE n = Dashu.Gen.Scratch.root_memory_requirement_sqrt_rem ceilLog2 n ∧
    gcdScratchWords lb = Dashu.Gen.Scratch.gcd_large_scratch_words ceilLog2 la lb ∧
    gcdExtScratchWords la lb = Dashu.Gen.Scratch.gcd_ext_large_scratch_words ceilLog2 la lb := by
  have hmul : ∀ t n, mulScratchWords n = Dashu.Gen.Scratch.mul_memory_requirement_up_to ceilLog2 t n := by
    intro t n
    unfold mulScratchWords Dashu.Gen.Scratch.mul_memory_requirement_up_to Dashu.Gen.Scratch.karatsuba_memory_requirement_up_to Dashu.Gen.Scratch.toom_3_memory_requirement_up_to
    rfl
  have hsqr : ∀ n, sqrScratchWords Dashu.Gen.sqr_MAX_LEN_SIMPLE n = Dashu.Gen.Scratch.sqr_memory_requirement_exact ceilLog2 n := by
    intro n
    unfold sqrScratchWords Dashu.Gen.Scratch.sqr_memory_requirement_exact
    rw [hmul (2 * n) n]
  have hdiv : ∀ la lb, divScratchWords la lb = Dashu.Gen.Scratch.div_memory_requirement_exact ceilLog2 la lb := by
    intro la lb
    unfold divScratchWords Dashu.Gen.Scratch.div_memory_requirement_exact Dashu.Gen.Scratch.divide_conquer_memory_requirement_exact
    rw [hmul lb]
  refine ⟨hmul t n, hsqr n, hdiv la lb, ?_, ?_, ?_⟩
  · unfold sqrtScratchWords Dashu.Gen.Scratch.root_memory_requirement_sqrt_rem
    rw [hsqr, hdiv]
  · unfold gcdScratchWords Dashu.Gen.Scratch.gcd_large_scratch_words Dashu.Gen.Scratch.gcd_memory_requirement_exact Dashu.Gen.Scratch.lehmer_memory_requirement_up_to
    exact hmul lb (lb / 2)
  · unfold gcdExtScratchWords Dashu.Gen.Scratch.gcd_ext_large_scratch_words Dashu.Gen.Scratch.gcd_memory_requirement_ext_exact Dashu.Gen.Scratch.lehmer_memory_requirement_ext_up_to
      Dashu.Gen.Scratch.mul_memory_requirement_exact
    simp only [hdiv, hmul la (la / 2), hmul (la + lb) lb]

/-- memory.rs:58 `self.start.wrapping_add(self.layout.size())` never wraps: in the dangling arm (`size = 0`) the end is the
    start (= the alignment, `< 2^U`); in the `alloc` arm the `GlobalAlloc` contract — the returned block
    `[start, start + size)` lies inside the address space (hypothesis `hs`, the one fact taken from the allocator) — gives
    `start + size < 2^U`.  So the `Memory` chunk handed to the bump allocator is exactly `[start, start + size)`, the block
    the `bump_*` theorems speak about. -/
theorem memory_end_does_not_wrap {U : Nat} {l : Lay.Layout} (h : l.Valid U) (start : Nat)
    (hs : match Lay.memoryAllocationNew U l with
          | .dangling a => start = a
          | .alloc size _ => start + size < 2 ^ U
          | .tooMuch => False) :
    Lay.memoryOf U start l = ⟨start, start + l.size⟩ := by
  obtain ⟨_, hz, hnz⟩ := Lay.memoryAllocationNew_contract h
  unfold Lay.memoryOf
  by_cases h0 : l.size = 0
  · rw [(hz h0).1] at hs
    simp only at hs
    subst hs
    have : l.align < 2 ^ U := by
      unfold Lay.Layout.align
      exact Nat.pow_lt_pow_right (by decide) h.1
    rw [h0, Nat.add_zero, Nat.mod_eq_of_lt this]
  · rw [(hnz h0).1] at hs
    simp only at hs
    rw [Nat.mod_eq_of_lt hs]

example := memory_end_does_not_wrap (U := 64) (l := ⟨328, 3⟩)
  (by unfold Lay.Layout.Valid Lay.maxSizeForAlign Lay.isizeMax; decide) 0x7f0000001000
  (by show (match Lay.memoryAllocationNew 64 ⟨328, 3⟩ with
            | .dangling a => 0x7f0000001000 = a | .alloc size _ => 0x7f0000001000 + size < 2 ^ 64 | .tooMuch => False)
      rw [show Lay.memoryAllocationNew 64 ⟨328, 3⟩ = .alloc 328 8 from by decide +kernel]; decide)
example : Lay.memoryOf 64 (2 ^ 64 - 8) ⟨328, 3⟩ = ⟨2 ^ 64 - 8, 320⟩ := by decide +kernel   -- what the hypothesis excludes

end Dashu.Props.C17
