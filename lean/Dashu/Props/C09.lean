import Dashu.Proofs.Int.Bits
namespace Dashu.Props.C09
open Dashu.Model
theorem placeholder : True := trivial
end Dashu.Props.C09
