import Dashu.Proofs.Int.Bits
import Dashu.Proofs.Int.BitsPrim
import Dashu.Proofs.Int.BitsSpecFast
import Dashu.Proofs.Int.BitsTz
/-
  C09 — Bit operations follow infinite two's-complement semantics.

  Property theorems only (helper lemmas live in `Dashu/Proofs/Int/Bits.lean`).  Every statement
  quantifies over all word sizes `W ≥ 1` and all operands in canonical form (`TRepr.Canon`,
  `SCanon`: what every constructor and operation of the library produces — the producer side of
  that claim is C05/C17); nothing is bounded in length.

  Specification side (`Dashu/Model/Int/Bits.lean`, section "spec"):
    `specBit x i`   bit `i` of `x` in two's complement with infinitely many sign bits
                    (= `(x / 2^i) % 2 = 1` with floor division; proved equal to Mathlib's `Int.testBit`)
    `specAnd/specOr/specXor/compl`  computed through complement identities on naturals and proved
                    below to be *characterised bit by bit* (`spec_and_bits` …) — and an integer is
                    determined by its bits (`int_determined_by_bits`), so these are the only
                    functions with that property.
-/
namespace Dashu.Props.C09
open Dashu.Model

-- ================================================================== the specification is two's complement

/-- the spec's bit function is Mathlib's `Int.testBit` -/
theorem spec_bit_is_testBit (x : Int) (i : Nat) : specBit x i = Int.testBit x i :=
  specBit_eq_testBit x i

/-- an integer is determined by its two's-complement bits -/
theorem int_determined_by_bits (a b : Int) (h : ∀ i, specBit a i = specBit b i) : a = b :=
  int_eq_of_specBit_eq a b h

theorem spec_and_bits (x y : Int) (i : Nat) : specBit (specAnd x y) i = (specBit x i && specBit y i) :=
  specBit_specAnd x y i
theorem spec_or_bits (x y : Int) (i : Nat) : specBit (specOr x y) i = (specBit x i || specBit y i) :=
  specBit_specOr x y i
theorem spec_xor_bits (x y : Int) (i : Nat) : specBit (specXor x y) i = (specBit x i ^^ specBit y i) :=
  specBit_specXor x y i
theorem spec_not_bits (x : Int) (i : Nat) : specBit (compl x) i = !specBit x i :=
  specBit_compl x i

-- ================================================================== & | ^ ! on IBig (sign tables of bits.rs)

/-- `IBig & IBig` (impl_ibig_bitand ∘ unsigned and/or/and_not ∘ sub_one/add_one): every bit of the
    result is the AND of the operand bits, and the result is canonical. -/
theorem ibig_and (W : Nat) (hW : 1 ≤ W) (a b : SRepr) (ha : SCanon W a) (hb : SCanon W b) :
    (∀ i, Int.testBit ((ibigAnd W a b).value W) i
        = (Int.testBit (a.value W) i && Int.testBit (b.value W) i)) ∧
    SCanon W (ibigAnd W a b) := by
  have ⟨e, c⟩ := ibigAnd_spec W hW a b ha hb
  refine ⟨fun i => ?_, c⟩
  rw [e, specAnd_eq_land, Int.testBit_land]

/-- `IBig | IBig` -/
theorem ibig_or (W : Nat) (hW : 1 ≤ W) (a b : SRepr) (ha : SCanon W a) (hb : SCanon W b) :
    (∀ i, Int.testBit ((ibigOr W a b).value W) i
        = (Int.testBit (a.value W) i || Int.testBit (b.value W) i)) ∧
    SCanon W (ibigOr W a b) := by
  have ⟨e, c⟩ := ibigOr_spec W hW a b ha hb
  refine ⟨fun i => ?_, c⟩
  rw [e, specOr_eq_lor, Int.testBit_lor]

/-- `IBig ^ IBig` -/
theorem ibig_xor (W : Nat) (hW : 1 ≤ W) (a b : SRepr) (ha : SCanon W a) (hb : SCanon W b) :
    (∀ i, Int.testBit ((ibigXor W a b).value W) i
        = (Int.testBit (a.value W) i ^^ Int.testBit (b.value W) i)) ∧
    SCanon W (ibigXor W a b) := by
  have ⟨e, c⟩ := ibigXor_spec W hW a b ha hb
  refine ⟨fun i => ?_, c⟩
  rw [e, specXor_eq_xor, Int.testBit_lxor]

/-- `!IBig` -/
theorem ibig_not (W : Nat) (hW : 1 ≤ W) (a : SRepr) (ha : SCanon W a) :
    (∀ i, Int.testBit ((ibigNot W a).value W) i = !Int.testBit (a.value W) i) ∧
    (ibigNot W a).value W = -(a.value W) - 1 ∧ SCanon W (ibigNot W a) := by
  have ⟨e, c⟩ := ibigNot_spec W hW a ha
  refine ⟨fun i => ?_, e, c⟩
  rw [e, compl_eq_lnot, Int.testBit_lnot]

/-- the same tables as *values*: what the driver compares on every run -/
theorem ibig_and_value (W : Nat) (hW : 1 ≤ W) (a b : SRepr) (ha : SCanon W a) (hb : SCanon W b) :
    (ibigAnd W a b).value W = specAnd (a.value W) (b.value W) := (ibigAnd_spec W hW a b ha hb).1
theorem ibig_or_value (W : Nat) (hW : 1 ≤ W) (a b : SRepr) (ha : SCanon W a) (hb : SCanon W b) :
    (ibigOr W a b).value W = specOr (a.value W) (b.value W) := (ibigOr_spec W hW a b ha hb).1
theorem ibig_xor_value (W : Nat) (hW : 1 ≤ W) (a b : SRepr) (ha : SCanon W a) (hb : SCanon W b) :
    (ibigXor W a b).value W = specXor (a.value W) (b.value W) := (ibigXor_spec W hW a b ha hb).1

/-- `UBig & IBig -> UBig` and `IBig & UBig -> UBig` give the same value as converting both operands
    to `IBig` first (the result of the signed AND is then non-negative) -/
theorem mixed_and (W : Nat) (a : TRepr) (b : SRepr) (ha : a.Canon W) (hb : SCanon W b) :
    ((ubigIbigAnd W a b).value W : Int) = specAnd (a.value W) (b.value W) ∧
    ((ibigUbigAnd W b a).value W : Int) = specAnd (b.value W) (a.value W) ∧
    (ubigIbigAnd W a b).Canon W ∧ (ibigUbigAnd W b a).Canon W :=
  ⟨(ubigIbigAnd_spec W a b ha hb).1, (ibigUbigAnd_spec W b a hb ha).1,
   (ubigIbigAnd_spec W a b ha hb).2, (ibigUbigAnd_spec W b a hb ha).2⟩

/-- primitive forms (`IBig & u8 -> u8` etc.): `x & v` with `0 ≤ v` lies in `[0, v]`, hence the
    `try_into().unwrap()` of `impl_binop_with_primitive` cannot fail -/
theorem and_with_nonneg_fits (x : Int) (v : Nat) : 0 ≤ specAnd x v ∧ specAnd x v ≤ v := by
  rcases Int.lt_or_le x 0 with hx | hx
  · obtain ⟨m, rfl⟩ : ∃ m : Nat, x = -(m : Int) := ⟨x.natAbs, by omega⟩
    have hm : m ≠ 0 := by omega
    rw [specAnd_np m v hm]
    have := natAndNot_le v (m - 1)
    omega
  · obtain ⟨m, rfl⟩ : ∃ m : Nat, x = (m : Int) := ⟨x.toNat, by omega⟩
    rw [specAnd_pp]
    have := @Nat.and_le_right m v
    omega

/-- unsigned operators on magnitudes (all four ownership variants are this function) -/
theorem ubig_and_or_xor (W : Nat) (a b : TRepr) (ha : a.Canon W) (hb : b.Canon W) :
    ((a.bitand W b).value W = a.value W &&& b.value W ∧ (a.bitand W b).Canon W) ∧
    ((a.bitor W b).value W = a.value W ||| b.value W ∧ (a.bitor W b).Canon W) ∧
    ((a.bitxor W b).value W = a.value W ^^^ b.value W ∧ (a.bitxor W b).Canon W) ∧
    ((∀ i, ((a.andNot W b).value W).testBit i = ((a.value W).testBit i && !(b.value W).testBit i)) ∧
      (a.andNot W b).Canon W) := by
  refine ⟨TRepr.bitand_spec W a b ha hb, TRepr.bitor_spec W a b ha hb, TRepr.bitxor_spec W a b ha hb,
    fun i => ?_, (TRepr.andNot_spec W a b ha hb).2⟩
  rw [(TRepr.andNot_spec W a b ha hb).1, testBit_natAndNot]

-- ================================================================== shifts

/-- `<<` is multiplication by `2^n` (UBig and, with the sign carried over, IBig) -/
theorem shl_exact (W : Nat) (hW : 1 ≤ W) (m : TRepr) (n : Nat) (hm : m.Canon W) :
    (m.shl W n).value W = m.value W * 2 ^ n ∧ (m.shl W n).Canon W :=
  TRepr.shl_spec W hW m n hm

theorem ibig_shl_exact (W : Nat) (hW : 1 ≤ W) (a : SRepr) (n : Nat) (ha : SCanon W a) :
    (ibigShl W a n).value W = specShl (a.value W) n ∧ SCanon W (ibigShl W a n) := by
  have ⟨e, c⟩ := TRepr.shl_spec W hW a.mag n ha.1
  refine ⟨?_, withSign_wf W _ _ c⟩
  unfold ibigShl specShl
  rw [withSign_value, e]
  obtain ⟨an, am⟩ := a
  cases an <;> simp

/-- UBig `>>` is division by `2^n`, in both the owning and the borrowing implementation -/
theorem shr_exact (W : Nat) (hW : 1 ≤ W) (m : TRepr) (n : Nat) (byRef : Bool) (hm : m.Canon W) :
    (m.shr W n byRef).value W = m.value W / 2 ^ n ∧ (m.shr W n byRef).Canon W :=
  TRepr.shr_spec W hW m n byRef hm

/-- IBig `>>` is floor division by `2^n`, for all inputs (code as it is: `are_dword_low_bits_nonzero`
    clamps to `DWORD_BITS`, fix commit 94ebcdb). -/
theorem ibig_shr_floor (W : Nat) (hW : 1 ≤ W) (a : SRepr) (n : Nat) (byRef : Bool)
    (ha : SCanon W a) :
    ibigShr W true a n byRef = (a.value W) / (2 : Int) ^ n :=
  ibigShr_fixed W hW a n byRef ha

/-- The model of the code *as it was* (`fx = false`, clamp to `WORD_BITS`) is floor division exactly
    outside the class `shrDefect` (negative inline value, `n > W`, low word zero, a set bit among
    bits `W .. min(n,2W)-1`) … -/
theorem ibig_shr_asis_outside_defect (W : Nat) (hW : 1 ≤ W) (a : SRepr) (n : Nat) (byRef : Bool)
    (ha : SCanon W a) (hnd : shrDefect W a n = false) :
    ibigShr W false a n byRef = (a.value W) / (2 : Int) ^ n :=
  ibigShr_asis W hW a n byRef ha hnd

/-- … and wrong inside it: `(-(2^64)) >> 100` was `0`, floor division gives `-1`
    (why fix 94ebcdb was needed; `fx = false` is a separately kept model of the old code). -/
theorem ibig_shr_asis_counterexample :
    SCanon 64 ⟨true, .small (2 ^ 64)⟩ ∧ shrDefect 64 ⟨true, .small (2 ^ 64)⟩ 100 = true ∧
    ibigShr 64 false ⟨true, .small (2 ^ 64)⟩ 100 = 0 ∧
    ibigShr 64 true ⟨true, .small (2 ^ 64)⟩ 100 = -1 ∧
    (SRepr.value 64 ⟨true, .small (2 ^ 64)⟩) / (2 : Int) ^ 100 = -1 := by
  refine ⟨by decide, by decide, by decide, by decide, by decide⟩

-- ================================================================== bit tests and scans

/-- `UBig::bit(n)`: the `n`-th binary digit of the value -/
theorem ubig_bit (W : Nat) (hW : 1 ≤ W) (m : TRepr) (n : Nat) (hm : m.Canon W) :
    m.bit W n = (m.value W).testBit n :=
  TRepr.bit_spec W hW m n hm

/-- `IBig::bit(n)`: the `n`-th two's-complement bit, for every sign (the negative arm is the
    trailing-zeros trick of `BitTest for IBig`) — and never the `unwrap()` panic -/
theorem ibig_bit (W : Nat) (hW : 1 ≤ W) (a : SRepr) (n : Nat) (ha : SCanon W a) :
    ibigBit W a n = .ok (Int.testBit (a.value W) n) := by
  rw [ibigBit_spec W hW a n ha, specBit_eq_testBit]

/-- `trailing_zeros`: `None` exactly for 0, otherwise the `k` with `2^k ∣ x` and `x / 2^k` odd
    (unique: `IsTz.unique`); no index panic for canonical values.  `IBig::trailing_zeros` is this
    function applied to the magnitude (the 2-adic valuation does not depend on the sign). -/
theorem trailing_zeros (W : Nat) (m : TRepr) (hm : m.Canon W) :
    (m.value W = 0 → m.trailingZeros W = .ok none) ∧
    (m.value W ≠ 0 → ∃ k, m.trailingZeros W = .ok (some k) ∧ IsTz (m.value W) k) :=
  TRepr.trailingZeros_spec W m hm

theorem trailing_count_unique {n k k' : Nat} (h : IsTz n k) (h' : IsTz n k') : k = k' := h.unique h'

/-- `trailing_ones` of a non-negative value `x` (code as it is, fix commit 754b193): the `k` with
    `2^k ∣ x + 1` and `(x+1) / 2^k` odd, i.e. bits `0..k-1` are ones and bit `k` is zero; never a
    panic.  Full statement, all lengths. -/
theorem trailing_ones (W : Nat) (m : TRepr) (hm : m.Canon W) :
    ∃ k, m.trailingOnes W true = .ok k ∧ IsTz (m.value W + 1) k :=
  TRepr.trailingOnes_fixed W m hm

/-- the old scan (`fx = false`: start at word index 1) agrees with the current one exactly
    outside the class `toDefect` … -/
theorem trailing_ones_asis_outside_defect (W : Nat) (m : TRepr) (hm : m.Canon W)
    (hnd : toDefect W m = false) : m.trailingOnes W false = m.trailingOnes W true :=
  TRepr.trailingOnes_asis W m hm hnd

/-- … and was wrong inside it: `2^200 + 0b10111` gave 64 (should be 3), `2^192 - 1` indexed past
    the end (should be 192) — why fix 754b193 was needed. -/
theorem trailing_ones_asis_counterexample :
    (TRepr.large [0b10111, 0, 0, 2 ^ 8]).Canon 64 ∧
    (TRepr.large [0b10111, 0, 0, 2 ^ 8]).trailingOnes 64 false = .ok 64 ∧
    (TRepr.large [0b10111, 0, 0, 2 ^ 8]).trailingOnes 64 true = .ok 3 ∧
    (TRepr.large [2 ^ 64 - 1, 2 ^ 64 - 1, 2 ^ 64 - 1]).Canon 64 ∧
    (TRepr.large [2 ^ 64 - 1, 2 ^ 64 - 1, 2 ^ 64 - 1]).trailingOnes 64 false = .error oob ∧
    (TRepr.large [2 ^ 64 - 1, 2 ^ 64 - 1, 2 ^ 64 - 1]).trailingOnes 64 true = .ok 192 := by
  refine ⟨by decide, by decide, by decide, by decide, by decide, by decide⟩

-- ================================================================== masks and splits

/-- `UBig::ones(n) = 2^n - 1`, canonical for every `n` (code as it is, fix commit 283f2ad) -/
theorem ones_exact (W : Nat) (hW : 1 ≤ W) (n : Nat) :
    (reprOnes W true n).value W = 2 ^ n - 1 ∧ (reprOnes W true n).Canon W :=
  ⟨reprOnes_value W true n, reprOnes_canon_fixed W hW n⟩

/-- the old `Repr::ones` had the right value but a non-canonical form at `n = 2W` (C05/C17) -/
theorem ones_asis_counterexample :
    (reprOnes 64 false 128).value 64 = 2 ^ 128 - 1 ∧ ¬ (reprOnes 64 false 128).Canon 64 := by
  refine ⟨by decide, by decide⟩

/-- `clear_high_bits(n)` keeps exactly the low `n` bits: `x mod 2^n` -/
theorem clear_high_bits (W : Nat) (hW : 1 ≤ W) (m : TRepr) (n : Nat) (hm : m.Canon W) :
    (m.clearHighBits W n).value W = m.value W % 2 ^ n ∧ (m.clearHighBits W n).Canon W :=
  TRepr.clearHighBits_spec W hW m n hm

/-- `split_bits(n) = (x mod 2^n, x div 2^n)` -/
theorem split_bits (W : Nat) (hW : 1 ≤ W) (m : TRepr) (n : Nat) (hm : m.Canon W) :
    ((m.splitBits W n).1.value W = m.value W % 2 ^ n ∧ (m.splitBits W n).1.Canon W) ∧
    ((m.splitBits W n).2.value W = m.value W / 2 ^ n ∧ (m.splitBits W n).2.Canon W) :=
  TRepr.splitBits_spec W hW m n hm

/-- `bit_len`: 0 for 0, otherwise the `k` with `2^(k-1) ≤ x < 2^k` (`IBig::bit_len` applies it to
    the magnitude, as `dashu_base::BitTest` documents) -/
theorem bit_len (W : Nat) (m : TRepr) (hm : m.Canon W) :
    m.bitLen W = bitLenNat (m.value W) ∧
    m.value W < 2 ^ bitLenNat (m.value W) ∧
    (m.value W ≠ 0 → 2 ^ (bitLenNat (m.value W) - 1) ≤ m.value W) :=
  ⟨TRepr.bitLen_spec W m hm, (bitLenNat_spec _).1, (bitLenNat_spec _).2⟩

-- ================================================================== set / clear bit, counts, powers of two

/-- `set_bit(n)`: bit `n` becomes 1, every other bit is unchanged; canonical -/
theorem set_bit (W : Nat) (hW : 1 ≤ W) (m : TRepr) (n : Nat) (hm : m.Canon W) :
    (∀ i, ((m.setBit W n).value W).testBit i = (decide (n = i) || (m.value W).testBit i)) ∧
    (m.setBit W n).value W = m.value W ||| 2 ^ n ∧ (m.setBit W n).Canon W := by
  have ⟨e, c⟩ := TRepr.setBit_spec W hW m n hm
  refine ⟨fun i => ?_, e, c⟩
  rw [e, Nat.testBit_or, Nat.testBit_two_pow, Bool.or_comm]

/-- `clear_bit(n)`: bit `n` becomes 0, every other bit is unchanged; canonical -/
theorem clear_bit (W : Nat) (hW : 1 ≤ W) (m : TRepr) (n : Nat) (hm : m.Canon W) :
    (∀ i, ((m.clearBit W n).value W).testBit i = ((m.value W).testBit i && !decide (n = i))) ∧
    (m.clearBit W n).Canon W := by
  have ⟨e, c⟩ := TRepr.clearBit_spec W hW m n hm
  refine ⟨fun i => ?_, c⟩
  rw [e, testBit_natAndNot, Nat.testBit_two_pow]

/-- `count_ones`: the number of one bits (`popNat`), for every length -/
theorem count_ones (W : Nat) (m : TRepr) (hm : m.Canon W) : m.countOnes W = popNat (m.value W) :=
  TRepr.countOnes_spec W m hm

/-- `count_zeros`: `None` for 0, otherwise the zero bits below the leading one: `bit_len - count_ones` -/
theorem count_zeros (W : Nat) (m : TRepr) (hm : m.Canon W) :
    m.countZeros W = if m.value W = 0 then none
      else some (bitLenNat (m.value W) - popNat (m.value W)) :=
  TRepr.countZeros_spec W m hm

/-- `is_power_of_two` holds exactly for `2^k` -/
theorem is_power_of_two (W : Nat) (m : TRepr) (hm : m.Canon W) :
    m.isPow2 W = true ↔ ∃ k, m.value W = 2 ^ k :=
  TRepr.isPow2_spec W m hm

/-- `next_power_of_two`: a power of two, `≥ x`, and the least such (in particular 1 for 0); canonical,
    including the spill into a new top word -/
theorem next_power_of_two (W : Nat) (hW : 1 ≤ W) (m : TRepr) (hm : m.Canon W) :
    (∃ k, (m.nextPow2 W).value W = 2 ^ k) ∧ m.value W ≤ (m.nextPow2 W).value W ∧
    (∀ j, m.value W ≤ 2 ^ j → (m.nextPow2 W).value W ≤ 2 ^ j) ∧ (m.nextPow2 W).Canon W := by
  have ⟨e, c⟩ := TRepr.nextPow2_spec W hW m hm
  have ⟨h1, h2, h3⟩ := np2_spec (m.value W)
  rw [e]; exact ⟨h1, h2, h3, c⟩

/-- `IBig::trailing_ones` of a negative number `-v`: `None` for −1 (all ones), otherwise the trailing
    zeros of `v - 1` (since `-v = !(v-1)`), via `trailing_zeros_large_shifted_by_one`; no panic -/
theorem trailing_ones_negative (W : Nat) (hW : 1 ≤ W) (m : TRepr) (hm : m.Canon W) (hz : m.value W ≠ 0) :
    (m.value W = 1 → m.trailingOnesNeg W = .ok none) ∧
    (2 ≤ m.value W → ∃ k, m.trailingOnesNeg W = .ok (some k) ∧ IsTz (m.value W - 1) k) :=
  TRepr.trailingOnesNeg_spec W hW m hm hz

/-- **`IBig::trailing_zeros` read as two's-complement bits, either sign**: for `x ≠ 0` the result `k` is the position of the
    lowest one bit of the infinite two's-complement form of `x` — bits `0..k-1` are 0, bit `k` is 1 (the code scans the
    magnitude; for a negative number this is the same position) -/
theorem ibig_trailing_zeros_bits (W : Nat) (a : SRepr) (ha : SCanon W a) (hz : a.value W ≠ 0) :
    ∃ k, a.mag.trailingZeros W = .ok (some k) ∧
      (∀ i, i < k → Int.testBit (a.value W) i = false) ∧ Int.testBit (a.value W) k = true := by
  have hv : (a.value W).natAbs = a.mag.value W := by
    obtain ⟨an, am⟩ := a
    cases an <;> simp [SRepr.value]
  have hm : a.mag.value W ≠ 0 := by
    intro h; apply hz
    obtain ⟨an, am⟩ := a
    cases an <;> simp_all [SRepr.value]
  obtain ⟨k, hk, ht⟩ := (TRepr.trailingZeros_spec W a.mag ha.1).2 hm
  exact ⟨k, hk, tz_bits (a.value W) k (by rw [hv]; exact ht)⟩

/-- **`IBig::trailing_ones` read as two's-complement bits, either sign**: `None` exactly for −1 (infinitely many ones);
    otherwise the result `k` says bits `0..k-1` of `x` are 1 and bit `k` is 0 — for non-negative `x` through
    `trailing_ones_large`, for negative `x` through `trailing_ones_neg` / `trailing_zeros_large_shifted_by_one` -/
theorem ibig_trailing_ones_bits (W : Nat) (hW : 1 ≤ W) (a : SRepr) (ha : SCanon W a) :
    (a.value W = -1 → ibigTrailingOnes W true a = .ok none) ∧
    (a.value W ≠ -1 → ∃ k, ibigTrailingOnes W true a = .ok (some k) ∧
      (∀ i, i < k → Int.testBit (a.value W) i = true) ∧ Int.testBit (a.value W) k = false) := by
  obtain ⟨an, am⟩ := a
  cases an with
  | false =>
    have hv : (SRepr.mk false am).value W = (am.value W : Int) := by simp [SRepr.value]
    obtain ⟨k, hk, ht⟩ := TRepr.trailingOnes_fixed W am ha.1
    refine ⟨fun h => by rw [hv] at h; omega, fun _ => ⟨k, ?_, ?_⟩⟩
    · simp [ibigTrailingOnes, hk, Except.map]
    · apply to_bits
      rw [hv]
      have : ((am.value W : Int) + 1).natAbs = am.value W + 1 := by omega
      rw [this]; exact ht
  | true =>
    have hv : (SRepr.mk true am).value W = -(am.value W : Int) := by simp [SRepr.value]
    have hz : am.value W ≠ 0 := ha.2 rfl
    have ⟨h1, h2⟩ := TRepr.trailingOnesNeg_spec W hW am ha.1 hz
    refine ⟨fun h => ?_, fun h => ?_⟩
    · have : am.value W = 1 := by rw [hv] at h; omega
      simp [ibigTrailingOnes, h1 this]
    · have h2' : 2 ≤ am.value W := by rw [hv] at h; omega
      obtain ⟨k, hk, ht⟩ := h2 h2'
      refine ⟨k, by simp [ibigTrailingOnes, hk], ?_⟩
      apply to_bits
      rw [hv]
      have : (-(am.value W : Int) + 1).natAbs = am.value W - 1 := by omega
      rw [this]; exact ht

/-- the specification functions the driver prints are the ones characterised above -/
theorem driver_specs (n : Nat) :
    (specIsPow2 n = true ↔ ∃ k, n = 2 ^ k) ∧ specNextPow2 n = np2 n ∧
    (∀ k, specTz n = some k → IsTz n k) := by
  refine ⟨specIsPow2_iff n, specNextPow2_eq n, fun k h => ?_⟩
  unfold specTz at h
  simp only at h
  by_cases hI : IsTz n (Nat.log2 (n ^^^ (n - 1)))
  · rw [if_pos hI] at h; cases h; exact hI
  · rw [if_neg hI] at h; cases h

/-- **huge `usize` arguments.**  For shift counts / bit positions up to `usize::MAX` the driver cannot form `2^n`; it
    evaluates the specification through these guarded functions (they decide `|x| < 2^n` from the bit length and then
    return the operand, `0` or `−1`).  They ARE the specification, for all arguments — so the correspondence run compares
    the real code with `x / 2^n`, `x % 2^n`, bit `n`, `x & !2^n` also at `n = 2^32`, `2^63`, `usize::MAX − k`. -/
theorem driver_specs_huge (x : Int) (m n : Nat) :
    fastSpecShr x n = x / (2 : Int) ^ n ∧ fastSpecBit x n = Int.testBit x n ∧
    fastDivPow2 m n = m / 2 ^ n ∧ fastModPow2 m n = m % 2 ^ n ∧ fastClearBit m n = natAndNot m (2 ^ n) :=
  ⟨fastSpecShr_eq x n, by rw [fastSpecBit_eq, specBit_eq_testBit], fastDivPow2_eq m n, fastModPow2_eq m n,
   fastClearBit_eq m n⟩

/-- what the operations must return for a count beyond the operand (the class the huge arguments exercise): a value below
    `2^n` shifted right by `n` is `0` (`−1` if negative), its low `n` bits are the value itself, bit `n` is the sign -/
theorem beyond_the_length (x : Int) (m n : Nat) (hx : x.natAbs < 2 ^ n) (hm : m < 2 ^ n) :
    x / (2 : Int) ^ n = (if x < 0 then -1 else 0) ∧ Int.testBit x n = decide (x < 0) ∧
    m / 2 ^ n = 0 ∧ m % 2 ^ n = m := by
  have hp : (0 : Int) < (2 : Int) ^ n := Int.pow_pos (by decide)
  have hc : ((2 ^ n : Nat) : Int) = (2 : Int) ^ n := by simp
  have e := int_ediv_small x ((2 : Int) ^ n) hp (by omega) (by omega)
  refine ⟨e, ?_, Nat.div_eq_of_lt hm, Nat.mod_eq_of_lt hm⟩
  rw [← specBit_eq_testBit]; unfold specBit; rw [e]
  by_cases hx0 : x < 0 <;> simp [hx0]

-- ================================================================== primitive operands

/-- **Mixed big/primitive forms give the same value as converting both operands to `IBig` first.**
    Model = the macro text: `UBig::from(v)` / `IBig::from(v)` (`Repr::from_unsigned`, `from_signed`,
    C06's conversion models), the big operator, and for `& -> uN` the `try_into().unwrap()`:
    * `UBig & uN`, `uN & UBig` return `x & v` and never panic;
    * `IBig & uN`, `uN & IBig` return the two's-complement `x & v` (in `[0, v]`) and never panic;
    * `| ^` with an unsigned and `& | ^` with a signed primitive, in both operand orders and the
      assign forms, return the operator applied to the values, canonical. -/
theorem primitive_forms (W bits : Nat) (hp : PrimOk W bits) (o : BitOp) (swap : Bool)
    (u : TRepr) (a : SRepr) (hu : u.Canon W) (ha : SCanon W a) (v : Nat) (hv : v < 2 ^ bits)
    (z : Int) (hz : -(2 ^ (bits - 1) : Int) ≤ z ∧ z ≤ 2 ^ (bits - 1) - 1) :
    ubigAndPrim W bits u v swap = .ok (u.value W &&& v) ∧
    (∃ r : Nat, ibigAndPrimU W bits a v swap = .ok r ∧ (r : Int) = specAnd (a.value W) v) ∧
    (((ubigOpPrim W o u v swap).value W : Int) = o.spec (u.value W) v ∧ (ubigOpPrim W o u v swap).Canon W) ∧
    ((ibigOpPrimU W o a v swap).value W = o.spec (a.value W) v ∧ SCanon W (ibigOpPrimU W o a v swap)) ∧
    ((ibigOpPrimS W bits o a z swap).value W = o.spec (a.value W) z ∧
      SCanon W (ibigOpPrimS W bits o a z swap)) := by
  have hW1 : 1 ≤ W := by have := hp.hW; omega
  exact ⟨ubigAndPrim_spec W bits hp u v swap hu hv, ibigAndPrimU_spec W bits hp a v swap ha hv,
    ubigOpPrim_spec W hW1 o u v swap hu, ibigOpPrimU_spec W hW1 o a v swap ha,
    ibigOpPrimS_spec W bits hW1 hp.hb o a z swap ha hz⟩

/-- the side conditions hold for every primitive type on 64-bit words (and `u8…u128` on 16/32-bit words) -/
theorem primitive_types_ok : PrimOk 64 8 ∧ PrimOk 64 16 ∧ PrimOk 64 32 ∧ PrimOk 64 64 ∧ PrimOk 64 128 ∧
    PrimOk 32 8 ∧ PrimOk 32 16 ∧ PrimOk 32 32 ∧ PrimOk 32 64 ∧ PrimOk 32 128 ∧
    PrimOk 16 8 ∧ PrimOk 16 16 ∧ PrimOk 16 32 ∧ PrimOk 16 64 ∧ PrimOk 16 128 := by
  refine ⟨?_, ?_, ?_, ?_, ?_, ?_, ?_, ?_, ?_, ?_, ?_, ?_, ?_, ?_, ?_⟩ <;>
    exact ⟨by decide, by decide, by decide, by decide, by decide⟩

/-- the trailing-zero search used as the driver's specification (`specTz`, lowest-set-bit trick) never
    fails and returns THE trailing-zero count -/
theorem spec_tz_total (n : Nat) (hn : n ≠ 0) : ∃ k, specTz n = some k ∧ IsTz n k :=
  specTz_total n hn

-- non-vacuity: a negative 3-word heap operand and a 2-word inline operand are canonical, and the
-- model computes (−2^130) & (−2^64 − 1) through the (Negative, Negative) arm
example : SCanon 64 ⟨true, .large [0, 0, 4]⟩ ∧ SCanon 64 ⟨true, .small (2 ^ 64 + 1)⟩ ∧
    (ibigAnd 64 ⟨true, .large [0, 0, 4]⟩ ⟨true, .small (2 ^ 64 + 1)⟩).value 64 = -(2 ^ 130) := by
  refine ⟨by decide, by decide, by decide⟩

-- ---------------------------------------------------------------- non-vacuity of the hypotheses
-- a canonical negative 3-word value whose two low words are zero, shifted by more than its length,
-- by exactly two words, and by a count inside the top word: floor division in both implementations
example : SCanon 64 ⟨true, .large [0, 0, 5]⟩ ∧
    ibigShr 64 true ⟨true, .large [0, 0, 5]⟩ 300 false = -1 ∧ ibigShr 64 true ⟨true, .large [0, 0, 5]⟩ 128 true = -5 ∧
    ibigShr 64 true ⟨true, .large [0, 0, 5]⟩ 129 true = -3 := by
  refine ⟨by decide, by decide, by decide, by decide⟩

-- trailing ones across a word boundary (two full words of ones), and of the negative `-(2^130 + 1)`
example : (TRepr.large [2 ^ 64 - 1, 2 ^ 64 - 1, 2]).Canon 64 ∧
    (TRepr.large [2 ^ 64 - 1, 2 ^ 64 - 1, 2]).trailingOnes 64 true = .ok 128 ∧
    (TRepr.large [1, 0, 4]).trailingOnesNeg 64 = .ok (some 130) := by
  refine ⟨by decide, by decide, by decide⟩

-- next_power_of_two spilling into a new top word; set_bit far above the top; clear_bit shrinking back
example : (TRepr.large [1, 0, 2 ^ 63]).Canon 64 ∧
    (TRepr.large [1, 0, 2 ^ 63]).nextPow2 64 = .large [0, 0, 0, 1] ∧
    (TRepr.small 5).setBit 64 200 = .large [5, 0, 0, 256] ∧
    (TRepr.large [5, 0, 0, 256]).clearBit 64 200 = .small 5 := by
  refine ⟨by decide, by decide, by decide, by decide⟩

-- primitive forms: `IBig(-3) & 0xffu8` through the conversion models, both operand orders
example : PrimOk 64 8 ∧ SCanon 64 ⟨true, .small 3⟩ ∧
    ibigAndPrimU 64 8 ⟨true, .small 3⟩ 0xff false = .ok 0xfd ∧ ibigAndPrimU 64 8 ⟨true, .small 3⟩ 0xff true = .ok 0xfd ∧
    (ibigOpPrimS 64 8 .xor ⟨false, .large [0, 0, 1]⟩ (-128) false).value 64 = -(2 ^ 128 + 128) := by
  refine ⟨⟨by decide, by decide, by decide, by decide, by decide⟩, by decide, by decide, by decide, by decide⟩

end Dashu.Props.C09
