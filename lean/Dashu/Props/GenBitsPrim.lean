import Dashu.Gen.FormsGlue
import Dashu.Model.Int.BitsPrim
/-
  C09, Tie A for the primitive-typed bit-operator forms.  `impl_bit_ops_primitive_with_ubig`,
  `impl_bit_ops_unsigned_with_ibig`, `impl_bit_ops_signed_with_ibig` (integer/src/bits.rs) stamp out, through
  `helper_macros::impl_binop_with_primitive` (4 ownership forms, big operand first),
  `impl_commutative_binop_with_primitive` (4 more, primitive first) and `impl_binop_assign_with_primitive` (2 assign
  forms), bodies such as `self.$method(<$t>::from(rhs)).try_into().unwrap()`.  `Dashu/Gen/FormsGlue.lean` REGENERATES
  those ten bodies from integer/src/helper_macros.rs on every run over an abstract value domain (callees are parameters).
  Here the callees are INTERPRETED by the models C09 executes — `<$t>::from` = `Repr::from_unsigned` / `IBig::from_signed`
  (C06's conversion models), `$method` = the big-integer operator, `try_into` = `tryToUnsigned` / `ibigTryToUnsigned` (for
  `-> $t` the reflexive `TryFrom`, which is `Ok`), `unwrap` = `unwrapConv` — and every regenerated body is proved to be
  the hand model's `ubigAndPrim / ubigOpPrim / ibigAndPrimU / ibigOpPrimU / ibigOpPrimS` (with `swap` = primitive first).
  So the order of the operands handed to the operator, which operand is converted, and whether the result passes
  `try_into().unwrap()` are read from the source, not from the hand model.
-/
namespace Dashu.Props.GenBitsPrim
open Dashu.Model Dashu.Model.Conv Dashu.Gen

/-- the value domain the regenerated bodies are interpreted in -/
inductive PV where
  | primU (v : Nat)                          -- an unsigned primitive operand
  | primS (z : Int)                          -- a signed primitive operand
  | ubig (t : TRepr)
  | ibig (s : SRepr)
  | res (r : Except ConvErr PV)              -- `Result<_, ConversionError>` of `try_into()`
  | out (r : Except PanicKind PV)            -- what the operator form returns: a value or the `unwrap` panic
  | nat (n : Nat)                            -- a primitive result (`-> uN`)
  | ill                                      -- an ill-typed application (never produced below)

/-- `UBig::from(uN)` -/
def fromU (W : Nat) : PV → PV
  | .primU v => .ubig (fromUnsigned W v) | _ => .ill
/-- `IBig::from(uN)` / `IBig::from(iN)` -/
def fromI (W bits : Nat) : PV → PV
  | .primU v => .ibig ⟨false, fromUnsigned W v⟩ | .primS z => .ibig (fromSigned W bits z) | _ => .ill
/-- the operator on two big integers -/
def opU (W : Nat) (o : BitOp) : PV → PV → PV
  | .ubig a, .ubig b => .ubig (o.onU W a b) | _, _ => .ill
def opI (W : Nat) (o : BitOp) : PV → PV → PV
  | .ibig a, .ibig b => .ibig (o.onI W a b) | _, _ => .ill
/-- `try_into()` towards `uN` -/
def tryIntoPrim (W bits : Nat) : PV → PV
  | .ubig t => .res ((tryToUnsigned W bits t).map .nat)
  | .ibig s => .res ((ibigTryToUnsigned W bits s).map .nat)
  | _ => .ill
/-- `try_into()` towards the type itself (`-> $t`): the reflexive `TryFrom`, always `Ok` -/
def tryIntoSelf : PV → PV
  | x => .res (.ok x)
/-- `unwrap()` -/
def unwrapPV : PV → PV
  | .res r => .out (unwrapConv r) | _ => .ill

theorem map_unwrap {α β} (f : α → β) (r : Except ConvErr α) : unwrapConv (r.map f) = (unwrapConv r).map f := by
  cases r <;> rfl

/-- **`UBig & uN -> uN`, all eight value/reference forms** = `ubigAndPrim` (big first: `swap = false`, primitive
    first: `swap = true`) -/
theorem gen_ubig_and_prim (W bits : Nat) (a : TRepr) (v : Nat) :
    let F := fromU W; let M := opU W .and; let T := tryIntoPrim W bits; let U := unwrapPV
    let big := PV.out ((ubigAndPrim W bits a v false).map .nat)
    let prim := PV.out ((ubigAndPrim W bits a v true).map .nat)
    i_impl_binop_with_primitive_val_val F M T U (.ubig a) (.primU v) = big ∧
    i_impl_binop_with_primitive_ref_val F M T U (.ubig a) (.primU v) = big ∧
    i_impl_binop_with_primitive_val_ref F M T U (.ubig a) (.primU v) = big ∧
    i_impl_binop_with_primitive_ref_ref F M T U (.ubig a) (.primU v) = big ∧
    i_impl_commutative_binop_with_primitive_val_val F M T U (.primU v) (.ubig a) = prim ∧
    i_impl_commutative_binop_with_primitive_ref_val F M T U (.primU v) (.ubig a) = prim ∧
    i_impl_commutative_binop_with_primitive_val_ref F M T U (.primU v) (.ubig a) = prim ∧
    i_impl_commutative_binop_with_primitive_ref_ref F M T U (.primU v) (.ubig a) = prim := by
  simp only [i_impl_binop_with_primitive_val_val, i_impl_binop_with_primitive_ref_val, i_impl_binop_with_primitive_val_ref,
    i_impl_binop_with_primitive_ref_ref, i_impl_commutative_binop_with_primitive_val_val,
    i_impl_commutative_binop_with_primitive_ref_val, i_impl_commutative_binop_with_primitive_val_ref,
    i_impl_commutative_binop_with_primitive_ref_ref, fromU, opU, tryIntoPrim, unwrapPV, ubigAndPrim, map_unwrap, BitOp.onU]
  simp

/-- **`IBig & uN -> uN`, all eight forms** = `ibigAndPrimU` -/
theorem gen_ibig_and_prim (W bits : Nat) (a : SRepr) (v : Nat) :
    let F := fromI W bits; let M := opI W .and; let T := tryIntoPrim W bits; let U := unwrapPV
    let big := PV.out ((ibigAndPrimU W bits a v false).map .nat)
    let prim := PV.out ((ibigAndPrimU W bits a v true).map .nat)
    i_impl_binop_with_primitive_val_val F M T U (.ibig a) (.primU v) = big ∧
    i_impl_binop_with_primitive_ref_val F M T U (.ibig a) (.primU v) = big ∧
    i_impl_binop_with_primitive_val_ref F M T U (.ibig a) (.primU v) = big ∧
    i_impl_binop_with_primitive_ref_ref F M T U (.ibig a) (.primU v) = big ∧
    i_impl_commutative_binop_with_primitive_val_val F M T U (.primU v) (.ibig a) = prim ∧
    i_impl_commutative_binop_with_primitive_ref_val F M T U (.primU v) (.ibig a) = prim ∧
    i_impl_commutative_binop_with_primitive_val_ref F M T U (.primU v) (.ibig a) = prim ∧
    i_impl_commutative_binop_with_primitive_ref_ref F M T U (.primU v) (.ibig a) = prim := by
  simp only [i_impl_binop_with_primitive_val_val, i_impl_binop_with_primitive_ref_val, i_impl_binop_with_primitive_val_ref,
    i_impl_binop_with_primitive_ref_ref, i_impl_commutative_binop_with_primitive_val_val,
    i_impl_commutative_binop_with_primitive_ref_val, i_impl_commutative_binop_with_primitive_val_ref,
    i_impl_commutative_binop_with_primitive_ref_ref, fromI, opI, tryIntoPrim, unwrapPV, ibigAndPrimU, map_unwrap, BitOp.onI]
  simp

/-- **`UBig | uN`, `UBig ^ uN` (`-> UBig`: eight forms through the reflexive `try_into().unwrap()`) and
    `UBig &= uN`, `|=`, `^=` (two assign forms)** = `ubigOpPrim` -/
theorem gen_ubig_op_prim (W : Nat) (o : BitOp) (a : TRepr) (v : Nat) :
    let F := fromU W; let M := opU W o; let T := tryIntoSelf; let U := unwrapPV
    let big := PV.out (.ok (.ubig (ubigOpPrim W o a v false)))
    let prim := PV.out (.ok (.ubig (ubigOpPrim W o a v true)))
    i_impl_binop_with_primitive_val_val F M T U (.ubig a) (.primU v) = big ∧
    i_impl_binop_with_primitive_ref_val F M T U (.ubig a) (.primU v) = big ∧
    i_impl_binop_with_primitive_val_ref F M T U (.ubig a) (.primU v) = big ∧
    i_impl_binop_with_primitive_ref_ref F M T U (.ubig a) (.primU v) = big ∧
    i_impl_commutative_binop_with_primitive_val_val F M T U (.primU v) (.ubig a) = prim ∧
    i_impl_commutative_binop_with_primitive_ref_val F M T U (.primU v) (.ubig a) = prim ∧
    i_impl_commutative_binop_with_primitive_val_ref F M T U (.primU v) (.ubig a) = prim ∧
    i_impl_commutative_binop_with_primitive_ref_ref F M T U (.primU v) (.ubig a) = prim ∧
    i_impl_binop_assign_with_primitive_r1_mut_val F M (.ubig a) (.primU v) = .ubig (ubigOpPrim W o a v false) ∧
    i_impl_binop_assign_with_primitive_r1_mut_ref F M (.ubig a) (.primU v) = .ubig (ubigOpPrim W o a v false) := by
  simp only [i_impl_binop_with_primitive_val_val, i_impl_binop_with_primitive_ref_val, i_impl_binop_with_primitive_val_ref,
    i_impl_binop_with_primitive_ref_ref, i_impl_commutative_binop_with_primitive_val_val,
    i_impl_commutative_binop_with_primitive_ref_val, i_impl_commutative_binop_with_primitive_val_ref,
    i_impl_commutative_binop_with_primitive_ref_ref, i_impl_binop_assign_with_primitive_r1_mut_val,
    i_impl_binop_assign_with_primitive_r1_mut_ref, fromU, opU, tryIntoSelf, unwrapPV, ubigOpPrim, unwrapConv]
  simp

/-- **`IBig | uN`, `IBig ^ uN` (`-> IBig`) and the assign forms of `& | ^` with an unsigned primitive** = `ibigOpPrimU` -/
theorem gen_ibig_op_prim_unsigned (W bits : Nat) (o : BitOp) (a : SRepr) (v : Nat) :
    let F := fromI W bits; let M := opI W o; let T := tryIntoSelf; let U := unwrapPV
    let big := PV.out (.ok (.ibig (ibigOpPrimU W o a v false)))
    let prim := PV.out (.ok (.ibig (ibigOpPrimU W o a v true)))
    i_impl_binop_with_primitive_val_val F M T U (.ibig a) (.primU v) = big ∧
    i_impl_binop_with_primitive_ref_val F M T U (.ibig a) (.primU v) = big ∧
    i_impl_binop_with_primitive_val_ref F M T U (.ibig a) (.primU v) = big ∧
    i_impl_binop_with_primitive_ref_ref F M T U (.ibig a) (.primU v) = big ∧
    i_impl_commutative_binop_with_primitive_val_val F M T U (.primU v) (.ibig a) = prim ∧
    i_impl_commutative_binop_with_primitive_ref_val F M T U (.primU v) (.ibig a) = prim ∧
    i_impl_commutative_binop_with_primitive_val_ref F M T U (.primU v) (.ibig a) = prim ∧
    i_impl_commutative_binop_with_primitive_ref_ref F M T U (.primU v) (.ibig a) = prim ∧
    i_impl_binop_assign_with_primitive_r1_mut_val F M (.ibig a) (.primU v) = .ibig (ibigOpPrimU W o a v false) ∧
    i_impl_binop_assign_with_primitive_r1_mut_ref F M (.ibig a) (.primU v) = .ibig (ibigOpPrimU W o a v false) := by
  simp only [i_impl_binop_with_primitive_val_val, i_impl_binop_with_primitive_ref_val, i_impl_binop_with_primitive_val_ref,
    i_impl_binop_with_primitive_ref_ref, i_impl_commutative_binop_with_primitive_val_val,
    i_impl_commutative_binop_with_primitive_ref_val, i_impl_commutative_binop_with_primitive_val_ref,
    i_impl_commutative_binop_with_primitive_ref_ref, i_impl_binop_assign_with_primitive_r1_mut_val,
    i_impl_binop_assign_with_primitive_r1_mut_ref, fromI, opI, tryIntoSelf, unwrapPV, ibigOpPrimU, unwrapConv]
  simp

/-- **`IBig & iN`, `IBig | iN`, `IBig ^ iN` (`-> IBig`), all eight forms and the two assign forms** = `ibigOpPrimS` -/
theorem gen_ibig_op_prim_signed (W bits : Nat) (o : BitOp) (a : SRepr) (z : Int) :
    let F := fromI W bits; let M := opI W o; let T := tryIntoSelf; let U := unwrapPV
    let big := PV.out (.ok (.ibig (ibigOpPrimS W bits o a z false)))
    let prim := PV.out (.ok (.ibig (ibigOpPrimS W bits o a z true)))
    i_impl_binop_with_primitive_val_val F M T U (.ibig a) (.primS z) = big ∧
    i_impl_binop_with_primitive_ref_val F M T U (.ibig a) (.primS z) = big ∧
    i_impl_binop_with_primitive_val_ref F M T U (.ibig a) (.primS z) = big ∧
    i_impl_binop_with_primitive_ref_ref F M T U (.ibig a) (.primS z) = big ∧
    i_impl_commutative_binop_with_primitive_val_val F M T U (.primS z) (.ibig a) = prim ∧
    i_impl_commutative_binop_with_primitive_ref_val F M T U (.primS z) (.ibig a) = prim ∧
    i_impl_commutative_binop_with_primitive_val_ref F M T U (.primS z) (.ibig a) = prim ∧
    i_impl_commutative_binop_with_primitive_ref_ref F M T U (.primS z) (.ibig a) = prim ∧
    i_impl_binop_assign_with_primitive_r1_mut_val F M (.ibig a) (.primS z) = .ibig (ibigOpPrimS W bits o a z false) ∧
    i_impl_binop_assign_with_primitive_r1_mut_ref F M (.ibig a) (.primS z) = .ibig (ibigOpPrimS W bits o a z false) := by
  simp only [i_impl_binop_with_primitive_val_val, i_impl_binop_with_primitive_ref_val, i_impl_binop_with_primitive_val_ref,
    i_impl_binop_with_primitive_ref_ref, i_impl_commutative_binop_with_primitive_val_val,
    i_impl_commutative_binop_with_primitive_ref_val, i_impl_commutative_binop_with_primitive_val_ref,
    i_impl_commutative_binop_with_primitive_ref_ref, i_impl_binop_assign_with_primitive_r1_mut_val,
    i_impl_binop_assign_with_primitive_r1_mut_ref, fromI, opI, tryIntoSelf, unwrapPV, ibigOpPrimS, unwrapConv]
  simp

-- non-vacuity: `0xf0u8 & &UBig` on a 3-word heap value goes through from_unsigned, the heap/inline AND (lowest double word),
-- `try_into::<u8>` and `unwrap`, and returns the primitive 0xf0 & 0xf3 = 0xf0; the same through the hand model
example : i_impl_commutative_binop_with_primitive_val_ref (fromU 64) (opU 64 .and) (tryIntoPrim 64 8) unwrapPV
      (.primU 0xf0) (.ubig (.large [0x1f3, 2, 3])) = .out (.ok (.nat 0xf0)) ∧
    ubigAndPrim 64 8 (.large [0x1f3, 2, 3]) 0xf0 true = .ok 0xf0 := by
  refine ⟨?_, by decide⟩
  have h := (gen_ubig_and_prim 64 8 (.large [0x1f3, 2, 3]) 0xf0).2.2.2.2.2.2.1
  have e : ubigAndPrim 64 8 (.large [0x1f3, 2, 3]) 0xf0 true = .ok 0xf0 := by decide
  rw [e] at h; exact h
-- `IBig ^= i8` with a negative primitive: the regenerated assign form yields the model's value −2^130 ^ −1 = 2^130 − 1
example : i_impl_binop_assign_with_primitive_r1_mut_val (fromI 64 8) (opI 64 .xor) (.ibig ⟨true, .large [0, 0, 4]⟩) (.primS (-1))
      = .ibig (ibigOpPrimS 64 8 .xor ⟨true, .large [0, 0, 4]⟩ (-1) false) ∧
    (ibigOpPrimS 64 8 .xor ⟨true, .large [0, 0, 4]⟩ (-1) false).value 64 = 2 ^ 130 - 1 := by
  refine ⟨(gen_ibig_op_prim_signed 64 8 .xor ⟨true, .large [0, 0, 4]⟩ (-1)).2.2.2.2.2.2.2.2.1, by decide⟩

end Dashu.Props.GenBitsPrim
