import Dashu.Proofs.Float.F32
import Dashu.Proofs.Float.SoftF32
import Dashu.Proofs.Float.Log2Ub
import Dashu.Proofs.Float.Log2Large
import Dashu.Proofs.Float.Log2Witness
import Dashu.Proofs.Float.DigitsLb
/-
  C10 (and the C03 / C14 users of the `f32` estimators): the IEEE-754 binary32 facts that `Props/C10Coarse.lean` and
  `Props/C10Est.lean` carry as hypotheses about an abstract rounding `fl` — here stated for the CONCRETE rounding function
  `rne32 : ℝ → ℝ` (round to nearest, ties to even, 24-bit significand; `Proofs/Float/F32.lean`) and proved from its
  definition.  With them the two estimator theorems are re-stated without any hypothesis about the arithmetic:
  what remains assumed about `f32` is exactly

    (IEEE)  the hardware `+`, `*`, `/`, `as f32` and the compiler's decimal-literal conversion return `rne32` of the exact
            result (IEEE-754 §4.3.1 roundTiesToEven, §5.4.1, §5.12.2) — no overflow/underflow occurs: every quantity is 0 or
            in [2⁻¹, 2³²] (`normal_range`);
    (LIBM)  the enclosure of `log2_bounds` (`Log2BoundsSound`, resp. hypothesis `hA`): `log2f` at most one ulp off.

  (IEEE) is compared on every driven coarse test: the driver evaluates the test with the compiled `Float32` AND with the
  executable soft-float replica of `rne32` (`Model/Float/SoftF32.lean`) and reports a difference as a model defect.
-/
namespace Dashu.Props.C10F32
open Dashu Dashu.Model.Float

/-- **(R)** relative error of binary32 rounding is at most `2⁻²⁴`, for every real -/
theorem rne_relative_error (x : ℝ) : |rne32 x - x| ≤ u32 * |x| := rne32_relRound x

/-- **(B1)** binary32 rounding is monotone -/
theorem rne_monotone : Monotone rne32 := rne32_mono

/-- **(B2)** naturals up to `2²⁴` are binary32 numbers (`precision as f32`, `rem_bits as f32`, `shift as f32` are exact
    there, and a rounding never crosses them) -/
theorem rne_fixes_small_naturals (k : Nat) (hk : k ≤ 2 ^ 24) : rne32 (k : ℝ) = k := rne32_natCast k hk

/-- every `z·2^j` with a 24-bit `z` is left fixed -/
theorem rne_fixes_representable (z j : ℤ) (h1 : 8388608 ≤ z) (h2 : z < 16777216) :
    rne32 ((z : ℝ) * (2 : ℝ) ^ j) = (z : ℝ) * (2 : ℝ) ^ j := by
  have hz : (0 : ℝ) < (z : ℝ) := by exact_mod_cast (by omega : 0 < z)
  unfold rne32
  rw [if_pos (by positivity)]
  exact rneAbs_of_scaled z j h1 h2

/-- **(C)** the literal `0.999` of `round_fract` as an `f32` -/
theorem literal_0_999 : rne32 (999 / 1000) = c999 := rne32_c999
/-- **(C)** the literal `1.001` -/
theorem literal_1_001 : rne32 (1001 / 1000) = c1001 := rne32_c1001
/-- **(C)** `core::f32::consts::LOG10_2` (36 decimal digits in the source) is the binary32 number `10100891/2²⁵` … -/
theorem literal_LOG10_2 :
    rne32 (301029995663981195213738894724493027 / 1000000000000000000000000000000000000) = log10_2_f32 := rne32_log10_2
/-- … which is an upper bound of `log₁₀ 2` -/
theorem LOG10_2_safe : Real.logb 10 2 ≤ log10_2_f32 := logb_10_2_le
/-- **(C)** `1. ∓ ADJUST` (`ADJUST = 2·f32::EPSILON = 4u`) of `log2_bounds_large` are exact -/
theorem adjust_factors_exact : rne32 (1 - 4 * u32) = 1 - 4 * u32 ∧ rne32 (1 + 4 * u32) = 1 + 4 * u32 := rne32_adjust

/-- no result leaves the normal range of binary32 while the argument is in `[2⁻¹²⁶, 2¹²⁷]` -/
theorem normal_range (x : ℝ) (h1 : (2 : ℝ) ^ (-126 : ℤ) ≤ x) (h2 : x ≤ (2 : ℝ) ^ (127 : ℤ)) :
    (2 : ℝ) ^ (-126 : ℤ) ≤ rne32 x ∧ rne32 x ≤ (2 : ℝ) ^ (127 : ℤ) := rne32_in_normal_range x h1 h2

/-- **(G)** the grid fact of `Props/C10Est.ub_wide`: for a binary32 number `est = z·2⁻¹⁹ ∈ [16, 32)` and a shift count `s`,
    `next_up(fl(est + s)) ≥ next_up(est) + s` -/
theorem next_up_grid_fact (z : ℤ) (s : Nat) (h1 : 8388608 ≤ z) (h2 : z < 16777216) :
    nextUp32 ((z : ℝ) * (2 : ℝ) ^ (-19 : ℤ)) + s ≤ nextUp32 (rne32 ((z : ℝ) * (2 : ℝ) ^ (-19 : ℤ) + s)) :=
  grid_fact z s h1 h2

/-! ### the estimator theorems with the concrete arithmetic -/

/-- the closure `test` of `round_fract` as written in the source, every operation an IEEE rounding: the two literals are
    converted (`rne32 (999/1000)`), `precision as f32` is `rne32 k` -/
noncomputable def coarseIEEE (lbF ubF : Nat → ℝ) : Coarse := fun B fmag k =>
  open Classical in
  if rne32 (ubF B * rne32 (k : ℝ)) < rne32 (lbF fmag + rne32 (999 / 1000)) then some .gt
  else if rne32 (ubF fmag + rne32 (1001 / 1000)) < rne32 (lbF B * rne32 (k : ℝ)) then some .lt
  else none

/-- on the region `k ≤ 2²⁴` this is the test `coarseReal` of `Props/C10Coarse` at `fl := rne32` -/
theorem coarseIEEE_eq (lbF ubF : Nat → ℝ) (B fmag k : Nat) (hk : k ≤ 2 ^ 24) :
    coarseIEEE lbF ubF B fmag k = coarseReal rne32 lbF ubF B fmag k := by
  unfold coarseIEEE coarseReal
  rw [rne32_natCast k hk, rne32_c999, rne32_c1001]

/-- **`round_fract`'s coarse test under IEEE arithmetic decides as the exact comparison** on `2 ≤ B < 2⁶⁴`,
    `0 < |fract| < B^k`, `k ≤ 2²⁴`; the only hypothesis left is the enclosure (E)+(S) of `log2_bounds` -/
theorem coarse_test_sound_ieee (lbF ubF : Nat → ℝ) (hb : Log2BoundsSound lbF ubF)
    (B fmag k : Nat) (hB : 2 ≤ B) (hBw : B < 2 ^ 64) (hf : 0 < fmag) (hlt : fmag < B ^ k) (hk : k ≤ 2 ^ 24)
    (o : Ordering) (h : coarseIEEE lbF ubF B fmag k = some o) : o = compare (2 * fmag) (B ^ k) := by
  rw [coarseIEEE_eq lbF ubF B fmag k hk] at h
  exact coarseReal_sound rne32 rne32_relRound lbF ubF hb B fmag k hB hBw hf hlt hk o h

/-- … hence `round_fract` returns what the exact comparison returns -/
theorem round_fract_coarse_irrelevant_ieee (lbF ubF : Nat → ℝ) (hb : Log2BoundsSound lbF ubF) (B : Nat) (m : Mode)
    (n f : Int) (k : Nat) (hB : 2 ≤ B) (hBw : B < 2 ^ 64) (hlt : f.natAbs < B ^ k) (hk : k ≤ 2 ^ 24) :
    roundFract B m (coarseIEEE lbF ubF) n f k = roundFract B m coarseNone n f k := by
  have e : roundFract B m (coarseIEEE lbF ubF) n f k = roundFract B m (coarseReal rne32 lbF ubF) n f k := by
    unfold roundFract
    simp only [coarseIEEE_eq lbF ubF B _ k hk]
  rw [e]
  exact roundFract_coarseReal rne32 rne32_relRound lbF ubF hb B m n f k hB hBw hlt hk

/-- **`digits ≤ digits_ub` under IEEE arithmetic**: of the assumptions (A)–(C) of `Props/C10Est` only (A) (`ub` is an upper
    bound of `log₂ n`) and the `log2_bounds(B).0` half of (C) remain -/
theorem digits_ub_sound_ieee (B : Nat) (hB : 2 ≤ B) (n : Nat) (hn : 0 < n) (ub lbB : ℝ)
    (hA : Real.logb 2 n ≤ ub) (hsmall : digits B n - 1 ≤ 2 ^ 24) (hlb : 0 < lbB ∧ lbB ≤ Real.logb 2 B) :
    digits B n ≤ digitsUbReal B rne32 ub log10_2_f32 lbB :=
  digits_le_digitsUb B hB n hn rne32 ub log10_2_f32 lbB hA rne32_mono rne32_natCast hsmall logb_10_2_le hlb

/-- … and the enclosure hypothesis `DubSound` of every theorem about `smaller_than_one` / `round` / `trunc` -/
theorem dub_sound_ieee (B : Nat) (hB : 2 ≤ B) (ub : Nat → ℝ) (lbB : ℝ)
    (hA : ∀ n : Nat, 0 < n → Real.logb 2 n ≤ ub n) (hsmall : ∀ n : Nat, digits B n - 1 ≤ 2 ^ 24)
    (hlb : 0 < lbB ∧ lbB ≤ Real.logb 2 B) :
    DubSound B (fun v => if v = 0 then 0 else digitsUbReal B rne32 (ub v.natAbs) log10_2_f32 lbB) :=
  dubSound_of_assumptions B hB rne32 ub log10_2_f32 lbB hA rne32_mono rne32_natCast hsmall logb_10_2_le hlb

/-! ### assumption (A) for inline significands from the accuracy of `log2f` alone -/

/-- `log2_bounds(n).1` of the std path (`base/src/math/log.rs`, all unsigned primitives: every significand below `2¹²⁸`),
    each conversion / `+` / `next_up` an IEEE operation, is an upper bound of `log₂ n`, given only (LIBM↑): `log2f` is at most
    one ulp too small on the integers `≤ 2²⁴` and returns a binary32 number of `[16, 32)` on `(2²³, 2²⁴]` -/
theorem log2_ub_std_sound (log2f : ℝ → ℝ) (h : Log2fUpper log2f) (n : Nat) (hn : 0 < n) (hbits : Nat.log2 n + 1 ≤ 2 ^ 24) :
    Real.logb 2 n ≤ log2UbStd log2f n := log2UbStd_sound log2f h n hn hbits

/-- **`digits ≤ digits_ub` for every inline significand, from (LIBM↑) and the lower bound of the base alone** -/
theorem digits_ub_inline_sound (log2f : ℝ → ℝ) (h : Log2fUpper log2f) (B : Nat) (hB : 2 ≤ B) (n : Nat) (hn : 0 < n)
    (hbits : Nat.log2 n + 1 ≤ 2 ^ 24) (lbB : ℝ) (hsmall : digits B n - 1 ≤ 2 ^ 24) (hlb : 0 < lbB ∧ lbB ≤ Real.logb 2 B) :
    digits B n ≤ digitsUbReal B rne32 (log2UbStd log2f n) log10_2_f32 lbB :=
  digits_ub_sound_ieee B hB n hn _ lbB (log2UbStd_sound log2f h n hn hbits) hsmall hlb

/-- (LIBM↑) is satisfiable: the correctly rounded `log2f` (`rne32 ∘ log₂`) would do; here the simplest witness on the integers
    used, the exact logarithm where it is representable -/
example : Real.logb 2 ((2 ^ 24 : Nat) : ℝ) ≤ nextUp32 24 := by
  rw [logb_two_pow]
  unfold nextUp32
  have := ulp32_pos 24
  push_cast; linarith

/-! ### the coarse test of `round_fract` from the libm hypothesis alone

  `log2LbModel` / `log2UbModel` (`Proofs/Float/Log2Large.lean`): `TypedReprRef::log2_bounds` as a whole — inline values by the std
  `u128` routine, heap values by `log2_bounds_large` — with every `f32` operation an `rne32`.  (LIBM) = `Log2fSound log2f`:
  on the integers `2 ≤ m ≤ 2²⁴`, `0 ≤ next_down(log2f m) ≤ log₂ m ≤ next_up(log2f m)`, and `log2f m` is a binary32 number of
  `[16, 32)` for `2²³ ≤ m ≤ 2²⁴`. -/

/-- (E): `0 ≤ lb ≤ log₂ n ≤ ub` for `log2_bounds` of every operand of at most `2³⁰` bits, from (LIBM) alone;
    (S): the slack of the ADJUST factor for heap values -/
theorem log2_bounds_enclose (log2f : ℝ → ℝ) (h : Log2fSound log2f) (n : Nat) (hn : 0 < n) (hbits : Nat.log2 n + 1 ≤ 2 ^ 30) :
    (0 ≤ log2LbModel log2f n ∧ log2LbModel log2f n ≤ Real.logb 2 n ∧ Real.logb 2 n ≤ log2UbModel log2f n) ∧
    (2 ^ 128 ≤ n →
      log2LbModel log2f n ≤ Real.logb 2 n * ((1 + u32) ^ 2 * (1 - 4 * u32)) ∧
      (Real.logb 2 n - 1 / 1152921504606846976) * ((1 - u32) ^ 2 * (1 + 4 * u32)) ≤ log2UbModel log2f n) :=
  log2Model_sound log2f h n hn hbits

/-- the model of `log2_bounds` describes the code up to `2³⁰` bits (`rem_bits as f32` exact); beyond, values that are trivially
    sound, so that `Log2BoundsSound` (quantified over all operands) can be stated -/
noncomputable def lbClamp (log2f : ℝ → ℝ) (n : Nat) : ℝ := if Nat.log2 n + 1 ≤ 2 ^ 30 then log2LbModel log2f n else 0
noncomputable def ubClamp (log2f : ℝ → ℝ) (n : Nat) : ℝ :=
  if Nat.log2 n + 1 ≤ 2 ^ 30 then log2UbModel log2f n else 2 * Real.logb 2 n

/-- the hypothesis (E)+(S) of `C10Coarse.coarse_test_sound` DERIVED from (LIBM) -/
theorem log2_bounds_sound_libm (log2f : ℝ → ℝ) (h : Log2fSound log2f) : Log2BoundsSound (lbClamp log2f) (ubClamp log2f) := by
  constructor
  · intro n hn
    unfold lbClamp ubClamp
    by_cases hb : Nat.log2 n + 1 ≤ 2 ^ 30
    · rw [if_pos hb, if_pos hb]; exact (log2Model_sound log2f h n hn hb).1
    · rw [if_neg hb, if_neg hb]
      have := logb2_nonneg n hn
      exact ⟨le_refl _, this, by linarith⟩
  · intro n h128
    have hn : 0 < n := lt_of_lt_of_le (by positivity) h128
    unfold lbClamp ubClamp
    by_cases hb : Nat.log2 n + 1 ≤ 2 ^ 30
    · rw [if_pos hb, if_pos hb]; exact (log2Model_sound log2f h n hn hb).2 h128
    · rw [if_neg hb, if_neg hb]
      have hL := logb2_nonneg n hn
      have c1 : (0 : ℝ) ≤ (1 + u32) ^ 2 * (1 - 4 * u32) := by unfold u32; norm_num
      have c2 : (1 - u32) ^ 2 * (1 + 4 * u32) ≤ 2 := by unfold u32; norm_num
      have c3 : (0 : ℝ) ≤ (1 - u32) ^ 2 * (1 + 4 * u32) := by unfold u32; norm_num
      refine ⟨mul_nonneg hL c1, ?_⟩
      calc (Real.logb 2 n - 1 / 1152921504606846976) * ((1 - u32) ^ 2 * (1 + 4 * u32))
          ≤ Real.logb 2 n * ((1 - u32) ^ 2 * (1 + 4 * u32)) := mul_le_mul_of_nonneg_right (by linarith) c3
        _ ≤ Real.logb 2 n * 2 := mul_le_mul_of_nonneg_left c2 hL
        _ = 2 * Real.logb 2 n := by ring

/-- **`round_fract`'s coarse `f32` test decides as the exact comparison — from (LIBM) and (IEEE) alone**, on the region
    `2 ≤ B < 2⁶⁴`, `0 < |fract| < B^k`, `k ≤ 2²⁴`: the test of the source with `log2_bounds` = its model, all arithmetic `rne32` -/
theorem coarse_test_sound_libm (log2f : ℝ → ℝ) (h : Log2fSound log2f)
    (B fmag k : Nat) (hB : 2 ≤ B) (hBw : B < 2 ^ 64) (hf : 0 < fmag) (hlt : fmag < B ^ k) (hk : k ≤ 2 ^ 24)
    (o : Ordering) (hdec : coarseIEEE (log2LbModel log2f) (log2UbModel log2f) B fmag k = some o) :
    o = compare (2 * fmag) (B ^ k) := by
  have hbB : Nat.log2 B + 1 ≤ 2 ^ 30 := by
    have : Nat.log2 B < 64 := (Nat.log2_lt (by omega)).mpr hBw
    omega
  have hbf : Nat.log2 fmag + 1 ≤ 2 ^ 30 := by
    have h1 : B ^ k ≤ (2 ^ 64) ^ k := Nat.pow_le_pow_left (le_of_lt hBw) k
    have h2 : (2 ^ 64) ^ k = 2 ^ (64 * k) := (Nat.pow_mul 2 64 k).symm
    have h3 : fmag < 2 ^ (64 * k) := by rw [← h2]; exact lt_of_lt_of_le hlt h1
    have : Nat.log2 fmag < 64 * k := (Nat.log2_lt (by omega)).mpr h3
    have hk' : 64 * k ≤ 64 * 2 ^ 24 := Nat.mul_le_mul_left 64 hk
    norm_num at hk' ⊢
    omega
  have e : coarseIEEE (lbClamp log2f) (ubClamp log2f) B fmag k =
      coarseIEEE (log2LbModel log2f) (log2UbModel log2f) B fmag k := by
    unfold coarseIEEE lbClamp ubClamp
    simp only [if_pos hbB, if_pos hbf]
  rw [← e] at hdec
  exact coarse_test_sound_ieee _ _ (log2_bounds_sound_libm log2f h) B fmag k hB hBw hf hlt hk o hdec

/-- **`digits ≤ digits_ub` from (LIBM) alone, for every base `B ≥ 2` held in a word (here: of at most `2²⁴` bits) and every significand of at most `2³⁰`
    bits**: `digits_ub` of `float/src/repr.rs` with `log2_bounds` of the significand AND of the base = their models, all arithmetic
    `rne32` — no hypothesis about `f32` is left except (LIBM) -/
theorem digits_ub_sound_libm (log2f : ℝ → ℝ) (h : Log2fSound log2f) (B : Nat) (hB : 2 ≤ B) (hBw : Nat.log2 B + 1 ≤ 2 ^ 24)
    (n : Nat) (hn : 0 < n) (hbits : Nat.log2 n + 1 ≤ 2 ^ 30) (hsmall : digits B n - 1 ≤ 2 ^ 24) :
    digits B n ≤ digitsUbReal B rne32 (log2UbModel log2f n) log10_2_f32 (log2LbStd log2f B) := by
  have hb := log2LbStd_sound log2f h.lower B (by omega) hBw
  exact digits_ub_sound_ieee B hB n hn _ _ (log2Model_sound log2f h n hn hbits).1.2.2 hsmall ⟨hb.2.2 hB, hb.2.1⟩

/-- non-vacuity of (LIBM): the correctly rounded logarithm `x ↦ rne32 (log₂ x)` satisfies `Log2fSound` (the hypothesis asks
    only for one ulp, which is what libm implementations document) -/
theorem libm_hypothesis_satisfiable : Log2fSound (fun x => rne32 (Real.logb 2 x)) := log2fSound_correctlyRounded

/-! ### the LOWER digit estimate `Repr::digits_lb` (round 6)

  `digits_lb = match B { 2 => lb, 10 => lb * LOG10_2, _ => lb / log2_bounds(B).1 } as usize`, `lb = log2_bounds(n).0`
  (float/src/repr.rs; used by `Context::div`'s pre-shrink and `sub_ulp`).  `LOG10_2` is on the unsafe side for a lower
  estimate (`LOG10_2 > log₁₀ 2`), so `digits_lb ≤ digits − 1` is NOT a consequence of `lb ≤ log₂ n` for base 10; the enclosure that
  the model's hypothesis `DlbSound` asks — `digits_lb ≤ digits` — is, by the relative error of the rounded product. -/

/-- **(C)** the constant from the other side: `log₁₀ 2 ≤ LOG10_2 ≤ log₁₀ 2 · (1 + 2⁻²²)` (through `2^13301 ≤ 10^4004`, `10^643 ≤ 2^2136`) -/
theorem LOG10_2_two_sided : Real.logb 10 2 ≤ log10_2_f32 ∧ log10_2_f32 ≤ Real.logb 10 2 * (1 + 1 / 4194304) :=
  ⟨logb_10_2_le, log10_2_f32_le⟩

/-- **`digits_lb ≤ digits` under IEEE arithmetic**: only `0 ≤ lb ≤ log₂ n` and `log₂ B ≤ log2_bounds(B).1` remain assumed -/
theorem digits_lb_sound_ieee (B : Nat) (hB : 2 ≤ B) (n : Nat) (hn : 0 < n) (lb ubB : ℝ)
    (hlb0 : 0 ≤ lb) (hlb : lb ≤ Real.logb 2 n) (hsmall : digits B n ≤ 2 ^ 21) (hub : Real.logb 2 B ≤ ubB) :
    digitsLbReal B rne32 lb log10_2_f32 ubB ≤ digits B n :=
  digitsLb_le_digits B hB n hn rne32 lb _ ubB hlb0 hlb rne32_mono rne32_natCast rne32_relRound hsmall
    (by unfold log10_2_f32; norm_num) log10_2_f32_le hub

/-- … and the enclosure hypothesis `DlbSound` (`Model/Float/Repr.lean`) of the theorems about `Context::div` / `sub_ulp` -/
theorem dlb_sound_ieee (B : Nat) (hB : 2 ≤ B) (lb : Nat → ℝ) (ubB : ℝ)
    (hA : ∀ n : Nat, 0 < n → 0 ≤ lb n ∧ lb n ≤ Real.logb 2 n) (hsmall : ∀ n : Nat, digits B n ≤ 2 ^ 21)
    (hub : Real.logb 2 B ≤ ubB) :
    DlbSound B (fun v => if v = 0 then 0 else digitsLbReal B rne32 (lb v.natAbs) log10_2_f32 ubB) :=
  dlbSound_of_assumptions B hB rne32 lb _ ubB hA rne32_mono rne32_natCast rne32_relRound hsmall
    (by unfold log10_2_f32; norm_num) log10_2_f32_le hub

/-- **`digits_lb ≤ digits` from (LIBM) alone**: `log2_bounds` of the significand (`.0`) and of the base (`.1`) = their models, all
    arithmetic `rne32`; every base of at most `2²⁴` bits, every significand of at most `2³⁰` bits and `2²¹` digits — the
    counterpart of `digits_ub_sound_libm`; together: `digits_lb ≤ digits ≤ digits_ub` -/
theorem digits_lb_sound_libm (log2f : ℝ → ℝ) (h : Log2fSound log2f) (B : Nat) (hB : 2 ≤ B) (hBw : Nat.log2 B + 1 ≤ 2 ^ 24)
    (n : Nat) (hn : 0 < n) (hbits : Nat.log2 n + 1 ≤ 2 ^ 30) (hsmall : digits B n ≤ 2 ^ 21) :
    digitsLbReal B rne32 (log2LbModel log2f n) log10_2_f32 (log2UbStd log2f B) ≤ digits B n :=
  digitsLb_sound_libm log2f h B hB hBw n hn hbits hsmall

/-- both estimates enclose the digit count, from (LIBM) alone -/
theorem digits_estimates_enclose_libm (log2f : ℝ → ℝ) (h : Log2fSound log2f) (B : Nat) (hB : 2 ≤ B) (hBw : Nat.log2 B + 1 ≤ 2 ^ 24)
    (n : Nat) (hn : 0 < n) (hbits : Nat.log2 n + 1 ≤ 2 ^ 30) (hsmall : digits B n ≤ 2 ^ 21) :
    digitsLbReal B rne32 (log2LbModel log2f n) log10_2_f32 (log2UbStd log2f B) ≤ digits B n ∧
    digits B n ≤ digitsUbReal B rne32 (log2UbModel log2f n) log10_2_f32 (log2LbStd log2f B) :=
  ⟨digits_lb_sound_libm log2f h B hB hBw n hn hbits hsmall,
   digits_ub_sound_libm log2f h B hB hBw n hn hbits
     (le_trans (Nat.sub_le _ _) (le_trans hsmall (by norm_num)))⟩

/-- non-vacuity of the size hypotheses (the doc example of `digits_lb`: decimal 1001) -/
example : 2 ≤ 10 ∧ Nat.log2 10 + 1 ≤ 2 ^ 24 ∧ 0 < 1001 ∧ Nat.log2 1001 + 1 ≤ 2 ^ 30 ∧ digits 10 1001 ≤ 2 ^ 21 := by decide

/-! ### the executable soft-float model computes `rne32`

  `Model/Float/SoftF32.lean` (integer arithmetic, run by the driver beside the compiled `Float32` and compared with Rust's
  `f32` through the `s32.*` ops) — every operation is `rne32` of the exact result, for ALL operands. -/

open Dashu.Model.Float.SoftF32 in
/-- the rounding kernel: `rnePos num den` denotes `rne32 (num / den)` for every positive fraction -/
theorem soft_rne_is_rne32 (num den : Nat) (hn : 0 < num) (hd : 0 < den) :
    (rnePos num den).toReal = rne32 ((num : ℝ) / den) := rnePos_eq num den hn hd

open Dashu.Model.Float.SoftF32 in
/-- `n as f32`, `a + b`, `a * b` of the model are `rne32` of the exact result -/
theorem soft_ops_are_rne32 (a b : Val) (n : Nat) :
    (ofNat n).toReal = rne32 (n : ℝ) ∧ (add a b).toReal = rne32 (a.toReal + b.toReal) ∧
    (mul a b).toReal = rne32 (a.toReal * b.toReal) := ⟨ofNat_eq n, add_eq a b, mul_eq a b⟩

open Dashu.Model.Float.SoftF32 in
/-- `a / b` and `a − b` (where defined: `b ≠ 0`, resp. `b ≤ a`) -/
theorem soft_div_sub_are_rne32 (a b r : Val) :
    (div a b = some r → r.toReal = rne32 (a.toReal / b.toReal)) ∧
    (sub a b = some r → r.toReal = rne32 (a.toReal - b.toReal)) := ⟨div_eq a b r, sub_eq a b r⟩

/-! ### exhaustive checks on finite domains (kernel evaluation of the executable model, no axioms) -/

namespace Exhaustive
open Dashu.Model.Float.SoftF32

/-- every integer below `2¹⁰` converts exactly (instance of (B2), evaluated rather than derived) -/
theorem small_integers_exact :
    (List.range 1024).all (fun k => let q := toQ (ofNat k); q.1 == k * q.2) = true := by decide +kernel

/-- the 2⁹ integers next to `2²⁴` : exact up to `2²⁴`, beyond it the odd ones move to the EVEN neighbour significand -/
theorem integers_around_2_24 :
    (List.range 512).all (fun i =>
      let k := 16777216 - 256 + i
      let q := toQ (ofNat k)
      if k ≤ 16777216 then q.1 == k * q.2
      else if k % 2 == 0 then q.1 == k * q.2
      else q.1 == (if k % 4 == 1 then k - 1 else k + 1) * q.2) = true := by decide +kernel

/-- `precision as f32` at the ties of every binade: `(2²⁴+1)·2^j ↦ 2²⁴·2^j` (down to even), `(2²⁴+3)·2^j ↦ (2²⁴+4)·2^j` -/
theorem ties_every_binade :
    (List.range 40).all (fun j =>
      ofNat ((16777216 + 1) <<< j) == ⟨8388608, 24 + j⟩ && ofNat ((16777216 + 3) <<< j) == ⟨8388610, 24 + j⟩) = true := by
  decide +kernel

/-- the literals of the source as bit patterns: `0.999f32`, `1.001f32`, `LOG10_2`, `2·EPSILON`, `1 ∓ 2·EPSILON` -/
theorem source_literals :
    toBits (rne 999 1000) = some 0x3F7FBE77 ∧ toBits (rne 1001 1000) = some 0x3F8020C5 ∧
    toBits (rne 301029995663981195213738894724493027 1000000000000000000000000000000000000) = some 1050288283 ∧
    (ofBits 0x34000000).map (fun eps => toBits (mul (ofNat 2) eps)) = some (some 0x34800000) ∧
    ((ofBits 0x34800000).bind fun adj => (sub (ofNat 1) adj).map toBits) = some (some 0x3F7FFFFC) ∧
    (ofBits 0x34800000).map (fun adj => toBits (add (ofNat 1) adj)) = some (some 0x3F800002) := by decide +kernel

/-- `next_up` / `next_down` are `bits ± 1` at both ends of EVERY normal binade (carry into / borrow from the exponent field) -/
theorem next_up_down_all_binades :
    (List.range 252).all (fun i =>
      let e : Int := (i : Int) - 125
      let top : Val := ⟨16777215, e⟩; let bot : Val := ⟨8388608, e⟩
      ((nextUp top).bind toBits) == (toBits top).map (· + 1) && ((nextDown bot).bind toBits) == (toBits bot).map (· - 1) &&
      ((nextUp bot).bind toBits) == (toBits bot).map (· + 1) && ((nextDown top).bind toBits) == (toBits top).map (· - 1)) = true := by
  decide +kernel

/-- `bits → value → bits` is the identity at both ends of every normal binade -/
theorem bits_roundtrip :
    (List.range 254).all (fun i => (List.range 4).all fun t =>
      let b := (i + 1) <<< 23 + (if t < 2 then t else 8388608 - 4 + t)
      ((ofBits b).bind toBits) == some b) = true := by decide +kernel

end Exhaustive

/-! ### non-vacuity -/

/-- 0.1 is not a binary32 number: the rounding moves it (so `rne32` is not the identity) … -/
example : rne32 (1 / 10) = 13421773 / 134217728 := by
  have h := rneAbs_eq_of_near (1 / 10) (-4) 13421773 (by norm_num) (by norm_num) (by rw [abs_lt]; constructor <;> norm_num)
  unfold rne32; rw [if_pos (by norm_num), h]; norm_num

/-- … and a tie goes to the even neighbour: `2²⁴ + 1 ↦ 2²⁴`, `2²⁴ + 3 ↦ 2²⁴ + 4` (`precision as f32` beyond the region) -/
example : rne32 16777217 = 16777216 ∧ rne32 16777219 = 16777220 := by
  have hlog : ∀ x : ℝ, 16777216 ≤ x → x < 33554432 → ulp32 x = 2 := by
    intro x h1 h2
    unfold ulp32
    rw [intLog_eq x (by linarith) 24 (by norm_num; linarith) (by norm_num; linarith)]; norm_num
  constructor
  · unfold rne32; rw [if_pos (by norm_num)]; unfold rneAbs; rw [hlog _ (by norm_num) (by norm_num)]
    have : rhe ((16777217 : ℝ) / 2) = 8388608 := by
      unfold rhe
      have hf : ⌊(16777217 : ℝ) / 2⌋ = 8388608 := Int.floor_eq_iff.mpr ⟨by norm_num, by norm_num⟩
      rw [hf]; norm_num
      exact ⟨4194304, by norm_num⟩
    rw [this]; norm_num
  · unfold rne32; rw [if_pos (by norm_num)]; unfold rneAbs; rw [hlog _ (by norm_num) (by norm_num)]
    have : rhe ((16777219 : ℝ) / 2) = 8388610 := by
      unfold rhe
      have hf : ⌊(16777219 : ℝ) / 2⌋ = 8388609 := Int.floor_eq_iff.mpr ⟨by norm_num, by norm_num⟩
      rw [hf]; norm_num
      exact ⟨4194304, by norm_num⟩
    rw [this]; norm_num

end Dashu.Props.C10F32
