import Dashu.Props.C03
import Dashu.Proofs.NT.Root
/-
  C03 ↔ C12: the float square root composed with the mirrored integer kernel `UBig::sqrt_rem`
  (`Dashu.Model.NT.sqrtRemRepr`, builder-nt; the primitive word/double-word `sqrt_rem` and the
  Karatsuba kernel are frontier there, `sqrt_rem_large`'s normalisation and de-normalisation are
  mirrored and proved).  Kept apart from `Props/C03.lean` so that C03's own theorems do not depend on
  another group's files.
-/
namespace Dashu.Props.C03Link
open Dashu Dashu.Model.Float Dashu.Model.NT

/-- `TypedReprRef::sqrt_rem` (every even word size) meets the contract the float code relies on -/
theorem sqrtRemRepr_ok (W : Nat) (hW : 0 < W) (hWe : W % 2 = 0) : SqrtRemOk (sqrtRemRepr W true) := by
  intro n
  have h : IsRoot n 2 (sqrtRemRepr W true n).1 ∧
      (sqrtRemRepr W true n).1 * (sqrtRemRepr W true n).1 + (sqrtRemRepr W true n).2 = n := by
    unfold sqrtRemRepr
    split
    · have h := iroot_spec n 2 (by decide)
      refine ⟨h, ?_⟩
      show iroot n 2 * iroot n 2 + (n - iroot n 2 * iroot n 2) = n
      have := h.1; simp only [Nat.pow_two] at this; omega
    · exact sqrtRemLarge_spec W hW hWe _ sqrtRemKernelFrontier_contract n
  obtain ⟨⟨h1, h2⟩, h3⟩ := h
  simp only [Nat.pow_two] at h1 h2
  exact ⟨h1, h2, h3⟩

/-- **`Context::sqrt` over the mirrored `UBig::sqrt_rem`** honours `ContractSqrt`, for every even word size -/
theorem sqrt_contract_over_sqrt_rem (W : Nat) (hW : 0 < W) (hWe : W % 2 = 0) (B : Nat) (hB : 2 ≤ B) (m : Mode)
    (c : Coarse) (p : Nat) (hp : 1 ≤ p) (x : FRepr) (hs : 0 ≤ x.signif) :
    ∃ r, ctxSqrt B m c (sqrtRemRepr W true) p x = .ok r ∧ ContractSqrt B m p (x.toRat B) (r.1.toRat B) r.2 :=
  Dashu.Props.C03.sqrt_contract B hB m c _ (sqrtRemRepr_ok W hW hWe) p hp x hs

/-- the Exact flag of `Context::sqrt` over the mirrored `UBig::sqrt_rem`: `Exact` iff the mirrored kernel's remainder of the
    scaled significand is zero AND the scaling discarded only zero digits (round 5; `Props/C03.sqrt_exact_flag_iff`) -/
theorem sqrt_exact_flag_over_sqrt_rem (W : Nat) (hW : 0 < W) (hWe : W % 2 = 0) (B : Nat) (hB : 2 ≤ B) (m : Mode)
    (c : Coarse) (p : Nat) (hp : 1 ≤ p) (x : FRepr) (hs : 0 ≤ x.signif) :
    ∃ r, ctxSqrt B m c (sqrtRemRepr W true) p x = .ok r ∧
      (r.2 = none ↔ ((sqrtRemRepr W true (sqrtScale B p x).1.natAbs).2 = 0 ∧ (sqrtScale B p x).2.1 = 0)) :=
  Dashu.Props.C03.sqrt_exact_flag_iff B hB m c _ (sqrtRemRepr_ok W hW hWe) p hp x hs

/-- both kernels meet the contract, hence return the same root and remainder: the driver's `Nat.sqrt`
    run is a run of the mirrored kernel -/
theorem kernels_agree (W : Nat) (hW : 0 < W) (hWe : W % 2 = 0) (n : Nat) : sqrtRemRepr W true n = natSqrtRem n := by
  obtain ⟨a1, a2, a3⟩ := sqrtRemRepr_ok W hW hWe n
  obtain ⟨b1, b2, b3⟩ := natSqrtRem_ok n
  have hroot : (sqrtRemRepr W true n).1 = (natSqrtRem n).1 := by
    by_contra hne
    rcases Nat.lt_or_gt_of_ne hne with h | h
    · have : ((sqrtRemRepr W true n).1 + 1) * ((sqrtRemRepr W true n).1 + 1) ≤ (natSqrtRem n).1 * (natSqrtRem n).1 :=
        Nat.mul_le_mul h h
      omega
    · have : ((natSqrtRem n).1 + 1) * ((natSqrtRem n).1 + 1) ≤ (sqrtRemRepr W true n).1 * (sqrtRemRepr W true n).1 :=
        Nat.mul_le_mul h h
      omega
  have hrem : (sqrtRemRepr W true n).2 = (natSqrtRem n).2 := by rw [hroot] at a3; omega
  exact Prod.ext hroot hrem

/-- the hypotheses of the three link theorems are met by the word sizes the library is built for, on a non-trivial operand:
    `√401` at one decimal digit over the mirrored 64-bit kernel (perfect-square prefix, discarded digits `01`) -/
example : 0 < 64 ∧ 64 % 2 = 0 ∧ 0 < 32 ∧ 32 % 2 = 0 ∧ (2 : Nat) ≤ 10 ∧ 1 ≤ 1 ∧ (0 : Int) ≤ (⟨401, 0⟩ : FRepr).signif ∧
    (sqrtScale 10 1 ⟨401, 0⟩).2.1 ≠ 0 := by decide

end Dashu.Props.C03Link
