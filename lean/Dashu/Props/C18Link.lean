import Dashu.Props.C18
import Dashu.Proofs.Ratio.FloatFinal
import Dashu.Proofs.Ratio.FBigSpecRound
import Dashu.Props.GenRatCmp
import Dashu.Proofs.Cross.BitLen
/-
  C18 ↔ C06: `simplest_from_f32/f64` composed with the IEEE round-to-nearest-even specification of
  builder-conv (`Dashu.Model.Conv.ieeeRoundRat`, `Dashu/Proofs/Conv/*`, read-only).  Kept apart from
  `Props/C18.lean` so that C18's own theorems do not depend on another group's proof files.
-/
namespace Dashu.Props.C18Link
open Dashu Dashu.Model Dashu.Model.Ratio

/-- **the rounding interval is the exact preimage** (any IEEE binary format `F`): a rational
    `num/den` rounds — to nearest, ties to even, builder-conv's specification `ieeeRoundRat` — to
    the finite non-zero float with sign `s` and canonical magnitude `m·2^exp` iff it is non-zero,
    has that sign, and its magnitude lies in the float's rounding set: half an ulp to each side
    (a quarter below a power of two above the lowest binade), boundaries included iff `m` is even. -/
theorem rounding_set_is_preimage (F : Conv.Ieee) (hF : F.Ok) (s : Bool) (m : Nat) (exp : Int)
    (hc : Canon F m exp) (hfin : exp + F.MB ≤ F.emax) (num : Int) (den : Nat) (hden : 0 < den) :
    (Conv.ieeeRoundRat F .halfEven num den).1 = (if s then F.signBit else 0) + magBits F m exp ↔
      (num ≠ 0 ∧ (num < 0 ↔ s = true) ∧ InSet F m exp ((num.natAbs : Rat) / den)) :=
  round_iff F hF s m exp hc hfin num den hden

/-- that set is the `roundingInterval` the model (and, since 3d8de53, the code) hands to
    `simplest_in`: `(4·man − below, 4·man + 2)·2^(exp−2)` with the parity rule -/
theorem rounding_set_is_interval (F : Conv.Ieee) (m : Nat) (exp : Int) (x : Rat) :
    InSet F m exp x ↔
      ((roundingInterval F.MB F.qmin m exp).1.val ≤ x ∧
       x ≤ (roundingInterval F.MB F.qmin m exp).2.val ∧
       (x = (roundingInterval F.MB F.qmin m exp).1.val → m % 2 = 0) ∧
       (x = (roundingInterval F.MB F.qmin m exp).2.val → m % 2 = 0)) :=
  inSet_iff_interval F m exp x

/-- NaN / infinities give `None`, the zeros give 0 -/
theorem simplest_from_float_special (eb mb bits : Nat) :
    (floatDecode eb mb bits = none →
      simplestFromFloat simplerSpec eb mb bits = .ok (some none)) ∧
    (∀ exp, floatDecode eb mb bits = some (0, exp) →
      simplestFromFloat simplerSpec eb mb bits = .ok (some (some Q.zero))) :=
  ⟨(simplestFromFloat_spec eb mb bits).1,
   fun exp h => ((simplestFromFloat_spec eb mb bits).2 0 exp h).1 rfl⟩

/-- **`simplest_from_f32`, full statement**: for every finite non-zero `f32` (bit pattern) the
    result is a reduced fraction that converts back to exactly that float under
    round-to-nearest-even, and every fraction that converts back to it has a denominator that is
    not smaller and, for an equal denominator, a numerator magnitude that is not smaller:
    the simplest fraction among those that convert back to exactly the given float. -/
theorem simplest_from_f32_exact (bits : Nat) (hbits : bits < 2 ^ 32) (man exp : Int)
    (hdec : floatDecode 8 23 bits = some (man, exp)) (hman : man ≠ 0) :
    ∃ r, simplestFromFloat simplerSpec 8 23 bits = .ok (some (some r)) ∧ Reduced r ∧
      (Conv.ieeeRoundRat Conv.Ieee.binary32 .halfEven r.num r.den).1 = bits ∧
      ∀ (p : Int) (s : Nat), 0 < s →
        (Conv.ieeeRoundRat Conv.Ieee.binary32 .halfEven p s).1 = bits → AsSimple r ⟨p, s⟩ :=
  simplestFromFloat_exact Conv.Ieee.binary32 Conv.Ieee.binary32_ok bits hbits man exp hdec hman

/-- **`simplest_from_f64`, full statement** -/
theorem simplest_from_f64_exact (bits : Nat) (hbits : bits < 2 ^ 64) (man exp : Int)
    (hdec : floatDecode 11 52 bits = some (man, exp)) (hman : man ≠ 0) :
    ∃ r, simplestFromFloat simplerSpec 11 52 bits = .ok (some (some r)) ∧ Reduced r ∧
      (Conv.ieeeRoundRat Conv.Ieee.binary64 .halfEven r.num r.den).1 = bits ∧
      ∀ (p : Int) (s : Nat), 0 < s →
        (Conv.ieeeRoundRat Conv.Ieee.binary64 .halfEven p s).1 = bits → AsSimple r ⟨p, s⟩ :=
  simplestFromFloat_exact Conv.Ieee.binary64 Conv.Ieee.binary64_ok bits hbits man exp hdec hman

-- a finite non-zero f32 meets the hypotheses (0.1f32), and 0.1 itself rounds back to it
example : floatDecode 8 23 0x3dcccccd = some (13421773, -27) ∧
    (Conv.ieeeRoundRat Conv.Ieee.binary32 .halfEven 1 10).1 = 0x3dcccccd := by decide

example : Canon Conv.Ieee.binary32 13421773 (-27) := by unfold Canon; decide

-- ------------------------------------------------------------------ C18 ↔ C14/C05: Repr::cmp

/-- **the comparison the C18 model uses (`cmpQ`, cross multiplication) is the code of
    rational/src/cmp.rs**: `repr_cmp::<false>` (`Ord for Repr`, what `lower.cmp(&upper)`,
    `next > x.0`, `r.0 > mid` call) as REGENERATED from the source on this run
    (`Dashu.Gen.q_repr_cmp`, sign pre-test, integer shortcut and bit-length filter included) returns
    `cmpQ` for all numerators and positive denominators — composition of `Props/GenRatCmp`
    (regenerated text = C14's model) with C14's `ratReprCmp_spec` (model = order of the values). -/
theorem cmpQ_is_regenerated_repr_cmp (x y : Q) (hx : 0 < x.den) (hy : 0 < y.den) :
    Dashu.Gen.q_repr_cmp false ⟨x.num, x.den⟩ ⟨y.num, y.den⟩ = cmpQ x y := by
  rw [Dashu.Props.GenRatCmp.repr_cmp_is_cross_model]
  have h : some (Dashu.Model.Cross.ratReprCmp false x.num x.den y.num y.den) =
      some (compare (x.num * (y.den : Int)) (y.num * (x.den : Int))) :=
    Dashu.Model.Cross.ratReprCmp_spec x.num hx y.num hy
  exact Option.some.inj h

example : Dashu.Gen.q_repr_cmp false ⟨1234, 5678⟩ ⟨1235, 5679⟩ = .lt := by decide

-- ------------------------------------------------------------------ C18 ↔ C03: RoundsTo is specRound

/-- **`ulpExp = t − p`** (`ilogQ` is `⌊log_B⌋`): builder-float's ulp exponent of `x ≠ 0` at `p`
    digits is the binade `t` of `|x|` (`B^(t−1) ≤ |x| < B^t`) minus `p` — for every base `B ≥ 2` -/
theorem ulpExp_is_binade_minus_precision (B : Nat) (hB : 2 ≤ B) (p : Nat) (x : Rat) (hx : x ≠ 0)
    (t : Int) (h1 : (B : Rat) ^ (t - 1) ≤ |x|) (h2 : |x| < (B : Rat) ^ t) :
    Float.ulpExp B p x = t - p :=
  ulpExp_eq_binade B hB p x hx t h1 h2

/-- **`RoundsTo` ↔ `Float.specRound`**: the rounding relation of C18's FBig clause is builder-float's
    specification of correct rounding (the canonical representative of the C03 contract): `x ≠ 0`
    rounds to `v` at `p` digits under `m` iff `v` is the value of `specRound B m p x`. -/
theorem rounds_to_is_spec_round (B : Nat) (hB : 2 ≤ B) (m : FMode) (p : Nat) (x v : Rat)
    (hx : x ≠ 0) : RoundsTo B m p x v ↔ v = (Float.specRound B m p x).1.toRat B :=
  roundsTo_iff_specRound B hB m p x v hx

/-- **`simplest_from_float` (FBig), stated with builder-float's `specRound`**: for every base
    `b ≥ 2`, mode, precision `p ≥ 1` and non-zero float `signif·b^exp` of at most `p` digits, the
    required result `r` is reduced, `specRound b mode p r` IS that float (as a value), and every
    fraction whose `specRound` is that float is at most as simple as `r`. -/
theorem simplest_from_fbig_spec_round (mode : RMode) (b : Nat) (hb : 2 ≤ b)
    (signif exp : Int) (p : Nat) (hs : signif ≠ 0) (hp : 1 ≤ p)
    (hdig : digitsB b (signif.natAbs + 1) signif.natAbs ≤ p) :
    ∃ r, simplestFromFBig Quirks.none simplerSpec mode b signif exp p = .ok (some r) ∧ Reduced r ∧
      (Float.specRound b mode.toF p r.val).1.toRat b = (signif : Rat) * (b : Rat) ^ exp ∧
      ∀ (p' : Int) (s' : Nat), 0 < s' → p' ≠ 0 →
        (Float.specRound b mode.toF p ((p' : Rat) / s')).1.toRat b = (signif : Rat) * (b : Rat) ^ exp →
        AsSimple r ⟨p', s'⟩ := by
  obtain ⟨r, h1, h2, h3, h4⟩ := Dashu.Props.C18.simplest_from_fbig_exact mode b hb signif exp p hs hp hdig
  refine ⟨r, h1, h2, ?_, ?_⟩
  · exact ((roundsTo_iff_specRound b hb mode.toF p r.val _ (roundsTo_ne_zero hb h3)).1 h3).symm
  · intro p' s' hs' hp' hsr
    have hx : (p' : Rat) / s' ≠ 0 :=
      div_ne_zero (by exact_mod_cast hp') (by exact_mod_cast (by omega : s' ≠ 0))
    exact h4 p' s' hs' ((roundsTo_iff_specRound b hb mode.toF p _ _ hx).2 hsr.symm)

-- non-vacuity: 1/3 at 1 decimal digit: binade t = 0 (10^−1 ≤ 1/3 < 10^0), so ulpExp = 0 − 1
example : Float.ulpExp 10 1 (1 / 3) = 0 - (1 : Nat) :=
  ulpExp_is_binade_minus_precision 10 (by decide) 1 (1 / 3) (by norm_num) 0
    (by rw [abs_of_pos (by norm_num)]; norm_num) (by rw [abs_of_pos (by norm_num)]; norm_num)
-- … and the hypotheses of `simplest_from_fbig_spec_round` are those of `simplest_from_fbig_exact`
example : digitsB 10 (5 + 1) 5 ≤ 1 ∧ (5 : Int) ≠ 0 := by decide

end Dashu.Props.C18Link
