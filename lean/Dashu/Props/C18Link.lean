import Dashu.Props.C18
import Dashu.Proofs.Ratio.FloatFinal
/-
  C18 ↔ C06: `simplest_from_f32/f64` composed with the IEEE round-to-nearest-even specification of
  builder-conv (`Dashu.Model.Conv.ieeeRoundRat`, `Dashu/Proofs/Conv/*`, read-only).  Kept apart from
  `Props/C18.lean` so that C18's own theorems do not depend on another group's proof files.
-/
namespace Dashu.Props.C18Link
open Dashu Dashu.Model Dashu.Model.Ratio

/-- **the rounding interval is the exact preimage** (any IEEE binary format `F`): a rational
    `num/den` rounds — to nearest, ties to even, builder-conv's specification `ieeeRoundRat` — to
    the finite non-zero float with sign `s` and canonical magnitude `m·2^exp` iff it is non-zero,
    has that sign, and its magnitude lies in the float's rounding set: half an ulp to each side
    (a quarter below a power of two above the lowest binade), boundaries included iff `m` is even. -/
theorem rounding_set_is_preimage (F : Conv.Ieee) (hF : F.Ok) (s : Bool) (m : Nat) (exp : Int)
    (hc : Canon F m exp) (hfin : exp + F.MB ≤ F.emax) (num : Int) (den : Nat) (hden : 0 < den) :
    (Conv.ieeeRoundRat F .halfEven num den).1 = (if s then F.signBit else 0) + magBits F m exp ↔
      (num ≠ 0 ∧ (num < 0 ↔ s = true) ∧ InSet F m exp ((num.natAbs : Rat) / den)) :=
  round_iff F hF s m exp hc hfin num den hden

/-- that set is the `roundingInterval` the model (and, since 3d8de53, the code) hands to
    `simplest_in`: `(4·man − below, 4·man + 2)·2^(exp−2)` with the parity rule -/
theorem rounding_set_is_interval (F : Conv.Ieee) (m : Nat) (exp : Int) (x : Rat) :
    InSet F m exp x ↔
      ((roundingInterval F.MB F.qmin m exp).1.val ≤ x ∧
       x ≤ (roundingInterval F.MB F.qmin m exp).2.val ∧
       (x = (roundingInterval F.MB F.qmin m exp).1.val → m % 2 = 0) ∧
       (x = (roundingInterval F.MB F.qmin m exp).2.val → m % 2 = 0)) :=
  inSet_iff_interval F m exp x

/-- NaN / infinities give `None`, the zeros give 0 -/
theorem simplest_from_float_special (eb mb bits : Nat) :
    (floatDecode eb mb bits = none →
      simplestFromFloat simplerSpec eb mb bits = .ok (some none)) ∧
    (∀ exp, floatDecode eb mb bits = some (0, exp) →
      simplestFromFloat simplerSpec eb mb bits = .ok (some (some Q.zero))) :=
  ⟨(simplestFromFloat_spec eb mb bits).1,
   fun exp h => ((simplestFromFloat_spec eb mb bits).2 0 exp h).1 rfl⟩

/-- **`simplest_from_f32`, full statement**: for every finite non-zero `f32` (bit pattern) the
    result is a reduced fraction that converts back to exactly that float under
    round-to-nearest-even, and every fraction that converts back to it has a denominator that is
    not smaller and, for an equal denominator, a numerator magnitude that is not smaller:
    the simplest fraction among those that convert back to exactly the given float. -/
theorem simplest_from_f32_exact (bits : Nat) (hbits : bits < 2 ^ 32) (man exp : Int)
    (hdec : floatDecode 8 23 bits = some (man, exp)) (hman : man ≠ 0) :
    ∃ r, simplestFromFloat simplerSpec 8 23 bits = .ok (some (some r)) ∧ Reduced r ∧
      (Conv.ieeeRoundRat Conv.Ieee.binary32 .halfEven r.num r.den).1 = bits ∧
      ∀ (p : Int) (s : Nat), 0 < s →
        (Conv.ieeeRoundRat Conv.Ieee.binary32 .halfEven p s).1 = bits → AsSimple r ⟨p, s⟩ :=
  simplestFromFloat_exact Conv.Ieee.binary32 Conv.Ieee.binary32_ok bits hbits man exp hdec hman

/-- **`simplest_from_f64`, full statement** -/
theorem simplest_from_f64_exact (bits : Nat) (hbits : bits < 2 ^ 64) (man exp : Int)
    (hdec : floatDecode 11 52 bits = some (man, exp)) (hman : man ≠ 0) :
    ∃ r, simplestFromFloat simplerSpec 11 52 bits = .ok (some (some r)) ∧ Reduced r ∧
      (Conv.ieeeRoundRat Conv.Ieee.binary64 .halfEven r.num r.den).1 = bits ∧
      ∀ (p : Int) (s : Nat), 0 < s →
        (Conv.ieeeRoundRat Conv.Ieee.binary64 .halfEven p s).1 = bits → AsSimple r ⟨p, s⟩ :=
  simplestFromFloat_exact Conv.Ieee.binary64 Conv.Ieee.binary64_ok bits hbits man exp hdec hman

-- a finite non-zero f32 meets the hypotheses (0.1f32), and 0.1 itself rounds back to it
example : floatDecode 8 23 0x3dcccccd = some (13421773, -27) ∧
    (Conv.ieeeRoundRat Conv.Ieee.binary32 .halfEven 1 10).1 = 0x3dcccccd := by decide

example : Canon Conv.Ieee.binary32 13421773 (-27) := by unfold Canon; decide

end Dashu.Props.C18Link
