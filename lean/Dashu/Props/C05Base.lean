import Dashu.Props.C05Order
import Dashu.Proofs.Text.ConvDigits
/-
  C05 ↔ C08 link (round 8).  The clause "cmp of floats produced by `with_base` / `with_base_and_precision`" had no theorem:
  the producer is not an instruction of `float_history` (it changes the base).  C08 mirrors `Context::convert_base`
  (`Model/Text/Float.lean: convertBase`, executed by C08's driver against the real code; code as of fixes 02e179b / 0c0f651 /
  bd48ef9: every branch rounds to the target precision).  Here: every `.ok` result of that mirrored body (= every return that
  does not go through `ln`/`exp`) at a limited precision `p` is normalised, finite and carries at most `p + 1` digits of the
  NEW base — it is a good register (`FGood`) — so `cmp`/`==` on such results follow the values, and any float history may
  start from them.
-/
namespace Dashu.Props.C05
open Dashu.Model Dashu.Model.Float Dashu.Model.Text

/-- `x.r` is what `with_base_and_precision::<NB>(x.p)` (`with_base::<NB>()` when `x.p` is the derived precision
    `withBasePrecision`) returned for some float of some base `B ≥ 2`, rounding mode and word size -/
def BaseResult (NB : Nat) (x : FReg) : Prop :=
  ∃ (W B : Nat) (m : Mode) (r : Float.FRepr) (fl : Option Rounding),
    2 ≤ B ∧ 1 ≤ x.p ∧ convertBase W B NB m x.p r = .ok (x.r, fl)

/-- **results of `with_base` / `with_base_and_precision` are good registers** (any two bases ≥ 2, equal or not, any mode,
    any operand, precision `p ≥ 1`): canonical (`Repr::new` / `repr_round` / `repr_div` end every branch), finite, and at most
    `p + 1` digits of the new base (C08's `convertBase_digits_le_all` = Props.C08.convert_base_result_digits) -/
theorem float_with_base_results_good (W B NB : Nat) (hB : 2 ≤ B) (hNB : 2 ≤ NB) (m : Mode) (p : Nat) (hp : 1 ≤ p)
    (r : Float.FRepr) (res : Rounded Float.FRepr) (h : convertBase W B NB m p r = .ok res) :
    FGood NB ⟨res.1, p⟩ := by
  have key : FCanon NB (ofFloatRepr res.1) ∧ FFin res.1 := by
    have round : ∀ s e : Int, FCanon NB (ofFloatRepr (reprRound NB m coarseNone p (Float.FRepr.new NB s e)).1) ∧
        FFin (reprRound NB m coarseNone p (Float.FRepr.new NB s e)).1 := fun s e =>
      ⟨reprRound_fcanon NB hNB m _ p _ (new_fcanon NB hNB _ _), reprRound_ffin NB m _ p _ (new_ffin NB _ _)⟩
    unfold convertBase at h
    by_cases hne : NB = B
    · simp only [hne, if_true, ConvResult.ok.injEq] at h
      subst h; rw [← hne]; exact round _ _
    simp only [hne, if_false] at h
    by_cases hup : (if NB > B then ilogExact NB B else 0) > 1
    · simp only [hup, if_true, ConvResult.ok.injEq] at h
      subst h; exact round _ _
    · simp only [hup, if_false] at h
      by_cases hdown : (if NB > B then 0 else ilogExact B NB) > 1
      · simp only [hdown, if_true, ConvResult.ok.injEq] at h
        subst h; exact round _ _
      · simp only [hdown, if_false] at h
        have hp0 : p ≠ 0 := by omega
        simp only [hp0, if_false] at h
        by_cases hsmall : r.exp.natAbs ≤ (thresholdSmallExp W).toNat
        · simp only [hsmall, if_true] at h
          by_cases hnn : r.exp ≥ 0
          · simp only [hnn, if_true, ConvResult.ok.injEq] at h
            subst h; exact round _ _
          · simp only [hnn, if_false] at h
            by_cases hlong : (Float.FRepr.new NB r.signif 0).digits NB > p + (Float.FRepr.new NB ((B ^ (-r.exp).toNat : Nat) : Int) 0).digits NB
            · simp only [hlong, if_true, ConvResult.ok.injEq] at h
              subst h
              unfold divRoundLong
              simp only
              split
              · exact ⟨new_fcanon NB hNB _ _, new_ffin NB _ _⟩
              · exact ⟨new_fcanon NB hNB _ _, new_ffin NB _ _⟩
            · simp only [hlong, if_false] at h
              cases hv : reprDiv NB m p (Float.FRepr.new NB r.signif 0) (Float.FRepr.new NB ((B ^ (-r.exp).toNat : Nat) : Int) 0) with
              | error e => rw [hv] at h; cases h
              | ok v =>
                rw [hv] at h
                simp only [ConvResult.ok.injEq] at h
                subst h
                exact ⟨reprDiv_fcanon NB hNB m p _ _ _ hv, reprDiv_ffin NB m p _ _ _ hv⟩
        · simp only [hsmall, if_false] at h
          cases h
  exact ⟨key.1, key.2, convertBase_digits_le_all W B NB hB hNB m p hp r res h⟩

theorem BaseResult.good {NB : Nat} (hNB : 2 ≤ NB) {x : FReg} (h : BaseResult NB x) : FGood NB x := by
  obtain ⟨W, B, m, r, fl, hB, hp, h⟩ := h
  exact float_with_base_results_good W B NB hB hNB m x.p hp r (x.r, fl) h

/-- two good registers of precisions `≤ isize::MAX`: the code's comparison is the order of the values, `==` ⇔ equal values -/
theorem good_pair_value_order (B : Nat) (hB : 2 ≤ B) (digitsUb : Int → Nat) (hub : ∀ s : Int, s.natAbs < B ^ digitsUb s)
    (a b : FReg) (ga : FGood B a) (gb : FGood B b) (hpa : a.p ≤ cmpIsizeMax) (hpb : b.p ≤ cmpIsizeMax) :
    let c := reprCmpSameBase B digitsUb (ofFloatRepr a.r) (ofFloatRepr b.r) (some (a.p, b.p))
    c = specFCmp B (ofFloatRepr a.r) (ofFloatRepr b.r) ∧
    (c = .lt ↔ (ofFloatRepr a.r).val B < (ofFloatRepr b.r).val B) ∧
    (c = .eq ↔ (ofFloatRepr a.r).val B = (ofFloatRepr b.r).val B) ∧
    (c = .gt ↔ (ofFloatRepr b.r).val B < (ofFloatRepr a.r).val B) ∧
    (fbigEq (ofFloatRepr a.r) (ofFloatRepr b.r) = true ↔ c = .eq) := by
  obtain ⟨ca, fa, da⟩ := ga
  obtain ⟨cb, fb, db⟩ := gb
  have h1 := float_cmp_of_results B hB digitsUb hub a.r b.r a.p b.p da db (da.mem_of_le hpa) (db.mem_of_le hpb)
  have ia : (ofFloatRepr a.r).isInfinite = false := by
    simp only [FRepr.isInfinite, ofFloatRepr, Bool.and_eq_false_iff, bne_eq_false_iff_eq, beq_eq_false_iff_ne]
    by_cases h : a.r.signif = 0
    · exact Or.inr (fa h)
    · exact Or.inl h
  have ib : (ofFloatRepr b.r).isInfinite = false := by
    simp only [FRepr.isInfinite, ofFloatRepr, Bool.and_eq_false_iff, bne_eq_false_iff_eq, beq_eq_false_iff_ne]
    by_cases h : b.r.signif = 0
    · exact Or.inr (fb h)
    · exact Or.inl h
  obtain ⟨v1, v2, v3⟩ := specFCmp_value B hB _ _ ia ib
  intro c
  have hc : c = specFCmp B (ofFloatRepr a.r) (ofFloatRepr b.r) := h1
  refine ⟨hc, by rw [hc]; exact v1, by rw [hc]; exact v2, by rw [hc]; exact v3, ?_⟩
  rw [hc]; exact float_eq_iff_cmp_equal B hB _ _ ca cb

/-- **C05 for `with_base` results**: the comparison the code runs on ANY two results of `with_base` /
    `with_base_and_precision` into the same base `NB` — converted from any (possibly different) source bases, of any operands,
    at any two precisions `≤ isize::MAX`, any modes — decides `<`, `=`, `>` of their exact values, and `==` ⇔ `Equal` -/
theorem float_cmp_of_with_base_results (NB : Nat) (hNB : 2 ≤ NB) (digitsUb : Int → Nat)
    (hub : ∀ s : Int, s.natAbs < NB ^ digitsUb s) (a b : FReg) (ha : BaseResult NB a) (hb : BaseResult NB b)
    (hpa : a.p ≤ cmpIsizeMax) (hpb : b.p ≤ cmpIsizeMax) :
    let c := reprCmpSameBase NB digitsUb (ofFloatRepr a.r) (ofFloatRepr b.r) (some (a.p, b.p))
    c = specFCmp NB (ofFloatRepr a.r) (ofFloatRepr b.r) ∧
    (c = .lt ↔ (ofFloatRepr a.r).val NB < (ofFloatRepr b.r).val NB) ∧
    (c = .eq ↔ (ofFloatRepr a.r).val NB = (ofFloatRepr b.r).val NB) ∧
    (c = .gt ↔ (ofFloatRepr b.r).val NB < (ofFloatRepr a.r).val NB) ∧
    (fbigEq (ofFloatRepr a.r) (ofFloatRepr b.r) = true ↔ c = .eq) :=
  good_pair_value_order NB hNB digitsUb hub a b (ha.good hNB) (hb.good hNB) hpa hpb

private theorem conv_ok_of_match (e : ConvResult) (v : Float.FRepr)
    (h : (match e with | .ok r => decide (r.1 = v) | _ => false) = true) : ∃ fl, e = .ok (v, fl) := by
  cases e with
  | ok r =>
    obtain ⟨v', fl⟩ := r
    simp only [decide_eq_true_eq] at h
    exact ⟨fl, by rw [h]⟩
  | unlimitedPrecision => simp at h
  | lnExp => simp at h

-- non-vacuity: `3·2^38` (binary) `.with_base::<10>()` at precision 3 = 825·10^9 (rounded: the multiplication branch; before fix
-- 02e179b the unrounded 824633720832 of `float_cmp_needs_precision_bound`), `2^-4` = 625·10^-4 (the `repr_div` branch),
-- `15625·2^7` at precision 1 = 2·10^6 ARE results of the mirrored body, and the code now orders 825·10^9 ABOVE 2·10^6
-- (precisions 3 / 1) and 625·10^-4 below it
example : BaseResult 10 ⟨⟨825, 9⟩, 3⟩ ∧ BaseResult 10 ⟨⟨625, -4⟩, 3⟩ ∧ BaseResult 10 ⟨⟨2, 6⟩, 1⟩ ∧
    reprCmpSameBase 10 (fun s => digitsI 10 s) ⟨825, 9⟩ ⟨2, 6⟩ (some (3, 1)) = .gt ∧
    reprCmpSameBase 10 (fun s => digitsI 10 s) ⟨625, -4⟩ ⟨2, 6⟩ (some (3, 1)) = .lt := by
  refine ⟨?_, ?_, ?_, by decide +kernel, by decide +kernel⟩
  · obtain ⟨fl, h⟩ := conv_ok_of_match (convertBase 64 2 10 .halfEven 3 ⟨3, 38⟩) ⟨825, 9⟩ (by decide +kernel)
    exact ⟨64, 2, .halfEven, ⟨3, 38⟩, fl, by decide, by decide, h⟩
  · obtain ⟨fl, h⟩ := conv_ok_of_match (convertBase 64 2 10 .zero 3 ⟨1, -4⟩) ⟨625, -4⟩ (by decide +kernel)
    exact ⟨64, 2, .zero, ⟨1, -4⟩, fl, by decide, by decide, h⟩
  · obtain ⟨fl, h⟩ := conv_ok_of_match (convertBase 64 2 10 .zero 1 ⟨15625, 7⟩) ⟨2, 6⟩ (by decide +kernel)
    exact ⟨64, 2, .zero, ⟨15625, 7⟩, fl, by decide, by decide, h⟩

/-- **float histories may start from `with_base` results**: run any program of the float producers over a register file that
    initially holds results of `with_base` into the history's base; every register ever produced is good, so `cmp` on any two
    of them (a converted value against a value computed from converted values, …) is the order of the values -/
theorem float_history_from_with_base_results (k : FCfg) (hB : 2 ≤ k.B) (hdub : Float.DubSound k.B k.dub)
    (hdlb : Float.DlbSound k.B k.dlb) (ops : List FOp) (hok : ∀ op ∈ ops, op.Ok) (env : List FReg)
    (henv : ∀ x ∈ env, BaseResult k.B x) (digitsUb : Int → Nat) (hub : ∀ s : Int, s.natAbs < k.B ^ digitsUb s)
    (a b : FReg) (ha : a ∈ frun k ops env) (hb : b ∈ frun k ops env)
    (hpa : a.p ≤ cmpIsizeMax) (hpb : b.p ≤ cmpIsizeMax) :
    let c := reprCmpSameBase k.B digitsUb (ofFloatRepr a.r) (ofFloatRepr b.r) (some (a.p, b.p))
    c = specFCmp k.B (ofFloatRepr a.r) (ofFloatRepr b.r) ∧
    (c = .lt ↔ (ofFloatRepr a.r).val k.B < (ofFloatRepr b.r).val k.B) ∧
    (c = .eq ↔ (ofFloatRepr a.r).val k.B = (ofFloatRepr b.r).val k.B) ∧
    (c = .gt ↔ (ofFloatRepr b.r).val k.B < (ofFloatRepr a.r).val k.B) ∧
    (fbigEq (ofFloatRepr a.r) (ofFloatRepr b.r) = true ↔ c = .eq) := by
  have g := float_history k hB hdub hdlb ops hok env (fun x hx => (henv x hx).good hB)
  exact good_pair_value_order k.B hB digitsUb hub a b (g a ha) (g b hb) hpa hpb

-- non-vacuity: the history [with_base result 825·10^9 (p 3), with_base result 2·10^6 (p 1)] + `reg0 − reg1` at precision 3
example :
    let k : FCfg := ⟨10, .halfEven, Float.coarseNone, fun s => Float.digitsI 10 s, fun s => Float.digitsI 10 s, Float.natSqrtRem⟩
    (∀ op ∈ [FOp.sub 0 1 3], op.Ok) ∧
    (frun k [.sub 0 1 3] [⟨⟨825, 9⟩, 3⟩, ⟨⟨2, 6⟩, 1⟩]).map (fun x => (x.r.signif, x.r.exp, x.p))
      = [(825, 9, 3), (2, 6, 1), (825, 9, 3)] := by
  refine ⟨?_, by decide +kernel⟩
  intro op hop
  simp only [List.mem_singleton] at hop
  subst hop
  show 1 ≤ 3
  decide

end Dashu.Props.C05
