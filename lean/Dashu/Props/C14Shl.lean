import Dashu.Props.C14Link
import Dashu.Props.C09
/-
  C14 ↔ C09: the `<<` inside the exact steps of the cross-type comparisons.  `Model/Cross/Ord.lean`
  writes `value << n` at its value (`x * 2 ^ n`, and `shlDigits B x n = x * B^n` for
  `utils::shl_digits::<B>`, whose arms `2 => value << exp` and
  `b if b.is_power_of_two() => value << (exp * b.trailing_zeros())` are plain shifts).  Here that
  product is proved equal — for every word size — to C09's MIRRORED `Shl<usize> for IBig`
  (`ibigShl`, integer/src/shift_ops.rs) run on the canonical representation, by importing C09's proved
  `ibig_shl_exact`; composed with C05's mirrored `Ord for IBig` / `abs_cmp` (Props/C14Link) the whole
  base-2 exact step "shift, then compare" is the word-level code.  Kept apart from Props/C14Link
  because it imports a third group's proofs.
-/
namespace Dashu.Props.C14Shl
open Dashu.Model Dashu.Model.Cross

/-- `&IBig << usize` (mirrored, on the canonical representation of `x`) -/
def ibigShlW (W : Nat) (x : Int) (n : Nat) : SRepr := ibigShl W (sOfInt W x) n

/-- mirrored `IBig << n` is the `x * 2 ^ n` of the cross model, and its result is canonical -/
theorem shl_mirrored (W : Nat) (hW : 1 ≤ W) (x : Int) (n : Nat) :
    (ibigShlW W x n).value W = x * 2 ^ n ∧ SCanon W (ibigShlW W x n) := by
  have h := Dashu.Props.C09.ibig_shl_exact W hW (sOfInt W x) n (sOfInt_spec W hW x).1
  rw [(sOfInt_spec W hW x).2] at h
  exact h

/-- `shl_digits::<2>` (`value << exp`; the `exp == 0` early return is the shift by 0) -/
theorem shl_digits_base2_mirrored (W : Nat) (hW : 1 ≤ W) (x : Int) (n : Nat) :
    shlDigits 2 x n = (ibigShlW W x n).value W := by
  rw [(shl_mirrored W hW x n).1]; rfl

/-- `shl_digits::<B>` for `B = 2^k` (`value << (exp * B.trailing_zeros())`, e.g. base 16: k = 4) -/
theorem shl_digits_pow2_mirrored (W : Nat) (hW : 1 ≤ W) (k : Nat) (x : Int) (n : Nat) :
    shlDigits (2 ^ k) x n = (ibigShlW W x (n * k)).value W := by
  rw [(shl_mirrored W hW x (n * k)).1]
  unfold shlDigits
  rw [Nat.mul_comm n k, pow_mul]; push_cast; rfl

/-- the exact step `compare (x << n) m` of the float comparisons at word level: C09's mirrored shift
    followed by C05's mirrored `Ord for IBig`, no big-integer primitive used at its value -/
theorem exact_step_shl_cmp_mirrored (W : Nat) (hW : 1 ≤ W) (x m : Int) (n : Nat) :
    compare (x * 2 ^ n) m = (ibigShlW W x n).cmp (sOfInt W m) ∧
    compare m (x * 2 ^ n) = (sOfInt W m).cmp (ibigShlW W x n) := by
  obtain ⟨hv, hc⟩ := shl_mirrored W hW x n
  obtain ⟨mc, mv⟩ := sOfInt_spec W hW m
  constructor
  · rw [← Dashu.Props.C14Link.ibig_ord_any_repr W _ _ hc mc, hv, mv]
  · rw [← Dashu.Props.C14Link.ibig_ord_any_repr W _ _ mc hc, hv, mv]

/-- the `abs_cmp` variant (AbsOrd): magnitudes of the shifted and the other operand -/
theorem exact_step_shl_abs_cmp_mirrored (W : Nat) (hW : 1 ≤ W) (x m : Int) (n : Nat) :
    absCmpInt (x * 2 ^ n) m = (ibigShlW W x n).mag.cmp (sOfInt W m).mag ∧
    absCmpInt m (x * 2 ^ n) = (sOfInt W m).mag.cmp (ibigShlW W x n).mag := by
  obtain ⟨hv, hc⟩ := shl_mirrored W hW x n
  obtain ⟨mc, mv⟩ := sOfInt_spec W hW m
  have e1 : ((ibigShlW W x n).mag.value W : Int) = ((x * 2 ^ n).natAbs : Int) := by
    rw [← hv]; unfold SRepr.value; split <;> simp
  have e2 : ((sOfInt W m).mag.value W : Int) = (m.natAbs : Int) := by
    conv_rhs => rw [← mv]
    unfold SRepr.value; split <;> simp
  have e1' : (ibigShlW W x n).mag.value W = (x * 2 ^ n).natAbs := by exact_mod_cast e1
  have e2' : (sOfInt W m).mag.value W = m.natAbs := by exact_mod_cast e2
  unfold absCmpInt
  constructor
  · rw [← Dashu.Props.C14Link.ubig_ord_any_repr W _ _ hc.1 mc.1, e1', e2']
  · rw [← Dashu.Props.C14Link.ubig_ord_any_repr W _ _ mc.1 hc.1, e1', e2']

-- non-vacuity: a negative 3-word significand shifted across a word boundary against a heap value;
-- base 16 digits; the shift by 0
example : (ibigShlW 64 (-(2 ^ 130) - 5) 67).cmp (sOfInt 64 (-(2 ^ 197) - 2 ^ 70)) = .gt := by
  rw [← (exact_step_shl_cmp_mirrored 64 (by decide) (-(2 ^ 130) - 5) (-(2 ^ 197) - 2 ^ 70) 67).1]
  decide +kernel
example : (ibigShlW 64 7 (3 * 4)).value 64 = shlDigits 16 7 3 ∧ (ibigShlW 64 (-9) 0).value 64 = -9 := by
  decide +kernel

end Dashu.Props.C14Shl
