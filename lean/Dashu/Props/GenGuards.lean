import Dashu.Gen.FloatGuards
import Dashu.Gen.IntGuards
import Dashu.Model.Panic.Guards
import Dashu.Proofs.Gen.Basic
/-
  Tie A theorems for C16: the ENTRY GUARDS of operations that can panic, AS REGENERATED from /repo on this run
  (`Dashu/Gen/FloatGuards.lean`, `Dashu/Gen/IntGuards.lean`: the prologue of each function up to its first
  computation, reduced to its control flow — panic with a kind / return early / go on), equal the guards that
  `Model/Panic/Guards.lean` mirrors by hand and that `Props/C16.lean` proves equal to the DOCUMENTED panics
  (`Spec/Panics.lean`).  A guard that is dropped, reordered, or tests something else in the Rust text changes
  the regenerated definition and these theorems stop checking.  Core Lean only.
-/
set_option linter.unusedSimpArgs false
namespace Dashu.Props.GenGuards
open Dashu Dashu.Gen Dashu.GluePrelude Dashu.Proofs.Gen Dashu.Spec.Panics Dashu.Model.Panic

/-- the panic helpers of `*/src/error.rs` as the documented kinds of `Spec/Panics.lean` -/
def kindOf : Panic → Kind
  | .OperateWithInf => .infinite
  | .UnlimitedPrecision => .unlimitedPrecision
  | .PowerNegativeBase => .powNegativeBase
  | .LogNonPositive => .logInvalid
  | .RootNegative => .rootNegative
  | .RootZeroth => .rootZeroth
  | .DivideByZero => .divideByZero
  | .InvalidRadix => .invalidRadix
  | .NegativeUBig => .negativeUBig
  | .InvalidLogOperand => .logInvalid

/-- a regenerated guard as a guard of the hand model: the panic kind, or "does not panic here" -/
def toG {α} : Except Panic α → G
  | .error p => .error (kindOf p)
  | .ok _ => .ok ()

@[simp] theorem toG_ok {α} (v : α) : toG (Except.ok v : Except Panic α) = .ok () := rfl
@[simp] theorem toG_err {α} (p : Panic) : toG (Except.error p : Except Panic α) = .error (kindOf p) := rfl

def reprOf (a : FArg) : GluePrelude.FRepr := ⟨a.signif, a.exp⟩

/-! ### the assertion helpers of `float/src/error.rs` -/

theorem assert_finite_is_model (a : FArg) : toG (assert_finite (reprOf a)) = assertFinite a := by
  unfold assert_finite assertFinite reprOf FArg.isInf
  simp only [Repr_is_infinite, is_zero_int, ne_int]
  gcases h1 : a.signif = 0 <;> gcases h2 : a.exp = 0
  all_goals (first | done | rfl | (simp_all; done))

theorem assert_finite_operands_is_model (a b : FArg) :
    toG (assert_finite_operands (reprOf a) (reprOf b)) = assertFiniteOperands a b := by
  unfold assert_finite_operands assertFiniteOperands reprOf FArg.isInf
  simp only [Repr_is_infinite, is_zero_int, ne_int]
  gcases h1 : a.signif = 0 <;> gcases h2 : a.exp = 0 <;> gcases h3 : b.signif = 0 <;> gcases h4 : b.exp = 0
  all_goals (first | done | rfl | (simp_all; done))

theorem assert_limited_precision_is_model (p : Nat) :
    toG (assert_limited_precision (p : Int)) = assertLimitedPrecision p := by
  unfold assert_limited_precision assertLimitedPrecision
  gcases h : p = 0
  all_goals (first | done | rfl | (simp_all; done))

/-! ### float operations -/

/-- closes a leaf after every atom of the guard has been decided by `by_cases` -/
syntax "gbrute" : tactic
macro_rules
  | `(tactic| gbrute) => `(tactic| first | (exfalso; omega) |
      (simp [*, kindOf, le_int, lt_int, ge_int, gt_int, eq_int, ne_int]; done) |
      (simp [*, kindOf, le_int, lt_int, ge_int, gt_int, eq_int, ne_int] <;> omega))

/-- closes a guard leaf -/
syntax "gg" : tactic
macro_rules
  | `(tactic| gg) => `(tactic| first | done | rfl | (simp_all [kindOf]; done) | (simp_all [kindOf] <;> omega))

/-- `Context::sqrt`: finite operand, limited precision, non-negative operand — in this order -/
theorem sqrt_guard_is_model (a : FArg) :
    toG (guard_Context_sqrt ⟨(a.prec : Int)⟩ (reprOf a)) = guardFSqrt a := by
  unfold guard_Context_sqrt guardFSqrt assertFinite assertLimitedPrecision reprOf FArg.isInf
  simp only [assert_finite, assert_limited_precision, Repr_is_infinite, Repr_sign, is_zero_int, ne_int, eq_def, sign_int,
    bind, Except.bind]
  gcases h1 : a.signif = 0 <;> gcases h2 : a.exp = 0 <;> gcases h3 : a.prec = 0 <;> gcases h4 : a.signif < 0 <;>
    gcases h5 : 0 ≤ a.exp
  all_goals gg

/-- `FBig::ulp` -/
theorem ulp_guard_is_model (a : FArg) :
    toG (guard_FBig_ulp ⟨reprOf a, ⟨(a.prec : Int)⟩⟩) = guardFUlp a := by
  unfold guard_FBig_ulp guardFUlp reprOf
  simp only [Repr_is_infinite, is_zero_int, ne_int, eq_int]
  gcases h3 : a.prec = 0 <;> gcases h1 : a.signif = 0 <;> gcases h2 : a.exp = 0
  all_goals gg

/-- `Context::repr_div` (reached from `Context::div` after its own `assert_finite_operands`): finite operands, then
    limited precision; the zero divisor is met by the integer `div_rem` after the prologue (`guardFDiv`) -/
theorem repr_div_guard_is_model (a b : FArg) (p : Nat) :
    toG (guard_Context_repr_div ⟨(p : Int)⟩ (reprOf a) (reprOf b)) =
      (do assertFiniteOperands a b; assertLimitedPrecision p) := by
  unfold guard_Context_repr_div assertFiniteOperands assertLimitedPrecision reprOf FArg.isInf
  simp only [assert_finite_operands, assert_limited_precision, Repr_is_infinite, is_zero_int, ne_int, eq_int, bind, Except.bind]
  gcases h1 : a.signif = 0 <;> gcases h2 : a.exp = 0 <;> gcases h3 : b.signif = 0 <;> gcases h4 : b.exp = 0 <;>
    gcases h5 : p = 0
  all_goals gg

theorem div_guard_is_model (a b : FArg) (p : Nat) :
    toG (guard_Context_div ⟨(p : Int)⟩ (reprOf a) (reprOf b)) = assertFiniteOperands a b := by
  unfold guard_Context_div assertFiniteOperands reprOf FArg.isInf
  simp only [assert_finite_operands, Repr_is_infinite, is_zero_int, ne_int]
  gcases h1 : a.signif = 0 <;> gcases h2 : a.exp = 0 <;> gcases h3 : b.signif = 0 <;> gcases h4 : b.exp = 0
  all_goals gg

theorem repr_round_ref_ok {E : Type} (k : FloatK E) (c : FCtx) (r : GluePrelude.FRepr)
    (h : ¬ (r.significand = 0 ∧ r.exponent ≠ 0)) : ∃ v, Context_repr_round_ref k c r = Except.ok v := by
  unfold Context_repr_round_ref assert_finite
  have : Repr_is_infinite r = false := by
    simp only [Repr_is_infinite, is_zero_int, ne_int]
    by_cases h1 : r.significand = 0 <;> by_cases h2 : r.exponent = 0 <;> simp_all
  simp only [this, Bool.false_eq_true, if_false]
  split <;> exact ⟨_, rfl⟩

/-- `Context::powf`: finite operands, limited precision, the three shortcuts (`exp = 0`, `exp = 1`, `base = 0`),
    then a negative base panics — for EVERY kernel record (the rounding in the `exp = 1` shortcut cannot panic: its
    operand is finite at that point) -/
theorem powf_guard_is_model {E : Type} (k : FloatK E) (a b : FArg) :
    toG (guard_Context_powf k ⟨((max a.prec b.prec : Nat) : Int)⟩ (reprOf a) (reprOf b)) = guardFPowf a b := by
  unfold guard_Context_powf guardFPowf assertFiniteOperands assertLimitedPrecision FArg.isInf
  by_cases hinf : (a.signif = 0 ∧ a.exp ≠ 0) ∨ (b.signif = 0 ∧ b.exp ≠ 0)
  · have : assert_finite_operands (reprOf a) (reprOf b) = Except.error Panic.OperateWithInf := by
      simp only [assert_finite_operands, Repr_is_infinite, reprOf, is_zero_int, ne_int]
      rcases hinf with ⟨h1, h2⟩ | ⟨h1, h2⟩ <;> simp [h1, h2] <;> omega
    simp [this, hinf, kindOf, bind, Except.bind]
  · have hfin : assert_finite_operands (reprOf a) (reprOf b) = Except.ok () := by
      simp only [assert_finite_operands, Repr_is_infinite, reprOf, is_zero_int, ne_int]
      by_cases h1 : a.signif = 0 <;> by_cases h2 : a.exp = 0 <;> by_cases h3 : b.signif = 0 <;> by_cases h4 : b.exp = 0 <;>
        simp_all
    obtain ⟨v, hv⟩ := repr_round_ref_ok k ⟨((max a.prec b.prec : Nat) : Int)⟩ (reprOf a)
      (by intro h; exact hinf (Or.inl h))
    simp only [reprOf] at hv hfin ⊢
    simp only [hfin, hv]
    simp only [assert_limited_precision, Repr_is_zero, Repr_is_one, Repr_sign, is_zero_int, is_one, ne_int, eq_int,
      eq_def, sign_int]
    simp only [bind, Except.bind]
    have ha : a.signif = 0 → a.exp = 0 := by intro h; false_or_by_contra; exact hinf (Or.inl ⟨h, by assumption⟩)
    have hb : b.signif = 0 → b.exp = 0 := by intro h; false_or_by_contra; exact hinf (Or.inr ⟨h, by assumption⟩)
    clear hv hfin hinf
    gcases h5 : Max.max a.prec b.prec = 0
    all_goals (by_cases h1 : a.signif = 0)
    all_goals (by_cases h3 : b.signif = 0)
    all_goals (by_cases h2 : a.exp = 0)
    all_goals (by_cases h4 : b.exp = 0)
    all_goals (by_cases h6 : b.signif = 1)
    all_goals (by_cases h7 : a.signif < 0)
    all_goals (by_cases h8 : 0 ≤ a.exp)
    all_goals gbrute

/-- `Context::ln` (`ln_internal` with `one_plus = false`): finite, limited precision, shortcut for 1, then zero or a
    negative operand panics -/
theorem ln_guard_is_model {E : Type} (k : FloatK E) (a : FArg) :
    toG (guard_Context_ln_internal k ⟨(a.prec : Int)⟩ (reprOf a) false) = guardFLn a := by
  unfold guard_Context_ln_internal guardFLn assertFinite assertLimitedPrecision reprOf FArg.isInf
  simp only [assert_finite, assert_limited_precision, Repr_is_infinite, Repr_is_zero, Repr_is_one, Repr_sign, is_zero_int, is_one,
    ne_int, eq_int, eq_def, sign_int, bind, Except.bind]
  by_cases h1 : a.signif = 0 <;> by_cases h2 : a.exp = 0 <;> by_cases h3 : a.prec = 0 <;> by_cases h4 : a.signif = 1 <;>
    by_cases h5 : a.signif < 0 <;> by_cases h6 : 0 ≤ a.exp <;>
    gbrute

/-- `Context::ln_1p` (`one_plus = true`): the comparison `*x <= Repr::neg_one()` goes through the regenerated
    `Ord for Repr` (`Gen.Repr_cmp`, proved equal to the C14 comparison model in `Props/GenFloatCmp.lean`); here it is
    related to the guard's `leNegOne` by the hypothesis `hcmp` (what C14's theorems give for a sound oracle). -/
theorem ln_1p_guard_is_model {E : Type} (k : FloatK E) (a : FArg)
    (hcmp : is_le (Repr_cmp k (reprOf a) Repr_neg_one) = leNegOne a) :
    toG (guard_Context_ln_internal k ⟨(a.prec : Int)⟩ (reprOf a) true) = guardFLn1p a := by
  unfold guard_Context_ln_internal guardFLn1p assertFinite assertLimitedPrecision FArg.isInf
  simp only [hcmp]
  unfold reprOf
  simp only [assert_finite, assert_limited_precision, Repr_is_infinite, Repr_is_zero, Repr_is_one, Repr_sign, is_zero_int, is_one,
    ne_int, eq_int, eq_def, sign_int, bind, Except.bind]
  cases leNegOne a <;>
  by_cases h1 : a.signif = 0 <;> by_cases h2 : a.exp = 0 <;> by_cases h3 : a.prec = 0 <;>
    by_cases h5 : a.signif < 0 <;> by_cases h6 : 0 ≤ a.exp <;>
    gbrute

/-! ### integers and rationals -/

/-- `IBig::nth_root`: `n = 0` first, then an even root of a negative number -/
theorem ibig_nth_root_guard_is_model (x : Int) (n : Nat) :
    toG (guard_IBig_nth_root x (n : Int)) = guardINthRoot x n := by
  unfold guard_IBig_nth_root guardINthRoot
  have e1 : ((n : Int) = 0) = (n = 0) := by apply propext; omega
  have e2 : ((n : Int) % 2 = 0) = (n % 2 = 0) := by apply propext; omega
  simp only [as_sign_repr, sign_int, eq_int, eq_def, rem_, e1, e2]
  by_cases h1 : n = 0 <;> by_cases h2 : x < 0 <;> by_cases h3 : n % 2 = 0 <;> simp [*, kindOf]

/-- `SquareRoot for IBig` -/
theorem ibig_sqrt_guard_is_model (x : Int) : toG (guard_IBig_sqrt x) = guardISqrt x := by
  unfold guard_IBig_sqrt guardISqrt
  simp only [as_sign_repr, sign_int, eq_def]
  by_cases h2 : x < 0 <;> simp [*, kindOf]

/-- `UBig::in_radix` / `IBig::in_radix`: `!is_radix_valid(radix)` with `MIN_RADIX`, `MAX_RADIX` as in the source -/
theorem in_radix_guard_is_model (x : Int) (r : Nat) :
    toG (guard_UBig_in_radix x (r : Int)) = guardInRadix r ∧ toG (guard_IBig_in_radix x (r : Int)) = guardInRadix r := by
  unfold guard_UBig_in_radix guard_IBig_in_radix guardInRadix
  have e1 : ((2 : Int) ≤ (r : Int)) = (2 ≤ r) := by apply propext; omega
  have e2 : ((r : Int) ≤ 36) = (r ≤ 36) := by apply propext; omega
  simp only [radix_is_radix_valid, radix_MIN_RADIX, radix_MAX_RADIX, le_int, e1, e2]
  by_cases h1 : 2 ≤ r <;> by_cases h2 : r ≤ 36 <;> simp [*, kindOf]

/-- `RBig::from_parts` / `Relaxed::from_parts`: a zero denominator -/
theorem from_parts_guard_is_model (n : Int) (d : Nat) :
    toG (guard_RBig_from_parts n (d : Int)) = guardQFromParts d ∧
    toG (guard_Relaxed_from_parts n (d : Int)) = guardQFromParts d := by
  unfold guard_RBig_from_parts guard_Relaxed_from_parts guardQFromParts
  simp only [is_zero_int]
  by_cases h1 : d = 0 <;> simp [*, kindOf]

end Dashu.Props.GenGuards
