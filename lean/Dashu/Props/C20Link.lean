import Dashu.Props.C20Gen
import Dashu.Proofs.Macro.LeBytesBridge
import Dashu.Model.Mem.Repr
/-
  C20 ↔ C07 link (round 7): the constructors / encoders the integer macros CALL were modelled in
  Props/C20 by their VALUE (`Serde.leBytes` for `UBig::to_le_bytes` executed by the proc-macro,
  `Serde.ofLeBytes` for `UBig::from_le_bytes(&BYTES)` executed by the expansion).  C07 owns the
  word-level mirrors of exactly these two functions (`Model/Text/Bytes.lean`: `toLeBytes W` =
  `TypedReprRef::to_le_bytes`, inline double word + `words_to_le_bytes`; `fromLeBytes W` =
  `Repr::from_le_bytes`, `word_from_le_bytes_partial` + `from_le_bytes_large`) and proved them equal
  to the positional specification for every word size that is a multiple of 8
  (`Proofs/Text/BytesModel.lean`: `toLeBytes_eq`, `fromLeBytes_eq`).  By import of those kernels:
  the value-level functions of the C20 model ARE the mirrored code, for the word size `Wh` of the
  host that runs the proc-macro and the (possibly different) word size `Wt` of the target that runs
  the expansion.
-/
namespace Dashu.Props.C20Link
open Dashu.Model.Serde Dashu.Model.Macro

/-- `int.to_le_bytes()` in `quote_ubig` / `big.to_le_bytes()` in `parse_integer` (macros/src/parse/int.rs),
    run by the proc-macro with the host's word size: C07's word-level mirror produces exactly the byte
    string the C20 model hands to the generators -/
theorem macro_bytes_are_mirrored_encoder (Wh : Nat) (h8 : 8 ∣ Wh) (hW : 8 ≤ Wh) (n : Nat) :
    Dashu.Model.Text.toLeBytes Wh n = leBytes n :=
  toLeBytes_eq_leBytes Wh h8 hW n

/-- `UBig::from_le_bytes(&BYTES)` of the heap expansion, run with the target's word size: C07's
    word-level mirror (both paths) computes the value the C20 model assigns, for EVERY byte string -/
theorem heap_constructor_is_mirrored_decoder (Wt : Nat) (h8 : 8 ∣ Wt) (hW : 8 ≤ Wt) (bs : Bytes) :
    Dashu.Model.Text.fromLeBytes Wt bs = ofLeBytes bs :=
  fromLeBytes_eq_ofLeBytes' Wt h8 hW bs

/-- **heap path end to end at word level**: the bytes the mirrored encoder writes on a host of word
    size `Wh`, decoded by the mirrored `from_le_bytes` on a target of word size `Wt`, give `n` — for
    every `n` and every pair of word sizes (cross compilation included) -/
theorem heap_path_value_word_level (Wh Wt : Nat) (hh8 : 8 ∣ Wh) (hhW : 8 ≤ Wh) (ht8 : 8 ∣ Wt) (htW : 8 ≤ Wt)
    (n : Nat) :
    Dashu.Model.Text.fromLeBytes Wt (Dashu.Model.Text.toLeBytes Wh n) = n ∧
    isBytes (Dashu.Model.Text.toLeBytes Wh n) := by
  rw [macro_bytes_are_mirrored_encoder Wh hh8 hhW, heap_constructor_is_mirrored_decoder Wt ht8 htW]
  exact ⟨ofLeBytes_leBytes n, leBytes_isBytes n⟩

/-- **static path fed by the mirrored encoder**: `quote_words(&big.to_le_bytes(), _)` on a host of word
    size `Wh`; the slice selected for a target of `Wt ∈ {16, 32, 64}` bits (regenerated selector table)
    passes the `from_static_words` assertion and denotes `n` -/
theorem static_path_value_word_level (Wh : Nat) (h8 : 8 ∣ Wh) (hW : 8 ≤ Wh) (Wt : Nat)
    (ht : Wt = 16 ∨ Wt = 32 ∨ Wt = 64) (n : Nat) :
    staticSelect Wt (Dashu.Model.Text.toLeBytes Wh n) = some n := by
  rw [macro_bytes_are_mirrored_encoder Wh h8 hW]
  exact Dashu.Props.C20Gen.static_select_value Wt ht n

/-- the const path guard is decided on the same magnitude: nothing to decode (`#u as _`), and below the
    guard the mirrored encoder's bytes still denote the value (≤ 4 bytes) -/
theorem const_path_bytes_word_level (Wh : Nat) (h8 : 8 ∣ Wh) (hW : 8 ≤ Wh) (m : Nat)
    (h : intPath false m = .const) :
    ofLeBytes (Dashu.Model.Text.toLeBytes Wh m) = m ∧ m < 2 ^ 32 := by
  rw [macro_bytes_are_mirrored_encoder Wh h8 hW]
  exact ⟨ofLeBytes_leBytes m, (const_path_guard m h).1⟩

-- non-vacuity: a 64-bit host, 16- / 32- / 64-bit targets, a value beyond the inline double word of each
example : Dashu.Model.Text.toLeBytes 64 (2 ^ 130 + 7) = leBytes (2 ^ 130 + 7) ∧
    Dashu.Model.Text.fromLeBytes 16 (Dashu.Model.Text.toLeBytes 64 (2 ^ 130 + 7)) = 2 ^ 130 + 7 ∧
    Dashu.Model.Text.fromLeBytes 32 (Dashu.Model.Text.toLeBytes 64 70000) = 70000 := by
  refine ⟨?_, ?_, ?_⟩ <;> decide +kernel

-- ====================================================================== C20 ↔ C17: from_static_words
/-
  C20 ↔ C17 link (round 7, second item): `Repr::from_static_words` was modelled in Props/C20 by its
  value + its normalisation assertion (`staticValue`: `last word ≠ 0`).  C17 owns the mirror of the
  function itself (`Model/Mem/Repr.lean` `Rep.fromStaticWords`: the four arms of repr.rs:290 with BOTH
  asserts, repr.rs:295 `hi > 0` and repr.rs:301 "must be normalized").  Here: on the slice the macro
  emits, C17's mirror takes no assert arm, emits no event, and shows exactly the words of the slice.
-/

open Dashu.Model.Mem

/-- the words a `from_static_words` result shows through `as_sign_slice` -/
def shown : Rep.StaticOut → List Nat
  | .value r => r.words
  | .stat ws => ws

/-- the slice `&DATA[..LEN]` of the selector of `8k`-bit words (what `staticValue` reads) -/
def macroSlice (k : Nat) (bs : Bytes) : List Nat := (quoteWords k bs).2.take (quoteWords k bs).1

theorem staticValue_eq_slice (k : Nat) (bs : Bytes) :
    staticValue k bs =
      if (macroSlice k bs).getLast? = some 0 then none else some (valWords (8 * k) (macroSlice k bs)) := rfl

/-- C17's `from_static_words` on ANY word list whose last word is not zero: no assert arm, counter
    unchanged, no event, and the result shows exactly those words -/
theorem from_static_words_accepts_normalised (ws : List Nat) (h : ws.getLast? ≠ some 0) (ctr : Nat) :
    ∃ o, Rep.fromStaticWords ws ctr = ⟨.ok o, ctr, []⟩ ∧ shown o = ws := by
  unfold Rep.fromStaticWords
  split
  · exact ⟨_, rfl, by simp [shown, Rep.fromWord, Rep.words]⟩
  · rename_i w
    have hw : w ≠ 0 := by intro e; subst e; simp at h
    exact ⟨_, rfl, by simp [shown, Rep.fromWord, Rep.words, hw]⟩
  · rename_i lo hi
    have hhi : hi ≠ 0 := by intro e; subst e; simp at h
    rw [if_pos (by omega)]
    exact ⟨_, rfl, by simp [shown, Rep.fromDword, Rep.words, hhi]⟩
  · rw [if_neg h]
    exact ⟨_, rfl, rfl⟩

/-- **static path through C17's constructor**: for each selector (`k` = 2, 4, 8 bytes per word), the
    slice the macro emits for `n` is accepted by the mirrored `from_static_words` (neither assert fires,
    i.e. the `static` initialiser compiles) and the words it shows denote `n` -/
theorem static_constructor_on_macro_slice (k : Nat) (hk : 2 ≤ k) (n ctr : Nat) :
    ∃ o, Rep.fromStaticWords (macroSlice k (leBytes n)) ctr = ⟨.ok o, ctr, []⟩ ∧
      valWords (8 * k) (shown o) = n := by
  have hv := staticValue_leBytes k hk n
  rw [staticValue_eq_slice] at hv
  split at hv
  · cases hv
  · rename_i hl
    obtain ⟨o, ho, hs⟩ := from_static_words_accepts_normalised _ hl ctr
    exact ⟨o, ho, by rw [hs]; exact Option.some.inj hv⟩

example : (Rep.fromStaticWords (macroSlice 8 (leBytes (2 ^ 130 + 7))) 0).res.toOption = some (.stat [7, 0, 4]) ∧
    (Rep.fromStaticWords (macroSlice 2 (leBytes 70000)) 0).res.toOption = some (.value (Rep.fromDword 4464 1)) := by
  refine ⟨?_, ?_⟩ <;> decide +kernel

/-- the regenerated selector table reads exactly these slices: `staticSelect W` (W = 16, 32, 64) is the
    normalisation test + value of `macroSlice (W/8)` -/
theorem staticSelect_reads_macro_slice (bs : Bytes) :
    (staticSelect 16 bs = if (macroSlice 2 bs).getLast? = some 0 then none else some (valWords 16 (macroSlice 2 bs))) ∧
    (staticSelect 32 bs = if (macroSlice 4 bs).getLast? = some 0 then none else some (valWords 32 (macroSlice 4 bs))) ∧
    (staticSelect 64 bs = if (macroSlice 8 bs).getLast? = some 0 then none else some (valWords 64 (macroSlice 8 bs))) := by
  obtain ⟨h16, h32, h64⟩ := Dashu.Props.C20Gen.staticSelect_eq bs
  exact ⟨h16.trans (staticValue_eq_slice 2 bs), h32.trans (staticValue_eq_slice 4 bs), h64.trans (staticValue_eq_slice 8 bs)⟩

end Dashu.Props.C20Link
