import Dashu.Gen.IntBits
import Dashu.Proofs.Gen.Basic
import Dashu.Props.C09
/-
  C09, Tie A over the SIGN-LEVEL bit functions of `IBig` (`integer/src/bits.rs`): `IBig::trailing_zeros`, `IBig::trailing_ones`,
  `<IBig as BitTest>::bit`, `Not for IBig` / `Not for &IBig`, regenerated on every run by the typed translator
  (`Dashu/Gen/IntBits.lean`) over the record `GluePrelude.BitK` of the magnitude-level `TypedReprRef` methods.
  Theorems: for EVERY record whose fields meet the specification of those methods (`Meets`; each clause is a theorem about the
  executed hand model in `Props/C09.lean` — `ubig_bit`, `trailing_zeros`, `trailing_ones`, … — and about the regenerated arms in
  `Props/GenScans`, `Props/GenBitsSmall`), the regenerated sign dispatch computes the infinite two's-complement meaning:
  `bit` is `Int.testBit` (the trailing-zeros trick for negative values: below the lowest set bit of the magnitude 0, at it 1, above
  it the complement), `trailing_zeros` / `trailing_ones` are the 2-adic valuations of `x` / `x + 1` (`None` for 0 / −1), `!x = −x − 1`.
  `Option::unwrap` enters only through `unwrap (some v) = v`; that its `None` arm is never reached is `Props.C09.ibig_bit`.
-/
set_option linter.unusedSimpArgs false
namespace Dashu.Props.GenIntBits
open Dashu Dashu.Gen Dashu.GluePrelude Dashu.Proofs.Gen Dashu.Model

/-- the specification of the magnitude-level methods the regenerated bodies call -/
structure Meets (k : BitK) : Prop where
  bit : ∀ a n : Nat, k.bit (a : Int) (n : Int) = a.testBit n
  tz_zero : k.trailing_zeros 0 = none
  tz : ∀ a : Nat, a ≠ 0 → ∃ t : Nat, k.trailing_zeros (a : Int) = some (t : Int) ∧ IsTz a t
  tones : ∀ a : Nat, ∃ t : Nat, k.trailing_ones (a : Int) = (t : Int) ∧ IsTz (a + 1) t
  tones_neg_one : k.trailing_ones_neg 1 = none
  tones_neg : ∀ a : Nat, 2 ≤ a → ∃ t : Nat, k.trailing_ones_neg (a : Int) = some (t : Int) ∧ IsTz (a - 1) t
  unwrap : ∀ v, k.unwrap (some v) = v

/-- **`<IBig as BitTest>::bit` as regenerated = the two's-complement bit** (`Int.testBit`), every sign, every position -/
theorem gen_ibig_bit (k : BitK) (h : Meets k) (x : Int) (n : Nat) : IBig_bit k x (n : Int) = Int.testBit x n := by
  unfold IBig_bit
  simp only [as_sign_repr, sign_int, cmp_int, Int.ofNat_eq_natCast]
  by_cases hx : x < 0
  · have ha : x.natAbs ≠ 0 := by omega
    obtain ⟨z, hk, ht⟩ := h.tz x.natAbs ha
    have hneg : x = Int.negSucc (x.natAbs - 1) := by omega
    simp only [hx, if_true, hk, h.unwrap, h.bit]
    rw [← specBit_eq_testBit, hneg, specBit_negSucc, ← hneg, testBit_pred _ z n ht]
    rcases Nat.lt_trichotomy n z with h1 | h1 | h1
    · rw [cmp_lt_of (by omega : (n : Int) < z)]; simp [h1]
    · subst h1; rw [compare_self_int]; simp
    · rw [cmp_gt_of (by omega : (z : Int) < n)]
      have : ¬ n < z := by omega
      have h2 : ¬ n = z := by omega
      simp [this, h2]
  · simp only [hx, if_false, h.bit]
    obtain ⟨a, rfl⟩ := Int.eq_ofNat_of_zero_le (by omega : 0 ≤ x)
    rw [← specBit_eq_testBit, specBit_natCast]
    simp

/-- **`IBig::trailing_zeros` as regenerated**: `None` exactly for 0, otherwise the 2-adic valuation of `x` (either sign) -/
theorem gen_ibig_trailing_zeros (k : BitK) (h : Meets k) (x : Int) :
    (x = 0 → IBig_trailing_zeros k x = none) ∧
    (x ≠ 0 → ∃ t : Nat, IBig_trailing_zeros k x = some (t : Int) ∧ IsTz x.natAbs t) := by
  unfold IBig_trailing_zeros
  simp only [as_sign_repr, Int.ofNat_eq_natCast]
  refine ⟨fun h0 => by subst h0; exact h.tz_zero, fun h0 => h.tz x.natAbs (by omega)⟩

/-- **`IBig::trailing_ones` as regenerated**: `None` exactly for −1 (infinitely many ones), otherwise the 2-adic valuation of
    `x + 1` — the number of trailing one bits of the two's-complement form (`Props.C09.ibig_trailing_ones_bits` reads it as bits) -/
theorem gen_ibig_trailing_ones (k : BitK) (h : Meets k) (x : Int) :
    (x = -1 → IBig_trailing_ones k x = none) ∧
    (x ≠ -1 → ∃ t : Nat, IBig_trailing_ones k x = some (t : Int) ∧ IsTz (x + 1).natAbs t) := by
  unfold IBig_trailing_ones
  simp only [as_sign_repr, sign_int, Int.ofNat_eq_natCast]
  by_cases hx : x < 0
  · simp only [hx, if_true]
    refine ⟨fun h1 => ?_, fun h1 => ?_⟩
    · subst h1; exact h.tones_neg_one
    · obtain ⟨t, ht, hz⟩ := h.tones_neg x.natAbs (by omega)
      refine ⟨t, ht, ?_⟩
      have e : (x + 1).natAbs = x.natAbs - 1 := by omega
      rw [e]; exact hz
  · simp only [hx, if_false]
    refine ⟨fun h1 => by omega, fun _ => ?_⟩
    obtain ⟨t, ht, hz⟩ := h.tones x.natAbs
    refine ⟨t, by rw [ht], ?_⟩
    have e : (x + 1).natAbs = x.natAbs + 1 := by omega
    rw [e]; exact hz

/-- **`!IBig` as regenerated = `−x − 1`**, both ownership forms (magnitude + 1 with the sign flipped / magnitude − 1) -/
theorem gen_ibig_not (x : Int) : IBig_not x = -x - 1 ∧ IBig_ref_not x = -x - 1 := by
  unfold IBig_not IBig_ref_not
  simp only [as_sign_repr, sign_int, with_sign, add_one, sub_one, Sign.apply, Int.ofNat_eq_natCast]
  by_cases hx : x < 0
  · simp only [hx, if_true]; omega
  · simp only [hx, if_false]; omega

/-- and that is the bitwise complement -/
theorem gen_ibig_not_bits (x : Int) (i : Nat) : Int.testBit (IBig_not x) i = !Int.testBit x i := by
  rw [(gen_ibig_not x).1, show -x - 1 = Int.lnot x from compl_eq_lnot x, Int.testBit_lnot]

/-- a record that meets the specification (built from the checked specification functions of `Model/Int/Bits.lean`):
    the hypotheses of the theorems above are satisfiable -/
def specK : BitK where
  trailing_zeros m := if m = 0 then none else (specTz m.natAbs).map Int.ofNat
  trailing_ones m := ((specTz (m.natAbs + 1)).getD 0 : Nat)
  trailing_ones_neg m := if m = 1 then none else (specTz (m.natAbs - 1)).map Int.ofNat
  bit m n := m.natAbs.testBit n.toNat
  bit_len m := bitLenNat m.natAbs
  unwrap o := o.getD 0

theorem specK_meets : Meets specK where
  bit a n := by simp [specK]
  tz_zero := by simp [specK]
  tz a ha := by
    obtain ⟨t, h1, h2⟩ := Dashu.Props.C09.spec_tz_total a ha
    exact ⟨t, by simp [specK, ha, h1], h2⟩
  tones a := by
    obtain ⟨t, h1, h2⟩ := Dashu.Props.C09.spec_tz_total (a + 1) (by omega)
    exact ⟨t, by simp [specK, h1], h2⟩
  tones_neg_one := by simp [specK]
  tones_neg a ha := by
    obtain ⟨t, h1, h2⟩ := Dashu.Props.C09.spec_tz_total (a - 1) (by omega)
    refine ⟨t, ?_, h2⟩
    have : ¬ (a : Int) = 1 := by omega
    simp [specK, this, h1]
  unwrap v := by simp [specK]

-- non-vacuity: −12 = …10100: bit 2 is the lowest set bit, bits above are the complement of 12's; trailing ones of −5 = …1011
example : IBig_bit specK (-12) 2 = true ∧ IBig_bit specK (-12) 1 = false ∧ IBig_bit specK (-12) 3 = false ∧
    IBig_bit specK (-12) 4 = true ∧ IBig_trailing_ones specK (-5) = some 2 ∧ IBig_trailing_ones specK (-1) = none ∧
    IBig_trailing_zeros specK (-12) = some 2 ∧ IBig_not 5 = -6 ∧ IBig_ref_not (-6) = 5 := by
  refine ⟨by decide, by decide, by decide, by decide, by decide, by decide, by decide, by decide, by decide⟩

-- ---------------------------------------------------------------- link: the executed magnitude-level model meets the specification

/-- the record of the EXECUTED hand model: each `TypedReprRef` method of `Model/Int/Bits.lean` (what the driver runs) applied to the
    canonical representation of the magnitude; a panic of the model is `none` / 0 (there is none: `modelK_meets`) -/
def modelK (W : Nat) : BitK where
  trailing_zeros m := match (ofNat W m.natAbs).trailingZeros W with
    | .ok r => r.map Int.ofNat
    | .error _ => none
  trailing_ones m := match (ofNat W m.natAbs).trailingOnes W true with
    | .ok t => (t : Int)
    | .error _ => 0
  trailing_ones_neg m := match (ofNat W m.natAbs).trailingOnesNeg W with
    | .ok r => r.map Int.ofNat
    | .error _ => none
  bit m n := (ofNat W m.natAbs).bit W n.toNat
  bit_len m := ((ofNat W m.natAbs).bitLen W : Nat)
  unwrap o := o.getD 0

/-- **the executed magnitude-level model meets the specification the regenerated sign dispatch is proved against**
    (from `TRepr.bit_spec`, `trailingZeros_spec`, `trailingOnes_fixed`, `trailingOnesNeg_spec` and `ofNat_canon` / `ofNat_value`) -/
theorem modelK_meets (W : Nat) (hW : 1 ≤ W) : Meets (modelK W) where
  bit a n := by
    simp only [modelK, Int.natAbs_natCast, Int.toNat_natCast]
    rw [TRepr.bit_spec W hW _ n (ofNat_canon W hW a), ofNat_value W hW a]
  tz_zero := by
    have h := (TRepr.trailingZeros_spec W (ofNat W 0) (ofNat_canon W hW 0)).1 (ofNat_value W hW 0)
    simp only [modelK, Int.natAbs_zero, h, Option.map_none]
  tz a ha := by
    obtain ⟨t, h1, h2⟩ := (TRepr.trailingZeros_spec W (ofNat W a) (ofNat_canon W hW a)).2 (by rw [ofNat_value W hW a]; exact ha)
    rw [ofNat_value W hW a] at h2
    exact ⟨t, by simp only [modelK, Int.natAbs_natCast, h1, Option.map_some, Int.ofNat_eq_natCast], h2⟩
  tones a := by
    obtain ⟨t, h1, h2⟩ := TRepr.trailingOnes_fixed W (ofNat W a) (ofNat_canon W hW a)
    rw [ofNat_value W hW a] at h2
    exact ⟨t, by simp only [modelK, Int.natAbs_natCast, h1], h2⟩
  tones_neg_one := by
    have h := (TRepr.trailingOnesNeg_spec W hW (ofNat W 1) (ofNat_canon W hW 1) (by rw [ofNat_value W hW 1]; omega)).1
      (ofNat_value W hW 1)
    have e : (1 : Int).natAbs = 1 := rfl
    simp only [modelK, e, h, Option.map_none]
  tones_neg a ha := by
    obtain ⟨t, h1, h2⟩ := (TRepr.trailingOnesNeg_spec W hW (ofNat W a) (ofNat_canon W hW a) (by rw [ofNat_value W hW a]; omega)).2
      (by rw [ofNat_value W hW a]; exact ha)
    rw [ofNat_value W hW a] at h2
    exact ⟨t, by simp only [modelK, Int.natAbs_natCast, h1, Option.map_some, Int.ofNat_eq_natCast], h2⟩
  unwrap v := by simp [modelK]

/-- **regenerated sign dispatch ∘ executed magnitude model = the two's-complement meaning**, every word size: `IBig::bit`,
    `!IBig` need nothing else; `trailing_zeros` / `trailing_ones` return the 2-adic valuation of `x` / `x + 1` -/
theorem model_ibig_bit (W : Nat) (hW : 1 ≤ W) (x : Int) (n : Nat) : IBig_bit (modelK W) x (n : Int) = Int.testBit x n :=
  gen_ibig_bit _ (modelK_meets W hW) x n

theorem model_ibig_trailing (W : Nat) (hW : 1 ≤ W) (x : Int) :
    (x = 0 → IBig_trailing_zeros (modelK W) x = none) ∧
    (x ≠ 0 → ∃ t : Nat, IBig_trailing_zeros (modelK W) x = some (t : Int) ∧ IsTz x.natAbs t) ∧
    (x = -1 → IBig_trailing_ones (modelK W) x = none) ∧
    (x ≠ -1 → ∃ t : Nat, IBig_trailing_ones (modelK W) x = some (t : Int) ∧ IsTz (x + 1).natAbs t) :=
  ⟨(gen_ibig_trailing_zeros _ (modelK_meets W hW) x).1, (gen_ibig_trailing_zeros _ (modelK_meets W hW) x).2,
   (gen_ibig_trailing_ones _ (modelK_meets W hW) x).1, (gen_ibig_trailing_ones _ (modelK_meets W hW) x).2⟩

end Dashu.Props.GenIntBits
