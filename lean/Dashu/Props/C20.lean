import Dashu.Proofs.Macro.Words
import Dashu.Proofs.Macro.Grammar
import Dashu.Proofs.Macro.RatLoop
import Dashu.Proofs.Macro.FloatLit
import Dashu.Proofs.Macro.IntLoop
import Dashu.Proofs.Macro.FloatDigits
/-
  C20 — Literal macros build exactly the number that was written.

  Model: `Model/Macro/Literal.lean` (token loops of macros/src/parse/{int,ratio}.rs, the float entry
  points of float.rs, the three code generators of int.rs / common.rs).  The value of an accepted
  literal is *defined* as the run-time parser's answer on the same text (`intLiteral`, `floatLiteral`,
  `ratLiteral` return it only when the macro's own reconstruction agrees); the theorems say
    (a) on the documented token shapes the macro's reconstruction always agrees (nothing is filtered),
    (b) each of the three code generators denotes exactly that value, for every word size,
    (c) rational literals come out reduced, float literals normalised with precision = digits written,
  and the counterexample theorems exhibit the token sequences outside the grammar that the code as
  it is accepts (recorded findings).
-/
namespace Dashu.Props.C20
open Dashu.Model.Serde Dashu.Model.Macro

-- ====================================================================== (a) token reconstruction

/-- `[sign] value [base N]` with at most one sign (signed macros only): the macro's value is the
    run-time parser's value of the concatenated text, and it rejects exactly when the parser rejects -/
theorem int_literal_is_runtime_parse (signed : Bool) (sg : Option Bool) (vt : Tok) (val : Bytes) (base : Option Bytes)
    (hv : isValTok vt = some val) (hn : NoSign val) (hs : sg = none ∨ signed = true) :
    intLiteral signed (docInt sg vt base) = (parseMag val base).map (signedVal (sg == some true)) ∧
    rtInt signed (docInt sg vt base) = some (intLiteral signed (docInt sg vt base)) :=
  intLiteral_doc signed sg vt val base hv hn hs

/-- non-vacuity: `ibig!(-1f base 16)` -/
example : docInt (some true) (.lit [49, 102]) (some [49, 54]) = [.punct 45, .lit [49, 102], .ident baseKw, .lit [49, 54]] ∧
    NoSign [49, 102] ∧ intLiteral true (docInt (some true) (.lit [49, 102]) (some [49, 54])) = some (-31) := by
  refine ⟨rfl, ⟨by decide, by decide⟩, by decide⟩

/-- whatever the tokens: an accepted integer literal has the run-time parser's value -/
theorem int_literal_sound (signed : Bool) (toks : List Tok) (v : Int) (h : intLiteral signed toks = some v) :
    rtInt signed toks = some (some v) := by
  unfold intLiteral at h
  cases h1 : intAsIs signed toks with
  | none => simp [h1] at h
  | some a =>
    obtain ⟨neg, m⟩ := a
    cases h2 : rtInt signed toks with
    | none => simp [h1, h2] at h
    | some r =>
      cases r with
      | none => simp [h1, h2] at h
      | some w =>
        simp only [h1, h2] at h
        by_cases e : signedVal neg m = w
        · simp [e] at h; rw [h]
        · simp [e] at h

/-- **ubig!/ibig! token loop (code since /repo e26a9db) accepts exactly `[sign] value [base [N]]`**
    (sign only for the signed macros): soundness and completeness -/
theorem int_loop_accepts_only_the_grammar (signed : Bool) (toks : List Tok) (st : IS)
    (h : intLoopNew signed {} toks = some st) : toks = renderInt st ∧ IWF signed st :=
  intLoopNew_sound signed toks st h

theorem int_loop_accepts_the_grammar (signed : Bool) (st : IS) (wf : IWF signed st) :
    intLoopNew signed {} (renderInt st) = some st := intLoopNew_complete signed st wf

/-- whatever `parse_integer_with_error` accepts (loop, `val.unwrap()`, radix parse) has the value the
    model prescribes = the run-time parser's on the same text -/
theorem int_macro_accepts_only_runtime_values (signed : Bool) (toks : List Tok) (neg : Bool) (m : Nat)
    (htok : ∀ t ∈ toks, isVal t = true → NoSign t.text)
    (h : intNew signed toks = some (neg, m)) : intLiteral signed toks = some (signedVal neg m) :=
  intNew_is_literal signed toks neg m htok h

example : intNew true [.punct 45, .lit [49, 102], .ident baseKw, .lit [49, 54]] = some (true, 31) ∧
    intNew true [.punct 45, .punct 45, .lit [53]] = none ∧ intNew false [.punct 43, .lit [53]] = none := by
  refine ⟨by decide, by decide, by decide⟩

-- ====================================================================== (b) code generators

/-- **heap path** (`quote_ubig`: `const BYTES = to_le_bytes(n); UBig::from_le_bytes(&BYTES)`) -/
theorem bytes_path_value (n : Nat) : ofLeBytes (leBytes n) = n ∧ isBytes (leBytes n) :=
  ⟨ofLeBytes_leBytes n, leBytes_isBytes n⟩

/-- **static path** (`quote_words`): for each of the three selectors the slice `&DATA[..LEN]` passes
    the `from_static_words` assertion and denotes `n` -/
theorem static_path_value (n : Nat) :
    staticValue 2 (leBytes n) = some n ∧ staticValue 4 (leBytes n) = some n ∧ staticValue 8 (leBytes n) = some n :=
  static_path_all_word_sizes n

/-- the arrays of all selectors have the common length `max_len = (len+1)/2 ≥ LEN` -/
theorem static_path_layout (k : Nat) (hk : 2 ≤ k) (bs : Bytes) :
    (quoteWords k bs).2.length = (bs.length + 1) / 2 ∧ (quoteWords k bs).1 ≤ (bs.length + 1) / 2 :=
  quoteWords_length k hk bs

/-- word arrays in general: value, length, last word -/
theorem word_array_value (k : Nat) (hk : 0 < k) (bs : Bytes) :
    valWords (8 * k) (bytesToWords k bs) = ofLeBytes bs ∧
    (bytesToWords k bs).length = (bs.length + k - 1) / k ∧
    (bs.getLast? ≠ some 0 → (bytesToWords k bs).getLast? ≠ some 0) :=
  ⟨valWords_bytesToWords k hk bs, bytesToWords_length k hk bs, bytesToWords_getLast k hk bs⟩

/-- **const path**: only for magnitudes a `u32` holds (so `#u as _` into a `DoubleWord` is lossless
    for every word size ≥ 16) -/
theorem const_path_value (m : Nat) (h : intPath false m = .const) :
    m < 2 ^ 32 ∧ m % 2 ^ 32 = m ∧ ∀ W, 16 ≤ W → m < 2 ^ (2 * W) := const_path_guard m h

theorem generator_choice (m : Nat) : intPath true m = .static ∧ intPath false m ≠ .static := path_by_mode m

example : intPath false (2 ^ 32 - 1) = .const ∧ intPath false (2 ^ 32) = .bytes ∧ intPath true 5 = .static := by
  refine ⟨by decide, by decide, by decide⟩

-- ====================================================================== (c) rationals and floats

/-- **rbig! token loop (code since /repo e26a9db) — soundness**: whatever the loop accepts is the
    rendering `[~] [sign] value [/ [sign] value] [base N]` of its final state: every part at most
    once, in this order, a denominator only after `/`, `base` only after the values -/
theorem ratio_loop_accepts_only_the_grammar (toks : List Tok) (st : RS) (h : ratLoopNew {} toks = some st) :
    toks = render st ∧ WF st := ratLoopNew_sound toks st h

/-- **completeness**: every token list of that shape is accepted and leads to the state it renders -/
theorem ratio_loop_accepts_the_grammar (st : RS) (wf : WF st) : ratLoopNew {} (render st) = some st :=
  ratLoopNew_complete st wf

/-- non-vacuity: `~ - 6 / 9 base 10` -/
example : WF { rel := true, nSign := some true, nVal := some (.lit [54]), marked := true, dVal := some (.lit [57]),
               baseMarked := true, base := some [49, 48] } ∧
    render { rel := true, nSign := some true, nVal := some (.lit [54]), marked := true, dVal := some (.lit [57]),
             baseMarked := true, base := some [49, 48] } =
      [.punct 126, .punct 45, .lit [54], .punct 47, .lit [57], .ident baseKw, .lit [49, 48]] := by
  constructor
  · unfold WF; simp [isVal]
  · simp [render, signTok]

/-- **the value**: what `parse_ratio_with_error` computes (unsigned parses of the value tokens, signs
    from the sign tokens, `from_parts_signed`, reduction) is what the model prescribes — the run-time
    parser's answer on the text of the literal — on every token list, accepted or rejected -/
theorem ratio_macro_is_runtime_parse (toks : List Tok)
    (htok : ∀ t ∈ toks, isVal t = true → NoSign t.text ∧ 47 ∉ t.text) : ratNew toks = ratLiteral toks :=
  ratNew_eq_ratLiteral toks htok

example : ratNew [.punct 45, .lit [54], .punct 47, .lit [57]] = some (⟨-2, 3⟩, false) := by decide

/-- an accepted `rbig!` literal: documented shape, the run-time parser's value, stored in lowest
    terms (`~`: without a common factor 2) — in particular the `transmute` of `static_rbig!` is applied
    to a reduced pair -/
theorem ratio_literal_spec (toks : List Tok) (q : QVal) (relaxed : Bool) (h : ratLiteral toks = some (q, relaxed)) :
    ∃ st, toks = render st ∧ WF st ∧ finalOK st ∧ relaxed = st.rel ∧
      ratRuntime st.rel (ratText st) st.base = some (q, relaxed) ∧
      (relaxed = false → QReduced q) ∧ (relaxed = true → QRelaxed q) := ratLiteral_spec toks q relaxed h

/-- every literal of the documented grammar is accepted exactly when the run-time parser accepts its text -/
theorem ratio_literal_complete (st : RS) (wf : WF st) (hf : finalOK st) :
    ratLiteral (render st) = ratRuntime st.rel (ratText st) st.base := ratLiteral_complete st wf hf

/-- an accepted float literal: representation and precision are the run-time parser's (precision =
    number of digits written) and the representation is normalised -/
theorem float_literal_spec (binary : Bool) (toks : List Tok) (v : FPVal) (h : floatLiteral binary toks = some v) :
    rtFloat binary toks = some v ∧ FCanon (if binary then 2 else 10) ⟨v.signif, v.exp⟩ :=
  floatLiteral_spec binary toks v h

/-- **float literal = the number written**: a literal `[sign] digits [. digits] [@ exponent]` in base `B`
    (what `fbig!` / `dbig!` pass to the parser after concatenating the tokens) denotes
    `± digits · B^(exponent − #fraction digits)` exactly, with precision = number of digits written
    (C08's `parse_literal_exact` through the parser the macro model runs) -/
theorem float_literal_exact (B : Nat) (hB : Dashu.Model.Text.validRadix B = true) (up : Bool)
    (sign : Option Bool) (di : List Nat) (frac : Option (List Nat)) (scale : Option Int)
    (hdi : ∀ d ∈ di, d < B) (hdf : ∀ d ∈ frac.getD [], d < B) (hne : di ≠ [] ∨ frac.getD [] ≠ [])
    (hs : ∀ z, scale = some z → -(2 ^ 63 : Int) ≤ z ∧ z < (2 ^ 63 : Int)) :
    ∃ r : Dashu.Model.Float.FRepr,
      r.toRat B = (if sign = some true then -1 else 1) *
        (Dashu.Model.Text.ofDigits B (di ++ frac.getD []) : ℚ) *
        Dashu.Model.Float.bpowQ B (scale.getD 0 - ((frac.getD []).length : Int)) ∧
      (inIsize r.exp → floatParse B (Dashu.Model.Text.renderLiteral up sign di frac scale) =
        some (⟨r.signif, r.exp⟩, di.length + (frac.getD []).length)) :=
  floatParse_literal B hB up sign di frac scale hdi hdf hne hs

/-- non-vacuity: `-12.5` in base 10 -/
example : (∀ d ∈ [1, 2], d < 10) ∧ (∀ d ∈ (some [5] : Option (List Nat)).getD [], d < 10) ∧
    Dashu.Model.Text.renderLiteral false (some true) [1, 2] (some [5]) none = [45, 49, 50, 46, 53] := by
  refine ⟨by decide, by decide, by decide⟩

-- ---------------------------------------------------------------------- fbig!'s own stripping, hexadecimal forms

/-- **`fbig!`'s sign / underscore stripping, on EVERY token list** (`parse_binary_float`,
    macros/src/parse/float.rs, mirrored statement by statement as `fbigNew`): the sign taken off the
    front, the one macro-only `_` dropped, the rest parsed unsigned and the sign re-attached by
    `IBig::from_parts` — the outcome is exactly the run-time parser's on the text without that `_`;
    a literal with a sign behind the stripped prefix (`-+1`, `_-1`, `_+1`) is refused -/
theorem fbig_strip_is_runtime_parse (toks : List Tok) :
    (fbigNew toks).map fpOfParts = (if fbigSecondSign toks then none else rtFloat true toks) :=
  fbigNew_eq toks

/-- the mirrors of the two float macros decide exactly what the model prescribes (the driver runs both
    sides and reports a difference as a defect of the model) -/
theorem float_macro_is_literal (toks : List Tok) :
    (fbigNew toks).map fpOfParts = floatLiteral true toks ∧ (dbigAsIs toks).map fpOfParts = floatLiteral false toks ∧
    (dbigAsIs toks).map fpOfParts = rtFloat false toks :=
  ⟨fbigNew_eq_literal toks, dbig_eq_literal toks, dbig_eq toks⟩

example : (fbigNew [.punct 45, .ident [95, 49, 48, 49]]).map fpOfParts = some ⟨-5, 0, 3⟩ ∧
    fbigNew [.punct 45, .punct 43, .lit [49]] = none ∧ fbigNew [.ident [95], .punct 43, .lit [49]] = none ∧
    rtFloat true [.ident [95], .punct 43, .lit [49]] = some ⟨1, 0, 1⟩ := by
  refine ⟨by decide, by decide, by decide, by decide⟩

/-- **hexadecimal float literal = the number written** (`[sign] 0x int [. frac] [p|P|@ exponent]`,
    base 2): the parser the macro runs returns `± (hex digits) · 2^(exponent − 4·#fraction digits)`
    exactly, precision = 4 bits per hexadecimal digit written -/
theorem hex_float_literal_exact (up : Bool) (x m : Nat) (hx : x = 120 ∨ x = 88) (hm : m = 112 ∨ m = 80 ∨ m = 64)
    (sign : Option Bool) (di : List Nat) (frac : Option (List Nat)) (scale : Option Int)
    (hdi : ∀ d ∈ di, d < 16) (hdf : ∀ d ∈ frac.getD [], d < 16) (hne : di ≠ [] ∨ frac.getD [] ≠ [])
    (hs : ∀ z, scale = some z → -(2 ^ 63 : Int) ≤ z ∧ z < (2 ^ 63 : Int)) :
    ∃ r : Dashu.Model.Float.FRepr,
      r.toRat 2 = (if sign = some true then -1 else 1) * (Dashu.Model.Text.ofDigits 16 (di ++ frac.getD []) : ℚ) *
        Dashu.Model.Float.bpowQ 2 (scale.getD 0 - ((4 * (frac.getD []).length : Nat) : Int)) ∧
      (inIsize r.exp → floatParse 2 (renderHex up x m sign di frac scale) =
        some (⟨r.signif, r.exp⟩, 4 * (di.length + (frac.getD []).length))) :=
  floatParse_hex up x m hx hm sign di frac scale hdi hdf hne hs

/-- non-vacuity: `-0x3.ef`, and the parser on `-0x3.efp-2` -/
example : renderHex false 120 112 (some true) [3] (some [14, 15]) none = [45, 48, 120, 51, 46, 101, 102] ∧
    floatParse 2 [45, 48, 120, 51, 46, 101, 102] = some (⟨-0x3ef, -8⟩, 12) ∧
    floatParse 2 [45, 48, 120, 51, 46, 101, 102, 112, 45, 50] = some (⟨-0x3ef, -10⟩, 12) := by
  refine ⟨by decide, by decide, by decide⟩

/-- **`fbig!` on the hexadecimal forms**, including the macro-only `_` (`fbig!(-_0xae.1f)`): tokens
    that spell `[sign] [_] 0x int [. frac] [p exponent]` expand to exactly the number written — as the
    code computes it and as the model prescribes -/
theorem fbig_hex_literal_value (toks : List Tok) (us up : Bool) (x m : Nat) (hx : x = 120 ∨ x = 88)
    (hm : m = 112 ∨ m = 80 ∨ m = 64) (sign : Option Bool) (di : List Nat) (frac : Option (List Nat))
    (scale : Option Int) (hdi : ∀ d ∈ di, d < 16) (hdf : ∀ d ∈ frac.getD [], d < 16)
    (hne : di ≠ [] ∨ frac.getD [] ≠ []) (hs : ∀ z, scale = some z → -(2 ^ 63 : Int) ≤ z ∧ z < (2 ^ 63 : Int))
    (htext : concatToks toks = Dashu.Model.Text.signChars sign ++ ((if us then [95] else []) ++
      (48 :: x :: ((Dashu.Model.Text.chars up di ++ Dashu.Model.Text.fracChars up frac) ++ pScaleChars m scale)))) :
    ∃ r : Dashu.Model.Float.FRepr,
      r.toRat 2 = (if sign = some true then -1 else 1) * (Dashu.Model.Text.ofDigits 16 (di ++ frac.getD []) : ℚ) *
        Dashu.Model.Float.bpowQ 2 (scale.getD 0 - ((4 * (frac.getD []).length : Nat) : Int)) ∧
      (inIsize r.exp →
        (fbigNew toks).map fpOfParts = some ⟨r.signif, r.exp, 4 * (di.length + (frac.getD []).length)⟩ ∧
        floatLiteral true toks = some ⟨r.signif, r.exp, 4 * (di.length + (frac.getD []).length)⟩) :=
  fbig_hex_literal toks us up x m hx hm sign di frac scale hdi hdf hne hs htext

/-- non-vacuity: `fbig!(-_0xae.1f)` — tokens `-`, `_0xae` (an identifier for rustc), `.`, `1f` -/
example : concatToks [.punct 45, .ident [95, 48, 120, 97, 101], .punct 46, .lit [49, 102]] =
    Dashu.Model.Text.signChars (some true) ++ ((if true then [95] else []) ++
      (48 :: 120 :: ((Dashu.Model.Text.chars false [10, 14] ++ Dashu.Model.Text.fracChars false (some [1, 15])) ++ pScaleChars 112 none))) ∧
    (fbigNew [.punct 45, .ident [95, 48, 120, 97, 101], .punct 46, .lit [49, 102]]).map fpOfParts =
      some ⟨-0xae1f, -8, 16⟩ := by
  refine ⟨by decide, by decide⟩

/-- **every accepted float literal, whatever its form** (underscore separators, any scale marker of
    the base, hexadecimal with `fbig!`): value `± (its digits) · B^(scale − k·#fraction digits)` and
    precision `k ·` (number of digits written), `k = 4` for hexadecimal digits and `1` otherwise -/
theorem float_literal_denotes (binary : Bool) (toks : List Tok) (v : FPVal) (h : floatLiteral binary toks = some v) :
    ∃ (neg hex : Bool) (di df : List Nat) (scale : Int), (hex = true → binary = true) ∧
      (∀ d ∈ di ++ df, d < (if hex then 16 else (if binary then 2 else 10))) ∧ di ++ df ≠ [] ∧
      v.prec = (di.length + df.length) * (if hex then 4 else 1) ∧
      (Dashu.Model.Float.FRepr.mk v.signif v.exp).toRat (if binary then 2 else 10) =
        (if neg then -1 else 1) *
          (Dashu.Model.Text.ofDigits (if hex then 16 else (if binary then 2 else 10)) (di ++ df) : ℚ) *
          Dashu.Model.Float.bpowQ (if binary then 2 else 10) (scale - ((df.length * (if hex then 4 else 1) : Nat) : Int)) :=
  floatLiteral_denotes binary toks v h

example : floatLiteral true [.lit [48, 120, 49, 95, 56, 112, 51]] = some ⟨3, 6, 8⟩ := by decide

/-- **heap / static path of the float macros**: `Repr::new(significand, exponent)` in the expansion
    (and the word array + exponent handed to `Repr::from_static_words`) reproduce the parsed, normalised
    representation unchanged -/
theorem float_expansion_repr_fixed (binary : Bool) (toks : List Tok) (v : FPVal) (h : floatLiteral binary toks = some v) :
    fnew (if binary then 2 else 10) v.signif v.exp = some ⟨v.signif, v.exp⟩ :=
  floatLiteral_repr_fixed binary toks v h

/-- **digits ≤ precision**: an accepted float literal never carries more significant digits (of base 2
    resp. 10) than its precision — the number of digits written, 4 per hexadecimal digit — so the
    `debug_assert!(digits ≤ precision)` of `FBig::from_repr` in the heap expansion cannot fire and the
    value needs no rounding to fit its own precision -/
theorem float_literal_digits_le_precision (binary : Bool) (toks : List Tok) (v : FPVal)
    (h : floatLiteral binary toks = some v) :
    (Dashu.Model.Float.FRepr.mk v.signif v.exp).digits (if binary then 2 else 10) ≤ v.prec :=
  floatLiteral_digits_le_prec binary toks v h

-- ====================================================================== findings
-- the first two: the token loops before /repo e26a9db (fixed); the third: still open

/-- `ibig!(--5)` expands to −5; the run-time parser rejects `--5` -/
theorem int_double_sign_accepted :
    intAsIs true [.punct 45, .punct 45, .lit [53]] = some (true, 5) ∧
    rtInt true [.punct 45, .punct 45, .lit [53]] = some none ∧
    intLiteral true [.punct 45, .punct 45, .lit [53]] = none := int_double_sign_counterexample

/-- before e26a9db: `rbig!(3 4)` expanded to 3/4; the text reads 34 (now rejected by the loop) -/
theorem ratio_missing_slash_accepted :
    ratAsIs [.lit [51], .lit [52]] = some (⟨3, 4⟩, false) ∧
    rtRat [.lit [51], .lit [52]] = some (some (⟨34, 1⟩, false)) ∧
    ratLiteral [.lit [51], .lit [52]] = none := rat_missing_slash_counterexample

/-- static float expansion / zero literal: the precision is lost -/
theorem float_precision_lost :
    (floatExpansionAsIs true false (2 ^ 40) 0 41).2.prec = 0 ∧ (floatExpansionAsIs false false (2 ^ 40) 0 41).2.prec = 41 ∧
    (floatExpansionAsIs false false 0 0 3).2.prec = 0 := float_static_precision_counterexample

end Dashu.Props.C20
