import Dashu.Props.C18KernelsCmp
/-
  C18 ↔ C01 / C05 (round 8, second item): the `loop { … }` of `RBig::farey_neighbors` with its mediant
  `&left.numerator + &right.numerator` (IBig + IBig), `&left.denominator + &right.denominator` (UBig + UBig) through C01's
  mirrored `ibigAdd` / `TRepr.add` and its tests `&next.denominator > limit` (Ord for UBig) through C05's mirrored
  comparison, on canonical representations: equal to the model's `fareyLoop` for every word size.  (`reduce` = C12's
  gcd: Props/C18Kernels.reduce_over_proved_gcd; `next > x.0` = `Repr::cmp`: Props/C18Link.cmpQ_is_regenerated_repr_cmp.)
-/
namespace Dashu.Props.C18KernelsFarey
open Dashu Dashu.Model Dashu.Model.Ratio Dashu.Model.Cross Dashu.Props.C18Kernels

/-- `UBig + UBig` through the mirrored kernel (`TRepr.add`), ownership form `form` -/
def uaddW (W form : Nat) (x y : Nat) : Nat := ((ofNat W x).add W (ofNat W y) form).value W
/-- `UBig > UBig` through the mirrored `Ord for UBig` -/
def ugtW (W : Nat) (x y : Nat) : Bool := ubigOrdW W x y == .gt

theorem uaddW_eq (W : Nat) (hW : 1 ≤ W) (form : Nat) (x y : Nat) : uaddW W form x y = x + y :=
  (Dashu.Props.C01.u_add_sub_of_nat W hW x y form false).1

theorem ugtW_eq (W : Nat) (hW : 1 ≤ W) (x y : Nat) : ugtW W x y = decide (x > y) := by
  unfold ugtW
  rw [Dashu.Props.C14Link.ubig_ord_mirrored W hW]
  rcases Nat.lt_trichotomy x y with h | h | h
  · have : compare x y = .lt := by simp [compare, compareOfLessAndEq, h]
    have h' : ¬ x > y := by omega
    simp [this, h']
  · subst h; simp [compare, compareOfLessAndEq]
  · have h1 : ¬ x < y := by omega
    have h2 : ¬ x = y := by omega
    have : compare x y = .gt := by simp [compare, compareOfLessAndEq, h1, h2]
    simp [this, h]

/-- the `loop { … }` of `RBig::farey_neighbors` (same text as `fareyLoop`), mediant additions and denominator tests through
    the word-level kernels at word size `W` -/
def fareyLoopW (W form : Nat) (x : Q) (limit : Nat) : Nat → Q → Q → Except PanicKind (Option (Q × Q))
  | 0, _, _ => .ok none
  | fuel + 1, left, right => do
    let next : Q := ⟨addW W form left.num right.num, uaddW W form left.den right.den⟩
    let nextR ← if ugtW W next.den limit = true then reduce next else pure next
    if ugtW W next.den limit = true ∧ ugtW W nextR.den limit = true then pure (some (left, right))
    else if cmpQ nextR x = .gt then fareyLoopW W form x limit fuel left nextR
    else fareyLoopW W form x limit fuel nextR right

/-- **the Farey walk over the proved kernels is the model's walk**: every word size ≥ 4, target, limit, fuel, bracket,
    ownership form; panics included -/
theorem farey_over_proved_kernels (W : Nat) (hW : 4 ≤ W) (form : Nat) (x : Q) (limit fuel : Nat) (l r : Q) :
    fareyLoopW W form x limit fuel l r = fareyLoop x limit fuel l r := by
  induction fuel generalizing l r with
  | zero => rfl
  | succ n ih =>
    simp only [fareyLoopW, fareyLoop, addW_eq W hW, uaddW_eq W (by omega), ugtW_eq W (by omega), decide_eq_true_eq, ih]

/-- non-vacuity: neighbours of 3/7 in the Farey sequence of order 4 at 64-bit words: 1/3 and 1/2 -/
example : fareyLoopW 64 0 ⟨3, 7⟩ 4 10 Q.zero Q.one = .ok (some (⟨1, 3⟩, ⟨1, 2⟩)) := by
  rw [farey_over_proved_kernels 64 (by decide)]; decide
example : uaddW 64 0 (2 ^ 64 - 1) 1 = 2 ^ 64 ∧ ugtW 64 (2 ^ 130 + 7) (2 ^ 130 + 5) = true := by
  rw [uaddW_eq 64 (by decide), ugtW_eq 64 (by decide)]; decide

end Dashu.Props.C18KernelsFarey
