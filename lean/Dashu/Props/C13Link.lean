import Dashu.Props.C13
import Dashu.Proofs.NT.ModLargeK
import Dashu.Proofs.NT.ModInvm
import Dashu.Proofs.NT.ModPowK
import Dashu.Proofs.NT.ModAddK
import Dashu.Proofs.NT.ModInvLargeB
import Dashu.Model.NT.ModAllK
import Dashu.Gen.ModularBuf
import Dashu.Gen.ModularAdd
/-
  C13 ↔ C02 link (round 5).  The multi-word ring's reductions were the last place where the C13 model
  said `% r.M` for dashu's own multi-word division (`div::div_rem_in_place`).  They are now mirrored on
  word buffers (`Model/NT/ModLargeK.lean`: `ConstLargeDivisor::rem_large / rem_repr`,
  `mul_normalized / sqr_normalized`), run C02's mirrored `Dashu.Model.Div.divRemInPlace` (Knuth D /
  Burnikel–Ziegler over C01's multiplication), are executed by the driver, and the theorems below —
  composed from C02's `divRemInPlace_spec` (= `Props.C02.simple_div_rem_exact` +
  `burnikel_ziegler_exact`, imported, not re-proved) — say they never fail and store exactly what the
  `%`-level definitions of `Props/C13` store.  `4 ≤ W` is C02's/C01's hypothesis (Toom-3 carries).
-/
namespace Dashu.Props.C13Link
open Dashu.Model Dashu.Model.NT

/-- **`ConstLargeDivisor::rem_large` on buffers**: for every multi-word ring `ConstDivisor::new` builds and
    every buffer of words, `shl_in_place` + `push_resizing(carry)` + (`div_rem_in_place` + `truncate` when
    long enough) never fails and leaves `(words << shift) mod (m << shift)`. -/
theorem rem_large_exact (W id m : Nat) (hW4 : 4 ≤ W) (r : Ring) (hnew : Ring.new W id m = .ok r)
    (hk : r.kind = .large) (words : List Nat) (hws : IsWords W words) :
    ∃ out, remLargeWordsL W (r.ndWords W) r.k (Div.highestDword W (r.ndWords W)) words = .ok out ∧
      val W out = (val W words * 2 ^ r.k) % r.M :=
  remLargeWordsL_spec (Ring.new_wf (by omega) hnew) hW4 hk (Ring.new_large_k (by omega) hnew hk) words hws

/-- the buffers the theorem is about: the normalised divisor has exactly `n` words, is made of words and
    denotes `m << shift`; the shift is below one word -/
theorem large_divisor_fields (W id m : Nat) (hW : 0 < W) (r : Ring) (hnew : Ring.new W id m = .ok r)
    (hk : r.kind = .large) :
    (r.ndWords W).length = r.n ∧ IsWords W (r.ndWords W) ∧ val W (r.ndWords W) = r.M ∧ r.k < W := by
  have hwf := Ring.new_wf hW hnew
  have := hwf.kind_n.2.2 hk
  obtain ⟨a, b, c⟩ := ndWords_spec hwf (by omega)
  exact ⟨a, b, c, Ring.new_large_k hW hnew hk⟩

/-- **`ConstDivisor::reduce` with EVERY division kernel mirrored** (what the driver executes since round 5:
    single- and double-word rings as in `Props.C13.reduce_kernels`, multi-word rings through `rem_repr` on
    buffers) stores what the `%`-level model stores; hence `Props.C13.reduce_spec` and the homomorphism
    theorems are theorems about `reduceIntKL`. -/
theorem reduce_kernels_all (W id m : Nat) (hW : 0 < W) (r : Ring) (hnew : Ring.new W id m = .ok r)
    (hW4 : r.kind = .large → 4 ≤ W) :
    (∀ x : Nat, rawOfNatKL W r x = rawOfNat W r x) ∧ (∀ a : Int, reduceIntKL W r a = reduceInt W r a) :=
  ⟨rawOfNatKL_eq hW hW4 hnew, reduceIntKL_eq hW hW4 hnew⟩

/-- **`mul_normalized` / `sqr_normalized` on buffers** (trimmed lengths, `n.max(na+nb)`-word product,
    `debug_assert_zero!(shr_in_place)`, `div_rem_in_place` / compare-and-subtract): on `Valid` operands of a
    ring `ConstDivisor::new` builds, `*` and `sqr` as the driver executes them equal the `%`-level
    product of `Props.C13.hom_mul / hom_sqr`. -/
theorem mul_sqr_kernels_all (W id m : Nat) (hW : 0 < W) (r : Ring) (hnew : Ring.new W id m = .ok r)
    (hW4 : r.kind = .large → 4 ≤ W) (x y : Nat) (hx : Valid r x) (hy : Valid r y) :
    mulRawKL W r x y = mulRaw W r x y ∧ sqrRawKL W r x = sqrRaw W r x := by
  have hwf := Ring.new_wf hW hnew
  have hkW : r.kind = .large → r.k < W := Ring.new_large_k hW hnew
  obtain ⟨h1, h2⟩ := Dashu.Props.C13.mul_sqr_kernels W r hwf x y hx hy
  obtain ⟨u, _, rfl⟩ := hx
  exact ⟨by rw [mulRawKL_eq hwf hW4 hkW, h1], by rw [sqrRawKL_eq hwf hW4 hkW, h2]⟩

/-- non-vacuity: a 3-word ring with shift 3, a 6-word operand through `rem_large` (division arm), a
    product of two 2-word residues (`na + nb = 4 > 3`, division arm) and of two 1-word residues
    (compare-and-subtract arm) — the mirrored buffers computations give the residues -/
example : ∃ r, Ring.new 64 0 (2 ^ 188 + 12345) = .ok r ∧ r.kind = .large ∧ r.k = 3 ∧
    remReprLK 64 r (3 ^ 230) = .ok ((3 ^ 230 % (2 ^ 188 + 12345)) * 2 ^ 3) ∧
    productLow 64 false ((2 ^ 100 + 7) * 2 ^ 3) ((2 ^ 99 + 5) * 2 ^ 3) = .ok (natWords 64 ((2 ^ 100 + 7) * 2 ^ 3 * ((2 ^ 99 + 5) * 2 ^ 3))) ∧
    mulNormalizedWordsL 64 r false ((2 ^ 100 + 7) * 2 ^ 3) ((2 ^ 99 + 5) * 2 ^ 3)
      = .ok (((2 ^ 100 + 7) * (2 ^ 99 + 5) % (2 ^ 188 + 12345)) * 2 ^ 3) ∧
    mulNormalizedWordsL 64 r false (5 * 2 ^ 3) (9 * 2 ^ 3) = .ok (45 * 2 ^ 3) ∧
    mulNormalizedWordsL 64 r true ((2 ^ 100 + 7) * 2 ^ 3) ((2 ^ 100 + 7) * 2 ^ 3)
      = .ok (((2 ^ 100 + 7) * (2 ^ 100 + 7) % (2 ^ 188 + 12345)) * 2 ^ 3) :=
  ⟨_, rfl, rfl, by decide, by decide +kernel, by decide +kernel, by decide +kernel⟩

-- ================================================================== modular/add.rs on buffers (round 6; C13 ↔ C01 link)

/-- **`negate_in_place` / `add_in_place` / `dbl_in_place` / `sub_in_place` / `sub_in_place_swap` on word buffers**
    (`integer/src/modular/add.rs`; what the driver executes since round 6 for `Neg`, `+`, `dbl`, `-` and `&a - b` of
    multi-word rings, and for the negation inside `IntoRing for IBig`): the `n`-word residue buffers go through C01's
    mirrored `add_same_len_in_place` / `sub_same_len_in_place(_swap)`, C02's mirrored `shl_in_place(.., 1)` and
    `cmp_same_len`, with `debug_assert!(!overflow)`, `debug_assert_eq!(overflow, overflow2)`, `debug_assert!(overflow2)`
    as error values.  On `Valid` residues of a ring `ConstDivisor::new` builds no assertion fails and the buffers hold
    exactly the values `Props.C13.hom_add / hom_sub / hom_neg / hom_dbl` are about (for every word size; the word
    loops' contracts are C01's `addSameLen_spec` / `subSameLen_spec`, imported). -/
theorem add_sub_neg_kernels_all (W id m : Nat) (hW : 0 < W) (r : Ring) (hnew : Ring.new W id m = .ok r)
    (x y : Nat) (hx : Valid r x) (hy : Valid r y) :
    addRawKL W r x y = addRaw r x y ∧ subRawKL W r x y = subRaw r x y ∧ subSwapRawKL W r x y = subRaw r x y ∧
    negRawKL W r x = negRaw r x ∧ dblRawKL W r x = addRaw r x x := by
  have hwf := Ring.new_wf hW hnew
  have hn : r.kind = .large → 1 ≤ r.n := fun hk => by have := hwf.kind_n.2.2 hk; omega
  have hlt : ∀ z, Valid r z → z < r.M := by
    intro z ⟨v, hv, hz⟩
    subst hz
    exact Nat.mul_lt_mul_of_pos_right hv (Nat.two_pow_pos _)
  exact ⟨addRawKL_eq hwf hn (hlt x hx) (hlt y hy), subRawKL_eq hwf hn (hlt x hx) (hlt y hy),
    subSwapRawKL_eq hwf hn (hlt x hx) (hlt y hy), negRawKL_eq hwf hn (hlt x hx), dblRawKL_eq hwf hn (hlt x hx)⟩

/-- **the operators as the driver executes them since round 6** (`reduceIntKA`: `IntoRing for IBig` with the sign applied by
    the buffer-level `negate_in_place`; `addKL`, `subBothKL` = both `sub_in_place` and `sub_in_place_swap`, `negKL`, `dblKL`)
    are the operators of `Props.C13.hom_add / hom_sub / hom_neg / hom_dbl` on every pair of reduced integers -/
theorem add_sub_neg_ops_all (W id m : Nat) (hW : 0 < W) (r : Ring) (hnew : Ring.new W id m = .ok r)
    (hW4 : r.kind = .large → 4 ≤ W) (a b : Int) :
    reduceIntKA W r a = reduceInt W r a ∧
    (reduceIntKA W r a).addKL W (reduceIntKA W r b) = (reduceInt W r a).add (reduceInt W r b) ∧
    (reduceIntKA W r a).subBothKL W (reduceIntKA W r b) = (reduceInt W r a).sub (reduceInt W r b) ∧
    (reduceIntKA W r a).negKL W = (reduceInt W r a).neg ∧
    (reduceIntKA W r a).dblKL W = (reduceInt W r a).dbl ∧
    (reduceIntKA W r a).dblBothKL W = (reduceInt W r a).dbl := by
  have hwf := Ring.new_wf hW hnew
  have hlt : ∀ z, Valid r z → z < r.M := by
    intro z ⟨v, hv, hz⟩
    subst hz
    exact Nat.mul_lt_mul_of_pos_right hv (Nat.two_pow_pos _)
  have hva := hlt _ (Dashu.Props.C13.reduce_spec W r hwf a).1
  have hvb := hlt _ (Dashu.Props.C13.reduce_spec W r hwf b).1
  have hra : (reduceInt W r a).ring = r := (Dashu.Props.C13.reduce_spec W r hwf a).2.2.2.2
  have hrb : (reduceInt W r b).ring = r := (Dashu.Props.C13.reduce_spec W r hwf b).2.2.2.2
  obtain ⟨k1, k2, _, k4, k5⟩ := add_sub_neg_kernels_all W id m hW r hnew _ _
    (Dashu.Props.C13.reduce_spec W r hwf a).1 (Dashu.Props.C13.reduce_spec W r hwf b).1
  obtain ⟨k6, _⟩ := add_sub_neg_kernels_all W id m hW r hnew _ _
    (Dashu.Props.C13.reduce_spec W r hwf a).1 (Dashu.Props.C13.reduce_spec W r hwf a).1
  rw [reduceIntKA_eq hW hW4 hnew, reduceIntKA_eq hW hW4 hnew]
  have hdbl : (reduceInt W r a).dblKL W = (reduceInt W r a).dbl := by
    unfold Elem.dblKL Elem.dbl; rw [hra, k5]
  refine ⟨rfl, ?_, subBothKL_eq hW hnew _ _ hra hva hvb, ?_, hdbl, ?_⟩
  · unfold Elem.addKL Elem.add; rw [hra, k1]
  · unfold Elem.negKL Elem.neg; rw [hra, k4]
  · unfold Elem.dblBothKL Elem.addKL
    simp only [sameRing, decide_true, if_true, hra, k6, hdbl]
    simp [Elem.dbl, hra]

/-- the buffer-level operations themselves (any two `n`-word buffers below an `n`-word modulus, not only ring
    residues): results as `Except`, i.e. "no `debug_assert` fails" is part of the statement -/
theorem add_in_place_exact (W : Nat) (nd lhs rhs : List Nat) (hnd : IsWords W nd) (hl : IsWords W lhs) (hr : IsWords W rhs)
    (hll : lhs.length = nd.length) (hrl : rhs.length = nd.length) (ha : val W lhs < val W nd) (hb : val W rhs < val W nd) :
    (∃ out, addInPlaceL W nd lhs rhs = .ok out ∧ out.length = nd.length ∧
      val W out = if val W lhs + val W rhs ≥ val W nd then val W lhs + val W rhs - val W nd else val W lhs + val W rhs) ∧
    (∃ out, subInPlaceL W nd lhs rhs = .ok out ∧ out.length = nd.length ∧
      val W out = if val W lhs ≥ val W rhs then val W lhs - val W rhs else val W nd - (val W rhs - val W lhs)) ∧
    (∃ out, negateInPlaceL W nd lhs = .ok out ∧ out.length = nd.length ∧
      val W out = if val W lhs = 0 then 0 else val W nd - val W lhs) := by
  have hM := val_lt W nd hnd
  refine ⟨?_, ?_, ?_⟩
  · unfold addInPlaceL
    have ⟨s1, s2, s3, s4⟩ := addSameLen_spec W lhs rhs 0 hl hr (by omega) (by omega)
    generalize addSameLen W lhs rhs 0 = p at s1 s2 s3 s4
    obtain ⟨l1, c⟩ := p
    simp only at s1 s2 s3 s4 ⊢
    rw [hll, Nat.add_zero] at s1
    obtain ⟨out, ho, h1, _, hv⟩ := condSubL_spec (overflow := decide (c ≠ 0)) hnd s3 (by omega) s4 rfl hM (by omega)
    exact ⟨out, ho, h1, by rw [hv, s1]⟩
  · unfold subInPlaceL
    have ⟨s1, s2, s3, s4⟩ := subSameLen_spec W lhs rhs 0 hl hr (by omega) (by omega)
    generalize subSameLen W lhs rhs 0 = p at s1 s2 s3 s4
    obtain ⟨l1, c⟩ := p
    simp only at s1 s2 s3 s4 ⊢
    rw [hll, Nat.add_zero] at s1
    obtain ⟨out, ho, h1, _, hv⟩ := condAddL_spec (u := val W lhs) (t := val W rhs) hnd s3 (by omega) s4 (by omega) s1
    exact ⟨out, ho, h1, hv⟩
  · obtain ⟨out, ho, h1, _, hv⟩ := negateInPlaceL_spec hnd hl (by omega) (by omega)
    exact ⟨out, ho, by omega, hv⟩

/-- **Tie A for `integer/src/modular/add.rs`** (round 6): the buffer mirrors take their decisions by the tests REGENERATED from the
    source text (`Gen/ModularAdd.lean`, extract target `gen_modular_add`, which also checks the called word loops, their
    argument order and the debug assertions as a fixed shape): `add_in_place` / `dbl_in_place` subtract the modulus iff
    `overflow || cmp_same_len(.., modulus).is_ge()`, `sub_in_place` / `sub_in_place_swap` add it back iff `overflow`,
    `negate_in_place` subtracts from the modulus iff `!raw.0.iter().all(|w| *w == 0)`.  A change of any of these source lines
    changes the regenerated text and this theorem no longer checks. -/
theorem add_logic_gen (W : Nat) (nd l1 : List Nat) (overflow : Bool) (borrow : Nat) :
    condSubL W nd l1 overflow =
      (if Dashu.Gen.ModularAdd.add_in_place_subtracts overflow (Div.cmpSameLen l1 nd) then subModulusL W nd l1 overflow else .ok l1) ∧
    condSubL W nd l1 overflow =
      (if Dashu.Gen.ModularAdd.dbl_in_place_subtracts overflow (Div.cmpSameLen l1 nd) then subModulusL W nd l1 overflow else .ok l1) ∧
    condAddL W nd l1 borrow =
      (if Dashu.Gen.ModularAdd.sub_in_place_adds_back (decide (borrow ≠ 0)) then addModulusL W nd l1 else .ok l1) ∧
    condAddL W nd l1 borrow =
      (if Dashu.Gen.ModularAdd.sub_in_place_swap_adds_back (decide (borrow ≠ 0)) then addModulusL W nd l1 else .ok l1) ∧
    negateInPlaceL W nd l1 =
      (if Dashu.Gen.ModularAdd.negate_in_place_subtracts (l1.all (fun w => w == 0)) then subFromModulusL W nd l1 else .ok l1) := by
  refine ⟨?_, ?_, ?_, ?_, ?_⟩
  · unfold condSubL Dashu.Gen.ModularAdd.add_in_place_subtracts
    cases overflow <;> cases Div.cmpSameLen l1 nd <;> simp [Ordering.isGE]
  · unfold condSubL Dashu.Gen.ModularAdd.dbl_in_place_subtracts
    cases overflow <;> cases Div.cmpSameLen l1 nd <;> simp [Ordering.isGE]
  · unfold condAddL Dashu.Gen.ModularAdd.sub_in_place_adds_back
    by_cases h : borrow = 0 <;> simp [h]
  · unfold condAddL Dashu.Gen.ModularAdd.sub_in_place_swap_adds_back
    by_cases h : borrow = 0 <;> simp [h]
  · unfold negateInPlaceL Dashu.Gen.ModularAdd.negate_in_place_subtracts
    cases l1.all (fun w => w == 0) <;> simp

/-- non-vacuity: a 3-word ring with shift 3; a sum that wraps past the modulus with a carry out of the top word
    (`overflow = true`), a sum below it, a difference with borrow, the swapped form, negation of a residue whose low
    word is zero, doubling — the buffer computations succeed and give the residues -/
example : ∃ r, Ring.new 64 0 (2 ^ 188 + 12345) = .ok r ∧ r.kind = .large ∧ r.k = 3 ∧
    addInPlaceL 64 (r.ndWords 64) (r.rawWords 64 ((2 ^ 188 + 12344) * 2 ^ 3)) (r.rawWords 64 ((2 ^ 188 + 12000) * 2 ^ 3))
      = .ok (natWords 64 ((2 ^ 188 + 11999) * 2 ^ 3)) ∧
    addRawKL 64 r (5 * 2 ^ 3) (9 * 2 ^ 3) = 14 * 2 ^ 3 ∧
    subRawKL 64 r (5 * 2 ^ 3) (9 * 2 ^ 3) = (2 ^ 188 + 12341) * 2 ^ 3 ∧
    subSwapRawKL 64 r (2 ^ 100 * 2 ^ 3) (2 ^ 64 * 2 ^ 3) = (2 ^ 100 - 2 ^ 64) * 2 ^ 3 ∧
    negRawKL 64 r (2 ^ 125 * 2 ^ 3) = (2 ^ 188 + 12345 - 2 ^ 125) * 2 ^ 3 ∧
    dblRawKL 64 r ((2 ^ 188) * 2 ^ 3) = (2 ^ 188 - 12345) * 2 ^ 3 :=
  ⟨_, rfl, rfl, by decide, by decide +kernel, by decide +kernel, by decide +kernel, by decide +kernel, by decide +kernel,
    by decide +kernel⟩

-- ================================================================== num-modular's `invm` at the machine level

/-- **`udouble::widening_mul`** (num-modular `double.rs`; four half-width products with carries, every
    `+`/`*` checked): never overflows and is the exact double-width product — for every half width `H`
    (`u128`: `H = 64`). -/
theorem widening_mul_exact (H a b : Nat) (ha : a < 2 ^ (2 * H)) (hb : b < 2 ^ (2 * H)) :
    NMPrim.wideningMul H a b = .ok ⟨a * b / 2 ^ (2 * H), a * b % 2 ^ (2 * H)⟩ :=
  NMPrim.wideningMul_spec H a b ha hb

/-- **`udouble::div_rem_2by1`** (normalising `shl_u32`, two quotient digits each with its
    `while q >= B || q * d0 > B * rhat + n` correction loop, `wrapping_mul/add/sub` remainders, `>> s`):
    for `0 < d`, `hi < d` no checked operation overflows, the loop never underflows `q`, and the
    result is the exact quotient and remainder of `hi·2^(2H) + lo` by `d`. -/
theorem udouble_div_rem_2by1_exact (H d hi lo : Nat) (hH : 1 ≤ H) (hd : 0 < d) (hdU : d < 2 ^ (2 * H))
    (hhi : hi < d) (hlo : lo < 2 ^ (2 * H)) :
    NMPrim.divRem2by1 H ⟨hi, lo⟩ d = .ok ((hi * 2 ^ (2 * H) + lo) / d, (hi * 2 ^ (2 * H) + lo) % d) :=
  NMPrim.divRem2by1_spec (x := ⟨hi, lo⟩) hH hd hdU hhi hlo

/-- **`mulm` of every unsigned primitive type** (`u128`: `checked_mul` / `widening_mul` + `udouble % m`;
    narrower types: through the next wider type with a truncating cast back) is `a·b mod m`. -/
theorem prim_mulm_exact (T a b m : Nat) (ha : a < 2 ^ T) (hb : b < 2 ^ T) (hm : 0 < m) (hmT : m < 2 ^ T) :
    NMPrim.mulmOf T a b m = .ok (a * b % m) ∧
    (∀ H, 1 ≤ H → T = 2 * H → NMPrim.mulmMax H a b m = .ok (a * b % m)) ∧
    NMPrim.mulmWide T a b m = .ok (a * b % m) :=
  ⟨NMPrim.mulmOf_spec ha hb hm hmT,
   fun H hH hT => NMPrim.mulmMax_spec hH (hT ▸ ha) (hT ▸ hb) hm (hT ▸ hmT),
   NMPrim.mulmWide_spec ha hb hm hmT⟩

/-- **`invm` on the primitive type** (`x % m`, the Euclid loop with `quo.mulm(t, m)`, `last_t.subm(.., m)`,
    `negm`): no overflow, no zero divisor, and the result is the `Nat`-level `invm` that
    `Props.C13.inv_spec` is about — for every type width `T` and all `x, m < 2^T`, `m ≥ 1`. -/
theorem invm_prim_exact (T x m : Nat) (hm : 0 < m) (hmT : m < 2 ^ T) (hx : x < 2 ^ T) :
    NMPrim.invmP (NMPrim.mulmOf T) x m = .ok (invm x m) :=
  NMPrim.invmP_spec hm hmT hx (fun _ _ ha hb => NMPrim.mulmOf_spec ha hb hm hmT)

/-- **`inv` and `/` with EVERY kernel mirrored** (what the driver executes since round 5: reduce through
    `reduceIntKL`, `inv` through `invm` on `Word`/`DoubleWord` resp. `inv_large`, the product through the
    reciprocal dividers resp. `mul_normalized` on buffers) are the `inv` and `/` of `Props.C13.inv_spec` /
    `div_spec`. -/
theorem inv_div_kernels_all (W id m : Nat) (hW : 0 < W) (r : Ring) (hnew : Ring.new W id m = .ok r)
    (hW4 : r.kind = .large → 4 ≤ W) (a b : Int) :
    (reduceIntKL W r a).invKP W = .ok ((reduceInt W r a).inv) ∧
    (reduceIntKL W r a).divKA W (reduceIntKL W r b) = (reduceInt W r a).div W (reduceInt W r b) := by
  have hwf := Ring.new_wf hW hnew
  have hm := hwf.mpos
  have hkW : r.kind = .large → r.k < W := Ring.new_large_k hW hnew
  have hinvK : ∀ c : Int, (reduceInt W r c).invKP W = .ok ((reduceInt W r c).inv) := by
    intro c
    have hc := reduceInt_raw hwf c
    have hrc := (Dashu.Props.C13.reduce_spec W r hwf c).2.2.2.2
    unfold Elem.invKP Elem.inv
    rw [hrc, hc, invRawKP_eq hwf (res_lt hm c), invRawK_eq hwf (res_lt hm c)]
  rw [reduceIntKL_eq hW hW4 hnew, reduceIntKL_eq hW hW4 hnew]
  refine ⟨hinvK a, ?_⟩
  unfold Elem.divKA Elem.div
  rw [hinvK b]
  cases hi : (reduceInt W r b).inv with
  | none => rfl
  | some i =>
    simp only []
    obtain ⟨h1, ⟨t, ht, hraw⟩, _⟩ := (Dashu.Props.C13.inv_spec W r hwf b).2 i hi
    have ha := reduceInt_raw hwf a
    have hra := (Dashu.Props.C13.reduce_spec W r hwf a).2.2.2.2
    unfold Elem.mulKL Elem.mul
    rw [hra, ha, hraw, mulRawKL_eq hwf hW4 hkW, mulRawK_eq hwf (res_lt hm a) ht]

/-- non-vacuity: the real `u128` path (`H = 64`) with a product that overflows `u128` (`widening_mul` +
    `div_rem_2by1` with a non-zero normalising shift), an inverse modulo the Mersenne prime `2^127 − 1`
    and modulo a 64-bit prime through the `u64 => u128` path, and a non-invertible element -/
example : NMPrim.mulmMax 64 (2 ^ 127 + 3) (2 ^ 126 + 99) (2 ^ 100 + 12345)
      = .ok ((2 ^ 127 + 3) * (2 ^ 126 + 99) % (2 ^ 100 + 12345)) ∧
    ¬ ((2 ^ 127 + 3) * (2 ^ 126 + 99) < 2 ^ 128) ∧
    NMPrim.invmP (NMPrim.mulmOf 128) 12345678901234567 (2 ^ 127 - 1) = .ok (invm 12345678901234567 (2 ^ 127 - 1)) ∧
    (invm 12345678901234567 (2 ^ 127 - 1)).isSome = true ∧
    NMPrim.invmP (NMPrim.mulmOf 64) 1234567 (2 ^ 61 - 1) = .ok (invm 1234567 (2 ^ 61 - 1)) ∧
    NMPrim.invmP (NMPrim.mulmOf 64) 15 (3 * 2 ^ 40) = .ok none := by
  refine ⟨by decide +kernel, by decide +kernel, by decide +kernel, by decide +kernel, by decide +kernel,
    by decide +kernel⟩

/-- **`pow` with every kernel mirrored** (what the driver executes since round 5: multi-word rings run the
    windowed loop of `pow_nontrivial` with every `sqr_in_place` / `mul_normalized` on word buffers — C01's
    mirrored multiplication, C02's mirrored division — below a work budget, the proved-equal value-level
    loop above it; single- and double-word rings as in `Props.C13.pow_kernels`) is the `pow` of
    `Props.C13.hom_pow`; and the buffer-level loop itself equals the value-level one on every valid base. -/
theorem pow_kernels_all (W id m : Nat) (hW : 0 < W) (r : Ring) (hnew : Ring.new W id m = .ok r)
    (hW4 : r.kind = .large → 4 ≤ W) (a : Int) (e : Nat) :
    (reduceIntKL W r a).powKL W e = (reduceInt W r a).pow W e ∧
    (r.kind = .large → ∀ raw, Valid r raw → powLK W r raw e = powL W r raw e) := by
  have hwf := Ring.new_wf hW hnew
  have hkW : r.kind = .large → r.k < W := Ring.new_large_k hW hnew
  refine ⟨?_, fun hk raw hraw => powLK_eq hwf (hW4 hk) hk (hkW hk) hraw e⟩
  have h := Dashu.Props.C13.pow_kernels W id m hW r hnew a e
  rw [(Dashu.Props.C13.reduce_kernels W id m hW r hnew).2 a] at h
  rw [reduceIntKL_eq hW hW4 hnew, ← h]
  unfold Elem.powKL Elem.powK
  have hv := (Dashu.Props.C13.reduce_spec W r hwf a).1
  have hring := (Dashu.Props.C13.reduce_spec W r hwf a).2.2.2.2
  rw [hring, powRawKL_eq hwf hW4 hkW hv]

/-- non-vacuity: a 3-word ring, exponent of 17 bits: the buffer-level loop gives the power -/
example : ∃ r, Ring.new 64 0 (2 ^ 188 + 12345) = .ok r ∧
    powLK 64 r (7 * 2 ^ 3) 74565 = (7 ^ 74565 % (2 ^ 188 + 12345)) * 2 ^ 3 :=
  ⟨_, rfl, by decide +kernel⟩

-- ================================================================== Tie A: buffer-level decision logic regenerated from source

theorem glue_ge (x y : Int) : GluePrelude.ge_ x y = decide (y ≤ x) := by
  unfold GluePrelude.ge_
  rw [Bool.eq_iff_iff]
  simp [compare_lt_iff_lt]

/-- the decision points of the buffer mirrors are the tests REGENERATED from `integer/src/div_const.rs`
    (`ConstLargeDivisor::rem_large`: `words.len() >= modulus.len()`) and `integer/src/modular/mul.rs`
    (`mul_normalized`: buffer length `n.max(na + nb)`, early return `na | nb == 0`, one-word shortcut
    `na == 1 && nb == 1`; `sqr_normalized`: the same with `nb = na`).  A change of any of these source
    expressions changes `Dashu/Gen/ModularBuf.lean` and breaks this theorem. -/
theorem buffer_logic_gen :
    (∀ a b : Nat, decide (a ≥ b) = Gen.ModularBuf.rem_large_divides a b) ∧
    (∀ n na nb : Nat, ((max n (na + nb) : Nat) : Int) = Gen.ModularBuf.mul_normalized_buffer_len n na nb) ∧
    (∀ na nb : Nat, decide (na ||| nb = 0) = Gen.ModularBuf.mul_normalized_is_zero na nb) ∧
    (∀ na nb : Nat, decide (na = 1 ∧ nb = 1) = Gen.ModularBuf.mul_normalized_one_word na nb) ∧
    (∀ n na : Nat, Gen.ModularBuf.sqr_normalized_buffer_len n na = Gen.ModularBuf.mul_normalized_buffer_len n na na) ∧
    (∀ na : Nat, Gen.ModularBuf.sqr_normalized_is_zero na = Gen.ModularBuf.mul_normalized_is_zero na na) ∧
    (∀ na : Nat, Gen.ModularBuf.sqr_normalized_one_word na = Gen.ModularBuf.mul_normalized_one_word na na) := by
  refine ⟨?_, ?_, ?_, ?_, ?_, ?_, ?_⟩
  · intro a b
    unfold Gen.ModularBuf.rem_large_divides
    rw [glue_ge, Bool.eq_iff_iff]
    simp only [decide_eq_true_eq]
    omega
  · intro n na nb
    unfold Gen.ModularBuf.mul_normalized_buffer_len GluePrelude.max GluePrelude.add_
    by_cases h : n ≤ na + nb
    · have h' : (n : Int) ≤ (na : Int) + (nb : Int) := by exact_mod_cast h
      rw [if_pos h', Nat.max_eq_right h]; push_cast; rfl
    · have h' : ¬ (n : Int) ≤ (na : Int) + (nb : Int) := by intro hc; apply h; exact_mod_cast hc
      rw [if_neg h', Nat.max_eq_left (by omega)]
  · intro na nb
    unfold Gen.ModularBuf.mul_normalized_is_zero GluePrelude.eq_ GluePrelude.bitor
    rw [Bool.eq_iff_iff]
    simp only [decide_eq_true_eq, Int.toNat_natCast, Int.ofNat_eq_natCast]
    constructor
    · intro h; rw [h]; rfl
    · intro h; exact_mod_cast h
  · intro na nb
    unfold Gen.ModularBuf.mul_normalized_one_word GluePrelude.eq_
    rw [Bool.eq_iff_iff]
    simp only [Bool.and_eq_true, decide_eq_true_eq]
    constructor
    · rintro ⟨h1, h2⟩; exact ⟨by exact_mod_cast h1, by exact_mod_cast h2⟩
    · rintro ⟨h1, h2⟩; exact ⟨by exact_mod_cast h1, by exact_mod_cast h2⟩
  · intro n na
    unfold Gen.ModularBuf.sqr_normalized_buffer_len Gen.ModularBuf.mul_normalized_buffer_len GluePrelude.mul_ GluePrelude.add_
    rw [mul_two]
  · intro na
    unfold Gen.ModularBuf.sqr_normalized_is_zero Gen.ModularBuf.mul_normalized_is_zero GluePrelude.eq_ GluePrelude.bitor
    rw [Bool.eq_iff_iff]
    simp only [decide_eq_true_eq, Int.toNat_natCast, Int.ofNat_eq_natCast, Nat.or_self]
  · intro na
    unfold Gen.ModularBuf.sqr_normalized_one_word Gen.ModularBuf.mul_normalized_one_word
    simp

/-- `ConstLargeDivisor::rem_large` on buffers CALLS the regenerated test -/
theorem rem_large_gen (W : Nat) (nd : List Nat) (shift dtop : Nat) (words : List Nat) :
    remLargeWordsL W nd shift dtop words =
      (let p := Div.shlInPlace W words shift
       let w2 := p.1 ++ [p.2]
       if Gen.ModularBuf.rem_large_divides w2.length nd.length = true then
         (Div.divRemInPlace W w2 nd dtop).map (fun o => o.1.take nd.length)
       else .ok w2) := by
  unfold remLargeWordsL
  simp only [← buffer_logic_gen.1, decide_eq_true_eq]
  split <;> rfl

/-- `mul_normalized` / `sqr_normalized` on buffers CALL the regenerated early-return test, buffer length,
    (round 4) long-division test and (round 6, `Gen/ModularAdd.lean`) the test `cmp_same_len(product, modulus).is_ge()` of the
    conditional subtraction of a short product, which now runs C01's mirrored `sub_same_len_in_place` with its `debug_assert_zero!` -/
theorem mul_normalized_gen (W : Nat) (r : Ring) (sq : Bool) (a b : Nat) :
    mulNormalizedWordsL W r sq a b =
      (let nd := r.ndWords W
       let n := nd.length
       let na := wordLen W a
       let nb := wordLen W b
       if Gen.ModularBuf.mul_normalized_is_zero na nb = true then .ok 0
       else
         (productLow W sq a b).bind fun low =>
         let product := low ++ List.replicate ((Gen.ModularBuf.mul_normalized_buffer_len n na nb).toNat - low.length) 0
         let p := Div.shrInPlace W product r.k
         if p.2 ≠ 0 then .error (Div.assertErr "mul_normalized: debug_assert_zero!(shr_in_place(product, shift))")
         else if Gen.Modular.mul_normalized_needs_division n na nb = true then
           (Div.divRemInPlace W p.1 nd (Div.highestDword W nd)).map (fun o => val W (o.1.take n))
         else if (Gen.ModularAdd.mul_normalized_subtracts (Div.cmpSameLen p.1 nd) = true
                  ∧ Gen.ModularAdd.sqr_normalized_subtracts (Div.cmpSameLen p.1 nd) = true) then
           (let q := subSameLen W p.1 nd 0
            if q.2 ≠ 0 then .error (Div.assertErr "mul_normalized: debug_assert_zero!(sub_same_len_in_place(product, modulus))")
            else .ok (val W q.1))
         else .ok (val W p.1)) := by
  unfold mulNormalizedWordsL
  simp only [← buffer_logic_gen.2.2.1, ← buffer_logic_gen.2.1, decide_eq_true_eq, Int.toNat_natCast]
  have hdiv : ∀ n na nb : Nat, (Gen.Modular.mul_normalized_needs_division n na nb = true) ↔ na + nb > n := by
    intro n na nb
    unfold Gen.Modular.mul_normalized_needs_division
    simp only [Dashu.Props.C13.glue_gt, GluePrelude.add_, decide_eq_true_eq]
    constructor <;> intro h <;> omega
  simp only [hdiv]
  have hsub : ∀ c : Ordering, (Gen.ModularAdd.mul_normalized_subtracts c = true
      ∧ Gen.ModularAdd.sqr_normalized_subtracts c = true) ↔ c ≠ .lt := by
    intro c; cases c <;> decide
  simp only [hsub]
  split
  · rfl
  · cases productLow W sq a b with
    | error k => rfl
    | ok low =>
      simp only [bind, Except.bind]
      split
      · rfl
      · split <;> rfl

/-- the product buffer's one-word shortcuts are the regenerated tests (`na == 1 && nb == 1`, `na == 1`);
    everything else goes to C01's mirrored `mul::multiply` / `sqr::sqr` -/
theorem product_low_gen (W : Nat) (sq : Bool) (a b : Nat) :
    productLow W sq a b =
      (let aw := natWords W a
       let bw := natWords W b
       if sq = true then
         if Gen.ModularBuf.sqr_normalized_one_word aw.length = true then .ok (wordsPad W 2 (a * a))
         else .ok (sqrBuffer W aw)
       else if Gen.ModularBuf.mul_normalized_one_word aw.length bw.length = true then .ok (wordsPad W 2 (a * b))
       else
         let res := addSignedMul W (aw.length + bw.length) (List.replicate (aw.length + bw.length) 0) false aw bw
         if res.2 ≠ 0 then .error (Div.assertErr "mul::multiply: debug_assert_zero!(add_signed_mul(c, Positive, a, b))")
         else .ok res.1) := by
  unfold productLow
  have h1 := buffer_logic_gen.2.2.2.1
  have h2 := buffer_logic_gen.2.2.2.2.2.2
  simp only [h2, ← h1, decide_eq_true_eq, and_self]

-- ================================================================== inv_large's buffer plumbing (round 6)

/-- **`inv_large` with its buffer plumbing** (round 6; what the driver executes for `inv` and `/` of multi-word rings):
    `debug_assert_zero!(shr_in_place(modulus))`, `debug_assert_zero!(shr_in_place(raw))`, the cofactor zero-extended in the modulus
    buffer, `shl_in_place` (carry dropped by the code — proved zero), `debug_assert!(inv.is_valid(ring))` as `ReducedLarge::is_valid`
    on the buffer, `negate_in_place` on the buffer: on `Valid` residues no assertion fails and the result is that of round 4's
    mirrored `inv_large`; hence `inv` and `/` as executed are those of `Props.C13.inv_spec` / `div_spec`. -/
theorem inv_large_buffers_all (W id m : Nat) (hW : 0 < W) (r : Ring) (hnew : Ring.new W id m = .ok r)
    (hW4 : r.kind = .large → 4 ≤ W) (a b : Int) :
    (∀ x, Valid r x → invRawKB W r x = invRawKP W r x) ∧
    (reduceIntKA W r a).invKB W = .ok ((reduceInt W r a).inv) ∧
    (reduceIntKA W r a).divKB W (reduceIntKA W r b) = (reduceInt W r a).div W (reduceInt W r b) := by
  have hwf := Ring.new_wf hW hnew
  have hm := hwf.mpos
  have hkW : r.kind = .large → r.k < W := Ring.new_large_k hW hnew
  have hraw : ∀ x, Valid r x → invRawKB W r x = invRawKP W r x := by
    intro x ⟨u, hu, hx⟩
    subst hx
    exact invRawKB_eq hwf hkW hu
  have hinv : ∀ c : Int, (reduceInt W r c).invKB W = (reduceInt W r c).invKP W := by
    intro c
    have hc := reduceInt_raw hwf c
    have hrc := (Dashu.Props.C13.reduce_spec W r hwf c).2.2.2.2
    unfold Elem.invKB Elem.invKP
    rw [hrc, hc, invRawKB_eq hwf hkW (res_lt hm c)]
    rfl
  obtain ⟨k1, _⟩ := inv_div_kernels_all W id m hW r hnew hW4 a b
  obtain ⟨_, k2⟩ := inv_div_kernels_all W id m hW r hnew hW4 a b
  rw [reduceIntKL_eq hW hW4 hnew] at k1
  rw [reduceIntKL_eq hW hW4 hnew, reduceIntKL_eq hW hW4 hnew] at k2
  rw [reduceIntKA_eq hW hW4 hnew, reduceIntKA_eq hW hW4 hnew]
  refine ⟨hraw, by rw [hinv a, k1], ?_⟩
  rw [← k2]
  unfold Elem.divKB Elem.divKA
  rw [hinv b]
  rfl

/-- non-vacuity: a 3-word ring with shift 3; residues of one, two and three words (`gcd_ext_word`, `gcd_ext_dword`, Lehmer's
    `gcd_ext_in_place`), cofactors of either sign: every `debug_assert` of the buffer plumbing holds and the result is the inverse;
    a non-invertible residue of the ring modulo `15·(2^185 + 1)` gives `None` -/
example : ∃ r, Ring.new 64 0 (2 ^ 188 + 12345) = .ok r ∧ r.k = 3 ∧
    (invLargeB 64 r (7 * 2 ^ 3)).map (fun o => o.map (fun t => (t / 2 ^ 3 * 7) % (2 ^ 188 + 12345))) = .ok (some 1) ∧
    (invLargeB 64 r (11 * 2 ^ 3)).map (fun o => o.map (fun t => (t / 2 ^ 3 * 11) % (2 ^ 188 + 12345))) = .ok (some 1) ∧
    (invLargeB 64 r ((2 ^ 100 + 7) * 2 ^ 3)).map (fun o => o.map (fun t => (t / 2 ^ 3 * (2 ^ 100 + 7)) % (2 ^ 188 + 12345))) = .ok (some 1) ∧
    (invLargeB 64 r ((2 ^ 150 + 9) * 2 ^ 3)).map (fun o => o.map (fun t => (t / 2 ^ 3 * (2 ^ 150 + 9)) % (2 ^ 188 + 12345))) = .ok (some 1) ∧
    (invLargeB 64 r ((2 ^ 187 + 1) * 2 ^ 3)).map (fun o => o.map (fun t => (t / 2 ^ 3 * (2 ^ 187 + 1)) % (2 ^ 188 + 12345))) = .ok (some 1) :=
  ⟨_, rfl, by decide, by decide +kernel, by decide +kernel, by decide +kernel, by decide +kernel, by decide +kernel⟩

example : ∃ r, Ring.new 64 0 (15 * (2 ^ 185 + 1)) = .ok r ∧ r.k = 3 ∧ invLargeB 64 r (3 * 2 ^ 3) = .ok none ∧
    invLargeB 64 r ((5 * (2 ^ 140 + 1)) * 2 ^ 3) = .ok none ∧ invLargeB 64 r 0 = .ok none :=
  ⟨_, rfl, by decide, by decide +kernel, by decide +kernel, by decide +kernel⟩

end Dashu.Props.C13Link
