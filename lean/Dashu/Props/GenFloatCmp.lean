import Dashu.Gen.FloatCmp
import Dashu.Model.Cross.Ord
import Dashu.Model.Int.Cmp
import Dashu.Proofs.Gen.Basic
/-
  Tie A theorems about `float/src/cmp.rs` AS REGENERATED on this run (`Dashu/Gen/FloatCmp.lean`,
  `Dashu/Gen/FloatRepr.lean`): the regenerated decision bodies, composed with the estimate oracle and
  the digit-shift kernel of the hand-written models, ARE the hand-written models that the drivers of
  C05 and C14 execute and that `Props/C05.lean` / `Props/C14.lean` prove correct — for all inputs.
  A changed comparison, swapped arm or flipped sign in the Rust text changes the generated
  definitions and these theorems stop checking.
-/
set_option linter.unusedSimpArgs false
namespace Dashu.Props.GenFloatCmp
open Dashu Dashu.Gen Dashu.GluePrelude Dashu.Proofs.Gen

/-- `lhs_prec.min(isize::MAX as usize) as isize` of the regenerated text (/repo ee43486) = the clamp of the C05 hand model -/
theorem min_clamp_c05 (p : Nat) : GluePrelude.min (p : Int) isize_MAX = ((min p Model.cmpIsizeMax : Nat) : Int) := by
  unfold GluePrelude.min isize_MAX Model.cmpIsizeMax
  rw [Nat.min_def]
  split <;> split <;> omega

/-- … and of the C14 hand model -/
theorem min_clamp_cross (p : Nat) : GluePrelude.min (p : Int) isize_MAX = ((min p Model.Cross.isizeMax : Nat) : Int) := by
  unfold GluePrelude.min isize_MAX Model.Cross.isizeMax
  rw [Nat.min_def]
  split <;> split <;> omega

/-- `isize::saturating_add` on two `isize` values (the exact sum clamped to `[isize::MIN, isize::MAX]`) -/
def satAddIsize (a b : Int) : Int := if a + b > isize_MAX then isize_MAX else if a + b < -isize_MAX - 1 then -isize_MAX - 1 else a + b

/-- **the translator's reading of `saturating_add` in cases 4 and 5 is sound**: every test there has the shape
    `x > y.saturating_add(n)` with `x`, `y` exponents (`isize`) and `n ≥ 0` (a precision clamped to `isize::MAX`, or
    `digits_ub as isize`); the regenerated text (`vlib/extract.py` METHODS2 `("Int","saturating_add") -> add_`) tests
    `x > y + n` over `Int` — the same decision for every `x ≤ isize::MAX`, `y ≥ isize::MIN`. -/
theorem saturating_add_reading_sound (x y n : Int) (hx : x ≤ isize_MAX) (hy : -isize_MAX - 1 ≤ y) (hn : 0 ≤ n) :
    (x > satAddIsize y n) ↔ (x > y + n) := by
  unfold satAddIsize
  split
  · constructor <;> intro h <;> omega
  · split
    · omega
    · exact Iff.rfl

-- non-vacuity: the repaired witness `exponent = isize::MAX`, precision 1: the sum saturates, the test is false on both readings
example : satAddIsize isize_MAX 1 = isize_MAX ∧ ¬ (isize_MAX > satAddIsize isize_MAX 1) ∧ ¬ (isize_MAX > isize_MAX + 1) := by
  refine ⟨by decide, by decide, by decide⟩

/-- `Option<(usize, usize)>` of the source as seen by the generated text -/
def precI (p : Option (Nat × Nat)) : Option (Int × Int) := p.map fun q => ((q.1 : Int), (q.2 : Int))

/-! ### against the C14 model (`Dashu.Model.Cross`) -/
section cross
open Dashu.Model.Cross

/-- the kernel record of the C14 hand model: estimates from the oracle, `shl_digits` at its value
    (the fields the comparison code never calls are filled with constants) -/
def crossK (o : Oracle) (B : Nat) : FloatK EB where
  e_lt := EB.lt
  e_gt := fun a b => EB.lt b a
  log2_bounds_int := fun i => o.nat i.natAbs
  log2_bounds_repr := fun r => o.flt B r.significand r.exponent
  digits_ub := fun r => (o.digitsUb B r.significand : Int)
  digits := fun _ => 0
  digit_len := fun _ => 0
  shl_digits := fun x n => shlDigits B x n.toNat
  shr_digits := fun x _ => x
  split_digits := fun x _ => (x, 0)
  repr_new := fun s e => ⟨s, e⟩
  round_fract := fun _ _ _ => .NoOp
  round_fract_up := fun _ _ _ => .NoOp
  round_fract_down := fun _ _ _ => .NoOp
  round_fract_half_away := fun _ _ _ => .NoOp

/-- **`repr_cmp_same_base::<B, ABS>` as regenerated = `Model.Cross.reprCmpSameBase`** (both `ABS`) -/
theorem repr_cmp_same_base_is_cross_model (o : Oracle) (abs : Bool) (B : Nat) (ls le rs re : Int)
    (prec : Option (Nat × Nat)) :
    repr_cmp_same_base (crossK o B) abs ⟨ls, le⟩ ⟨rs, re⟩ (precI prec)
      = reprCmpSameBase o abs B ls le rs re prec := by
  unfold repr_cmp_same_base reprCmpSameBase
  simp only [Repr_is_infinite, Repr_is_zero, fIsInf, fIsZero, is_zero_int, eq_int, ne_int, ge_int, gt_int, lt_int, le_int, cmp_int,
    sign_int, add_int, sub_int, crossK]
  gac
  gcases h1 : ls = 0 <;> gcases h2 : le = 0 <;> gcases h3 : rs = 0 <;> gcases h4 : re = 0
  all_goals (cases abs <;> try gprune [signMatch, Sign.ofInt])
  all_goals (gcases [signMatch, Sign.ofInt] h5 : ls < 0 <;> gcases [signMatch, Sign.ofInt] h6 : rs < 0)
  all_goals (gcases h7 : 0 ≤ re <;> gcases h8 : 0 ≤ le)
  all_goals (rcases prec with _ | ⟨lp, rp⟩ <;> try gprune [precI, Option.map, sign_mul_ord, Sign.app])
  all_goals (try simp only [min_clamp_cross])
  all_goals (gcases h9 : lp = 0 <;> gcases h10 : rp = 0 <;> gcases h11 : re + ((min rp isizeMax : Nat) : Int) < le <;>
    gcases h12 : le + ((min lp isizeMax : Nat) : Int) < re)
  all_goals (gcases h13 : re + (o.digitsUb B rs : Int) < le <;> gcases h14 : le + (o.digitsUb B ls : Int) < re)
  all_goals (gtri [absCmpInt, abs_cmp] le re)

/-- **`repr_cmp_ubig::<B, ABS>` as regenerated = `Model.Cross.floatReprCmpUbig`** -/
theorem repr_cmp_ubig_is_cross_model (o : Oracle) (abs : Bool) (B : Nat) (s e : Int) (r : Nat) :
    repr_cmp_ubig (crossK o B) abs ⟨s, e⟩ (r : Int) = floatReprCmpUbig o abs B s e r := by
  unfold repr_cmp_ubig floatReprCmpUbig
  simp only [Repr_is_infinite, fIsInf, is_zero_int, eq_int, ne_int, ge_int, gt_int, lt_int, le_int, lt_int, cmp_int,
    sign_int, add_int, sub_int, neg_int, crossK, Int.natAbs_natCast]
  gcases h1 : s = 0 <;> gcases h2 : e = 0
  all_goals (cases abs <;> try gprune [Sign.ofInt, eq_def, absCmpInt, abs_cmp])
  all_goals (gcases [eq_def] h3 : s < 0)

/-- **`repr_cmp_ibig::<B, ABS>` as regenerated = `Model.Cross.floatReprCmpIbig`** -/
theorem repr_cmp_ibig_is_cross_model (o : Oracle) (abs : Bool) (B : Nat) (s e : Int) (r : Int) :
    repr_cmp_ibig (crossK o B) abs ⟨s, e⟩ r = floatReprCmpIbig o abs B s e r := by
  unfold repr_cmp_ibig floatReprCmpIbig
  simp only [Repr_is_infinite, fIsInf, is_zero_int, eq_int, ne_int, ge_int, gt_int, lt_int, le_int, lt_int, cmp_int,
    sign_int, add_int, sub_int, neg_int, crossK]
  gcases h1 : s = 0 <;> gcases h2 : e = 0
  all_goals (cases abs <;> try gprune [Sign.ofInt, eq_def, absCmpInt, abs_cmp, signMatch, sign_mul_ord, Sign.app])
  all_goals (gcases [eq_def, signMatch, sign_mul_ord, Sign.app] h3 : s < 0 <;>
    gcases [eq_def, signMatch, sign_mul_ord, Sign.app] h4 : r < 0)

/-- the operator impls pass the right `ABS` flag and the two context precisions:
    `Ord for FBig` / `PartialOrd` = the entry of `Model.Cross.ordCmp` … -/
theorem fbig_cmp_is_cross_dispatch (o : Oracle) (B : Nat) (s1 e1 : Int) (p1 : Nat) (s2 e2 : Int) (p2 : Nat) :
    some (FBig_cmp (crossK o B) ⟨⟨s1, e1⟩, ⟨p1⟩⟩ ⟨⟨s2, e2⟩, ⟨p2⟩⟩)
      = ordCmp o (.fbig B s1 e1 p1) (.fbig B s2 e2 p2) := by
  have h := repr_cmp_same_base_is_cross_model o false B s1 e1 s2 e2 (some (p1, p2))
  simp only [FBig_cmp, ordCmp, if_true, precI, Option.map] at h ⊢
  rw [h]

/-- … and `AbsOrd for FBig` = that of `Model.Cross.absCmpK` -/
theorem fbig_abs_cmp_is_cross_dispatch (o : Oracle) (B : Nat) (s1 e1 : Int) (p1 : Nat) (s2 e2 : Int) (p2 : Nat) :
    some (FBig_abs_cmp (crossK o B) ⟨⟨s1, e1⟩, ⟨p1⟩⟩ ⟨⟨s2, e2⟩, ⟨p2⟩⟩)
      = absCmpK o (.flt B s1 e1 p1) (.flt B s2 e2 p2) := by
  have h := repr_cmp_same_base_is_cross_model o true B s1 e1 s2 e2 (some (p1, p2))
  simp only [FBig_abs_cmp, absCmpK, if_true, precI, Option.map] at h ⊢
  rw [h]

/-- `Ord for Repr<B>`: `ABS = false`, no precision shortcut -/
theorem repr_cmp_is_cross_model (o : Oracle) (B : Nat) (s1 e1 s2 e2 : Int) :
    Repr_cmp (crossK o B) ⟨s1, e1⟩ ⟨s2, e2⟩ = reprCmpSameBase o false B s1 e1 s2 e2 none := by
  have h := repr_cmp_same_base_is_cross_model o false B s1 e1 s2 e2 none
  simpa only [Repr_cmp, precI, Option.map] using h

end cross

/-! ### against the C05 model (`Dashu.Model`, `Model/Int/Cmp.lean`) -/
section c05
open Dashu.Model

/-- kernel record of the C05 hand model -/
def k05 (B : Nat) (digitsUb : Int → Nat) : FloatK Unit where
  e_lt := fun _ _ => false
  e_gt := fun _ _ => false
  log2_bounds_int := fun _ => ((), ())
  log2_bounds_repr := fun _ => ((), ())
  digits_ub := fun r => (digitsUb r.significand : Int)
  digits := fun _ => 0
  digit_len := fun _ => 0
  shl_digits := fun x n => x * (B : Int) ^ n.toNat
  shr_digits := fun x _ => x
  split_digits := fun x _ => (x, 0)
  repr_new := fun s e => ⟨s, e⟩
  round_fract := fun _ _ _ => .NoOp
  round_fract_up := fun _ _ _ => .NoOp
  round_fract_down := fun _ _ _ => .NoOp
  round_fract_half_away := fun _ _ _ => .NoOp

/-- **`repr_cmp_same_base::<B, false>` as regenerated = `Model.reprCmpSameBase`** (the C05 driver's function) -/
theorem repr_cmp_same_base_is_c05_model (B : Nat) (digitsUb : Int → Nat) (ls le rs re : Int)
    (prec : Option (Nat × Nat)) :
    repr_cmp_same_base (k05 B digitsUb) false ⟨ls, le⟩ ⟨rs, re⟩ (precI prec)
      = Model.reprCmpSameBase B digitsUb ⟨ls, le⟩ ⟨rs, re⟩ prec := by
  unfold repr_cmp_same_base Model.reprCmpSameBase
  simp only [Repr_is_infinite, Repr_is_zero, Model.FRepr.isInfinite, Model.FRepr.isZero, is_zero_int, eq_int, ne_int,
    ge_int, gt_int, lt_int, le_int, cmp_int, sign_int, add_int, sub_int, k05, cmpCase4, cmpCase56, cmpCase6, mulOrd]
  gac
  gcases h1 : ls = 0 <;> gcases h2 : le = 0 <;> gcases h3 : rs = 0 <;> gcases h4 : re = 0
  all_goals (gcases h5 : ls < 0 <;> gcases h6 : rs < 0)
  all_goals (gcases h7 : 0 ≤ re <;> gcases h8 : 0 ≤ le)
  all_goals (rcases prec with _ | ⟨lp, rp⟩ <;> try gprune [precI, Option.map, sign_mul_ord])
  all_goals (try simp only [min_clamp_c05])
  all_goals (gcases h9 : lp = 0 <;> gcases h10 : rp = 0 <;> gcases h11 : re + ((min rp cmpIsizeMax : Nat) : Int) < le <;>
    gcases h12 : le + ((min lp cmpIsizeMax : Nat) : Int) < re)
  all_goals (gcases h13 : re + (digitsUb rs : Int) < le <;> gcases h14 : le + (digitsUb ls : Int) < re)
  all_goals (gtri le re)

/-- **`PartialEq for FBig` as regenerated = `Model.fbigEq`** (the precision is ignored) -/
theorem fbig_eq_is_c05_model (s1 e1 p1 s2 e2 p2 : Int) :
    FBig_eq ⟨⟨s1, e1⟩, ⟨p1⟩⟩ ⟨⟨s2, e2⟩, ⟨p2⟩⟩ = fbigEq ⟨s1, e1⟩ ⟨s2, e2⟩ := by
  unfold FBig_eq fbigEq
  simp only [Repr_is_infinite, Model.FRepr.isInfinite, is_zero_int, eq_int, ne_int, ge_int, le_int, eq_def, bxor]
  gcases h1 : s1 = 0 <;> gcases h2 : e1 = 0 <;> gcases h3 : s2 = 0 <;> gcases h4 : e2 = 0
  all_goals (try simp only [GluePrelude.FRepr.mk.injEq])
  all_goals (first | done | rfl |
    (rw [Bool.eq_iff_iff]; simp only [Bool.and_eq_true, decide_eq_true_eq, beq_iff_eq, bne_iff_ne, Bool.not_eq_true',
      decide_eq_false_iff_not, Bool.false_eq_true, false_iff, iff_false, Bool.and_eq_false_imp, ne_eq,
      if_true, if_false, Bool.if_false_right, Bool.if_true_left]; omega) |
    (simp_all; done))

end c05
end Dashu.Props.GenFloatCmp
