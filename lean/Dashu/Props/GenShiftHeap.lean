import Dashu.Gen.ShiftHeap
import Dashu.Props.GenShift
/-
  C09, Tie A: the heap arms of `<<` / `>>` (`integer/src/shift_ops.rs`, `mod repr`) as REGENERATED text
  (`Dashu/Gen/ShiftHeap.lean`: every buffer statement, the calls of the regenerated loops `shl_in_place` / `shr_in_place` and
  of `math::shl_dword`, the sub-slice `&mut buffer[shift_words..]`, the capacity branch of `shl_large`, the early return of
  `shr_large`) are EQUAL to the arms of the hand model that the C09 driver executes (`shlDword`, `shlLarge`, `shrLarge`
  of `Model/Int/Bits.lean`), for every operand and every count whose word arithmetic fits `usize`.
-/
namespace Dashu.Props.GenShiftHeap
open Dashu.Model Dashu Dashu.GluePrelude Dashu.Gen.ShiftHeap

theorem mod_lt_32 (W n : Nat) (hW : 1 ≤ W) (h32 : W ≤ 2 ^ 32) : n % W % 4294967296 = n % W := by
  have hm : n % W < W := Nat.mod_lt n (by omega)
  have e : (2 : Nat) ^ 32 = 4294967296 := by decide
  exact Nat.mod_eq_of_lt (by omega)

/-- **`shl_one_spilled`** = the `d = 1` spilled arm of the hand model's `shlDword` -/
theorem gen_shl_one_spilled (W U n : Nat) (hW : 1 ≤ W) (hU : n / W + 1 < 2 ^ U) :
    shl_one_spilled W U n = some (fromBuffer W (List.replicate (n / W) 0 ++ [2 ^ (n % W)])) := by
  have hW0 : W ≠ 0 := by omega
  have hm : n % W < W := Nat.mod_lt n (by omega)
  have hp : (2 : Nat) ^ (n % W) < 2 ^ W := Nat.pow_lt_pow_right (by decide) hm
  simp [shl_one_spilled, MachInt.div, MachInt.rem, MachInt.add, MachInt.shl, hW0, hU, hm, Nat.mod_eq_of_lt hp,
    Buffer_allocate, push_zeros, push]

/-- **`shl_dword_spilled`** = the general spilled arm of `shlDword` -/
theorem gen_shl_dword_spilled (W U d n : Nat) (hW : 1 ≤ W) (h32 : W ≤ 2 ^ 32) (hd : d < 2 ^ (2 * W))
    (hU : n / W + 3 < 2 ^ U) :
    shl_dword_spilled W U d n =
      some (fromBuffer W (List.replicate (n / W) 0 ++
        [(mathShlDword W d (n % W)).1, (mathShlDword W d (n % W)).2.1, (mathShlDword W d (n % W)).2.2])) := by
  have hW0 : W ≠ 0 := by omega
  have hm : n % W ≤ W := Nat.le_of_lt (Nat.mod_lt n (by omega))
  simp [shl_dword_spilled, MachInt.div, MachInt.rem, MachInt.add, MachInt.cast, hW0, hU, mod_lt_32 W n hW h32,
    Props.GenMath.gen_shl_dword W d (n % W) hW hd hm, Buffer_allocate, push_zeros, push]

/-- the two spilled arms together: the regenerated text is the hand model's `shlDword` beyond the inline range -/
theorem gen_shl_dword_spilled_arms (W U d n : Nat) (hW : 1 ≤ W) (h32 : W ≤ 2 ^ 32) (hd : d < 2 ^ (2 * W))
    (hU : n / W + 3 < 2 ^ U) (hsp : ¬ n ≤ 2 * W - bitLenNat d) :
    (if d = 1 then shl_one_spilled W U n else shl_dword_spilled W U d n) = some (shlDword W d n) := by
  unfold shlDword
  rw [if_neg hsp]
  by_cases h1 : d = 1
  · rw [if_pos h1, if_pos h1]; exact gen_shl_one_spilled W U n hW (by omega)
  · rw [if_neg h1, if_neg h1]; exact gen_shl_dword_spilled W U d n hW h32 hd hU

theorem split_replicate (k : Nat) (ws : List Nat) :
    split_from (List.replicate k 0 ++ ws) k = some (List.replicate k 0, ws) := by
  simp [split_from, List.take_left', List.drop_left']

/-- **`shl_large_ref`** = `shlLarge` -/
theorem gen_shl_large_ref (W U n : Nat) (ws : List Nat) (hW : 1 ≤ W) (h32 : W ≤ 2 ^ 32) (hw : IsWords W ws)
    (hU : n / W + ws.length + 1 < 2 ^ U) :
    shl_large_ref W U ws n = some (shlLarge W ws n) := by
  have hW0 : W ≠ 0 := by omega
  have hm : n % W < W := Nat.mod_lt n (by omega)
  have h1 : n / W + ws.length < 2 ^ U := by omega
  have hl := Props.GenShift.gen_shl_in_place W (n % W) ws hm hw
  rw [← Props.C09Shift.shlBits_eq_shlInPlace W (n % W) ws hw] at hl
  simp [shl_large_ref, shlLarge, MachInt.div, MachInt.rem, MachInt.add, MachInt.cast, hW0, h1, hU, mod_lt_32 W n hW h32,
    Buffer_allocate, push_zeros, push_slice, push, split_replicate, hl]

/-- **`shl_large`** = `shlLarge`, whatever the capacity of the buffer (both branches compute the same value) -/
theorem gen_shl_large (W U n cap : Nat) (ws : List Nat) (hW : 1 ≤ W) (h32 : W ≤ 2 ^ 32) (hw : IsWords W ws)
    (hU : n / W + ws.length + 1 < 2 ^ U) :
    shl_large W U ws n cap = some (shlLarge W ws n) := by
  have hW0 : W ≠ 0 := by omega
  have hm : n % W < W := Nat.mod_lt n (by omega)
  have h1 : ws.length + n / W < 2 ^ U := by omega
  have h2 : ws.length + n / W + 1 < 2 ^ U := by omega
  have hl := Props.GenShift.gen_shl_in_place W (n % W) ws hm hw
  rw [← Props.C09Shift.shlBits_eq_shlInPlace W (n % W) ws hw] at hl
  have href := gen_shl_large_ref W U n ws hW h32 hw hU
  unfold shl_large
  simp only [MachInt.div, hW0, if_false, MachInt.add, h1, h2, if_true, bind, Option.bind, pure]
  split
  · simp [href]
  · simp [shlLarge, MachInt.rem, MachInt.cast, hW0, mod_lt_32 W n hW h32, hl, push, push_zeros_front]

/-- **`shr_large`** = `shrLarge` -/
theorem gen_shr_large (W U n : Nat) (ws : List Nat) (hW : 1 ≤ W) (h32 : W ≤ 2 ^ 32) :
    shr_large W U ws n = some (shrLarge W ws n) := by
  have hW0 : W ≠ 0 := by omega
  have hm : n % W < W := Nat.mod_lt n (by omega)
  unfold shr_large shrLarge
  simp only [MachInt.div, hW0, if_false, bind, Option.bind, pure]
  by_cases hc : n / W ≥ ws.length
  · simp [hc]
  · have hne : ws.drop (n / W) ≠ [] := by
      intro h; rw [List.drop_eq_nil_iff] at h; omega
    have hl := Props.GenShift.gen_shr_in_place W (n % W) (ws.drop (n / W)) hW (by omega) hne
    rw [← Props.C09Shift.shrBits_eq_shrInPlace W (n % W) hm] at hl
    simp [hc, MachInt.rem, MachInt.cast, hW0, mod_lt_32 W n hW h32, erase_front, hl]

-- non-vacuity: `5 << 200` spills (arm shl_dword_spilled), a 3-word value `<< 70` through both branches of `shl_large`,
-- `>> 70` of a 4-word value; 64-bit words and usize
example : shl_dword_spilled 64 64 5 200 = some (shlDword 64 5 200) ∧ (shlDword 64 5 200).value 64 = 5 * 2 ^ 200 ∧
    shl_one_spilled 64 64 130 = some (shlDword 64 1 130) ∧
    shl_large 64 64 [2 ^ 64 - 1, 7, 2 ^ 63 + 9] 70 3 = some (shlLarge 64 [2 ^ 64 - 1, 7, 2 ^ 63 + 9] 70) ∧
    shl_large 64 64 [2 ^ 64 - 1, 7, 2 ^ 63 + 9] 70 100 = some (shlLarge 64 [2 ^ 64 - 1, 7, 2 ^ 63 + 9] 70) ∧
    (shlLarge 64 [2 ^ 64 - 1, 7, 2 ^ 63 + 9] 70).value 64 = (2 ^ 64 - 1 + 7 * 2 ^ 64 + (2 ^ 63 + 9) * 2 ^ 128) * 2 ^ 70 ∧
    shr_large 64 64 [1, 2, 3, 4] 70 = some (shrLarge 64 [1, 2, 3, 4] 70) ∧ shr_large 64 64 [1, 2, 3] 192 = some (.small 0) := by
  refine ⟨by decide, by decide, by decide, by decide, by decide, by decide, by decide, by decide⟩

/-- **`shr_large_ref`** (the sub-slice `&words[shift_words.min(len)..]`, the slice-pattern `match` with its one-word and
    two-word shortcuts, the copy + `shr_in_place` of the general arm) = the hand model's `shrLargeRef` -/
theorem gen_shr_large_ref (W U n : Nat) (ws : List Nat) (hW : 1 ≤ W) (h32 : W ≤ 2 ^ 32) :
    shr_large_ref W U ws n = some (shrLargeRef W ws n) := by
  have hW0 : W ≠ 0 := by omega
  have hm : n % W < W := Nat.mod_lt n (by omega)
  have hm2 : n % W < 2 * W := by omega
  have hmin : Min.min (n / W) ws.length ≤ ws.length := Nat.min_le_right _ _
  unfold shr_large_ref shrLargeRef
  simp only [MachInt.div, hW0, if_false, MachInt.rem, MachInt.cast, mod_lt_32 W n hW h32, split_from, hmin, if_true,
    bind, Option.bind, pure]
  generalize ws.drop (Min.min (n / W) ws.length) = l
  match l with
  | [] => rfl
  | [w] => simp [MachInt.shr, hm]
  | [lo, hi] => simp [MachInt.shr, hm2, MachInt.double_word]
  | a :: b :: c :: rest =>
    have hl := Props.GenShift.gen_shr_in_place W (n % W) (a :: b :: c :: rest) hW (by omega) (by simp)
    rw [← Props.C09Shift.shrBits_eq_shrInPlace W (n % W) hm] at hl
    simp [Buffer_allocate, push_slice, hl]

/-- both forms of `>>` on a heap value, regenerated, are the two branches of the hand model's `TRepr.shr` -/
theorem gen_shr_heap_forms (W U n : Nat) (ws : List Nat) (hW : 1 ≤ W) (h32 : W ≤ 2 ^ 32) (byRef : Bool) :
    (if byRef then shr_large_ref W U ws n else shr_large W U ws n) = some (TRepr.shr W (.large ws) n byRef) := by
  cases byRef
  · simpa [TRepr.shr] using gen_shr_large W U n ws hW h32
  · simpa [TRepr.shr] using gen_shr_large_ref W U n ws hW h32

example : shr_large_ref 64 64 [1, 2, 3, 4] 70 = some (shrLargeRef 64 [1, 2, 3, 4] 70) ∧
    shr_large_ref 64 64 [1, 2, 3, 4] 200 = some (.small 0) ∧ shr_large_ref 64 64 [1, 2, 3, 4] 129 = some (.small (1 + 2 ^ 65)) ∧
    shr_large_ref 64 64 [1, 2, 3] (2 ^ 64 - 1) = some (.small 0) := by
  refine ⟨by decide, by decide, by decide, by decide⟩

-- ---------------------------------------------------------------- round 6: `shl_dword` itself (inline test + arm selection)

/-- **`shift_ops::repr::shl_dword`** (the whole function: the inline test `rhs <= dword.leading_zeros() as usize`, the inline shift,
    the `dword == 1` test and the two spilled arms) as regenerated = the hand model's `shlDword`, for every non-zero double word and
    every count: inside the inline range the checked `dword << rhs` neither exceeds the shift width nor loses a bit -/
theorem gen_shl_dword_repr (W U d n : Nat) (hW : 1 ≤ W) (h32 : W ≤ 2 ^ 32) (hd0 : d ≠ 0) (hd : d < 2 ^ (2 * W))
    (hU : n / W + 3 < 2 ^ U) (h2W : 2 * W < 2 ^ U) :
    shl_dword_repr W U d n = some (shlDword W d n) := by
  have hbl : bitLenNat d ≤ 2 * W := bitLenNat_le d (2 * W) hd
  have hb1 : 1 ≤ bitLenNat d := by
    unfold bitLenNat; rw [if_neg hd0]; omega
  have hlz : MachInt.cast U (MachInt.leading_zeros (2 * W) d) = 2 * W - bitLenNat d := by
    unfold MachInt.cast MachInt.leading_zeros
    rw [Props.GenMath.bitLength_eq]
    exact Nat.mod_eq_of_lt (by omega)
  unfold shl_dword_repr
  rw [hlz]
  by_cases hsp : n ≤ 2 * W - bitLenNat d
  · have hn : n < 2 * W := by omega
    have hlt : d * 2 ^ n < 2 ^ (2 * W) := by
      have h1 := (bitLenNat_spec d).1
      calc d * 2 ^ n < 2 ^ bitLenNat d * 2 ^ n := Nat.mul_lt_mul_of_pos_right h1 (Nat.two_pow_pos n)
        _ = 2 ^ (bitLenNat d + n) := (Nat.pow_add 2 _ _).symm
        _ ≤ 2 ^ (2 * W) := Nat.pow_le_pow_right (by decide) (by omega)
    simp only [hsp, decide_true, if_true, MachInt.shl, hn, Nat.mod_eq_of_lt hlt, bind, Option.bind, pure, shlDword]
  · have h := gen_shl_dword_spilled_arms W U d n hW h32 hd hU hsp
    simp only [hsp, decide_false, Bool.false_eq_true, if_false]
    by_cases h1 : d = 1
    · rw [if_pos h1] at h
      simp only [h1, beq_self_eq_true, if_true, bind, Option.bind, pure]
      rw [h1] at h
      exact h
    · rw [if_neg h1] at h
      have hb : (d == 1) = false := by simpa using h1
      simp only [hb, Bool.false_eq_true, if_false, bind, Option.bind, pure, h]

-- non-vacuity (64-bit words): the last inline count, the first spilled count, the `dword == 1` arm
example : shl_dword_repr 64 64 5 125 = some (.small (5 * 2 ^ 125)) ∧
    shl_dword_repr 64 64 5 126 = some (shlDword 64 5 126) ∧ shl_dword_repr 64 64 1 128 = some (.large [0, 0, 1]) ∧
    shl_dword_repr 64 64 1 127 = some (.small (2 ^ 127)) := by
  refine ⟨by decide, by decide, by decide, by decide⟩

end Dashu.Props.GenShiftHeap
