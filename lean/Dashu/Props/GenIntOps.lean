import Dashu.Gen.IntOps
import Dashu.Proofs.Gen.Basic
/-
  Tie A theorems for C05 / C09: the sign handling of `Ord for IBig` and of `IBig >> usize` (both ownership
  forms) AS REGENERATED from /repo on this run equals the mathematical operation on `Int`: the order of the
  integers, and the floor shift `x / 2^n` (rounding toward −∞ for a negative operand — two's complement
  arithmetic shift), for all operands.  Core Lean only.
-/
set_option linter.unusedSimpArgs false
namespace Dashu.Props.GenIntOps
open Dashu Dashu.Gen Dashu.GluePrelude Dashu.Proofs.Gen

/-- **`Ord for IBig` as regenerated = the order of the integers** -/
theorem ibig_cmp_is_int_order (a b : Int) : IBig_cmp a b = compare a b := by
  unfold IBig_cmp
  simp only [as_sign_repr, sign_int, cmp_int, Int.ofNat_eq_natCast]
  by_cases ha : a < 0 <;> by_cases hb : b < 0 <;> simp only [ha, hb, if_true, if_false]
  · -- both negative: the magnitudes are compared the other way round
    rcases Int.lt_trichotomy a b with h | h | h
    · rw [cmp_lt_of h, cmp_lt_of (by omega)]
    · subst h; rw [compare_self_int, compare_self_int]
    · rw [cmp_gt_of h, cmp_gt_of (by omega)]
  · rw [cmp_lt_of (by omega)]
  · rw [cmp_gt_of (by omega)]
  · rcases Int.lt_trichotomy a b with h | h | h
    · rw [cmp_lt_of h, cmp_lt_of (by omega)]
    · subst h; rw [compare_self_int, compare_self_int]
    · rw [cmp_gt_of h, cmp_gt_of (by omega)]

theorem neg_floor_div (m d : Int) (hd : 0 < d) :
    (-m) / d = -(m / d) - (if m % d ≠ 0 then 1 else 0) := by
  have h1 := Int.emod_add_mul_ediv m d
  have h2 := Int.emod_nonneg m (by omega : d ≠ 0)
  have h3 := Int.emod_lt_of_pos m hd
  by_cases hz : m % d = 0
  · simp only [hz, ne_eq, not_true_eq_false, if_false, Int.sub_zero]
    refine ((Int.ediv_emod_unique hd).mpr (?_ : (0 : Int) + d * (-(m / d)) = -m ∧ 0 ≤ (0 : Int) ∧ (0 : Int) < d)).1
    rw [Int.mul_neg]
    omega
  · simp only [ne_eq, hz, not_false_eq_true, if_true]
    refine ((Int.ediv_emod_unique hd).mpr (?_ : (d - m % d) + d * (-(m / d) - 1) = -m ∧ 0 ≤ d - m % d ∧ d - m % d < d)).1
    rw [Int.mul_sub, Int.mul_neg, Int.mul_one]
    omega

/-- **`IBig >> usize` as regenerated = the floor shift** `x / 2^n` (`Int.shiftRight`), for both ownership forms -/
theorem ibig_shr_is_floor_shift (x : Int) (n : Nat) :
    IBig_shr x (n : Int) = x / 2 ^ n ∧ IBig_ref_shr x (n : Int) = x / 2 ^ n := by
  have hd : (0 : Int) < 2 ^ n := Int.pow_pos (by omega)
  unfold IBig_shr IBig_ref_shr
  simp only [as_sign_repr, sign_int, shr_, are_low_bits_nonzero, b2i, sub_int, neg_int, Int.toNat_natCast, Int.ofNat_eq_natCast]
  by_cases hx : x < 0
  · have e : ((x.natAbs : Nat) : Int) = -x := by omega
    have := neg_floor_div (-x) (2 ^ n) hd
    simp only [Int.neg_neg] at this
    simp only [hx, if_true, e, this]
    by_cases hz : -x % 2 ^ n = 0 <;> simp [hz]
  · have e : ((x.natAbs : Nat) : Int) = x := by omega
    simp only [hx, if_false, e, and_self]

/-- and that is `Int.shiftRight` of core Lean -/
theorem ibig_shr_is_shiftRight (x : Int) (n : Nat) : IBig_shr x (n : Int) = x >>> n := by
  rw [(ibig_shr_is_floor_shift x n).1, Int.shiftRight_eq_div_pow]
  simp

-- non-vacuity: -5 >> 1 = -3 (toward −∞), and the comparison of two negatives
example : IBig_shr (-5) 1 = -3 := by decide
example : IBig_cmp (-5) (-3) = Ordering.lt := by decide

end Dashu.Props.GenIntOps
