import Dashu.Proofs.Trans.Powi
import Dashu.Proofs.Trans.PowiNeg
import Dashu.Proofs.Trans.PowiUnlimited
import Mathlib.Tactic.NormNum
/-
  C11, DESIGN §8 item 2 — `Context::powi` with a NON-NEGATIVE exponent `n ≥ 2` at a limited precision
  `p ≥ 1`: error bound from the C03 contracts of `sqr` / `mul` / `repr_round` (`Dashu/Proofs/Float`, read
  only) through the mirrored binary-powering loop `Model/Trans/Powi.lean`
  (working precision `p + exp.bit_len + p.bit_len`, the source's heuristic guard digits).

  PROVED, for every base `B ≥ 2`, every mode, every operand with at most `2·(working precision)` digits
  (every `FBig` qualifies) and every exponent `n ≥ 2`:
   * `powi_nonneg_error`: the working value `y` of the loop satisfies
        |y − baseⁿ| ≤ B^(2 − p − bit_len p) · |baseⁿ|
     (at most `2^(bit_len n)` roundings of relative size `B^(1−q)`, doubled by every later squaring), and the
     returned value is the correct mode-`m` rounding of `y` to `p` digits (C03 contract);
   * `powi_nonneg_half_lt_ulp`: in the two nearest modes, when `3·B^(2 − bit_len p) ≤ 1` (`p ≥ 8` in base 2,
     `p ≥ 4` in every other base), the result is LESS THAN ONE `ulp()` of itself from `baseⁿ`: here the guard
     digits of the source suffice.
  WHERE THEY DO NOT SUFFICE (exhibited, not repairable by more guard digits): in the four directed modes
  the working value can fall on the other side of a `p`-digit number than `baseⁿ`, and the rounding then moves
  a whole ulp away: `powi_directed_counterexample` is a result printed by the pinned commit
  (base 3, 5 digits, mode Away, `(163·3⁻⁷)⁵`), reproduced by the model (`powi_model_reproduces`) and exactly
  `1.0002…` ulp from the true value.  The same holds for every amount of guard digits: a working error
  of any size can straddle a representable number.
-/
namespace Dashu.Props.C11Powi
open Dashu.Model.Float Dashu.Model.Trans

/-- error of the working value and contract of the final rounding, for the exponent `n ≥ 2` itself -/
theorem powi_nonneg_error (B : Nat) (hB : 2 ≤ B) (m : Mode) (c : Coarse) (hc : CoarseSound c) (p : Nat) (hp : 1 ≤ p)
    (base : FRepr) (hn : Normalized B base) (n : Nat) (hn1 : 1 ≤ n)
    (hbase : base.digits B ≤ 2 * powiWorkPrec p (lowBits n)) :
    |(powiNonneg false B m c p base (lowBits n)).1.toRat B - (base.toRat B) ^ n|
        ≤ bpowQ B (2 - (p : Int) - (bitLen p : Int)) * |(base.toRat B) ^ n| ∧
    Contract B m p ((powiNonneg false B m c p base (lowBits n)).1.toRat B)
      ((powiNonneg false B m c p base (lowBits n)).2.1.toRat B) (powiNonneg false B m c p base (lowBits n)).2.2 := by
  have h := Dashu.Model.Trans.powi_nonneg_error B hB m c hc p hp base hn (lowBits n) hbase
  rw [bitsVal_lowBits n hn1] at h
  exact h

/-- nearest modes: less than one ulp (dashu's `ulp()` of the result: `B^(exp + digits − p)`) -/
theorem powi_nonneg_half_lt_ulp (B : Nat) (hB : 2 ≤ B) (m : Mode) (hm : m.isHalf = true) (c : Coarse)
    (hc : CoarseSound c) (p : Nat) (hp : 1 ≤ p) (hθ : 3 * bpowQ B (2 - (bitLen p : Int)) ≤ 1)
    (base : FRepr) (hn : Normalized B base) (n : Nat) (hn1 : 1 ≤ n)
    (hbase : base.digits B ≤ 2 * powiWorkPrec p (lowBits n)) :
    let r := (powiNonneg false B m c p base (lowBits n)).2.1
    |r.toRat B - (base.toRat B) ^ n| < bpowQ B (r.exp + (r.digits B : Int) - (p : Int)) := by
  have h := Dashu.Model.Trans.powi_nonneg_half_lt_ulp B hB m hm c hc p hp hθ base hn (lowBits n) hbase
  rw [bitsVal_lowBits n hn1] at h
  exact h

/-- the working precision is the one of the source: `p + exp.bit_len() + p.bit_len()` -/
theorem workPrec_eq (p n : Nat) (hn : 2 ≤ n) : powiWorkPrec p (lowBits n) = p + bitLen n + bitLen p := by
  unfold powiWorkPrec
  have h := lowBits_length n
  have h2 : 1 ≤ bitLen n := bitLen_pos n (by omega)
  omega

/-! ### negative exponent `-n` (`n ≥ 1`): reversed context at `p + 2·bit_len p` digits, inner non-negative power,
    reciprocal, final rounding (`Model/Trans/PowiNeg.lean`) -/

/-- the value `inv` handed to the final rounding is within relative distance `8·B^(1 − p − 2·bit_len p)` of
    `base^(-n)`; the result is the correct mode-`m` rounding of `inv` (never a panic for a non-zero base) -/
theorem powi_neg_error (B : Nat) (hB : 2 ≤ B) (m : Mode) (c : Coarse) (hc : CoarseSound c) (p : Nat) (hp : 2 ≤ p)
    (base : FRepr) (hn : Normalized B base) (hb0 : base.signif ≠ 0) (n : Nat) (hn1 : 1 ≤ n)
    (hbase : base.digits B ≤ 2 * powiWorkPrec (powiNegPrec p) (lowBits n)) :
    ∃ pow inv out, powiNeg false B m c p base n = .ok (pow, inv, out) ∧
      |inv.toRat B - 1 / (base.toRat B) ^ n|
        ≤ 8 * bpowQ B (1 - (powiNegPrec p : Int)) * |1 / (base.toRat B) ^ n| ∧
      Contract B m p (inv.toRat B) (out.1.toRat B) out.2 :=
  Dashu.Model.Trans.powi_neg_error B hB m c hc p hp base hn hb0 n hn1 hbase

/-- nearest modes: less than one `ulp()` of the result from `base^(-n)` when `24·B^(1 − 2·bit_len p) ≤ 1`
    (`p ≥ 4` in base 2, `p ≥ 2` otherwise) -/
theorem powi_neg_half_lt_ulp (B : Nat) (hB : 2 ≤ B) (m : Mode) (hm : m.isHalf = true) (c : Coarse)
    (hc : CoarseSound c) (p : Nat) (hp : 2 ≤ p) (hθ : 24 * bpowQ B (1 - 2 * (bitLen p : Int)) ≤ 1)
    (base : FRepr) (hn : Normalized B base) (hb0 : base.signif ≠ 0) (n : Nat) (hn1 : 1 ≤ n)
    (hbase : base.digits B ≤ 2 * powiWorkPrec (powiNegPrec p) (lowBits n)) :
    ∃ pow inv out, powiNeg false B m c p base n = .ok (pow, inv, out) ∧
      |out.1.toRat B - 1 / (base.toRat B) ^ n| < bpowQ B (out.1.exp + (out.1.digits B : Int) - (p : Int)) :=
  Dashu.Model.Trans.powi_neg_half_lt_ulp B hB m hm c hc p hp hθ base hn hb0 n hn1 hbase

example : 24 * bpowQ 2 (1 - 2 * (bitLen 4 : Int)) ≤ 1 := by decide +kernel
example : 24 * bpowQ 10 (1 - 2 * (bitLen 2 : Int)) ≤ 1 := by decide +kernel
-- (3/8)^(-3) = 512/27 = 18.96…; base 2, 5 bits, HalfEven: 19 = 10011b
example : (powiNeg false 2 .halfEven coarseNone 5 ⟨3, -3⟩ 3).map (fun r => r.2.2.1) = .ok ⟨19, 0⟩ := by
  decide +kernel

/-! non-vacuity: the side condition of the nearest-mode theorem holds from small precisions on -/
example : 3 * bpowQ 2 (2 - (bitLen 8 : Int)) ≤ 1 := by decide +kernel
example : 3 * bpowQ 10 (2 - (bitLen 4 : Int)) ≤ 1 := by decide +kernel
example : 3 * bpowQ 3 (2 - (bitLen 4 : Int)) ≤ 1 := by decide +kernel
example : lowBits 5 = [false, true] ∧ bitsVal (lowBits 5) 1 = 5 := by decide +kernel

theorem coarseNone_sound : CoarseSound coarseNone := by
  intro B f k o h; cases h

/-- the hypotheses of the two nearest-mode theorems are met by concrete operands:
    `1.2345₁₀` to the 7th power at 8 digits, and to the power −7 -/
example :
    let r := (powiNonneg false 10 .halfEven coarseNone 8 ⟨12345, -4⟩ (lowBits 7)).2.1
    |r.toRat 10 - ((⟨12345, -4⟩ : FRepr).toRat 10) ^ 7| < bpowQ 10 (r.exp + (r.digits 10 : Int) - (8 : Nat)) :=
  powi_nonneg_half_lt_ulp 10 (by decide) .halfEven rfl coarseNone coarseNone_sound 8 (by decide)
    (by decide +kernel) ⟨12345, -4⟩ (by unfold Normalized; decide) 7 (by decide) (by decide +kernel)

example :
    ∃ pow inv out, powiNeg false 10 .halfAway coarseNone 8 ⟨12345, -4⟩ 7 = .ok (pow, inv, out) ∧
      |out.1.toRat 10 - 1 / ((⟨12345, -4⟩ : FRepr).toRat 10) ^ 7|
        < bpowQ 10 (out.1.exp + (out.1.digits 10 : Int) - (8 : Nat)) :=
  powi_neg_half_lt_ulp 10 (by decide) .halfAway rfl coarseNone coarseNone_sound 8 (by decide)
    (by decide +kernel) ⟨12345, -4⟩ (by unfold Normalized; decide) (by decide) 7 (by decide) (by decide +kernel)

/-- the model reproduces what the pinned commit printed for
    `FBig::<Away, 3>(163·3⁻⁷, precision 5).powi(5)`: `100·3⁻¹⁶`, `Inexact(AddOne)` -/
theorem powi_model_reproduces :
    (powiNonneg false 3 .away coarseNone 5 ⟨163, -7⟩ (lowBits 5)).2 = (⟨100, -16⟩, some .AddOne) := by
  decide +kernel

/-- … and that result (5 digits: `100 = 10201₃`, so `ulp = 3^(−16 + 5 − 5)`) is NOT within one ulp (`3⁻¹⁶`) of `(163·3⁻⁷)⁵`: directed modes, 1.0002 ulp -/
theorem powi_directed_counterexample :
    ¬ |(⟨100, -16⟩ : FRepr).toRat 3 - ((⟨163, -7⟩ : FRepr).toRat 3) ^ 5| < bpowQ 3 (-16 + 5 - 5) := by
  have e1 : (⟨100, -16⟩ : FRepr).toRat 3 = 100 / 3 ^ 16 := by
    unfold FRepr.toRat; rw [bpowQ_eq_zpow]; norm_num
  have e2 : (⟨163, -7⟩ : FRepr).toRat 3 = 163 / 3 ^ 7 := by
    unfold FRepr.toRat; rw [bpowQ_eq_zpow]; norm_num
  rw [e1, e2, bpowQ_eq_zpow]
  norm_num [abs_lt]

/-! ### unlimited precision (`self.precision = 0`), non-negative exponent: the `else` arm `Context::<R>::new(0)` of
    `let work_context = if self.is_limited() {…}` runs the same loop at working precision 0 -/

/-- one step of the loop at precision 0 (`Context::new(0).sqr` / `.mul`) is the exact square / product, flagged
    Exact — with the pre-shrink of `mul.rs` (`fixed = false`, the code as it is: guarded by `p ≠ 0`) or without -/
theorem unlimited_step_exact (fixed : Bool) (B : Nat) (hB : 0 < B) (m : Mode) (c : Coarse) (a b : FRepr) :
    ((ctxSqr fixed B m c 0 a).1.toRat B = a.toRat B * a.toRat B ∧ (ctxSqr fixed B m c 0 a).2 = none) ∧
    ((ctxMul fixed B m c 0 a b).1.toRat B = a.toRat B * b.toRat B ∧ (ctxMul fixed B m c 0 a b).2 = none) :=
  ⟨ctxSqr_unlimited fixed B hB m c a, ctxMul_unlimited fixed B hB m c a b⟩

/-- statement review (c): `powi` with a non-negative exponent `n ≥ 1` at UNLIMITED precision answers exactly — the
    mirrored powering loop at working precision 0 returns `base^n` for every base `B ≥ 1`, mode, operand and exponent,
    and the closing `with_precision(0)` returns that value unchanged, flagged Exact.  No hypothesis on the operand. -/
theorem powi_unlimited_exact (fixed : Bool) (B : Nat) (hB : 0 < B) (m : Mode) (c : Coarse) (base : FRepr)
    (n : Nat) (hn : 1 ≤ n) :
    (powLoop fixed B m c 0 base (lowBits n) base).toRat B = (base.toRat B) ^ n ∧
    reprRound B m c 0 (powLoop fixed B m c 0 base (lowBits n) base)
      = (powLoop fixed B m c 0 base (lowBits n) base, none) :=
  Dashu.Model.Trans.powi_unlimited_exact fixed B hB m c base n hn

/-- the loop as run at precision 0: `(3·10⁻¹)^5 = 243·10⁻⁵` (mode Down, code as it is); `(−7·2³)^6` -/
example : powLoop false 10 .down coarseNone 0 ⟨3, -1⟩ (lowBits 5) ⟨3, -1⟩ = ⟨243, -5⟩ := by decide +kernel
example : powLoop false 2 .halfEven coarseNone 0 ⟨-7, 3⟩ (lowBits 6) ⟨-7, 3⟩ = ⟨117649, 18⟩ := by decide +kernel

/-- a base in `{0, 1, −1}`: `x^k = x^(unitExp k)` for every integer exponent with `|k| ≥ 4` (same sign, same parity) — the
    reduction the driver uses to decide `powi` of such a base for multi-word exponents -/
theorem unit_base_zpow_reduce (x : ℚ) (hx : x = 0 ∨ x = 1 ∨ x = -1) (k : ℤ) (hk : 4 ≤ k.natAbs) :
    x ^ k = x ^ (unitExp k) := by
  have hu0 : unitExp k ≠ 0 := by
    unfold unitExp; split <;> omega
  rcases hx with h | h | h
  · subst h
    rw [zero_zpow k (by omega), zero_zpow _ hu0]
  · subst h; simp
  · subst h
    have hpar : Even k ↔ Even (unitExp k) := by
      unfold unitExp
      rw [Int.even_iff, Int.even_iff]
      split <;> omega
    by_cases he : Even k
    · rw [Even.neg_one_zpow he, Even.neg_one_zpow (hpar.mp he)]
    · have ho : Odd k := Int.not_even_iff_odd.mp he
      have ho' : Odd (unitExp k) := Int.not_even_iff_odd.mp (fun h => he (hpar.mpr h))
      rw [Odd.neg_one_zpow ho, Odd.neg_one_zpow ho']

end Dashu.Props.C11Powi
