import Dashu.Props.C02
import Dashu.Gen.DivPlumbing
import Dashu.Model.Int.DivConst
/-
  C02 — the operator-trait plumbing of integer division, as theorems over the table GENERATED from the
  macro-expanded dashu-int (`Dashu.Gen.DivPlumbing.table`, vlib/divplumb.py; one entry per
  `impl Trait<Rhs> for Lhs` of Div / Rem / DivRem / DivEuclid / RemEuclid / DivRemEuclid / DivAssign /
  RemAssign / DivRemAssign on UBig / IBig / ConstDivisor in every ownership form).

  `plumbing_every_impl_exact`: EVERY entry of the generated table, run along the route the entry names
  (`Entry.eval`, the function `drive_div` executes), returns what the property requires of its trait —
  truncating quotient / remainder for the `Div` family, Euclidean for the `*Euclid` family, of the result
  types the documentation states — for all operands of all lengths, and the documented divide-by-zero
  panic for a zero divisor.  A change of the Rust source that sends an operator form to another dispatch
  function / sign table / operand accessor changes the generated table, and this module no longer checks.
-/
namespace Dashu.Props.C02
open Dashu Dashu.Model Dashu.Model.Div Dashu.Model.DivPlumbing Dashu.Gen Dashu.Gen.DivPlumbing

-- ================================================================== §9 operator-trait plumbing

def isTake : Core → Bool
  | .take _ => true
  | _ => false

/-- every generated entry takes the route the property needs for its trait and operand types, and reads its
    operands with an accessor that fits their type and ownership -/
theorem plumbing_table_routes : table.all Entry.routeOk = true := by decide

/-- every assign form forwards to a by-value impl that is listed and is not itself a forwarding -/
theorem plumbing_table_forwards :
    table.all (fun e => match e.core with
      | .take t => (forwardTarget table e t).any (fun e' => !isTake e'.core)
      | _ => true) = true := by decide

/-- ownership closure: with an entry, the entries of the same trait and operand types in every other
    ownership form the trait family offers are listed too -/
theorem plumbing_table_forms :
    table.all (fun e =>
      let has (lr rr : Bool) := table.any (fun x => x.tr == e.tr && x.lhs == e.lhs && x.rhs == e.rhs &&
        x.lhsRef == lr && x.rhsRef == rr && x.core == e.core)
      match e.core, e.rhs with
      | .take _, .ConstDivisor => true
      | .take _, _ => has false false && has false true
      | _, .ConstDivisor => has false true && has true true
      | _, _ => has false false && has false true && has true false && has true true) = true := by decide

/-- the integer a result component denotes -/
def valInt (W : Nat) : Val → Int
  | .u r => (r.value W : Int)
  | .i r => r.value W

/-- a result component is a canonical `UBig` / well-formed `IBig` -/
def valWF (W : Nat) : Val → Prop
  | .u r => r.Canon W
  | .i r => r.WF W

/-- result type: `true` = `UBig` -/
def valIsU : Val → Bool
  | .u _ => true
  | .i _ => false

/-- what the property requires of trait `t` on dividend `x` and divisor `y ≠ 0` -/
def specVals : Tr → Int → Int → List Int
  | .Div, x, y => [Int.tdiv x y]
  | .DivAssign, x, y => [Int.tdiv x y]
  | .Rem, x, y => [Int.tmod x y]
  | .RemAssign, x, y => [Int.tmod x y]
  | .DivRem, x, y => [Int.tdiv x y, Int.tmod x y]
  | .DivRemAssign, x, y => [Int.tdiv x y, Int.tmod x y]
  | .DivEuclid, x, y => [x / y]
  | .RemEuclid, x, y => [x % y]
  | .DivRemEuclid, x, y => [x / y, x % y]

/-- the documented result types (`true` = `UBig`): a quotient is unsigned iff both operands are, a truncating
    remainder has the type of the dividend, a Euclidean remainder is always a `UBig` -/
def specKinds (t : Tr) (l r : Ty) : List Bool :=
  let q := l == .UBig && r != .IBig
  let rt := l == .UBig
  match t with
  | .Div => [q]
  | .DivAssign => [q]
  | .Rem => [rt]
  | .RemAssign => [rt]
  | .DivRem => [q, rt]
  | .DivRemAssign => [q, rt]
  | .DivEuclid => [q]
  | .RemEuclid => [true]
  | .DivRemEuclid => [q, true]

/-- the outcome `out` of a route is what the property requires: the documented panic for a zero divisor `y`,
    otherwise well-formed results denoting `spec`, of the types `kinds` -/
def Exact (W : Nat) (out : Option (Except PanicKind (List Val))) (y : Int) (spec : List Int) (kinds : List Bool) : Prop :=
  (y = 0 → out = some (.error .divideByZero)) ∧
  (y ≠ 0 → ∃ vs, out = some (.ok vs) ∧ vs.map (valInt W) = spec ∧ vs.map valIsU = kinds ∧ ∀ v ∈ vs, valWF W v)

theorem value_of_not_neg (W : Nat) (a : SRepr) (h : a.neg = false) : a.value W = (a.mag.value W : Int) := by
  unfold SRepr.value; rw [h]; rfl

theorem wf1 {W : Nat} {v : Val} (h : valWF W v) : ∀ x ∈ [v], valWF W x := by
  intro x hx; rw [List.mem_singleton] at hx; subst hx; exact h

theorem wf2 {W : Nat} {v w : Val} (h1 : valWF W v) (h2 : valWF W w) : ∀ x ∈ [v, w], valWF W x := by
  intro x hx
  rcases List.mem_cons.mp hx with h | h
  · subst h; exact h1
  · rw [List.mem_singleton] at h; subst h; exact h2

-- ------------------------------------------------------------------ UBig × UBig

theorem exact_wrap_div (W : Nat) (hW : 1 ≤ W) (hW4 : 4 ≤ W) (a b : SRepr) (ha : a.WF W) (hb : b.WF W)
    (han : a.neg = false) (hbn : b.neg = false) :
    Exact W (some (do let q ← divRepr W a.mag b.mag; pure [Val.u q])) (b.value W)
      [Int.tdiv (a.value W) (b.value W)] [true] := by
  have ⟨d0, d1⟩ := divRepr_spec W hW hW4 a.mag b.mag ha.1 hb.1
  constructor
  · intro h0
    simp only [d0 ((srepr_value_zero_iff W b).mp h0), bind, Except.bind]
  · intro hne
    have hm : b.mag.value W ≠ 0 := fun h => hne ((srepr_value_zero_iff W b).mpr h)
    obtain ⟨q, e, hq, hc⟩ := d1 hm
    refine ⟨[.u q], ?_, ?_, rfl, wf1 hc⟩
    · simp only [e, bind, Except.bind, pure, Except.pure]
    · show [(q.value W : Int)] = _
      rw [hq, value_of_not_neg W a han, value_of_not_neg W b hbn,
        Int.tdiv_eq_ediv_of_nonneg (Int.natCast_nonneg _), Int.natCast_ediv]

theorem exact_wrap_rem (W : Nat) (hW : 1 ≤ W) (hW4 : 4 ≤ W) (a b : SRepr) (ha : a.WF W) (hb : b.WF W)
    (han : a.neg = false) (hbn : b.neg = false) :
    Exact W (some (do let r ← remRepr W a.mag b.mag; pure [Val.u r])) (b.value W)
      [Int.tmod (a.value W) (b.value W)] [true] := by
  have ⟨d0, d1⟩ := remRepr_spec W hW hW4 a.mag b.mag ha.1 hb.1
  constructor
  · intro h0
    simp only [d0 ((srepr_value_zero_iff W b).mp h0), bind, Except.bind]
  · intro hne
    have hm : b.mag.value W ≠ 0 := fun h => hne ((srepr_value_zero_iff W b).mpr h)
    obtain ⟨r, e, hr, hc⟩ := d1 hm
    refine ⟨[.u r], ?_, ?_, rfl, wf1 hc⟩
    · simp only [e, bind, Except.bind, pure, Except.pure]
    · show [(r.value W : Int)] = _
      rw [hr, value_of_not_neg W a han, value_of_not_neg W b hbn,
        Int.tmod_eq_emod_of_nonneg (Int.natCast_nonneg _), Int.natCast_emod]

theorem exact_wrap_pair (W : Nat) (hW : 1 ≤ W) (hW4 : 4 ≤ W) (a b : SRepr) (ha : a.WF W) (hb : b.WF W)
    (han : a.neg = false) (hbn : b.neg = false) :
    Exact W (some (do let (q, r) ← divRemRepr W a.mag b.mag; pure [Val.u q, Val.u r])) (b.value W)
      [Int.tdiv (a.value W) (b.value W), Int.tmod (a.value W) (b.value W)] [true, true] := by
  have ⟨d0, d1⟩ := divRemRepr_spec W hW hW4 a.mag b.mag ha.1 hb.1
  constructor
  · intro h0
    simp only [d0 ((srepr_value_zero_iff W b).mp h0), bind, Except.bind]
  · intro hne
    have hm : b.mag.value W ≠ 0 := fun h => hne ((srepr_value_zero_iff W b).mpr h)
    obtain ⟨q, r, e, hq, hr, hcq, hcr⟩ := d1 hm
    refine ⟨[.u q, .u r], ?_, ?_, rfl, wf2 hcq hcr⟩
    · simp only [e, bind, Except.bind, pure, Except.pure]
    · show [(q.value W : Int), (r.value W : Int)] = _
      rw [hq, hr, value_of_not_neg W a han, value_of_not_neg W b hbn,
        Int.tdiv_eq_ediv_of_nonneg (Int.natCast_nonneg _), Int.tmod_eq_emod_of_nonneg (Int.natCast_nonneg _),
        Int.natCast_ediv, Int.natCast_emod]

theorem ediv_eq_tdiv_of_not_neg (W : Nat) (a : SRepr) (han : a.neg = false) (y : Int) :
    a.value W / y = Int.tdiv (a.value W) y := by
  rw [value_of_not_neg W a han]; exact (Int.tdiv_eq_ediv_of_nonneg (Int.natCast_nonneg _)).symm

theorem emod_eq_tmod_of_not_neg (W : Nat) (a : SRepr) (han : a.neg = false) (y : Int) :
    a.value W % y = Int.tmod (a.value W) y := by
  rw [value_of_not_neg W a han]; exact (Int.tmod_eq_emod_of_nonneg (Int.natCast_nonneg _)).symm

-- ------------------------------------------------------------------ sign-table macros

theorem exact_sign_div (W : Nat) (hW : 1 ≤ W) (hW4 : 4 ≤ W) (a b : SRepr) (ha : a.WF W) (hb : b.WF W) :
    Exact W (some (do let q ← ibigDiv W a b; pure [Val.i q])) (b.value W)
      [Int.tdiv (a.value W) (b.value W)] [false] := by
  have ⟨d0, d1⟩ := ibig_div_exact W hW hW4 a b ha hb
  constructor
  · intro h0; simp only [d0 h0, bind, Except.bind]
  · intro hne
    obtain ⟨q, e, hwf, _, hq⟩ := d1 hne
    refine ⟨[.i q], ?_, ?_, rfl, wf1 hwf⟩
    · simp only [e, bind, Except.bind, pure, Except.pure]
    · show [q.value W] = _
      rw [hq]

theorem exact_sign_rem (W : Nat) (hW : 1 ≤ W) (hW4 : 4 ≤ W) (a b : SRepr) (ha : a.WF W) (hb : b.WF W) :
    Exact W (some (do let r ← ibigRem W a b; pure [Val.i r])) (b.value W)
      [Int.tmod (a.value W) (b.value W)] [false] := by
  have ⟨d0, d1⟩ := ibig_rem_exact W hW hW4 a b ha hb
  constructor
  · intro h0; simp only [d0 h0, bind, Except.bind]
  · intro hne
    obtain ⟨r, e, hwf, _, hr⟩ := d1 hne
    refine ⟨[.i r], ?_, ?_, rfl, wf1 hwf⟩
    · simp only [e, bind, Except.bind, pure, Except.pure]
    · show [r.value W] = _
      rw [hr]

theorem exact_sign_divrem (W : Nat) (hW : 1 ≤ W) (hW4 : 4 ≤ W) (a b : SRepr) (ha : a.WF W) (hb : b.WF W) :
    Exact W (some (do let (q, r) ← ibigDivRem W a b; pure [Val.i q, Val.i r])) (b.value W)
      [Int.tdiv (a.value W) (b.value W), Int.tmod (a.value W) (b.value W)] [false, false] := by
  have ⟨d0, d1⟩ := ibig_div_rem_exact W hW hW4 a b ha hb
  constructor
  · intro h0; simp only [d0 h0, bind, Except.bind]
  · intro hne
    obtain ⟨q, r, e, hwq, hwr, _, hq, hr⟩ := d1 hne
    refine ⟨[.i q, .i r], ?_, ?_, rfl, wf2 hwq hwr⟩
    · simp only [e, bind, Except.bind, pure, Except.pure]
    · show [q.value W, r.value W] = _
      rw [hq, hr]

theorem exact_sign_div_euclid (W : Nat) (hW : 1 ≤ W) (hW4 : 4 ≤ W) (a b : SRepr) (ha : a.WF W) (hb : b.WF W) :
    Exact W (some (do let q ← ibigDivEuclid W a b; pure [Val.i q])) (b.value W)
      [a.value W / b.value W] [false] := by
  have ⟨d0, d1⟩ := ibig_div_euclid_exact W hW hW4 a b ha hb
  constructor
  · intro h0; simp only [d0 h0, bind, Except.bind]
  · intro hne
    obtain ⟨q, e, hwf, _, hq⟩ := d1 hne
    refine ⟨[.i q], ?_, ?_, rfl, wf1 hwf⟩
    · simp only [e, bind, Except.bind, pure, Except.pure]
    · show [q.value W] = _
      rw [hq]

theorem exact_sign_rem_euclid (W : Nat) (hW : 1 ≤ W) (hW4 : 4 ≤ W) (a b : SRepr) (refVal : Bool)
    (ha : a.WF W) (hb : b.WF W) :
    Exact W (some (do let r ← ibigRemEuclid W a b refVal; pure [Val.u r])) (b.value W)
      [a.value W % b.value W] [true] := by
  have ⟨d0, d1⟩ := ibig_rem_euclid_exact W hW hW4 a b refVal ha hb
  constructor
  · intro h0; simp only [d0 h0, bind, Except.bind]
  · intro hne
    obtain ⟨r, e, hc, _, hr⟩ := d1 hne
    refine ⟨[.u r], ?_, ?_, rfl, wf1 hc⟩
    · simp only [e, bind, Except.bind, pure, Except.pure]
    · show [(r.value W : Int)] = _
      rw [hr]

theorem exact_sign_divrem_euclid (W : Nat) (hW : 1 ≤ W) (hW4 : 4 ≤ W) (a b : SRepr) (refVal : Bool)
    (ha : a.WF W) (hb : b.WF W) :
    Exact W (some (do let (q, r) ← ibigDivRemEuclid W a b refVal; pure [Val.i q, Val.u r])) (b.value W)
      [a.value W / b.value W, a.value W % b.value W] [false, true] := by
  have ⟨d0, d1⟩ := ibig_div_rem_euclid_exact W hW hW4 a b refVal ha hb
  constructor
  · intro h0; simp only [d0 h0, bind, Except.bind]
  · intro hne
    obtain ⟨q, r, e, hwq, hcr, _, hq, hr⟩ := d1 hne
    refine ⟨[.i q, .u r], ?_, ?_, rfl, wf2 hwq hcr⟩
    · simp only [e, bind, Except.bind, pure, Except.pure]
    · show [q.value W, (r.value W : Int)] = _
      rw [hq, hr]

theorem exact_ubig_ibig_rem (W : Nat) (hW : 1 ≤ W) (hW4 : 4 ≤ W) (a b : SRepr) (ha : a.WF W) (hb : b.WF W)
    (han : a.neg = false) :
    Exact W (some (do let r ← ubigIbigRem W a.mag b; pure [Val.u r])) (b.value W)
      [Int.tmod (a.value W) (b.value W)] [true] := by
  have ⟨d0, d1⟩ := ubig_ibig_rem_exact W hW hW4 a.mag b ha.1 hb
  constructor
  · intro h0; simp only [d0 h0, bind, Except.bind]
  · intro hne
    obtain ⟨r, e, hc, _, hr⟩ := d1 hne
    refine ⟨[.u r], ?_, ?_, rfl, wf1 hc⟩
    · simp only [e, bind, Except.bind, pure, Except.pure]
    · show [(r.value W : Int)] = _
      rw [hr, value_of_not_neg W a han]

theorem exact_ubig_ibig_divrem (W : Nat) (hW : 1 ≤ W) (hW4 : 4 ≤ W) (a b : SRepr) (ha : a.WF W) (hb : b.WF W)
    (han : a.neg = false) :
    Exact W (some (do let (q, r) ← ubigIbigDivRem W a.mag b; pure [Val.i q, Val.u r])) (b.value W)
      [Int.tdiv (a.value W) (b.value W), Int.tmod (a.value W) (b.value W)] [false, true] := by
  have ⟨d0, d1⟩ := ubig_ibig_div_rem_exact W hW hW4 a.mag b ha.1 hb
  constructor
  · intro h0; simp only [d0 h0, bind, Except.bind]
  · intro hne
    obtain ⟨q, r, e, hwq, hcr, _, hq, hr⟩ := d1 hne
    refine ⟨[.i q, .u r], ?_, ?_, rfl, wf2 hwq hcr⟩
    · simp only [e, bind, Except.bind, pure, Except.pure]
    · show [q.value W, (r.value W : Int)] = _
      rw [hq, hr, value_of_not_neg W a han]

-- ------------------------------------------------------------------ ConstDivisor

theorem exact_const_u (W : Nat) (hW : 1 ≤ W) (hW4 : 4 ≤ W) (a b : SRepr) (ha : a.WF W) (hb : b.WF W)
    (han : a.neg = false) (hbn : b.neg = false) :
    Exact W (some (do let c ← ConstDiv.new W b.mag; let q ← divConst W a.mag c; pure [Val.u q])) (b.value W)
      [Int.tdiv (a.value W) (b.value W)] [true] ∧
    Exact W (some (do let c ← ConstDiv.new W b.mag; let r ← remConst W a.mag c; pure [Val.u r])) (b.value W)
      [Int.tmod (a.value W) (b.value W)] [true] ∧
    Exact W (some (do let c ← ConstDiv.new W b.mag; let (q, r) ← divRemConst W a.mag c; pure [Val.u q, Val.u r]))
      (b.value W) [Int.tdiv (a.value W) (b.value W), Int.tmod (a.value W) (b.value W)] [true, true] := by
  have hz : b.value W = 0 → ConstDiv.new W b.mag = .error .divideByZero := fun h0 =>
    (const_divisor_new_value W hW b.mag hb.1).1 ((srepr_value_zero_iff W b).mp h0)
  have hd : (a.mag.value W / b.mag.value W : Nat) = Int.tdiv (a.value W) (b.value W) := by
    rw [value_of_not_neg W a han, value_of_not_neg W b hbn,
      Int.tdiv_eq_ediv_of_nonneg (Int.natCast_nonneg _), Int.natCast_ediv]
  have hr : (a.mag.value W % b.mag.value W : Nat) = Int.tmod (a.value W) (b.value W) := by
    rw [value_of_not_neg W a han, value_of_not_neg W b hbn,
      Int.tmod_eq_emod_of_nonneg (Int.natCast_nonneg _), Int.natCast_emod]
  refine ⟨⟨fun h0 => by simp only [hz h0, bind, Except.bind], fun hne => ?_⟩,
    ⟨fun h0 => by simp only [hz h0, bind, Except.bind], fun hne => ?_⟩,
    ⟨fun h0 => by simp only [hz h0, bind, Except.bind], fun hne => ?_⟩⟩
  all_goals
    have hm : b.mag.value W ≠ 0 := fun h => hne ((srepr_value_zero_iff W b).mpr h)
    obtain ⟨c, q, r, q', r', q'', r'', e, e1, e2, e3, _, h1, h2, h3, h4, h5, h6, c1, c2, c3, c4⟩ :=
      const_divisor_eq_plain W hW hW4 a.mag b.mag ha.1 hb.1 hm
  · refine ⟨[.u q'], ?_, ?_, rfl, wf1 c3⟩
    · simp only [e, e2, bind, Except.bind, pure, Except.pure]
    · show [(q'.value W : Int)] = _
      rw [h3, h5, hd]
  · refine ⟨[.u r'], ?_, ?_, rfl, wf1 c4⟩
    · simp only [e, e3, bind, Except.bind, pure, Except.pure]
    · show [(r'.value W : Int)] = _
      rw [h4, h6, hr]
  · refine ⟨[.u q, .u r], ?_, ?_, rfl, wf2 c1 c2⟩
    · simp only [e, e1, bind, Except.bind, pure, Except.pure]
    · show [(q.value W : Int), (r.value W : Int)] = _
      rw [h1, h2, h5, h6, hd, hr]

theorem exact_const_i (W : Nat) (hW : 1 ≤ W) (hW4 : 4 ≤ W) (a b : SRepr) (ha : a.WF W) (hb : b.WF W)
    (hbn : b.neg = false) :
    Exact W (some (do let c ← ConstDiv.new W b.mag; let q ← ibigDivConst W a c; pure [Val.i q])) (b.value W)
      [Int.tdiv (a.value W) (b.value W)] [false] ∧
    Exact W (some (do let c ← ConstDiv.new W b.mag; let r ← ibigRemConst W a c; pure [Val.i r])) (b.value W)
      [Int.tmod (a.value W) (b.value W)] [false] ∧
    Exact W (some (do let c ← ConstDiv.new W b.mag; let (q, r) ← ibigDivRemConst W a c; pure [Val.i q, Val.i r]))
      (b.value W) [Int.tdiv (a.value W) (b.value W), Int.tmod (a.value W) (b.value W)] [false, false] := by
  have hz : b.value W = 0 → ConstDiv.new W b.mag = .error .divideByZero := fun h0 =>
    (const_divisor_new_value W hW b.mag hb.1).1 ((srepr_value_zero_iff W b).mp h0)
  have hbv := value_of_not_neg W b hbn
  refine ⟨⟨fun h0 => by simp only [hz h0, bind, Except.bind], fun hne => ?_⟩,
    ⟨fun h0 => by simp only [hz h0, bind, Except.bind], fun hne => ?_⟩,
    ⟨fun h0 => by simp only [hz h0, bind, Except.bind], fun hne => ?_⟩⟩
  all_goals
    have hm : b.mag.value W ≠ 0 := fun h => hne ((srepr_value_zero_iff W b).mpr h)
    obtain ⟨c, q, r, q', r', e, e1, e2, e3, h1, h2, h3, h4, w1, w2, w3, w4⟩ :=
      const_divisor_ibig_exact W hW hW4 a b.mag ha hb.1 hm
  · refine ⟨[.i q'], ?_, ?_, rfl, wf1 w3⟩
    · simp only [e, e2, bind, Except.bind, pure, Except.pure]
    · show [q'.value W] = _
      rw [h3, h1, hbv]
  · refine ⟨[.i r'], ?_, ?_, rfl, wf1 w4⟩
    · simp only [e, e3, bind, Except.bind, pure, Except.pure]
    · show [r'.value W] = _
      rw [h4, h2, hbv]
  · refine ⟨[.i q, .i r], ?_, ?_, rfl, wf2 w1 w2⟩
    · simp only [e, e1, bind, Except.bind, pure, Except.pure]
    · show [q.value W, r.value W] = _
      rw [h1, h2, hbv]

-- ------------------------------------------------------------------ every route

/-- an operand of the given type: well-formed, and non-negative unless it is an `IBig`
    (a `ConstDivisor` operand stands for the `UBig` it was prepared from) -/
def OperandOk (W : Nat) (t : Ty) (s : SRepr) : Prop := s.WF W ∧ (t ≠ .IBig → s.neg = false)

/-- a non-forwarding entry that takes the expected route computes what the property requires -/
theorem evalCore_exact (W : Nat) (hW : 1 ≤ W) (hW4 : 4 ≤ W) (e : Entry) (hr : e.routeOk = true)
    (hnt : isTake e.core = false) (a b : SRepr) (ha : OperandOk W e.lhs a) (hb : OperandOk W e.rhs b) :
    Exact W (evalCore W e a b) (b.value W) (specVals e.tr (a.value W) (b.value W))
      (specKinds e.tr e.lhs e.rhs) := by
  obtain ⟨tr, lhs, lref, rhs, rref, lacc, racc, core, calls⟩ := e
  obtain ⟨haw, han⟩ := ha
  obtain ⟨hbw, hbn⟩ := hb
  dsimp only at han hbn
  simp only [Entry.routeOk, Bool.and_eq_true, beq_iff_eq] at hr
  obtain ⟨hc, _⟩ := hr
  cases tr <;> cases lhs <;> cases rhs <;> simp only [expectedCore, reduceCtorEq, Option.some.injEq] at hc <;>
    subst hc <;> simp only [isTake, reduceCtorEq] at hnt
  -- Div
  · exact exact_wrap_div W hW hW4 a b haw hbw (han (by decide)) (hbn (by decide))
  · exact exact_sign_div W hW hW4 a b haw hbw
  · exact (exact_const_u W hW hW4 a b haw hbw (han (by decide)) (hbn (by decide))).1
  · exact exact_sign_div W hW hW4 a b haw hbw
  · exact exact_sign_div W hW hW4 a b haw hbw
  · exact (exact_const_i W hW hW4 a b haw hbw (hbn (by decide))).1
  -- Rem
  · exact exact_wrap_rem W hW hW4 a b haw hbw (han (by decide)) (hbn (by decide))
  · exact exact_ubig_ibig_rem W hW hW4 a b haw hbw (han (by decide))
  · exact (exact_const_u W hW hW4 a b haw hbw (han (by decide)) (hbn (by decide))).2.1
  · exact exact_sign_rem W hW hW4 a b haw hbw
  · exact exact_sign_rem W hW hW4 a b haw hbw
  · exact (exact_const_i W hW hW4 a b haw hbw (hbn (by decide))).2.1
  -- DivRem
  · exact exact_wrap_pair W hW hW4 a b haw hbw (han (by decide)) (hbn (by decide))
  · exact exact_ubig_ibig_divrem W hW hW4 a b haw hbw (han (by decide))
  · exact (exact_const_u W hW hW4 a b haw hbw (han (by decide)) (hbn (by decide))).2.2
  · exact exact_sign_divrem W hW hW4 a b haw hbw
  · exact exact_sign_divrem W hW hW4 a b haw hbw
  · exact (exact_const_i W hW hW4 a b haw hbw (hbn (by decide))).2.2
  -- DivEuclid
  · show Exact W _ _ [a.value W / b.value W] _
    rw [ediv_eq_tdiv_of_not_neg W a (han (by decide))]
    exact exact_wrap_div W hW hW4 a b haw hbw (han (by decide)) (hbn (by decide))
  · exact exact_sign_div_euclid W hW hW4 a b haw hbw
  -- RemEuclid
  · show Exact W _ _ [a.value W % b.value W] _
    rw [emod_eq_tmod_of_not_neg W a (han (by decide))]
    exact exact_wrap_rem W hW hW4 a b haw hbw (han (by decide)) (hbn (by decide))
  · exact exact_sign_rem_euclid W hW hW4 a b _ haw hbw
  -- DivRemEuclid
  · show Exact W _ _ [a.value W / b.value W, a.value W % b.value W] _
    rw [ediv_eq_tdiv_of_not_neg W a (han (by decide)), emod_eq_tmod_of_not_neg W a (han (by decide))]
    exact exact_wrap_pair W hW hW4 a b haw hbw (han (by decide)) (hbn (by decide))
  · exact exact_sign_divrem_euclid W hW hW4 a b _ haw hbw

/-- an assign entry on the expected route has the specification (values and result types) of the trait it forwards to -/
theorem take_spec (e : Entry) (t : Tr) (hr : e.routeOk = true) (hc : e.core = .take t) :
    specVals e.tr = specVals t ∧ specKinds e.tr = specKinds t := by
  obtain ⟨tr, lhs, lref, rhs, rref, lacc, racc, core, calls⟩ := e
  simp only [Entry.routeOk, Bool.and_eq_true, beq_iff_eq] at hr
  obtain ⟨h, _⟩ := hr
  dsimp only at hc
  subst hc
  cases tr <;> cases lhs <;> cases rhs <;>
    simp only [expectedCore, reduceCtorEq, Option.some.injEq, Core.take.injEq] at h <;>
    subst h <;> exact ⟨rfl, rfl⟩

/-- **every `impl` of the division family computes what the property requires.**  For every entry of the table
    generated from the macro-expanded dashu-int — each of `Div`, `Rem`, `DivRem`, `DivEuclid`, `RemEuclid`,
    `DivRemEuclid`, `DivAssign`, `RemAssign`, `DivRemAssign` on UBig / IBig / mixed / ConstDivisor operands in each
    ownership form — the model run along the entry's route (`Entry.eval`, what `drive_div` executes) panics with the
    documented divide-by-zero message when the divisor is zero, and otherwise returns well-formed results that denote
    the truncating (`Div` family: `Int.tdiv`, `Int.tmod`) resp. Euclidean (`*Euclid`: `Int` `/`, `%`) quotient and
    remainder, of the documented result types; all operand lengths, all `W ≥ 4`. -/
theorem plumbing_every_impl_exact (W : Nat) (hW : 1 ≤ W) (hW4 : 4 ≤ W) (e : Entry) (he : e ∈ table)
    (a b : SRepr) (ha : OperandOk W e.lhs a) (hb : OperandOk W e.rhs b) :
    Exact W (e.eval W table a b) (b.value W) (specVals e.tr (a.value W) (b.value W))
      (specKinds e.tr e.lhs e.rhs) := by
  have hr : e.routeOk = true := List.all_eq_true.mp plumbing_table_routes e he
  cases hc : e.core with
  | take t =>
    have hf := List.all_eq_true.mp plumbing_table_forwards e he
    simp only [hc] at hf
    cases hft : forwardTarget table e t with
    | none => rw [hft] at hf; exact absurd hf (by simp)
    | some e' =>
      rw [hft] at hf
      simp only [Option.any_some, Bool.not_eq_true'] at hf
      have hmem : e' ∈ table := List.mem_of_find?_eq_some hft
      have hp := List.find?_some hft
      simp only [Bool.and_eq_true, beq_iff_eq, Bool.not_eq_true'] at hp
      obtain ⟨⟨⟨⟨h1, h2⟩, _⟩, h4⟩, _⟩ := hp
      have hr' : e'.routeOk = true := List.all_eq_true.mp plumbing_table_routes e' hmem
      have key := evalCore_exact W hW hW4 e' hr' hf a b (by rw [h2]; exact ha) (by rw [h4]; exact hb)
      obtain ⟨s1, s2⟩ := take_spec e t hr hc
      have hev : e.eval W table a b = evalCore W e' a b := by
        unfold Entry.eval
        rw [hc]; dsimp only; rw [hft]; dsimp only
        cases hc' : e'.core <;> first | rfl | (rw [hc'] at hf; exact absurd hf (by simp [isTake]))
      rw [hev, s1, s2, ← h1, ← h2, ← h4]
      exact key
  | wrap d => 
    have hev : e.eval W table a b = evalCore W e a b := by unfold Entry.eval; rw [hc]
    rw [hev]; exact evalCore_exact W hW hW4 e hr (by rw [hc]; rfl) a b ha hb
  | wrapPair =>
    have hev : e.eval W table a b = evalCore W e a b := by unfold Entry.eval; rw [hc]
    rw [hev]; exact evalCore_exact W hW hW4 e hr (by rw [hc]; rfl) a b ha hb
  | sign m =>
    have hev : e.eval W table a b = evalCore W e a b := by unfold Entry.eval; rw [hc]
    rw [hev]; exact evalCore_exact W hW hW4 e hr (by rw [hc]; rfl) a b ha hb
  | signConst d =>
    have hev : e.eval W table a b = evalCore W e a b := by unfold Entry.eval; rw [hc]
    rw [hev]; exact evalCore_exact W hW hW4 e hr (by rw [hc]; rfl) a b ha hb
  | signConstPair =>
    have hev : e.eval W table a b = evalCore W e a b := by unfold Entry.eval; rw [hc]
    rw [hev]; exact evalCore_exact W hW hW4 e hr (by rw [hc]; rfl) a b ha hb
  | other s =>
    have hev : e.eval W table a b = evalCore W e a b := by unfold Entry.eval; rw [hc]
    rw [hev]; exact evalCore_exact W hW hW4 e hr (by rw [hc]; rfl) a b ha hb

/-- non-vacuity: the table has entries (108 at the pinned commit is not required, only > 0), lists
    `impl DivRemEuclid<&IBig> for IBig` and `impl RemAssign<&ConstDivisor> for UBig`, and the hypotheses are met by
    a three-word negative dividend and a two-word negative divisor -/
example : table ≠ [] ∧
    table.any (fun e => e.tr == .DivRemEuclid && e.lhs == .IBig && !e.lhsRef && e.rhs == .IBig && e.rhsRef) = true ∧
    table.any (fun e => e.tr == .RemAssign && e.lhs == .UBig && e.rhs == .ConstDivisor && isTake e.core) = true ∧
    OperandOk 64 .IBig ⟨true, .large [1, 2, 3]⟩ ∧ OperandOk 64 .IBig ⟨true, .small (2 ^ 64 + 1)⟩ ∧
    OperandOk 64 .UBig ⟨false, .large [1, 2, 3]⟩ ∧
    (⟨true, .small (2 ^ 64 + 1)⟩ : SRepr).value 64 ≠ 0 := by
  refine ⟨by decide, by decide, by decide, ⟨⟨by decide, by decide⟩, fun h => absurd rfl h⟩,
    ⟨⟨by decide, by decide⟩, fun h => absurd rfl h⟩, ⟨⟨by decide, by decide⟩, fun _ => rfl⟩, by decide⟩


/-- the property's first sentence, for every pair-returning impl (`DivRem`, `DivRemAssign`, `DivRemEuclid` on every
    operand type combination and ownership form of the regenerated table): a non-zero divisor gives `(q, r)` with
    `a = q·b + r` and `|r| < |b|`; the Euclidean form has `0 ≤ r`, the truncating forms `r = 0` or `sign r = sign a` -/
theorem plumbing_division_identity (W : Nat) (hW : 1 ≤ W) (hW4 : 4 ≤ W) (e : Entry) (he : e ∈ table)
    (a b : SRepr) (ha : OperandOk W e.lhs a) (hb : OperandOk W e.rhs b) (hne : b.value W ≠ 0)
    (ht : e.tr = .DivRem ∨ e.tr = .DivRemAssign ∨ e.tr = .DivRemEuclid) :
    ∃ q r, e.eval W table a b = some (.ok [q, r]) ∧
      a.value W = valInt W q * b.value W + valInt W r ∧ (valInt W r).natAbs < (b.value W).natAbs ∧
      (e.tr = .DivRemEuclid → 0 ≤ valInt W r) ∧
      (e.tr ≠ .DivRemEuclid → valInt W r = 0 ∨ (valInt W r).sign = (a.value W).sign) := by
  obtain ⟨vs, hev, hvals, _, _⟩ := (plumbing_every_impl_exact W hW hW4 e he a b ha hb).2 hne
  have ⟨t1, t2, t3⟩ := truncating_conventions (a.value W) (b.value W) hne
  have ⟨e1, e2, e3⟩ := euclidean_conventions (a.value W) (b.value W) hne
  have key : ∀ x y : Int, vs.map (valInt W) = [x, y] → ∃ q r, vs = [q, r] ∧ valInt W q = x ∧ valInt W r = y := by
    intro x y h
    match vs, h with
    | [q, r], h =>
      simp only [List.map_cons, List.map_nil, List.cons.injEq, and_true] at h
      exact ⟨q, r, rfl, h.1, h.2⟩
  rcases ht with h | h | h <;> rw [h] at hvals <;> simp only [specVals] at hvals <;>
    obtain ⟨q, r, rfl, hq, hr⟩ := key _ _ hvals <;> refine ⟨q, r, hev, ?_, ?_, ?_, ?_⟩
  · rw [hq, hr]; exact t1
  · rw [hr]; exact t2
  · intro h'; rw [h] at h'; exact absurd h' (by decide)
  · intro _; rw [hr]; exact t3
  · rw [hq, hr]; exact t1
  · rw [hr]; exact t2
  · intro h'; rw [h] at h'; exact absurd h' (by decide)
  · intro _; rw [hr]; exact t3
  · rw [hq, hr]; exact e1
  · rw [hr]; omega
  · intro _; rw [hr]; exact e2
  · intro h'; exact absurd h h'

/-- `IBig::is_multiple_of_const(d)`, `d ≠ 0`: true exactly when the truncating remainder of the signed value is zero
    (the code drops the sign and tests the magnitude) -/
theorem ibig_is_multiple_of_const_exact (W : Nat) (hW : 1 ≤ W) (a : SRepr) (d : Nat) (ha : a.WF W)
    (hd0 : d ≠ 0) (hd : d < 2 ^ (2 * W)) :
    isMultipleOfDword W a.mag d = .ok (decide (Int.tmod (a.value W) (d : Int) = 0)) := by
  rw [is_multiple_of_const_exact W hW a.mag d ha.1 hd0 hd]
  congr 1
  apply decide_eq_decide.mpr
  rw [srepr_value W a, ← tmod_of_sgn]
  cases a.neg
  · show _ ↔ ((a.mag.value W % d : Nat) : Int) = 0
    exact Int.natCast_eq_zero.symm
  · show _ ↔ -((a.mag.value W % d : Nat) : Int) = 0
    rw [Int.neg_eq_zero]; exact Int.natCast_eq_zero.symm

-- non-vacuity of the two theorems above: a `DivRemAssign` entry exists; a negative three-word value is a multiple of 3
example : table.any (fun e => e.tr == .DivRemAssign && e.lhs == .IBig && e.rhs == .ConstDivisor) = true ∧
    (⟨true, .large [0, 0, 6]⟩ : SRepr).WF 64 ∧ (3 : Nat) ≠ 0 ∧ 3 < 2 ^ (2 * 64) ∧
    isMultipleOfDword 64 (.large [0, 0, 6]) 3 = .ok true := by
  refine ⟨by decide, ⟨by decide, by decide⟩, by decide, by decide, by decide⟩

-- ------------------------------------------------------------------ div_ops::repr: the size-class dispatch

/-- every regenerated `impl Div / Rem / DivRem` between `TypedRepr` and `TypedReprRef` has exactly the arms the
    model's dispatch functions mirror: patterns in source order, callee per size class, the `len() >= len()` guard,
    and what is returned for an undersized dividend -/
theorem repr_table_arms : reprTable.all RImpl.armsOk = true := by decide

/-- all twelve impls (three traits × by-value / by-reference on both sides) are listed -/
theorem repr_table_complete :
    ([Disp.div, .rem, .div_rem].all fun d => [false, true].all fun l => [false, true].all fun r =>
      reprTable.any (fun i => i.tr == d && i.lhsRef == l && i.rhsRef == r)) = true := by decide

/-- an impl with the expected arms, run arm by arm, is the model's dispatch function -/
theorem expectedArms_eval (W : Nat) (d : Disp) (cloned lr rr : Bool) (a b : TRepr) :
    RImpl.eval W ⟨d, lr, rr, expectedArms d cloned⟩ a b = some (reprSpec W d a b) := by
  cases d <;> cases cloned <;> cases a <;> cases b <;>
    simp only [RImpl.eval, expectedArms, List.find?, TRepr.isLarge, RAct.eval, RFn.eval, RSrc.eval, reprSpec,
      divRemRepr, divRepr, remRepr, Option.map, oneList, pairList, divDword, remDword, divLargeDword, divRemDword,
      beq_self_eq_true, Bool.and_self, Bool.and_true, Bool.and_false,
      Bool.false_eq_true, if_false, if_true,
      (by decide : (false == true) = false), (by decide : (true == false) = false)] <;>
    first
      | rfl
      | (split <;> rfl)

/-- **every regenerated impl of `div_ops::repr` is the model's dispatch function**: for all magnitudes, running the
    arms read from the source gives `divRemRepr` / `divRepr` / `remRepr` — the functions the theorems of §3 are about
    and `Entry.eval` runs; so the four ownership forms agree on every input and a changed arm (callee, guard,
    returned operand) no longer checks -/
theorem repr_every_impl_eq_model (W : Nat) (i : RImpl) (hi : i ∈ reprTable) (a b : TRepr) :
    i.eval W a b = some (reprSpec W i.tr a b) := by
  have h := List.all_eq_true.mp repr_table_arms i hi
  obtain ⟨d, lr, rr, arms⟩ := i
  simp only [RImpl.armsOk, Bool.or_eq_true, beq_iff_eq] at h
  rcases h with h | h <;> subst h <;> exact expectedArms_eval W d _ lr rr a b

example : reprTable.length = 12 ∧
    RImpl.eval 64 ⟨.rem, true, false, expectedArms .rem true⟩ (.large [1, 2, 3]) (.large [1, 2, 3, 4])
      = some (.ok [.large [1, 2, 3]]) := by
  refine ⟨by decide, by decide⟩

-- ------------------------------------------------------------------ div_const::repr: the size-class arms against a ConstDivisorRepr

/-- every regenerated `impl Div / Rem / DivRem<&ConstDivisorRepr>` for `TypedRepr` / `TypedReprRef` has exactly the arms the
    model's `divConst` / `remConst` / `divRemConst` mirror: patterns in source order and, token for token, the body of each
    arm (callee, `from_word` / `from_dword` / `from_buffer` / `zero`, the `>> shift`, the `buffer.len() < div_len` guard) -/
theorem const_repr_table_arms : constReprTable.all CImpl.armsOk = true := by decide

/-- the four impls of the source are listed: `Div`, `DivRem` for `TypedRepr`; `Rem` for `TypedRepr` and `TypedReprRef` -/
theorem const_repr_table_complete :
    ([(Disp.div, false), (.div_rem, false), (.rem, false), (.rem, true)].all fun p =>
      constReprTable.any (fun i => i.tr == p.1 && i.lhsRef == p.2)) = true := by decide

/-- `rem_large_large` (the `>=` reading of the source) is the Large/Large arm of the model's `remConst` (written with `<`) -/
theorem remLargeLarge_eq (W : Nat) (ws nd : List Nat) (shift dtop : Nat) :
    remLargeLarge W ws nd shift dtop = remConst W (.large ws) (.large nd shift dtop) := by
  unfold remLargeLarge remConst
  by_cases h : ws.length < nd.length
  · have h' : ¬ ws.length ≥ nd.length := by omega
    simp only [h, h', if_true, if_false]
  · have h' : ws.length ≥ nd.length := by omega
    simp only [h, h', if_true, if_false]

/-- an impl with the expected arms, run arm by arm, is the model's function -/
theorem constExpectedArms_eval (W : Nat) (d : Disp) (lr : Bool) (a : TRepr) (c : ConstDiv) :
    CImpl.eval W ⟨d, lr, constExpectedArms d⟩ a c = some (constSpec W d a c) := by
  cases d <;> cases a <;> cases c <;>
    simp only [CImpl.eval, constExpectedArms, List.find?, TRepr.isLarge, ConstDiv.cls, CAct.eval, constSpec,
      remLargeLarge_eq, beq_self_eq_true, Bool.and_self, Bool.and_true, Bool.and_false,
      (by decide : (false == true) = false),
      (by decide : (CCls.single == CCls.double) = false), (by decide : (CCls.single == CCls.large) = false),
      (by decide : (CCls.double == CCls.single) = false), (by decide : (CCls.double == CCls.large) = false),
      (by decide : (CCls.large == CCls.single) = false), (by decide : (CCls.large == CCls.double) = false)] <;>
    first
      | rfl
      | (simp only [divConst, divRemConst, oneList, pairList]; first | rfl | (split <;> rfl))

/-- **every regenerated impl of `div_const::repr` is the model's function**: for all dividends and prepared divisors,
    running the arms read from the source gives `divRemConst` / `divConst` / `remConst` — the functions the theorems of §5
    (`const_divisor_eq_plain`, `const_divisor_ibig_exact`) are about and `Entry.eval` runs; a changed arm (callee,
    constructor, guard, missing shift-back) no longer checks -/
theorem const_repr_every_impl_eq_model (W : Nat) (i : CImpl) (hi : i ∈ constReprTable) (a : TRepr) (c : ConstDiv) :
    i.eval W a c = some (constSpec W i.tr a c) := by
  have h := List.all_eq_true.mp const_repr_table_arms i hi
  obtain ⟨d, lr, arms⟩ := i
  simp only [CImpl.armsOk, beq_iff_eq] at h
  subst h
  exact constExpectedArms_eval W d lr a c

/-- `fn rem_large_large`: the body has the recognised shape and the model reduces exactly where the regenerated `if`
    condition (`lhs.len() >= modulus.len()`) says -/
theorem rem_large_large_guard (W : Nat) (ws nd : List Nat) (shift dtop : Nat) :
    remLargeLargeShape = .reduceIfGuard ∧
    remLargeLarge W ws nd shift dtop =
      if guard_rem_large_large_reduce ws.length nd.length = true then (do
        let (buf, _) ← divRemUnshiftedInPlace W ws nd shift dtop
        let r ← shrRemainder W (buf.take nd.length) shift
        pure (fromBuffer W r))
      else .ok (fromBuffer W ws) := by
  refine ⟨by decide, ?_⟩
  unfold remLargeLarge guard_rem_large_large_reduce
  by_cases h : ws.length ≥ nd.length <;> simp [h]

example : constReprTable.length = 4 ∧
    CImpl.eval 64 ⟨.rem, true, constExpectedArms .rem⟩ (.large [1, 2, 3]) (.large [0, 0, 0, 9223372036854775808] 0 0)
      = some (.ok [.large [1, 2, 3]]) ∧
    CImpl.eval 64 ⟨.div_rem, false, constExpectedArms .div_rem⟩ (.small 7) (.large [0, 0, 0, 9223372036854775808] 0 0)
      = some (.ok [.small 0, .small 7]) := by
  refine ⟨by decide, by decide, by decide⟩

-- ================================================================== §9b length guards of the division kernels (Tie A)

/-- `div::div_rem_in_place`: the model's algorithm choice IS the `if` condition regenerated from integer/src/div/mod.rs -/
theorem div_rem_in_place_choice (W : Nat) (lhs rhs : List Nat) (dtop : Nat) :
    divRemInPlace W lhs rhs dtop =
      if guard_div_rem_in_place_simple thresholdSimple lhs.length rhs.length = true
      then simpleDivRemInPlace W lhs rhs dtop else bzDivRemInPlace W lhs rhs dtop := by
  unfold divRemInPlace guard_div_rem_in_place_simple
  -- case split on the atoms, so that a reordering of the operands in the source still checks
  by_cases h1 : rhs.length ≤ thresholdSimple <;> by_cases h2 : lhs.length - rhs.length ≤ thresholdSimple <;>
    simp [h1, h2]

/-- `divide_conquer::div_rem_in_place`: the model's entry assertion IS the regenerated `assert!` condition -/
theorem bz_entry_guard (W : Nat) (lhs rhs : List Nat) (dtop : Nat) :
    bzDivRemInPlace W lhs rhs dtop =
      if guard_dc_div_rem_in_place thresholdSimple lhs.length rhs.length = true
      then bzOuter W dtop rhs (2 * rhs.length + 1) (lhs.length / rhs.length - 1) lhs
      else .error (assertErr "divide_conquer::div_rem_in_place: lhs.len() > rhs.len() + THRESHOLD && rhs.len() > THRESHOLD") := by
  unfold bzDivRemInPlace guard_dc_div_rem_in_place
  by_cases h1 : lhs.length > rhs.length + thresholdSimple <;> by_cases h2 : rhs.length > thresholdSimple <;>
    simp [h1, h2]

/-- `div_rem_in_place_same_len`: the model's entry assertion IS the regenerated `assert!` condition -/
theorem bz_same_len_guard (W dtop fuel : Nat) (lhs rhs : List Nat) :
    (guard_dc_same_len thresholdSimple lhs.length rhs.length = false →
      bzSameLen W dtop (fuel + 1) lhs rhs
        = .error (assertErr "div_rem_in_place_same_len: n > THRESHOLD_SIMPLE && lhs.len() == 2 * n")) ∧
    (guard_dc_same_len thresholdSimple lhs.length rhs.length = true →
      rhs.length > thresholdSimple ∧ lhs.length = 2 * rhs.length ∧
      bzSameLen W dtop (fuel + 1) lhs rhs = (do
        let (hi', o) ← bzSmallQuotient W dtop fuel (lhs.drop (rhs.length / 2)) rhs
        let lhs1 := lhs.take (rhs.length / 2) ++ hi'
        let (lo', oLo) ← bzSmallQuotient W dtop fuel (lhs1.take (rhs.length + rhs.length / 2)) rhs
        if oLo ≠ 0 then .error (assertErr "div_rem_in_place_same_len: debug_assert!(!overflow_lo)")
        else pure (lo' ++ lhs1.drop (rhs.length + rhs.length / 2), o))) := by
  unfold guard_dc_same_len
  constructor
  · intro h
    have h' : ¬ (rhs.length > thresholdSimple ∧ lhs.length = 2 * rhs.length) := by
      intro ⟨a, b⟩; simp [a, b] at h
    rw [bzSameLen]; simp only [h', not_false_eq_true, if_true]
  · intro h
    simp only [Bool.and_eq_true, decide_eq_true_eq] at h
    refine ⟨h.1, h.2, ?_⟩
    rw [bzSameLen]; simp only [h, and_self, not_true_eq_false, if_false]

/-- `div_rem_in_place_small_quotient`: the model's two entry assertions and its hand-over of short quotients to
    `simple::div_rem_in_place` ARE the regenerated conditions (`m = lhs.len() - n`) -/
theorem bz_small_quotient_guards (W dtop fuel : Nat) (lhs rhs : List Nat) :
    (guard_dc_small_quotient_pre lhs.length rhs.length = false →
      bzSmallQuotient W dtop (fuel + 1) lhs rhs
        = .error (assertErr "div_rem_in_place_small_quotient: n >= 2 && lhs.len() >= n")) ∧
    (guard_dc_small_quotient_pre lhs.length rhs.length = true →
      guard_dc_small_quotient_m (lhs.length - rhs.length) rhs.length = false →
      bzSmallQuotient W dtop (fuel + 1) lhs rhs = .error (assertErr "div_rem_in_place_small_quotient: m < n")) ∧
    (guard_dc_small_quotient_pre lhs.length rhs.length = true →
      guard_dc_small_quotient_m (lhs.length - rhs.length) rhs.length = true →
      (guard_dc_small_quotient_simple thresholdSimple (lhs.length - rhs.length) = true ↔
        lhs.length - rhs.length ≤ thresholdSimple) ∧
      (guard_dc_small_quotient_simple thresholdSimple (lhs.length - rhs.length) = true →
        bzSmallQuotient W dtop (fuel + 1) lhs rhs = simpleDivRemInPlace W lhs rhs dtop)) := by
  unfold guard_dc_small_quotient_pre guard_dc_small_quotient_m guard_dc_small_quotient_simple
  refine ⟨fun h => ?_, fun h1 h2 => ?_, fun h1 h2 => ⟨by simp only [decide_eq_true_eq], fun h3 => ?_⟩⟩
  · have h' : ¬ (rhs.length ≥ 2 ∧ lhs.length ≥ rhs.length) := by
      intro ⟨a, b⟩; simp [a, b] at h
    rw [bzSmallQuotient]; simp only [h', not_false_eq_true, if_true]
  · simp only [Bool.and_eq_true, decide_eq_true_eq] at h1
    simp only [decide_eq_false_iff_not] at h2
    rw [bzSmallQuotient]; simp only [h1, and_self, not_true_eq_false, if_false, h2, not_false_eq_true, if_true]
  · simp only [Bool.and_eq_true, decide_eq_true_eq] at h1 h2 h3
    rw [bzSmallQuotient]; simp only [h1, and_self, not_true_eq_false, if_false, h2, h3, if_true]

/-- … and where the regenerated `if` is false the model does NOT take the `simple` path: it enters the recursive
    2m/m estimate (`div_rem_in_place_same_len`), visible with one unit of fuel as the model's fuel error -/
theorem bz_small_quotient_recursive (W dtop : Nat) (lhs rhs : List Nat)
    (h1 : guard_dc_small_quotient_pre lhs.length rhs.length = true)
    (h2 : guard_dc_small_quotient_m (lhs.length - rhs.length) rhs.length = true)
    (h3 : guard_dc_small_quotient_simple thresholdSimple (lhs.length - rhs.length) = false) :
    bzSmallQuotient W dtop 1 lhs rhs = .error (assertErr "divide_conquer: recursion fuel") := by
  unfold guard_dc_small_quotient_pre at h1
  unfold guard_dc_small_quotient_m at h2
  unfold guard_dc_small_quotient_simple at h3
  simp only [Bool.and_eq_true, decide_eq_true_eq] at h1 h2
  simp only [decide_eq_false_iff_not] at h3
  rw [bzSmallQuotient]
  simp only [h1, and_self, not_true_eq_false, if_false, h2, h3]
  rw [bzSameLen]
  rfl

/-- `simple::div_rem_in_place` (Knuth D): the model's two entry assertions ARE the regenerated `assert!` conditions -/
theorem simple_entry_guards (W : Nat) (lhs rhs : List Nat) (dtop : Nat) :
    (guard_simple_n rhs.length = false →
      simpleDivRemInPlace W lhs rhs dtop = .error (assertErr "simple::div_rem_in_place: n >= 2")) ∧
    (guard_simple_n rhs.length = true → guard_simple_len lhs.length rhs.length = false →
      simpleDivRemInPlace W lhs rhs dtop = .error (assertErr "simple::div_rem_in_place: lhs_len >= n")) ∧
    (guard_simple_n rhs.length = true → guard_simple_len lhs.length rhs.length = true →
      simpleDivRemInPlace W lhs rhs dtop =
        (let lo := lhs.take (lhs.length - rhs.length)
         let top := lhs.drop (lhs.length - rhs.length)
         let carry := cmpSameLen top rhs != .lt
         let top' := if carry then (subSameLen W top rhs 0).1 else top
         do
           let r ← simpleLoop W rhs dtop (lhs.length - rhs.length) (lo ++ top')
           pure (r, if carry then 1 else 0))) := by
  unfold guard_simple_n guard_simple_len
  refine ⟨fun h => ?_, fun h1 h2 => ?_, fun h1 h2 => ?_⟩
  · simp only [decide_eq_false_iff_not] at h
    have : rhs.length < 2 := by omega
    unfold simpleDivRemInPlace; simp only [this, if_true]
  · simp only [decide_eq_true_eq] at h1
    simp only [decide_eq_false_iff_not] at h2
    have a : ¬ rhs.length < 2 := by omega
    have b : lhs.length < rhs.length := by omega
    unfold simpleDivRemInPlace; simp only [a, if_false, b, if_true]
  · simp only [decide_eq_true_eq] at h1 h2
    have a : ¬ rhs.length < 2 := by omega
    have b : ¬ lhs.length < rhs.length := by omega
    unfold simpleDivRemInPlace; simp only [a, if_false, b]

/-- `div_rem_highest_word`, first half: the model takes the 3-by-2 estimate exactly where the regenerated `if` says
    (`lhs_top < *rhs_top`), else `Word::MAX` -/
theorem hw_estimate_guard (W lhsTop : Nat) (lhsLo rhs : List Nat) (dtop : Nat) :
    qEstimate W lhsTop lhsLo rhs dtop =
      if guard_hw_estimate lhsTop (rhs.getD (rhs.length - 1) 0) = true then
        (do let (q, _) ← div3by2 W dtop (highestDword W lhsLo % 2 ^ W)
                          (highestDword W lhsLo / 2 ^ W + 2 ^ W * lhsTop)
            pure q)
      else pure (2 ^ W - 1) := by
  unfold qEstimate guard_hw_estimate
  by_cases h : lhsTop < rhs.getD (rhs.length - 1) 0 <;> simp [h]

/-- `div_rem_highest_word`, second half: the model adds the divisor back exactly where the regenerated `if` says
    (`borrow > lhs_top`, `borrow` = what `sub_mul_word_same_len_in_place` returned) -/
theorem hw_addback_guard (W lhsTop : Nat) (lhsLo rhs : List Nat) (q : Nat) :
    let r := Div.subMulWordSameLen W (lhsLo.drop (lhsLo.length - rhs.length)) q rhs
    (guard_hw_addback r.2 lhsTop = true →
      correctStep W lhsTop lhsLo rhs q =
        (let a := addSameLen W r.1 rhs 0
         if a.2 = 0 then .error (assertErr "div_rem_highest_word: debug_assert!(carry)")
         else if r.2 - 1 ≠ lhsTop then .error (assertErr "div_rem_highest_word: borrow == lhs_top")
         else .ok (q - 1, lhsLo.take (lhsLo.length - rhs.length) ++ a.1))) ∧
    (guard_hw_addback r.2 lhsTop = false →
      correctStep W lhsTop lhsLo rhs q =
        (if r.2 ≠ lhsTop then .error (assertErr "div_rem_highest_word: borrow == lhs_top")
         else .ok (q, lhsLo.take (lhsLo.length - rhs.length) ++ r.1))) := by
  intro r
  unfold guard_hw_addback
  constructor
  · intro h
    simp only [decide_eq_true_eq] at h
    unfold correctStep
    simp only [show Div.subMulWordSameLen W (lhsLo.drop (lhsLo.length - rhs.length)) q rhs = r from rfl]
    simp only [h, if_true]
  · intro h
    simp only [decide_eq_false_iff_not] at h
    unfold correctStep
    simp only [show Div.subMulWordSameLen W (lhsLo.drop (lhsLo.length - rhs.length)) q rhs = r from rfl]
    simp only [h, if_false]

/-- `div_by_word_in_place`: the model's `rhs == 1` and power-of-two shortcuts are taken exactly where the regenerated
    conditions say -/
theorem div_by_word_guards (W : Nat) (ws : List Nat) (rhs : Nat) :
    divByWordInPlace W ws rhs =
      if guard_dbw_one rhs = true then .ok (ws, 0)
      else if guard_dbw_pow2 rhs = true then
        .ok ((shrInPlace W ws (Nat.log2 rhs)).1, (shrInPlace W ws (Nat.log2 rhs)).2 / 2 ^ (W - Nat.log2 rhs))
      else (do
        let d ← normNew W ((rhs * 2 ^ lz W rhs) % 2 ^ W)
        fastDivByWordInPlace W ws (lz W rhs) d) := by
  unfold divByWordInPlace guard_dbw_one guard_dbw_pow2
  by_cases h1 : rhs = 1 <;> by_cases h2 : Div.isPow2 rhs = true <;> simp [h1, h2]

/-- `rem_by_word` / `rem_by_dword`: the power-of-two shortcut (`words[0] & (rhs − 1)` resp. the low double word) is
    taken exactly where the regenerated condition says -/
theorem rem_by_word_dword_guards (W : Nat) (ws : List Nat) (rhs : Nat) :
    (guard_rbw_pow2 rhs = true → remByWord W ws rhs =
      match ws with
      | [] => .error (assertErr "rem_by_word: empty")
      | w :: _ => .ok (w &&& (rhs - 1))) ∧
    (guard_rbw_pow2 rhs = false → remByWord W ws rhs = (do
      let d ← normNew W ((rhs * 2 ^ lz W rhs) % 2 ^ W)
      let rem ← fastRemByNormalizedWord W d ws
      let (_, r) ← div2by1 W d (rem * 2 ^ lz W rhs)
      pure (r / 2 ^ lz W rhs))) ∧
    (guard_rbd_pow2 rhs = true → remByDword W ws rhs =
      match ws with
      | w0 :: w1 :: _ => .ok ((w0 + 2 ^ W * w1) &&& (rhs - 1))
      | _ => .error (assertErr "rem_by_dword: words.len() >= 2")) ∧
    (guard_rbd_pow2 rhs = false → remByDword W ws rhs = (do
      let d ← normNew (2 * W) ((rhs * 2 ^ lz (2 * W) rhs) % 2 ^ (2 * W))
      let rem ← fastRemByNormalizedDword W d ws
      let (a0, a1, a2) := shlDword W rem (lz (2 * W) rhs)
      let (_, r) ← div3by2 W d a0 (a1 + 2 ^ W * a2)
      pure (r / 2 ^ lz (2 * W) rhs))) := by
  unfold guard_rbw_pow2 guard_rbd_pow2
  refine ⟨fun h => ?_, fun h => ?_, fun h => ?_, fun h => ?_⟩
  · unfold remByWord; simp only [h, if_true]; rfl
  · unfold remByWord; simp only [h, Bool.false_eq_true, if_false]
  · unfold remByDword; simp only [h, if_true]; rfl
  · unfold remByDword; simp only [h, Bool.false_eq_true, if_false]

/-- `div_by_dword_in_place`: the power-of-two path and, inside it, the `shift == 0` case (divisor `2^WORD_BITS`
    exactly) are taken exactly where the regenerated conditions say -/
theorem div_by_dword_guards (W : Nat) (ws : List Nat) (rhs : Nat) :
    divByDwordInPlace W ws rhs =
      if guard_dbd_pow2 rhs = true then
        (if guard_dbd_shift0 (Nat.log2 rhs - W) = true then .ok ((shrInPlaceOneWord ws).1, (shrInPlaceOneWord ws).2)
         else
           let r := shrInPlace W (shrInPlaceOneWord ws).1 (Nat.log2 rhs - W)
           let n := shrWord W (shrInPlaceOneWord ws).2 (Nat.log2 rhs - W)
           .ok (r.1, (n.2 + 2 ^ W * (n.1 ||| r.2)) / 2 ^ (W - (Nat.log2 rhs - W))))
      else (do
        let d ← normNew (2 * W) ((rhs * 2 ^ lz (2 * W) rhs) % 2 ^ (2 * W))
        fastDivByDwordInPlace W ws (lz (2 * W) rhs) d) := by
  unfold divByDwordInPlace guard_dbd_pow2 guard_dbd_shift0
  by_cases h1 : Div.isPow2 rhs = true <;> by_cases h2 : Nat.log2 rhs - W = 0 <;> simp [h1, h2]

/-- `div_rem_unshifted_in_place`: the carry of the normalisation shift gets its own quotient word exactly where the
    regenerated condition says (`lhs_carry > 0`) -/
theorem unshifted_carry_guard (W : Nat) (lhs rhs : List Nat) (shift dtop : Nat) :
    divRemUnshiftedInPlace W lhs rhs shift dtop = (do
      let s := Div.shlInPlace W lhs shift
      let (qTop, lhs2) ← if guard_unshifted_carry s.2 = true then divRemHighestWord W s.2 s.1 rhs dtop
                          else pure (0, s.1)
      let (lhs3, overflow) ← divRemInPlace W lhs2 rhs dtop
      pure (lhs3, qTop + overflow)) := by
  unfold divRemUnshiftedInPlace guard_unshifted_carry
  simp only [decide_eq_true_eq]

example : guard_div_rem_in_place_simple thresholdSimple 70 33 = false ∧
    guard_div_rem_in_place_simple thresholdSimple 65 33 = true ∧
    guard_dc_div_rem_in_place thresholdSimple 70 33 = true ∧ guard_dc_same_len thresholdSimple 80 40 = true ∧
    guard_dc_small_quotient_pre 70 40 = true ∧ guard_dc_small_quotient_m 30 40 = true ∧
    guard_dc_small_quotient_simple thresholdSimple 30 = true ∧ guard_dc_small_quotient_simple thresholdSimple 33 = false := by
  decide

-- ================================================================== §10 ConstDivisor::from_word / from_dword

/-- `ConstDivisor::from_word(word)` (its own zero test, then `ConstSingleDivisor::new`) builds exactly the divisor
    `ConstDivisor::new(UBig::from(word))` builds — zero included (the documented divide-by-zero panic) -/
theorem const_from_word_eq_new (W word : Nat) (hw : word < 2 ^ W) :
    ConstDiv.fromWord W word = ConstDiv.new W (.small word) := by
  unfold ConstDiv.fromWord
  by_cases h0 : word = 0
  · subst h0; simp [ConstDiv.new]
  · rw [if_neg h0]
    unfold constSingleNew
    rw [if_neg h0]
    cases word with
    | zero => exact absurd rfl h0
    | succ n => simp only [ConstDiv.new, if_pos hw]

/-- `ConstDivisor::from_dword(dword)` (zero test, `shrink_dword`, `ConstSingleDivisor::new` resp.
    `ConstDoubleDivisor::new`; neither constructor's `debug_assert!` can fail) builds exactly the divisor
    `ConstDivisor::new(UBig::from(dword))` builds — zero included -/
theorem const_from_dword_eq_new (W dword : Nat) :
    ConstDiv.fromDword W dword = ConstDiv.new W (.small dword) := by
  unfold ConstDiv.fromDword
  by_cases h0 : dword = 0
  · subst h0; simp [ConstDiv.new]
  · rw [if_neg h0]
    have hp : 0 < 2 ^ W := Nat.two_pow_pos W
    cases dword with
    | zero => exact absurd rfl h0
    | succ n =>
      by_cases hw : n + 1 < 2 ^ W
      · have e : shrinkDword W (n + 1) = some (n + 1) := by
          unfold shrinkDword
          rw [if_pos (Nat.div_eq_of_lt hw), Nat.mod_eq_of_lt hw]
        simp only [e, ConstDiv.new, if_pos hw]
        unfold constSingleNew
        rw [if_neg h0]
      · have e : shrinkDword W (n + 1) = none := by
          unfold shrinkDword
          rw [if_neg]
          intro h
          have := (Nat.div_eq_zero_iff_lt hp).mp h
          exact hw this
        simp only [e, ConstDiv.new, if_neg hw]
        unfold constDoubleNew
        rw [if_neg hw]

/-- hence `from_word(0)` / `from_dword(0)` panic with the documented message and `from_dword(d).value() = d`
    (`from_word` is the case `d < 2^W`); division through them is covered by `const_divisor_eq_plain` /
    `plumbing_every_impl_exact`, which speak about `ConstDivisor::new` of the same value -/
theorem const_from_dword_value (W : Nat) (hW : 1 ≤ W) (d : Nat) (hd : d < 2 ^ (2 * W)) :
    (d = 0 → ConstDiv.fromDword W d = .error .divideByZero) ∧
    (d ≠ 0 → ∃ c v, ConstDiv.fromDword W d = .ok c ∧ c.value W = .ok v ∧ v.value W = d ∧ v.Canon W) := by
  rw [const_from_dword_eq_new]
  exact const_divisor_new_value W hW (.small d) hd

theorem const_from_word_value (W : Nat) (hW : 1 ≤ W) (w : Nat) (hw : w < 2 ^ W) :
    (w = 0 → ConstDiv.fromWord W w = .error .divideByZero) ∧
    (w ≠ 0 → ∃ c v, ConstDiv.fromWord W w = .ok c ∧ c.value W = .ok v ∧ v.value W = w ∧ v.Canon W) := by
  rw [const_from_word_eq_new W w hw]
  refine const_divisor_new_value W hW (.small w) ?_
  show w < 2 ^ (2 * W)
  calc w < 2 ^ W := hw
    _ ≤ 2 ^ (2 * W) := Nat.pow_le_pow_right (by decide) (by omega)

example : (2 ^ 63 + 5 : Nat) < 2 ^ 64 ∧ (2 ^ 63 + 5 : Nat) ≠ 0 ∧ (2 ^ 100 + 1 : Nat) < 2 ^ (2 * 64) ∧
    ConstDiv.fromDword 64 (2 ^ 100 + 1) = ConstDiv.new 64 (.small (2 ^ 100 + 1)) := by
  refine ⟨by decide, by decide, by decide, by decide⟩

end Dashu.Props.C02
