import Dashu.Proofs.NT.ModReducerU
import Dashu.Proofs.NT.ModResidueU
import Dashu.Props.C13
/-
  C13 (round 7) — `impl Reducer<UBig> for ConstDivisor` (`integer/src/modular/reducer.rs`) on C01's mirrored `UBig`
  representation: link theorem to C01's kernels (`TRepr.add_spec`, `TRepr.sub_ok`, `TRepr.shl_spec`, `TRepr.cmp_spec`, imported).
  Round 8: `Reducer<UBig>::residue` / `is_zero` through C02's mirrored `shr_in_place` (`Div.shrInPlace_spec`, imported) and C01's
  `Repr::from_buffer` (`fromBuffer_value / _canon`), composed with the round-7 theorem and `Props.C13.reducer_ops`.
-/
namespace Dashu.Props.C13Reducer
open Dashu.Model Dashu.Model.NT

/-- **`Reducer<UBig>::add / dbl / sub / neg` through C01's mirrored `UBig` operators** (`reducer.rs`: `reduce_once(lhs + rhs)`,
    `reduce_once(target << 1)`, `lhs - rhs` / `reduce_negate(rhs - lhs)`, `reduce_negate(target)`; `check` on the
    representation with its `(Large, RefSmall) => true` and `cmp_in_place(..).is_lt() && words[0] & ones_word(shift) == 0`
    arms; the multi-word arms calling `sub_large`, `sub_large_dword`, `sub_large_ref_val`): on canonical operands that pass
    `check` (`Valid`) in any ring `ConstDivisor::new` builds, for every word size, NO `UBig` subtraction panics
    (`NegativeUBig` is an error value of `TRepr.sub`), every result is canonical, and its value is the `rAdd / rSub / rNeg`
    of `Props.C13.reducer_ops` (which the driver executes).  Removes "Reducer<UBig>'s add/sub/neg appear at their value". -/
theorem reducer_ubig_link (W id m : Nat) (hW : 0 < W) (r : Ring) (hnew : Ring.new W id m = .ok r)
    (a b : TRepr) (ha : a.Canon W) (hb : b.Canon W) (hx : Valid r (a.value W)) (hy : Valid r (b.value W)) :
    (∃ c, rAddU W r a b = .ok c ∧ c.Canon W ∧ c.value W = rAdd r (a.value W) (b.value W)) ∧
    (∃ c, rDblU W r a = .ok c ∧ c.Canon W ∧ c.value W = rAdd r (a.value W) (a.value W)) ∧
    (∃ c, rSubU W r a b = .ok c ∧ c.Canon W ∧ c.value W = rSub r (a.value W) (b.value W)) ∧
    (∃ c, rNegU W r a = .ok c ∧ c.Canon W ∧ c.value W = rNeg r (a.value W)) := by
  have hwf := Ring.new_wf hW hnew
  have hkW : r.kind = .large → r.k ≤ W := fun hk => Nat.le_of_lt (Ring.new_large_k hW hnew hk)
  have hW1 : 1 ≤ W := hW
  have hp : 0 < 2 ^ r.k := Nat.two_pow_pos _
  obtain ⟨u, hu, eu⟩ := hx
  obtain ⟨v, hv, ev⟩ := hy
  have hM : r.M = r.m * 2 ^ r.k := rfl
  have hxlt : a.value W < r.M := by rw [eu, hM]; exact Nat.mul_lt_mul_of_pos_right hu hp
  have hylt : b.value W < r.M := by rw [ev, hM]; exact Nat.mul_lt_mul_of_pos_right hv hp
  have hx0 : a.value W % 2 ^ r.k = 0 := by rw [eu]; exact Nat.mul_mod_left _ _
  have hy0 : b.value W % 2 ^ r.k = 0 := by rw [ev]; exact Nat.mul_mod_left _ _
  refine ⟨?_, ?_, ?_, ?_⟩
  · obtain ⟨sv, sc⟩ := TRepr.add_spec W hW1 a b 0 ha hb
    obtain ⟨c, e1, e2, e3⟩ := reduceOnceU_spec hwf hkW sc
      (by rw [sv, eu, ev, ← Nat.add_mul]; exact Nat.mul_mod_left _ _) (by rw [sv]; omega)
    rw [sv] at e3
    exact ⟨c, e1, e2, e3⟩
  · obtain ⟨sv, sc⟩ := TRepr.shl_spec W hW1 a 1 ha
    have sv' : (a.shl W 1).value W = a.value W + a.value W := by rw [sv]; omega
    obtain ⟨c, e1, e2, e3⟩ := reduceOnceU_spec hwf hkW sc
      (by rw [sv', eu, ← Nat.add_mul]; exact Nat.mul_mod_left _ _) (by rw [sv']; omega)
    rw [sv'] at e3
    exact ⟨c, e1, e2, e3⟩
  · unfold rSubU rSub
    rw [TRepr.cmp_spec W a b ha hb]
    by_cases h : b.value W ≤ a.value W
    · have hc : compare (a.value W) (b.value W) ≠ .lt := fun c => by
        have := compare_lt_iff_lt.mp c; omega
      rw [if_pos (by simp [hc]), if_pos h]
      obtain ⟨c, e1, e2, e3⟩ := TRepr.sub_ok W a b false ha hb h
      exact ⟨c, e1, e3, by omega⟩
    · have hc : compare (a.value W) (b.value W) = .lt := compare_lt_iff_lt.mpr (by omega)
      rw [if_neg (by simp [hc]), if_neg h]
      obtain ⟨d, e1, e2, e3⟩ := TRepr.sub_ok W b a false hb ha (by omega)
      rw [e1]
      obtain ⟨c, f1, f2, f3⟩ := reduceNegateU_spec hwf e3 (by omega)
      exact ⟨c, f1, f2, by rw [f3]; congr 1; omega⟩
  · unfold rNegU rNeg
    by_cases hz : a.value W = 0
    · have ea : a = .small 0 := by
        cases a with
        | small d => simp only [TRepr.value] at hz; rw [hz]
        | large ws =>
          have := ha.large_ge
          simp only [TRepr.value] at hz
          have : 0 < 2 ^ (2 * W) := Nat.two_pow_pos _
          omega
      subst ea
      exact ⟨.small 0, rfl, ha, rfl⟩
    · have hnz : a.isZero = false := by
        cases a with
        | small d =>
          cases d with
          | zero => exact absurd rfl hz
          | succ n => rfl
        | large ws => rfl
      rw [hnz, if_neg hz]
      obtain ⟨c, f1, f2, f3⟩ := reduceNegateU_spec hwf ha (Nat.le_of_lt hxlt)
      exact ⟨c, f1, f2, f3⟩

/-- non-vacuity (W = 64): a 3-word ring with shift 3 — a sum of two 3-word residues that wraps (`sub_large`, result inline), a
    difference `small − large` (`rhs - lhs` then `sub_large_ref_val`), the negation of an inline residue (`sub_large_dword`)
    and of a heap residue, a doubling that wraps; the operands are canonical and pass `check` -/
example : ∃ r, Ring.new 64 0 (2 ^ 188 + 12345) = .ok r ∧ r.kind = .large ∧ r.k = 3 ∧
    (ofNat 64 ((2 ^ 188 + 12000) * 2 ^ 3)).Canon 64 ∧ Valid r ((ofNat 64 ((2 ^ 188 + 12000) * 2 ^ 3)).value 64) ∧
    (ofNat 64 (500 * 2 ^ 3)).Canon 64 ∧ Valid r ((ofNat 64 (500 * 2 ^ 3)).value 64) ∧
    (rAddU 64 r (ofNat 64 ((2 ^ 188 + 12000) * 2 ^ 3)) (ofNat 64 (500 * 2 ^ 3))).map (·.value 64) = .ok (155 * 2 ^ 3) ∧
    (rSubU 64 r (ofNat 64 (500 * 2 ^ 3)) (ofNat 64 ((2 ^ 188 + 12000) * 2 ^ 3))).map (·.value 64) = .ok (845 * 2 ^ 3) ∧
    (rNegU 64 r (ofNat 64 (500 * 2 ^ 3))).map (·.value 64) = .ok ((2 ^ 188 + 11845) * 2 ^ 3) ∧
    (rNegU 64 r (ofNat 64 ((2 ^ 188 + 12000) * 2 ^ 3))).map (·.value 64) = .ok (345 * 2 ^ 3) ∧
    (rDblU 64 r (ofNat 64 ((2 ^ 188 + 12000) * 2 ^ 3))).map (·.value 64) = .ok ((2 ^ 188 + 11655) * 2 ^ 3) :=
  ⟨_, rfl, rfl, by decide, by decide +kernel, by decide +kernel, by decide +kernel, by decide +kernel, by decide +kernel,
    by decide +kernel, by decide +kernel, by decide +kernel, by decide +kernel⟩

/-- non-vacuity: a double-word ring without shift whose sums need three words (`(Double, RefLarge) => false`, then
    `UBig - DoubleWord` on a heap value), and a single-word ring with shift -/
example : (∃ r, Ring.new 64 0 (2 ^ 128 - 159) = .ok r ∧ r.kind = .double ∧ r.k = 0 ∧
      (rAddU 64 r (ofNat 64 (2 ^ 128 - 160)) (ofNat 64 (2 ^ 128 - 161))).map (·.value 64) = .ok (2 ^ 128 - 162) ∧
      (rSubU 64 r (ofNat 64 5) (ofNat 64 (2 ^ 128 - 161))).map (·.value 64) = .ok 7) ∧
    (∃ r, Ring.new 64 0 1000003 = .ok r ∧ r.kind = .single ∧ r.k = 44 ∧
      (rAddU 64 r (ofNat 64 (1000002 * 2 ^ 44)) (ofNat 64 (2 * 2 ^ 44))).map (·.value 64) = .ok (1 * 2 ^ 44) ∧
      (rNegU 64 r (ofNat 64 0)).map (·.value 64) = .ok 0) :=
  ⟨⟨_, rfl, rfl, by decide, by decide +kernel, by decide +kernel⟩, ⟨_, rfl, rfl, by decide, by decide +kernel, by decide +kernel⟩⟩

/-- **`Reducer<UBig>::residue` / `is_zero` through C02's mirrored `shr_in_place` and C01's mirrored `Repr::from_buffer`**
    (`reducer.rs`: `Small(dw)` ⇒ `from_word(shrink_dword(dw).unwrap() >> shift)` in a single-word ring, `from_dword(dw >> shift)`
    otherwise; `Large(buffer)` ⇒ `debug_assert_zero!(shift::shr_in_place(&mut buffer, d.shift)); from_buffer(buffer)` in a multi-word
    ring, `unreachable!()` otherwise): on a canonical operand that passes `check` (`Valid`) in any ring `ConstDivisor::new` builds,
    for every word size, the `unwrap` succeeds, no `>>` overflows, no bit is shifted out (the debug assertion holds), the
    `unreachable!()` arm is not reached; the result is canonical, is `target / 2^shift` (what the driver prints for every
    `r.*` operation) and lies in `[0, m)`; `is_zero` decides `residue = 0`.  Composed with `reducer_ubig_link` and `reducer_ops`:
    `residue(add(x, y))`, `residue(dbl(x))`, `residue(sub(x, y))`, `residue(neg(x))` on the representation are
    `(x̄ + ȳ) mod m`, `(x̄ + x̄) mod m`, the `d` with `(d + ȳ) mod m = x̄`, the `d` with `(d + x̄) mod m = 0`. -/
theorem reducer_residue_link (W id m : Nat) (hW : 0 < W) (r : Ring) (hnew : Ring.new W id m = .ok r)
    (a b : TRepr) (ha : a.Canon W) (hb : b.Canon W) (hx : Valid r (a.value W)) (hy : Valid r (b.value W)) :
    (∃ c, rResidueU W r a = .ok c ∧ c.Canon W ∧ c.value W = a.value W / 2 ^ r.k ∧ c.value W < r.m) ∧
    (rIsZeroU a = true ↔ a.value W / 2 ^ r.k = 0) ∧
    (∃ s c, rAddU W r a b = .ok s ∧ rResidueU W r s = .ok c ∧ c.Canon W ∧
      c.value W = (a.value W / 2 ^ r.k + b.value W / 2 ^ r.k) % r.m) ∧
    (∃ s c, rDblU W r a = .ok s ∧ rResidueU W r s = .ok c ∧ c.Canon W ∧
      c.value W = (a.value W / 2 ^ r.k + a.value W / 2 ^ r.k) % r.m) ∧
    (∃ s c, rSubU W r a b = .ok s ∧ rResidueU W r s = .ok c ∧ c.Canon W ∧ c.value W < r.m ∧
      (c.value W + b.value W / 2 ^ r.k) % r.m = a.value W / 2 ^ r.k) ∧
    (∃ s c, rNegU W r a = .ok s ∧ rResidueU W r s = .ok c ∧ c.Canon W ∧ c.value W < r.m ∧
      (c.value W + a.value W / 2 ^ r.k) % r.m = 0) := by
  have hwf := Ring.new_wf hW hnew
  have hkW : r.kind = .large → r.k ≤ W := fun hk => Nat.le_of_lt (Ring.new_large_k hW hnew hk)
  have hp : 0 < 2 ^ r.k := Nat.two_pow_pos _
  have res : ∀ {t : TRepr}, t.Canon W → Valid r (t.value W) →
      ∃ c, rResidueU W r t = .ok c ∧ c.Canon W ∧ c.value W = t.value W / 2 ^ r.k ∧ c.value W < r.m := by
    intro t ht hv
    obtain ⟨c, e1, e2, e3⟩ := rResidueU_spec hwf hkW ht hv
    obtain ⟨u, hu, eu⟩ := hv
    exact ⟨c, e1, e2, e3, by rw [e3, eu, Nat.mul_div_cancel _ hp]; exact hu⟩
  obtain ⟨l1, l2, l3, l4⟩ := reducer_ubig_link W id m hW r hnew a b ha hb hx hy
  obtain ⟨⟨o1, o1'⟩, ⟨o2, o2'⟩, ⟨o3, o3'⟩⟩ := Dashu.Props.C13.reducer_ops W r hwf _ _ hx hy
  obtain ⟨⟨o4, o4'⟩, _, _⟩ := Dashu.Props.C13.reducer_ops W r hwf _ _ hx hx
  refine ⟨res ha hx, ?_, ?_, ?_, ?_, ?_⟩
  · obtain ⟨u, hu, eu⟩ := hx
    rw [eu, Nat.mul_div_cancel _ hp]
    unfold rIsZeroU
    cases a with
    | small d =>
      simp only [TRepr.value] at eu
      cases d with
      | zero =>
        have : u = 0 := by
          rcases Nat.mul_eq_zero.mp eu.symm with h | h
          · exact h
          · omega
        simp [TRepr.isZero, this]
      | succ n =>
        have : u ≠ 0 := by intro h; rw [h, Nat.zero_mul] at eu; omega
        simp [TRepr.isZero, this]
    | large ws =>
      have hge := ha.large_ge
      simp only [TRepr.value] at eu
      have : u ≠ 0 := by
        intro h; rw [h, Nat.zero_mul] at eu
        have : 0 < 2 ^ (2 * W) := Nat.two_pow_pos _
        omega
      simp [TRepr.isZero, this]
  · obtain ⟨s, e1, e2, e3⟩ := l1
    obtain ⟨c, f1, f2, f3, _⟩ := res e2 (by rw [e3]; exact o1)
    exact ⟨s, c, e1, f1, f2, by rw [f3, e3, o1']⟩
  · obtain ⟨s, e1, e2, e3⟩ := l2
    obtain ⟨c, f1, f2, f3, _⟩ := res e2 (by rw [e3]; exact o4)
    exact ⟨s, c, e1, f1, f2, by rw [f3, e3, o4']⟩
  · obtain ⟨s, e1, e2, e3⟩ := l3
    obtain ⟨c, f1, f2, f3, f4⟩ := res e2 (by rw [e3]; exact o2)
    exact ⟨s, c, e1, f1, f2, f4, by rw [f3, e3, o2']⟩
  · obtain ⟨s, e1, e2, e3⟩ := l4
    obtain ⟨c, f1, f2, f3, f4⟩ := res e2 (by rw [e3]; exact o3)
    exact ⟨s, c, e1, f1, f2, f4, by rw [f3, e3, o3']⟩

/-- non-vacuity (W = 64): a 3-word ring with shift 3 — the residue of a heap operand (`shr_in_place` by 3 bits, nothing shifted
    out, `from_buffer`), of an inline operand (`dw >> 3`), of a heap operand whose quotient becomes inline (pop_zeros to two
    words); a single-word ring with shift 44 (`shrink_dword(..).unwrap() >> 44`) and a double-word ring with shift 0;
    `residue(add(..))` of a wrapping sum; `is_zero` -/
example : (∃ r, Ring.new 64 0 (2 ^ 188 + 12345) = .ok r ∧ r.kind = .large ∧ r.k = 3 ∧
      (ofNat 64 ((2 ^ 188 + 12000) * 2 ^ 3)).Canon 64 ∧ Valid r ((ofNat 64 ((2 ^ 188 + 12000) * 2 ^ 3)).value 64) ∧
      rResidueU 64 r (ofNat 64 ((2 ^ 188 + 12000) * 2 ^ 3)) = .ok (ofNat 64 (2 ^ 188 + 12000)) ∧
      rResidueU 64 r (ofNat 64 (500 * 2 ^ 3)) = .ok (.small 500) ∧
      rResidueU 64 r (ofNat 64 ((2 ^ 127 + 5) * 2 ^ 3)) = .ok (.small (2 ^ 127 + 5)) ∧
      ((rAddU 64 r (ofNat 64 ((2 ^ 188 + 12000) * 2 ^ 3)) (ofNat 64 (500 * 2 ^ 3))).bind (rResidueU 64 r)) = .ok (.small 155) ∧
      rIsZeroU (ofNat 64 (500 * 2 ^ 3)) = false ∧ rIsZeroU (ofNat 64 0) = true) ∧
    (∃ r, Ring.new 64 0 1000003 = .ok r ∧ r.kind = .single ∧ r.k = 44 ∧
      rResidueU 64 r (ofNat 64 (1000002 * 2 ^ 44)) = .ok (.small 1000002)) ∧
    (∃ r, Ring.new 64 0 (2 ^ 128 - 159) = .ok r ∧ r.kind = .double ∧ r.k = 0 ∧
      rResidueU 64 r (ofNat 64 (2 ^ 128 - 160)) = .ok (.small (2 ^ 128 - 160))) :=
  ⟨⟨_, rfl, rfl, by decide, by decide +kernel, by decide +kernel, by decide +kernel, by decide +kernel, by decide +kernel,
      by decide +kernel, by decide +kernel, by decide +kernel⟩,
   ⟨_, rfl, rfl, by decide, by decide +kernel⟩, ⟨_, rfl, rfl, by decide, by decide +kernel⟩⟩

/-- the error arms are real: an operand that does NOT pass `check` (low shift bit set) trips the debug assertion; a heap operand
    in a single-word ring reaches `unreachable!()`; a two-word inline operand in a single-word ring fails the `unwrap` -/
example : (∃ r, Ring.new 64 0 (2 ^ 188 + 12345) = .ok r ∧
      rResidueU 64 r (ofNat 64 ((2 ^ 188 + 12000) * 2 ^ 3 + 1)) = .error (.undocumented "reducer.rs: debug_assert_zero!(shr_in_place)")) ∧
    (∃ r, Ring.new 64 0 1000003 = .ok r ∧
      rResidueU 64 r (ofNat 64 (2 ^ 130)) = .error (.undocumented "reducer.rs: unreachable!()") ∧
      rResidueU 64 r (ofNat 64 (2 ^ 64)) = .error (.undocumented "reducer.rs: shrink_dword(dw).unwrap() on None")) :=
  ⟨⟨_, rfl, by decide +kernel⟩, ⟨_, rfl, by decide +kernel, by decide +kernel⟩⟩

end Dashu.Props.C13Reducer
