import Dashu.Proofs.NT.ModReducerU
/-
  C13 (round 7) — `impl Reducer<UBig> for ConstDivisor` (`integer/src/modular/reducer.rs`) on C01's mirrored `UBig`
  representation: link theorem to C01's kernels (`TRepr.add_spec`, `TRepr.sub_ok`, `TRepr.shl_spec`, `TRepr.cmp_spec`, imported).
-/
namespace Dashu.Props.C13Reducer
open Dashu.Model Dashu.Model.NT

/-- **`Reducer<UBig>::add / dbl / sub / neg` through C01's mirrored `UBig` operators** (`reducer.rs`: `reduce_once(lhs + rhs)`,
    `reduce_once(target << 1)`, `lhs - rhs` / `reduce_negate(rhs - lhs)`, `reduce_negate(target)`; `check` on the
    representation with its `(Large, RefSmall) => true` and `cmp_in_place(..).is_lt() && words[0] & ones_word(shift) == 0`
    arms; the multi-word arms calling `sub_large`, `sub_large_dword`, `sub_large_ref_val`): on canonical operands that pass
    `check` (`Valid`) in any ring `ConstDivisor::new` builds, for every word size, NO `UBig` subtraction panics
    (`NegativeUBig` is an error value of `TRepr.sub`), every result is canonical, and its value is the `rAdd / rSub / rNeg`
    of `Props.C13.reducer_ops` (which the driver executes).  Removes "Reducer<UBig>'s add/sub/neg appear at their value". -/
theorem reducer_ubig_link (W id m : Nat) (hW : 0 < W) (r : Ring) (hnew : Ring.new W id m = .ok r)
    (a b : TRepr) (ha : a.Canon W) (hb : b.Canon W) (hx : Valid r (a.value W)) (hy : Valid r (b.value W)) :
    (∃ c, rAddU W r a b = .ok c ∧ c.Canon W ∧ c.value W = rAdd r (a.value W) (b.value W)) ∧
    (∃ c, rDblU W r a = .ok c ∧ c.Canon W ∧ c.value W = rAdd r (a.value W) (a.value W)) ∧
    (∃ c, rSubU W r a b = .ok c ∧ c.Canon W ∧ c.value W = rSub r (a.value W) (b.value W)) ∧
    (∃ c, rNegU W r a = .ok c ∧ c.Canon W ∧ c.value W = rNeg r (a.value W)) := by
  have hwf := Ring.new_wf hW hnew
  have hkW : r.kind = .large → r.k ≤ W := fun hk => Nat.le_of_lt (Ring.new_large_k hW hnew hk)
  have hW1 : 1 ≤ W := hW
  have hp : 0 < 2 ^ r.k := Nat.two_pow_pos _
  obtain ⟨u, hu, eu⟩ := hx
  obtain ⟨v, hv, ev⟩ := hy
  have hM : r.M = r.m * 2 ^ r.k := rfl
  have hxlt : a.value W < r.M := by rw [eu, hM]; exact Nat.mul_lt_mul_of_pos_right hu hp
  have hylt : b.value W < r.M := by rw [ev, hM]; exact Nat.mul_lt_mul_of_pos_right hv hp
  have hx0 : a.value W % 2 ^ r.k = 0 := by rw [eu]; exact Nat.mul_mod_left _ _
  have hy0 : b.value W % 2 ^ r.k = 0 := by rw [ev]; exact Nat.mul_mod_left _ _
  refine ⟨?_, ?_, ?_, ?_⟩
  · obtain ⟨sv, sc⟩ := TRepr.add_spec W hW1 a b 0 ha hb
    obtain ⟨c, e1, e2, e3⟩ := reduceOnceU_spec hwf hkW sc
      (by rw [sv, eu, ev, ← Nat.add_mul]; exact Nat.mul_mod_left _ _) (by rw [sv]; omega)
    rw [sv] at e3
    exact ⟨c, e1, e2, e3⟩
  · obtain ⟨sv, sc⟩ := TRepr.shl_spec W hW1 a 1 ha
    have sv' : (a.shl W 1).value W = a.value W + a.value W := by rw [sv]; omega
    obtain ⟨c, e1, e2, e3⟩ := reduceOnceU_spec hwf hkW sc
      (by rw [sv', eu, ← Nat.add_mul]; exact Nat.mul_mod_left _ _) (by rw [sv']; omega)
    rw [sv'] at e3
    exact ⟨c, e1, e2, e3⟩
  · unfold rSubU rSub
    rw [TRepr.cmp_spec W a b ha hb]
    by_cases h : b.value W ≤ a.value W
    · have hc : compare (a.value W) (b.value W) ≠ .lt := fun c => by
        have := compare_lt_iff_lt.mp c; omega
      rw [if_pos (by simp [hc]), if_pos h]
      obtain ⟨c, e1, e2, e3⟩ := TRepr.sub_ok W a b false ha hb h
      exact ⟨c, e1, e3, by omega⟩
    · have hc : compare (a.value W) (b.value W) = .lt := compare_lt_iff_lt.mpr (by omega)
      rw [if_neg (by simp [hc]), if_neg h]
      obtain ⟨d, e1, e2, e3⟩ := TRepr.sub_ok W b a false hb ha (by omega)
      rw [e1]
      obtain ⟨c, f1, f2, f3⟩ := reduceNegateU_spec hwf e3 (by omega)
      exact ⟨c, f1, f2, by rw [f3]; congr 1; omega⟩
  · unfold rNegU rNeg
    by_cases hz : a.value W = 0
    · have ea : a = .small 0 := by
        cases a with
        | small d => simp only [TRepr.value] at hz; rw [hz]
        | large ws =>
          have := ha.large_ge
          simp only [TRepr.value] at hz
          have : 0 < 2 ^ (2 * W) := Nat.two_pow_pos _
          omega
      subst ea
      exact ⟨.small 0, rfl, ha, rfl⟩
    · have hnz : a.isZero = false := by
        cases a with
        | small d =>
          cases d with
          | zero => exact absurd rfl hz
          | succ n => rfl
        | large ws => rfl
      rw [hnz, if_neg hz]
      obtain ⟨c, f1, f2, f3⟩ := reduceNegateU_spec hwf ha (Nat.le_of_lt hxlt)
      exact ⟨c, f1, f2, f3⟩

/-- non-vacuity (W = 64): a 3-word ring with shift 3 — a sum of two 3-word residues that wraps (`sub_large`, result inline), a
    difference `small − large` (`rhs - lhs` then `sub_large_ref_val`), the negation of an inline residue (`sub_large_dword`)
    and of a heap residue, a doubling that wraps; the operands are canonical and pass `check` -/
example : ∃ r, Ring.new 64 0 (2 ^ 188 + 12345) = .ok r ∧ r.kind = .large ∧ r.k = 3 ∧
    (ofNat 64 ((2 ^ 188 + 12000) * 2 ^ 3)).Canon 64 ∧ Valid r ((ofNat 64 ((2 ^ 188 + 12000) * 2 ^ 3)).value 64) ∧
    (ofNat 64 (500 * 2 ^ 3)).Canon 64 ∧ Valid r ((ofNat 64 (500 * 2 ^ 3)).value 64) ∧
    (rAddU 64 r (ofNat 64 ((2 ^ 188 + 12000) * 2 ^ 3)) (ofNat 64 (500 * 2 ^ 3))).map (·.value 64) = .ok (155 * 2 ^ 3) ∧
    (rSubU 64 r (ofNat 64 (500 * 2 ^ 3)) (ofNat 64 ((2 ^ 188 + 12000) * 2 ^ 3))).map (·.value 64) = .ok (845 * 2 ^ 3) ∧
    (rNegU 64 r (ofNat 64 (500 * 2 ^ 3))).map (·.value 64) = .ok ((2 ^ 188 + 11845) * 2 ^ 3) ∧
    (rNegU 64 r (ofNat 64 ((2 ^ 188 + 12000) * 2 ^ 3))).map (·.value 64) = .ok (345 * 2 ^ 3) ∧
    (rDblU 64 r (ofNat 64 ((2 ^ 188 + 12000) * 2 ^ 3))).map (·.value 64) = .ok ((2 ^ 188 + 11655) * 2 ^ 3) :=
  ⟨_, rfl, rfl, by decide, by decide +kernel, by decide +kernel, by decide +kernel, by decide +kernel, by decide +kernel,
    by decide +kernel, by decide +kernel, by decide +kernel, by decide +kernel⟩

/-- non-vacuity: a double-word ring without shift whose sums need three words (`(Double, RefLarge) => false`, then
    `UBig - DoubleWord` on a heap value), and a single-word ring with shift -/
example : (∃ r, Ring.new 64 0 (2 ^ 128 - 159) = .ok r ∧ r.kind = .double ∧ r.k = 0 ∧
      (rAddU 64 r (ofNat 64 (2 ^ 128 - 160)) (ofNat 64 (2 ^ 128 - 161))).map (·.value 64) = .ok (2 ^ 128 - 162) ∧
      (rSubU 64 r (ofNat 64 5) (ofNat 64 (2 ^ 128 - 161))).map (·.value 64) = .ok 7) ∧
    (∃ r, Ring.new 64 0 1000003 = .ok r ∧ r.kind = .single ∧ r.k = 44 ∧
      (rAddU 64 r (ofNat 64 (1000002 * 2 ^ 44)) (ofNat 64 (2 * 2 ^ 44))).map (·.value 64) = .ok (1 * 2 ^ 44) ∧
      (rNegU 64 r (ofNat 64 0)).map (·.value 64) = .ok 0) :=
  ⟨⟨_, rfl, rfl, by decide, by decide +kernel, by decide +kernel⟩, ⟨_, rfl, rfl, by decide, by decide +kernel, by decide +kernel⟩⟩

end Dashu.Props.C13Reducer
