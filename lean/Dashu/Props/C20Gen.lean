import Dashu.Proofs.Macro.Words
import Dashu.Gen.MacroGen
/-
  C20 — Tie A: the decision logic of the code generators of the literal macros as REGENERATED from
  /repo/macros/src/parse/{common,int,float,ratio}.rs (`Gen/MacroGen.lean`, vlib/extract_macro.py)
  against the hand model the driver executes.  `quoteWords` and `intPath` CALL the regenerated
  `quote_words_max_len` / `int_const_guard`; the rest is proved equal here.  A change of one of those
  source lines changes the generated text and breaks a theorem of this file (or of Props/C20).
-/
namespace Dashu.Props.C20Gen
open Dashu.Model.Serde Dashu.Model.Macro Dashu.Gen.Macro
open Dashu.Model.Text (bitLen)

-- ====================================================================== static word arrays

/-- the regenerated `DataSelector` table: one selector per converter, each with its own integer type,
    its own converter for `LEN` and for `DATA`, and the element width = 8 · `INT_SIZE` -/
theorem selector_table_regenerated :
    selectors.map (·.1) = [16, 32, 64] ∧ converters = [16, 32, 64] ∧ quote_words_converters = converters ∧
    (∀ r ∈ selectors, r.2.1 = r.1 ∧ r.2.2.1 = r.1 ∧ r.2.2.2.1 = r.1 ∧ r.2.2.2.2 = r.1 ∧
      8 * converter_int_size r.1 = r.1) ∧ select_key = "Word::BITS" := by
  refine ⟨by decide, by decide, by decide, by decide, by decide⟩

/-- the selection read off the regenerated table is the hand model's selector of `W / 8` bytes -/
theorem staticSelect_eq (bs : Bytes) :
    staticSelect 16 bs = staticValue 2 bs ∧ staticSelect 32 bs = staticValue 4 bs ∧
    staticSelect 64 bs = staticValue 8 bs := by
  refine ⟨?_, ?_, ?_⟩ <;>
  · unfold staticSelect staticValue quoteWords
    simp [selectors, converter_int_size, List.find?]

/-- **static path, from the regenerated table**: for every word size the macro supports, the slice
    `DATA_COPY[..Select::LEN]` that `quote_words` hands to `from_static_words` passes its normalisation
    assertion and denotes exactly `n` — `LEN`, `DATA`, the padding length and `INT_SIZE` being those of
    the source text -/
theorem static_select_value (W : Nat) (hW : W = 16 ∨ W = 32 ∨ W = 64) (n : Nat) :
    staticSelect W (leBytes n) = some n := by
  obtain ⟨h16, h32, h64⟩ := staticSelect_eq (leBytes n)
  rcases hW with h | h | h <;> subst h
  · rw [h16]; exact staticValue_leBytes 2 (by omega) n
  · rw [h32]; exact staticValue_leBytes 4 (by omega) n
  · rw [h64]; exact staticValue_leBytes 8 (by omega) n

example : staticSelect 64 (leBytes (2 ^ 64 + 5)) = some (2 ^ 64 + 5) ∧ staticSelect 16 (leBytes 70000) = some 70000 ∧
    staticSelect 8 (leBytes 5) = none := by
  refine ⟨static_select_value 64 (by simp) _, static_select_value 16 (by simp) _, ?_⟩
  unfold staticSelect; simp [selectors, List.find?]

/-- the common array length (`max_len`, regenerated) is enough for every selector: `LEN ≤ max_len` -/
theorem max_len_sufficient (bs : Bytes) :
    ∀ r ∈ selectors, (bytesToWords (converter_int_size r.1) bs).length ≤ quote_words_max_len bs.length := by
  intro r hr
  have h2 := (quoteWords_length 2 (by omega) bs).2
  have h4 := (quoteWords_length 4 (by omega) bs).2
  have h8 := (quoteWords_length 8 (by omega) bs).2
  simp only [selectors, List.mem_cons, List.mem_nil_iff, or_false] at hr
  unfold quoteWords at h2 h4 h8
  rcases hr with h | h | h <;> subst h <;> simp only [converter_int_size, quote_words_max_len] <;> assumption

-- ====================================================================== const-path guards

/-- integers: the model's path choice is the regenerated guard; behind it the `match (signed, static_)`
    table sends the static variants to the word arrays and the others to `quote_ubig` / `quote_ibig` -/
theorem int_path_regenerated (static_ : Bool) (m : Nat) :
    (intPath static_ m = .const ↔ int_const_guard (bitLen m) static_ = true) ∧
    (intPath static_ m = .static ↔ (int_const_guard (bitLen m) static_ = false ∧ static_ = true)) ∧
    (∀ g ∈ int_generators, (g.2.1 = true ↔ g.2.2 = "static") ∧ (g.2.1 = false → g.1 = false → g.2.2 = "bytes") ∧
      (g.2.1 = false → g.1 = true → g.2.2 = "bytes_signed")) := by
  refine ⟨?_, ?_, by decide⟩
  · unfold intPath
    cases h : int_const_guard (bitLen m) static_ <;> cases static_ <;> simp
  · unfold intPath
    cases h : int_const_guard (bitLen m) static_ <;> cases static_ <;> simp

/-- the const arm's `let u: u32 = big.try_into().unwrap()` never panics, and the `debug_assert!` of
    `quote_ubig` / `quote_ibig` never fires on the heap path `parse_integer` takes -/
theorem int_const_conversion_total (m : Nat) :
    (int_const_guard (bitLen m) false = true → m < 2 ^ int_const_bits) ∧
    (intPath false m = .bytes → quote_ubig_assert (bitLen m) = true ∧ quote_ibig_assert (bitLen m) = true) := by
  constructor
  · intro h
    simp only [int_const_guard, Bool.not_false, Bool.and_true, decide_eq_true_eq] at h
    exact bitLen_le_lt m 32 h
  · intro h
    unfold intPath int_const_guard at h
    simp only [quote_ubig_assert, quote_ibig_assert, decide_eq_true_eq]
    by_cases hb : bitLen m ≤ 32
    · simp [hb] at h
    · omega

/-- floats: the model's path choice is the regenerated guard of both float macros, the const arm's
    `u32` conversion never panics, and the precision each constructor receives is the model's
    (`floatExpansionAsIs`): `Some(#prec)` on the const path (dropped by `from_parts_const` for a zero
    significand), none on the static path (`from_repr_const`), `Context::new(#prec)` on the heap path -/
theorem float_path_regenerated (static_ neg : Bool) (mag : Nat) (e : Int) (prec : Nat) :
    (floatPath static_ mag = .const ↔ fbig_const_guard (bitLen mag) = true) ∧
    (floatPath static_ mag = .const ↔ dbig_const_guard (bitLen mag) = true) ∧
    (fbig_const_guard (bitLen mag) = true → mag < 2 ^ fbig_const_bits ∧ mag < 2 ^ dbig_const_bits) ∧
    (floatExpansionAsIs static_ neg mag e prec).1 = floatPath static_ mag ∧
    (floatExpansionAsIs static_ neg mag e prec).2.prec =
      (match floatPath static_ mag with
        | .const => if mag = 0 then 0 else (fbig_const_precision prec).getD 0
        | .static => (fbig_static_precision prec).getD 0
        | .bytes => (fbig_heap_precision prec).getD 0) ∧
    fbig_const_precision prec = dbig_const_precision prec ∧ fbig_static_precision prec = dbig_static_precision prec ∧
    fbig_heap_precision prec = dbig_heap_precision prec := by
  refine ⟨?_, ?_, ?_, ?_, ?_, rfl, rfl, rfl⟩
  · unfold floatPath fbig_const_guard
    by_cases hb : bitLen mag ≤ 32 <;> cases static_ <;> simp [hb]
  · unfold floatPath dbig_const_guard
    by_cases hb : bitLen mag ≤ 32 <;> cases static_ <;> simp [hb]
  · intro h
    simp only [fbig_const_guard, decide_eq_true_eq] at h
    exact ⟨bitLen_le_lt mag 32 h, bitLen_le_lt mag 32 h⟩
  · unfold floatExpansionAsIs floatPath
    by_cases hb : bitLen mag ≤ 32 <;> cases static_ <;> simp [hb]
  · unfold floatExpansionAsIs floatPath fbig_const_precision fbig_static_precision fbig_heap_precision
    by_cases hb : bitLen mag ≤ 32
    · simp only [hb, if_true]
      by_cases h0 : mag = 0 <;> simp [h0]
    · cases static_ <;> simp [hb]

/-- rationals: `const` exactly under the regenerated guard; on the run-time path a part goes to
    `quote_ibig` / `quote_ubig` only when their `debug_assert!` holds, and to the `u32` constructor
    (`try_into().unwrap()`) only when it fits -/
theorem ratio_path_regenerated (q : QVal) :
    (ratPathName false q = "const" ↔ ratio_const_guard (bitLen q.num.natAbs) (bitLen q.den) = true) ∧
    (∀ b, ratio_num_const_guard b = false → quote_ibig_assert b = true) ∧
    (∀ b, ratio_den_const_guard b = false → quote_ubig_assert b = true) ∧
    (∀ a b, ratio_const_guard a b = true → ratio_num_const_guard a = true ∧ ratio_den_const_guard b = true) ∧
    (∀ m, ratio_num_const_guard (bitLen m) = true → m < 2 ^ 32) ∧ (∀ m, ratio_den_const_guard (bitLen m) = true → m < 2 ^ 32) := by
  refine ⟨?_, ?_, ?_, ?_, ?_, ?_⟩
  · unfold ratPathName ratio_const_guard
    by_cases h1 : bitLen q.num.natAbs ≤ 32 <;> by_cases h2 : bitLen q.den ≤ 32 <;> simp [h1, h2]
  · intro b h
    simp only [ratio_num_const_guard, decide_eq_false_iff_not] at h
    simp only [quote_ibig_assert, decide_eq_true_eq]; omega
  · intro b h
    simp only [ratio_den_const_guard, decide_eq_false_iff_not] at h
    simp only [quote_ubig_assert, decide_eq_true_eq]; omega
  · intro a b h
    simp only [ratio_const_guard, Bool.and_eq_true, decide_eq_true_eq] at h
    simp only [ratio_num_const_guard, ratio_den_const_guard, decide_eq_true_eq]
    exact h
  · intro m h
    simp only [ratio_num_const_guard, decide_eq_true_eq] at h
    exact bitLen_le_lt m 32 h
  · intro m h
    simp only [ratio_den_const_guard, decide_eq_true_eq] at h
    exact bitLen_le_lt m 32 h

-- ====================================================================== round 6: the text handling in front of the float parser

theorem strip_prefix_cons (c x : Nat) (r : Bytes) :
    strip_prefix c (x :: r) = if x = c then some r else none := rfl

/-- the regenerated statements in front of the parser call of `parse_binary_float` compute what the hand
    model's `stripSign` / `stripUs` / `fbigSecondSign` compute, for every text -/
theorem fbig_prelude_eq (s : Bytes) :
    fbig_prelude s =
      (let u := stripUs (stripSign s).2
       if u.head? == some 45 || u.head? == some 43 then none else some ((stripSign s).1, u)) := by
  have key : ∀ t : Bytes, (strip_prefix 95 t).getD t = stripUs t := by
    intro t
    match t with
    | [] => rfl
    | x :: r =>
      by_cases h : x = 95
      · subst h; rfl
      · simp only [strip_prefix_cons, h, if_false, Option.getD_none]
        unfold stripUs
        split
        · rename_i heq; simp only [List.cons.injEq] at heq; exact absurd heq.1 h
        · rfl
  have sw : ∀ (c : Nat) (t : Bytes), starts_with c t = (t.head? == some c) := by
    intro c t
    match t with
    | [] => simp [starts_with, strip_prefix]
    | x :: r =>
      simp only [starts_with, strip_prefix_cons, List.head?_cons]
      by_cases h : x = c <;> simp [h]
  have ss : ∀ (x : Nat) (r : Bytes), x ≠ 45 → x ≠ 43 → stripSign (x :: r) = (false, x :: r) := by
    intro x r h1 h2
    unfold stripSign
    split
    · rename_i heq; simp only [List.cons.injEq] at heq; exact absurd heq.1 h1
    · rename_i heq; simp only [List.cons.injEq] at heq; exact absurd heq.1 h2
    · rfl
  unfold fbig_prelude
  match s with
  | [] => rfl
  | x :: r =>
    by_cases h1 : x = 45
    · subst h1
      simp only [key, sw]
      simp only [strip_prefix_cons, if_true]; rfl
    · by_cases h2 : x = 43
      · subst h2
        simp only [key, sw]
        simp only [strip_prefix_cons, h1, if_false, if_true, Option.getD_some]; rfl
      · simp only [key, sw]
        simp only [strip_prefix_cons, h1, h2, if_false, Option.getD_none, ss x r h1 h2]

/-- Tie A for `parse_binary_float`'s text handling: the hand model `fbigNew` (which the driver runs and the
    value theorems `fbig_strip_is_runtime_parse`, `fbig_hex_literal_value` of Props/C20 are about) is the
    REGENERATED prelude (`strip_prefix('-')` / `strip_prefix('+')` / `strip_prefix('_')` / second-sign refusal)
    followed by the parser of the regenerated base and the regenerated `assert!(signif.is_positive())`, for
    every token list -/
theorem fbig_prelude_regenerated (toks : List Tok) :
    fbigNew toks =
      (fbig_prelude (concatToks toks)).bind fun p =>
        match floatParse fbig_parser_base p.2 with
        | none => none
        | some (v, nd) =>
          if fbig_asserts_positive && decide (v.signif < 0) then none
          else some (p.1, v.signif.natAbs, v.exp, nd) := by
  rw [fbig_prelude_eq]
  unfold fbigNew fbigSecondSign fbigAsIs
  by_cases h : ((stripUs (stripSign (concatToks toks)).2).head? == some 45 ||
      (stripUs (stripSign (concatToks toks)).2).head? == some 43) = true
  · simp only [h, if_true, Option.bind_none]
  · simp only [h, Bool.false_eq_true, if_false, Option.bind_some, fbig_parser_base, fbig_asserts_positive,
      Bool.true_and, decide_eq_true_eq]
    cases hp : floatParse 2 (stripUs (stripSign (concatToks toks)).2) with
    | none => rfl
    | some q => rfl

/-- the same for `parse_decimal_float`: no statement between the concatenation and `DBig::from_str`, base 10,
    sign and magnitude from `signif.into_parts()`, no assert -/
theorem dbig_prelude_regenerated (toks : List Tok) :
    dbigAsIs toks =
      (dbig_prelude (concatToks toks)).bind fun p =>
        match floatParse dbig_parser_base p.2 with
        | none => none
        | some (v, nd) =>
          if dbig_asserts_positive && decide (v.signif < 0) then none
          else some (decide (v.signif < 0), v.signif.natAbs, v.exp, nd) := by
  unfold dbigAsIs dbig_prelude
  simp only [Option.bind_some, dbig_parser_base, dbig_asserts_positive, Bool.false_and, Bool.false_eq_true, if_false]
  cases floatParse 10 (concatToks toks) with
  | none => rfl
  | some q => rfl

/-- non-vacuity: `-_0xae.1f`, `_+1` (refused), `+_1` through the regenerated prelude -/
example : fbig_prelude [45, 95, 48, 120, 97] = some (true, [48, 120, 97]) ∧ fbig_prelude [95, 43, 49] = none ∧
    fbig_prelude [43, 95, 49] = some (false, [49]) ∧ fbig_prelude [45, 45, 49] = none ∧
    fbig_prelude [95, 95, 49] = some (false, [95, 49]) := by decide

-- ====================================================================== round 6: quote_sign

/-- `quote_sign` regenerated: for each `embedded` flag and each sign exactly one arm, and it writes the sign it was
    given (`Sign::Negative` for a negative literal) in the namespace of the flag (`::dashu_base` / `::dashu::base`) —
    what the harness interpreter of the expansion reads and what the sign of every ibig!/rbig!/fbig!/dbig! value rests on -/
theorem quote_sign_regenerated (embedded neg : Bool) :
    quote_sign_arms.filterMap (fun r => if r.1 = embedded ∧ r.2.1 = neg then some r.2.2 else none) =
      [(if embedded then "::dashu::base" else "::dashu_base") ++ "::Sign::" ++ (if neg then "Negative" else "Positive")] := by
  cases embedded <;> cases neg <;> decide

end Dashu.Props.C20Gen
