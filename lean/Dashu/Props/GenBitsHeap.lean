import Dashu.Gen.BitsHeap
import Dashu.Props.GenShiftHeap
/-
  C09, Tie A: the heap arms of `set_bit` and `clear_high_bits` (`integer/src/bits.rs`, `mod repr`) as REGENERATED text
  (`Dashu/Gen/BitsHeap.lean`) are EQUAL to the arms of the hand model the C09 driver executes (`TRepr.setBit`,
  `clearHighBitsLarge` of `Model/Int/Bits.lean`), for every operand and every bit index whose word arithmetic fits `usize`.
-/
namespace Dashu.Props.GenBitsHeap
open Dashu.Model Dashu Dashu.GluePrelude Dashu.Gen.ShiftHeap Dashu.Gen.BitsHeap

theorem one_shl (W n : Nat) (hW : 1 ≤ W) : MachInt.shl W 1 (n % W) = some (2 ^ (n % W)) := by
  have hm : n % W < W := Nat.mod_lt n (by omega)
  have hp : (2 : Nat) ^ (n % W) < 2 ^ W := Nat.pow_lt_pow_right (by decide) hm
  simp [MachInt.shl, hm, Nat.mod_eq_of_lt hp]

/-- **`with_bit_dword_spilled`** = the spilled arm of `TRepr.setBit` on an inline value (`n ≥ DWORD_BITS`) -/
theorem gen_with_bit_dword_spilled (W U d n : Nat) (hW : 1 ≤ W) (hn : 2 * W ≤ n) (hU : n / W + 1 < 2 ^ U) :
    with_bit_dword_spilled W U d n = some (TRepr.setBit W (.small d) n) := by
  have hW0 : W ≠ 0 := by omega
  have h2 : 2 ≤ n / W := (Nat.le_div_iff_mul_le (by omega)).2 hn
  have hlt : ¬ n < 2 * W := by omega
  simp [with_bit_dword_spilled, TRepr.setBit, hlt, MachInt.div, MachInt.rem, MachInt.add, MachInt.sub, MachInt.split_dword, hW0,
    hU, h2, one_shl W n hW, Buffer_allocate, push_zeros, push]

/-- **`with_bit_large`** = the heap arm of `TRepr.setBit` -/
theorem gen_with_bit_large (W U n : Nat) (ws : List Nat) (hW : 1 ≤ W) (hU : n / W + 1 < 2 ^ U) :
    with_bit_large W U ws n = some (TRepr.setBit W (.large ws) n) := by
  have hW0 : W ≠ 0 := by omega
  unfold with_bit_large TRepr.setBit
  simp only [MachInt.div, hW0, if_false, bind, Option.bind, pure]
  by_cases hc : n / W < ws.length
  · simp [hc, MachInt.rem, hW0, one_shl W n hW, or_at]
  · have hle : ws.length ≤ n / W := by omega
    simp [hc, MachInt.rem, MachInt.add, MachInt.sub, hW0, hU, hle, one_shl W n hW, push_zeros, push]

/-- **`clear_high_bits_large`** = `clearHighBitsLarge` -/
theorem gen_clear_high_bits_large (W U n : Nat) (ws : List Nat) (hW : 1 ≤ W) (h32 : W ≤ 2 ^ 32) (hU : n < 2 ^ U) :
    clear_high_bits_large W U ws n = some (clearHighBitsLarge W ws n) := by
  have hW0 : W ≠ 0 := by omega
  have hm : n % W ≤ W := Nat.le_of_lt (Nat.mod_lt n (by omega))
  unfold clear_high_bits_large clearHighBitsLarge
  simp only [Props.GenMath.gen_ceil_div U n W hU (by omega), bind, Option.bind, pure]
  by_cases hc : ceilDiv n W > ws.length
  · simp [hc]
  · by_cases h0 : n % W = 0
    · simp [hc, h0, MachInt.rem, hW0, truncate]
    · have hn0 : n ≠ 0 := by intro h; subst h; simp at h0
      have hpos : 1 ≤ ceilDiv n W := by unfold ceilDiv; rw [if_neg hn0]; exact Nat.le_add_left 1 _
      have hne : ws.take (ceilDiv n W) ≠ [] := by
        intro h
        rw [List.take_eq_nil_iff] at h
        rcases h with h | h
        · omega
        · subst h; simp at hc; omega
      simp [hc, h0, MachInt.rem, MachInt.cast, hW0, truncate, Props.GenShiftHeap.mod_lt_32 W n hW h32,
        (Props.GenMath.gen_ones_word W (n % W) hm).1, and_last, hne]

-- non-vacuity: set_bit(200) on the inline value 5, set_bit inside and beyond a 3-word value, clear_high_bits cutting inside the
-- second word and at a word boundary
example : with_bit_dword_spilled 64 64 5 200 = some (.large [5, 0, 0, 256]) ∧
    with_bit_large 64 64 [1, 2, 3] 70 = some (.large [1, 2 + 64, 3]) ∧
    with_bit_large 64 64 [1, 2, 3] 320 = some (.large [1, 2, 3, 0, 0, 1]) ∧
    clear_high_bits_large 64 64 [2 ^ 64 - 1, 2 ^ 64 - 1, 7] 70 = some (.small (2 ^ 70 - 1)) ∧
    clear_high_bits_large 64 64 [1, 2, 3, 4] 192 = some (.large [1, 2, 3]) ∧
    clear_high_bits_large 64 64 [1, 2, 3] (2 ^ 64 - 1) = some (.large [1, 2, 3]) := by
  refine ⟨by decide, by decide, by decide, by decide, by decide, by decide⟩

/-- **`TypedRepr::clear_bit`, arm `Large(buffer)`** (`buffer[idx] &= !(1 << (n % W))` as a checked access under its
    `idx < len` guard) = the heap arm of the hand model's `TRepr.clearBit` -/
theorem gen_clear_bit_large (W U n : Nat) (ws : List Nat) (hW : 1 ≤ W) :
    clear_bit_large W U ws n = some (TRepr.clearBit W (.large ws) n) := by
  have hW0 : W ≠ 0 := by omega
  unfold clear_bit_large TRepr.clearBit
  simp only [MachInt.div, hW0, if_false, bind, Option.bind, pure]
  by_cases hc : n / W < ws.length
  · simp [hc, MachInt.rem, hW0, one_shl W n hW, and_at, MachInt.not, wnot]
  · simp [hc]

/-- **`TypedRepr::split_bits`, arm `Large(buffer)`**: the `n == 0` exit, and the composition of the regenerated
    `shr_large_ref` (high part) and `clear_high_bits_large` (low part) = the heap arm of `TRepr.splitBits` -/
theorem gen_split_bits_large (W U n : Nat) (ws : List Nat) (hW : 1 ≤ W) (h32 : W ≤ 2 ^ 32) (hU : n < 2 ^ U) :
    split_bits_large W U ws n = some (TRepr.splitBits W (.large ws) n) := by
  unfold split_bits_large TRepr.splitBits
  by_cases h0 : n = 0
  · subst h0; simp
  · have hb : (n == 0) = false := by simp [h0]
    simp [hb, h0, Props.GenShiftHeap.gen_shr_large_ref W U n ws hW h32, gen_clear_high_bits_large W U n ws hW h32 hU]

example : clear_bit_large 64 64 [5, 0, 0, 256] 200 = some (.small 5) ∧ clear_bit_large 64 64 [1, 2, 3] 500 = some (.large [1, 2, 3]) ∧
    split_bits_large 64 64 [1, 2, 3, 4] 130 = some (.large [1, 2, 3], .small (2 ^ 64)) ∧
    split_bits_large 64 64 [1, 2, 3] 0 = some (.small 0, .large [1, 2, 3]) := by
  refine ⟨by decide, by decide, by decide, by decide⟩

-- ---------------------------------------------------------------- round 6: `TypedRepr::set_bit`, inline arm and whole method

/-- **`TypedRepr::set_bit`, arm `Small(dword)`** (the inline test `n < DWORD_BITS_USIZE` — without it `1 << n` overflows — the inline
    `dword | 1 << n`, else the regenerated `with_bit_dword_spilled`) = the inline arm of the hand model's `TRepr.setBit`, every `n` -/
theorem gen_set_bit_small (W U d n : Nat) (hW : 1 ≤ W) (hU : n / W + 1 < 2 ^ U) :
    set_bit_small W U d n = some (TRepr.setBit W (.small d) n) := by
  unfold set_bit_small
  by_cases hn : n < 2 * W
  · have hp : (2 : Nat) ^ n < 2 ^ (2 * W) := Nat.pow_lt_pow_right (by decide) hn
    simp only [hn, decide_true, if_true, MachInt.shl, Nat.one_mul, Nat.mod_eq_of_lt hp, bind, Option.bind, pure, TRepr.setBit]
  · simp only [hn, decide_false, Bool.false_eq_true, if_false, gen_with_bit_dword_spilled W U d n hW (by omega) hU, bind,
      Option.bind, pure]

/-- **`TypedRepr::set_bit`** (the whole method as regenerated) = `TRepr.setBit`, the definition the driver executes for `u.setbit` -/
theorem gen_set_bit (W U n : Nat) (x : TRepr) (hW : 1 ≤ W) (hU : n / W + 1 < 2 ^ U) :
    set_bit W U x n = some (TRepr.setBit W x n) := by
  cases x with
  | small d => exact gen_set_bit_small W U d n hW hU
  | large ws => exact gen_with_bit_large W U n ws hW hU

-- non-vacuity (64-bit words): the last inline position, the first spilled one, a heap operand
example : set_bit 64 64 (.small 5) 127 = some (.small (5 + 2 ^ 127)) ∧ set_bit 64 64 (.small 5) 128 = some (.large [5, 0, 1]) ∧
    set_bit 64 64 (.large [1, 2, 3]) 64 = some (.large [1, 3, 3]) ∧ set_bit 64 64 (.large [1, 2, 3]) 256 = some (.large [1, 2, 3, 0, 1]) := by
  refine ⟨by decide, by decide, by decide, by decide⟩

end Dashu.Props.GenBitsHeap
