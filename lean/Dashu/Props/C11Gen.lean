import Dashu.Gen.TransPrec
import Dashu.Proofs.Trans.Series
/-
  C11 — Tie A for the working precisions: the definitions the mirror (`Model/Trans/{Series,Powi,PowiNeg}.lean`, executed by
  the driver of group `trans`) uses for guard digits, working precisions and the `sub_ulp` exponent are EQUAL to the
  definitions regenerated from the statements of `float/src/exp.rs`, `float/src/log.rs`, `float/src/fbig.rs` on every run
  (`lean/Dashu/Gen/TransPrec.lean`, written by `vlib/extract_transprec.py`).  Every proof is `rfl` (or a rewrite of the
  bit-list length): an edit of one of these formulas in /repo changes the generated text and this module no longer checks.
-/
namespace Dashu.Props.C11Gen
open Dashu.Model.Float Dashu.Model.Trans Dashu.Gen

/-- `series_guard_digits` of `exp_internal` -/
theorem seriesGuardDigits_gen (est : Est) (p : Nat) : seriesGuardDigits est p = TransPrec.exp_series_guard_digits est p := rfl

/-- `pow_guard_digits` of `exp_internal` -/
theorem powGuardDigits_gen (est : Est) (p : Nat) : powGuardDigits est p = TransPrec.exp_pow_guard_digits est p := rfl

/-- `n = 1usize << (self.precision.bit_len() / 2)` -/
theorem expN_gen (p : Nat) : expN p = TransPrec.exp_n p := rfl

/-- the two `work_precision` assignments of the unscaled `exp_m1` branch -/
theorem expWorkPrecNoScaling_gen (est : Est) (p : Nat) (neg : Bool) :
    expWorkPrecNoScaling est p neg =
      if neg then TransPrec.exp_work_precision_1 p (TransPrec.exp_series_guard_digits est p)
      else TransPrec.exp_work_precision_2 p (TransPrec.exp_series_guard_digits est p) := rfl

/-- `work_precision` of the scaled branch of `exp_internal` -/
theorem expWorkPrec_gen (est : Est) (p : Nat) (x : FRepr) :
    expWorkPrec est p x = TransPrec.exp_work_precision_3 p (TransPrec.exp_series_guard_digits est p)
      (TransPrec.exp_pow_guard_digits est p) (TransPrec.exp_n p) (est.intDigits x) := rfl

/-- precision of the powering context of `exp_m1` -/
theorem expm1PowPrec_gen (p : Nat) : expm1PowPrec p = TransPrec.exp_m1_powering_precision p := rfl

/-- working precision of `iacoth` -/
theorem iacothWorkPrec_gen (est : Est) (p : Nat) :
    iacothWorkPrec est p = TransPrec.iacoth_work_precision p (TransPrec.iacoth_guard_digits est p) := rfl

/-- first working precision of `ln_internal` -/
theorem lnWorkPrec_gen (est : Est) (p : Nat) (onePlus : Bool) :
    lnWorkPrec est p onePlus = TransPrec.ln_work_precision p (TransPrec.ln_guard_digits est p) onePlus := rfl

/-- `work_precision += self.precision` -/
theorem lnGrowPrec_gen (w0 p : Nat) : lnGrowPrec w0 p = TransPrec.ln_grow_precision w0 p := rfl

/-- `guard_digits` of `powf` -/
theorem powfGuardDigits_gen (est : Est) (p : Nat) (base exp : FRepr) :
    powfGuardDigits est p base exp = TransPrec.powf_guard_digits est p (est.powfArgDigits base exp) := rfl

/-- working precision of `powi` (non-negative exponent `n ≥ 2`): `self.precision + guard_digits` -/
theorem powiWorkPrec_gen (p n : Nat) (hn : 2 ≤ n) :
    powiWorkPrec p (lowBits n) = p + TransPrec.powi_guard_digits p n := by
  have hb : 1 ≤ bitLen n := by
    unfold bitLen
    split
    · omega
    · omega
  simp only [powiWorkPrec, TransPrec.powi_guard_digits, lowBits, List.length_map, List.length_reverse, List.length_range]
  omega

/-- precision of the reversed context of `powi` with a negative exponent: `self.precision + guard_bits` -/
theorem powiNegPrec_gen (p : Nat) : powiNegPrec p = p + TransPrec.powi_neg_guard_bits p := by
  simp only [powiNegPrec, TransPrec.powi_neg_guard_bits]; omega

/-- `FBig::sub_ulp`: significand 1, exponent as in the source -/
theorem fSubUlp_gen (E : Env) (x : FBigM) : fSubUlp E x = ⟨1, TransPrec.sub_ulp_exponent E.est x⟩ := rfl

end Dashu.Props.C11Gen
