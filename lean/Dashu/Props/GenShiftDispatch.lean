import Dashu.Gen.ShiftDispatch
import Dashu.Props.GenShiftHeap
import Dashu.Props.GenBitsSmall
/-
  C09, Tie A over the DISPATCH of `<<` / `>>` by a `usize` (`integer/src/shift_ops.rs`, `mod repr`): the four
  `impl Shl<usize>|Shr<usize> for TypedRepr|TypedReprRef` regenerated on every run (`Dashu/Gen/ShiftDispatch.lean`: the zero arm of
  `<<`, which function gets the inline double word / the heap words, owned vs borrowed) over the regenerated `shl_dword`,
  `shl_large(_ref)`, `shr_dword`, `shr_large(_ref)`.  Theorems: on canonical operands and counts whose word arithmetic fits `usize`
  every form IS the hand model's `TRepr.shl` / `TRepr.shr` (what the driver executes; `<<` = ·2^n, `>>` = ÷2^n in `Props/C09.lean`).
-/
namespace Dashu.Props.GenShiftDispatch
open Dashu.Model Dashu Dashu.GluePrelude Dashu.Gen.ShiftHeap Dashu.Gen.ShiftDispatch Dashu.Props.GenShiftHeap

/-- **`<<` on TypedRepr (owned, every buffer capacity) and TypedReprRef** = `TRepr.shl` -/
theorem gen_shl_dispatch (W U n cap : Nat) (x : TRepr) (hW : 1 ≤ W) (h32 : W ≤ 2 ^ 32) (hx : x.Canon W)
    (h2W : 2 * W < 2 ^ U) (hU : n / W + (match x with | .small _ => 2 | .large ws => ws.length) + 1 < 2 ^ U) :
    Shl_val W U x n cap = some (TRepr.shl W x n) ∧ Shl_ref W U x n = some (TRepr.shl W x n) := by
  cases x with
  | small d =>
    have hd : d < 2 ^ (2 * W) := hx
    by_cases h0 : d = 0
    · subst h0; simp [Shl_val, Shl_ref, TRepr.shl, pure]
    · have h := gen_shl_dword_repr W U d n hW h32 h0 hd (by simpa using hU) h2W
      have e1 : Shl_val W U (.small d) n cap = shl_dword_repr W U d n := by
        cases d with
        | zero => exact absurd rfl h0
        | succ k => rfl
      have e2 : Shl_ref W U (.small d) n = shl_dword_repr W U d n := by
        cases d with
        | zero => exact absurd rfl h0
        | succ k => rfl
      rw [e1, e2, h]
      simp [TRepr.shl, h0]
  | large ws =>
    have hw : IsWords W ws := hx.large_words
    exact ⟨by simpa [Shl_val, TRepr.shl] using gen_shl_large W U n cap ws hW h32 hw (by simpa using hU),
           by simpa [Shl_ref, TRepr.shl] using gen_shl_large_ref W U n ws hW h32 hw (by simpa using hU)⟩

/-- **`>>` on TypedRepr (owned) and TypedReprRef (borrowed)** = `TRepr.shr` with `byRef = false / true`, EVERY count -/
theorem gen_shr_dispatch (W U n : Nat) (x : TRepr) (hW : 1 ≤ W) (h32 : W ≤ 2 ^ 32) :
    Shr_val W U x n = some (TRepr.shr W x n false) ∧ Shr_ref W U x n = some (TRepr.shr W x n true) := by
  cases x with
  | small d =>
    have h := Props.GenBitsSmall.gen_shr_dword W U d n
    have hv : (shrDword W d n) = .small ((shrDword W d n).value W) := by
      unfold shrDword; split <;> rfl
    constructor
    · simp only [Shr_val, TRepr.shr, h, Option.map_some]; rw [← hv]
    · simp only [Shr_ref, TRepr.shr, h, Option.map_some]; rw [← hv]
  | large ws =>
    exact ⟨by simpa [Shr_val, TRepr.shr] using gen_shr_large W U n ws hW h32,
           by simpa [Shr_ref, TRepr.shr] using gen_shr_large_ref W U n ws hW h32⟩

-- non-vacuity (64-bit words): zero arm, inline, spill, heap operand in both forms, shift beyond the length
example : Shl_val 64 64 (.small 0) 1000 0 = some (.small 0) ∧ Shl_ref 64 64 (.small 3) 10 = some (.small 3072) ∧
    Shl_val 64 64 (.small 3) 127 7 = some (.large [0, 2 ^ 63, 1]) ∧
    Shl_val 64 64 (.large [1, 2, 3]) 64 3 = some (.large [0, 1, 2, 3]) ∧ Shl_ref 64 64 (.large [1, 2, 3]) 64 = some (.large [0, 1, 2, 3]) ∧
    Shr_val 64 64 (.large [1, 2, 3, 4]) 64 = some (.large [2, 3, 4]) ∧ Shr_ref 64 64 (.large [1, 2, 3]) 500 = some (.small 0) ∧
    Shr_ref 64 64 (.small 12) (2 ^ 64 - 1) = some (.small 0) := by
  refine ⟨by decide, by decide, by decide, by decide, by decide, by decide, by decide, by decide⟩

end Dashu.Props.GenShiftDispatch
