import Dashu.Props.C05
import Dashu.Props.C11Series
import Dashu.Proofs.Int.FloatTrans
/-
  C05 ↔ C11 link (round 7).  The clause "cmp of floats produced by exp / ln / powf" had no theorem: these producers are not
  instructions of `float_history`.  C11 mirrors their bodies (`Model/Trans/Series.lean`: `expFull` = `Context::exp / exp_m1`,
  `lnFull` = `Context::ln / ln_1p`, `powfBody` = `Context::powf`, executed by C11's driver against the real code).  Here:
  whatever the series computed, every `.ok` result of these mirrored bodies at a limited precision `p` carries at most
  `p + 1` digits — the hypothesis of `float_cmp` — so the comparison the code runs on any two such results (of any two
  precisions, bases equal) is the order of their exact values.
-/
namespace Dashu.Props.C05
open Dashu.Model Dashu.Model.Float Dashu.Model.Trans

/-- `v` is a result at precision `p` of one of the mirrored transcendental producers (some operand(s), some fuel) -/
def TransResult (E : Env) (p : Nat) (v : FBigM) : Prop :=
  ∃ (fuel : Nat) (x y : Float.FRepr) (b : Bool) (fl : Option Rounding) (tr : Trace),
    expFull fuel E p x b = .ok ((v, fl), tr) ∨ lnFull fuel E p x b = .ok ((v, fl), tr) ∨
    powfBody fuel E p x y = .ok ((v, fl), tr)

/-- **results of `exp`, `exp_m1`, `ln`, `ln_1p`, `powf` fit `precision + 1` digits** (any base ≥ 2, rounding mode, coarse
    test, digit estimators, operands of any length, any number of series terms; `p ≥ 1` = the entry guard of the real
    functions, which panic at unlimited precision): the last step of every path is a `with_precision(p)` of a value of strictly
    higher (or unlimited) precision — the working precisions are `> p` and never decrease along the series loops — or the
    final `powi` at `p`, or an exact shortcut (`exp 0`, `ln 1`) -/
theorem float_transcendental_results_fit (fuel : Nat) (E : Env) (hB : 2 ≤ E.B) (p : Nat) (hp : 1 ≤ p) (x y : Float.FRepr) (b : Bool)
    (v : FBigM) (fl : Option Rounding) (tr : Trace) :
    (expFull fuel E p x b = .ok ((v, fl), tr) → FitsP1 E.B p v.repr) ∧
    (lnFull fuel E p x b = .ok ((v, fl), tr) → FitsP1 E.B p v.repr) ∧
    (powfBody fuel E p x y = .ok ((v, fl), tr) → FitsP1 E.B p v.repr) :=
  ⟨expFull_fits fuel E hB p hp x b v fl tr, lnFull_fits fuel E hB p hp x b v fl tr, powfBody_fits fuel E hB p hp x y v fl tr⟩

/-- **C05 for the transcendental producers**: the comparison the code runs (`repr_cmp_same_base` with the precision and
    digit shortcuts, any sound digit estimator) on ANY two results of `exp / exp_m1 / ln / ln_1p / powf` — of any operands,
    at any two limited precisions `pa`, `pb ≤ isize::MAX`, with any rounding modes / estimators (`Ea`, `Eb` of the same base) —
    is the order of their exact values. -/
theorem float_cmp_of_transcendental_results (Ea Eb : Env) (hB : 2 ≤ Ea.B) (hbase : Eb.B = Ea.B)
    (digitsUb : Int → Nat) (hub : ∀ s : Int, s.natAbs < Ea.B ^ digitsUb s)
    (pa pb : Nat) (hpa : 1 ≤ pa) (hpb : 1 ≤ pb) (hma : pa ≤ cmpIsizeMax) (hmb : pb ≤ cmpIsizeMax)
    (va vb : FBigM) (ha : TransResult Ea pa va) (hb : TransResult Eb pb vb) :
    reprCmpSameBase Ea.B digitsUb (ofFloatRepr va.repr) (ofFloatRepr vb.repr) (some (pa, pb))
      = specFCmp Ea.B (ofFloatRepr va.repr) (ofFloatRepr vb.repr) := by
  have fit : ∀ (E : Env), 2 ≤ E.B → ∀ p, 1 ≤ p → ∀ v, TransResult E p v → FitsP1 E.B p v.repr := by
    intro E hE p hp v ⟨fuel, x, y, b, fl, tr, h⟩
    obtain ⟨h1, h2, h3⟩ := float_transcendental_results_fit fuel E hE p hp x y b v fl tr
    rcases h with h | h | h
    · exact h1 h
    · exact h2 h
    · exact h3 h
  have fa := fit Ea hB pa hpa va ha
  have fb := fit Eb (hbase ▸ hB) pb hpb vb hb
  rw [hbase] at fb
  exact float_cmp_of_results Ea.B hB digitsUb hub va.repr vb.repr pa pb fa fb (fa.mem_of_le hma) (fb.mem_of_le hmb)

private theorem ok_of_match (e : Except String (Rounded FBigM × Trace)) (v : FBigM)
    (h : (match e with | .ok r => decide (r.1.1 = v) | .error _ => false) = true) : ∃ fl tr, e = .ok ((v, fl), tr) := by
  cases e with
  | error _ => simp at h
  | ok r =>
    obtain ⟨⟨v', fl⟩, tr⟩ := r
    simp only [decide_eq_true_eq] at h
    exact ⟨fl, tr, by rw [h]⟩

-- non-vacuity (C11's example environment: base 10, HalfEven, exact estimators): `ln 2` at 4 digits = 6931·10^-4, `exp 1` at 4
-- digits = 2718·10^-3, `powf(2, 0.5)` at 3 digits = 141·10^-2 ARE results of the mirrored bodies, and the code's comparison
-- (mixed precisions 4 / 3) orders them ln 2 < √2 < e
open Dashu.Props.C11Series in
example : TransResult E10 4 ⟨⟨6931, -4⟩, 4⟩ ∧ TransResult E10 4 ⟨⟨2718, -3⟩, 4⟩ ∧ TransResult E10 3 ⟨⟨141, -2⟩, 3⟩ ∧
    reprCmpSameBase 10 (fun s => digitsI 10 s) ⟨6931, -4⟩ ⟨141, -2⟩ (some (4, 3)) = .lt ∧
    reprCmpSameBase 10 (fun s => digitsI 10 s) ⟨141, -2⟩ ⟨2718, -3⟩ (some (3, 4)) = .lt := by
  refine ⟨?_, ?_, ?_, by decide +kernel, by decide +kernel⟩
  · obtain ⟨fl, tr, h⟩ := ok_of_match (lnFull 60 E10 4 ⟨2, 0⟩ false) ⟨⟨6931, -4⟩, 4⟩ (by decide +kernel)
    exact ⟨60, ⟨2, 0⟩, ⟨0, 0⟩, false, fl, tr, Or.inr (Or.inl h)⟩
  · obtain ⟨fl, tr, h⟩ := ok_of_match (expFull 60 E10 4 ⟨1, 0⟩ false) ⟨⟨2718, -3⟩, 4⟩ (by decide +kernel)
    exact ⟨60, ⟨1, 0⟩, ⟨0, 0⟩, false, fl, tr, Or.inl h⟩
  · obtain ⟨fl, tr, h⟩ := ok_of_match (powfBody 60 E10 3 ⟨2, 0⟩ ⟨5, -1⟩) ⟨⟨141, -2⟩, 3⟩ (by decide +kernel)
    exact ⟨60, ⟨2, 0⟩, ⟨5, -1⟩, false, fl, tr, Or.inr (Or.inr h)⟩

end Dashu.Props.C05
