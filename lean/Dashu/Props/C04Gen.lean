import Dashu.Proofs.Ratio.Gen
import Dashu.Proofs.Ratio.GenFns
/-
  C04, Tie A: the operator macro bodies of `rational/src/{add,mul,div}.rs` regenerated from /repo
  (`Gen/RatOps.lean`, by `vlib/extract_ratops.py`) ARE the hand-written model functions that the driver
  executes and that `Props/C04` is about — for all inputs (any numerators, any denominators incl. 0, any
  integer operand), panics included.  `$rx` of a macro is the borrowed `$x`: both get the same value.
  A semantic edit of a macro body in /repo changes the regenerated definition and breaks one of these
  theorems (or the build of this module); an edit of which macro an operator invocation reaches breaks
  `invocations_regenerated`.
-/
namespace Dashu.Props.C04Gen
open Dashu.Model Dashu.Model.Ratio Dashu.Gen

-- ------------------------------------------------------------------ which body each operator reaches

/-- the dispatch the model assumes: (shape, trait, method, left, right, output, macro body);
    `intR` = rational op integer, `intL` = integer op rational -/
def expectedInvocations : List (String × String × String × String × String × String × String) :=
  (do
    let (t, suffix) ← [("RBig", "rbig"), ("Relaxed", "relaxed")]
    [("bin", "Add", "add", t, t, t, if t = "RBig" then "impl_add_or_sub_with_rbig" else "impl_addsub_with_relaxed"),
     ("bin", "Sub", "sub", t, t, t, if t = "RBig" then "impl_add_or_sub_with_rbig" else "impl_addsub_with_relaxed"),
     ("bin", "Mul", "mul", t, t, t, "impl_mul_with_" ++ suffix),
     ("bin", "Div", "div", t, t, t, "impl_div_with_" ++ suffix),
     ("bin", "Rem", "rem", t, t, t, "impl_rem_with_" ++ suffix),
     ("bin", "DivEuclid", "div_euclid", t, t, "IBig", "impl_euclid_div"),
     ("bin", "RemEuclid", "rem_euclid", t, t, t, "impl_euclid_rem_with_" ++ suffix),
     ("bin", "DivRemEuclid", "div_rem_euclid", t, t, "IBig," ++ t, "impl_euclid_divrem_with_" ++ suffix)] ++
    (do
      let z ← ["UBig", "IBig"]
      [("intR", "Add", "add", t, z, t, "impl_addsub_int_with_" ++ suffix),
       ("intR", "Sub", "sub", t, z, t, "impl_addsub_int_with_" ++ suffix),
       ("intL", "Add", "add", z, t, t, "impl_addsub_int_with_" ++ suffix),
       ("intL", "Sub", "sub", z, t, t, "impl_int_sub_" ++ suffix),
       ("intR", "Mul", "mul", t, z, t, "impl_mul_int_with_" ++ suffix),
       ("intL", "Mul", "mul", z, t, t, "impl_mul_int_with_" ++ suffix),
       ("intR", "Div", "div", t, z, t, "impl_" ++ suffix ++ "_div_" ++ (if z = "UBig" then "ubig" else "ibig")),
       ("intL", "Div", "div", z, t, t, "impl_ubig_or_ibig_div_" ++ suffix)]))

/-- the invocation table regenerated from the source is the one the model's dispatch is built on
    (as sets: the order of the invocations in the source files does not matter) -/
theorem invocations_regenerated :
    RatOps.invocations.length = expectedInvocations.length ∧
    (∀ r ∈ expectedInvocations, r ∈ RatOps.invocations) ∧ (∀ r ∈ RatOps.invocations, r ∈ expectedInvocations) := by
  decide

-- ------------------------------------------------------------------ mixed operators with integers

theorem addsub_int_with_rbig_regenerated (sub : Bool) (x : Q) (i : Int) :
    RatOps.impl_addsub_int_with_rbig (if sub then (· - ·) else (· + ·)) x.num x.den i x.num x.den i
      = .ok (R.addSubInt sub x i) := gen_addsub_int_with_rbig sub x i

theorem int_sub_rbig_regenerated (x : Q) (i : Int) :
    RatOps.impl_int_sub_rbig (· - ·) x.num x.den i x.num x.den i = .ok (R.intSub i x) := gen_int_sub_rbig x i

theorem addsub_int_with_relaxed_regenerated (sub : Bool) (x : Q) (i : Int) :
    RatOps.impl_addsub_int_with_relaxed (if sub then (· - ·) else (· + ·)) x.num x.den i x.num x.den i
      = .ok (X.addSubInt sub x i) := gen_addsub_int_with_relaxed sub x i

theorem int_sub_relaxed_regenerated (x : Q) (i : Int) :
    RatOps.impl_int_sub_relaxed (· - ·) x.num x.den i x.num x.den i = .ok (X.intSub i x) := gen_int_sub_relaxed x i

theorem mul_int_with_rbig_regenerated (x : Q) (i : Int) :
    RatOps.impl_mul_int_with_rbig (· * ·) x.num x.den i x.num x.den i = R.mulInt x i := gen_mul_int_with_rbig x i

theorem mul_int_with_relaxed_regenerated (x : Q) (i : Int) :
    RatOps.impl_mul_int_with_relaxed (· * ·) x.num x.den i x.num x.den i = X.mulInt x i := gen_mul_int_with_relaxed x i

/-- `RBig / IBig`, and `RBig / UBig` (its own macro body: no sign factor) for a non-negative operand -/
theorem rbig_div_int_regenerated (x : Q) (i : Int) :
    RatOps.impl_rbig_div_ibig x.num x.den i x.num x.den i = R.divInt x i ∧
    (0 ≤ i → RatOps.impl_rbig_div_ubig x.num x.den i x.num x.den i = R.divInt x i) :=
  ⟨gen_rbig_div_ibig x i, gen_rbig_div_ubig x i⟩

theorem int_div_rbig_regenerated (i : Int) (x : Q) :
    RatOps.impl_ubig_or_ibig_div_rbig x.num x.den i x.num x.den i = R.intDiv i x := gen_ubig_or_ibig_div_rbig i x

theorem relaxed_div_int_regenerated (x : Q) (i : Int) :
    RatOps.impl_relaxed_div_ibig x.num x.den i x.num x.den i = X.divInt x i ∧
    (0 ≤ i → RatOps.impl_relaxed_div_ubig x.num x.den i x.num x.den i = X.divInt x i) :=
  ⟨gen_relaxed_div_ibig x i, gen_relaxed_div_ubig x i⟩

theorem int_div_relaxed_regenerated (i : Int) (x : Q) :
    RatOps.impl_ubig_or_ibig_div_relaxed x.num x.den i x.num x.den i = X.intDiv i x :=
  gen_ubig_or_ibig_div_relaxed i x

/-- the model's dispatch of `rational op integer` (what the driver and the history theorem execute)
    written with the regenerated bodies only -/
theorem int_right_ops_regenerated (o : IntOp) (k : Kind) (x : Q) (z : Int) :
    evalIntR o k x z =
      match k, o with
      | .R, .add => RatOps.impl_addsub_int_with_rbig (· + ·) x.num x.den z x.num x.den z
      | .R, .sub => RatOps.impl_addsub_int_with_rbig (· - ·) x.num x.den z x.num x.den z
      | .R, .mul => RatOps.impl_mul_int_with_rbig (· * ·) x.num x.den z x.num x.den z
      | .R, .div => RatOps.impl_rbig_div_ibig x.num x.den z x.num x.den z
      | .X, .add => RatOps.impl_addsub_int_with_relaxed (· + ·) x.num x.den z x.num x.den z
      | .X, .sub => RatOps.impl_addsub_int_with_relaxed (· - ·) x.num x.den z x.num x.den z
      | .X, .mul => RatOps.impl_mul_int_with_relaxed (· * ·) x.num x.den z x.num x.den z
      | .X, .div => RatOps.impl_relaxed_div_ibig x.num x.den z x.num x.den z := by
  cases k <;> cases o <;> simp only [evalIntR]
  · exact (gen_addsub_int_with_rbig false x z).symm
  · exact (gen_addsub_int_with_rbig true x z).symm
  · exact (gen_mul_int_with_rbig x z).symm
  · exact (gen_rbig_div_ibig x z).symm
  · exact (gen_addsub_int_with_relaxed false x z).symm
  · exact (gen_addsub_int_with_relaxed true x z).symm
  · exact (gen_mul_int_with_relaxed x z).symm
  · exact (gen_relaxed_div_ibig x z).symm

/-- … and of `integer op rational` -/
theorem int_left_ops_regenerated (o : IntOp) (k : Kind) (z : Int) (x : Q) :
    evalIntL o k z x =
      match k, o with
      | .R, .add => RatOps.impl_addsub_int_with_rbig (· + ·) x.num x.den z x.num x.den z
      | .R, .sub => RatOps.impl_int_sub_rbig (· - ·) x.num x.den z x.num x.den z
      | .R, .mul => RatOps.impl_mul_int_with_rbig (· * ·) x.num x.den z x.num x.den z
      | .R, .div => RatOps.impl_ubig_or_ibig_div_rbig x.num x.den z x.num x.den z
      | .X, .add => RatOps.impl_addsub_int_with_relaxed (· + ·) x.num x.den z x.num x.den z
      | .X, .sub => RatOps.impl_int_sub_relaxed (· - ·) x.num x.den z x.num x.den z
      | .X, .mul => RatOps.impl_mul_int_with_relaxed (· * ·) x.num x.den z x.num x.den z
      | .X, .div => RatOps.impl_ubig_or_ibig_div_relaxed x.num x.den z x.num x.den z := by
  cases k <;> cases o <;> simp only [evalIntL]
  · exact (gen_addsub_int_with_rbig false x z).symm
  · exact (gen_int_sub_rbig x z).symm
  · exact (gen_mul_int_with_rbig x z).symm
  · exact (gen_ubig_or_ibig_div_rbig z x).symm
  · exact (gen_addsub_int_with_relaxed false x z).symm
  · exact (gen_int_sub_relaxed x z).symm
  · exact (gen_mul_int_with_relaxed x z).symm
  · exact (gen_ubig_or_ibig_div_relaxed z x).symm

-- ------------------------------------------------------------------ operators between two rationals

/-- every binary operator of both types: the model function is the regenerated macro body, instantiated
    with the `$method` its invocation passes (`G.m_rem` = `IBig % &UBig`, `G.m_rem_euclid` = `IBig::rem_euclid`) -/
theorem binary_ops_regenerated (o : Bin) (k : Kind) (x y : Q) :
    evalBin o k x y =
      match k, o with
      | .R, .add => RatOps.impl_add_or_sub_with_rbig (· + ·) x.num x.den y.num y.den x.num x.den y.num y.den
      | .R, .sub => RatOps.impl_add_or_sub_with_rbig (· - ·) x.num x.den y.num y.den x.num x.den y.num y.den
      | .R, .mul => RatOps.impl_mul_with_rbig (· * ·) x.num x.den y.num y.den x.num x.den y.num y.den
      | .R, .div => RatOps.impl_div_with_rbig x.num x.den y.num y.den x.num x.den y.num y.den
      | .R, .rem => RatOps.impl_rem_with_rbig G.m_rem x.num x.den y.num y.den x.num x.den y.num y.den
      | .R, .remEuclid => RatOps.impl_euclid_rem_with_rbig G.m_rem_euclid x.num x.den y.num y.den x.num x.den y.num y.den
      | .X, .add => RatOps.impl_addsub_with_relaxed (· + ·) x.num x.den y.num y.den x.num x.den y.num y.den
      | .X, .sub => RatOps.impl_addsub_with_relaxed (· - ·) x.num x.den y.num y.den x.num x.den y.num y.den
      | .X, .mul => RatOps.impl_mul_with_relaxed (· * ·) x.num x.den y.num y.den x.num x.den y.num y.den
      | .X, .div => RatOps.impl_div_with_relaxed x.num x.den y.num y.den x.num x.den y.num y.den
      | .X, .rem => RatOps.impl_rem_with_relaxed G.m_rem x.num x.den y.num y.den x.num x.den y.num y.den
      | .X, .remEuclid => RatOps.impl_euclid_rem_with_relaxed G.m_rem_euclid x.num x.den y.num y.den x.num x.den y.num y.den := by
  cases k <;> cases o <;> simp only [evalBin]
  · exact (gen_add_or_sub_with_rbig false x y).symm
  · exact (gen_add_or_sub_with_rbig true x y).symm
  · exact (gen_mul_with_rbig x y).symm
  · exact (gen_div_with_rbig x y).symm
  · exact (gen_rem_with_rbig x y).symm
  · exact (gen_euclid_rem_with_rbig x y).symm
  · exact (gen_addsub_with_relaxed false x y).symm
  · exact (gen_addsub_with_relaxed true x y).symm
  · exact (gen_mul_with_relaxed x y).symm
  · exact (gen_div_with_relaxed x y).symm
  · exact (gen_rem_with_relaxed x y).symm
  · exact (gen_euclid_rem_with_relaxed x y).symm

/-- `div_euclid` (one body for both types) and `div_rem_euclid` -/
theorem euclid_ops_regenerated (x y : Q) :
    RatOps.impl_euclid_div G.m_div_euclid x.num x.den y.num y.den x.num x.den y.num y.den = R.divEuclid x y ∧
    RatOps.impl_euclid_divrem_with_rbig G.m_div_rem_euclid x.num x.den y.num y.den x.num x.den y.num y.den
      = R.divRemEuclid x y ∧
    RatOps.impl_euclid_divrem_with_relaxed G.m_div_rem_euclid x.num x.den y.num y.den x.num x.den y.num y.den
      = X.divRemEuclid x y :=
  ⟨gen_euclid_div x y, gen_euclid_divrem_with_rbig x y, gen_euclid_divrem_with_relaxed x y⟩

-- ------------------------------------------------------------------ `Repr`-level function bodies (Gen/RatFns.lean)

/-- the three reductions of rational/src/repr.rs, regenerated, are the model's `reduce`, `reduce2` (any stored pair) and
    `reduceWithHint` (any hint, positive denominator — every caller passes one; the proof is insensitive to the
    association order of the two gcds) -/
theorem reductions_regenerated (x : Q) (hint : Nat) :
    RatFns.Repr_reduce x.num x.den = reduce x ∧
    (0 < x.den → RatFns.Repr_reduce_with_hint x.num x.den hint = reduceWithHint x hint) ∧
    RatFns.Repr_reduce2 x.num x.den = reduce2 x :=
  ⟨gen_Repr_reduce x, gen_Repr_reduce_with_hint x hint, gen_Repr_reduce2 x⟩

example : RatFns.Repr_reduce_with_hint 6 8 4 = .ok ⟨3, 4⟩ ∧ reduceWithHint ⟨6, 8⟩ 4 = .ok ⟨3, 4⟩ := by decide

/-- rational/src/round.rs (`impl Repr`): `split_at_point`, `ceil`, `floor`, `trunc`, `fract`, `round` (ties away from zero) -/
theorem rounding_regenerated (x : Q) :
    RatFns.Repr_split_at_point x.num x.den = splitAtPoint x ∧ RatFns.Repr_ceil x.num x.den = ceil x ∧
    RatFns.Repr_floor x.num x.den = floor x ∧ RatFns.Repr_trunc x.num x.den = trunc x ∧
    RatFns.Repr_fract x.num x.den = fract x ∧ RatFns.Repr_round x.num x.den = Ratio.round x :=
  ⟨gen_Repr_split_at_point x, gen_Repr_ceil x, gen_Repr_floor x, gen_Repr_trunc x, gen_Repr_fract x, gen_Repr_round x⟩

/-- `Inverse for Repr` (div.rs), `Repr::neg` / `abs` / `Mul<Sign>` (sign.rs), `Repr::sqr` / `cubic` / `pow` (mul.rs) -/
theorem unary_regenerated (x : Q) (s : Bool) (n : Nat) :
    RatFns.Repr_inv x.num x.den = inv x ∧ RatFns.Repr_neg x.num x.den = .ok (neg x) ∧
    RatFns.Repr_abs x.num x.den = .ok (abs x) ∧
    RatFns.Repr_mul_sign x.num x.den (if s then -1 else 1) = .ok (mulSign x s) ∧
    RatFns.Repr_sqr x.num x.den = .ok (sqr x) ∧ RatFns.Repr_cubic x.num x.den = .ok (cubic x) ∧
    RatFns.Repr_pow x.num x.den n = .ok (pow x n) :=
  ⟨gen_Repr_inv x, gen_Repr_neg x, gen_Repr_abs x, gen_Repr_mul_sign x s, gen_Repr_sqr x, gen_Repr_cubic x, gen_Repr_pow x n⟩

/-- the constructors of rbig.rs: zero-denominator guard, then `reduce` (RBig) / `reduce2` (Relaxed); the signed forms -/
theorem constructors_regenerated (n : Int) (d : Nat) (ds : Int) :
    RatFns.RBig_from_parts n d = rFromParts n d ∧ RatFns.Relaxed_from_parts n d = xFromParts n d ∧
    RatFns.RBig_from_parts_signed n ds = rFromPartsSigned n ds ∧
    RatFns.Relaxed_from_parts_signed n ds = xFromPartsSigned n ds :=
  ⟨gen_RBig_from_parts n d, gen_Relaxed_from_parts n d, gen_RBig_from_parts_signed n ds, gen_Relaxed_from_parts_signed n ds⟩

/-- `from_parts_const` of both types (rbig.rs): the guards, the const Euclid loop `while r > 1 { (y, r) = (r, y % r) }` — regenerated
    as `G.while_dec (measure r) cond step` — and the division by the last remainder; the power-of-two version of `Relaxed` -/
theorem const_constructors_regenerated (neg : Bool) (n d : Nat) :
    RatFns.RBig_from_parts_const (if neg then -1 else 1) n d = rFromPartsConst neg n d ∧
    RatFns.Relaxed_from_parts_const (if neg then -1 else 1) n d = xFromPartsConst neg n d :=
  ⟨gen_RBig_from_parts_const neg n d, gen_Relaxed_from_parts_const neg n d⟩

/-- the regenerated loop is the model's `constGcdLoop` from every start -/
theorem const_gcd_loop_regenerated (y r : Nat) :
    G.while_dec (fun (s : Int × Int) => s.2.toNat) (fun s => G.gt s.2 (1 : Int))
      (fun s => (s.2, G.rem_u s.1 s.2)) ((y : Int), (r : Int))
      = (((constGcdLoop y r).1 : Int), ((constGcdLoop y r).2 : Int)) :=
  while_dec_constGcdLoop r y

example : RatFns.Repr_reduce (-6) 4 = .ok ⟨-3, 2⟩ ∧ RatFns.Repr_round (-7) 2 = .ok (-4) ∧
    RatFns.Repr_inv (-3) 4 = .ok ⟨-4, 3⟩ ∧ RatFns.RBig_from_parts_signed 6 (-4) = .ok ⟨-3, 2⟩ ∧
    RatFns.RBig_from_parts 5 0 = .error .divideByZero := by decide

-- non-vacuity: the regenerated bodies compute (6/4 is not a valid RBig: the theorems need no invariant)
example : RatOps.impl_mul_int_with_rbig (· * ·) 3 4 6 3 4 6 = .ok ⟨9, 2⟩ ∧
    RatOps.impl_rbig_div_ibig 3 4 (-6) 3 4 (-6) = .ok ⟨-1, 8⟩ ∧
    RatOps.impl_ubig_or_ibig_div_rbig (-3) 4 6 (-3) 4 6 = .ok ⟨-8, 1⟩ ∧
    RatOps.impl_rbig_div_ibig 3 4 0 3 4 0 = .error .divideByZero ∧
    RatOps.impl_add_or_sub_with_rbig (· + ·) 1 6 1 3 1 6 1 3 = .ok ⟨1, 2⟩ ∧
    RatOps.impl_rem_with_rbig G.m_rem (-1) 2 1 3 (-1) 2 1 3 = .ok ⟨1, 6⟩ := by decide

end Dashu.Props.C04Gen
