import Dashu.Props.C12
/-
  C19 clause (1), word size — number theory (link to C12's proved kernels, by import).

  C12's theorems hold for every word size (`0 < W`; `W` even where the square-root normalisation needs
  it) and pin each result to a word-size-free specification (`Nat.gcd`, the unique floor root, the
  unique integer logarithm).  The corollaries below say that two builds with different `W` return the
  same value — or the same panic — from the same mathematical inputs.  For `gcd_ext` the property fixes
  `g` and the Bézout identity, not the particular cofactor pair, and that is what is stated.
-/
namespace Dashu.Props.C19
open Dashu.Model Dashu.Model.NT

/-- `gcd` (UBig, IBig, mixed forms; every kernel mirrored incl. the Lehmer loop): the same value, or the same
    `GcdZeroZero` panic, in any two word sizes -/
theorem word_size_independent_gcd (W₁ W₂ : Nat) (h₁ : 0 < W₁) (h₂ : 0 < W₂) (a b : Nat) (x y : Int) :
    gcdReprM W₁ a b = gcdReprM W₂ a b ∧ gcdInt W₁ x y = gcdInt W₂ x y :=
  ⟨by rw [C12.gcd_spec W₁ h₁, C12.gcd_spec W₂ h₂], by rw [C12.gcd_int_spec W₁ h₁, C12.gcd_int_spec W₂ h₂]⟩

/-- `gcd_ext` (every kernel mirrored): both builds panic exactly for `(0, 0)`; otherwise both return the same
    `g = gcd(|a|, |b|)`, each with cofactors that satisfy the Bézout identity -/
theorem word_size_independent_gcd_ext (W₁ W₂ : Nat) (h₁ : 0 < W₁) (h₂ : 0 < W₂) (a b : Int) :
    (a = 0 ∧ b = 0 → gcdExtInt W₁ (lehmerExtKernel W₁) a b = .error .gcdZeroZero ∧
                     gcdExtInt W₂ (lehmerExtKernel W₂) a b = .error .gcdZeroZero) ∧
    (¬ (a = 0 ∧ b = 0) → ∃ g s₁ t₁ s₂ t₂,
        gcdExtInt W₁ (lehmerExtKernel W₁) a b = .ok (g, s₁, t₁) ∧
        gcdExtInt W₂ (lehmerExtKernel W₂) a b = .ok (g, s₂, t₂) ∧
        g = Int.gcd a b ∧ s₁ * a + t₁ * b = g ∧ s₂ * a + t₂ * b = g) := by
  have p := C12.gcd_ext_spec W₁ h₁ a b
  have q := C12.gcd_ext_spec W₂ h₂ a b
  refine ⟨fun h => ⟨p.1 h, q.1 h⟩, fun h => ?_⟩
  obtain ⟨g₁, s₁, t₁, e₁, hg₁, b₁⟩ := p.2 h
  obtain ⟨g₂, s₂, t₂, e₂, hg₂, b₂⟩ := q.2 h
  have hg : g₂ = g₁ := by rw [hg₁, hg₂]
  subst hg
  exact ⟨g₂, s₁, t₁, s₂, t₂, e₁, e₂, hg₂, b₁, b₂⟩

/-- `sqrt_rem`: the same root and the same remainder in any two (even) word sizes -/
theorem word_size_independent_sqrt_rem (W₁ W₂ : Nat) (h₁ : 0 < W₁) (h₂ : 0 < W₂) (e₁ : W₁ % 2 = 0) (e₂ : W₂ % 2 = 0)
    (x : Nat) : sqrtRemRepr W₁ true x = sqrtRemRepr W₂ true x := by
  obtain ⟨r₁, s₁⟩ := C12.sqrt_rem_spec W₁ h₁ e₁ x
  obtain ⟨r₂, s₂⟩ := C12.sqrt_rem_spec W₂ h₂ e₂ x
  have hu := IsRoot.unique (by decide) r₁ r₂
  generalize sqrtRemRepr W₁ true x = p at *
  generalize sqrtRemRepr W₂ true x = q at *
  obtain ⟨p1, p2⟩ := p
  obtain ⟨q1, q2⟩ := q
  simp only [] at hu s₁ s₂
  subst hu
  have : p2 = q2 := by omega
  rw [this]

/-- … also with every kernel mirrored (Zimmermann's Karatsuba `sqrt_rem`, `sqrt_rem_42`, the primitive one- and
    two-word roots of each build): any exact primitives of the two word sizes give the same answer -/
theorem word_size_independent_sqrt_rem_mirrored (W₁ W₂ : Nat) (h₁ : 2 ≤ W₁) (h₂ : 2 ≤ W₂) (e₁ : W₁ % 2 = 0) (e₂ : W₂ % 2 = 0)
    {pW₁ pD₁ pW₂ pD₂ : Nat → Nat × Nat}
    (hW₁ : PrimSqrtExact (2 ^ W₁) pW₁) (hD₁ : PrimSqrtExact (2 ^ (2 * W₁)) pD₁)
    (hW₂ : PrimSqrtExact (2 ^ W₂) pW₂) (hD₂ : PrimSqrtExact (2 ^ (2 * W₂)) pD₂) (x n : Nat) :
    sqrtRemReprM W₁ pW₁ pD₁ true x = sqrtRemReprM W₂ pW₂ pD₂ true x ∧
    (nthRootReprM W₁ pW₁ pD₁ true x n = nthRootRepr W₁ true x n ∧
     nthRootReprM W₂ pW₂ pD₂ true x n = nthRootRepr W₂ true x n) := by
  refine ⟨?_, C12.nth_root_mirrored_eq h₁ e₁ hW₁ hD₁ true x n, C12.nth_root_mirrored_eq h₂ e₂ hW₂ hD₂ true x n⟩
  rw [sqrtRemReprM_eq h₁ e₁ hW₁ hD₁, sqrtRemReprM_eq h₂ e₂ hW₂ hD₂]
  exact word_size_independent_sqrt_rem W₁ W₂ (by omega) (by omega) e₁ e₂ x

/-- `nth_root` for every `n`: the same floor root, or the same `RootZeroth` panic -/
theorem word_size_independent_nth_root (W₁ W₂ : Nat) (h₁ : 0 < W₁) (h₂ : 0 < W₂) (e₁ : W₁ % 2 = 0) (e₂ : W₂ % 2 = 0)
    (x n : Nat) : nthRootRepr W₁ true x n = nthRootRepr W₂ true x n := by
  have p := C12.nth_root_spec W₁ h₁ e₁ x n
  have q := C12.nth_root_spec W₂ h₂ e₂ x n
  rcases Nat.eq_zero_or_pos n with hn | hn
  · rw [p.1 hn, q.1 hn]
  · obtain ⟨s₁, a₁, r₁⟩ := p.2 hn
    obtain ⟨s₂, a₂, r₂⟩ := q.2 hn
    rw [a₁, a₂, IsRoot.unique hn r₁ r₂]

/-- `cbrt_rem`, `IBig::nth_root`, `IBig::sqrt`, `IBig::cbrt`: the same value or the same panic
    (`RootZeroth`, `RootNegative`) -/
theorem word_size_independent_int_roots (W₁ W₂ : Nat) (h₁ : 0 < W₁) (h₂ : 0 < W₂) (e₁ : W₁ % 2 = 0) (e₂ : W₂ % 2 = 0)
    (x : Nat) (z : Int) (n : Nat) :
    cbrtRemRepr W₁ true x = cbrtRemRepr W₂ true x ∧
    nthRootInt W₁ true z n = nthRootInt W₂ true z n ∧
    sqrtInt W₁ z = sqrtInt W₂ z ∧
    cbrtInt W₁ true z = cbrtInt W₂ true z := by
  refine ⟨?_, ?_, ?_, ?_⟩
  · unfold cbrtRemRepr; rw [word_size_independent_nth_root W₁ W₂ h₁ h₂ e₁ e₂]
  · unfold nthRootInt; rw [word_size_independent_nth_root W₁ W₂ h₁ h₂ e₁ e₂]
  · unfold sqrtInt sqrtRepr; rw [word_size_independent_sqrt_rem W₁ W₂ h₁ h₂ e₁ e₂]
  · unfold cbrtInt; rw [word_size_independent_nth_root W₁ W₂ h₁ h₂ e₁ e₂]

/-- `ilog`: with any first guesses the code's assertion accepts (the estimators of the two builds may differ —
    they come from `f32` log2 bounds), the same `(e, base^e)` or the same panic -/
theorem word_size_independent_ilog (W₁ W₂ : Nat) (h₁ : 0 < W₁) (h₂ : 0 < W₂) (est₁ est₂ : Nat → Nat → Nat) (x base : Nat)
    (g₁ : base ≤ x → base ^ max (est₁ x base) 1 ≤ x) (g₂ : base ≤ x → base ^ max (est₂ x base) 1 ≤ x) :
    logRepr W₁ true est₁ x base = logRepr W₂ true est₂ x base := by
  have p := C12.ilog_spec W₁ h₁ est₁ x base g₁
  have q := C12.ilog_spec W₂ h₂ est₂ x base g₂
  by_cases h : x = 0 ∨ base < 2
  · rw [p.1 h, q.1 h]
  · have hx : 0 < x := by omega
    have hb : 2 ≤ base := by omega
    obtain ⟨a₁, p₁, r₁, hp₁, lo₁, hi₁⟩ := p.2 hx hb
    obtain ⟨a₂, p₂, r₂, hp₂, lo₂, hi₂⟩ := q.2 hx hb
    have l1 : a₁ < a₂ + 1 := (Nat.pow_lt_pow_iff_right (by omega)).1 (Nat.lt_of_le_of_lt lo₁ hi₂)
    have l2 : a₂ < a₁ + 1 := (Nat.pow_lt_pow_iff_right (by omega)).1 (Nat.lt_of_le_of_lt lo₂ hi₁)
    have : a₁ = a₂ := by omega
    subst this
    rw [r₁, r₂, hp₁, hp₂]

-- ---------------------------------------------------------------- non-vacuity: the two word sizes the builds use

example : (0 < 64 ∧ 64 % 2 = 0) ∧ (0 < 32 ∧ 32 % 2 = 0) := by decide

example (x y : Int) : gcdInt 64 x y = gcdInt 32 x y :=
  (word_size_independent_gcd 64 32 (by decide) (by decide) 0 0 x y).2

example (x n : Nat) : nthRootRepr 64 true x n = nthRootRepr 32 true x n :=
  word_size_independent_nth_root 64 32 (by decide) (by decide) (by decide) (by decide) x n

/-- the primitive hypotheses of the mirrored statement are satisfiable in both word sizes … -/
example : PrimSqrtExact (2 ^ 64) sqrtRemPrimFrontier ∧ PrimSqrtExact (2 ^ (2 * 64)) sqrtRemPrimFrontier ∧
    PrimSqrtExact (2 ^ 32) sqrtRemPrimFrontier ∧ PrimSqrtExact (2 ^ (2 * 32)) sqrtRemPrimFrontier :=
  ⟨fun _ _ => rfl, fun _ _ => rfl, fun _ _ => rfl, fun _ _ => rfl⟩

/-- … the estimator hypothesis of `word_size_independent_ilog` is met by the constant guess 1 (what the driver uses) -/
example (x base : Nat) : base ≤ x → base ^ max ((fun _ _ => 1) x base) 1 ≤ x := by
  intro h; simpa using h

/-- … and concrete runs through the multi-word kernels at both word sizes (a 4-word × 3-word Lehmer gcd at 64 bits =
    8-word × 6-word at 32 bits; a 4-word / 8-word square root) -/
example : gcdReprM 64 ((2 ^ 64 + 1) * (2 ^ 190 + 12345)) ((2 ^ 64 + 1) * (3 ^ 80 + 7)) = .ok (2 ^ 64 + 1) ∧
    gcdReprM 32 ((2 ^ 64 + 1) * (2 ^ 190 + 12345)) ((2 ^ 64 + 1) * (3 ^ 80 + 7)) = .ok (2 ^ 64 + 1) := by
  constructor <;> decide +kernel

example : sqrtRemRepr 64 true (2 ^ 255 + 12345) = sqrtRemRepr 32 true (2 ^ 255 + 12345) := by decide +kernel

end Dashu.Props.C19
