import Dashu.Props.C18Kernels
import Dashu.Props.C14Link
/-
  C18 ↔ C05 / C14 (round 8): the one operation of the `loop { … }` of `Repr::simplest_in` that round 7 left as
  Lean `Int` arithmetic — the exit test `num_l < den_l` (`PartialOrd for IBig` = `Some(Ord::cmp)`, integer/src/cmp.rs:
  sign match, magnitudes by `TypedReprRef::cmp` with the `RefSmall < RefLarge` shortcut, `cmp_same_len` / `cmp_in_place`)
  — executed through the MIRRORED word-level comparison (`Model/Cross/IntOrd.ibigOrdW`, proved by C05 and linked in
  `Props/C14Link.ibig_ord_mirrored`).  With it EVERY operation of the descent loop (div_rem, *, +, -, <) runs on the
  proved word-level kernels of dashu-int.
-/
namespace Dashu.Props.C18KernelsCmp
open Dashu Dashu.Model Dashu.Model.Ratio Dashu.Model.Cross Dashu.Props.C18Kernels

/-- `IBig < IBig` (`PartialOrd::lt` = `partial_cmp == Some(Less)`, `partial_cmp = Some(cmp)`) through the mirrored
    `Ord for IBig` on canonical representations -/
def ltW (W : Nat) (x y : Int) : Bool := ibigOrdW W x y == .lt

/-- the mirrored `IBig <` is `<` on the values, every word size -/
theorem ltW_eq (W : Nat) (hW : 1 ≤ W) (x y : Int) : ltW W x y = decide (x < y) := by
  unfold ltW
  rw [Dashu.Props.C14Link.ibig_ord_mirrored W hW]
  by_cases h : x < y
  · have : compare x y = .lt := by
      simp [compare, compareOfLessAndEq, h]
    simp [this, h]
  · have : compare x y ≠ .lt := by
      simp only [compare, compareOfLessAndEq, h, if_false]
      split <;> simp
    simp [h]
    cases hc : compare x y <;> simp_all

/-- the `loop { … }` of `Repr::simplest_in`, EVERY operation (div_rem, *, +, -, and the exit test `num_l < den_l`)
    through the word-level kernels at word size `W` -/
def simplestLoopWC (W form : Nat) : Nat → SState → Except PanicKind (Option (Int × Int))
  | 0, _ => .ok none
  | fuel + 1, s => do
    let (q, r1) ← divRemW W s.numL s.denL
    let n0' := addW W form s.n1 (mulW W q s.n0)
    let n1' := s.n0
    let d0' := addW W form s.d1 (mulW W q s.d0)
    let d1' := s.d0
    let r2 := subW W form s.numR (mulW W q s.denR)
    let numL' := s.denR
    let denR' := r1
    let numR' := s.denL
    let denL' := r2
    if ltW W numL' denL' = true then pure (some (addW W form n0' n1', addW W form d0' d1'))
    else simplestLoopWC W form fuel ⟨numL', denL', numR', denR', n0', d0', n1', d1'⟩

/-- **the descent with its exit test over the proved kernels is the model's descent**: every word size ≥ 4, state,
    fuel, ownership form; panics included -/
theorem descent_with_cmp_over_proved_kernels (W : Nat) (hW : 4 ≤ W) (form fuel : Nat) (s : SState) :
    simplestLoopWC W form fuel s = simplestLoop fuel s := by
  induction fuel generalizing s with
  | zero => rfl
  | succ n ih =>
    simp only [simplestLoopWC, simplestLoop, mulW_eq W hW, addW_eq W hW, subW_eq W hW, divRemW_eq W hW,
      ltW_eq W (by omega), decide_eq_true_eq, ih]

/-- non-vacuity: 1/3 .. 1/2 at 64-bit words returns 2/5; the mirrored comparison decides a multi-word pair -/
example : simplestLoopWC 64 0 6 ⟨1, 3, 1, 2, 1, 0, 0, 1⟩ = .ok (some (2, 5)) := by
  rw [descent_with_cmp_over_proved_kernels 64 (by decide)]; decide
example : ltW 64 (-(2 ^ 130) - 7) (-(2 ^ 130) - 5) = true ∧ ltW 64 (2 ^ 64) (2 ^ 64) = false := by
  rw [ltW_eq 64 (by decide), ltW_eq 64 (by decide)]; decide

/-- hence the descent as the code starts it, with every operation on the proved kernels, terminates with the fraction
    of minimal numerator AND denominator strictly between the end points -/
theorem kernel_descent_with_cmp_optimal (W : Nat) (hW : 4 ≤ W) (form fuel : Nat) (a b c d : Int) (h : SInv a b c d)
    (hf : (b + d).toNat < fuel) :
    ∃ A B, simplestLoopWC W form fuel ⟨a, b, c, d, 1, 0, 0, 1⟩ = .ok (some (A, B)) ∧ 0 < A ∧ 0 < B ∧
      a * B < A * b ∧ A * d < c * B ∧
      ∀ p s : Int, 0 < s → a * s < p * b → p * d < c * s → A ≤ p ∧ B ≤ s := by
  have e : simplestLoopWC W form fuel ⟨a, b, c, d, 1, 0, 0, 1⟩ = simplestLoopW W form fuel ⟨a, b, c, d, 1, 0, 0, 1⟩ := by
    rw [descent_with_cmp_over_proved_kernels W hW, descent_over_proved_kernels W hW]
  rw [e]
  exact kernel_descent_optimal W hW form fuel a b c d h hf

/-- non-vacuity of the hypotheses -/
example : SInv 1234 5678 1235 5679 ∧ ((5678 : Int) + 5679).toNat < 11358 := by
  refine ⟨?_, by decide⟩; unfold SInv; decide

end Dashu.Props.C18KernelsCmp
