import Dashu.Proofs.Float.Estimate
/-
  C10 (and C03, C14 users of `digits_ub`): the `f32` digit estimate.  In `Props/C10.lean` the estimator
  is a parameter with the enclosure hypothesis `DubSound`; the driver checks the hypothesis on every
  operand for its bit-exact replica.  This module states the assumptions about the `f32` ingredients
  under which the hypothesis holds for the code's formula, and proves the implication over ℝ
  (kept apart because it imports Mathlib's real logarithm).

  (A) `log₂ n ≤ ub` — for `n < 2^24`: exactly "`log2f` is at most one ulp too small"
      (`ub = next_up(log2f n)`); for wider `n` additionally the IEEE grid fact (G) of `ub_wide`;
  (B) the single `f32` `*` / `/` is a monotone rounding fixing the integers `≤ 2^24`;
  (C) `LOG10_2 ≥ log₁₀ 2`, `0 < log2_bounds(B).0 ≤ log₂ B`.
  No relative-error bound on the multiplication is needed, and a `log2f` that is up to one ulp too
  LARGE is harmless.  What is NOT derived here: (B), (G) and the two numeric facts (C) about concrete
  `f32` values — they are properties of IEEE-754 binary32 and of the literals, stated as hypotheses.
-/
namespace Dashu.Props.C10Est
open Dashu Dashu.Model.Float

/-- `digits ≤ digits_ub` for every base under (A), (B), (C) -/
theorem digits_ub_sound (B : Nat) (hB : 2 ≤ B) (n : Nat) (hn : 0 < n) (fl : ℝ → ℝ) (ub L lbB : ℝ)
    (hA : Real.logb 2 n ≤ ub)
    (hmono : Monotone fl) (hfix : ∀ k : Nat, k ≤ 2 ^ 24 → fl k = k) (hsmall : digits B n - 1 ≤ 2 ^ 24)
    (hL : Real.logb 10 2 ≤ L) (hlb : 0 < lbB ∧ lbB ≤ Real.logb 2 B) :
    digits B n ≤ digitsUbReal B fl ub L lbB :=
  digits_le_digitsUb B hB n hn fl ub L lbB hA hmono hfix hsmall hL hlb

/-- … hence the enclosure hypothesis `DubSound` that every C10 / C03 theorem about `smaller_than_one`,
    `round`, `trunc`, the far-apart addition branch, … carries -/
theorem dub_sound (B : Nat) (hB : 2 ≤ B) (fl : ℝ → ℝ) (ub : Nat → ℝ) (L lbB : ℝ)
    (hA : ∀ n : Nat, 0 < n → Real.logb 2 n ≤ ub n)
    (hmono : Monotone fl) (hfix : ∀ k : Nat, k ≤ 2 ^ 24 → fl k = k)
    (hsmall : ∀ n : Nat, digits B n - 1 ≤ 2 ^ 24)
    (hL : Real.logb 10 2 ≤ L) (hlb : 0 < lbB ∧ lbB ≤ Real.logb 2 B) :
    DubSound B (fun v => if v = 0 then 0 else digitsUbReal B fl (ub v.natAbs) L lbB) :=
  dubSound_of_assumptions B hB fl ub L lbB hA hmono hfix hsmall hL hlb

/-- (A) for `n < 2^24` is the accuracy assumption on `log2f` itself -/
theorem ub_small (log2f nextUp : ℝ → ℝ) (hacc : ∀ x : ℝ, 1 ≤ x → Real.logb 2 x ≤ nextUp (log2f x))
    (n : Nat) (hn : 0 < n) : Real.logb 2 n ≤ nextUp (log2f n) := ub_small_sound log2f nextUp hacc n hn

/-- (A) for `n ≥ 2^24` from the same accuracy assumption and the grid fact (G) -/
theorem ub_wide (log2f nextUp : ℝ → ℝ) (hacc : ∀ x : ℝ, 1 ≤ x → Real.logb 2 x ≤ nextUp (log2f x))
    (n shifted s : Nat) (hn : 0 < n) (hshift : n < (shifted + 1) * 2 ^ s) (ub : ℝ)
    (hG : nextUp (log2f ((shifted + 1 : Nat) : ℝ)) + s ≤ ub) : Real.logb 2 n ≤ ub :=
  ub_wide_sound log2f nextUp hacc n shifted s hn hshift ub hG

end Dashu.Props.C10Est
