import Dashu.Model.Forms.Float
import Dashu.Proofs.Float.Review
import Dashu.Proofs.Float.Value
import Dashu.Proofs.Float.Digits
import Dashu.Proofs.Float.ReprRound
/-
  C15 (round 5) — the VALUES behind the dashu-float call forms that `drive_forms` now computes (`Model/Forms/Float.lean`):
  the operator-form addition is the definition the four regenerated variants are proved equal to; the trait-method form
  `div_rem_euclid = (div_euclid, rem_euclid)`; what `div_euclid` / `rem_euclid` of two floats denote (`x = q·y + r`,
  `0 ≤ r < |y|`, remainder exact whenever it fits the result context); `<<` / `>>` as multiplication by `B^{±n}`.
-/
namespace Dashu.Props.C15Values
open Dashu Dashu.Model.Float Dashu.Model.Forms

/-- the operator-form addition executed by `drive_forms` IS the definition the four regenerated variants
    `add_val_val … add_ref_ref` are proved equal to in `Props/C15FloatAdd`, `Props/GenFloatForms` -/
theorem opAddSub_eq_review : @Model.Forms.opAddSub = @Model.Float.opAddSub := rfl

/-! ### Euclidean division of floats: the trait-method form and the values -/

/-- `div_rem_euclid` = (`div_euclid`, `rem_euclid`) for every pair of operands, including the panic -/
theorem fDivRemEuclid_pair (B : Nat) (m : Mode) (c : Coarse) (x y : FBigM) :
    fDivRemEuclid B m c x y = (do let q ← fDivEuclid B x y; let r ← fRemEuclid B m c x y; pure (q, r)) := by
  unfold fDivRemEuclid fDivEuclid fRemEuclid
  by_cases h : (alignAsInt B x.repr y.repr).2 = 0
  · simp [h, bind, Except.bind]
  · simp [h, bind, Except.bind, pure, Except.pure]

/-- `align_as_int`: both values are the returned integers at the smaller exponent -/
theorem alignAsInt_value (B : Nat) (hB : 0 < B) (x y : FRepr) :
    x.toRat B = ((alignAsInt B x y).1 : ℚ) * bpowQ B (min x.exp y.exp) ∧
    y.toRat B = ((alignAsInt B x y).2 : ℚ) * bpowQ B (min x.exp y.exp) := by
  unfold alignAsInt FRepr.toRat
  by_cases h : x.exp - y.exp ≥ 0
  · simp only [h, if_true, shlDigits_eq]
    have hmin : min x.exp y.exp = y.exp := by omega
    rw [hmin]
    refine ⟨?_, rfl⟩
    have e : x.exp = ((x.exp - y.exp).toNat : Int) + y.exp := by omega
    conv_lhs => rw [e, bpowQ_add B hB, bpowQ_nat]
    push_cast; ring
  · simp only [h, if_false, shlDigits_eq]
    have hmin : min x.exp y.exp = x.exp := by omega
    rw [hmin]
    refine ⟨rfl, ?_⟩
    have e : y.exp = ((-(x.exp - y.exp)).toNat : Int) + x.exp := by omega
    conv_lhs => rw [e, bpowQ_add B hB, bpowQ_nat]
    push_cast; ring

/-- `div_euclid` panics exactly for a zero divisor -/
theorem fDivEuclid_panics_iff (B : Nat) (hB : 0 < B) (x y : FBigM) :
    fDivEuclid B x y = .error kDivZero ↔ y.repr.signif = 0 := by
  unfold fDivEuclid alignAsInt
  have hp : ∀ k : Nat, ((B ^ k : Nat) : Int) ≠ 0 := fun k => by
    have : 0 < B ^ k := Nat.pow_pos hB
    omega
  by_cases h : x.repr.exp - y.repr.exp ≥ 0
  · simp only [h, if_true]
    by_cases h0 : y.repr.signif = 0 <;> simp [h0]
  · simp only [h, if_false, shlDigits_eq]
    by_cases h0 : y.repr.signif = 0
    · simp [h0]
    · have : y.repr.signif * ((B ^ (-(x.repr.exp - y.repr.exp)).toNat : Nat) : Int) ≠ 0 :=
        Int.mul_ne_zero h0 (hp _)
      simp only [this, if_false]
      simp [h0]

/-- VALUE of the Euclidean quotient: `x = q·y + r` with `0 ≤ r < |y|` -/
theorem fDivEuclid_spec (B : Nat) (hB : 0 < B) (x y : FBigM) (q : Int) (h : fDivEuclid B x y = .ok q) :
    0 ≤ x.repr.toRat B - (q : ℚ) * y.repr.toRat B ∧
    x.repr.toRat B - (q : ℚ) * y.repr.toRat B < |y.repr.toRat B| := by
  obtain ⟨hx, hy⟩ := alignAsInt_value B hB x.repr y.repr
  unfold fDivEuclid at h
  generalize alignAsInt B x.repr y.repr = nd at *
  by_cases hd : nd.2 = 0
  · simp [hd] at h
  · simp only [hd, if_false, Except.ok.injEq] at h
    have hpos := bpowQ_pos B hB (min x.repr.exp y.repr.exp)
    generalize bpowQ B (min x.repr.exp y.repr.exp) = s at *
    have hr0 := Int.emod_nonneg nd.1 hd
    have hr1 : nd.1 % nd.2 < |nd.2| := Int.emod_lt_abs nd.1 hd
    have hdecomp := Int.mul_ediv_add_emod nd.1 nd.2
    have hrem : x.repr.toRat B - (q : ℚ) * y.repr.toRat B = ((nd.1 % nd.2 : Int) : ℚ) * s := by
      rw [hx, hy, ← h]
      have : (nd.1 : ℚ) = (nd.2 : ℚ) * ((nd.1 / nd.2 : Int) : ℚ) + ((nd.1 % nd.2 : Int) : ℚ) := by
        exact_mod_cast hdecomp.symm
      rw [this]; ring
    rw [hrem, hy, abs_mul, abs_of_pos hpos]
    constructor
    · exact mul_nonneg (by exact_mod_cast hr0) hpos.le
    · have : ((nd.1 % nd.2 : Int) : ℚ) < |(nd.2 : ℚ)| := by
        have : ((nd.1 % nd.2 : Int) : ℚ) < ((|nd.2| : Int) : ℚ) := by exact_mod_cast hr1
        simpa [Int.cast_abs] using this
      exact mul_lt_mul_of_pos_right this hpos

/-- the exact remainder left by the Euclidean quotient, as an integer at the smaller exponent -/
theorem fDivEuclid_rem (B : Nat) (hB : 0 < B) (x y : FBigM) (q : Int) (h : fDivEuclid B x y = .ok q) :
    x.repr.toRat B - (q : ℚ) * y.repr.toRat B =
      (((alignAsInt B x.repr y.repr).1 % (alignAsInt B x.repr y.repr).2 : Int) : ℚ) *
        bpowQ B (min x.repr.exp y.repr.exp) := by
  obtain ⟨hx, hy⟩ := alignAsInt_value B hB x.repr y.repr
  unfold fDivEuclid at h
  generalize alignAsInt B x.repr y.repr = nd at *
  by_cases hd : nd.2 = 0
  · simp [hd] at h
  · simp only [hd, if_false, Except.ok.injEq] at h
    have hdecomp := Int.mul_ediv_add_emod nd.1 nd.2
    rw [hx, hy, ← h]
    have : (nd.1 : ℚ) = (nd.2 : ℚ) * ((nd.1 / nd.2 : Int) : ℚ) + ((nd.1 % nd.2 : Int) : ℚ) := by
      exact_mod_cast hdecomp.symm
    rw [this]; ring

/-- the tail of `rem_euclid` / `div_rem_euclid`: the converted integer, moved to the smaller exponent -/
theorem euclidRemTail_value (B : Nat) (hB : 0 < B) (m : Mode) (c : Coarse) (p : Nat) (rExp r : Int) :
    (euclidRemTail B m c p rExp r).repr.toRat B = (convertInt B m c p r).toRat B * bpowQ B rExp ∧
    (euclidRemTail B m c p rExp r).prec = p := by
  unfold euclidRemTail
  refine ⟨?_, rfl⟩
  by_cases h : (convertInt B m c p r).signif = 0
  · simp [h, FRepr.toRat]
  · simp only [h, ne_eq, not_false_eq_true, if_true, FRepr.toRat]
    rw [bpowQ_add B hB]; ring

/-- VALUE of `rem_euclid`: whenever the remainder needs no rounding in the result context (`Context::max` of the operand
    contexts is unlimited, or the remainder has at most that many digits) it is exactly `x − q·y` for the quotient `q`
    of `div_euclid`, hence in `[0, |y|)`; its context is `Context::max`. -/
theorem fRemEuclid_exact (B : Nat) (hB : 2 ≤ B) (m : Mode) (c : Coarse) (x y : FBigM) (q : Int) (r : FBigM)
    (hq : fDivEuclid B x y = .ok q) (hr : fRemEuclid B m c x y = .ok r)
    (hfit : ctxMax x.prec y.prec = 0 ∨
      (FRepr.new B ((alignAsInt B x.repr y.repr).1 % (alignAsInt B x.repr y.repr).2) 0).digits B ≤ ctxMax x.prec y.prec) :
    r.repr.toRat B = x.repr.toRat B - (q : ℚ) * y.repr.toRat B ∧ r.prec = ctxMax x.prec y.prec := by
  have hB0 : 0 < B := by omega
  rw [fDivEuclid_rem B hB0 x y q hq]
  unfold fRemEuclid at hr
  unfold fDivEuclid at hq
  by_cases hd : (alignAsInt B x.repr y.repr).2 = 0
  · simp [hd] at hq
  · simp only [hd, if_false, Except.ok.injEq] at hr
    obtain ⟨hv, hp⟩ := euclidRemTail_value B hB0 m c (ctxMax x.prec y.prec) (min x.repr.exp y.repr.exp)
      ((alignAsInt B x.repr y.repr).1 % (alignAsInt B x.repr y.repr).2)
    rw [hr] at hv hp
    refine ⟨?_, hp⟩
    rw [hv]
    congr 1
    unfold convertInt
    rcases hfit with h0 | hfit
    · rw [h0, reprRound_unlimited]; exact new_int_value B hB _
    · rw [reprRound_exact_of_fits B m c _ _ hfit]; exact new_int_value B hB _

example : fDivRemEuclid 10 .halfAway coarseNone ⟨⟨-12345, -3⟩, 0⟩ ⟨⟨7, 0⟩, 2⟩ = .ok (-2, ⟨⟨17, -1⟩, 2⟩) := by decide

/-! ### shifts -/

/-- `x << n` / `x <<= n`: multiplication by `B^n` (when the exponent stays inside `isize`) -/
theorem fShl_value (B : Nat) (hB : 0 < B) (x y : FBigM) (n : Int) (h : fShl x n = .ok y) :
    y.repr.toRat B = x.repr.toRat B * bpowQ B n ∧ y.prec = x.prec := by
  unfold fShl at h
  by_cases hz : x.repr.isZero = true
  · simp only [hz, if_true, Except.ok.injEq] at h
    subst h
    simp [toRat_zero_of_isZero B x.repr hz]
  · simp only [hz, Bool.false_eq_true, if_false] at h
    split at h
    · exact absurd h (by simp)
    · simp only [Except.ok.injEq] at h
      subst h
      simp only [FRepr.toRat, and_true]
      rw [bpowQ_add B hB]; ring

/-- `x >> n` / `x >>= n`: division by `B^n` -/
theorem fShr_value (B : Nat) (hB : 0 < B) (x y : FBigM) (n : Int) (h : fShr x n = .ok y) :
    y.repr.toRat B = x.repr.toRat B * bpowQ B (-n) ∧ y.prec = x.prec := by
  unfold fShr at h
  by_cases hz : x.repr.isZero = true
  · simp only [hz, if_true, Except.ok.injEq] at h
    subst h
    simp [toRat_zero_of_isZero B x.repr hz]
  · simp only [hz, Bool.false_eq_true, if_false] at h
    split at h
    · exact absurd h (by simp)
    · simp only [Except.ok.injEq] at h
      subst h
      simp only [FRepr.toRat, and_true]
      rw [show x.repr.exp - n = x.repr.exp + -n by omega, bpowQ_add B hB]; ring

/-- `(x << n) >> n = x` for a finite `x` whenever both shifts stay inside `isize` -/
theorem fShl_fShr (x y z : FBigM) (n : Int) (hfin : x.repr.signif = 0 → x.repr.exp = 0)
    (h1 : fShl x n = .ok y) (h2 : fShr y n = .ok z) : z = x := by
  unfold fShl at h1
  unfold fShr at h2
  by_cases hz : x.repr.isZero = true
  · simp only [hz, if_true, Except.ok.injEq] at h1
    subst h1
    simp only [hz, if_true, Except.ok.injEq] at h2
    exact h2.symm
  · simp only [hz, Bool.false_eq_true, if_false] at h1
    split at h1
    · exact absurd h1 (by simp)
    · simp only [Except.ok.injEq] at h1
      subst h1
      have hs : x.repr.signif ≠ 0 := by
        intro h0
        apply hz
        simp [FRepr.isZero, h0, hfin h0]
      have hnz : (⟨x.repr.signif, x.repr.exp + n⟩ : FRepr).isZero = false := by
        simp [FRepr.isZero, hs]
      simp only [hnz, Bool.false_eq_true, if_false] at h2
      split at h2
      · exact absurd h2 (by simp)
      · simp only [Except.ok.injEq] at h2
        subst h2
        have : x.repr.exp + n - n = x.repr.exp := by omega
        simp [this]

example : fShl ⟨⟨5, -3⟩, 10⟩ (2 ^ 63 - 1) = .ok ⟨⟨5, 2 ^ 63 - 4⟩, 10⟩ := by decide
example : fShl ⟨⟨5, 3⟩, 10⟩ (2 ^ 63 - 1) = .error kAddOverflow := by decide

/-! ### `%`: `Context::repr_rem` -/

/-- the remainder of smallest magnitude of `ls·a` modulo `b` (ties to the sign opposite to `ls`) -/
def nearest (ls : Int) (a b : Nat) : Int :=
  if a % b < b - a % b then ls * ((a % b : Nat) : Int) else -ls * ((b - a % b : Nat) : Int)

theorem nearest_spec (ls : Int) (hls : ls = 1 ∨ ls = -1) (a b : Nat) (hb : 0 < b) :
    (∃ k : Int, nearest ls a b = ls * (a : Int) - k * (b : Int)) ∧ 2 * (nearest ls a b).natAbs ≤ b := by
  unfold nearest
  have hlt : a % b < b := Nat.mod_lt a hb
  have hdecomp : (a : Int) = (b : Int) * ((a / b : Nat) : Int) + ((a % b : Nat) : Int) := by
    have := Nat.div_add_mod a b; exact_mod_cast this.symm
  by_cases h : a % b < b - a % b
  · simp only [h, if_true]
    refine ⟨⟨ls * ((a / b : Nat) : Int), ?_⟩, ?_⟩
    · rw [hdecomp]; ring
    · rcases hls with e | e <;> subst e <;> simp <;> omega
  · simp only [h, if_false]
    refine ⟨⟨ls * (((a / b : Nat) : Int) + 1), ?_⟩, ?_⟩
    · rw [Nat.cast_sub hlt.le, hdecomp]; ring
    · rcases hls with e | e <;> subst e <;> simp <;> omega



theorem remSignif_eq_nearest (B : Nat) (hB : 0 < B) (lhs rhs : FRepr) (hr : rhs.signif ≠ 0) :
    remSignif B lhs rhs =
      nearest (if lhs.signif < 0 then -1 else 1)
        (lhs.signif.natAbs * B ^ (lhs.exp - rhs.exp).toNat) (rhs.signif.natAbs * B ^ (rhs.exp - lhs.exp).toNat) := by
  have hb : 0 < rhs.signif.natAbs := Int.natAbs_pos.mpr hr
  unfold remSignif nearest
  generalize (if lhs.signif < 0 then (-1 : Int) else 1) = ls
  generalize lhs.signif.natAbs = a
  generalize rhs.signif.natAbs = b at hb
  by_cases he : lhs.exp = rhs.exp
  · simp [he]
  · simp only [he, if_false]
    by_cases hg : lhs.exp > rhs.exp
    · simp only [hg, if_true]
      have h0 : (rhs.exp - lhs.exp).toNat = 0 := by omega
      simp only [h0, Nat.pow_zero, Nat.mul_one]
      generalize a * B ^ (lhs.exp - rhs.exp).toNat = a'
      have hlt : a' % b < b := Nat.mod_lt a' hb
      by_cases hz : a' % b = 0
      · simp [hz, hb]
      · have : (b - a' % b) % b = b - a' % b := Nat.mod_eq_of_lt (by omega)
        rw [this]
    · simp only [hg, if_false]
      have h0 : (lhs.exp - rhs.exp).toNat = 0 := by omega
      simp only [h0, Nat.pow_zero, Nat.mul_one, splitDigits_eq, splitSpec, shlDigits_eq]
      generalize (rhs.exp - lhs.exp).toNat = s
      have hP : 0 < B ^ s := Nat.pow_pos hB
      -- a = hi·P + lo
      have hhi : Int.tdiv (a : Int) ((B ^ s : Nat) : Int) = ((a / B ^ s : Nat) : Int) := by
        rw [Int.tdiv_eq_ediv_of_nonneg (by omega)]; norm_cast
      have hlo : Int.tmod (a : Int) ((B ^ s : Nat) : Int) = ((a % B ^ s : Nat) : Int) := by
        rw [Int.tmod_eq_emod_of_nonneg (by omega)]; norm_cast
      rw [hhi, hlo]
      have hr1 : Int.emod ((a / B ^ s : Nat) : Int) (b : Int) = (((a / B ^ s) % b : Nat) : Int) := by
        show ((a / B ^ s : Nat) : Int) % (b : Int) = _; norm_cast
      rw [hr1]
      -- a % (b·P) = (a / P % b)·P + a % P
      have hmod : a % (b * B ^ s) = (a / B ^ s % b) * B ^ s + a % B ^ s := by
        rw [Nat.mul_comm b, Nat.mod_mul, Nat.mul_comm, Nat.add_comm]
      have hlt1 : a / B ^ s % b < b := Nat.mod_lt _ hb
      have hlt2 : a % B ^ s < B ^ s := Nat.mod_lt _ hP
      have hle : (a / B ^ s % b) * B ^ s + a % B ^ s < b * B ^ s := by
        calc (a / B ^ s % b) * B ^ s + a % B ^ s < (a / B ^ s % b) * B ^ s + B ^ s := by omega
          _ = (a / B ^ s % b + 1) * B ^ s := by ring
          _ ≤ b * B ^ s := Nat.mul_le_mul_right _ (by omega)
      rw [hmod]
      generalize hx : a / B ^ s % b = x at *
      generalize hy : a % B ^ s = y at *
      generalize B ^ s = P at *
      have e1 : ((x : Int)) * (P : Int) + (y : Int) = ((x * P + y : Nat) : Int) := by push_cast; ring
      have e2 : ((b : Int) - (x : Int)) * (P : Int) - (y : Int) = ((b * P - (x * P + y) : Nat) : Int) := by
        rw [Nat.cast_sub hle.le]; push_cast; ring
      rw [e1, e2]
      by_cases hc : x * P + y < b * P - (x * P + y)
      · have : ((x * P + y : Nat) : Int) < ((b * P - (x * P + y) : Nat) : Int) := by exact_mod_cast hc
        rw [if_pos hc, if_pos this]
      · have : ¬ ((x * P + y : Nat) : Int) < ((b * P - (x * P + y) : Nat) : Int) := by
          intro h; exact hc (by exact_mod_cast h)
        rw [if_neg hc, if_neg this]



theorem toRat_scaled (B : Nat) (hB : 0 < B) (x : FRepr) (e : Int) (he : e ≤ x.exp) :
    x.toRat B = ((x.signif * ((B ^ (x.exp - e).toNat : Nat) : Int) : Int) : ℚ) * bpowQ B e := by
  unfold FRepr.toRat
  have h : x.exp = ((x.exp - e).toNat : Int) + e := by omega
  conv_lhs => rw [h, bpowQ_add B hB, bpowQ_nat]
  push_cast; ring

/-- VALUE of the un-rounded remainder of `Context::repr_rem`: `lhs − k·rhs` for an integer `k`, of magnitude at most
    `|rhs| / 2` (the nearest-quotient remainder) -/
theorem remSignif_value (B : Nat) (hB : 0 < B) (lhs rhs : FRepr) (hr : rhs.signif ≠ 0) :
    ∃ k : Int,
      ((remSignif B lhs rhs : Int) : ℚ) * bpowQ B (min lhs.exp rhs.exp) = lhs.toRat B - (k : ℚ) * rhs.toRat B ∧
      2 * |((remSignif B lhs rhs : Int) : ℚ) * bpowQ B (min lhs.exp rhs.exp)| ≤ |rhs.toRat B| := by
  rw [remSignif_eq_nearest B hB lhs rhs hr]
  have hb : 0 < rhs.signif.natAbs * B ^ (rhs.exp - lhs.exp).toNat :=
    Nat.mul_pos (Int.natAbs_pos.mpr hr) (Nat.pow_pos hB)
  have hls : (if lhs.signif < 0 then (-1 : Int) else 1) = 1 ∨ (if lhs.signif < 0 then (-1 : Int) else 1) = -1 := by
    by_cases h : lhs.signif < 0 <;> simp [h]
  obtain ⟨⟨k, hk⟩, hsmall⟩ := nearest_spec _ hls (lhs.signif.natAbs * B ^ (lhs.exp - rhs.exp).toNat) _ hb
  have hpos := bpowQ_pos B hB (min lhs.exp rhs.exp)
  have hl := toRat_scaled B hB lhs (min lhs.exp rhs.exp) (by omega)
  have hrr := toRat_scaled B hB rhs (min lhs.exp rhs.exp) (by omega)
  have e1 : (lhs.exp - min lhs.exp rhs.exp).toNat = (lhs.exp - rhs.exp).toNat := by omega
  have e2 : (rhs.exp - min lhs.exp rhs.exp).toNat = (rhs.exp - lhs.exp).toNat := by omega
  rw [e1] at hl
  rw [e2] at hrr
  -- signs
  have hsl : lhs.signif = (if lhs.signif < 0 then (-1 : Int) else 1) * (lhs.signif.natAbs : Int) := by
    by_cases h : lhs.signif < 0
    · simp only [h, if_true]; omega
    · simp only [h, if_false]; omega
  obtain ⟨sr, hsr, hsr2⟩ : ∃ sr : Int, (sr = 1 ∨ sr = -1) ∧ rhs.signif = sr * (rhs.signif.natAbs : Int) := by
    by_cases h : rhs.signif < 0
    · exact ⟨-1, Or.inr rfl, by omega⟩
    · exact ⟨1, Or.inl rfl, by omega⟩
  generalize (if lhs.signif < 0 then (-1 : Int) else 1) = ls at *
  generalize hP : B ^ (lhs.exp - rhs.exp).toNat = P at *
  generalize hQ : B ^ (rhs.exp - lhs.exp).toNat = Q at *
  generalize bpowQ B (min lhs.exp rhs.exp) = t at *
  generalize ha : lhs.signif.natAbs = a at *
  generalize hbb : rhs.signif.natAbs = b at *
  have hsr1 : sr * sr = 1 := by rcases hsr with e | e <;> subst e <;> norm_num
  refine ⟨k * sr, ?_, ?_⟩
  · rw [hk, hl, hrr, hsl, hsr2]
    push_cast
    have : ((sr : ℚ)) * (sr : ℚ) = 1 := by exact_mod_cast hsr1
    have h3 : (k : ℚ) * sr * (sr * b * Q * t) = k * b * Q * t * ((sr : ℚ) * sr) := by ring
    rw [h3, this]; ring
  · rw [hrr, hsr2, abs_mul, abs_mul, abs_of_pos hpos]
    have habs : |(((sr * (b : Int) * ((Q : Nat) : Int) : Int)) : ℚ)| = ((b * Q : Nat) : ℚ) := by
      rcases hsr with e | e <;> subst e <;> push_cast <;> simp [abs_mul]
    rw [habs]
    have h2 : (2 : ℚ) * |((nearest ls (a * P) (b * Q) : Int) : ℚ)| ≤ ((b * Q : Nat) : ℚ) := by
      have : ((2 * (nearest ls (a * P) (b * Q)).natAbs : Nat) : ℚ) ≤ ((b * Q : Nat) : ℚ) := by exact_mod_cast hsmall
      rw [← Int.cast_abs, ← Nat.cast_natAbs]
      push_cast at this ⊢
      exact this
    nlinarith [h2, hpos]


/-- `%` panics exactly for a zero divisor -/
theorem reprRem_panics_iff (B : Nat) (m : Mode) (c : Coarse) (p : Nat) (lhs rhs : FRepr) :
    reprRem B m c p lhs rhs = .error kDivZero ↔ rhs.signif = 0 := by
  unfold reprRem
  by_cases h : rhs.signif = 0
  · simp [h]
  · simp only [h, if_false, iff_false]
    split <;> simp

/-- VALUE of `Context::rem` / `FBig % FBig`: whenever the remainder needs no rounding in the context (unlimited precision,
    or it has at most `p` digits) the result is `lhs − k·rhs` for an integer `k`, of magnitude at most `|rhs| / 2` -/
theorem reprRem_value (B : Nat) (hB : 2 ≤ B) (m : Mode) (c : Coarse) (p : Nat) (lhs rhs : FRepr) (v : Rounded FRepr)
    (h : reprRem B m c p lhs rhs = .ok v)
    (hfit : p = 0 ∨ (FRepr.new B (remSignif B lhs rhs) (min lhs.exp rhs.exp)).digits B ≤ p) :
    ∃ k : Int, v.1.toRat B = lhs.toRat B - (k : ℚ) * rhs.toRat B ∧ 2 * |v.1.toRat B| ≤ |rhs.toRat B| := by
  have hB0 : 0 < B := by omega
  unfold reprRem at h
  by_cases hr : rhs.signif = 0
  · simp [hr] at h
  · simp only [hr, if_false] at h
    obtain ⟨k, hk1, hk2⟩ := remSignif_value B hB0 lhs rhs hr
    refine ⟨k, ?_⟩
    by_cases hz : remSignif B lhs rhs = 0
    · simp only [hz, if_true, Except.ok.injEq] at h
      subst h
      rw [hz] at hk1 hk2
      simp only [FRepr.toRat, Int.cast_zero, zero_mul] at hk1 hk2 ⊢
      exact ⟨hk1, hk2⟩
    · simp only [hz, if_false, Except.ok.injEq] at h
      have hv : v.1 = FRepr.new B (remSignif B lhs rhs) (min lhs.exp rhs.exp) := by
        rcases hfit with h0 | hfit
        · rw [← h, h0, reprRound_unlimited]
        · rw [← h, reprRound_exact_of_fits B m c p _ hfit]
      rw [hv, FRepr.new_value B hB0]
      exact ⟨hk1, hk2⟩

example : reprRem 10 .halfAway coarseNone 2 ⟨7, 0⟩ ⟨2, 0⟩ = .ok (⟨-1, 0⟩, none) ∧ reprRem 10 .halfAway coarseNone 2 ⟨12345, 3⟩ ⟨7, 0⟩ = .ok (⟨3, 0⟩, none) := by
  decide

/-! ### the clause "the FBig operator vs the Context method at the same precision" — where it holds for the code as it is.
    `+`/`-`: everywhere (since fix 164990d).  `*`, `/`: outside the stated regions the code disagrees (two recorded findings,
    `corpus/C15/float_ctx_vs_operator.case`, `float_div_long_dividend.case`); those regions are exactly the complements
    of the finding predicates. -/

/-- `*`: `Context::mul` = the operator forms whenever no operand is longer than `2p` digits (or the precision is unlimited) -/
theorem operator_eq_context_mul (B : Nat) (m : Mode) (c : Coarse) (p : Nat) (lhs rhs : FRepr)
    (h : p = 0 ∨ (lhs.digits B ≤ 2 * p ∧ rhs.digits B ≤ 2 * p)) :
    ctxMul false B m c p lhs rhs = opMul B m c p lhs rhs := by
  unfold ctxMul opMul preShrink
  rcases h with h0 | ⟨hl, hr⟩
  · simp [h0]
  · have h1 : ¬ (p ≠ 0 ∧ lhs.digits B > 2 * p) := by omega
    have h2 : ¬ (p ≠ 0 ∧ rhs.digits B > 2 * p) := by omega
    simp [h1, h2]

/-- `+`, `-`: the operator forms = `Context::add/sub` for ALL operands (C03's theorem `opAddSub_eq_ctx_all`, restated for the
    definition the driver executes).  Until 164990d this carried `lhs.digits ≤ p`, `rhs.digits ≤ p`: the zero-operand
    shortcut of add_val_val/… returned the other operand unrounded; the repaired code rounds it, the hypotheses are gone. -/
theorem operator_eq_context_addsub (B : Nat) (m : Mode) (c : Coarse) (dub : Int → Nat) (p : Nat) (lhs rhs : FRepr)
    (rs : Int) (hrs : rs = 1 ∨ rs = -1) :
    Model.Forms.opAddSub B m c dub p lhs rhs rs = (ctxAddSub B m c dub p lhs rhs rs).1 :=
  opAddSub_eq_ctx_all B m c dub p lhs rhs rs hrs

/-- `+`, `-` with both operands non-zero: the same, with no condition on the sign factor `rs` either -/
theorem operator_eq_context_addsub_nonzero (B : Nat) (m : Mode) (c : Coarse) (dub : Int → Nat) (p : Nat) (lhs rhs : FRepr)
    (rs : Int) (hl : lhs.isZero = false) (hr : rhs.isZero = false) :
    Model.Forms.opAddSub B m c dub p lhs rhs rs = (ctxAddSub B m c dub p lhs rhs rs).1 := by
  unfold Model.Forms.opAddSub
  simp [hl, hr]

/-- the whole operation table: for `+` and `-` the operator forms and the `Context` method form answer alike on every pair
    of finite operands (the clause "operator vs Context method at the same precision", add/sub part, without exception) -/
theorem operator_eq_context_addsub_table (B : Nat) (m : Mode) (e : Est) (x y : FBigM) :
    opBin B m e "add" x y = ctxBin B m e "add" x y ∧ opBin B m e "sub" x y = ctxBin B m e "sub" x y := by
  constructor
  · show some _ = some _
    rw [operator_eq_context_addsub B m coarseNone e.dub _ x.repr y.repr 1 (Or.inl rfl)]
  · show some _ = some _
    rw [operator_eq_context_addsub B m coarseNone e.dub _ x.repr y.repr (-1) (Or.inr rfl)]

-- the witness of the repaired defect (`0 (p=2) + 74565 (unlimited)`), now 75e3 in the operator forms as in `Context::add`
example : Model.Forms.opAddSub 10 .halfAway coarseNone (digitsI 10) 2 ⟨0, 0⟩ ⟨74565, 0⟩ 1 = ⟨75, 3⟩ := by decide

/-- `/`: the operator forms = `Context::div` whenever the dividend is not pre-shrunk and passes `repr_div`'s assertion -/
theorem operator_eq_context_div (B : Nat) (m : Mode) (c : Coarse) (dub dlb : Int → Nat) (p : Nat) (lhs rhs : FRepr)
    (hp : p ≠ 0) (hno : ¬ (¬ lhs.isZero ∧ dub lhs.signif > dlb rhs.signif + p)) (hlen : lhs.digits B ≤ p + rhs.digits B) :
    opDiv B m p lhs rhs =
      (match ctxDiv B m c dub dlb p lhs rhs with | .ok r => .ok r.1 | .error k => .error (ofFPanic k)) := by
  unfold opDiv ctxDiv
  have : ¬ (lhs.digits B > p + rhs.digits B) := by omega
  simp only [hp, if_false, this, hno]
  rfl

/-- `%`: `Context::rem` and the operator forms are the same call -/
theorem operator_eq_context_rem (B : Nat) (m : Mode) (e : Est) (x y : FBigM) :
    opBin B m e "rem" x y = ctxBin B m e "rem" x y := rfl

/-- the operation table, `*`: the operator forms and `Context::max(..).mul` answer alike on every pair of finite operands
    none of which is longer than twice the result precision (the complement is the recorded pre-shrink finding) -/
theorem operator_eq_context_mul_table (B : Nat) (m : Mode) (e : Est) (x y : FBigM)
    (h : ctxMax x.prec y.prec = 0 ∨
      (x.repr.digits B ≤ 2 * ctxMax x.prec y.prec ∧ y.repr.digits B ≤ 2 * ctxMax x.prec y.prec)) :
    opBin B m e "mul" x y = ctxBin B m e "mul" x y := by
  show some _ = some _
  rw [operator_eq_context_mul B m coarseNone _ x.repr y.repr h]

/-- the operation table, `/`: the same for a dividend that `Context::div` does not pre-shrink and `repr_div` accepts -/
theorem operator_eq_context_div_table (B : Nat) (m : Mode) (e : Est) (x y : FBigM)
    (hp : ctxMax x.prec y.prec ≠ 0)
    (hno : ¬ (¬ x.repr.isZero ∧ e.dub x.repr.signif > e.dlb y.repr.signif + ctxMax x.prec y.prec))
    (hlen : x.repr.digits B ≤ ctxMax x.prec y.prec + y.repr.digits B) :
    opBin B m e "div" x y = ctxBin B m e "div" x y := by
  show some _ = some _
  rw [operator_eq_context_div B m coarseNone e.dub e.dlb _ x.repr y.repr hp hno hlen]
  cases ctxDiv B m coarseNone e.dub e.dlb (ctxMax x.prec y.prec) x.repr y.repr <;> rfl

example : ctxMax (FBigM.mk ⟨15, 0⟩ 0).prec (FBigM.mk ⟨1, 0⟩ 1).prec = 1 ∧ (⟨15, 0⟩ : FRepr).digits 10 ≤ 2 * 1 ∧
    (⟨1, 0⟩ : FRepr).digits 10 ≤ 2 * 1 := by decide

example : (⟨15, 0⟩ : FRepr).digits 10 ≤ 2 * 1 ∧ ctxMul false 10 .halfAway coarseNone 1 ⟨15, 0⟩ ⟨1, 0⟩ = (⟨2, 1⟩, some .AddOne) := by
  decide


/-! ### non-vacuity of the hypothesis-carrying theorems above -/

-- `fDivEuclid_spec`, `fDivEuclid_rem`, `fRemEuclid_exact` (unlimited result context: the remainder is exact)
example : fDivEuclid 10 ⟨⟨-12345, -3⟩, 0⟩ ⟨⟨7, 0⟩, 0⟩ = .ok (-2) ∧
    fRemEuclid 10 .halfAway coarseNone ⟨⟨-12345, -3⟩, 0⟩ ⟨⟨7, 0⟩, 0⟩ = .ok ⟨⟨1655, -3⟩, 0⟩ ∧
    ctxMax (0 : Nat) 0 = 0 := by decide

-- `fRemEuclid_exact`, limited context: a remainder of 2 digits fits `Context::max = 3`
example : fRemEuclid 10 .halfAway coarseNone ⟨⟨25, -1⟩, 3⟩ ⟨⟨1, 0⟩, 2⟩ = .ok ⟨⟨5, -1⟩, 3⟩ ∧
    (FRepr.new 10 ((alignAsInt 10 ⟨25, -1⟩ ⟨1, 0⟩).1 % (alignAsInt 10 ⟨25, -1⟩ ⟨1, 0⟩).2) 0).digits 10 ≤ ctxMax 3 2 := by
  decide

-- `reprRem_value`: the fit hypothesis on a concrete tie (7 % 2 at two digits)
example : (FRepr.new 10 (remSignif 10 ⟨7, 0⟩ ⟨2, 0⟩) (min 0 0)).digits 10 ≤ 2 := by decide

-- `operator_eq_context_div`: a dividend that is neither pre-shrunk nor over-long (exact digit counts as estimators)
example : (2 : Nat) ≠ 0 ∧ ¬ (¬ (⟨1, 0⟩ : FRepr).isZero ∧ digitsI 10 1 > digitsI 10 3 + 2) ∧
    (⟨1, 0⟩ : FRepr).digits 10 ≤ 2 + (⟨3, 0⟩ : FRepr).digits 10 ∧ opDiv 10 .halfAway 2 ⟨1, 0⟩ ⟨3, 0⟩ = .ok ⟨33, -2⟩ := by
  decide

-- `operator_eq_context_addsub_nonzero`
example : (⟨12345, 0⟩ : FRepr).isZero = false ∧ (⟨1, -1⟩ : FRepr).isZero = false := by decide


end Dashu.Props.C15Values
