import Dashu.Gen.BitDispatch
import Dashu.Props.GenBitOpsHeap
/-
  C09, Tie A over the OPERATOR DISPATCH of the unsigned bit operators (`integer/src/bits.rs`, `mod repr`): the sixteen
  `impl BitAnd|BitOr|BitXor|AndNot<TypedRepr|TypedReprRef> for TypedRepr|TypedReprRef`.  `Dashu.Gen.BitDispatch` is regenerated from
  the Rust text on every run: the `match (self, rhs)` arms (inline/inline `from_dword(a OP b)`, the `lowest_dword` shortcuts of `&`
  and `and_not`, which callee gets which operand in which order, the `len0 <= len1` / `len0 >= len1` operand choice, the commutative
  forwarding `rhs.op(self)` of the ref_val forms) over the word loops regenerated in `Gen/BitOpsHeap`.
  Theorems: every ownership form of every operator, on operands whose heap form has at least two words (canonical heap values have
  at least three), never fails and IS the hand model's `TRepr.bitand / bitor / bitxor / andNot` — the definitions the driver executes
  and whose two's-complement meaning `Props/C09.lean` proves.
-/
namespace Dashu.Props.GenBitDispatch
open Dashu.Model Dashu.GluePrelude Dashu.Gen.BitOpsHeap Dashu.Gen.BitDispatch Dashu.Props.GenBitOpsHeap

/-- the heap form of the operand has at least two words (`Buffer::lowest_dword` asserts it; canonical heap values have ≥ 3) -/
def Wide : TRepr → Prop
  | .small _ => True
  | .large ws => 2 ≤ ws.length

theorem lowest_dword_eq (W : Nat) (ws : List Nat) (h : 2 ≤ ws.length) : lowest_dword W ws = some (lowestDword W ws) := by
  match ws, h with
  | lo :: hi :: t, _ => simp [lowest_dword, lowestDword, MachInt.double_word]

/-- fewer than two words: the checked read refuses (the assertion of `Buffer::lowest_dword`) -/
theorem lowest_dword_short (W w : Nat) : lowest_dword W [w] = none ∧ lowest_dword W [] = none := ⟨rfl, rfl⟩

theorem zipAnd_comm : ∀ a b : List Nat, zipAnd a b = zipAnd b a
  | [], [] => rfl
  | [], _ :: _ => rfl
  | _ :: _, [] => rfl
  | x :: a, y :: b => by simp [zipAnd, Nat.land_comm x y, zipAnd_comm a b]

theorem zipOr_comm : ∀ a b : List Nat, zipOr a b = zipOr b a
  | [], [] => rfl
  | [], _ :: _ => by simp [zipOr]
  | _ :: _, [] => by simp [zipOr]
  | x :: a, y :: b => by simp [zipOr, Nat.lor_comm x y, zipOr_comm a b]

theorem zipXor_comm : ∀ a b : List Nat, zipXor a b = zipXor b a
  | [], [] => rfl
  | [], _ :: _ => by simp [zipXor]
  | _ :: _, [] => by simp [zipXor]
  | x :: a, y :: b => by simp [zipXor, Nat.xor_comm x y, zipXor_comm a b]

theorem bitand_comm (W : Nat) (x y : TRepr) : TRepr.bitand W x y = TRepr.bitand W y x := by
  cases x <;> cases y <;> simp [TRepr.bitand, Nat.land_comm, zipAnd_comm]

theorem bitor_comm (W : Nat) (x y : TRepr) : TRepr.bitor W x y = TRepr.bitor W y x := by
  cases x <;> cases y <;> simp [TRepr.bitor, Nat.lor_comm, zipOr_comm]

theorem bitxor_comm (W : Nat) (x y : TRepr) : TRepr.bitxor W x y = TRepr.bitxor W y x := by
  cases x <;> cases y <;> simp [TRepr.bitxor, Nat.xor_comm, zipXor_comm]

/-- **`&` on TypedRepr / TypedReprRef**, all four ownership forms (the `ref_val` form forwards with swapped operands) -/
theorem gen_bitand_dispatch (W U : Nat) (x y : TRepr) (hx : Wide x) (hy : Wide y) :
    BitAnd_val_val W U x y = some (TRepr.bitand W x y) ∧ BitAnd_val_ref W U x y = some (TRepr.bitand W x y) ∧
    BitAnd_ref_val W U x y = some (TRepr.bitand W x y) ∧ BitAnd_ref_ref W U x y = some (TRepr.bitand W x y) := by
  have key : ∀ x y : TRepr, Wide x → Wide y →
      BitAnd_val_val W U x y = some (TRepr.bitand W x y) ∧ BitAnd_val_ref W U x y = some (TRepr.bitand W x y) ∧
      BitAnd_ref_ref W U x y = some (TRepr.bitand W x y) := by
    intro x y hx hy
    cases x with
    | small a =>
      cases y with
      | small b => simp [BitAnd_val_val, BitAnd_val_ref, BitAnd_ref_ref, TRepr.bitand]
      | large b => simp [BitAnd_val_val, BitAnd_val_ref, BitAnd_ref_ref, TRepr.bitand, lowest_dword_eq W b hy]
    | large a =>
      cases y with
      | small b => simp [BitAnd_val_val, BitAnd_val_ref, BitAnd_ref_ref, TRepr.bitand, lowest_dword_eq W a hx]
      | large b =>
        simp only [BitAnd_val_val, BitAnd_val_ref, BitAnd_ref_ref, TRepr.bitand, gen_bitand_large, zipAnd_comm b a]
        split <;> simp
  obtain ⟨h1, h2, h3⟩ := key x y hx hy
  refine ⟨h1, h2, ?_, h3⟩
  rw [BitAnd_ref_val, (key y x hy hx).2.1, bitand_comm]

/-- **`|` on TypedRepr / TypedReprRef**, all four ownership forms -/
theorem gen_bitor_dispatch (W U : Nat) (x y : TRepr) (hx : Wide x) (hy : Wide y) :
    BitOr_val_val W U x y = some (TRepr.bitor W x y) ∧ BitOr_val_ref W U x y = some (TRepr.bitor W x y) ∧
    BitOr_ref_val W U x y = some (TRepr.bitor W x y) ∧ BitOr_ref_ref W U x y = some (TRepr.bitor W x y) := by
  have key : ∀ x y : TRepr, Wide x → Wide y →
      BitOr_val_val W U x y = some (TRepr.bitor W x y) ∧ BitOr_val_ref W U x y = some (TRepr.bitor W x y) ∧
      BitOr_ref_ref W U x y = some (TRepr.bitor W x y) := by
    intro x y hx hy
    cases x with
    | small a =>
      cases y with
      | small b => simp [BitOr_val_val, BitOr_val_ref, BitOr_ref_ref, TRepr.bitor]
      | large b => simp [BitOr_val_val, BitOr_val_ref, BitOr_ref_ref, TRepr.bitor, (gen_large_dword W U a b hy).1]
    | large a =>
      cases y with
      | small b => simp [BitOr_val_val, BitOr_val_ref, BitOr_ref_ref, TRepr.bitor, (gen_large_dword W U b a hx).1]
      | large b =>
        simp only [BitOr_val_val, BitOr_val_ref, BitOr_ref_ref, TRepr.bitor, gen_bitor_large, zipOr_comm b a]
        split <;> simp
  obtain ⟨h1, h2, h3⟩ := key x y hx hy
  refine ⟨h1, h2, ?_, h3⟩
  rw [BitOr_ref_val, (key y x hy hx).2.1, bitor_comm]

/-- **`^` on TypedRepr / TypedReprRef**, all four ownership forms -/
theorem gen_bitxor_dispatch (W U : Nat) (x y : TRepr) (hx : Wide x) (hy : Wide y) :
    BitXor_val_val W U x y = some (TRepr.bitxor W x y) ∧ BitXor_val_ref W U x y = some (TRepr.bitxor W x y) ∧
    BitXor_ref_val W U x y = some (TRepr.bitxor W x y) ∧ BitXor_ref_ref W U x y = some (TRepr.bitxor W x y) := by
  have key : ∀ x y : TRepr, Wide x → Wide y →
      BitXor_val_val W U x y = some (TRepr.bitxor W x y) ∧ BitXor_val_ref W U x y = some (TRepr.bitxor W x y) ∧
      BitXor_ref_ref W U x y = some (TRepr.bitxor W x y) := by
    intro x y hx hy
    cases x with
    | small a =>
      cases y with
      | small b => simp [BitXor_val_val, BitXor_val_ref, BitXor_ref_ref, TRepr.bitxor]
      | large b => simp [BitXor_val_val, BitXor_val_ref, BitXor_ref_ref, TRepr.bitxor, (gen_large_dword W U a b hy).2.1]
    | large a =>
      cases y with
      | small b => simp [BitXor_val_val, BitXor_val_ref, BitXor_ref_ref, TRepr.bitxor, (gen_large_dword W U b a hx).2.1]
      | large b =>
        simp only [BitXor_val_val, BitXor_val_ref, BitXor_ref_ref, TRepr.bitxor, gen_bitxor_large, zipXor_comm b a]
        split <;> simp
  obtain ⟨h1, h2, h3⟩ := key x y hx hy
  refine ⟨h1, h2, ?_, h3⟩
  rw [BitXor_ref_val, (key y x hy hx).2.1, bitxor_comm]

/-- **`and_not` on TypedRepr / TypedReprRef** (`self & !rhs`, NOT commutative: four separate match bodies, no forwarding) -/
theorem gen_and_not_dispatch (W U : Nat) (x y : TRepr) (hx : Wide x) (hy : Wide y) :
    AndNot_val_val W U x y = some (TRepr.andNot W x y) ∧ AndNot_val_ref W U x y = some (TRepr.andNot W x y) ∧
    AndNot_ref_val W U x y = some (TRepr.andNot W x y) ∧ AndNot_ref_ref W U x y = some (TRepr.andNot W x y) := by
  cases x with
  | small a =>
    cases y with
    | small b => simp [AndNot_val_val, AndNot_val_ref, AndNot_ref_val, AndNot_ref_ref, TRepr.andNot, MachInt.not]
    | large b =>
      simp [AndNot_val_val, AndNot_val_ref, AndNot_ref_val, AndNot_ref_ref, TRepr.andNot, MachInt.not, lowest_dword_eq W b hy]
  | large a =>
    cases y with
    | small b =>
      simp [AndNot_val_val, AndNot_val_ref, AndNot_ref_val, AndNot_ref_ref, TRepr.andNot, (gen_large_dword W U b a hx).2.2]
    | large b => simp [AndNot_val_val, AndNot_val_ref, AndNot_ref_val, AndNot_ref_ref, TRepr.andNot, gen_and_not_large]

-- non-vacuity (64-bit words): each operand-kind pair and both length orders through the regenerated dispatch
example : BitAnd_val_val 64 64 (.large [7, 2 ^ 64 - 1, 5, 9]) (.large [3, 1, 4]) = some (.large [3, 1, 4]) ∧
    BitAnd_ref_val 64 64 (.small 6) (.large [3, 1, 4]) = some (.small 2) ∧
    BitOr_ref_ref 64 64 (.large [1, 2, 4]) (.large [2, 1, 3, 8]) = some (.large [3, 3, 7, 8]) ∧
    BitOr_ref_val 64 64 (.small 4) (.large [1, 2, 3]) = some (.large [5, 2, 3]) ∧
    BitXor_val_ref 64 64 (.large [1, 2, 4, 8]) (.large [1, 2, 4]) = some (.large [0, 0, 0, 8]) ∧
    AndNot_ref_val 64 64 (.large [7, 7, 7]) (.large [1, 2 ^ 64 - 1, 0, 5]) = some (.large [6, 0, 7]) ∧
    AndNot_val_ref 64 64 (.small 7) (.large [5, 0, 1]) = some (.small 2) ∧
    BitAnd_val_val 64 64 (.small 6) (.large [3]) = none := by
  refine ⟨by decide, by decide, by decide, by decide, by decide, by decide, by decide, by decide⟩

end Dashu.Props.GenBitDispatch
