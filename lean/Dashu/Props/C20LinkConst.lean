import Dashu.Props.C20
import Dashu.Model.Int.FloatConst
/-
  C20 ↔ C05 link (round 8, second item): `FBig::from_parts_const(sign, mag, exp, Some(prec))` — the
  const path of `fbig!` / `dbig!` (significand of at most 32 bits) — is modelled in Props/C20 by its
  value (`floatExpansionAsIs`, const arm).  C05 owns the statement-by-statement mirror
  (`Model/Int/FloatConst.lean` `fromPartsConst`: own normaliser on a double word + precision loop).
  Here, on the mirror itself: the representation part on the parts of every accepted literal, and the
  zero arm (`return Self::ZERO`, the recorded finding: precision 0 whatever `min_precision`).
-/
namespace Dashu.Props.C20Link
open Dashu.Model.Serde Dashu.Model.Macro

/-- the mirrored `from_parts_const` on a non-zero magnitude not divisible by the base (2 or 10): the
    representation is `±mag · B^exp` unchanged and the precision is at least `min_precision` -/
theorem from_parts_const_fixed (W : Nat) (binary : Bool) (neg : Bool) (mag : Nat) (e : Int) (prec : Nat)
    (hm : mag ≠ 0) (hn : mag % (if binary then 2 else 10) ≠ 0) :
    (Dashu.Model.fromPartsConst W (if binary then 2 else 10) neg mag e (some prec)).1 = ⟨signedVal neg mag, e⟩ ∧
    prec ≤ (Dashu.Model.fromPartsConst W (if binary then 2 else 10) neg mag e (some prec)).2 := by
  cases binary with
  | true =>
    simp only [if_true] at hn ⊢
    have hp : (2 : Nat) = 2 ^ (Dashu.Model.NT.bitLen 2 - 1) := by decide
    have htz2 : Dashu.Model.NT.trailingZeros 2 = 1 := by decide
    have htz : Dashu.Model.NT.trailingZeros mag = 0 := by
      unfold Dashu.Model.NT.trailingZeros
      cases mag with
      | zero => exact absurd rfl hm
      | succ k =>
        unfold Dashu.Model.NT.tzLoop
        have : (k + 1) % 2 = 1 := by omega
        simp [this]
    unfold Dashu.Model.fromPartsConst
    rw [if_neg hm, if_pos hp, htz2, htz]
    simp [signedVal]
  | false =>
    simp only [Bool.false_eq_true, if_false] at hn ⊢
    have hp : ¬ ((10 : Nat) = 2 ^ (Dashu.Model.NT.bitLen 10 - 1)) := by decide
    have hstrip : Dashu.Model.constStrip 10 (2 * W) mag e = (mag, e) := by
      cases h : 2 * W with
      | zero => rfl
      | succ f => unfold Dashu.Model.constStrip; simp [hn]
    unfold Dashu.Model.fromPartsConst
    rw [if_neg hm, if_neg hp, hstrip]
    simp [signedVal]

/-- the zero arm of the mirror (`if significand == 0 { return Self::ZERO; }`): precision 0 whatever
    `min_precision` — exactly the const arm of `floatExpansionAsIs` for a zero literal (recorded finding) -/
theorem from_parts_const_zero (W B : Nat) (neg : Bool) (e : Int) (mp : Option Nat) :
    Dashu.Model.fromPartsConst W B neg 0 e mp = (⟨0, 0⟩, 0) := by
  simp [Dashu.Model.fromPartsConst]

/-- **const path of the float macros on the mirrored constructor**: whenever the generator takes the
    const path (`bit_len ≤ 32`) on a parsed (normalised or zero) magnitude, C05's mirror of
    `FBig::from_parts_const(sign, mag, exp, Some(prec))` builds exactly the representation the C20 model
    assigns to the expansion; for a zero literal also exactly its precision (0 — the recorded finding),
    otherwise a precision not below the one written -/
theorem const_path_is_mirrored_constructor (W : Nat) (binary st neg : Bool) (mag : Nat) (e : Int) (prec : Nat)
    (hc : floatPath st mag = .const) (hn : mag = 0 ∨ mag % (if binary then 2 else 10) ≠ 0) :
    (Dashu.Model.fromPartsConst W (if binary then 2 else 10) neg mag e (some prec)).1 =
      ⟨(floatExpansionAsIs st neg mag e prec).2.signif, (floatExpansionAsIs st neg mag e prec).2.exp⟩ ∧
    (mag = 0 → (Dashu.Model.fromPartsConst W (if binary then 2 else 10) neg mag e (some prec)).2 =
      (floatExpansionAsIs st neg mag e prec).2.prec) ∧
    (mag ≠ 0 → (floatExpansionAsIs st neg mag e prec).2.prec ≤
      (Dashu.Model.fromPartsConst W (if binary then 2 else 10) neg mag e (some prec)).2) := by
  have hb : Dashu.Model.Text.bitLen mag ≤ 32 := by
    unfold floatPath at hc
    by_cases hb : Dashu.Model.Text.bitLen mag ≤ 32
    · exact hb
    · rw [if_neg hb] at hc
      cases st <;> simp at hc
  unfold floatExpansionAsIs
  rw [if_pos hb]
  by_cases h0 : mag = 0
  · subst h0
    rw [from_parts_const_zero]
    simp
  · have hn' : mag % (if binary then 2 else 10) ≠ 0 := by
      rcases hn with h | h
      · exact absurd h h0
      · exact h
    obtain ⟨a, b⟩ := from_parts_const_fixed W binary neg mag e prec h0 hn'
    simp only [if_neg h0]
    exact ⟨a, fun h => absurd h h0, fun _ => b⟩

/-- on EVERY accepted `fbig!` / `dbig!` literal with a non-zero significand: the mirrored
    `from_parts_const` on the parts the macro emits (`sign`, `|significand|`, exponent, `Some(precision)`)
    returns the parsed representation -/
theorem from_parts_const_on_literal (W : Nat) (binary : Bool) (toks : List Tok) (v : FPVal)
    (h : floatLiteral binary toks = some v) (hs : v.signif ≠ 0) :
    (Dashu.Model.fromPartsConst W (if binary then 2 else 10) (decide (v.signif < 0)) v.signif.natAbs v.exp
      (some v.prec)).1 = ⟨v.signif, v.exp⟩ := by
  have hcanon := (floatLiteral_spec binary toks v h).2
  have hm : v.signif.natAbs % (if binary then 2 else 10) ≠ 0 := hcanon.2.1 hs
  obtain ⟨a, _⟩ := from_parts_const_fixed W binary (decide (v.signif < 0)) v.signif.natAbs v.exp v.prec
    (Int.natAbs_ne_zero.mpr hs) hm
  rw [a]
  congr 1
  unfold signedVal
  by_cases hneg : v.signif < 0
  · rw [if_pos (decide_eq_true hneg)]; omega
  · rw [if_neg (by simpa using hneg)]; omega

-- non-vacuity: `dbig!(1.50e2)` = 15·10^1, 3 digits; `fbig!(-0x1_8p3)` = −3·2^6, 8 bits; `dbig!(0.00)`
example : Dashu.Model.fromPartsConst 64 10 false 15 1 (some 3) = (⟨15, 1⟩, 3) ∧
    floatExpansionAsIs false false 15 1 3 = (.const, ⟨15, 1, 3⟩) ∧
    Dashu.Model.fromPartsConst 32 2 true 3 6 (some 8) = (⟨-3, 6⟩, 8) ∧
    floatExpansionAsIs true true 3 6 8 = (.const, ⟨-3, 6, 8⟩) ∧
    Dashu.Model.fromPartsConst 64 10 false 0 0 (some 3) = (⟨0, 0⟩, 0) ∧
    floatExpansionAsIs false false 0 0 3 = (.const, ⟨0, 0, 0⟩) := by
  refine ⟨?_, ?_, ?_, ?_, ?_, ?_⟩ <;> decide +kernel

end Dashu.Props.C20Link
