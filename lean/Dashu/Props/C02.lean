import Dashu.Proofs.Int.Div
/-
  C02 — Integer division obeys the division identity with documented conventions.
-/
namespace Dashu.Props.C02
open Dashu.Model Dashu.Model.Div

/-- inline / inline division: `checked_div` -/
theorem div_rem_dword_exact (a b : Nat) :
    divRemDword a b = if b = 0 then .error .divideByZero else .ok (.small (a / b), .small (a % b)) := rfl

end Dashu.Props.C02
