import Dashu.Proofs.Int.Div
import Dashu.Proofs.Int.NumModular
import Dashu.Proofs.Int.NumModularContract
import Dashu.Proofs.Int.DivMemory
import Dashu.Proofs.Int.PrimDiv
import Dashu.Props.GenInt
/-
  C02 — Integer division obeys the division identity with documented conventions; division
  through a prepared ConstDivisor gives the same quotient and remainder as plain division;
  division by zero panics.

  Every statement quantifies over all word sizes `W ≥ 1` and all operand lengths; operands are
  canonical magnitudes (`TRepr.Canon W`) / well-formed signed values (`SRepr.WF W`), word lists
  are `IsWords W`.  The definitions are the ones `drive_div` executes (`Dashu/Model/Int/Div.lean`).

  Structure:
  * §1 conventions: what `Int.tdiv/tmod` and `Int.ediv/emod` mean (identity, range, sign);
  * §2 kernels: word / double-word divisors, Knuth D step and loop, Burnikel–Ziegler (with
        C01's proved multiplication; theorems through it need `4 ≤ W`), multi-word division;
  * §3 dispatch: `/`, `%`, `div_rem` on magnitudes = `Nat` `/ %`, zero divisor = DivideByZero;
  * §4 sign tables: the executable glue of the model equals the glue REGENERATED from /repo
        (`Dashu.Gen`, Tie A), whose meaning is proved in `Dashu.Props.GenInt`; hence every IBig /
        mixed form equals `Int.tdiv/tmod` resp. `Int.ediv/emod`; zero divisor = DivideByZero;
  * §5 ConstDivisor = plain division;
  * §6 the num-modular dividers (Möller–Granlund 2-by-1, 3-by-2, reciprocals) mirrored and proved
        equal to floor division: the division model's contract parameters are discharged;
  * §7 `div::memory_requirement_exact` suffices for every scratch allocation of a division;
  * §8 the primitive kernels of base/src/ring/div_rem.rs on every machine integer type.
-/
namespace Dashu.Props.C02
open Dashu Dashu.Model Dashu.Model.Div Dashu.Gen Dashu.GluePrelude

-- ================================================================== §1 conventions

/-- truncating division: identity, `|r| < |b|`, `r = 0` or `sign r = sign a` -/
theorem truncating_conventions (a b : Int) (hb : b ≠ 0) :
    a = Int.tdiv a b * b + Int.tmod a b ∧ (Int.tmod a b).natAbs < b.natAbs ∧
    (Int.tmod a b = 0 ∨ (Int.tmod a b).sign = a.sign) := by
  refine ⟨by rw [Int.mul_comm]; exact (Int.mul_tdiv_add_tmod a b).symm, ?_, ?_⟩
  · rw [Int.natAbs_tmod]; exact Nat.mod_lt _ (Int.natAbs_pos.mpr hb)
  · have h := Int.sign_tmod a b
    by_cases hd : b ∣ a
    · left; rw [if_pos hd] at h; exact Int.sign_eq_zero_iff_zero.mp h
    · right; rw [if_neg hd] at h; exact h

/-- Euclidean division: identity and `0 ≤ r < |b|` -/
theorem euclidean_conventions (a b : Int) (hb : b ≠ 0) :
    a = (a / b) * b + a % b ∧ 0 ≤ a % b ∧ a % b < (b.natAbs : Int) :=
  ⟨by rw [Int.mul_comm]; exact (Int.mul_ediv_add_emod a b).symm, Int.emod_nonneg a hb, Int.emod_lt a hb⟩

-- ================================================================== §2 kernels

/-- `div_by_word_in_place` (power-of-two shortcut, normalisation shift, remainder un-shift):
    exact division of a slice by a non-zero word -/
theorem div_by_word_exact (W rhs : Nat) (ws : List Nat) (h : IsWords W ws)
    (hrhs : 0 < rhs) (hlt : rhs < 2 ^ W) :
    ∃ qs r, divByWordInPlace W ws rhs = .ok (qs, r) ∧
      val W qs * rhs + r = val W ws ∧ r < rhs ∧ qs.length = ws.length ∧ IsWords W qs :=
  divByWordInPlace_spec W rhs ws h hrhs hlt

/-- `div_by_dword_in_place` (power-of-two path for 2^W..2^(2W−1), 3by2/4by2 chain, odd leftover
    word): exact division of a slice (≥ 2 words) by a double-word divisor -/
theorem div_by_dword_exact (W rhs : Nat) (hW : 1 ≤ W) (ws : List Nat) (h : IsWords W ws)
    (hlen : 2 ≤ ws.length) (hge : 2 ^ W ≤ rhs) (hlt : rhs < 2 ^ (2 * W)) :
    ∃ qs r, divByDwordInPlace W ws rhs = .ok (qs, r) ∧
      val W qs * rhs + r = val W ws ∧ r < rhs ∧ qs.length = ws.length ∧ IsWords W qs :=
  divByDwordInPlace_spec W rhs hW ws h hlen hge hlt

/-- `rem_by_word` -/
theorem rem_by_word_exact (W rhs : Nat) (ws : List Nat) (h : IsWords W ws) (hne : ws ≠ [])
    (hrhs : 0 < rhs) (hlt : rhs < 2 ^ W) : remByWord W ws rhs = .ok (val W ws % rhs) :=
  remByWord_spec W rhs ws h hne hrhs hlt

/-- `rem_by_dword` -/
theorem rem_by_dword_exact (W rhs : Nat) (hW : 1 ≤ W) (ws : List Nat) (h : IsWords W ws)
    (hlen : 2 ≤ ws.length) (hge : 2 ^ W ≤ rhs) (hlt : rhs < 2 ^ (2 * W)) :
    remByDword W ws rhs = .ok (val W ws % rhs) :=
  remByDword_spec W rhs hW ws h hlen hge hlt

/-- Knuth D, one step (`div_rem_highest_word`): with a normalised divisor the 3-by-2 estimate (or
    `B − 1`) is never too small and too large by at most one, the `borrow > lhs_top` test detects
    exactly the too-large case, the add-back carries, and both `debug_assert!`s hold -/
theorem knuth_step_exact (W : Nat) (hW : 1 ≤ W) (lhsTop : Nat) (lhsLo rhs : List Nat)
    (hn : 2 ≤ rhs.length) (hL : rhs.length ≤ lhsLo.length)
    (hlo : IsWords W lhsLo) (hr : IsWords W rhs)
    (hnorm : 2 ^ (W * rhs.length) ≤ 2 * val W rhs)
    (hA : val W (lhsLo.drop (lhsLo.length - rhs.length)) + lhsTop * 2 ^ (W * rhs.length)
        < val W rhs * 2 ^ W) :
    ∃ q win', divRemHighestWord W lhsTop lhsLo rhs (highestDword W rhs)
        = .ok (q, lhsLo.take (lhsLo.length - rhs.length) ++ win') ∧
      q < 2 ^ W ∧ win'.length = rhs.length ∧ IsWords W win' ∧ val W win' < val W rhs ∧
      q * val W rhs + val W win'
        = val W (lhsLo.drop (lhsLo.length - rhs.length)) + lhsTop * 2 ^ (W * rhs.length) :=
  divRemHighestWord_spec W hW lhsTop lhsLo rhs hn hL hlo hr hnorm hA

/-- `simple::div_rem_in_place` (Knuth D): lhs becomes [lhs % rhs, lhs / rhs], quotient carry ≤ 1 -/
theorem simple_div_rem_exact (W : Nat) (hW : 1 ≤ W) (lhs rhs : List Nat) (hn : 2 ≤ rhs.length)
    (hm : rhs.length ≤ lhs.length) (hl : IsWords W lhs) (hr : IsWords W rhs)
    (hnorm : 2 ^ (W * rhs.length) ≤ 2 * val W rhs) :
    ∃ out c, simpleDivRemInPlace W lhs rhs (highestDword W rhs) = .ok (out, c) ∧
      out.length = lhs.length ∧ IsWords W out ∧ c ≤ 1 ∧ val W (out.take rhs.length) < val W rhs ∧
      (val W (out.drop rhs.length) + c * 2 ^ (W * (lhs.length - rhs.length))) * val W rhs
        + val W (out.take rhs.length) = val W lhs :=
  simpleDivRemInPlace_spec W hW lhs rhs hn hm hl hr hnorm

/-- `divide_conquer::div_rem_in_place` (Burnikel–Ziegler: the block loop, `same_len` = two
    `small_quotient` calls, the quotient estimate from the top `m` divisor words, the
    `add_signed_mul` / conditional `sub_same_len` update and the `while rem_overflow < 0` correction
    loop — which terminates within the model's fuel — and all its `assert!`/`debug_assert!`s):
    lhs becomes [lhs % rhs, lhs / rhs] with quotient carry ≤ 1.  The multiplication it calls is
    C01's mirrored `addSignedMul` (schoolbook / Karatsuba / Toom-3), discharged by
    `addSignedMul_contract` — no hypothesis about multiplication remains (`4 ≤ W` comes from there). -/
theorem burnikel_ziegler_exact (W : Nat) (hW : 1 ≤ W) (hW4 : 4 ≤ W) (lhs rhs : List Nat)
    (hn : thresholdSimple < rhs.length) (hm : rhs.length + thresholdSimple < lhs.length)
    (hl : IsWords W lhs) (hr : IsWords W rhs) (hnorm : 2 ^ (W * rhs.length) ≤ 2 * val W rhs) :
    ∃ out c, bzDivRemInPlace W lhs rhs (highestDword W rhs) = .ok (out, c) ∧
      out.length = lhs.length ∧ IsWords W out ∧ c ≤ 1 ∧ val W (out.take rhs.length) < val W rhs ∧
      (val W (out.drop rhs.length) + c * 2 ^ (W * (lhs.length - rhs.length))) * val W rhs
        + val W (out.take rhs.length) = val W lhs :=
  bzDivRemInPlace_spec W hW hW4 lhs rhs hn hm hl hr hnorm

/-- `div_rem_large` / `div_large` / `rem_large` (normalize, shifted dividend with `q_top`,
    in-place division, remainder shift-back with its `debug_assert_zero!`, `erase_front`):
    exact quotient and remainder, canonical results -/
theorem div_rem_large_exact (W : Nat) (hW : 1 ≤ W) (hW4 : 4 ≤ W) (lhs rhs : List Nat) (hl : IsWords W lhs)
    (hr : IsWords W rhs) (hn : 2 ≤ rhs.length) (hm : rhs.length ≤ lhs.length)
    (htop : rhs.getD (rhs.length - 1) 0 ≠ 0) :
    (∃ q r, divRemLarge W lhs rhs = .ok (q, r) ∧ q.value W = val W lhs / val W rhs ∧
      r.value W = val W lhs % val W rhs ∧ q.Canon W ∧ r.Canon W) ∧
    (∃ q, divLarge W lhs rhs = .ok q ∧ q.value W = val W lhs / val W rhs ∧ q.Canon W) ∧
    (∃ r, remLarge W lhs rhs = .ok r ∧ r.value W = val W lhs % val W rhs ∧ r.Canon W) :=
  divRemLarge_spec W hW hW4 lhs rhs hl hr hn hm htop

-- ================================================================== §3 dispatch (UBig forms)

/-- `UBig::div_rem` / `div_rem_euclid` / `div_rem_assign`: `(a / b, a % b)`; `b = 0` panics with
    the documented divide-by-zero message -/
theorem ubig_div_rem_exact (W : Nat) (hW : 1 ≤ W) (hW4 : 4 ≤ W) (a b : TRepr) (ha : a.Canon W) (hb : b.Canon W) :
    (b.value W = 0 → divRemRepr W a b = .error .divideByZero) ∧
    (b.value W ≠ 0 → ∃ q r, divRemRepr W a b = .ok (q, r) ∧ q.value W = a.value W / b.value W ∧
      r.value W = a.value W % b.value W ∧ q.Canon W ∧ r.Canon W) :=
  divRemRepr_spec W hW hW4 a b ha hb

/-- `UBig / UBig`, `div_euclid`, `/=` -/
theorem ubig_div_exact (W : Nat) (hW : 1 ≤ W) (hW4 : 4 ≤ W) (a b : TRepr) (ha : a.Canon W) (hb : b.Canon W) :
    (b.value W = 0 → divRepr W a b = .error .divideByZero) ∧
    (b.value W ≠ 0 → ∃ q, divRepr W a b = .ok q ∧ q.value W = a.value W / b.value W ∧ q.Canon W) :=
  divRepr_spec W hW hW4 a b ha hb

/-- `UBig % UBig`, `rem_euclid`, `%=` (a separate code path: `rem_by_word` / `rem_by_dword`) -/
theorem ubig_rem_exact (W : Nat) (hW : 1 ≤ W) (hW4 : 4 ≤ W) (a b : TRepr) (ha : a.Canon W) (hb : b.Canon W) :
    (b.value W = 0 → remRepr W a b = .error .divideByZero) ∧
    (b.value W ≠ 0 → ∃ r, remRepr W a b = .ok r ∧ r.value W = a.value W % b.value W ∧ r.Canon W) :=
  remRepr_spec W hW hW4 a b ha hb

/-- the division identity for the unsigned forms, spelled out -/
theorem ubig_division_identity (W : Nat) (hW : 1 ≤ W) (hW4 : 4 ≤ W) (a b : TRepr) (ha : a.Canon W) (hb : b.Canon W)
    (hne : b.value W ≠ 0) :
    ∃ q r, divRemRepr W a b = .ok (q, r) ∧
      a.value W = q.value W * b.value W + r.value W ∧ r.value W < b.value W := by
  obtain ⟨q, r, e, hq, hr, _, _⟩ := (divRemRepr_spec W hW hW4 a b ha hb).2 hne
  refine ⟨q, r, e, ?_, ?_⟩
  · rw [hq, hr, Nat.mul_comm]; exact (Nat.div_add_mod _ _).symm
  · rw [hr]; exact Nat.mod_lt _ (Nat.pos_of_ne_zero hne)

/-- `UBig::is_multiple_of`: true exactly when the remainder is zero; a zero divisor panics -/
theorem ubig_is_multiple_of_exact (W : Nat) (hW : 1 ≤ W) (hW4 : 4 ≤ W) (a b : TRepr) (ha : a.Canon W) (hb : b.Canon W) :
    (b.value W = 0 → ubigIsMultipleOf W a b = .error .divideByZero) ∧
    (b.value W ≠ 0 → ubigIsMultipleOf W a b = .ok (decide (a.value W % b.value W = 0))) := by
  have ⟨d0, d1⟩ := remRepr_spec W hW hW4 a b ha hb
  constructor
  · intro h0; simp only [ubigIsMultipleOf, d0 h0, bind, Except.bind]
  · intro hne
    obtain ⟨r, e, hr, hc⟩ := d1 hne
    simp only [ubigIsMultipleOf, e, bind, Except.bind, pure, Except.pure]
    congr 1
    rw [← hr]
    by_cases hz : r.isZero = true
    · have := (TRepr.isZero_iff r).mp hz
      subst this; simp [TRepr.isZero]
    · have := TRepr.value_ne_zero_of_not_isZero hc hz
      simp [hz, this]

/-- `UBig::is_multiple_of_const` / `IBig::is_multiple_of_const` (`is_multiple_of_dword`) for a
    non-zero double-word divisor -/
theorem is_multiple_of_const_exact (W : Nat) (hW : 1 ≤ W) (a : TRepr) (d : Nat) (ha : a.Canon W)
    (hd0 : d ≠ 0) (hd : d < 2 ^ (2 * W)) :
    isMultipleOfDword W a d = .ok (decide (a.value W % d = 0)) := by
  have hpos : 0 < d := Nat.pos_of_ne_zero hd0
  unfold isMultipleOfDword
  rw [if_neg hd0]
  by_cases hw : d < 2 ^ W
  · rw [if_pos hw]
    cases a with
    | small x =>
      simp only [TRepr.value_small]
      exact congrArg Except.ok (decide_eq_decide.mpr Iff.rfl)
    | large ws =>
      have e := remByWord_spec W d ws ha.large_words ha.large_ne_nil hpos hw
      simp only [e, bind, Except.bind, pure, Except.pure, TRepr.value_large]
      exact congrArg Except.ok (decide_eq_decide.mpr Iff.rfl)
  · rw [if_neg hw]
    cases a with
    | small x =>
      simp only [TRepr.value_small]
      exact congrArg Except.ok (decide_eq_decide.mpr Iff.rfl)
    | large ws =>
      have e := remByDword_spec W d hW ws ha.large_words (by have := ha.large_len; omega)
        (Nat.le_of_not_lt hw) hd
      simp only [e, bind, Except.bind, pure, Except.pure, TRepr.value_large]
      exact congrArg Except.ok (decide_eq_decide.mpr Iff.rfl)

/-- `is_multiple_of_const(0)`: the documented divide-by-zero panic, for every dividend (canonical or not) -/
theorem is_multiple_of_const_zero (W : Nat) (a : TRepr) :
    isMultipleOfDword W a 0 = .error .divideByZero := by
  unfold isMultipleOfDword
  rw [if_pos rfl]

-- ================================================================== §4 sign tables

/-- the `Sign` of the regenerated glue for the model's `neg` flag -/
def sgn (neg : Bool) : Sign := if neg then .Negative else .Positive

theorem sgn_apply (neg : Bool) (m : Int) : (if neg then -m else m) = (sgn neg).apply m := by
  cases neg <;> rfl

theorem sgn_bne (x y : Bool) : sgn (x != y) = sgn x * sgn y := by cases x <;> cases y <;> rfl

theorem sgn_not (x : Bool) : sgn (!x) = -sgn x := by cases x <;> rfl

theorem srepr_value (W : Nat) (r : SRepr) : r.value W = (sgn r.neg).apply (r.mag.value W : Int) := by
  unfold SRepr.value; cases r.neg <;> rfl

theorem withSign_value' (W : Nat) (m : TRepr) (neg : Bool) :
    (withSign m neg).value W = (sgn neg).apply (m.value W : Int) := by
  rw [withSign_value]; exact sgn_apply neg _

theorem srepr_value_zero_iff (W : Nat) (r : SRepr) : r.value W = 0 ↔ r.mag.value W = 0 := by
  unfold SRepr.value; cases r.neg <;> simp

theorem isZero_eq_decide {W : Nat} {r : TRepr} (hc : r.Canon W) : r.isZero = decide (r.value W = 0) := by
  by_cases hz : r.isZero = true
  · have := (TRepr.isZero_iff r).mp hz
    subst this; simp [TRepr.isZero]
  · have := TRepr.value_ne_zero_of_not_isZero hc hz
    simp [hz, this]

theorem cast_mod_zero (m n : Nat) : decide ((m : Int) % (n : Int) = 0) = decide (m % n = 0) := by
  apply decide_eq_decide.mpr
  rw [← Int.natCast_emod]; exact Int.natCast_eq_zero

/-- `IBig / IBig` (and `IBig / UBig`, `UBig / IBig`, `/=`): the model's glue is the regenerated
    `impl_ibig_div`, hence truncating division; a zero divisor panics -/
theorem ibig_div_exact (W : Nat) (hW : 1 ≤ W) (hW4 : 4 ≤ W) (a b : SRepr) (ha : a.WF W) (hb : b.WF W) :
    (b.value W = 0 → ibigDiv W a b = .error .divideByZero) ∧
    (b.value W ≠ 0 → ∃ q, ibigDiv W a b = .ok q ∧ q.WF W ∧
      q.value W = impl_ibig_div (sgn a.neg) (a.mag.value W) (sgn b.neg) (b.mag.value W) ∧
      q.value W = Int.tdiv (a.value W) (b.value W)) := by
  have ⟨d0, d1⟩ := divRepr_spec W hW hW4 a.mag b.mag ha.1 hb.1
  constructor
  · intro h0
    simp only [ibigDiv, d0 ((srepr_value_zero_iff W b).mp h0), bind, Except.bind]
  · intro hne
    have hm : b.mag.value W ≠ 0 := fun h => hne ((srepr_value_zero_iff W b).mpr h)
    obtain ⟨q, e, hq, hc⟩ := d1 hm
    have hgen : (withSign q (a.neg != b.neg)).value W
        = impl_ibig_div (sgn a.neg) (a.mag.value W) (sgn b.neg) (b.mag.value W) := by
      rw [withSign_value', hq, sgn_bne]
      simp only [impl_ibig_div, mkIBig, div_, mul_]
      rw [GenInt.with_sign_nonneg _ _ (Int.ediv_nonneg (Int.natCast_nonneg _) (Int.natCast_nonneg _)),
        Int.natCast_ediv]
    refine ⟨withSign q (a.neg != b.neg), ?_, withSign_wf W q _ hc, hgen, ?_⟩
    · simp only [ibigDiv, e, bind, Except.bind, pure, Except.pure]
    · rw [hgen, srepr_value W a, srepr_value W b]
      exact GenInt.ibig_div_exact _ _ _ _ (Int.natCast_nonneg _) (by omega)

/-- `IBig % IBig` (and `IBig % UBig`, `%=`): remainder with the sign of the dividend -/
theorem ibig_rem_exact (W : Nat) (hW : 1 ≤ W) (hW4 : 4 ≤ W) (a b : SRepr) (ha : a.WF W) (hb : b.WF W) :
    (b.value W = 0 → ibigRem W a b = .error .divideByZero) ∧
    (b.value W ≠ 0 → ∃ r, ibigRem W a b = .ok r ∧ r.WF W ∧
      r.value W = impl_ibig_rem (sgn a.neg) (a.mag.value W) (sgn b.neg) (b.mag.value W) ∧
      r.value W = Int.tmod (a.value W) (b.value W)) := by
  have ⟨d0, d1⟩ := remRepr_spec W hW hW4 a.mag b.mag ha.1 hb.1
  constructor
  · intro h0
    simp only [ibigRem, d0 ((srepr_value_zero_iff W b).mp h0), bind, Except.bind]
  · intro hne
    have hm : b.mag.value W ≠ 0 := fun h => hne ((srepr_value_zero_iff W b).mpr h)
    obtain ⟨r, e, hr, hc⟩ := d1 hm
    have hgen : (withSign r a.neg).value W
        = impl_ibig_rem (sgn a.neg) (a.mag.value W) (sgn b.neg) (b.mag.value W) := by
      rw [withSign_value', hr]
      simp only [impl_ibig_rem, mkIBig, rem_]
      rw [GenInt.with_sign_nonneg _ _ (Int.emod_nonneg _ (by omega)), Int.natCast_emod]
    refine ⟨withSign r a.neg, ?_, withSign_wf W r _ hc, hgen, ?_⟩
    · simp only [ibigRem, e, bind, Except.bind, pure, Except.pure]
    · rw [hgen, srepr_value W a, srepr_value W b]
      exact GenInt.ibig_rem_exact _ _ _ _ (Int.natCast_nonneg _) (by omega)

/-- `IBig::div_rem` (and `IBig.div_rem(UBig)`, `div_rem_assign`) -/
theorem ibig_div_rem_exact (W : Nat) (hW : 1 ≤ W) (hW4 : 4 ≤ W) (a b : SRepr) (ha : a.WF W) (hb : b.WF W) :
    (b.value W = 0 → ibigDivRem W a b = .error .divideByZero) ∧
    (b.value W ≠ 0 → ∃ q r, ibigDivRem W a b = .ok (q, r) ∧ q.WF W ∧ r.WF W ∧
      (q.value W, r.value W)
        = impl_ibig_divrem (sgn a.neg) (a.mag.value W) (sgn b.neg) (b.mag.value W) ∧
      q.value W = Int.tdiv (a.value W) (b.value W) ∧ r.value W = Int.tmod (a.value W) (b.value W)) := by
  have ⟨d0, d1⟩ := divRemRepr_spec W hW hW4 a.mag b.mag ha.1 hb.1
  constructor
  · intro h0
    simp only [ibigDivRem, d0 ((srepr_value_zero_iff W b).mp h0), bind, Except.bind]
  · intro hne
    have hm : b.mag.value W ≠ 0 := fun h => hne ((srepr_value_zero_iff W b).mpr h)
    obtain ⟨q, r, e, hq, hr, hcq, hcr⟩ := d1 hm
    have hgen : ((withSign q (a.neg != b.neg)).value W, (withSign r a.neg).value W)
        = impl_ibig_divrem (sgn a.neg) (a.mag.value W) (sgn b.neg) (b.mag.value W) := by
      rw [withSign_value', withSign_value', hq, hr, sgn_bne]
      simp only [impl_ibig_divrem, mkIBig, div_rem, mul_]
      rw [GenInt.with_sign_nonneg _ _ (Int.ediv_nonneg (Int.natCast_nonneg _) (Int.natCast_nonneg _)),
        GenInt.with_sign_nonneg _ _ (Int.emod_nonneg _ (by omega)), Int.natCast_ediv, Int.natCast_emod]
    have hspec := GenInt.ibig_divrem_exact (sgn a.neg) (sgn b.neg) (a.mag.value W) (b.mag.value W)
      (Int.natCast_nonneg _) (by omega)
    rw [← hgen, ← srepr_value W a, ← srepr_value W b] at hspec
    refine ⟨_, _, ?_, withSign_wf W q _ hcq, withSign_wf W r _ hcr, hgen,
      congrArg Prod.fst hspec, congrArg Prod.snd hspec⟩
    simp only [ibigDivRem, e, bind, Except.bind, pure, Except.pure]

/-- `IBig::div_euclid`: Euclidean quotient (the `add_one` correction for a negative dividend
    with non-zero remainder) -/
theorem ibig_div_euclid_exact (W : Nat) (hW : 1 ≤ W) (hW4 : 4 ≤ W) (a b : SRepr) (ha : a.WF W) (hb : b.WF W) :
    (b.value W = 0 → ibigDivEuclid W a b = .error .divideByZero) ∧
    (b.value W ≠ 0 → ∃ q, ibigDivEuclid W a b = .ok q ∧ q.WF W ∧
      q.value W = impl_ibig_div_euclid (sgn a.neg) (a.mag.value W) (sgn b.neg) (b.mag.value W) ∧
      q.value W = a.value W / b.value W) := by
  have ⟨d0, d1⟩ := divRemRepr_spec W hW hW4 a.mag b.mag ha.1 hb.1
  constructor
  · intro h0
    simp only [ibigDivEuclid, d0 ((srepr_value_zero_iff W b).mp h0), bind, Except.bind]
  · intro hne
    have hm : b.mag.value W ≠ 0 := fun h => hne ((srepr_value_zero_iff W b).mpr h)
    obtain ⟨q, r, e, hq, hr, hcq, hcr⟩ := d1 hm
    have ⟨a1, a2⟩ := addOneRepr_spec W hW q hcq
    have hq0 : (0 : Int) ≤ (a.mag.value W : Int) / (b.mag.value W : Int) :=
      Int.ediv_nonneg (Int.natCast_nonneg _) (Int.natCast_nonneg _)
    have hgen : (withSign (if (!a.neg || r.isZero) = true then q else addOneRepr W q) (a.neg != b.neg)).value W
        = impl_ibig_div_euclid (sgn a.neg) (a.mag.value W) (sgn b.neg) (b.mag.value W) := by
      rw [withSign_value', sgn_bne, isZero_eq_decide hcr, hr]
      simp only [impl_ibig_div_euclid, mkIBig, div_rem, mul_, is_zero, add_one, into_typed]
      cases han : a.neg
      · simp only [sgn, Bool.not_false, Bool.true_or, if_true, Bool.false_eq_true, if_false]
        rw [GenInt.with_sign_nonneg _ _ hq0, hq, Int.natCast_ediv]
      · by_cases hzI : (a.mag.value W : Int) % (b.mag.value W : Int) = 0
        · have hzN : a.mag.value W % b.mag.value W = 0 := by exact_mod_cast hzI
          simp only [sgn, hzI, hzN, decide_true, Bool.not_true, Bool.false_or, if_true]
          rw [GenInt.with_sign_nonneg _ _ hq0, hq, Int.natCast_ediv]
        · have hzN : ¬ a.mag.value W % b.mag.value W = 0 := by
            intro h; apply hzI; exact_mod_cast h
          simp only [sgn, hzI, hzN, decide_false, Bool.not_true, Bool.false_or, Bool.false_eq_true,
            if_false, if_true]
          rw [GenInt.with_sign_nonneg _ _ (by omega), a1, hq]
          push_cast; rfl
    refine ⟨_, ?_, withSign_wf W _ _ (by split <;> assumption), hgen, ?_⟩
    · simp only [ibigDivEuclid, e, bind, Except.bind, pure, Except.pure]
    · rw [hgen, srepr_value W a, srepr_value W b]
      exact GenInt.ibig_div_euclid_exact _ _ _ _ (Int.natCast_nonneg _) (by omega)

/-- `IBig::rem_euclid` → `UBig`: Euclidean remainder (`mag1 − r` for a negative dividend with
    non-zero remainder; the subtraction never underflows), both `Sub` impls it can use -/
theorem ibig_rem_euclid_exact (W : Nat) (hW : 1 ≤ W) (hW4 : 4 ≤ W) (a b : SRepr) (refVal : Bool)
    (ha : a.WF W) (hb : b.WF W) :
    (b.value W = 0 → ibigRemEuclid W a b refVal = .error .divideByZero) ∧
    (b.value W ≠ 0 → ∃ r, ibigRemEuclid W a b refVal = .ok r ∧ r.Canon W ∧
      (r.value W : Int) = impl_ibig_rem_euclid (sgn a.neg) (a.mag.value W) (sgn b.neg) (b.mag.value W) ∧
      (r.value W : Int) = a.value W % b.value W) := by
  have ⟨d0, d1⟩ := remRepr_spec W hW hW4 a.mag b.mag ha.1 hb.1
  constructor
  · intro h0
    have := d0 ((srepr_value_zero_iff W b).mp h0)
    unfold ibigRemEuclid
    cases a.neg <;> simp [this, bind, Except.bind]
  · intro hne
    have hm : b.mag.value W ≠ 0 := fun h => hne ((srepr_value_zero_iff W b).mpr h)
    obtain ⟨r, e, hr, hcr⟩ := d1 hm
    have hrlt : r.value W < b.mag.value W := by rw [hr]; exact Nat.mod_lt _ (Nat.pos_of_ne_zero hm)
    obtain ⟨x, ex, hx, hcx⟩ := TRepr.sub_ok W b.mag r refVal hb.1 hcr (Nat.le_of_lt hrlt)
    have hspec := GenInt.ibig_rem_euclid_exact (sgn a.neg) (sgn b.neg) (a.mag.value W) (b.mag.value W)
      (Int.natCast_nonneg _) (by omega)
    rw [← srepr_value W a, ← srepr_value W b] at hspec
    cases han : a.neg
    · have hgen : (r.value W : Int)
          = impl_ibig_rem_euclid (sgn false) (a.mag.value W) (sgn b.neg) (b.mag.value W) := by
        simp only [impl_ibig_rem_euclid, mkUBig, rem_, sgn, Bool.false_eq_true, if_false]
        rw [hr, Int.natCast_emod]
      rw [han] at hspec
      refine ⟨r, ?_, hcr, hgen, by rw [hgen]; exact hspec⟩
      simp only [ibigRemEuclid, han, Bool.not_false, if_true, e]
    · rw [han] at hspec
      by_cases hz : r.isZero = true
      · have hv0 : r.value W = 0 := by
          have := (TRepr.isZero_iff r).mp hz; subst this; rfl
        have hgen : (r.value W : Int)
            = impl_ibig_rem_euclid (sgn true) (a.mag.value W) (sgn b.neg) (b.mag.value W) := by
          have : (a.mag.value W : Int) % (b.mag.value W : Int) = 0 := by
            rw [← Int.natCast_emod, ← hr, hv0]; rfl
          simp only [impl_ibig_rem_euclid, mkUBig, rem_, sub_, is_zero, as_ref, into_typed, sgn, if_true,
            this, decide_true]
          rw [hv0]; rfl
        refine ⟨r, ?_, hcr, hgen, by rw [hgen]; exact hspec⟩
        simp only [ibigRemEuclid, han, Bool.not_true, Bool.false_eq_true, if_false, e, bind, Except.bind,
          hz, if_true, pure, Except.pure]
      · have hv0 : r.value W ≠ 0 := TRepr.value_ne_zero_of_not_isZero hcr hz
        have hgen : (x.value W : Int)
            = impl_ibig_rem_euclid (sgn true) (a.mag.value W) (sgn b.neg) (b.mag.value W) := by
          have : ¬ (a.mag.value W : Int) % (b.mag.value W : Int) = 0 := by
            rw [← Int.natCast_emod, ← hr]; exact_mod_cast hv0
          simp only [impl_ibig_rem_euclid, mkUBig, rem_, sub_, is_zero, as_ref, into_typed, sgn, if_true,
            this, decide_false, Bool.false_eq_true, if_false]
          rw [← Int.natCast_emod, ← hr]
          omega
        refine ⟨x, ?_, hcx, hgen, by rw [hgen]; exact hspec⟩
        simp only [ibigRemEuclid, han, Bool.not_true, Bool.false_eq_true, if_false, e, bind, Except.bind,
          hz, ex, pure, Except.pure]

/-- `IBig::div_rem_euclid` → `(IBig, UBig)` -/
theorem ibig_div_rem_euclid_exact (W : Nat) (hW : 1 ≤ W) (hW4 : 4 ≤ W) (a b : SRepr) (refVal : Bool)
    (ha : a.WF W) (hb : b.WF W) :
    (b.value W = 0 → ibigDivRemEuclid W a b refVal = .error .divideByZero) ∧
    (b.value W ≠ 0 → ∃ q r, ibigDivRemEuclid W a b refVal = .ok (q, r) ∧ q.WF W ∧ r.Canon W ∧
      (q.value W, (r.value W : Int))
        = impl_ibig_divrem_euclid (sgn a.neg) (a.mag.value W) (sgn b.neg) (b.mag.value W) ∧
      q.value W = a.value W / b.value W ∧ (r.value W : Int) = a.value W % b.value W) := by
  have ⟨d0, d1⟩ := divRemRepr_spec W hW hW4 a.mag b.mag ha.1 hb.1
  constructor
  · intro h0
    have := d0 ((srepr_value_zero_iff W b).mp h0)
    unfold ibigDivRemEuclid
    cases a.neg <;> simp [this, bind, Except.bind]
  · intro hne
    have hm : b.mag.value W ≠ 0 := fun h => hne ((srepr_value_zero_iff W b).mpr h)
    obtain ⟨q, r, e, hq, hr, hcq, hcr⟩ := d1 hm
    have hrlt : r.value W < b.mag.value W := by rw [hr]; exact Nat.mod_lt _ (Nat.pos_of_ne_zero hm)
    obtain ⟨x, ex, hx, hcx⟩ := TRepr.sub_ok W b.mag r refVal hb.1 hcr (Nat.le_of_lt hrlt)
    have ⟨a1, a2⟩ := addOneRepr_spec W hW q hcq
    have hq0 : (0 : Int) ≤ (a.mag.value W : Int) / (b.mag.value W : Int) :=
      Int.ediv_nonneg (Int.natCast_nonneg _) (Int.natCast_nonneg _)
    have hspec := GenInt.ibig_divrem_euclid_exact (sgn a.neg) (sgn b.neg) (a.mag.value W)
      (b.mag.value W) (Int.natCast_nonneg _) (by omega)
    rw [← srepr_value W a, ← srepr_value W b] at hspec
    cases han : a.neg
    · have hgen : ((withSign q b.neg).value W, (r.value W : Int))
          = impl_ibig_divrem_euclid (sgn false) (a.mag.value W) (sgn b.neg) (b.mag.value W) := by
        simp only [impl_ibig_divrem_euclid, mkIBig, mkUBig, div_rem, sgn, Bool.false_eq_true, if_false]
        rw [withSign_value', GenInt.with_sign_nonneg _ _ hq0, hq, hr, Int.natCast_ediv, Int.natCast_emod]
        rfl
      rw [han] at hspec
      rw [← hgen] at hspec
      refine ⟨withSign q b.neg, r, ?_, withSign_wf W q _ hcq, hcr, hgen,
        congrArg Prod.fst hspec, congrArg Prod.snd hspec⟩
      simp only [ibigDivRemEuclid, han, Bool.not_false, if_true, e, bind, Except.bind, pure, Except.pure]
    · rw [han] at hspec
      by_cases hz : r.isZero = true
      · have hv0 : r.value W = 0 := by
          have := (TRepr.isZero_iff r).mp hz; subst this; rfl
        have hmod : (a.mag.value W : Int) % (b.mag.value W : Int) = 0 := by
          rw [← Int.natCast_emod, ← hr, hv0]; rfl
        have hgen : ((withSign q (!b.neg)).value W, (r.value W : Int))
            = impl_ibig_divrem_euclid (sgn true) (a.mag.value W) (sgn b.neg) (b.mag.value W) := by
          simp only [impl_ibig_divrem_euclid, mkIBig, mkUBig, div_rem, sub_, not_, HasNot.not_, neg_,
            is_zero, add_one, as_ref, into_typed, sgn, if_true, hmod, decide_true, Bool.not_true,
            Bool.false_eq_true, if_false]
          rw [withSign_value', sgn_not, GenInt.with_sign_nonneg _ _ hq0, hq, hv0, Int.natCast_ediv]
          rfl
        rw [← hgen] at hspec
        refine ⟨withSign q (!b.neg), r, ?_, withSign_wf W q _ hcq, hcr, hgen,
          congrArg Prod.fst hspec, congrArg Prod.snd hspec⟩
        simp only [ibigDivRemEuclid, han, Bool.not_true, Bool.false_eq_true, if_false, e, bind,
          Except.bind, hz, if_true, pure, Except.pure]
      · have hv0 : r.value W ≠ 0 := TRepr.value_ne_zero_of_not_isZero hcr hz
        have hmod : ¬ (a.mag.value W : Int) % (b.mag.value W : Int) = 0 := by
          rw [← Int.natCast_emod, ← hr]; exact_mod_cast hv0
        have hgen : ((withSign (addOneRepr W q) (!b.neg)).value W, (x.value W : Int))
            = impl_ibig_divrem_euclid (sgn true) (a.mag.value W) (sgn b.neg) (b.mag.value W) := by
          simp only [impl_ibig_divrem_euclid, mkIBig, mkUBig, div_rem, sub_, not_, HasNot.not_, neg_,
            is_zero, add_one, as_ref, into_typed, sgn, if_true, hmod, decide_false, Bool.not_false]
          rw [withSign_value', sgn_not, GenInt.with_sign_nonneg _ _ (by omega), a1, hq]
          have : (x.value W : Int) = (b.mag.value W : Int) - (a.mag.value W : Int) % (b.mag.value W : Int) := by
            rw [← Int.natCast_emod, ← hr]; omega
          rw [this]
          push_cast; rfl
        rw [← hgen] at hspec
        refine ⟨withSign (addOneRepr W q) (!b.neg), x, ?_, withSign_wf W _ _ a2, hcx, hgen,
          congrArg Prod.fst hspec, congrArg Prod.snd hspec⟩
        simp only [ibigDivRemEuclid, han, Bool.not_true, Bool.false_eq_true, if_false, e, bind,
          Except.bind, hz, ex, pure, Except.pure]

/-- `UBig % IBig` → `UBig` -/
theorem ubig_ibig_rem_exact (W : Nat) (hW : 1 ≤ W) (hW4 : 4 ≤ W) (a : TRepr) (b : SRepr) (ha : a.Canon W) (hb : b.WF W) :
    (b.value W = 0 → ubigIbigRem W a b = .error .divideByZero) ∧
    (b.value W ≠ 0 → ∃ r, ubigIbigRem W a b = .ok r ∧ r.Canon W ∧
      (r.value W : Int) = impl_ubig_ibig_rem .Positive (a.value W) (sgn b.neg) (b.mag.value W) ∧
      (r.value W : Int) = Int.tmod (a.value W) (b.value W)) := by
  have ⟨d0, d1⟩ := remRepr_spec W hW hW4 a b.mag ha hb.1
  constructor
  · intro h0; exact d0 ((srepr_value_zero_iff W b).mp h0)
  · intro hne
    have hm : b.mag.value W ≠ 0 := fun h => hne ((srepr_value_zero_iff W b).mpr h)
    obtain ⟨r, e, hr, hcr⟩ := d1 hm
    have hgen : (r.value W : Int)
        = impl_ubig_ibig_rem .Positive (a.value W) (sgn b.neg) (b.mag.value W) := by
      simp only [impl_ubig_ibig_rem, mkUBig, rem_]
      rw [hr, Int.natCast_emod]
    refine ⟨r, e, hcr, hgen, ?_⟩
    rw [hgen, srepr_value W b]
    exact GenInt.ubig_ibig_rem_exact _ _ _ (Int.natCast_nonneg _) (by omega)

/-- `UBig.div_rem(IBig)` → `(IBig, UBig)` -/
theorem ubig_ibig_div_rem_exact (W : Nat) (hW : 1 ≤ W) (hW4 : 4 ≤ W) (a : TRepr) (b : SRepr) (ha : a.Canon W)
    (hb : b.WF W) :
    (b.value W = 0 → ubigIbigDivRem W a b = .error .divideByZero) ∧
    (b.value W ≠ 0 → ∃ q r, ubigIbigDivRem W a b = .ok (q, r) ∧ q.WF W ∧ r.Canon W ∧
      (q.value W, (r.value W : Int))
        = impl_ubig_ibig_divrem .Positive (a.value W) (sgn b.neg) (b.mag.value W) ∧
      q.value W = Int.tdiv (a.value W) (b.value W) ∧
      (r.value W : Int) = Int.tmod (a.value W) (b.value W)) := by
  have ⟨d0, d1⟩ := divRemRepr_spec W hW hW4 a b.mag ha hb.1
  constructor
  · intro h0
    simp only [ubigIbigDivRem, d0 ((srepr_value_zero_iff W b).mp h0), bind, Except.bind]
  · intro hne
    have hm : b.mag.value W ≠ 0 := fun h => hne ((srepr_value_zero_iff W b).mpr h)
    obtain ⟨q, r, e, hq, hr, hcq, hcr⟩ := d1 hm
    have hgen : ((withSign q b.neg).value W, (r.value W : Int))
        = impl_ubig_ibig_divrem .Positive (a.value W) (sgn b.neg) (b.mag.value W) := by
      simp only [impl_ubig_ibig_divrem, mkIBig, mkUBig, div_rem]
      rw [withSign_value', GenInt.with_sign_nonneg _ _
        (Int.ediv_nonneg (Int.natCast_nonneg _) (Int.natCast_nonneg _)), hq, hr, Int.natCast_ediv,
        Int.natCast_emod]
    have hspec := GenInt.ubig_ibig_divrem_exact (sgn b.neg) (a.value W) (b.mag.value W)
      (Int.natCast_nonneg _) (by omega)
    rw [← hgen, ← srepr_value W b] at hspec
    refine ⟨_, _, ?_, withSign_wf W q _ hcq, hcr, hgen, congrArg Prod.fst hspec, congrArg Prod.snd hspec⟩
    simp only [ubigIbigDivRem, e, bind, Except.bind, pure, Except.pure]

/-- `IBig::is_multiple_of`: true exactly when the (truncating) remainder is zero; zero divisor panics -/
theorem ibig_is_multiple_of_exact (W : Nat) (hW : 1 ≤ W) (hW4 : 4 ≤ W) (a b : SRepr) (ha : a.WF W) (hb : b.WF W) :
    (b.value W = 0 → ibigIsMultipleOf W a b = .error .divideByZero) ∧
    (b.value W ≠ 0 → ibigIsMultipleOf W a b = .ok (decide (Int.tmod (a.value W) (b.value W) = 0))) := by
  have ⟨d0, d1⟩ := ibig_rem_exact W hW hW4 a b ha hb
  constructor
  · intro h0; simp only [ibigIsMultipleOf, d0 h0, bind, Except.bind]
  · intro hne
    obtain ⟨r, e, hwf, _, hr⟩ := d1 hne
    simp only [ibigIsMultipleOf, e, bind, Except.bind, pure, Except.pure]
    congr 1
    rw [isZero_eq_decide hwf.1]
    apply decide_eq_decide.mpr
    rw [← hr]; exact (srepr_value_zero_iff W r).symm

-- ================================================================== §5 ConstDivisor

/-- `ConstDivisor::new(0)` panics with the documented divide-by-zero message; otherwise
    `value()` returns the divisor -/
theorem const_divisor_new_value (W : Nat) (hW : 1 ≤ W) (b : TRepr) (hb : b.Canon W) :
    (b.value W = 0 → ConstDiv.new W b = .error .divideByZero) ∧
    (b.value W ≠ 0 → ∃ c v, ConstDiv.new W b = .ok c ∧ c.value W = .ok v ∧ v.value W = b.value W ∧
      v.Canon W) := by
  have ⟨n0, n1⟩ := ConstDiv.new_spec W hW b hb
  refine ⟨n0, fun hne => ?_⟩
  obtain ⟨c, e, hv⟩ := n1 hne
  obtain ⟨v, ev, h1, h2⟩ := ConstDiv.value_spec W _ c hv
  exact ⟨c, v, e, ev, h1, h2⟩

/-- division of a `UBig` through a prepared `ConstDivisor` (`/`, `%`, `div_rem`, and the assign
    forms) gives the same quotient and remainder as plain division.
    (On the tree before /repo commit 2941615 the `%` clause failed for one-word divisors with the
    top bit set and inline dividends with high word ≥ divisor — see corpus/C02.) -/
theorem const_divisor_eq_plain (W : Nat) (hW : 1 ≤ W) (hW4 : 4 ≤ W) (a b : TRepr) (ha : a.Canon W) (hb : b.Canon W)
    (hne : b.value W ≠ 0) :
    ∃ c q r q' r' q'' r'', ConstDiv.new W b = .ok c ∧
      divRemConst W a c = .ok (q, r) ∧ divConst W a c = .ok q' ∧ remConst W a c = .ok r' ∧
      divRemRepr W a b = .ok (q'', r'') ∧
      q.value W = q''.value W ∧ r.value W = r''.value W ∧
      q'.value W = q''.value W ∧ r'.value W = r''.value W ∧
      q''.value W = a.value W / b.value W ∧ r''.value W = a.value W % b.value W ∧
      q.Canon W ∧ r.Canon W ∧ q'.Canon W ∧ r'.Canon W := by
  obtain ⟨c, e, hv⟩ := (ConstDiv.new_spec W hW b hb).2 hne
  obtain ⟨q, r, e1, h1, h2, h3, h4⟩ := divRemConst_spec W hW hW4 a _ c ha hv
  obtain ⟨q', e2, h5, h6⟩ := divConst_spec W hW hW4 a _ c ha hv
  obtain ⟨r', e3, h7, h8⟩ := remConst_spec W hW hW4 a _ c ha hv
  obtain ⟨q'', r'', e4, h9, h10, _, _⟩ := (divRemRepr_spec W hW hW4 a b ha hb).2 hne
  exact ⟨c, q, r, q', r', q'', r'', e, e1, e2, e3, e4, by rw [h1, h9], by rw [h2, h10], by rw [h5, h9],
    by rw [h7, h10], h9, h10, h3, h4, h6, h8⟩

theorem tdiv_of_sgn (neg : Bool) (m b : Nat) :
    (sgn neg).apply ((m / b : Nat) : Int) = Int.tdiv ((sgn neg).apply (m : Int)) (b : Int) := by
  cases neg
  · show ((m / b : Nat) : Int) = Int.tdiv (m : Int) (b : Int)
    rw [Int.tdiv_eq_ediv_of_nonneg (Int.natCast_nonneg m), Int.natCast_ediv]
  · show -((m / b : Nat) : Int) = Int.tdiv (-(m : Int)) (b : Int)
    rw [Int.neg_tdiv, Int.tdiv_eq_ediv_of_nonneg (Int.natCast_nonneg m), Int.natCast_ediv]

theorem tmod_of_sgn (neg : Bool) (m b : Nat) :
    (sgn neg).apply ((m % b : Nat) : Int) = Int.tmod ((sgn neg).apply (m : Int)) (b : Int) := by
  cases neg
  · show ((m % b : Nat) : Int) = Int.tmod (m : Int) (b : Int)
    rw [Int.tmod_eq_emod_of_nonneg (Int.natCast_nonneg m), Int.natCast_emod]
  · show -((m % b : Nat) : Int) = Int.tmod (-(m : Int)) (b : Int)
    rw [Int.neg_tmod, Int.tmod_eq_emod_of_nonneg (Int.natCast_nonneg m), Int.natCast_emod]

/-- division of an `IBig` through a prepared `ConstDivisor`: truncating quotient and remainder by
    the (positive) divisor, i.e. what plain `IBig / UBig`, `IBig % UBig` give -/
theorem const_divisor_ibig_exact (W : Nat) (hW : 1 ≤ W) (hW4 : 4 ≤ W) (a : SRepr) (b : TRepr) (ha : a.WF W)
    (hb : b.Canon W) (hne : b.value W ≠ 0) :
    ∃ c q r q' r', ConstDiv.new W b = .ok c ∧
      ibigDivRemConst W a c = .ok (q, r) ∧ ibigDivConst W a c = .ok q' ∧ ibigRemConst W a c = .ok r' ∧
      q.value W = Int.tdiv (a.value W) (b.value W) ∧ r.value W = Int.tmod (a.value W) (b.value W) ∧
      q'.value W = q.value W ∧ r'.value W = r.value W ∧ q.WF W ∧ r.WF W ∧ q'.WF W ∧ r'.WF W := by
  obtain ⟨c, e, hv⟩ := (ConstDiv.new_spec W hW b hb).2 hne
  obtain ⟨q, r, e1, h1, h2, h3, h4⟩ := divRemConst_spec W hW hW4 a.mag _ c ha.1 hv
  obtain ⟨q', e2, h5, h6⟩ := divConst_spec W hW hW4 a.mag _ c ha.1 hv
  obtain ⟨r', e3, h7, h8⟩ := remConst_spec W hW hW4 a.mag _ c ha.1 hv
  refine ⟨c, withSign q a.neg, withSign r a.neg, withSign q' a.neg, withSign r' a.neg, e, ?_, ?_, ?_,
    ?_, ?_, ?_, ?_, withSign_wf W q _ h3, withSign_wf W r _ h4, withSign_wf W q' _ h6, withSign_wf W r' _ h8⟩
  · simp only [ibigDivRemConst, e1, bind, Except.bind, pure, Except.pure]
  · simp only [ibigDivConst, e2, bind, Except.bind, pure, Except.pure]
  · simp only [ibigRemConst, e3, bind, Except.bind, pure, Except.pure]
  · rw [withSign_value', h1, srepr_value W a]; exact tdiv_of_sgn _ _ _
  · rw [withSign_value', h2, srepr_value W a]; exact tmod_of_sgn _ _ _
  · rw [withSign_value', withSign_value', h5, h1]
  · rw [withSign_value', withSign_value', h7, h2]

-- ================================================================== §6 num-modular's dividers

/-- `Normalized2by1Divisor::invert_word`: `m = ⌊(B²−1)/d⌋ − B`, and the crate's
    `debug_assert!(_hi == 1)` holds -/
theorem nm_invert_word_exact (W d : Nat) (hW : 1 ≤ W) (hd1 : 2 ^ W ≤ 2 * d) (hd2 : d < 2 ^ W) :
    NumModular.invertWord W d + 2 ^ W = (2 ^ (2 * W) - 1) / d ∧ NumModular.invertWord W d < 2 ^ W ∧
    ((2 ^ (2 * W) - 1) / d) / 2 ^ W = 1 :=
  NumModular.invertWord_spec W d hW hd1 hd2

/-- `Normalized2by1Divisor::div_rem_2by1` (Möller–Granlund Algorithm 4, mirrored with all its
    wrapping operations) = floor division -/
theorem nm_div_rem_2by1_exact (W d a : Nat) (hW : 1 ≤ W) (hd1 : 2 ^ W ≤ 2 * d) (hd2 : d < 2 ^ W)
    (ha : a / 2 ^ W < d) :
    NumModular.div2by1 W d (NumModular.invertWord W d) a = (a / d, a % d) :=
  NumModular.div2by1_spec W d a hW hd1 hd2 ha

/-- `Normalized3by2Divisor::invert_double_word` (Algorithm 6) `= ⌊(B³−1)/d⌋ − B` -/
theorem nm_invert_double_word_exact (W d : Nat) (hW : 1 ≤ W) (hd1 : 2 ^ (2 * W) ≤ 2 * d)
    (hd2 : d < 2 ^ (2 * W)) :
    NumModular.invertDoubleWord W d + 2 ^ W = (2 ^ (3 * W) - 1) / d ∧
    NumModular.invertDoubleWord W d < 2 ^ W :=
  ⟨(NumModular.invertDoubleWord_spec W d hW hd1 hd2).1, (NumModular.invertDoubleWord_spec W d hW hd1 hd2).2.1⟩

/-- `Normalized3by2Divisor::div_rem_3by2` (Algorithm 5) = floor division -/
theorem nm_div_rem_3by2_exact (W d aLo aHi : Nat) (hW : 1 ≤ W) (hd1 : 2 ^ (2 * W) ≤ 2 * d)
    (hd2 : d < 2 ^ (2 * W)) (hlo : aLo < 2 ^ W) (hhi : aHi < d) :
    NumModular.div3by2 W d (NumModular.invertDoubleWord W d) aLo aHi
      = ((aLo + 2 ^ W * aHi) / d, (aLo + 2 ^ W * aHi) % d) :=
  NumModular.div3by2_spec W d aLo aHi hW hd1 hd2 hlo hhi

/-- `Normalized3by2Divisor::div_rem_4by2` = floor division -/
theorem nm_div_rem_4by2_exact (W d aLo aHi : Nat) (hW : 1 ≤ W) (hd1 : 2 ^ (2 * W) ≤ 2 * d)
    (hd2 : d < 2 ^ (2 * W)) (hlo : aLo < 2 ^ (2 * W)) (hhi : aHi < d) :
    NumModular.div4by2 W d (NumModular.invertDoubleWord W d) aLo aHi
      = ((aLo + 2 ^ (2 * W) * aHi) / d, (aLo + 2 ^ (2 * W) * aHi) % d) :=
  NumModular.div4by2_spec W d aLo aHi hW hd1 hd2 hlo hhi

/-- `div_rem_1by1` and `div_rem_2by2` (one comparison and one subtraction) on a normalised divisor -/
theorem nm_div_rem_1by1_2by2_exact (W d a : Nat) (hd : 0 < d) :
    (2 ^ W ≤ 2 * d → a < 2 ^ W → div1by1 d a = (a / d, a % d)) ∧
    (2 ^ (2 * W) ≤ 2 * d → a < 2 ^ (2 * W) → div2by2 d a = (a / d, a % d)) :=
  ⟨fun h1 h2 => NumModular.Contract.div_rem_1by1 W d a h1 h2 hd,
   fun h1 h2 => NumModular.Contract.div_rem_2by2 W d a h1 h2 hd⟩

/-- the contract parameters of the division model are discharged: on a normalised divisor (which
    `FastDivideNormalized::new` asserts) the model's `div2by1 / div3by2 / div4by2` (exact floor
    division under the crate's precondition) ARE the mirrored num-modular algorithms -/
theorem nm_contracts_discharged (W : Nat) (hW : 1 ≤ W) :
    (∀ d a, 2 ^ W ≤ 2 * d → d < 2 ^ W → a / 2 ^ W < d →
      div2by1 W d a = .ok (NumModular.div2by1 W d (NumModular.invertWord W d) a)) ∧
    (∀ d aLo aHi, 2 ^ (2 * W) ≤ 2 * d → d < 2 ^ (2 * W) → aLo < 2 ^ W → aHi < d →
      div3by2 W d aLo aHi = .ok (NumModular.div3by2 W d (NumModular.invertDoubleWord W d) aLo aHi)) ∧
    (∀ d aLo aHi, 2 ^ (2 * W) ≤ 2 * d → d < 2 ^ (2 * W) → aLo < 2 ^ (2 * W) → aHi < d →
      div4by2 W d aLo aHi = .ok (NumModular.div4by2 W d (NumModular.invertDoubleWord W d) aLo aHi)) := by
  refine ⟨fun d a h1 h2 h3 => ?_, fun d aLo aHi h1 h2 h3 h4 => ?_, fun d aLo aHi h1 h2 h3 h4 => ?_⟩
  · rw [NumModular.div2by1_spec W d a hW h1 h2 h3, div2by1_ok W d a h3]
  · rw [NumModular.div3by2_spec W d aLo aHi hW h1 h2 h3 h4, div3by2_ok W d aLo aHi h4]
  · rw [NumModular.div4by2_spec W d aLo aHi hW h1 h2 h3 h4, div4by2_ok W d aLo aHi h4]

-- ================================================================== §7 scratch memory

/-- the `MemoryAllocation` sized by `div::memory_requirement_exact(lhs_len, rhs_len)` covers every
    scratch allocation made by `div::div_rem_in_place` for ALL operand lengths (schoolbook takes
    none; Burnikel–Ziegler only those of `mul::add_signed_mul`, each with a shorter operand of at
    most `min(rhs_len / 2, lhs_len − rhs_len)` words): memory.rs's
    "internal error: not enough memory allocated" is unreachable from division -/
theorem div_scratch_memory_suffices (lhsLen rhsLen : Nat) (h : rhsLen ≤ lhsLen) (h2 : 2 ≤ rhsLen) :
    memDivide lhsLen rhsLen = .ok () :=
  memDivide_ok lhsLen rhsLen h h2

-- ================================================================== §8 primitive kernels (base/src/ring/div_rem.rs)

/-- `DivRem`, `DivRemAssign`, `DivEuclid`, `RemEuclid`, `DivRemEuclid` on every machine integer
    type (any width, signed or not), operands in range: a zero divisor is Rust's divide-by-zero
    panic in all five -/
theorem prim_zero_divisor (t : PrimDiv.PTy) (a : Int) :
    PrimDiv.divRem t a 0 = .error PrimDiv.divZero ∧ PrimDiv.divRemAssign t a 0 = .error PrimDiv.divZero ∧
    PrimDiv.divEuclid t a 0 = .error PrimDiv.divZero ∧ PrimDiv.remEuclid t a 0 = .error PrimDiv.divZero ∧
    PrimDiv.divRemEuclid t a 0 = .error PrimDiv.divZero :=
  PrimDiv.zero_divisor t a

/-- `MIN / −1` of a signed type is Rust's overflow panic in all five (never a wrapped value) -/
theorem prim_min_neg_one (t : PrimDiv.PTy) (hs : t.signed = true) (hlo : t.lo ≠ 0) :
    PrimDiv.divRem t t.lo (-1) = .error PrimDiv.overflow ∧
    PrimDiv.divRemAssign t t.lo (-1) = .error PrimDiv.overflow ∧
    PrimDiv.divEuclid t t.lo (-1) = .error PrimDiv.overflow ∧
    PrimDiv.remEuclid t t.lo (-1) = .error PrimDiv.overflow ∧
    PrimDiv.divRemEuclid t t.lo (-1) = .error PrimDiv.overflow :=
  PrimDiv.min_neg_one t hs hlo

/-- everywhere else: truncating forms = `Int.tdiv/tmod`, Euclidean forms = `Int` `/ %`; every
    result is representable; the `q ± 1`, `r ± rhs` of `div_rem_euclid` never overflow -/
theorem prim_kernels_exact (t : PrimDiv.PTy) (a b : Int) (ha : t.InRange a) (hbr : t.InRange b)
    (hb : b ≠ 0) (hex : ¬ (t.signed ∧ a = t.lo ∧ b = -1)) :
    PrimDiv.divRem t a b = .ok (Int.tdiv a b, Int.tmod a b) ∧
    PrimDiv.divRemAssign t a b = .ok (Int.tdiv a b, Int.tmod a b) ∧
    PrimDiv.divEuclid t a b = .ok (a / b) ∧ PrimDiv.remEuclid t a b = .ok (a % b) ∧
    PrimDiv.divRemEuclid t a b = .ok (a / b, a % b) ∧
    t.InRange (Int.tdiv a b) ∧ t.InRange (Int.tmod a b) ∧ t.InRange (a / b) ∧ t.InRange (a % b) :=
  PrimDiv.kernels_exact t a b ha hbr hb hex

-- ================================================================== non-vacuity

-- a 3-word canonical dividend and a 3-word canonical divisor with a non-normalised top word
-- (shift = 63): the multi-word path with the shift carry and the Knuth step is exercised
example : (TRepr.large [5, 7, 2 ^ 64 - 1]).Canon 64 ∧ (TRepr.large [3, 2 ^ 64 - 1, 1]).Canon 64 ∧
    (divRemRepr 64 (.large [5, 7, 2 ^ 64 - 1]) (.large [3, 2 ^ 64 - 1, 1])).toOption.map
      (fun p => (p.1.value 64, p.2.value 64))
      = some (9223372036854775807, 510423550381407695278072259479345299464) := by
  refine ⟨by decide, by decide, by decide⟩

-- the Knuth-step hypotheses are met by a window that needs the add-back correction
example : (divRemHighestWord 64 (2 ^ 63) [0, 0, 0] [2 ^ 64 - 1, 2 ^ 64 - 1, 2 ^ 63]
    (highestDword 64 [2 ^ 64 - 1, 2 ^ 64 - 1, 2 ^ 63])).toOption.map Prod.fst = some (2 ^ 64 - 2) := by
  decide

-- the Burnikel–Ziegler hypotheses are met by a divisor of `thresholdSimple + 1` words and a dividend of
-- `2 * thresholdSimple + 6` words (all words B−1; 33 and 70 words at the current threshold 32 — the sizes follow
-- the REGENERATED constant, so a different valid threshold keeps the example meaningful): the divide-and-conquer
-- path runs and reports a quotient carry
example : thresholdSimple < (List.replicate (thresholdSimple + 1) (2 ^ 64 - 1)).length ∧
    (List.replicate (thresholdSimple + 1) (2 ^ 64 - 1)).length + thresholdSimple
      < (List.replicate (2 * thresholdSimple + 6) (2 ^ 64 - 1)).length ∧
    IsWords 64 (List.replicate (2 * thresholdSimple + 6) (2 ^ 64 - 1)) ∧
    IsWords 64 (List.replicate (thresholdSimple + 1) (2 ^ 64 - 1)) ∧
    2 ^ (64 * (List.replicate (thresholdSimple + 1) (2 ^ 64 - 1)).length)
      ≤ 2 * val 64 (List.replicate (thresholdSimple + 1) (2 ^ 64 - 1)) ∧
    (bzDivRemInPlace 64 (List.replicate (2 * thresholdSimple + 6) (2 ^ 64 - 1))
      (List.replicate (thresholdSimple + 1) (2 ^ 64 - 1))
      (highestDword 64 (List.replicate (thresholdSimple + 1) (2 ^ 64 - 1)))).toOption.map Prod.snd = some 1 := by
  decide +kernel

-- a ConstDivisor of the class that was defective before commit 2941615
example : ((ConstDiv.new 64 (.small 0xc000000000000010)).toOption.bind
    (fun c => (remConst 64 (.small (2 ^ 128 - 1)) c).toOption)).map (TRepr.value 64)
    = some 0xaaaaaaaaaaaaac7f := by decide

-- the mirrored 3-by-2 step on 64-bit words with a divisor just above B²/2 and the largest admissible dividend
example : NumModular.div3by2 64 (2 ^ 127 + 1) (NumModular.invertDoubleWord 64 (2 ^ 127 + 1)) (2 ^ 64 - 1) (2 ^ 127)
    = ((2 ^ 64 - 1 + 2 ^ 64 * 2 ^ 127) / (2 ^ 127 + 1), (2 ^ 64 - 1 + 2 ^ 64 * 2 ^ 127) % (2 ^ 127 + 1)) := by
  decide +kernel

-- `i8`: −128 and −3 are in range and the Euclidean fix-up path (negative remainder, negative divisor) runs
example : PrimDiv.divRemEuclid ⟨8, true⟩ (-128) (-3) = .ok (43, 1) := by decide

-- ================================================================== non-vacuity, continued
-- (every theorem with hypotheses is instantiated on a concrete non-trivial value, W = 64)

-- div_by_word_exact / rem_by_word_exact: a 3-word slice, non-power-of-two word divisor (shift ≠ 0)
example : IsWords 64 [7, 0, 2 ^ 64 - 1] ∧ (0 : Nat) < 10 ∧ 10 < 2 ^ 64 ∧
    divByWordInPlace 64 [7, 0, 2 ^ 64 - 1] 10
      = .ok ([0, 9223372036854775808, 1844674407370955161], 7) ∧
    remByWord 64 [7, 0, 2 ^ 64 - 1] 10 = .ok 7 := by
  refine ⟨by decide, by decide, by decide, by decide, by decide⟩

-- div_by_dword_exact / rem_by_dword_exact: power-of-two double-word divisor 2^100 (the shortcut path)
example : IsWords 64 [5, 6, 7] ∧ 2 ≤ [5, 6, 7].length ∧ 2 ^ 64 ≤ 2 ^ 100 ∧ 2 ^ 100 < 2 ^ (2 * 64) ∧
    divByDwordInPlace 64 [5, 6, 7] (2 ^ 100) = .ok ([1879048192, 0, 0], 5 + 6 * 2 ^ 64) ∧
    remByDword 64 [5, 6, 7] (2 ^ 100) = .ok (5 + 6 * 2 ^ 64) := by
  refine ⟨by decide, by decide, by decide, by decide, by decide, by decide⟩

-- simple_div_rem_exact: normalised 2-word divisor, 4-word dividend whose top words exceed it (carry 1)
example : 2 ≤ [1, 2 ^ 63].length ∧ [1, 2 ^ 63].length ≤ [0, 0, 5, 2 ^ 64 - 1].length ∧
    IsWords 64 [0, 0, 5, 2 ^ 64 - 1] ∧ IsWords 64 [1, 2 ^ 63] ∧
    2 ^ (64 * [1, 2 ^ 63].length) ≤ 2 * val 64 [1, 2 ^ 63] ∧
    (simpleDivRemInPlace 64 [0, 0, 5, 2 ^ 64 - 1] [1, 2 ^ 63] (highestDword 64 [1, 2 ^ 63])).toOption.map Prod.snd
      = some 1 := by
  refine ⟨by decide, by decide, by decide, by decide, by decide, by decide⟩

-- div_rem_large_exact: 4-word by 3-word, divisor top word 1 (shift 63)
example : IsWords 64 [1, 2, 3, 4] ∧ IsWords 64 [9, 8, 1] ∧ 2 ≤ [9, 8, 1].length ∧
    [9, 8, 1].length ≤ [1, 2, 3, 4].length ∧ [9, 8, 1].getD ([9, 8, 1].length - 1) 0 ≠ 0 := by
  refine ⟨by decide, by decide, by decide, by decide, by decide⟩

-- the UBig dispatch theorems: canonical heap dividend, canonical inline non-zero divisor
example : (TRepr.large [1, 2, 3]).Canon 64 ∧ (TRepr.small (2 ^ 64 + 1)).Canon 64 ∧
    (TRepr.small (2 ^ 64 + 1)).value 64 ≠ 0 ∧ (1 : Nat) ≤ 64 ∧ 4 ≤ 64 := by
  refine ⟨by decide, by decide, by decide, by decide, by decide⟩

-- the IBig sign-table theorems: well-formed negative heap dividend, negative inline divisor
example : (⟨true, .large [1, 2, 3]⟩ : SRepr).WF 64 ∧ (⟨true, .small 7⟩ : SRepr).WF 64 ∧
    (⟨true, .small 7⟩ : SRepr).value 64 ≠ 0 ∧
    (ibigDivRemEuclid 64 ⟨true, .large [1, 2, 3]⟩ ⟨true, .small 7⟩).toOption.map
      (fun p => (p.1.value 64, p.2.value 64))
      = some ((-(1 + 2 * 2 ^ 64 + 3 * 2 ^ 128) : Int) / (-7), ((-(1 + 2 * 2 ^ 64 + 3 * 2 ^ 128) : Int) % (-7)).toNat) := by
  refine ⟨?_, ?_, by decide, by decide⟩
  · exact ⟨by decide, by decide⟩
  · exact ⟨by decide, by decide⟩

-- ubig_ibig_*: canonical UBig dividend, well-formed negative IBig divisor
example : (TRepr.large [0, 0, 1]).Canon 64 ∧ (⟨true, .small 3⟩ : SRepr).WF 64 ∧
    (ubigIbigDivRem 64 (.large [0, 0, 1]) ⟨true, .small 3⟩).toOption.map (fun p => (p.1.value 64, p.2.value 64))
      = some (Int.tdiv (2 ^ 128) (-3), 1) := by
  refine ⟨by decide, ⟨by decide, by decide⟩, by decide⟩

-- is_multiple_of (UBig, IBig, const): a multiple and a non-multiple
example : ubigIsMultipleOf 64 (.large [0, 0, 6]) (.small 3) = .ok true ∧
    ubigIsMultipleOf 64 (.large [1, 0, 6]) (.small 3) = .ok false ∧
    ibigIsMultipleOf 64 ⟨true, .large [0, 0, 6]⟩ ⟨true, .small 3⟩ = .ok true ∧
    isMultipleOfDword 64 (.large [0, 0, 6]) (2 ^ 64 + 1) = .ok false ∧ (2 ^ 64 + 1 ≠ 0) ∧
    2 ^ 64 + 1 < 2 ^ (2 * 64) := by
  refine ⟨by decide, by decide, by decide, by decide, by decide, by decide⟩

-- ConstDivisor: a canonical 3-word divisor (the `large` class), value() gives it back, IBig forms
example : (TRepr.large [9, 8, 1]).Canon 64 ∧ (TRepr.large [9, 8, 1]).value 64 ≠ 0 ∧
    ((ConstDiv.new 64 (.large [9, 8, 1])).toOption.bind (fun c => (c.value 64).toOption)).map (TRepr.value 64)
      = some (val 64 [9, 8, 1]) ∧
    ((ConstDiv.new 64 (.large [9, 8, 1])).toOption.bind
      (fun c => (ibigDivRemConst 64 ⟨true, .large [1, 2, 3, 4]⟩ c).toOption)).map
        (fun p => (p.1.value 64, p.2.value 64))
      = some (Int.tdiv (-(val 64 [1, 2, 3, 4] : Int)) (val 64 [9, 8, 1]),
              Int.tmod (-(val 64 [1, 2, 3, 4] : Int)) (val 64 [9, 8, 1])) := by
  refine ⟨by decide, by decide, by decide, by decide⟩

-- num-modular: normalised word 2^63 + 5, dividend with the largest admissible high word
example : (1 : Nat) ≤ 64 ∧ 2 ^ 64 ≤ 2 * (2 ^ 63 + 5) ∧ 2 ^ 63 + 5 < 2 ^ 64 ∧
    ((2 ^ 63 + 4) * 2 ^ 64 + (2 ^ 64 - 1)) / 2 ^ 64 < 2 ^ 63 + 5 ∧
    NumModular.div2by1 64 (2 ^ 63 + 5) (NumModular.invertWord 64 (2 ^ 63 + 5)) ((2 ^ 63 + 4) * 2 ^ 64 + (2 ^ 64 - 1))
      = (((2 ^ 63 + 4) * 2 ^ 64 + (2 ^ 64 - 1)) / (2 ^ 63 + 5), ((2 ^ 63 + 4) * 2 ^ 64 + (2 ^ 64 - 1)) % (2 ^ 63 + 5)) ∧
    NumModular.invertDoubleWord 64 (2 ^ 127 + 1) + 2 ^ 64 = (2 ^ (3 * 64) - 1) / (2 ^ 127 + 1) := by
  refine ⟨by decide, by decide, by decide, by decide, by decide +kernel, by decide +kernel⟩

-- scratch memory: a Burnikel–Ziegler sized division (200 by 80 words) needs, and gets, a non-empty chunk
-- (sizes follow the regenerated threshold: 200 by 80 words at the current value 32)
example : 2 * thresholdSimple + 16 ≤ 6 * thresholdSimple + 8 ∧ 2 ≤ 2 * thresholdSimple + 16 ∧
    divMemReq (6 * thresholdSimple + 8) (2 * thresholdSimple + 16)
      = .ok (dcMemReq (6 * thresholdSimple + 8) (2 * thresholdSimple + 16)) ∧
    0 < dcMemReq (6 * thresholdSimple + 8) (2 * thresholdSimple + 16) ∧
    memDivide (6 * thresholdSimple + 8) (2 * thresholdSimple + 16) = .ok () := by
  refine ⟨by decide, by decide, by decide +kernel, by decide +kernel, by decide +kernel⟩

-- primitive kernels: i8 operands in range, neither zero divisor nor MIN / −1; and the two panics
example : (⟨8, true⟩ : PrimDiv.PTy).InRange (-128) ∧ (⟨8, true⟩ : PrimDiv.PTy).InRange 3 ∧ (3 : Int) ≠ 0 ∧
    ¬ ((⟨8, true⟩ : PrimDiv.PTy).signed ∧ (-128 : Int) = (⟨8, true⟩ : PrimDiv.PTy).lo ∧ (3 : Int) = -1) ∧
    PrimDiv.divRemEuclid ⟨8, true⟩ (-128) 3 = .ok (-43, 1) ∧
    PrimDiv.divRem ⟨8, true⟩ (-128) (-1) = .error PrimDiv.overflow ∧
    (⟨8, true⟩ : PrimDiv.PTy).lo ≠ 0 := by
  refine ⟨by decide, by decide, by decide, by decide, by decide, by decide, by decide⟩

end Dashu.Props.C02
