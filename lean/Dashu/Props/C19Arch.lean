import Dashu.Gen.ArchAdd
import Mathlib.Tactic.Ring
import Mathlib.Tactic.Linarith
/-
  C19 clause (1), the architecture layer (integer/src/arch/**), Tie A.

  `Gen/ArchAdd.lean` is REGENERATED from the Rust source on every run (vlib/extract_archadd.py): the bodies
  of `add_with_carry` / `sub_with_borrow` of arch/generic/add.rs (used by every `generic_<n>_bit` module, i.e.
  by every `force_bits` build) and of arch/x86/add.rs, arch/x86_64/add.rs (one intrinsic each, used by the
  native builds), the tables of the `arch/<module>/mod.rs` files, the `Word` types and the cfg_if chain of
  arch/mod.rs.  The theorems:

  * every regenerated routine is the carry arithmetic of the word-level models (`s % 2^W`, `s / 2^W` — how
    `Model/Int/*.lean` writes `add_with_carry` / `sub_with_borrow`), for EVERY word size;
  * the intrinsic routines equal the generic ones at their word size (so a native 64-bit build and a
    `force_bits = "64"` build run the same function; likewise x86 and `force_bits = "32"`);
  * two `W`-bit steps chained through the carry are one `2W`-bit step (the 32-bit module against the 64-bit
    module on the same number);
  * the module tables: every selectable module takes `digits` from the one generic file (whose SWAR routine
    C07 proves for every word size), takes `add` from a file whose routine is proved here at the module's word
    size, and every `force_bits = "<n>"` arm selects a module with `n`-bit words.
-/
namespace Dashu.Props.C19
open Dashu.Model.Arch Dashu.Gen.ArchAdd

/-- carry-in as a number -/
def cin (c : Bool) : Nat := if c then 1 else 0

theorem pow_pos' (W : Nat) : 0 < 2 ^ W := Nat.pos_of_ne_zero (by positivity)

theorem bne_div (s P : Nat) (hP : 0 < P) : (s / P != 0) = decide (P ≤ s) := by
  by_cases h : P ≤ s
  · have : 0 < s / P := Nat.div_pos h hP
    simp [h]; omega
  · have : s / P = 0 := (Nat.div_eq_zero_iff_lt hP).2 (by omega)
    simp [h, this]

/-- arch/generic/add.rs `add_with_carry` = `(s % 2^W, s / 2^W ≠ 0)` with `s = a + b + carry`, every word size -/
theorem generic_add_with_carry_spec (W a b : Nat) (c : Bool) (ha : a < 2 ^ W) (hb : b < 2 ^ W) :
    generic_add_with_carry W a b c = ((a + b + cin c) % 2 ^ W, decide ((a + b + cin c) / 2 ^ W ≠ 0)) ∧
    (a + b + cin c) / 2 ^ W ≤ 1 := by
  have hp := pow_pos' W
  have hc : cin c ≤ 1 := by unfold cin; split <;> omega
  have hdiv : (a + b + cin c) / 2 ^ W ≤ 1 := by
    have : a + b + cin c < 2 * 2 ^ W := by omega
    have := (Nat.div_lt_iff_lt_mul hp).2 this
    omega
  refine ⟨?_, hdiv⟩
  unfold generic_add_with_carry overflowing_add word_from_bool
  simp only
  have hcin : (if c = true then 1 else 0) = cin c := by unfold cin; rfl
  rw [hcin]
  generalize cin c = k at *
  by_cases h1 : 2 ^ W ≤ a + b
  · -- first addition wraps: a + b = 2^W + r, r < 2^W - 1, so r + k < 2^W
    have hr : (a + b) % 2 ^ W = a + b - 2 ^ W := by
      rw [Nat.mod_eq_sub_mod h1, Nat.mod_eq_of_lt (by omega)]
    have hs : (a + b + k) % 2 ^ W = a + b + k - 2 ^ W := by
      rw [Nat.mod_eq_sub_mod (by omega), Nat.mod_eq_of_lt (by omega)]
    have hq : (a + b + k) / 2 ^ W ≠ 0 := by
      intro h0
      have := (Nat.div_eq_zero_iff_lt hp).1 h0
      omega
    rw [hr]
    have h2 : (a + b - 2 ^ W + k) % 2 ^ W = a + b + k - 2 ^ W := by
      rw [Nat.mod_eq_of_lt (by omega)]; omega
    rw [h2, hs]
    simp [h1, hq]
  · have hr : (a + b) % 2 ^ W = a + b := Nat.mod_eq_of_lt (by omega)
    rw [hr]
    by_cases h2 : 2 ^ W ≤ a + b + k
    · have hq : (a + b + k) / 2 ^ W ≠ 0 := by
        intro h0
        have := (Nat.div_eq_zero_iff_lt hp).1 h0
        omega
      simp [h1, h2, hq]
    · have hq : (a + b + k) / 2 ^ W = 0 := (Nat.div_eq_zero_iff_lt hp).2 (by omega)
      simp [h1, h2, hq]

/-- arch/generic/add.rs `sub_with_borrow` = `(a − b − borrow mod 2^W, a < b + borrow)`, every word size -/
theorem generic_sub_with_borrow_spec (W a b : Nat) (c : Bool) (ha : a < 2 ^ W) (hb : b < 2 ^ W) :
    generic_sub_with_borrow W a b c =
      ((a + 2 ^ (W + 1) - (b + cin c)) % 2 ^ W, decide (a < b + cin c)) := by
  have hp := pow_pos' W
  have hc : cin c ≤ 1 := by unfold cin; split <;> omega
  have h2 : 2 ^ (W + 1) = 2 * 2 ^ W := by rw [Nat.pow_succ]; omega
  unfold generic_sub_with_borrow overflowing_sub word_from_bool
  simp only
  have hcin : (if c = true then 1 else 0) = cin c := by unfold cin; rfl
  rw [hcin, h2]
  generalize cin c = k at *
  generalize 2 ^ W = P at *
  -- d1 = (a + P - b) % P
  by_cases hab : a < b
  · have hd1 : (a + P - b) % P = a + P - b := Nat.mod_eq_of_lt (by omega)
    rw [hd1]
    have hd2 : (a + P - b + P - k) % P = a + P - b - k := by
      rw [show a + P - b + P - k = (a + P - b - k) + P by omega, Nat.add_mod_right, Nat.mod_eq_of_lt (by omega)]
    have hs : (a + 2 * P - (b + k)) % P = a + P - b - k := by
      rw [show a + 2 * P - (b + k) = (a + P - b - k) + P by omega, Nat.add_mod_right, Nat.mod_eq_of_lt (by omega)]
    rw [hd2, hs]
    have : a < b + k := by omega
    simp [hab, this]
  · have hd1 : (a + P - b) % P = a - b := by
      rw [show a + P - b = (a - b) + P by omega, Nat.add_mod_right, Nat.mod_eq_of_lt (by omega)]
    rw [hd1]
    by_cases hk : a - b < k
    · -- a = b, k = 1
      have hd2 : (a - b + P - k) % P = P - 1 := by
        rw [show a - b + P - k = P - 1 by omega, Nat.mod_eq_of_lt (by omega)]
      have hs : (a + 2 * P - (b + k)) % P = P - 1 := by
        rw [show a + 2 * P - (b + k) = (P - 1) + P by omega, Nat.add_mod_right, Nat.mod_eq_of_lt (by omega)]
      rw [hd2, hs]
      have : a < b + k := by omega
      simp [hab, hk, this]
    · have hd2 : (a - b + P - k) % P = a - b - k := by
        rw [show a - b + P - k = (a - b - k) + P by omega, Nat.add_mod_right, Nat.mod_eq_of_lt (by omega)]
      have hs : (a + 2 * P - (b + k)) % P = a - b - k := by
        rw [show a + 2 * P - (b + k) = (a - b - k) + P + P by omega, Nat.add_mod_right, Nat.add_mod_right,
          Nat.mod_eq_of_lt (by omega)]
      rw [hd2, hs]
      have : ¬ a < b + k := by omega
      simp [hab, hk, this]

/-- the native routines (one `_addcarry_uN` / `_subborrow_uN` each) are the generic routines at their word
    size: arch/x86_64 ↔ generic at 64 bits, arch/x86 ↔ generic at 32 bits -/
theorem intrinsic_routines_eq_generic (a b : Nat) (c : Bool) :
    (a < 2 ^ 64 → b < 2 ^ 64 → x86_64_add_with_carry a b c = generic_add_with_carry 64 a b c ∧
        x86_64_sub_with_borrow a b c = generic_sub_with_borrow 64 a b c) ∧
    (a < 2 ^ 32 → b < 2 ^ 32 → x86_add_with_carry a b c = generic_add_with_carry 32 a b c ∧
        x86_sub_with_borrow a b c = generic_sub_with_borrow 32 a b c) := by
  have key : ∀ N, a < 2 ^ N → b < 2 ^ N →
      ((intrinsic_addcarry N (word_from_bool c) a b).2, (intrinsic_addcarry N (word_from_bool c) a b).1 != 0) =
        generic_add_with_carry N a b c ∧
      ((intrinsic_subborrow N (word_from_bool c) a b).2, (intrinsic_subborrow N (word_from_bool c) a b).1 != 0) =
        generic_sub_with_borrow N a b c := by
    intro N ha hb
    rw [(generic_add_with_carry_spec N a b c ha hb).1, generic_sub_with_borrow_spec N a b c ha hb]
    unfold intrinsic_addcarry intrinsic_subborrow word_from_bool cin
    cases c <;> simp
    · by_cases h : a < b <;> simp [h] <;> exact bne_div _ _ (pow_pos' N)
    · by_cases h : a < b + 1 <;> simp [h] <;> exact bne_div _ _ (pow_pos' N)
  exact ⟨fun ha hb => key 64 ha hb, fun ha hb => key 32 ha hb⟩

/-- word size: two `W`-bit `add_with_carry` steps chained through the carry are one `2W`-bit step — the
    32-bit module and the 64-bit module add the same number -/
theorem add_with_carry_two_words (W a0 a1 b0 b1 : Nat) (c : Bool)
    (h0 : a0 < 2 ^ W) (h1 : a1 < 2 ^ W) (g0 : b0 < 2 ^ W) (g1 : b1 < 2 ^ W) :
    (generic_add_with_carry W a0 b0 c).1 +
        2 ^ W * (generic_add_with_carry W a1 b1 (generic_add_with_carry W a0 b0 c).2).1 =
      (generic_add_with_carry (2 * W) (a0 + 2 ^ W * a1) (b0 + 2 ^ W * b1) c).1 ∧
    (generic_add_with_carry W a1 b1 (generic_add_with_carry W a0 b0 c).2).2 =
      (generic_add_with_carry (2 * W) (a0 + 2 ^ W * a1) (b0 + 2 ^ W * b1) c).2 := by
  have hp := pow_pos' W
  have hpp : 2 ^ (2 * W) = 2 ^ W * 2 ^ W := by rw [two_mul, Nat.pow_add]
  have hA : a0 + 2 ^ W * a1 < 2 ^ (2 * W) := by
    rw [hpp]
    have : 2 ^ W * a1 ≤ 2 ^ W * (2 ^ W - 1) := Nat.mul_le_mul_left _ (by omega)
    rw [Nat.mul_sub, Nat.mul_one] at this
    have : 2 ^ W ≤ 2 ^ W * 2 ^ W := Nat.le_mul_of_pos_right _ hp
    omega
  have hB : b0 + 2 ^ W * b1 < 2 ^ (2 * W) := by
    rw [hpp]
    have : 2 ^ W * b1 ≤ 2 ^ W * (2 ^ W - 1) := Nat.mul_le_mul_left _ (by omega)
    rw [Nat.mul_sub, Nat.mul_one] at this
    have : 2 ^ W ≤ 2 ^ W * 2 ^ W := Nat.le_mul_of_pos_right _ hp
    omega
  have e0 := generic_add_with_carry_spec W a0 b0 c h0 g0
  have e2 := generic_add_with_carry_spec (2 * W) _ _ c hA hB
  rw [e0.1, e2.1]
  simp only
  have e1 := generic_add_with_carry_spec W a1 b1 (decide ((a0 + b0 + cin c) / 2 ^ W ≠ 0)) h1 g1
  rw [e1.1]
  simp only
  have ecarry : cin (decide ((a0 + b0 + cin c) / 2 ^ W ≠ 0)) = (a0 + b0 + cin c) / 2 ^ W := by
    rcases Nat.le_one_iff_eq_zero_or_eq_one.1 e0.2 with h | h <;> rw [h] <;> simp [cin]
  rw [ecarry, hpp]
  clear e0 e1 e2 ecarry hA hB hpp
  generalize 2 ^ W = P at *
  generalize cin c = k at *
  obtain ⟨s0, hs0⟩ : ∃ s0, s0 = a0 + b0 + k := ⟨_, rfl⟩
  rw [← hs0]
  have hdm := Nat.div_add_mod s0 P
  have total : a0 + P * a1 + (b0 + P * b1) + k = s0 % P + P * (a1 + b1 + s0 / P) := by
    rw [Nat.mul_add, Nat.mul_add]; omega
  rw [total]
  generalize a1 + b1 + s0 / P = s1
  have hm : s0 % P < P := Nat.mod_lt _ hp
  have h3 : P * s1 = P * P * (s1 / P) + P * (s1 % P) := by
    rw [Nat.mul_assoc, ← Nat.mul_add, Nat.div_add_mod]
  constructor
  · have hr : s1 % P < P := Nat.mod_lt _ hp
    have hb : P * (s1 % P) ≤ P * (P - 1) := Nat.mul_le_mul_left _ (by omega)
    rw [Nat.mul_sub, Nat.mul_one] at hb
    have hPP : P ≤ P * P := Nat.le_mul_of_pos_right _ hp
    have : s0 % P + P * s1 = (s0 % P + P * (s1 % P)) + P * P * (s1 / P) := by omega
    rw [this, Nat.add_mul_mod_self_left]
    have hlt : s0 % P + P * (s1 % P) < P * P := by omega
    exact (Nat.mod_eq_of_lt hlt).symm
  · have : (s0 % P + P * s1) / (P * P) = s1 / P := by
      rw [← Nat.div_div_eq_div_mul, Nat.add_mul_div_left _ _ hp, Nat.div_eq_of_lt hm, Nat.zero_add]
    rw [this]

example : generic_add_with_carry 32 0xffffffff 1 false = (0, true) ∧
    generic_add_with_carry 64 0xffffffff 1 false = (0x100000000, false) ∧
    generic_sub_with_borrow 32 0 0 true = (0xffffffff, true) ∧
    x86_64_add_with_carry 0xffffffffffffffff 0 true = (0, true) := by decide

/-- which routine a module's `add` file provides -/
def addOf (file : String) (W a b : Nat) (c : Bool) : Option (Nat × Bool) :=
  if file = "generic/add.rs" then some (generic_add_with_carry W a b c)
  else if file = "x86/add.rs" ∧ W = 32 then some (x86_add_with_carry a b c)
  else if file = "x86_64/add.rs" ∧ W = 64 then some (x86_64_add_with_carry a b c)
  else none

/-- the regenerated tables of arch/*/mod.rs, arch/*/word.rs and the cfg_if chain of arch/mod.rs: every arm selects a
    listed module; every module takes `digits` from arch/generic/digits.rs and `add` from a file whose routine is proved
    above at the module's word size (8 ∣ W, as the byte-level code of C07 requires); `force_bits = "<n>"` selects `n`-bit
    words; the chain ends in an `else` arm (every target is covered) -/
theorem arch_tables_consistent :
    (∀ s ∈ arch_selection, ∃ m ∈ arch_modules, m.1 = s.2.2) ∧
    (∀ m ∈ arch_modules, m.2.2.2.1 = "generic/digits.rs" ∧ 8 ∣ m.2.1 ∧ 8 ≤ m.2.1 ∧
        (m.2.2.1 = "generic/add.rs" ∨ (m.2.2.1 = "x86/add.rs" ∧ m.2.1 = 32) ∨ (m.2.2.1 = "x86_64/add.rs" ∧ m.2.1 = 64))) ∧
    (∀ s ∈ arch_selection, s.1 = "force_bits" →
        ∃ m ∈ arch_modules, m.1 = s.2.2 ∧ toString m.2.1 = s.2.1 ∧ m.2.2.1 = "generic/add.rs") ∧
    (arch_selection.getLast?.map (·.1)) = some "else" := by
  refine ⟨by decide, by decide, by decide, by decide⟩

/-- hence: in EVERY selectable module, `add_with_carry` is the same carry arithmetic at the module's word size -/
theorem every_module_add_with_carry (m : String × Nat × String × String × String × String) (hm : m ∈ arch_modules)
    (a b : Nat) (c : Bool) (ha : a < 2 ^ m.2.1) (hb : b < 2 ^ m.2.1) :
    addOf m.2.2.1 m.2.1 a b c =
      some ((a + b + cin c) % 2 ^ m.2.1, decide ((a + b + cin c) / 2 ^ m.2.1 ≠ 0)) := by
  obtain ⟨_, _, _, hfile⟩ := arch_tables_consistent.2.1 m hm
  obtain ⟨name, W, addf, digf, wf, nf⟩ := m
  simp only at ha hb hfile ⊢
  rcases hfile with h | ⟨h, hw⟩ | ⟨h, hw⟩
  · subst h
    have : addOf "generic/add.rs" W a b c = some (generic_add_with_carry W a b c) := by simp [addOf]
    rw [this, (generic_add_with_carry_spec _ a b c ha hb).1]
  · subst h; subst hw
    have e := ((intrinsic_routines_eq_generic a b c).2 ha hb).1
    have : addOf "x86/add.rs" 32 a b c = some (x86_add_with_carry a b c) := by simp [addOf]
    rw [this, e, (generic_add_with_carry_spec 32 a b c ha hb).1]
  · subst h; subst hw
    have e := ((intrinsic_routines_eq_generic a b c).1 ha hb).1
    have : addOf "x86_64/add.rs" 64 a b c = some (x86_64_add_with_carry a b c) := by simp [addOf]
    rw [this, e, (generic_add_with_carry_spec 64 a b c ha hb).1]

end Dashu.Props.C19
