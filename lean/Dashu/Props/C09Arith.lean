import Dashu.Props.C09
import Dashu.Props.C01
import Dashu.Proofs.Int.BitsArith
/-
  C09, round 8: LINK between the two's-complement bit layer (C09) and the arithmetic kernel of C01 — the identities that make
  "infinite two's complement" the SAME number system as the sign-magnitude arithmetic of `+`, `-`, unary `-`:
      -x = !x + 1        x - y = x + !y + 1        !x = (-x) - 1        !!x = x
      (x & y) + (x | y) = x + y          (x ^ y) + (x & y) + (x & y) = x + y   (carry-free sum + carries)
  stated about the EXECUTED models of both properties composed with each other (`ibigNot` of `Model/Int/Bits.lean` = `impl Not for IBig`,
  `ibigAdd` / `ibigSub` / `SRepr.negate` of `Model/Int/Ops.lean` = `impl_ibig_add`, `impl_ibig_sub`, `Neg for IBig`), for every word
  size `W ≥ 1`, every canonical operand, every ownership form of the additions.  No new definition; the proofs are the proved kernels
  `Props.C09.ibig_not`, `Props.C01.i_add_exact`, `i_sub_exact`, `i_neg_exact`, `of_int_exact` by import.  The canonical-form invariants of
  the two properties (`SCanon` of C09, `SRepr.WF` of C01) are one and the same proposition (`scanon_is_wf`), so a result of either layer is
  an admissible operand of the other.
-/
namespace Dashu.Props.C09Arith
open Dashu.Model

/-- C09's invariant of an `IBig` operand is C01's: results of one layer are admissible operands of the other -/
theorem scanon_is_wf (W : Nat) (a : SRepr) : SCanon W a ↔ a.WF W := Iff.rfl

/-- **`-x = !x + 1`**: C01's addition applied to C09's complement and the constant 1 is C01's negation (same value, canonical) -/
theorem neg_is_not_plus_one (W : Nat) (hW : 1 ≤ W) (a : SRepr) (form : Nat) (ha : SCanon W a) :
    (ibigAdd W (ibigNot W a) (.ofInt W 1) form).value W = a.negate.value W ∧
    (ibigAdd W (ibigNot W a) (.ofInt W 1) form).value W = -(a.value W) ∧
    (ibigAdd W (ibigNot W a) (.ofInt W 1) form).WF W := by
  have hn := C09.ibig_not W hW a ha
  have h1 := C01.of_int_exact W hW 1
  have hadd := C01.i_add_exact W hW _ _ form hn.2.2 h1.2
  have hneg := C01.i_neg_exact W a ha
  refine ⟨?_, ?_, hadd.2⟩
  · rw [hadd.1, hn.2.1, h1.1, hneg.1]; omega
  · rw [hadd.1, hn.2.1, h1.1]; omega

/-- **`x - y = x + !y + 1`**: subtraction is addition of the two's complement -/
theorem sub_is_add_not_plus_one (W : Nat) (hW : 1 ≤ W) (a b : SRepr) (f1 f2 f3 : Nat) (ha : SCanon W a) (hb : SCanon W b) :
    (ibigAdd W (ibigAdd W a (ibigNot W b) f1) (.ofInt W 1) f2).value W = (ibigSub W a b f3).value W ∧
    (ibigAdd W (ibigAdd W a (ibigNot W b) f1) (.ofInt W 1) f2).WF W := by
  have hn := C09.ibig_not W hW b hb
  have h1 := C01.of_int_exact W hW 1
  have hadd := C01.i_add_exact W hW a _ f1 ha hn.2.2
  have hadd2 := C01.i_add_exact W hW _ _ f2 hadd.2 h1.2
  have hsub := C01.i_sub_exact W hW a b f3 ha hb
  refine ⟨?_, hadd2.2⟩
  rw [hadd2.1, hadd.1, hn.2.1, h1.1, hsub.1]; omega

/-- **`!x = (-x) - 1`**: the complement as computed by C09's model is C01's subtraction of 1 from C01's negation -/
theorem not_is_neg_minus_one (W : Nat) (hW : 1 ≤ W) (a : SRepr) (form : Nat) (ha : SCanon W a) :
    (ibigNot W a).value W = (ibigSub W a.negate (.ofInt W 1) form).value W := by
  have hn := C09.ibig_not W hW a ha
  have h1 := C01.of_int_exact W hW 1
  have hneg := C01.i_neg_exact W a ha
  have hsub := C01.i_sub_exact W hW _ _ form hneg.2 h1.2
  rw [hn.2.1, hsub.1, hneg.1, h1.1]

/-- **`!!x = x`** and **`!(-x) = x - 1`** on the executed models -/
theorem not_not_and_not_neg (W : Nat) (hW : 1 ≤ W) (a : SRepr) (form : Nat) (ha : SCanon W a) :
    (ibigNot W (ibigNot W a)).value W = a.value W ∧
    (ibigNot W a.negate).value W = (ibigSub W a (.ofInt W 1) form).value W := by
  have hn := C09.ibig_not W hW a ha
  have hnn := C09.ibig_not W hW _ hn.2.2
  have h1 := C01.of_int_exact W hW 1
  have hneg := C01.i_neg_exact W a ha
  have hn' := C09.ibig_not W hW _ hneg.2
  have hsub := C01.i_sub_exact W hW a _ form ha h1.2
  refine ⟨?_, ?_⟩
  · rw [hnn.2.1, hn.2.1]; omega
  · rw [hn'.2.1, hneg.1, hsub.1, h1.1]; omega

/-- the bit reading of `-x`: bit `i` of C01's negation is the complement of bit `i` of `x - 1` (borrow form of two's-complement negation) -/
theorem neg_bits (W : Nat) (hW : 1 ≤ W) (a : SRepr) (form : Nat) (ha : SCanon W a) (i : Nat) :
    Int.testBit (a.negate.value W) i = !Int.testBit ((ibigSub W a (.ofInt W 1) form).value W) i := by
  have h1 := C01.of_int_exact W hW 1
  have hsub := C01.i_sub_exact W hW a _ form ha h1.2
  have hn := C09.ibig_not W hW _ hsub.2
  have hneg := C01.i_neg_exact W a ha
  rw [← hn.1 i, hn.2.1, hsub.1, h1.1, hneg.1]
  congr 1; omega

/-- **`(x & y) + (x | y) = x + y`**: C01's sum of C09's AND and OR is C01's sum of the operands — every sign combination, every length,
    every ownership form (also as a statement about the specification the driver compares with: all integers) -/
theorem and_plus_or_is_add (W : Nat) (hW : 1 ≤ W) (a b : SRepr) (f1 f2 : Nat) (ha : SCanon W a) (hb : SCanon W b) :
    (ibigAdd W (ibigAnd W a b) (ibigOr W a b) f1).value W = (ibigAdd W a b f2).value W ∧
    (ibigAdd W (ibigAnd W a b) (ibigOr W a b) f1).WF W ∧
    (∀ x y : Int, specAnd x y + specOr x y = x + y) := by
  have hand := C09.ibig_and W hW a b ha hb
  have hor := C09.ibig_or W hW a b ha hb
  have hs := C01.i_add_exact W hW _ _ f1 hand.2 hor.2
  refine ⟨?_, hs.2, specAnd_add_specOr⟩
  rw [hs.1, C09.ibig_and_value W hW a b ha hb, C09.ibig_or_value W hW a b ha hb, (C01.i_add_exact W hW a b f2 ha hb).1]
  exact specAnd_add_specOr _ _

/-- **`(x ^ y) + (x & y) + (x & y) = x + y`**: XOR is the sum without carries, AND the carries -/
theorem xor_plus_carries_is_add (W : Nat) (hW : 1 ≤ W) (a b : SRepr) (f1 f2 f3 : Nat) (ha : SCanon W a) (hb : SCanon W b) :
    (ibigAdd W (ibigAdd W (ibigXor W a b) (ibigAnd W a b) f1) (ibigAnd W a b) f2).value W = (ibigAdd W a b f3).value W ∧
    (ibigAdd W (ibigAdd W (ibigXor W a b) (ibigAnd W a b) f1) (ibigAnd W a b) f2).WF W ∧
    (∀ x y : Int, specXor x y + 2 * specAnd x y = x + y) := by
  have hand := C09.ibig_and W hW a b ha hb
  have hxor := C09.ibig_xor W hW a b ha hb
  have hs := C01.i_add_exact W hW _ _ f1 hxor.2 hand.2
  have hs2 := C01.i_add_exact W hW _ _ f2 hs.2 hand.2
  refine ⟨?_, hs2.2, specXor_add_two_specAnd⟩
  rw [hs2.1, hs.1, C09.ibig_and_value W hW a b ha hb, C09.ibig_xor_value W hW a b ha hb, (C01.i_add_exact W hW a b f3 ha hb).1]
  have := specXor_add_two_specAnd (a.value W) (b.value W)
  omega

/-- exactly as the two drivers build their operands (`sOfInt` = `SRepr.ofInt`): for ALL integers -/
theorem neg_of_int (W : Nat) (hW : 1 ≤ W) (x y : Int) (f1 f2 : Nat) :
    sOfInt W x = SRepr.ofInt W x ∧
    (ibigAdd W (ibigNot W (sOfInt W x)) (.ofInt W 1) f1).value W = -x ∧
    (ibigAdd W (ibigAdd W (.ofInt W x) (ibigNot W (sOfInt W y)) f1) (.ofInt W 1) f2).value W = x - y := by
  have hx := C01.of_int_exact W hW x
  have hy := C01.of_int_exact W hW y
  refine ⟨rfl, ?_, ?_⟩
  · show (ibigAdd W (ibigNot W (.ofInt W x)) (.ofInt W 1) f1).value W = -x
    rw [(neg_is_not_plus_one W hW _ f1 hx.2).2.1, hx.1]
  · have h := sub_is_add_not_plus_one W hW _ _ f1 f2 0 hx.2 hy.2
    show (ibigAdd W (ibigAdd W (.ofInt W x) (ibigNot W (.ofInt W y)) f1) (.ofInt W 1) f2).value W = x - y
    rw [h.1, (C01.i_sub_exact W hW _ _ 0 hx.2 hy.2).1, hx.1, hy.1]

-- non-vacuity: the hypotheses hold and the identities are exercised across a word boundary (W = 64), at 0 (never "−0") and at −1
example : SCanon 64 (sOfInt 64 (2 ^ 64 - 1)) ∧ SCanon 64 (sOfInt 64 0) ∧ SCanon 64 (sOfInt 64 (-(2 ^ 128))) := by decide +kernel
example : (ibigAdd 64 (ibigNot 64 (sOfInt 64 (2 ^ 64 - 1))) (.ofInt 64 1) 0).value 64 = -(2 ^ 64 - 1) := by decide +kernel
example : (ibigAdd 64 (ibigNot 64 (sOfInt 64 (-(2 ^ 128)))) (.ofInt 64 1) 1).value 64 = 2 ^ 128 := by decide +kernel
example : ibigAdd 64 (ibigNot 64 (sOfInt 64 0)) (.ofInt 64 1) 0 = sOfInt 64 0 := by decide +kernel
example : (ibigAdd 64 (ibigAdd 64 (sOfInt 64 5) (ibigNot 64 (sOfInt 64 (2 ^ 64))) 0) (.ofInt 64 1) 2).value 64 = 5 - 2 ^ 64 := by decide +kernel
example : (ibigNot 64 (sOfInt 64 (-1))).value 64 = 0 ∧ (ibigNot 64 (ibigNot 64 (sOfInt 64 (-(2 ^ 64))))).value 64 = -(2 ^ 64) := by decide +kernel

example : (ibigAdd 64 (ibigAnd 64 (sOfInt 64 (-(2 ^ 64))) (sOfInt 64 (2 ^ 65 + 7))) (ibigOr 64 (sOfInt 64 (-(2 ^ 64))) (sOfInt 64 (2 ^ 65 + 7))) 0).value 64
    = -(2 ^ 64) + (2 ^ 65 + 7) ∧ (ibigAnd 64 (sOfInt 64 (-(2 ^ 64))) (sOfInt 64 (2 ^ 65 + 7))).value 64 = 2 ^ 65 ∧
      (ibigXor 64 (sOfInt 64 (-3)) (sOfInt 64 (2 ^ 64 + 5))).value 64 + 2 * (ibigAnd 64 (sOfInt 64 (-3)) (sOfInt 64 (2 ^ 64 + 5))).value 64 = 2 ^ 64 + 2 := by
  decide +kernel

end Dashu.Props.C09Arith
