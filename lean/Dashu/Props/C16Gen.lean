import Dashu.Gen.SizeGuards
import Dashu.Gen.Scratch
import Dashu.Model.Panic.Guards5
import Dashu.Model.Trans.Powi
/-
  Tie A theorems for C16, round 5: the size arithmetic in front of the allocations of `pow_word_base`, `pow_dword_base`
  (`Gen/Scratch.lean`, regenerated from integer/src/pow.rs), `Repr::from_chunks`, `max_exp_in_word` and the rational
  `Repr::to_float`, the float `Context::powi` working precisions (`Gen/SizeGuards.lean`, regenerated from convert.rs / math.rs /
  dashu_float.rs / exp.rs on this run) equal the
  definitions that `Model/Panic/Guards5.lean` mirrors by hand — the ones the driver executes and `Props/C16.lean` proves
  (S1)/(S2) about.  A changed factor, offset, comparison or assertion in the Rust text changes the regenerated
  definition and these theorems stop checking.  Core Lean only.
-/
namespace Dashu.Props.C16Gen
open Dashu.Spec.Panics Dashu.Model.Panic Dashu.Gen.SizeGuards Dashu.Gen.Scratch

/-- `pow_word_base`: the three paths (`exp < wexp`, `exp < 2·wexp`, buffer loop) and `Buffer::allocate(exp / wexp + 1)` -/
theorem pow_word_request_is_generated (W base e : Nat) :
    powWordRequest W base e =
      (if pow_word_base_path e (maxExpInWord W base).1 < 2 then none
       else some (pow_word_base_buffer_words (e / (maxExpInWord W base).1))) := by
  unfold powWordRequest pow_word_base_path pow_word_base_buffer_words
  by_cases h1 : e < (maxExpInWord W base).1
  · have h2 : e < 2 * (maxExpInWord W base).1 := by omega
    simp [h1, h2]
  · by_cases h2 : e < 2 * (maxExpInWord W base).1 <;> simp [h1, h2]

/-- `pow_dword_base`: `Buffer::allocate(exp.checked_mul(2))` -/
theorem pow_dword_request_is_generated (e : Nat) :
    powDwordRequest e = some (pow_dword_base_buffer_words e) := by
  unfold powDwordRequest pow_dword_base_buffer_words
  rw [Nat.mul_comm]

/-- `max_exp_in_word`: the loop of the model is the regenerated step, iterated -/
theorem max_exp_loop_is_generated (W base fuel e p : Nat) :
    maxExpLoop W base (fuel + 1) e p =
      (match max_exp_step W base e p with
       | some (e', p') => maxExpLoop W base fuel e' p'
       | none => (e, p)) := by
  unfold max_exp_step
  by_cases h : p * base < 2 ^ W
  · simp [maxExpLoop, h]
  · simp [maxExpLoop, h]

/-- `max_exp_in_word`: shortcut test and start exponent as regenerated (for a base that fits the word) -/
theorem max_exp_in_word_is_generated (W base : Nat) (hfit : bitLen base ≤ W) :
    maxExpInWord W base =
      (if max_exp_shortcut W base then (1, base)
       else maxExpLoop W base W (max_exp_start bitLen W base) (base ^ max_exp_start bitLen W base)) := by
  unfold maxExpInWord max_exp_shortcut max_exp_start
  have : W - (W - bitLen base) = bitLen base := by omega
  rw [this]
  by_cases h : base > 2 ^ (W / 2) - 1 <;> simp [h]

/-- `Repr::from_chunks`: `result_len` -/
theorem from_chunks_len_is_generated (W k : Nat) (cs : List Nat) :
    fromChunksLen W k cs = from_chunks_result_len ((cs.map (wordLen W)).foldl max 0) cs.length k := by
  unfold fromChunksLen from_chunks_result_len
  rfl

/-- `Repr::from_chunks`: the assertion is the first statement and the reservation follows (when the arithmetic fits) -/
theorem from_chunks_guard_is_generated (W k : Nat) (cs : List Nat) (hne : cs ≠ [])
    (hfit : ¬ (from_chunks_result_len ((cs.map (wordLen W)).foldl max 0) cs.length k > usizeMax)) :
    guardFromChunksSize W k cs =
      some (if from_chunks_assert k then
              guardAllocWords W (from_chunks_result_len ((cs.map (wordLen W)).foldl max 0) cs.length k)
            else .error .zeroChunkBits) := by
  unfold guardFromChunksSize from_chunks_assert
  rw [← from_chunks_len_is_generated] at *
  by_cases hk : k = 0
  · simp [hk]
  · have : k > 0 := by omega
    simp [hk, hne, hfit, this]

/-- rational `Repr::to_float`: the bare assertion -/
theorem to_float_assert_is_generated (p : Nat) : qToFloatAssertFails p = ! to_float_assert p := by
  unfold qToFloatAssertFails to_float_assert
  by_cases h : p = 0
  · simp [h]
  · have : p > 0 := by omega
    simp [h, this]

/-- rational `Repr::to_float` since fix 43925c0: `need_digits = precision.saturating_add(den_digits)` is the one value both
    the no-scaling test and `shift` use (before the fix: the unchecked sum, finding to_float_precision_overflow) -/
theorem to_float_shift_is_generated (p nd dd : Nat) :
    to_float_need_digits usizeMax p dd = qToFloatNeedDigits p dd ∧
    to_float_no_scaling usizeMax p nd dd = decide (nd ≥ qToFloatNeedDigits p dd) ∧
    to_float_shift usizeMax p nd dd = qToFloatShift p nd dd := by
  unfold to_float_no_scaling to_float_shift to_float_need_digits qToFloatShift qToFloatNeedDigits
  exact ⟨rfl, rfl, rfl⟩

/-- no `usize` value is exceeded any more: for machine arguments `need_digits` and `shift` are machine numbers, and
    `need_digits` is the true sum whenever that fits (so the repaired code differs from exact arithmetic only where the
    scaled numerator could not be allocated anyway: `shift ≥ usize::MAX − num_digits` digits) -/
theorem to_float_need_digits_in_usize (p nd dd : Nat) :
    to_float_need_digits usizeMax p dd ≤ usizeMax ∧ to_float_shift usizeMax p nd dd ≤ usizeMax ∧
    (p + dd ≤ usizeMax → to_float_need_digits usizeMax p dd = p + dd) ∧
    (usizeMax < p + dd → to_float_need_digits usizeMax p dd = usizeMax) := by
  unfold to_float_shift to_float_need_digits
  refine ⟨Nat.min_le_right _ _, Nat.le_trans (Nat.sub_le _ _) (Nat.min_le_right _ _), ?_, ?_⟩
  · intro h; exact Nat.min_eq_left h
  · intro h; exact Nat.min_eq_right (Nat.le_of_lt h)

example : to_float_shift usizeMax usizeMax 0 1 = usizeMax := by decide   -- RBig 1/10 at precision usize::MAX (the old witness)
/-- `Context::powi` (float/src/exp.rs): the two working precisions `precision + guard_bits` (negative exponent) and
    `precision + guard_digits`, regenerated from the source text, are the mirrored ones `fPowiPrecisionFits` tests -/
theorem powi_precision_is_generated (p e : Nat) :
    powi_rev_precision bitLen p = fPowiRevPrecision p ∧ powi_work_precision bitLen p e = fPowiWorkPrecision p e :=
  ⟨rfl, rfl⟩

/-- link to C11: the working precision is the one C11's model of the non-negative branch (`Model/Trans/Powi.lean`, the subject
    of C11's error theorem) runs its loop at -/
theorem powi_work_precision_is_c11s (p e : Nat) (he : 1 ≤ e) :
    fPowiWorkPrecision p e = Dashu.Model.Trans.powiWorkPrec p (Dashu.Model.Trans.lowBits e) := by
  unfold fPowiWorkPrecision Dashu.Model.Trans.powiWorkPrec Dashu.Model.Trans.lowBits
  have hb : Dashu.Model.Trans.bitLen e = bitLen e := rfl
  have hp : Dashu.Model.Trans.bitLen p = bitLen p := rfl
  have h1 : 1 ≤ bitLen e := by
    unfold bitLen; have : e ≠ 0 := by omega
    simp [this]
  simp only [List.length_map, List.length_reverse, List.length_range, hb, hp]
  omega

example : from_chunks_result_len 1 3 8 = 18 := by decide
example : max_exp_shortcut 64 (2 ^ 32) = true ∧ max_exp_shortcut 64 (2 ^ 32 - 1) = false := by decide
example : max_exp_start bitLen 64 10 = 16 := by decide

end Dashu.Props.C16Gen
