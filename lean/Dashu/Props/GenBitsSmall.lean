import Dashu.Gen.BitsSmall
import Dashu.Props.GenMath
/-
  C09, Tie A over the INLINE arms of the bit operations that take a user-supplied `usize`
  (`integer/src/bits.rs`, `integer/src/shift_ops.rs`).  The definitions of `Dashu.Gen.BitsSmall` are
  regenerated from the Rust text on every run, over checked machine integers with TRUNCATING casts.
  Each theorem: for EVERY argument `n` (any `usize`, nothing assumed about its size) no operation
  overflows and the result is the arm of the hand-written model (`Model/Int/Bits.lean`), whose
  two's-complement meaning is proved in `Props/C09.lean`.  Side conditions: `1 ≤ W` and `2·W < 2^32`
  (a double-word bit count fits `u32` — true for the 16/32/64-bit word configurations).
-/
namespace Dashu.Props.GenBitsSmall
open Dashu.Model Dashu.GluePrelude Dashu.Gen.MathHelpers Dashu.Gen.BitsSmall Dashu.Props.GenMath

theorem cast_small (W n : Nat) (h32 : 2 * W < 2 ^ 32) (hn : n ≤ 2 * W) : MachInt.cast 32 n = n :=
  Nat.mod_eq_of_lt (by omega)

/-- **`shr_dword(dword, rhs)`**: `dword >> rhs` when `rhs < DWORD_BITS`, otherwise 0 — for every `usize` count, in
    particular `rhs ≥ 2^32` (no narrowing of the count happens before the comparison) — the hand model's `shrDword`. -/
theorem gen_shr_dword (W U d n : Nat) :
    shr_dword W U d n = some ((shrDword W d n).value W) := by
  unfold shr_dword shrDword
  by_cases h : n < 2 * W
  · simp [h, MachInt.shr]
  · simp [h]

/-- **`are_dword_low_bits_nonzero(dword, n)`**: the clamp `n.min(DWORD_BITS)` happens BEFORE the cast to `u32`, so the
    mask count never leaves `ones_dword`'s domain and no count is truncated: the hand model's `areDwordLowBitsNonzero`
    (code as it is), i.e. `dword mod 2^n ≠ 0`. -/
theorem gen_are_dword_low_bits_nonzero (W U d n : Nat) (h32 : 2 * W < 2 ^ 32) (hd : d < 2 ^ (2 * W)) :
    are_dword_low_bits_nonzero W U d n = some (areDwordLowBitsNonzero W true d n) ∧
    (areDwordLowBitsNonzero W true d n = true ↔ d % 2 ^ n ≠ 0) := by
  have hm : min n (2 * W) ≤ 2 * W := Nat.min_le_right _ _
  refine ⟨?_, ?_⟩
  · simp only [are_dword_low_bits_nonzero, cast_small W _ h32 hm, gen_ones_dword W _ hm, bind, Option.bind, pure,
      areDwordLowBitsNonzero, if_true]
  · simp only [areDwordLowBitsNonzero, if_true, onesN_and, bne_iff_ne, ne_eq]
    by_cases hn : n ≤ 2 * W
    · rw [Nat.min_eq_left hn]
    · rw [Nat.min_eq_right (by omega)]
      have : d < 2 ^ n := Nat.lt_of_lt_of_le hd (Nat.pow_le_pow_right (by decide) (by omega))
      rw [Nat.mod_eq_of_lt hd, Nat.mod_eq_of_lt this]

theorem and_two_pow_ne_zero (d n : Nat) : ((d &&& 2 ^ n) != 0) = d.testBit n := by
  rw [Nat.and_two_pow]
  cases d.testBit n <;> simp

/-- **`TypedReprRef::bit`, inline arm**: `n < DWORD_BITS && dword & 1 << n != 0` — the shift is evaluated only under the
    guard (so it never overflows), the guard compares the full `usize`: the hand model's `TRepr.bit`. -/
theorem gen_bit_small (W U d n : Nat) :
    bit_small W U d n = some ((TRepr.small d).bit W n) := by
  unfold bit_small
  by_cases h : n < 2 * W
  · have h2 : 1 * 2 ^ n % 2 ^ (2 * W) = 2 ^ n := by
      rw [Nat.one_mul]; exact Nat.mod_eq_of_lt (Nat.pow_lt_pow_right (by decide) h)
    simp only [h, decide_true, if_true, MachInt.shl, bind, Option.bind, pure, h2, and_two_pow_ne_zero, TRepr.bit,
      Bool.true_and]
  · simp [h, TRepr.bit]

/-- **`TypedRepr::clear_bit`, inline arm** -/
theorem gen_clear_bit_small (W U d n : Nat) :
    clear_bit_small W U d n = some (((TRepr.small d).clearBit W n).value W) := by
  unfold clear_bit_small
  by_cases h : n < 2 * W
  · have h2 : 1 * 2 ^ n % 2 ^ (2 * W) = 2 ^ n := by
      rw [Nat.one_mul]; exact Nat.mod_eq_of_lt (Nat.pow_lt_pow_right (by decide) h)
    simp only [h, decide_true, if_true, MachInt.shl, MachInt.not, bind, Option.bind, pure, h2, TRepr.clearBit,
      TRepr.value_small]
  · simp [h, TRepr.clearBit]

/-- **`TypedRepr::clear_high_bits`, inline arm**: under the guard `n < DWORD_BITS` the cast `n as u32` is lossless and the
    count is inside `ones_dword`'s domain; above it the value is returned unchanged. -/
theorem gen_clear_high_bits_small (W U d n : Nat) (h32 : 2 * W < 2 ^ 32) :
    clear_high_bits_small W U d n = some (((TRepr.small d).clearHighBits W n).value W) := by
  unfold clear_high_bits_small
  by_cases h : n < 2 * W
  · simp only [h, decide_true, if_true, cast_small W n h32 (by omega), gen_ones_dword W n (by omega), bind, Option.bind,
      pure, TRepr.clearHighBits, TRepr.value_small]
  · simp [h, TRepr.clearHighBits]

/-- **`TypedRepr::split_bits`, inline arm** -/
theorem gen_split_bits_small (W U d n : Nat) (h32 : 2 * W < 2 ^ 32) :
    split_bits_small W U d n =
      some ((((TRepr.small d).splitBits W n).1.value W), (((TRepr.small d).splitBits W n).2.value W)) := by
  unfold split_bits_small
  by_cases h : n < 2 * W
  · simp only [h, decide_true, if_true, cast_small W n h32 (by omega), gen_ones_dword W n (by omega), MachInt.shr, bind,
      Option.bind, pure, TRepr.splitBits, TRepr.value_small]
  · simp [h, TRepr.splitBits]

/-- **word index / bit offset of the heap arms.**  Every `let idx = n / WORD_BITS_USIZE`, `let shift_words = rhs / WORD_BITS_USIZE`,
    `let shift_bits = (rhs % WORD_BITS_USIZE) as u32`, `let n_top = …`, `let n_words = …` of `shift_ops.rs` / `bits.rs`, as
    regenerated, is `n / W` resp. `n % W` of the FULL `usize` argument (no operation overflows, the `as u32` cast comes after the
    reduction mod `W` and is lossless) — the quantities the hand model's heap arms use. -/
theorem gen_heap_indices (W U n : Nat) (hW : 1 ≤ W) (h32 : 2 * W < 2 ^ 32) :
    shl_one_spilled__idx W U n = some (n / W) ∧
    shl_dword_spilled__shift_words W U n = some (n / W) ∧ shl_dword_spilled__shift_bits W U n = some (n % W) ∧
    shl_large__shift_words W U n = some (n / W) ∧ shl_large__shift_bits W U n = some (n % W) ∧
    shl_large_ref__shift_words W U n = some (n / W) ∧ shl_large_ref__shift_bits W U n = some (n % W) ∧
    shr_large__shift_words W U n = some (n / W) ∧ shr_large__shift_bits W U n = some (n % W) ∧
    shr_large_ref__shift_words W U n = some (n / W) ∧ shr_large_ref__shift_bits W U n = some (n % W) ∧
    bit__idx W U n = some (n / W) ∧ clear_bit__idx W U n = some (n / W) ∧
    are_slice_low_bits_nonzero__n_words W U n = some (n / W) ∧ are_slice_low_bits_nonzero__n_top W U n = some (n % W) ∧
    with_bit_dword_spilled__idx W U n = some (n / W) ∧ with_bit_large__idx W U n = some (n / W) := by
  have hW0 : ¬ W = 0 := by omega
  have hm : n % W < 2 ^ 32 := Nat.lt_trans (Nat.mod_lt n (by omega)) (by omega)
  have hc : MachInt.cast 32 (n % W) = n % W := Nat.mod_eq_of_lt hm
  simp only [shl_one_spilled__idx, shl_dword_spilled__shift_words, shl_dword_spilled__shift_bits, shl_large__shift_words,
    shl_large__shift_bits, shl_large_ref__shift_words, shl_large_ref__shift_bits, shr_large__shift_words,
    shr_large__shift_bits, shr_large_ref__shift_words, shr_large_ref__shift_bits, bit__idx, clear_bit__idx,
    are_slice_low_bits_nonzero__n_words, are_slice_low_bits_nonzero__n_top, with_bit_dword_spilled__idx,
    with_bit_large__idx, MachInt.div, MachInt.rem, if_neg hW0, bind, Option.bind, pure, hc, and_self]

/-- `let n_words = ceil_div(n, WORD_BITS_USIZE)` of `clear_high_bits_large`: for EVERY `usize` `n` (up to `usize::MAX`) no
    overflow, and it is the `ceilDiv n W` the hand model's `clearHighBitsLarge` uses -/
theorem gen_clear_high_bits_large_n_words (W U n : Nat) (hW : 1 ≤ W) (hn : n < 2 ^ U) :
    clear_high_bits_large__n_words W U n = some (ceilDiv n W) := by
  simp only [clear_high_bits_large__n_words, gen_ceil_div U n W hn (by omega), bind, Option.bind]

/-- **`Repr::ones(n)`** (mask construction, `integer/src/repr.rs`): the regenerated thresholds build the value INLINE exactly
    for `n ≤ DWORD_BITS` (the boundary `n = 2·W` included — the repaired comparison `<=` of fix 283f2ad; with `<` this theorem
    fails), the inline double word is `2^n − 1`, both `as _` casts are lossless under their guards, and this is the hand
    model's `reprOnes` (code as it is): the same inline/heap split and the same heap word counts `n / W`, `n % W`. -/
theorem gen_ones_inline (W U n : Nat) (hW : 1 ≤ W) (h32 : 2 * W < 2 ^ 32) :
    ones_inline W U n = some (if n ≤ 2 * W then (true, 2 ^ n - 1) else (false, 0)) ∧
    (n ≤ 2 * W → reprOnes W true n = .small (2 ^ n - 1)) ∧
    (2 * W < n → ∃ ws, reprOnes W true n = .large ws ∧
       ones__lo_words W U n = some (n / W) ∧ ones__hi_bits W U n = some (n % W) ∧
       ws = List.replicate (n / W) (2 ^ W - 1) ++ (if n % W > 0 then [onesN (n % W)] else [])) := by
  have hW0 : ¬ W = 0 := by omega
  refine ⟨?_, fun hn => ?_, fun hn => ⟨_, ?_, ?_, ?_, rfl⟩⟩
  · unfold ones_inline
    by_cases h1 : n < W
    · have hn2 : n ≤ 2 * W := by omega
      simp only [h1, decide_true, if_true, cast_small W n h32 hn2, (gen_ones_word W n (by omega)).1, bind, Option.bind,
        pure, hn2, onesN]
    · by_cases h2 : n ≤ 2 * W
      · simp only [h1, h2, decide_true, decide_false, if_true, if_false, cast_small W n h32 h2, gen_ones_dword W n h2,
          bind, Option.bind, pure, onesN, Bool.false_eq_true]
      · simp only [h1, h2, decide_false, if_false, pure, Bool.false_eq_true]
  · unfold reprOnes onesN
    by_cases h1 : n < W
    · rw [if_pos h1]
    · rw [if_neg h1, if_pos]
      by_cases h : n < 2 * W
      · exact Or.inl h
      · exact Or.inr ⟨rfl, by omega⟩
  · unfold reprOnes
    rw [if_neg (by omega), if_neg]
    rintro (h | ⟨_, h⟩) <;> omega
  · simp only [ones__lo_words, MachInt.div, if_neg hW0, bind, Option.bind, pure]
  · simp only [ones__hi_bits, MachInt.rem, if_neg hW0, bind, Option.bind, pure]

-- non-vacuity: the counts at which a narrowing cast would go wrong (2^32, 2^32 + 1, usize::MAX) on 64-bit words
example : shr_dword 64 64 1 (2 ^ 32) = some 0 ∧ shr_dword 64 64 5 (2 ^ 32 + 1) = some 0 ∧ shr_dword 64 64 5 1 = some 2 ∧
    bit_small 64 64 1 (2 ^ 32) = some false ∧ bit_small 64 64 (2 ^ 100) 100 = some true ∧
    clear_high_bits_small 64 64 (2 ^ 100 + 7) (2 ^ 32 + 2) = some (2 ^ 100 + 7) ∧
    clear_high_bits_small 64 64 (2 ^ 100 + 7) 2 = some 3 ∧
    split_bits_small 64 64 (2 ^ 100 + 7) (2 ^ 64 - 1) = some (2 ^ 100 + 7, 0) ∧
    are_dword_low_bits_nonzero 64 64 (2 ^ 100) (2 ^ 32 + 5) = some true ∧
    clear_bit_small 64 64 7 (2 ^ 32 + 1) = some 7 ∧ clear_bit_small 64 64 7 1 = some 5 := by
  refine ⟨by decide, by decide, by decide, by decide, by decide, by decide, by decide, by decide, by decide, by decide,
    by decide⟩

end Dashu.Props.GenBitsSmall
