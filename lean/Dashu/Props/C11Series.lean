import Dashu.Proofs.Trans.Series
/-
  C11 — the MIRRORED numerical bodies of `float/src/exp.rs` / `float/src/log.rs`
  (`Model/Trans/Series.lean`: `expBody`, `lnBody`, `iacoth`, `ln2`, `ln10`, `lnBase`, `powfBody`, executed by the
  driver of group `trans` and compared digit for digit with the implementation).

  What is proved here, for all inputs and every estimate oracle:
  * the flag-tracking powering loop that `exp_internal` ends with has the VALUE of the loop of `Props/C11Powi`
    (so `powi_nonneg_error` — relative distance `B^(2-p-bit_len p)` from `base^n` — is a statement about the final
    stage `exp(r)^(B^n)` of the mirrored `exp_internal`: the error-propagation bound of the repeated-squaring stage);
  * the three series loops are `loop { … }` in the source and fuel-recursive in the model: a result obtained with
    some fuel is the result for every larger fuel (the fuel is not observable), and the index of the last term
    is bounded by the number of steps taken;
  * the working-precision formulas the mirror evaluates, spelled out (`*_eq`): these are the texts tied to the source
    by `vlib/props/c11.py` `source_formulas` (a changed formula in `/repo` is reported as a broken correspondence).

  NOT proved (see `vlib/props/c11.py` FRONTIER): an explicit bound on the number of terms (termination of the
  series for every input) — it needs a two-sided quality bound on `digits_lb`, which the oracle hypothesis
  `DlbSound` does not give, and a real-valued decay argument through the rounded `FBig` operators.
-/
namespace Dashu.Props.C11Series
open Dashu.Model.Float Dashu.Model.Trans

/-- the powering stage of the mirrored `exp_internal` computes the value analysed in `Props/C11Powi` -/
theorem powLoopF_value (B : Nat) (m : Mode) (c : Coarse) (q : Nat) (base : FRepr) (bs : List Bool)
    (cur : Rounded FRepr) :
    (powLoopF B m c q base bs cur).1 = powLoop false B m c q base bs cur.1 :=
  Dashu.Proofs.Trans.Series.powLoopF_value B m c q base bs cur

theorem powiNonnegF_value (E : Env) (p : Nat) (base : FRepr) (n : Nat) :
    (powiNonnegF E p base n).1 = (powiNonneg false E.B E.m E.c p base (lowBits n)).2.1 :=
  Dashu.Proofs.Trans.Series.powiNonnegF_value E p base n

/-- Maclaurin loop of `exp_internal`: more fuel never changes a result -/
theorem expLoop_fuel_irrelevant (E : Env) (r : FBigM) (f g : Nat) (hfg : f ≤ g) (fa : Int) (pw sm : FBigM)
    (k : Nat) (res : FBigM × Nat) (h : expLoop E r f fa pw sm k = .ok (some res)) :
    expLoop E r g fa pw sm k = .ok (some res) :=
  Dashu.Proofs.Trans.Series.expLoop_mono E r f g hfg fa pw sm k res h

/-- atanh loop of `ln_internal`: more fuel never changes a result -/
theorem lnLoop_fuel_irrelevant (E : Env) (w : Nat) (z2 : FBigM) (f g : Nat) (hfg : f ≤ g) (pw sm : FBigM)
    (k : Nat) (res : FBigM × Nat) (h : lnLoop E w z2 f pw sm k = .ok (some res)) :
    lnLoop E w z2 g pw sm k = .ok (some res) :=
  Dashu.Proofs.Trans.Series.lnLoop_mono E w z2 f g hfg pw sm k res h

/-- loop of `iacoth`: more fuel never changes a result -/
theorem iacothLoop_fuel_irrelevant (E : Env) (w : Nat) (inv2 : FBigM) (f g : Nat) (hfg : f ≤ g) (pw sm : FBigM)
    (k : Nat) (res : FBigM × Nat) (h : iacothLoop E w inv2 f pw sm k = .ok (some res)) :
    iacothLoop E w inv2 g pw sm k = .ok (some res) :=
  Dashu.Proofs.Trans.Series.iacothLoop_mono E w inv2 f g hfg pw sm k res h

/-- two runs of the Maclaurin loop that both end agree, whatever their fuels -/
theorem expLoop_deterministic (E : Env) (r : FBigM) (f g : Nat) (fa : Int) (pw sm : FBigM) (k : Nat)
    (r1 r2 : FBigM × Nat) (h1 : expLoop E r f fa pw sm k = .ok (some r1))
    (h2 : expLoop E r g fa pw sm k = .ok (some r2)) : r1 = r2 := by
  rcases Nat.le_total f g with hfg | hgf
  · have := expLoop_fuel_irrelevant E r f g hfg fa pw sm k r1 h1
    rw [h2] at this; injection this with this; injection this with this; exact this.symm
  · have := expLoop_fuel_irrelevant E r g f hgf fa pw sm k r2 h2
    rw [h1] at this; injection this with this; injection this

/-- the reported index of the last Maclaurin term lies within the steps taken -/
theorem expLoop_steps (E : Env) (r : FBigM) (f : Nat) (fa : Int) (pw sm : FBigM) (k : Nat) (res : FBigM × Nat)
    (h : expLoop E r f fa pw sm k = .ok (some res)) : k ≤ res.2 ∧ res.2 < k + f :=
  Dashu.Proofs.Trans.Series.expLoop_steps E r f fa pw sm k res h

/-! ### the working-precision formulas of the source, as evaluated by the mirror -/

/-- `exp_internal`, scaled branch:
    `work_precision = self.precision + series_guard_digits + pow_guard_digits.max(n + 2) + int_digits` with
    `series_guard_digits = (self.precision.log2_est() / B.log2_est()) as usize + 2`,
    `pow_guard_digits = (self.precision.bit_len() as f32 * B.log2_est() * 2.) as usize`,
    `n = 1usize << (self.precision.bit_len() / 2)` -/
theorem expWorkPrec_eq (est : Est) (p : Nat) (x : FRepr) :
    expWorkPrec est p x = p + (est.logQuot p + 2) + max (est.powGuard (bitLen p)) (2 ^ (bitLen p / 2) + 2) + est.intDigits x :=
  rfl

/-- `exp_internal`, unscaled `exp_m1` branch: `p + 2·series_guard_digits` for a negative argument, else
    `p + series_guard_digits` -/
theorem expWorkPrecNoScaling_eq (est : Est) (p : Nat) (neg : Bool) :
    expWorkPrecNoScaling est p neg = if neg then p + 2 * (est.logQuot p + 2) else p + (est.logQuot p + 2) :=
  rfl

/-- `ln_internal`: `work_precision = self.precision + guard_digits + one_plus as usize`,
    `guard_digits = (self.precision.log2_est() / B.log2_est()) as usize + 2` -/
theorem lnWorkPrec_eq (est : Est) (p : Nat) (onePlus : Bool) :
    lnWorkPrec est p onePlus = p + (est.logQuot p + 2) + (if onePlus then 1 else 0) := rfl

/-- `iacoth`: `Self::new(self.precision + guard_digits + 2)`,
    `guard_digits = (self.precision.log2_est() / B.log2_est()) as usize` -/
theorem iacothWorkPrec_eq (est : Est) (p : Nat) : iacothWorkPrec est p = p + est.logQuot p + 2 := rfl

/-- `powf`: `guard_digits = 10 + self.precision.log2_est() as usize + arg_digits` -/
theorem powfGuardDigits_eq (est : Est) (p : Nat) (base exp : FRepr) :
    powfGuardDigits est p base exp = 10 + est.log2Floor p + est.powfArgDigits base exp := rfl

/-- `powi` (the stage `exp(r)^(B^n)`): `guard_digits = exp.bit_len() + self.precision.bit_len()` -/
theorem powiWorkPrec_eq (p n : Nat) (hn : 2 ≤ n) :
    powiWorkPrec p (lowBits n) = p + bitLen n + bitLen p := by
  have hb : 1 ≤ bitLen n := by
    unfold bitLen
    split
    · omega
    · omega
  simp only [powiWorkPrec, lowBits, List.length_map, List.length_reverse, List.length_range]
  omega

/-- the working precisions always exceed the target precision by at least two digits -/
theorem workPrec_gt (est : Est) (p : Nat) (x : FRepr) (b : Bool) :
    p + 2 ≤ expWorkPrec est p x ∧ p + 2 ≤ expWorkPrecNoScaling est p b ∧ p + 2 ≤ lnWorkPrec est p b
      ∧ p + 2 ≤ iacothWorkPrec est p := by
  refine ⟨?_, ?_, ?_, ?_⟩
  · simp only [expWorkPrec, seriesGuardDigits]; omega
  · simp only [expWorkPrecNoScaling, seriesGuardDigits]; split <;> omega
  · simp only [lnWorkPrec]; omega
  · simp only [iacothWorkPrec]; omega

/-! non-vacuity: the loops do end on concrete inputs (base 10, mode HalfEven, a sound estimate oracle) -/

/-- an oracle built from exact digit counts (sound for `dub`/`dlb`; the driver uses the `f32` replica instead) -/
def exactEst (B : Nat) : Est where
  dub := digitsI B
  dlb := fun v => digitsI B v - 1
  logQuot := fun n => digits B n - 1
  powGuard := fun bl => 2 * bl * (B.log2 + 1)
  log2Floor := fun n => n.log2
  belowInvBase := fun x => decide (x.exp + (digitsI B x.signif : Int) < 0)
  tooLarge := fun _ => false
  intDigits := fun x => (x.exp + (digitsI B x.signif : Int)).toNat
  floorLog2 := fun x => (x.signif.natAbs.log2 : Int) + x.exp * (B.log2 : Int)
  powfArgDigits := fun _ _ => 2

def E10 : Env := ⟨10, .halfEven, coarseNone, exactEst 10⟩

/-- `iacoth(6)` at 5 digits ends (well within 40 steps) -/
example : (match iacoth 40 E10 5 6 with | .ok _ => true | .error _ => false) = true := by
  decide +kernel

end Dashu.Props.C11Series
