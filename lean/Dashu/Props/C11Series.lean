import Dashu.Proofs.Trans.Series
import Dashu.Proofs.Trans.SeriesBound
/-
  C11 — the MIRRORED numerical bodies of `float/src/exp.rs` / `float/src/log.rs`
  (`Model/Trans/Series.lean`: `expBody`, `lnBody`, `iacoth`, `ln2`, `ln10`, `lnBase`, `powfBody`, executed by the
  driver of group `trans` and compared digit for digit with the implementation).

  What is proved here, for all inputs and every estimate oracle:
  * the flag-tracking powering loop that `exp_internal` ends with has the VALUE of the loop of `Props/C11Powi`
    (so `powi_nonneg_error` — relative distance `B^(2-p-bit_len p)` from `base^n` — is a statement about the final
    stage `exp(r)^(B^n)` of the mirrored `exp_internal`: the error-propagation bound of the repeated-squaring stage);
  * the three series loops are `loop { … }` in the source and fuel-recursive in the model: a result obtained with
    some fuel is the result for every larger fuel (the fuel is not observable), and the index of the last term
    is bounded by the number of steps taken;
  * the working-precision formulas the mirror evaluates, spelled out (`*_eq`): these are the texts tied to the source
    by `vlib/props/c11.py` `source_formulas` (a changed formula in `/repo` is reported as a broken correspondence).

  Round 5: an EXPLICIT STEP BOUND for the Maclaurin loop of `exp_internal` (scaled branch: reduced argument
  `0 < r ≤ B^(−u)`) under the explicit two-sided hypothesis `DlbTight` on `digits_lb` (`expLoop_step_bound`; the driver
  checks the hypotheses and the bound on every mirrored `exp` case), the lemma that `sum += increase` keeps a sum `≥ 1`
  for operands of any length (`sum_add_keeps_one`), and the error propagation through one stage of the loop
  (`expStage_error`, `expTerms_error`: the k-th term is `r^k / k!` up to `k` relative errors `B^(1−w)`).

  Also a step bound for the loop of `iacoth` (all terms positive; `iacothLoop_step_bound`, theorem only).
  NOT proved (see `vlib/props/c11.py` FRONTIER): step bounds for the atanh loop of `ln_internal` and for the
  unscaled `exp_m1` branch (terms of either sign), and the accumulated error of the partial SUM.
-/
namespace Dashu.Props.C11Series
open Dashu.Model.Float Dashu.Model.Trans

/-- the powering stage of the mirrored `exp_internal` computes the value analysed in `Props/C11Powi` -/
theorem powLoopF_value (B : Nat) (m : Mode) (c : Coarse) (q : Nat) (base : FRepr) (bs : List Bool)
    (cur : Rounded FRepr) :
    (powLoopF B m c q base bs cur).1 = powLoop false B m c q base bs cur.1 :=
  Dashu.Proofs.Trans.Series.powLoopF_value B m c q base bs cur

theorem powiNonnegF_value (E : Env) (p : Nat) (base : FRepr) (n : Nat) :
    (powiNonnegF E p base n).1 = (powiNonneg false E.B E.m E.c p base (lowBits n)).2.1 :=
  Dashu.Proofs.Trans.Series.powiNonnegF_value E p base n

/-- Maclaurin loop of `exp_internal`: more fuel never changes a result -/
theorem expLoop_fuel_irrelevant (E : Env) (r : FBigM) (f g : Nat) (hfg : f ≤ g) (fa : Int) (pw sm : FBigM)
    (k : Nat) (res : FBigM × Nat) (h : expLoop E r f fa pw sm k = .ok (some res)) :
    expLoop E r g fa pw sm k = .ok (some res) :=
  Dashu.Proofs.Trans.Series.expLoop_mono E r f g hfg fa pw sm k res h

/-- atanh loop of `ln_internal`: more fuel never changes a result -/
theorem lnLoop_fuel_irrelevant (E : Env) (w : Nat) (z2 : FBigM) (f g : Nat) (hfg : f ≤ g) (pw sm : FBigM)
    (k : Nat) (res : FBigM × Nat) (h : lnLoop E w z2 f pw sm k = .ok (some res)) :
    lnLoop E w z2 g pw sm k = .ok (some res) :=
  Dashu.Proofs.Trans.Series.lnLoop_mono E w z2 f g hfg pw sm k res h

/-- loop of `iacoth`: more fuel never changes a result -/
theorem iacothLoop_fuel_irrelevant (E : Env) (w : Nat) (inv2 : FBigM) (f g : Nat) (hfg : f ≤ g) (pw sm : FBigM)
    (k : Nat) (res : FBigM × Nat) (h : iacothLoop E w inv2 f pw sm k = .ok (some res)) :
    iacothLoop E w inv2 g pw sm k = .ok (some res) :=
  Dashu.Proofs.Trans.Series.iacothLoop_mono E w inv2 f g hfg pw sm k res h

/-- two runs of the Maclaurin loop that both end agree, whatever their fuels -/
theorem expLoop_deterministic (E : Env) (r : FBigM) (f g : Nat) (fa : Int) (pw sm : FBigM) (k : Nat)
    (r1 r2 : FBigM × Nat) (h1 : expLoop E r f fa pw sm k = .ok (some r1))
    (h2 : expLoop E r g fa pw sm k = .ok (some r2)) : r1 = r2 := by
  rcases Nat.le_total f g with hfg | hgf
  · have := expLoop_fuel_irrelevant E r f g hfg fa pw sm k r1 h1
    rw [h2] at this; injection this with this; injection this with this; exact this.symm
  · have := expLoop_fuel_irrelevant E r g f hgf fa pw sm k r2 h2
    rw [h1] at this; injection this with this; injection this

/-- the reported index of the last Maclaurin term lies within the steps taken -/
theorem expLoop_steps (E : Env) (r : FBigM) (f : Nat) (fa : Int) (pw sm : FBigM) (k : Nat) (res : FBigM × Nat)
    (h : expLoop E r f fa pw sm k = .ok (some res)) : k ≤ res.2 ∧ res.2 < k + f :=
  Dashu.Proofs.Trans.Series.expLoop_steps E r f fa pw sm k res h

/-! ### the working-precision formulas of the source, as evaluated by the mirror -/

/-- `exp_internal`, scaled branch:
    `work_precision = self.precision + series_guard_digits + pow_guard_digits.max(n + 2) + int_digits` with
    `series_guard_digits = (self.precision.log2_est() / B.log2_est()) as usize + 2`,
    `pow_guard_digits = (self.precision.bit_len() as f32 * B.log2_est() * 2.) as usize`,
    `n = 1usize << (self.precision.bit_len() / 2)` -/
theorem expWorkPrec_eq (est : Est) (p : Nat) (x : FRepr) :
    expWorkPrec est p x = p + (est.logQuot p + 2) + max (est.powGuard (bitLen p)) (2 ^ (bitLen p / 2) + 2) + est.intDigits x :=
  rfl

/-- `exp_internal`, unscaled `exp_m1` branch: `p + 2·series_guard_digits` for a negative argument, else
    `p + series_guard_digits` -/
theorem expWorkPrecNoScaling_eq (est : Est) (p : Nat) (neg : Bool) :
    expWorkPrecNoScaling est p neg = if neg then p + 2 * (est.logQuot p + 2) else p + (est.logQuot p + 2) :=
  rfl

/-- `ln_internal`: `work_precision = self.precision + guard_digits + one_plus as usize`,
    `guard_digits = (self.precision.log2_est() / B.log2_est()) as usize + 2` -/
theorem lnWorkPrec_eq (est : Est) (p : Nat) (onePlus : Bool) :
    lnWorkPrec est p onePlus = p + (est.logQuot p + 2) + (if onePlus then 1 else 0) := rfl

/-- `iacoth`: `Self::new(self.precision + guard_digits + 2)`,
    `guard_digits = (self.precision.log2_est() / B.log2_est()) as usize` -/
theorem iacothWorkPrec_eq (est : Est) (p : Nat) : iacothWorkPrec est p = p + est.logQuot p + 2 := rfl

/-- `powf`: `guard_digits = 10 + self.precision.log2_est() as usize + arg_digits` -/
theorem powfGuardDigits_eq (est : Est) (p : Nat) (base exp : FRepr) :
    powfGuardDigits est p base exp = 10 + est.log2Floor p + est.powfArgDigits base exp := rfl

/-- `powi` (the stage `exp(r)^(B^n)`): `guard_digits = exp.bit_len() + self.precision.bit_len()` -/
theorem powiWorkPrec_eq (p n : Nat) (hn : 2 ≤ n) :
    powiWorkPrec p (lowBits n) = p + bitLen n + bitLen p := by
  have hb : 1 ≤ bitLen n := by
    unfold bitLen
    split
    · omega
    · omega
  simp only [powiWorkPrec, lowBits, List.length_map, List.length_reverse, List.length_range]
  omega

/-- the working precisions always exceed the target precision by at least two digits -/
theorem workPrec_gt (est : Est) (p : Nat) (x : FRepr) (b : Bool) :
    p + 2 ≤ expWorkPrec est p x ∧ p + 2 ≤ expWorkPrecNoScaling est p b ∧ p + 2 ≤ lnWorkPrec est p b
      ∧ p + 2 ≤ iacothWorkPrec est p := by
  refine ⟨?_, ?_, ?_, ?_⟩
  · simp only [expWorkPrec, seriesGuardDigits]; omega
  · simp only [expWorkPrecNoScaling, seriesGuardDigits]; split <;> omega
  · simp only [lnWorkPrec]; omega
  · simp only [iacothWorkPrec]; omega


/-! ### the exactness clause on the mirror: `Exact` comes from the shortcuts only -/

/-- the mirrored `exp_internal` behind its guards never reports `Exact` (`mark_inexact`; exp of a non-zero float is
    irrational) -/
theorem expBody_never_exact (fuel : Nat) (E : Env) (p : Nat) (x : FRepr) (minusOne : Bool) (v : FBigM)
    (fl : Option Rounding) (tr : Trace) (h : expBody fuel E p x minusOne = .ok ((v, fl), tr)) : fl ≠ none :=
  Dashu.Proofs.Trans.Series.expBody_flag fuel E p x minusOne v fl tr h

/-- the mirrored `ln_internal` behind its guards never reports `Exact` -/
theorem lnBody_never_exact (fuel : Nat) (E : Env) (p : Nat) (x : FRepr) (onePlus : Bool) (v : FBigM)
    (fl : Option Rounding) (tr : Trace) (h : lnBody fuel E p x onePlus = .ok ((v, fl), tr)) : fl ≠ none :=
  Dashu.Proofs.Trans.Series.lnBody_flag fuel E p x onePlus v fl tr h

/-- `Context::exp` / `exp_m1` (mirror with guards): flagged `Exact` only for `x = 0` -/
theorem expFull_exact_only_zero (fuel : Nat) (E : Env) (p : Nat) (x : FRepr) (minusOne : Bool) (v : FBigM) (tr : Trace)
    (h : expFull fuel E p x minusOne = .ok ((v, none), tr)) : x.isZero = true :=
  Dashu.Proofs.Trans.Series.expFull_flag fuel E p x minusOne v tr h

/-- `Context::ln` / `ln_1p` (mirror with guards): flagged `Exact` only for `ln 1` and `ln_1p 0` -/
theorem lnFull_exact_only_shortcut (fuel : Nat) (E : Env) (p : Nat) (x : FRepr) (onePlus : Bool) (v : FBigM) (tr : Trace)
    (h : lnFull fuel E p x onePlus = .ok ((v, none), tr)) :
    ((onePlus && x.isZero) || (!onePlus && x.signif == 1 && x.exp == 0)) = true :=
  Dashu.Proofs.Trans.Series.lnFull_flag fuel E p x onePlus v tr h

/-- the results of the mirrored bodies carry the precision of the context -/
theorem body_prec (fuel : Nat) (E : Env) (p : Nat) (x y : FRepr) (b : Bool) (v : FBigM) (fl : Option Rounding) (tr : Trace) :
    (expBody fuel E p x b = .ok ((v, fl), tr) → v.prec = p) ∧ (lnBody fuel E p x b = .ok ((v, fl), tr) → v.prec = p)
      ∧ (powfBody fuel E p x y = .ok ((v, fl), tr) → v.prec = p) :=
  ⟨Dashu.Proofs.Trans.Series.expBody_prec fuel E p x b v fl tr, Dashu.Proofs.Trans.Series.lnBody_prec fuel E p x b v fl tr,
   Dashu.Proofs.Trans.Series.powfBody_prec fuel E p x y v fl tr⟩

/-- `FBig::sub_ulp` (the stop threshold of the three series) is a power of the base not above
    `B^(exponent + digits − precision − 1)`, for every sound `digits_lb` estimate ("guaranteed to be smaller than ulp()") -/
theorem subUlp_le (E : Env) (h : DlbSound E.B E.est.dlb) (x : FBigM) :
    (fSubUlp E x).signif = 1 ∧
      (fSubUlp E x).exp ≤ x.repr.exp + (digitsI E.B x.repr.signif : Int) - (x.prec : Int) - 1 :=
  Dashu.Proofs.Trans.Series.fSubUlp_le E h x


/-! ### Round 5: explicit step bound of the Maclaurin loop, `sum += increase`, error of the terms -/

open Dashu.Proofs.Trans.SeriesBound in
/-- **`sum += increase`**: `FBig + FBig` with a left operand of value `≥ 1` and a positive right operand of ANY length
    (the quotient `increase` may carry `p+1` digits — outside `Props/C03.add_sub_contract`) never returns less than `1` -/
theorem sum_add_keeps_one (E : Env) (hB : 2 ≤ E.B) (hc : CoarseSound E.c) (hdub : DubSound E.B E.est.dub) (x y : FBigM)
    (hp : 1 ≤ ctxMaxP x.prec y.prec) (hx : 1 ≤ x.repr.toRat E.B) (hy : 0 < y.repr.signif) :
    1 ≤ (fAddSub E x y 1).repr.toRat E.B :=
  fAddSub_keeps E hB hc hdub x y hp hx hy

open Dashu.Proofs.Trans.SeriesBound in
/-- **Step bound of the Maclaurin loop of `exp_internal`** from its entry state (`factorial = 1`, `pow = r`,
    `sum = 1 + r`, `k = 2`), reduced argument `0 < r ≤ B^(−u)` at the working precision `w ≥ 1`.
    Hypotheses on the estimate oracles: `digits_ub` sound, `round_fract`'s coarse test sound, and the TWO-SIDED quality of
    `digits_lb`: `digits(v) ≤ digits_lb(v) + cS` (`DlbTight`; the other side `DlbSound` is what makes `sub_ulp` smaller
    than an ulp).  Then with any fuel `≥ 1` such that `u·(fuel + 1) ≥ w + cS + 1` the loop returns a value — the fuel
    does not run out, no division fails — and the index `k` of the last term is `2` or satisfies
    `u·(k − 1) < w + cS + 1` (at most `(w + cS)/u + 1` terms beyond the first two). -/
theorem expLoop_step_bound (E : Env) (hB : 2 ≤ E.B) (hc : CoarseSound E.c) (hdub : DubSound E.B E.est.dub) (cS : Nat)
    (hd : DlbTight E.B E.est.dlb cS) (r : FBigM) (w u : Nat) (hw : 1 ≤ w) (hrp : r.prec = w)
    (hr0 : 0 < r.repr.signif) (hru : r.repr.toRat E.B ≤ bpowQ E.B (-(u : Int)))
    (fuel : Nat) (hf1 : 1 ≤ fuel) (hfuel : w + cS + 1 ≤ u * (fuel + 1)) :
    ∃ res, expLoop E r fuel 1 r (fAddSub E FBigM.one r 1) 2 = .ok (some res) ∧ 2 ≤ res.2 ∧
      (res.2 = 2 ∨ u * (res.2 - 1) < w + cS + 1) :=
  expLoop_bound E hB hc hdub cS hd r w u hw hrp hr0 hru fuel hf1 hfuel

/-- the fuel `(w + cS)/u + 1` always meets the hypothesis of `expLoop_step_bound` -/
theorem expLoop_fuel_suffices (w cS u : Nat) (hu : 1 ≤ u) : w + cS + 1 ≤ u * ((w + cS) / u + 1 + 1) :=
  Dashu.Proofs.Trans.SeriesBound.expLoop_fuel_suffices w cS u hu

/-- **error propagation through one stage of the Maclaurin loop** (`pow *= &r; increase = &pow / &factorial`) with
    `ε = B^(1−w)`: `j` accumulated relative errors in `pow` become `j + 1` in the new `pow` and `j + 2` in the term -/
theorem expStage_error (E : Env) (hB : 2 ≤ E.B) (hc : CoarseSound E.c) (r pw : FBigM) (w : Nat) (hw : 1 ≤ w)
    (hrp : r.prec = w) (hpp : pw.prec = w) (F : Int) (hF : 1 ≤ F) (j : Nat) (t : ℚ)
    (h : Approx (bpowQ E.B (1 - (w : Int))) j (pw.repr.toRat E.B) t) :
    Approx (bpowQ E.B (1 - (w : Int))) (j + 1) ((fMul E pw r).repr.toRat E.B) (t * r.repr.toRat E.B) ∧
    ∃ inc, fDiv E (fMul E pw r) (fOfInt E.B F) = .ok inc ∧
      Approx (bpowQ E.B (1 - (w : Int))) (j + 2) (inc.repr.toRat E.B) (t * r.repr.toRat E.B * (1 / (F : ℚ))) :=
  Dashu.Proofs.Trans.SeriesBound.expStage_error E hB hc r pw w hw hrp hpp F hF j t h

open Dashu.Proofs.Trans.SeriesBound in
/-- **the terms of the Maclaurin series as the loop computes them**: before the step with index `k = i + 2` the loop
    holds `factorial = (k−1)!` and `pow ≈ r^(k−1)` (`k − 2` relative errors `B^(1−w)`); the term `increase` it forms is
    `r^k / k!` up to `k` accumulated relative errors (`expState` = the `(factorial, pow)` the loop's recursion passes,
    `expLoop_state`) -/
theorem expTerms_error (E : Env) (hB : 2 ≤ E.B) (hc : CoarseSound E.c) (r : FBigM) (w : Nat) (hw : 1 ≤ w)
    (hrp : r.prec = w) (i : Nat) :
    (expState E r i).1 = ((i + 1).factorial : Int) ∧
    Approx (bpowQ E.B (1 - (w : Int))) i ((expState E r i).2.repr.toRat E.B) ((r.repr.toRat E.B) ^ (i + 1)) ∧
    ∃ inc, fDiv E (fMul E (expState E r i).2 r) (fOfInt E.B ((expState E r i).1 * ((i + 2 : Nat) : Int))) = .ok inc ∧
      Approx (bpowQ E.B (1 - (w : Int))) (i + 2) (inc.repr.toRat E.B)
        ((r.repr.toRat E.B) ^ (i + 2) / ((i + 2).factorial : ℚ)) :=
  Dashu.Proofs.Trans.SeriesBound.expTerms_error E hB hc r w hw hrp i

open Dashu.Proofs.Trans.SeriesBound in
/-- the loop's recursive call passes `(factorial·k, pow·r)`: the next `expState` -/
theorem expLoop_state (E : Env) (r : FBigM) (fuel : Nat) (fa : Int) (pw sm : FBigM) (k : Nat) :
    expLoop E r (fuel + 1) fa pw sm k =
      match fDiv E (fMul E pw r) (fOfInt E.B (fa * (k : Int))) with
      | .error e => .error e
      | .ok increase =>
        if reprAbsCmp E.B increase.repr (fSubUlp E sm) ≠ .gt then .ok (some (sm, k))
        else expLoop E r fuel (fa * (k : Int)) (fMul E pw r) (fAddSub E sm increase 1) (k + 1) :=
  expLoop_unfold E r fuel fa pw sm k

open Dashu.Proofs.Trans.SeriesBound in
/-- **Step bound of the loop of `Context::iacoth`** (`pow *= inv2; increase = pow / k; if increase < sum.sub_ulp() { return }
    sum += increase; k += 2`; all terms positive) for `0 ≤ inv2 ≤ B^(−u)` held at `w ≥ 1` digits, under the same oracle
    hypotheses as `expLoop_step_bound` (`DubSound`, `CoarseSound`, two-sided `DlbTight`): from a state `0 ≤ pow ≤ B^b`,
    `sum ≥ B^L`, both at precision `w`, the loop returns a value with any fuel `≥ 1` such that `u·fuel > b − L + cS + w`, and
    the last index is below `k + 2·fuel`.  (In `iacoth(n)`: `pow = sum = 1/n`, so `b − L = 1`; `inv2 = 1/n²`.)
    Theorem only: the driver does not evaluate it per case. -/
theorem iacothLoop_step_bound (E : Env) (hB : 2 ≤ E.B) (hc : CoarseSound E.c) (hdub : DubSound E.B E.est.dub) (cS : Nat)
    (hd : DlbTight E.B E.est.dlb cS) (inv2 : FBigM) (w u : Nat) (hw : 1 ≤ w) (hip : inv2.prec = w)
    (hi0 : 0 ≤ inv2.repr.toRat E.B) (hiu : inv2.repr.toRat E.B ≤ bpowQ E.B (-(u : Int))) (L : Int)
    (fuel : Nat) (pw sm : FBigM) (k : Nat) (b : Int)
    (hpp : pw.prec = w) (hp0 : 0 ≤ pw.repr.toRat E.B) (hpb : pw.repr.toRat E.B ≤ bpowQ E.B b)
    (hsL : bpowQ E.B L ≤ sm.repr.toRat E.B) (hsp : sm.prec = w) (hk : 1 ≤ k)
    (hf1 : 1 ≤ fuel) (hfuel : b - L + (cS : Int) + (w : Int) < (u : Int) * (fuel : Int)) :
    ∃ res, iacothLoop E w inv2 fuel pw sm k = .ok (some res) ∧ k ≤ res.2 ∧ res.2 < k + 2 * fuel :=
  iacothLoop_bound E hB hc hdub cS hd inv2 w u hw hip hi0 hiu L fuel pw sm k b hpp hp0 hpb hsL hsp hk hf1 hfuel

open Dashu.Proofs.Trans.SeriesBound in
/-- `sum += increase` keeps a sum `≥ B^L` at or above `B^L` (any `L`; `sum_add_keeps_one` is `L = 0`) -/
theorem sum_add_keeps_pow (E : Env) (hB : 2 ≤ E.B) (hc : CoarseSound E.c) (hdub : DubSound E.B E.est.dub) (x y : FBigM)
    (hp : 1 ≤ ctxMaxP x.prec y.prec) (L : Int) (hx : bpowQ E.B L ≤ x.repr.toRat E.B) (hy : 0 < y.repr.signif) :
    bpowQ E.B L ≤ (fAddSub E x y 1).repr.toRat E.B :=
  fAddSub_keeps_pow E hB hc hdub x y hp L hx hy

/-! non-vacuity: the loops do end on concrete inputs (base 10, mode HalfEven, a sound estimate oracle) -/

/-- an oracle built from exact digit counts (sound for `dub`/`dlb`; the driver uses the `f32` replica instead) -/
def exactEst (B : Nat) : Est where
  dub := digitsI B
  dlb := fun v => digitsI B v - 1
  logQuot := fun n => digits B n - 1
  powGuard := fun bl => 2 * bl * (B.log2 + 1)
  log2Floor := fun n => n.log2
  belowInvBase := fun x => decide (x.exp + (digitsI B x.signif : Int) < 0)
  tooLarge := fun _ => false
  intDigits := fun x => (x.exp + (digitsI B x.signif : Int)).toNat
  floorLog2 := fun x => (x.signif.natAbs.log2 : Int) + x.exp * (B.log2 : Int)
  powfArgDigits := fun _ _ => 2

def E10 : Env := ⟨10, .halfEven, coarseNone, exactEst 10⟩

/-- `iacoth(6)` at 5 digits ends (well within 40 steps) -/
example : (match iacoth 40 E10 5 6 with | .ok _ => true | .error _ => false) = true := by
  decide +kernel

/-- `ln 2` and `exp 1` at 4 digits run to completion through the mirrored bodies (and are flagged inexact) -/
example : (match lnBody 60 E10 4 ⟨2, 0⟩ false with | .ok r => r.1.2.isSome | .error _ => false) = true := by
  decide +kernel
example : (match expBody 60 E10 4 ⟨1, 0⟩ false with | .ok r => r.1.2.isSome | .error _ => false) = true := by
  decide +kernel
example : DlbSound 10 (exactEst 10).dlb := fun _ => Nat.sub_le _ _

/-! non-vacuity of `expLoop_step_bound` / `sum_add_keeps_one`: base 10, `r = 0.005` held at 6 digits (`u = 2`), the exact
    digit-count oracle with `digits_lb = digits − 1` (`cS = 1`), fuel 5 -/
theorem coarseNone_sound : CoarseSound coarseNone := fun _ _ _ _ h => by simp [coarseNone] at h
theorem exactEst_dub_sound (B : Nat) : DubSound B (exactEst B).dub := fun _ => Nat.le_refl _
theorem exactEst_dlb_tight (B : Nat) : Dashu.Proofs.Trans.SeriesBound.DlbTight B (exactEst B).dlb 1 := fun v => by
  simp only [exactEst]; omega

example : ∃ res, expLoop E10 ⟨⟨5, -3⟩, 6⟩ 5 1 ⟨⟨5, -3⟩, 6⟩ (fAddSub E10 FBigM.one ⟨⟨5, -3⟩, 6⟩ 1) 2 = .ok (some res) ∧
    2 ≤ res.2 ∧ (res.2 = 2 ∨ 2 * (res.2 - 1) < 6 + 1 + 1) :=
  expLoop_step_bound E10 (by decide) coarseNone_sound (exactEst_dub_sound 10) 1 (exactEst_dlb_tight 10)
    ⟨⟨5, -3⟩, 6⟩ 6 2 (by decide) rfl (by decide)
    (by decide +kernel) 5 (by decide) (by decide)

example : 1 ≤ (fAddSub E10 ⟨⟨1005, -3⟩, 4⟩ ⟨⟨12345, -9⟩, 4⟩ 1).repr.toRat 10 :=
  sum_add_keeps_one E10 (by decide) coarseNone_sound (exactEst_dub_sound 10) _ _ (by decide)
    (by decide +kernel) (by decide)

/-- non-vacuity of `iacothLoop_step_bound`: base 10, `iacoth(6)` at `w = 6`: `inv = 0.166667`, `inv2 = 0.0277779 ≤ 10^-1`
    (`u = 1`), `pow = sum = inv ≤ 10^0` (`b = 0`), `sum ≥ 10^-1` (`L = -1`), `cS = 1`, fuel 9 (`1 + 1 + 6 < 9`) -/
example : ∃ res, iacothLoop E10 6 ⟨⟨277779, -7⟩, 6⟩ 9 ⟨⟨166667, -6⟩, 6⟩ ⟨⟨166667, -6⟩, 6⟩ 3 = .ok (some res) ∧ 3 ≤ res.2 ∧
    res.2 < 3 + 2 * 9 :=
  iacothLoop_step_bound E10 (by decide) coarseNone_sound (exactEst_dub_sound 10) 1 (exactEst_dlb_tight 10)
    ⟨⟨277779, -7⟩, 6⟩ 6 1 (by decide) rfl (by decide +kernel) (by decide +kernel) (-1) 9 ⟨⟨166667, -6⟩, 6⟩ ⟨⟨166667, -6⟩, 6⟩ 3 0
    rfl (by decide +kernel) (by decide +kernel) (by decide +kernel) rfl (by decide) (by decide) (by decide)

end Dashu.Props.C11Series
