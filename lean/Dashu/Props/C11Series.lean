import Dashu.Proofs.Trans.Series
import Dashu.Proofs.Trans.SeriesBound
import Dashu.Proofs.Trans.SumStage
import Dashu.Proofs.Trans.IacothSum
import Dashu.Proofs.Trans.LnSum
import Dashu.Proofs.Trans.SumExp
import Dashu.Proofs.Trans.StopTest
import Dashu.Proofs.Trans.PowfFlag
import Dashu.Proofs.Trans.PowfOne
/-
  C11 — the MIRRORED numerical bodies of `float/src/exp.rs` / `float/src/log.rs`
  (`Model/Trans/Series.lean`: `expBody`, `lnBody`, `iacoth`, `ln2`, `ln10`, `lnBase`, `powfBody`, executed by the
  driver of group `trans` and compared digit for digit with the implementation).

  What is proved here, for all inputs and every estimate oracle:
  * the flag-tracking powering loop that `exp_internal` ends with has the VALUE of the loop of `Props/C11Powi`
    (so `powi_nonneg_error` — relative distance `B^(2-p-bit_len p)` from `base^n` — is a statement about the final
    stage `exp(r)^(B^n)` of the mirrored `exp_internal`: the error-propagation bound of the repeated-squaring stage);
  * the three series loops are `loop { … }` in the source and fuel-recursive in the model: a result obtained with
    some fuel is the result for every larger fuel (the fuel is not observable), and the index of the last term
    is bounded by the number of steps taken;
  * the working-precision formulas the mirror evaluates, spelled out (`*_eq`): these are the texts tied to the source
    by `vlib/props/c11.py` `source_formulas` (a changed formula in `/repo` is reported as a broken correspondence).

  Round 5: an EXPLICIT STEP BOUND for the Maclaurin loop of `exp_internal` (scaled branch: reduced argument
  `0 < r ≤ B^(−u)`) under the explicit two-sided hypothesis `DlbTight` on `digits_lb` (`expLoop_step_bound`; the driver
  checks the hypotheses and the bound on every mirrored `exp` case), the lemma that `sum += increase` keeps a sum `≥ 1`
  for operands of any length (`sum_add_keeps_one`), and the error propagation through one stage of the loop
  (`expStage_error`, `expTerms_error`: the k-th term is `r^k / k!` up to `k` relative errors `B^(1−w)`).

  Also a step bound for the loop of `iacoth` (all terms positive; `iacothLoop_step_bound`, theorem only).
  NOT proved (see `vlib/props/c11.py` FRONTIER): step bounds for the atanh loop of `ln_internal` and for the
  unscaled `exp_m1` branch (terms of either sign).

  Round 6: the error of `sum += increase` (`sum_add_error`: `FBig + FBig` of positive operands of ANY length is the exact
  sum up to two relative errors, also in the far-apart branch of `repr_add_large_small`) and the ACCUMULATED error of the
  partial sum of the Maclaurin loop (`expSum_error`, `expLoop_result_error`: a returned `(sum, k)` is `Σ_{j<k} r^j/j!` up to
  `2(k−2)+2` relative errors `B^(1−w)`); the zero-operand arms of `FBig ± FBig` as repaired by /repo 164990d
  (`fAddSub_zero_operand`, `fAddSub_zero_fits`); the same chain for the loop of `iacoth` (`iacothTerms_error`,
  `iacothSum_error`, `iacothLoop_result_error`: a returned `(sum, k = 2j+3)` is `Σ_{l≤j} inv·inv2^l/(2l+1)` up to `2j+4` errors)
  and, the recursion being the same, for the atanh loop of `ln_internal` with a positive `z` (`lnLoop_result_error`).
  Against the REAL exponential (`expLoop_result_vs_exp`): `|sum − exp r| ≤ 2Kε·exp r + 2·r^k/k!` for the returned `(sum, k)`;
  with the stop test composed in (`expLoop_stage_error`): `|sum − exp r| ≤ 2Kε·exp r + 4·B^(−w)·sum`.
-/
namespace Dashu.Props.C11Series
open Dashu.Model.Float Dashu.Model.Trans

/-- the powering stage of the mirrored `exp_internal` computes the value analysed in `Props/C11Powi` -/
theorem powLoopF_value (B : Nat) (m : Mode) (c : Coarse) (q : Nat) (base : FRepr) (bs : List Bool)
    (cur : Rounded FRepr) :
    (powLoopF B m c q base bs cur).1 = powLoop false B m c q base bs cur.1 :=
  Dashu.Proofs.Trans.Series.powLoopF_value B m c q base bs cur

theorem powiNonnegF_value (E : Env) (p : Nat) (base : FRepr) (n : Nat) :
    (powiNonnegF E p base n).1 = (powiNonneg false E.B E.m E.c p base (lowBits n)).2.1 :=
  Dashu.Proofs.Trans.Series.powiNonnegF_value E p base n

/-- Maclaurin loop of `exp_internal`: more fuel never changes a result -/
theorem expLoop_fuel_irrelevant (E : Env) (r : FBigM) (f g : Nat) (hfg : f ≤ g) (fa : Int) (pw sm : FBigM)
    (k : Nat) (res : FBigM × Nat) (h : expLoop E r f fa pw sm k = .ok (some res)) :
    expLoop E r g fa pw sm k = .ok (some res) :=
  Dashu.Proofs.Trans.Series.expLoop_mono E r f g hfg fa pw sm k res h

/-- atanh loop of `ln_internal`: more fuel never changes a result -/
theorem lnLoop_fuel_irrelevant (E : Env) (w : Nat) (z2 : FBigM) (f g : Nat) (hfg : f ≤ g) (pw sm : FBigM)
    (k : Nat) (res : FBigM × Nat) (h : lnLoop E w z2 f pw sm k = .ok (some res)) :
    lnLoop E w z2 g pw sm k = .ok (some res) :=
  Dashu.Proofs.Trans.Series.lnLoop_mono E w z2 f g hfg pw sm k res h

/-- loop of `iacoth`: more fuel never changes a result -/
theorem iacothLoop_fuel_irrelevant (E : Env) (w : Nat) (inv2 : FBigM) (f g : Nat) (hfg : f ≤ g) (pw sm : FBigM)
    (k : Nat) (res : FBigM × Nat) (h : iacothLoop E w inv2 f pw sm k = .ok (some res)) :
    iacothLoop E w inv2 g pw sm k = .ok (some res) :=
  Dashu.Proofs.Trans.Series.iacothLoop_mono E w inv2 f g hfg pw sm k res h

/-- two runs of the Maclaurin loop that both end agree, whatever their fuels -/
theorem expLoop_deterministic (E : Env) (r : FBigM) (f g : Nat) (fa : Int) (pw sm : FBigM) (k : Nat)
    (r1 r2 : FBigM × Nat) (h1 : expLoop E r f fa pw sm k = .ok (some r1))
    (h2 : expLoop E r g fa pw sm k = .ok (some r2)) : r1 = r2 := by
  rcases Nat.le_total f g with hfg | hgf
  · have := expLoop_fuel_irrelevant E r f g hfg fa pw sm k r1 h1
    rw [h2] at this; injection this with this; injection this with this; exact this.symm
  · have := expLoop_fuel_irrelevant E r g f hgf fa pw sm k r2 h2
    rw [h1] at this; injection this with this; injection this

/-- the reported index of the last Maclaurin term lies within the steps taken -/
theorem expLoop_steps (E : Env) (r : FBigM) (f : Nat) (fa : Int) (pw sm : FBigM) (k : Nat) (res : FBigM × Nat)
    (h : expLoop E r f fa pw sm k = .ok (some res)) : k ≤ res.2 ∧ res.2 < k + f :=
  Dashu.Proofs.Trans.Series.expLoop_steps E r f fa pw sm k res h

/-! ### the working-precision formulas of the source, as evaluated by the mirror -/

/-- `exp_internal`, scaled branch:
    `work_precision = self.precision + series_guard_digits + pow_guard_digits.max(n + 2) + int_digits` with
    `series_guard_digits = (self.precision.log2_est() / B.log2_est()) as usize + 2`,
    `pow_guard_digits = (self.precision.bit_len() as f32 * B.log2_est() * 2.) as usize`,
    `n = 1usize << (self.precision.bit_len() / 2)` -/
theorem expWorkPrec_eq (est : Est) (p : Nat) (x : FRepr) :
    expWorkPrec est p x = p + (est.logQuot p + 2) + max (est.powGuard (bitLen p)) (2 ^ (bitLen p / 2) + 2) + est.intDigits x :=
  rfl

/-- `exp_internal`, unscaled `exp_m1` branch: `p + 2·series_guard_digits` for a negative argument, else
    `p + series_guard_digits` -/
theorem expWorkPrecNoScaling_eq (est : Est) (p : Nat) (neg : Bool) :
    expWorkPrecNoScaling est p neg = if neg then p + 2 * (est.logQuot p + 2) else p + (est.logQuot p + 2) :=
  rfl

/-- `ln_internal`: `work_precision = self.precision + guard_digits + one_plus as usize`,
    `guard_digits = (self.precision.log2_est() / B.log2_est()) as usize + 2` -/
theorem lnWorkPrec_eq (est : Est) (p : Nat) (onePlus : Bool) :
    lnWorkPrec est p onePlus = p + (est.logQuot p + 2) + (if onePlus then 1 else 0) := rfl

/-- `iacoth`: `Self::new(self.precision + guard_digits + 2)`,
    `guard_digits = (self.precision.log2_est() / B.log2_est()) as usize` -/
theorem iacothWorkPrec_eq (est : Est) (p : Nat) : iacothWorkPrec est p = p + est.logQuot p + 2 := rfl

/-- `powf`: `guard_digits = 10 + self.precision.log2_est() as usize + arg_digits` -/
theorem powfGuardDigits_eq (est : Est) (p : Nat) (base exp : FRepr) :
    powfGuardDigits est p base exp = 10 + est.log2Floor p + est.powfArgDigits base exp := rfl

/-- `powi` (the stage `exp(r)^(B^n)`): `guard_digits = exp.bit_len() + self.precision.bit_len()` -/
theorem powiWorkPrec_eq (p n : Nat) (hn : 2 ≤ n) :
    powiWorkPrec p (lowBits n) = p + bitLen n + bitLen p := by
  have hb : 1 ≤ bitLen n := by
    unfold bitLen
    split
    · omega
    · omega
  simp only [powiWorkPrec, lowBits, List.length_map, List.length_reverse, List.length_range]
  omega

/-- the working precisions always exceed the target precision by at least two digits -/
theorem workPrec_gt (est : Est) (p : Nat) (x : FRepr) (b : Bool) :
    p + 2 ≤ expWorkPrec est p x ∧ p + 2 ≤ expWorkPrecNoScaling est p b ∧ p + 2 ≤ lnWorkPrec est p b
      ∧ p + 2 ≤ iacothWorkPrec est p := by
  refine ⟨?_, ?_, ?_, ?_⟩
  · simp only [expWorkPrec, seriesGuardDigits]; omega
  · simp only [expWorkPrecNoScaling, seriesGuardDigits]; split <;> omega
  · simp only [lnWorkPrec]; omega
  · simp only [iacothWorkPrec]; omega


/-! ### the exactness clause on the mirror: `Exact` comes from the shortcuts only -/

/-- the mirrored `exp_internal` behind its guards never reports `Exact` (`mark_inexact`; exp of a non-zero float is
    irrational) -/
theorem expBody_never_exact (fuel : Nat) (E : Env) (p : Nat) (x : FRepr) (minusOne : Bool) (v : FBigM)
    (fl : Option Rounding) (tr : Trace) (h : expBody fuel E p x minusOne = .ok ((v, fl), tr)) : fl ≠ none :=
  Dashu.Proofs.Trans.Series.expBody_flag fuel E p x minusOne v fl tr h

/-- the mirrored `ln_internal` behind its guards never reports `Exact` -/
theorem lnBody_never_exact (fuel : Nat) (E : Env) (p : Nat) (x : FRepr) (onePlus : Bool) (v : FBigM)
    (fl : Option Rounding) (tr : Trace) (h : lnBody fuel E p x onePlus = .ok ((v, fl), tr)) : fl ≠ none :=
  Dashu.Proofs.Trans.Series.lnBody_flag fuel E p x onePlus v fl tr h

/-- `Context::exp` / `exp_m1` (mirror with guards): flagged `Exact` only for `x = 0` -/
theorem expFull_exact_only_zero (fuel : Nat) (E : Env) (p : Nat) (x : FRepr) (minusOne : Bool) (v : FBigM) (tr : Trace)
    (h : expFull fuel E p x minusOne = .ok ((v, none), tr)) : x.isZero = true :=
  Dashu.Proofs.Trans.Series.expFull_flag fuel E p x minusOne v tr h

/-- `Context::ln` / `ln_1p` (mirror with guards): flagged `Exact` only for `ln 1` and `ln_1p 0` -/
theorem lnFull_exact_only_shortcut (fuel : Nat) (E : Env) (p : Nat) (x : FRepr) (onePlus : Bool) (v : FBigM) (tr : Trace)
    (h : lnFull fuel E p x onePlus = .ok ((v, none), tr)) :
    ((onePlus && x.isZero) || (!onePlus && x.signif == 1 && x.exp == 0)) = true :=
  Dashu.Proofs.Trans.Series.lnFull_flag fuel E p x onePlus v tr h

/-- the results of the mirrored bodies carry the precision of the context -/
theorem body_prec (fuel : Nat) (E : Env) (p : Nat) (x y : FRepr) (b : Bool) (v : FBigM) (fl : Option Rounding) (tr : Trace) :
    (expBody fuel E p x b = .ok ((v, fl), tr) → v.prec = p) ∧ (lnBody fuel E p x b = .ok ((v, fl), tr) → v.prec = p)
      ∧ (powfBody fuel E p x y = .ok ((v, fl), tr) → v.prec = p) :=
  ⟨Dashu.Proofs.Trans.Series.expBody_prec fuel E p x b v fl tr, Dashu.Proofs.Trans.Series.lnBody_prec fuel E p x b v fl tr,
   Dashu.Proofs.Trans.Series.powfBody_prec fuel E p x y v fl tr⟩

/-- `FBig::sub_ulp` (the stop threshold of the three series) is a power of the base not above
    `B^(exponent + digits − precision − 1)`, for every sound `digits_lb` estimate ("guaranteed to be smaller than ulp()") -/
theorem subUlp_le (E : Env) (h : DlbSound E.B E.est.dlb) (x : FBigM) :
    (fSubUlp E x).signif = 1 ∧
      (fSubUlp E x).exp ≤ x.repr.exp + (digitsI E.B x.repr.signif : Int) - (x.prec : Int) - 1 :=
  Dashu.Proofs.Trans.Series.fSubUlp_le E h x


/-! ### Round 5: explicit step bound of the Maclaurin loop, `sum += increase`, error of the terms -/

open Dashu.Proofs.Trans.SeriesBound in
/-- **`sum += increase`**: `FBig + FBig` with a left operand of value `≥ 1` and a positive right operand of ANY length
    (the quotient `increase` may carry `p+1` digits — outside `Props/C03.add_sub_contract`) never returns less than `1` -/
theorem sum_add_keeps_one (E : Env) (hB : 2 ≤ E.B) (hc : CoarseSound E.c) (hdub : DubSound E.B E.est.dub) (x y : FBigM)
    (hp : 1 ≤ ctxMaxP x.prec y.prec) (hx : 1 ≤ x.repr.toRat E.B) (hy : 0 < y.repr.signif) :
    1 ≤ (fAddSub E x y 1).repr.toRat E.B :=
  fAddSub_keeps E hB hc hdub x y hp hx hy

open Dashu.Proofs.Trans.SeriesBound in
/-- **Step bound of the Maclaurin loop of `exp_internal`** from its entry state (`factorial = 1`, `pow = r`,
    `sum = 1 + r`, `k = 2`), reduced argument `0 < r ≤ B^(−u)` at the working precision `w ≥ 1`.
    Hypotheses on the estimate oracles: `digits_ub` sound, `round_fract`'s coarse test sound, and the TWO-SIDED quality of
    `digits_lb`: `digits(v) ≤ digits_lb(v) + cS` (`DlbTight`; the other side `DlbSound` is what makes `sub_ulp` smaller
    than an ulp).  Then with any fuel `≥ 1` such that `u·(fuel + 1) ≥ w + cS + 1` the loop returns a value — the fuel
    does not run out, no division fails — and the index `k` of the last term is `2` or satisfies
    `u·(k − 1) < w + cS + 1` (at most `(w + cS)/u + 1` terms beyond the first two). -/
theorem expLoop_step_bound (E : Env) (hB : 2 ≤ E.B) (hc : CoarseSound E.c) (hdub : DubSound E.B E.est.dub) (cS : Nat)
    (hd : DlbTight E.B E.est.dlb cS) (r : FBigM) (w u : Nat) (hw : 1 ≤ w) (hrp : r.prec = w)
    (hr0 : 0 < r.repr.signif) (hru : r.repr.toRat E.B ≤ bpowQ E.B (-(u : Int)))
    (fuel : Nat) (hf1 : 1 ≤ fuel) (hfuel : w + cS + 1 ≤ u * (fuel + 1)) :
    ∃ res, expLoop E r fuel 1 r (fAddSub E FBigM.one r 1) 2 = .ok (some res) ∧ 2 ≤ res.2 ∧
      (res.2 = 2 ∨ u * (res.2 - 1) < w + cS + 1) :=
  expLoop_bound E hB hc hdub cS hd r w u hw hrp hr0 hru fuel hf1 hfuel

/-- the fuel `(w + cS)/u + 1` always meets the hypothesis of `expLoop_step_bound` -/
theorem expLoop_fuel_suffices (w cS u : Nat) (hu : 1 ≤ u) : w + cS + 1 ≤ u * ((w + cS) / u + 1 + 1) :=
  Dashu.Proofs.Trans.SeriesBound.expLoop_fuel_suffices w cS u hu

/-- **error propagation through one stage of the Maclaurin loop** (`pow *= &r; increase = &pow / &factorial`) with
    `ε = B^(1−w)`: `j` accumulated relative errors in `pow` become `j + 1` in the new `pow` and `j + 2` in the term -/
theorem expStage_error (E : Env) (hB : 2 ≤ E.B) (hc : CoarseSound E.c) (r pw : FBigM) (w : Nat) (hw : 1 ≤ w)
    (hrp : r.prec = w) (hpp : pw.prec = w) (F : Int) (hF : 1 ≤ F) (j : Nat) (t : ℚ)
    (h : Approx (bpowQ E.B (1 - (w : Int))) j (pw.repr.toRat E.B) t) :
    Approx (bpowQ E.B (1 - (w : Int))) (j + 1) ((fMul E pw r).repr.toRat E.B) (t * r.repr.toRat E.B) ∧
    ∃ inc, fDiv E (fMul E pw r) (fOfInt E.B F) = .ok inc ∧
      Approx (bpowQ E.B (1 - (w : Int))) (j + 2) (inc.repr.toRat E.B) (t * r.repr.toRat E.B * (1 / (F : ℚ))) :=
  Dashu.Proofs.Trans.SeriesBound.expStage_error E hB hc r pw w hw hrp hpp F hF j t h

open Dashu.Proofs.Trans.SeriesBound in
/-- **the terms of the Maclaurin series as the loop computes them**: before the step with index `k = i + 2` the loop
    holds `factorial = (k−1)!` and `pow ≈ r^(k−1)` (`k − 2` relative errors `B^(1−w)`); the term `increase` it forms is
    `r^k / k!` up to `k` accumulated relative errors (`expState` = the `(factorial, pow)` the loop's recursion passes,
    `expLoop_state`) -/
theorem expTerms_error (E : Env) (hB : 2 ≤ E.B) (hc : CoarseSound E.c) (r : FBigM) (w : Nat) (hw : 1 ≤ w)
    (hrp : r.prec = w) (i : Nat) :
    (expState E r i).1 = ((i + 1).factorial : Int) ∧
    Approx (bpowQ E.B (1 - (w : Int))) i ((expState E r i).2.repr.toRat E.B) ((r.repr.toRat E.B) ^ (i + 1)) ∧
    ∃ inc, fDiv E (fMul E (expState E r i).2 r) (fOfInt E.B ((expState E r i).1 * ((i + 2 : Nat) : Int))) = .ok inc ∧
      Approx (bpowQ E.B (1 - (w : Int))) (i + 2) (inc.repr.toRat E.B)
        ((r.repr.toRat E.B) ^ (i + 2) / ((i + 2).factorial : ℚ)) :=
  Dashu.Proofs.Trans.SeriesBound.expTerms_error E hB hc r w hw hrp i

open Dashu.Proofs.Trans.SeriesBound in
/-- the loop's recursive call passes `(factorial·k, pow·r)`: the next `expState` -/
theorem expLoop_state (E : Env) (r : FBigM) (fuel : Nat) (fa : Int) (pw sm : FBigM) (k : Nat) :
    expLoop E r (fuel + 1) fa pw sm k =
      match fDiv E (fMul E pw r) (fOfInt E.B (fa * (k : Int))) with
      | .error e => .error e
      | .ok increase =>
        if reprAbsCmp E.B increase.repr (fSubUlp E sm) ≠ .gt then .ok (some (sm, k))
        else expLoop E r fuel (fa * (k : Int)) (fMul E pw r) (fAddSub E sm increase 1) (k + 1) :=
  expLoop_unfold E r fuel fa pw sm k

open Dashu.Proofs.Trans.SeriesBound in
/-- **Step bound of the loop of `Context::iacoth`** (`pow *= inv2; increase = pow / k; if increase < sum.sub_ulp() { return }
    sum += increase; k += 2`; all terms positive) for `0 ≤ inv2 ≤ B^(−u)` held at `w ≥ 1` digits, under the same oracle
    hypotheses as `expLoop_step_bound` (`DubSound`, `CoarseSound`, two-sided `DlbTight`): from a state `0 ≤ pow ≤ B^b`,
    `sum ≥ B^L`, both at precision `w`, the loop returns a value with any fuel `≥ 1` such that `u·fuel > b − L + cS + w`, and
    the last index is below `k + 2·fuel`.  (In `iacoth(n)`: `pow = sum = 1/n`, so `b − L = 1`; `inv2 = 1/n²`.)
    Theorem only: the driver does not evaluate it per case. -/
theorem iacothLoop_step_bound (E : Env) (hB : 2 ≤ E.B) (hc : CoarseSound E.c) (hdub : DubSound E.B E.est.dub) (cS : Nat)
    (hd : DlbTight E.B E.est.dlb cS) (inv2 : FBigM) (w u : Nat) (hw : 1 ≤ w) (hip : inv2.prec = w)
    (hi0 : 0 ≤ inv2.repr.toRat E.B) (hiu : inv2.repr.toRat E.B ≤ bpowQ E.B (-(u : Int))) (L : Int)
    (fuel : Nat) (pw sm : FBigM) (k : Nat) (b : Int)
    (hpp : pw.prec = w) (hp0 : 0 ≤ pw.repr.toRat E.B) (hpb : pw.repr.toRat E.B ≤ bpowQ E.B b)
    (hsL : bpowQ E.B L ≤ sm.repr.toRat E.B) (hsp : sm.prec = w) (hk : 1 ≤ k)
    (hf1 : 1 ≤ fuel) (hfuel : b - L + (cS : Int) + (w : Int) < (u : Int) * (fuel : Int)) :
    ∃ res, iacothLoop E w inv2 fuel pw sm k = .ok (some res) ∧ k ≤ res.2 ∧ res.2 < k + 2 * fuel :=
  iacothLoop_bound E hB hc hdub cS hd inv2 w u hw hip hi0 hiu L fuel pw sm k b hpp hp0 hpb hsL hsp hk hf1 hfuel

open Dashu.Proofs.Trans.SeriesBound in
/-- `sum += increase` keeps a sum `≥ B^L` at or above `B^L` (any `L`; `sum_add_keeps_one` is `L = 0`) -/
theorem sum_add_keeps_pow (E : Env) (hB : 2 ≤ E.B) (hc : CoarseSound E.c) (hdub : DubSound E.B E.est.dub) (x y : FBigM)
    (hp : 1 ≤ ctxMaxP x.prec y.prec) (L : Int) (hx : bpowQ E.B L ≤ x.repr.toRat E.B) (hy : 0 < y.repr.signif) :
    bpowQ E.B L ≤ (fAddSub E x y 1).repr.toRat E.B :=
  fAddSub_keeps_pow E hB hc hdub x y hp L hx hy

/-! non-vacuity: the loops do end on concrete inputs (base 10, mode HalfEven, a sound estimate oracle) -/

/-- an oracle built from exact digit counts (sound for `dub`/`dlb`; the driver uses the `f32` replica instead) -/
def exactEst (B : Nat) : Est where
  dub := digitsI B
  dlb := fun v => digitsI B v - 1
  logQuot := fun n => digits B n - 1
  powGuard := fun bl => 2 * bl * (B.log2 + 1)
  log2Floor := fun n => n.log2
  belowInvBase := fun x => decide (x.exp + (digitsI B x.signif : Int) < 0)
  tooLarge := fun _ => false
  intDigits := fun x => (x.exp + (digitsI B x.signif : Int)).toNat
  floorLog2 := fun x => (x.signif.natAbs.log2 : Int) + x.exp * (B.log2 : Int)
  powfArgDigits := fun _ _ => 2

def E10 : Env := ⟨10, .halfEven, coarseNone, exactEst 10⟩

/-- `iacoth(6)` at 5 digits ends (well within 40 steps) -/
example : (match iacoth 40 E10 5 6 with | .ok _ => true | .error _ => false) = true := by
  decide +kernel

/-- `ln 2` and `exp 1` at 4 digits run to completion through the mirrored bodies (and are flagged inexact) -/
example : (match lnBody 60 E10 4 ⟨2, 0⟩ false with | .ok r => r.1.2.isSome | .error _ => false) = true := by
  decide +kernel
example : (match expBody 60 E10 4 ⟨1, 0⟩ false with | .ok r => r.1.2.isSome | .error _ => false) = true := by
  decide +kernel
example : DlbSound 10 (exactEst 10).dlb := fun _ => Nat.sub_le _ _

/-! non-vacuity of `expLoop_step_bound` / `sum_add_keeps_one`: base 10, `r = 0.005` held at 6 digits (`u = 2`), the exact
    digit-count oracle with `digits_lb = digits − 1` (`cS = 1`), fuel 5 -/
theorem coarseNone_sound : CoarseSound coarseNone := fun _ _ _ _ h => by simp [coarseNone] at h
theorem exactEst_dub_sound (B : Nat) : DubSound B (exactEst B).dub := fun _ => Nat.le_refl _
theorem exactEst_dlb_tight (B : Nat) : Dashu.Proofs.Trans.SeriesBound.DlbTight B (exactEst B).dlb 1 := fun v => by
  simp only [exactEst]; omega

example : ∃ res, expLoop E10 ⟨⟨5, -3⟩, 6⟩ 5 1 ⟨⟨5, -3⟩, 6⟩ (fAddSub E10 FBigM.one ⟨⟨5, -3⟩, 6⟩ 1) 2 = .ok (some res) ∧
    2 ≤ res.2 ∧ (res.2 = 2 ∨ 2 * (res.2 - 1) < 6 + 1 + 1) :=
  expLoop_step_bound E10 (by decide) coarseNone_sound (exactEst_dub_sound 10) 1 (exactEst_dlb_tight 10)
    ⟨⟨5, -3⟩, 6⟩ 6 2 (by decide) rfl (by decide)
    (by decide +kernel) 5 (by decide) (by decide)

example : 1 ≤ (fAddSub E10 ⟨⟨1005, -3⟩, 4⟩ ⟨⟨12345, -9⟩, 4⟩ 1).repr.toRat 10 :=
  sum_add_keeps_one E10 (by decide) coarseNone_sound (exactEst_dub_sound 10) _ _ (by decide)
    (by decide +kernel) (by decide)

/-- non-vacuity of `iacothLoop_step_bound`: base 10, `iacoth(6)` at `w = 6`: `inv = 0.166667`, `inv2 = 0.0277779 ≤ 10^-1`
    (`u = 1`), `pow = sum = inv ≤ 10^0` (`b = 0`), `sum ≥ 10^-1` (`L = -1`), `cS = 1`, fuel 9 (`1 + 1 + 6 < 9`) -/
example : ∃ res, iacothLoop E10 6 ⟨⟨277779, -7⟩, 6⟩ 9 ⟨⟨166667, -6⟩, 6⟩ ⟨⟨166667, -6⟩, 6⟩ 3 = .ok (some res) ∧ 3 ≤ res.2 ∧
    res.2 < 3 + 2 * 9 :=
  iacothLoop_step_bound E10 (by decide) coarseNone_sound (exactEst_dub_sound 10) 1 (exactEst_dlb_tight 10)
    ⟨⟨277779, -7⟩, 6⟩ 6 1 (by decide) rfl (by decide +kernel) (by decide +kernel) (-1) 9 ⟨⟨166667, -6⟩, 6⟩ ⟨⟨166667, -6⟩, 6⟩ 3 0
    rfl (by decide +kernel) (by decide +kernel) (by decide +kernel) rfl (by decide) (by decide) (by decide)


/-! ### Round 6: error of `sum += increase`, accumulated error of the partial sum, zero-operand arms of `FBig ± FBig` -/

open Dashu.Proofs.Trans.SumStage in
/-- **error of one `sum += increase`**: `FBig + FBig` of two positive operands of ANY length (the quotient `increase` may
    carry `P+1` digits) at the max context `P ≥ 1`, every mode, every sound `digits_ub`, is the exact sum up to two relative
    errors `B^(1−P)` (one in the aligned branches of `repr_add_large_small`, two in its far-apart branch where the small
    operand is replaced by a sticky unit before the rounding) -/
theorem sum_add_error (E : Env) (hB : 2 ≤ E.B) (hc : CoarseSound E.c) (hdub : DubSound E.B E.est.dub) (x y : FBigM)
    (hp : 1 ≤ ctxMaxP x.prec y.prec) (hx : 0 < x.repr.signif) (hy : 0 < y.repr.signif) :
    Approx (bpowQ E.B (1 - (ctxMaxP x.prec y.prec : Int))) 2 ((fAddSub E x y 1).repr.toRat E.B)
      (x.repr.toRat E.B + y.repr.toRat E.B) :=
  fAddSub_pos_error E hB hc hdub x y hp hx hy

open Dashu.Proofs.Trans.SeriesBound Dashu.Proofs.Trans.SumStage in
/-- **accumulated error of the partial sum of the Maclaurin loop** (reduced argument `r > 0` held at `w ≥ 1` digits):
    the sum the loop holds before the step with index `k = i + 2` (`expSumState`: `1 + r`, then `sum += increase` with the
    terms of `expTerms_error`) is `≥ 1`, has a precision `≥ w`, and is `expPartial r i = Σ_{j ≤ i+1} r^j/j!` up to `2i + 2`
    accumulated relative errors `B^(1−w)` -/
theorem expSum_error (E : Env) (hB : 2 ≤ E.B) (hc : CoarseSound E.c) (hdub : DubSound E.B E.est.dub) (r : FBigM)
    (w : Nat) (hw : 1 ≤ w) (hrp : r.prec = w) (hr0 : 0 < r.repr.signif) (i : Nat) :
    1 ≤ (expSumState E r i).repr.toRat E.B ∧ w ≤ (expSumState E r i).prec ∧
      Approx (bpowQ E.B (1 - (w : Int))) (2 * i + 2) ((expSumState E r i).repr.toRat E.B)
        (expPartial (r.repr.toRat E.B) i) :=
  Dashu.Proofs.Trans.SumStage.expSum_error E hB hc hdub r w hw hrp hr0 i

open Dashu.Proofs.Trans.SeriesBound Dashu.Proofs.Trans.SumStage in
/-- the exact partial sums, spelled out: `expPartial r 0 = 1 + r`, `expPartial r (i+1) = expPartial r i + r^(i+2)/(i+2)!` -/
theorem expPartial_eq (r : ℚ) (i : Nat) :
    expPartial r 0 = 1 + r ∧ expPartial r (i + 1) = expPartial r i + r ^ (i + 2) / ((i + 2).factorial : ℚ) :=
  ⟨rfl, rfl⟩

open Dashu.Proofs.Trans.SeriesBound Dashu.Proofs.Trans.SumStage in
/-- whatever the Maclaurin loop returns from a state of its own trajectory is one of the `expSumState`s, with the matching
    index of the last term -/
theorem expLoop_result (E : Env) (r : FBigM) (fuel i : Nat) (res : FBigM × Nat)
    (h : expLoop E r fuel (expState E r i).1 (expState E r i).2 (expSumState E r i) (i + 2) = .ok (some res)) :
    ∃ j, i ≤ j ∧ res = (expSumState E r j, j + 2) :=
  Dashu.Proofs.Trans.SumStage.expLoop_result E r fuel i res h

open Dashu.Proofs.Trans.SumStage in
/-- **what the Maclaurin loop of `exp_internal` returns** from its entry state (`factorial = 1`, `pow = r`, `sum = 1 + r`,
    `k = 2`), with any fuel: `k ≥ 2`, `sum ≥ 1`, and `sum = Σ_{j<k} r^j/j!` up to `2(k−2) + 2` accumulated relative errors
    `B^(1−w)`.  (The truncation error of the series is what the stop test bounds; together with `expLoop_step_bound` —
    `k ≤ (w+cS)/u + 2` — the rounding part is at most `(2(w+cS)/u + 2)·B^(1−w)` relative, to first order.) -/
theorem expLoop_result_error (E : Env) (hB : 2 ≤ E.B) (hc : CoarseSound E.c) (hdub : DubSound E.B E.est.dub) (r : FBigM)
    (w : Nat) (hw : 1 ≤ w) (hrp : r.prec = w) (hr0 : 0 < r.repr.signif) (fuel : Nat) (res : FBigM × Nat)
    (h : expLoop E r fuel 1 r (fAddSub E FBigM.one r 1) 2 = .ok (some res)) :
    2 ≤ res.2 ∧ 1 ≤ res.1.repr.toRat E.B ∧
      Approx (bpowQ E.B (1 - (w : Int))) (2 * (res.2 - 2) + 2) (res.1.repr.toRat E.B)
        (expPartial (r.repr.toRat E.B) (res.2 - 2)) :=
  Dashu.Proofs.Trans.SumStage.expLoop_result_error E hB hc hdub r w hw hrp hr0 fuel res h

/-- `FBig ± FBig` with a zero operand (`add_val_val` &c. as repaired by /repo 164990d): the other operand ROUNDED to the
    max context (`context.repr_round(..).value()`), no longer returned as it is -/
theorem fAddSub_zero_operand (E : Env) (x y : FBigM) (rs : Int) :
    (x.repr.isZero = true →
      (fAddSub E x y rs).repr = (reprRound E.B E.m E.c (ctxMaxP x.prec y.prec) ⟨rs * y.repr.signif, y.repr.exp⟩).1) ∧
    (x.repr.isZero = false → y.repr.isZero = true →
      (fAddSub E x y rs).repr = (reprRound E.B E.m E.c (ctxMaxP x.prec y.prec) x.repr).1) :=
  Dashu.Proofs.Trans.SumStage.fAddSub_zero_operand E x y rs

/-- … and `x ± 0 = x` whenever `x` fits the max context (all the mirrored series ever hand to this arm) -/
theorem fAddSub_zero_fits (E : Env) (x y : FBigM) (rs : Int) (hx : x.repr.isZero = false) (hy : y.repr.isZero = true)
    (h : x.repr.digits E.B ≤ ctxMaxP x.prec y.prec) : (fAddSub E x y rs).repr = x.repr :=
  Dashu.Proofs.Trans.SumStage.fAddSub_zero_fits E x y rs hx hy h

/-- non-vacuity of `expLoop_result_error` (and of `sum_add_error` through it): base 10, `r = 0.005` at 6 digits, fuel 5 —
    the loop does return, and what it returns carries the stated error bound -/
example : ∃ res, expLoop E10 ⟨⟨5, -3⟩, 6⟩ 5 1 ⟨⟨5, -3⟩, 6⟩ (fAddSub E10 FBigM.one ⟨⟨5, -3⟩, 6⟩ 1) 2 = .ok (some res) ∧
    Approx (bpowQ 10 (1 - 6)) (2 * (res.2 - 2) + 2) (res.1.repr.toRat 10)
      (Dashu.Proofs.Trans.SumStage.expPartial ((⟨5, -3⟩ : FRepr).toRat 10) (res.2 - 2)) := by
  obtain ⟨res, h, _, _⟩ := expLoop_step_bound E10 (by decide) coarseNone_sound (exactEst_dub_sound 10) 1
    (exactEst_dlb_tight 10) ⟨⟨5, -3⟩, 6⟩ 6 2 (by decide) rfl (by decide) (by decide +kernel) 5 (by decide) (by decide)
  exact ⟨res, h, (expLoop_result_error E10 (by decide) coarseNone_sound (exactEst_dub_sound 10) ⟨⟨5, -3⟩, 6⟩ 6 (by decide) rfl
    (by decide) 5 res h).2.2⟩

/-- non-vacuity of the far-apart branch of `sum_add_error`: `1.005 + 1.2345e-12` at 4 digits -/
example : Approx (bpowQ 10 (1 - 4)) 2 ((fAddSub E10 ⟨⟨1005, -3⟩, 4⟩ ⟨⟨12345, -16⟩, 4⟩ 1).repr.toRat 10)
    ((⟨1005, -3⟩ : FRepr).toRat 10 + (⟨12345, -16⟩ : FRepr).toRat 10) :=
  sum_add_error E10 (by decide) coarseNone_sound (exactEst_dub_sound 10) ⟨⟨1005, -3⟩, 4⟩ ⟨⟨12345, -16⟩, 4⟩ (by decide)
    (by decide) (by decide)


/-! ### Round 6: terms and accumulated partial sum of the loop of `Context::iacoth` -/

open Dashu.Proofs.Trans.SeriesBound Dashu.Proofs.Trans.IacothSum in
/-- **the terms of `iacoth` as the loop computes them** (`pow *= &inv2; increase = &pow / k`, `k = 2i + 3`; `inv`, `inv2`
    positive, held at `w ≥ 2` digits): `pow` after `i` multiplications (`iaPow`) is `inv·inv2^i` up to `i` relative errors
    `B^(1−w)`; the term is positive, held at `w` digits and is `inv·inv2^(i+1)/(2i+3)` up to `i + 4` errors (one per
    multiplication, one for the quotient, two because the divisor `convert_int(k)` is itself rounded to `w` digits) -/
theorem iacothTerms_error (E : Env) (hB : 2 ≤ E.B) (hc : CoarseSound E.c) (inv inv2 : FBigM) (w : Nat) (hw2 : 2 ≤ w)
    (h1 : inv.prec = w) (h2 : inv2.prec = w) (hi : 0 < inv.repr.signif) (hi2 : 0 < inv2.repr.signif) (i : Nat) :
    Approx (bpowQ E.B (1 - (w : Int))) i ((iaPow E inv inv2 i).repr.toRat E.B)
      (inv.repr.toRat E.B * (inv2.repr.toRat E.B) ^ i) ∧
    ∃ inc, iaInc E w inv inv2 i = .ok inc ∧ inc.prec = w ∧ 0 < inc.repr.toRat E.B ∧
      Approx (bpowQ E.B (1 - (w : Int))) (i + 4) (inc.repr.toRat E.B)
        (inv.repr.toRat E.B * (inv2.repr.toRat E.B) ^ (i + 1) / ((2 * i + 3 : Nat) : ℚ)) :=
  ⟨(iaPow_error E hB hc inv inv2 w (by omega) h1 h2 hi hi2 i).2,
   iaInc_spec E hB hc inv inv2 w (by omega) h1 h2 hi hi2 hw2 i⟩

open Dashu.Proofs.Trans.IacothSum in
/-- the states and the exact partial sums, spelled out -/
theorem iacothStates_eq (E : Env) (w : Nat) (inv inv2 : FBigM) (v q : ℚ) (i : Nat) :
    iaPow E inv inv2 0 = inv ∧ iaPow E inv inv2 (i + 1) = fMul E (iaPow E inv inv2 i) inv2 ∧
    iaInc E w inv inv2 i = fDiv E (iaPow E inv inv2 (i + 1)) (fConvertInt E w ((2 * i + 3 : Nat) : Int)) ∧
    iaSum E w inv inv2 0 = inv ∧
    iaPartial v q 0 = v ∧ iaPartial v q (i + 1) = iaPartial v q i + v * q ^ (i + 1) / ((2 * i + 3 : Nat) : ℚ) :=
  ⟨rfl, rfl, rfl, rfl, rfl, rfl⟩

open Dashu.Proofs.Trans.IacothSum in
/-- **accumulated error of the partial sum of `iacoth`**: `sum` before the step `k = 2i + 3` (`iaSum`) is positive, held at `w`
    digits and is `iaPartial inv inv2 i = Σ_{j ≤ i} inv·inv2^j/(2j+1)` up to `2i + 4` accumulated relative errors `B^(1−w)` -/
theorem iacothSum_error (E : Env) (hB : 2 ≤ E.B) (hc : CoarseSound E.c) (hdub : DubSound E.B E.est.dub)
    (inv inv2 : FBigM) (w : Nat) (hw2 : 2 ≤ w) (h1 : inv.prec = w) (h2 : inv2.prec = w) (hi : 0 < inv.repr.signif)
    (hi2 : 0 < inv2.repr.signif) (i : Nat) :
    bpowQ E.B (inv.repr.exp + (digitsI E.B inv.repr.signif : Int) - 1) ≤ (iaSum E w inv inv2 i).repr.toRat E.B ∧
    (iaSum E w inv inv2 i).prec = w ∧
    Approx (bpowQ E.B (1 - (w : Int))) (2 * i + 4) ((iaSum E w inv inv2 i).repr.toRat E.B)
      (iaPartial (inv.repr.toRat E.B) (inv2.repr.toRat E.B) i) :=
  iaSum_error E hB hc inv inv2 w (by omega) h1 h2 hi hi2 hdub hw2 i

open Dashu.Proofs.Trans.IacothSum in
/-- whatever the loop of `iacoth` returns from a state of its own trajectory is one of the `iaSum`s, with the matching `k` -/
theorem iacothLoop_result (E : Env) (w : Nat) (inv inv2 : FBigM) (fuel i : Nat) (res : FBigM × Nat)
    (h : iacothLoop E w inv2 fuel (iaPow E inv inv2 i) (iaSum E w inv inv2 i) (2 * i + 3) = .ok (some res)) :
    ∃ j, i ≤ j ∧ res = (iaSum E w inv inv2 j, 2 * j + 3) :=
  Dashu.Proofs.Trans.IacothSum.iacothLoop_result E w inv inv2 fuel i res h

open Dashu.Proofs.Trans.IacothSum in
/-- **what the loop of `Context::iacoth` returns** from its entry state (`pow = sum = inv`, `k = 3`), with any fuel:
    `k = 2j + 3`, `sum > 0`, and `sum = Σ_{l ≤ j} inv·inv2^l/(2l+1)` up to `2j + 4` accumulated relative errors `B^(1−w)`
    (`w = p + guard_digits + 2 ≥ 2` in `iacoth`; with `iacothLoop_step_bound` the number of terms is explicit) -/
theorem iacothLoop_result_error (E : Env) (hB : 2 ≤ E.B) (hc : CoarseSound E.c) (hdub : DubSound E.B E.est.dub)
    (inv inv2 : FBigM) (w : Nat) (hw2 : 2 ≤ w) (h1 : inv.prec = w) (h2 : inv2.prec = w) (hi : 0 < inv.repr.signif)
    (hi2 : 0 < inv2.repr.signif) (fuel : Nat) (res : FBigM × Nat)
    (h : iacothLoop E w inv2 fuel inv inv 3 = .ok (some res)) :
    ∃ j, res.2 = 2 * j + 3 ∧ 0 < res.1.repr.toRat E.B ∧
      Approx (bpowQ E.B (1 - (w : Int))) (2 * j + 4) (res.1.repr.toRat E.B)
        (iaPartial (inv.repr.toRat E.B) (inv2.repr.toRat E.B) j) :=
  Dashu.Proofs.Trans.IacothSum.iacothLoop_result_error E hB hc hdub inv inv2 w hw2 h1 h2 hi hi2 fuel res h

/-- non-vacuity of `iacothLoop_result_error`: base 10, `iacoth(6)` at `w = 6` (`inv = 0.166667`, `inv2 = 0.0277779`), fuel 9 -/
example : ∃ res, iacothLoop E10 6 ⟨⟨277779, -7⟩, 6⟩ 9 ⟨⟨166667, -6⟩, 6⟩ ⟨⟨166667, -6⟩, 6⟩ 3 = .ok (some res) ∧
    ∃ j, res.2 = 2 * j + 3 ∧ Approx (bpowQ 10 (1 - 6)) (2 * j + 4) (res.1.repr.toRat 10)
      (Dashu.Proofs.Trans.IacothSum.iaPartial ((⟨166667, -6⟩ : FRepr).toRat 10) ((⟨277779, -7⟩ : FRepr).toRat 10) j) := by
  obtain ⟨res, h, _, _⟩ := iacothLoop_step_bound E10 (by decide) coarseNone_sound (exactEst_dub_sound 10) 1
    (exactEst_dlb_tight 10) ⟨⟨277779, -7⟩, 6⟩ 6 1 (by decide) rfl (by decide +kernel) (by decide +kernel) (-1) 9
    ⟨⟨166667, -6⟩, 6⟩ ⟨⟨166667, -6⟩, 6⟩ 3 0 rfl (by decide +kernel) (by decide +kernel) (by decide +kernel) rfl (by decide)
    (by decide) (by decide)
  obtain ⟨j, hj, _, hA⟩ := iacothLoop_result_error E10 (by decide) coarseNone_sound (exactEst_dub_sound 10)
    ⟨⟨166667, -6⟩, 6⟩ ⟨⟨277779, -7⟩, 6⟩ 6 (by decide) rfl rfl (by decide) (by decide) 9 res h
  exact ⟨res, h, j, hj, hA⟩


/-! ### Round 6: the atanh loop of `ln_internal` (same recursion as the loop of `iacoth`, other stop test) -/

open Dashu.Proofs.Trans.IacothSum in
/-- whatever the atanh loop returns from a state of its own trajectory is one of the `iaSum`s (`inv := z`, `inv2 := z2`) -/
theorem lnLoop_result (E : Env) (w : Nat) (z z2 : FBigM) (fuel i : Nat) (res : FBigM × Nat)
    (h : lnLoop E w z2 fuel (iaPow E z z2 i) (iaSum E w z z2 i) (2 * i + 3) = .ok (some res)) :
    ∃ j, i ≤ j ∧ res = (iaSum E w z z2 j, 2 * j + 3) :=
  Dashu.Proofs.Trans.LnSum.lnLoop_result E w z z2 fuel i res h

open Dashu.Proofs.Trans.IacothSum in
/-- **what the atanh loop of `ln_internal` returns** for a positive `z = (x−1)/(x+1)` (scaled `x > 1`), from its entry state
    (`pow = sum = z`, `k = 3`), any fuel: `k = 2j + 3`, `sum > 0` and `sum = Σ_{l ≤ j} z·z2^l/(2l+1)` up to `2j + 4`
    accumulated relative errors `B^(1−w)` (`w ≥ 2`; relative to the values `z`, `z2` the loop holds) -/
theorem lnLoop_result_error (E : Env) (hB : 2 ≤ E.B) (hc : CoarseSound E.c) (hdub : DubSound E.B E.est.dub)
    (z z2 : FBigM) (w : Nat) (hw2 : 2 ≤ w) (h1 : z.prec = w) (h2 : z2.prec = w) (hz : 0 < z.repr.signif)
    (hz2 : 0 < z2.repr.signif) (fuel : Nat) (res : FBigM × Nat)
    (h : lnLoop E w z2 fuel z z 3 = .ok (some res)) :
    ∃ j, res.2 = 2 * j + 3 ∧ 0 < res.1.repr.toRat E.B ∧
      Approx (bpowQ E.B (1 - (w : Int))) (2 * j + 4) (res.1.repr.toRat E.B)
        (iaPartial (z.repr.toRat E.B) (z2.repr.toRat E.B) j) :=
  Dashu.Proofs.Trans.LnSum.lnLoop_result_error E hB hc hdub z z2 w hw2 h1 h2 hz hz2 fuel res h

/-- non-vacuity of `lnLoop_result_error`: base 10, `z = 0.333333`, `z2 = 0.111111` at 6 digits, fuel 30: the loop returns -/
example : ∃ res, lnLoop E10 6 ⟨⟨111111, -6⟩, 6⟩ 30 ⟨⟨333333, -6⟩, 6⟩ ⟨⟨333333, -6⟩, 6⟩ 3 = .ok (some res) ∧
    ∃ j, res.2 = 2 * j + 3 ∧ Approx (bpowQ 10 (1 - 6)) (2 * j + 4) (res.1.repr.toRat 10)
      (Dashu.Proofs.Trans.IacothSum.iaPartial ((⟨333333, -6⟩ : FRepr).toRat 10) ((⟨111111, -6⟩ : FRepr).toRat 10) j) := by
  have hb : (match lnLoop E10 6 ⟨⟨111111, -6⟩, 6⟩ 30 ⟨⟨333333, -6⟩, 6⟩ ⟨⟨333333, -6⟩, 6⟩ 3 with
      | .ok (some _) => true | _ => false) = true := by decide +kernel
  cases hl : lnLoop E10 6 ⟨⟨111111, -6⟩, 6⟩ 30 ⟨⟨333333, -6⟩, 6⟩ ⟨⟨333333, -6⟩, 6⟩ 3 with
  | error e => rw [hl] at hb; simp at hb
  | ok o =>
    cases o with
    | none => rw [hl] at hb; simp at hb
    | some res =>
      obtain ⟨j, hj, _, hA⟩ := lnLoop_result_error E10 (by decide) coarseNone_sound (exactEst_dub_sound 10)
        ⟨⟨333333, -6⟩, 6⟩ ⟨⟨111111, -6⟩, 6⟩ 6 (by decide) rfl rfl (by decide) (by decide) 30 res hl
      exact ⟨res, rfl, j, hj, hA⟩


/-! ### Round 6: the returned partial sum against `Real.exp` -/

open Dashu.Proofs.Trans.SumStage in
/-- the exact partial sums enclose `exp r` for a rational `0 ≤ r ≤ 1`: `Σ_{j<i+2} r^j/j! ≤ exp r ≤ Σ + 2·r^(i+2)/(i+2)!` -/
theorem expPartial_encloses_exp (r : ℚ) (hr : 0 ≤ r) (hr1 : r ≤ 1) (i : Nat) :
    ((expPartial r i : ℚ) : ℝ) ≤ Real.exp (r : ℝ) ∧
    Real.exp (r : ℝ) ≤ ((expPartial r i : ℚ) : ℝ) + ((2 * (r ^ (i + 2) / ((i + 2).factorial : ℚ)) : ℚ) : ℝ) :=
  ⟨Dashu.Proofs.Trans.SumExp.expPartial_le_exp r hr i, Dashu.Proofs.Trans.SumExp.exp_le_expPartial r hr hr1 i⟩

/-- **the sum the Maclaurin loop of `exp_internal` returns, against the real `exp r`** (reduced argument `0 < r ≤ 1` held at
    `w ≥ 1` digits; every mode; `DubSound`, `CoarseSound`): with `K = 2(k−2)+2`, `ε = B^(1−w)` and `2Kε ≤ 1`,
    `|sum − exp r| ≤ 2Kε·exp r + 2·r^k/k!` — accumulated rounding error of all `*`, `/`, `+` of the loop plus the truncation
    error of the series (Mathlib `Real.exp_bound'`).  With `expLoop_step_bound` (`k ≤ (w+cS)/u + 2`) `K` is explicit. -/
theorem expLoop_result_vs_exp (E : Env) (hB : 2 ≤ E.B) (hc : CoarseSound E.c) (hdub : DubSound E.B E.est.dub) (r : FBigM)
    (w : Nat) (hw : 1 ≤ w) (hrp : r.prec = w) (hr0 : 0 < r.repr.signif) (hr1 : r.repr.toRat E.B ≤ 1)
    (fuel : Nat) (res : FBigM × Nat) (h : expLoop E r fuel 1 r (fAddSub E FBigM.one r 1) 2 = .ok (some res))
    (hK : 2 * ((2 * (res.2 - 2) + 2 : ℕ) : ℚ) * bpowQ E.B (1 - (w : Int)) ≤ 1) :
    |((res.1.repr.toRat E.B : ℚ) : ℝ) - Real.exp ((r.repr.toRat E.B : ℚ) : ℝ)| ≤
      ((2 * ((2 * (res.2 - 2) + 2 : ℕ) : ℚ) * bpowQ E.B (1 - (w : Int)) : ℚ) : ℝ) * Real.exp ((r.repr.toRat E.B : ℚ) : ℝ)
        + ((2 * ((r.repr.toRat E.B) ^ res.2 / (res.2.factorial : ℚ)) : ℚ) : ℝ) :=
  Dashu.Proofs.Trans.SumExp.expLoop_result_vs_exp E hB hc hdub r w hw hrp hr0 hr1 fuel res h hK

/-- non-vacuity of `expLoop_result_vs_exp`: base 10, `r = 0.005` at 6 digits, fuel 5: the loop returns with `k ≤ 4`, so
    `K ≤ 6` and `2Kε ≤ 1.2e-4` -/
example : ∃ res, expLoop E10 ⟨⟨5, -3⟩, 6⟩ 5 1 ⟨⟨5, -3⟩, 6⟩ (fAddSub E10 FBigM.one ⟨⟨5, -3⟩, 6⟩ 1) 2 = .ok (some res) ∧
    |((res.1.repr.toRat 10 : ℚ) : ℝ) - Real.exp (((⟨5, -3⟩ : FRepr).toRat 10 : ℚ) : ℝ)| ≤
      ((2 * ((2 * (res.2 - 2) + 2 : ℕ) : ℚ) * bpowQ 10 (1 - ((6 : ℕ) : Int)) : ℚ) : ℝ) *
          Real.exp (((⟨5, -3⟩ : FRepr).toRat 10 : ℚ) : ℝ)
        + ((2 * (((⟨5, -3⟩ : FRepr).toRat 10) ^ res.2 / (res.2.factorial : ℚ)) : ℚ) : ℝ) := by
  obtain ⟨res, h, hk2, hk⟩ := expLoop_step_bound E10 (by decide) coarseNone_sound (exactEst_dub_sound 10) 1
    (exactEst_dlb_tight 10) ⟨⟨5, -3⟩, 6⟩ 6 2 (by decide) rfl (by decide) (by decide +kernel) 5 (by decide) (by decide)
  have hK6 : ((2 * (res.2 - 2) + 2 : ℕ) : ℚ) ≤ 6 := by exact_mod_cast (by omega : 2 * (res.2 - 2) + 2 ≤ 6)
  have he : bpowQ 10 (1 - ((6 : ℕ) : Int)) = 1 / 100000 := by decide +kernel
  have hK : 2 * ((2 * (res.2 - 2) + 2 : ℕ) : ℚ) * bpowQ 10 (1 - ((6 : ℕ) : Int)) ≤ 1 := by rw [he]; linarith
  exact ⟨res, h, expLoop_result_vs_exp E10 (by decide) coarseNone_sound (exactEst_dub_sound 10) ⟨⟨5, -3⟩, 6⟩ 6 (by decide) rfl
    (by decide) (by decide +kernel) 5 res h hK⟩


/-! ### Round 6: the stop test composed with rounding and truncation — one bound for the Maclaurin stage -/

/-- the stop test `|increase| <= sum.sub_ulp()` (`reprAbsCmp … ≠ .gt` against a threshold `1·B^e`) as an inequality of values -/
theorem stop_test_value (B : Nat) (hB : 2 ≤ B) (a : FRepr) (e : Int) (h0 : 0 < a.signif)
    (h : reprAbsCmp B a ⟨1, e⟩ ≠ .gt) : a.toRat B ≤ bpowQ B e :=
  Dashu.Proofs.Trans.StopTest.val_le_of_reprAbsCmp_ne_gt B hB a e h0 h

open Dashu.Proofs.Trans.SeriesBound Dashu.Proofs.Trans.SumStage in
/-- what the Maclaurin loop returns, WITH the stop test that made it return: the term `increase` of the last step did not
    exceed `sum.sub_ulp()` -/
theorem expLoop_stop (E : Env) (r : FBigM) (fuel i : Nat) (res : FBigM × Nat)
    (h : expLoop E r fuel (expState E r i).1 (expState E r i).2 (expSumState E r i) (i + 2) = .ok (some res)) :
    ∃ j inc, i ≤ j ∧ expInc E r j = .ok inc ∧
      reprAbsCmp E.B inc.repr (fSubUlp E (expSumState E r j)) ≠ .gt ∧ res = (expSumState E r j, j + 2) :=
  Dashu.Proofs.Trans.StopTest.expLoop_stop E r fuel i res h

/-- **one bound for the Maclaurin stage of `exp_internal`**: reduced argument `0 < r ≤ 1` held at `w ≥ 1` digits, sound
    `digits_lb` / `digits_ub` / coarse test; the returned `(sum, k)` with `K = 2(k−2)+2`, `ε = B^(1−w)`, `2Kε ≤ 1`, `kε ≤ 1/2`
    satisfies `|sum − exp r| ≤ 2Kε·exp r + 4·B^(−w)·sum` — every rounding of the loop, the truncation of the series and the
    stop test composed.  (Not yet composed with the reduction `x = s·ln B + r` and the final powering, see FRONTIER.) -/
theorem expLoop_stage_error (E : Env) (hB : 2 ≤ E.B) (hc : CoarseSound E.c) (hdub : DubSound E.B E.est.dub)
    (hdlb : DlbSound E.B E.est.dlb) (r : FBigM)
    (w : Nat) (hw : 1 ≤ w) (hrp : r.prec = w) (hr0 : 0 < r.repr.signif) (hr1 : r.repr.toRat E.B ≤ 1)
    (fuel : Nat) (res : FBigM × Nat) (h : expLoop E r fuel 1 r (fAddSub E FBigM.one r 1) 2 = .ok (some res))
    (hK : 2 * ((2 * (res.2 - 2) + 2 : ℕ) : ℚ) * bpowQ E.B (1 - (w : Int)) ≤ 1)
    (hk : (res.2 : ℚ) * bpowQ E.B (1 - (w : Int)) ≤ 1 / 2) :
    |((res.1.repr.toRat E.B : ℚ) : ℝ) - Real.exp ((r.repr.toRat E.B : ℚ) : ℝ)| ≤
      ((2 * ((2 * (res.2 - 2) + 2 : ℕ) : ℚ) * bpowQ E.B (1 - (w : Int)) : ℚ) : ℝ) * Real.exp ((r.repr.toRat E.B : ℚ) : ℝ)
        + ((4 * bpowQ E.B (-(w : Int)) * res.1.repr.toRat E.B : ℚ) : ℝ) :=
  Dashu.Proofs.Trans.StopTest.expLoop_stage_error E hB hc hdub hdlb r w hw hrp hr0 hr1 fuel res h hK hk

/-- non-vacuity of `expLoop_stage_error`: base 10, `r = 0.005` at 6 digits, fuel 5 (`k ≤ 4`) -/
example : ∃ res, expLoop E10 ⟨⟨5, -3⟩, 6⟩ 5 1 ⟨⟨5, -3⟩, 6⟩ (fAddSub E10 FBigM.one ⟨⟨5, -3⟩, 6⟩ 1) 2 = .ok (some res) ∧
    |((res.1.repr.toRat 10 : ℚ) : ℝ) - Real.exp (((⟨5, -3⟩ : FRepr).toRat 10 : ℚ) : ℝ)| ≤
      ((2 * ((2 * (res.2 - 2) + 2 : ℕ) : ℚ) * bpowQ 10 (1 - ((6 : ℕ) : Int)) : ℚ) : ℝ) *
          Real.exp (((⟨5, -3⟩ : FRepr).toRat 10 : ℚ) : ℝ)
        + ((4 * bpowQ 10 (-((6 : ℕ) : Int)) * res.1.repr.toRat 10 : ℚ) : ℝ) := by
  obtain ⟨res, h, hk2, hk⟩ := expLoop_step_bound E10 (by decide) coarseNone_sound (exactEst_dub_sound 10) 1
    (exactEst_dlb_tight 10) ⟨⟨5, -3⟩, 6⟩ 6 2 (by decide) rfl (by decide) (by decide +kernel) 5 (by decide) (by decide)
  have hK6 : ((2 * (res.2 - 2) + 2 : ℕ) : ℚ) ≤ 6 := by exact_mod_cast (by omega : 2 * (res.2 - 2) + 2 ≤ 6)
  have hk4 : ((res.2 : ℕ) : ℚ) ≤ 4 := by exact_mod_cast (by omega : res.2 ≤ 4)
  have he : bpowQ 10 (1 - ((6 : ℕ) : Int)) = 1 / 100000 := by decide +kernel
  have hK : 2 * ((2 * (res.2 - 2) + 2 : ℕ) : ℚ) * bpowQ 10 (1 - ((6 : ℕ) : Int)) ≤ 1 := by rw [he]; linarith
  have hkk : ((res.2 : ℕ) : ℚ) * bpowQ 10 (1 - ((6 : ℕ) : Int)) ≤ 1 / 2 := by rw [he]; linarith
  exact ⟨res, h, expLoop_stage_error E10 (by decide) coarseNone_sound (exactEst_dub_sound 10) (fun _ => Nat.sub_le _ _)
    ⟨⟨5, -3⟩, 6⟩ 6 (by decide) rfl (by decide) (by decide +kernel) 5 res h hK hkk⟩


/-! ### Round 6: the exactness clause for `powf` on the mirror -/

/-- **`Context::powf` (mirror behind its entry guards) flags `Exact` only for base `1`** — the flag chain
    `ln(base).and_then(mul).and_then(exp)` then `with_precision` ends `Exact` only if every link is `Exact`, and `ln_internal` is
    `Exact` only on its shortcut `ln 1 = 0` (`lnFull_exact_only_shortcut`); `1^y = 1` is an exact result.  (The exponents
    `0`, `1` and base `0` are entry guards: `powf_zero_exact`, `powf_one_round` in `Props/C11`.) -/
theorem powfBody_exact_only_base_one (fuel : Nat) (E : Env) (p : Nat) (base exp : FRepr) (v : FBigM) (tr : Trace)
    (h : powfBody fuel E p base exp = .ok ((v, none), tr)) : (base.signif == 1 && base.exp == 0) = true :=
  Dashu.Proofs.Trans.PowfFlag.powfBody_flag fuel E p base exp v tr h

/-- non-vacuity: `powf(1, 0.5)` at 4 digits does run through the mirrored body and IS flagged `Exact` (so the hypothesis
    of `powfBody_exact_only_base_one` is met by base 1), while `powf(2, 0.5)` is flagged inexact -/
example : (match powfBody 60 E10 4 ⟨1, 0⟩ ⟨5, -1⟩ with | .ok r => r.1.2.isNone | .error _ => false) = true := by
  decide +kernel
example : (match powfBody 60 E10 4 ⟨2, 0⟩ ⟨5, -1⟩ with | .ok r => r.1.2.isSome | .error _ => false) = true := by
  decide +kernel


/-- `powf(1, y)` through the mirrored body (`ln 1 = 0` exactly, `0·y = 0`, `exp 0 = 1`, `with_precision`): the result is `1`,
    flagged `Exact`, for every `y`, precision `p ≥ 1`, base, mode -/
theorem powfBody_base_one (fuel : Nat) (E : Env) (hB : 2 ≤ E.B) (p : Nat) (hp : 1 ≤ p) (exp : FRepr) :
    powfBody fuel E p ⟨1, 0⟩ exp = .ok ((⟨⟨1, 0⟩, p⟩, none), ⟨p + powfGuardDigits E.est p ⟨1, 0⟩ exp, 0⟩) :=
  Dashu.Proofs.Trans.PowfOne.powfBody_base_one fuel E hB p hp exp

/-- **`powf`: Exact only if exact** (mirror behind the entry guards): a result flagged `Exact` has base `1` and IS `1 = 1^y` -/
theorem powfBody_exact_is_exact (fuel : Nat) (E : Env) (hB : 2 ≤ E.B) (p : Nat) (hp : 1 ≤ p) (base exp : FRepr)
    (v : FBigM) (tr : Trace) (h : powfBody fuel E p base exp = .ok ((v, none), tr)) :
    base = ⟨1, 0⟩ ∧ v = ⟨⟨1, 0⟩, p⟩ :=
  Dashu.Proofs.Trans.PowfOne.powfBody_exact_is_exact fuel E hB p hp base exp v tr h

end Dashu.Props.C11Series
