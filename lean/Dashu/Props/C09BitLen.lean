import Dashu.Props.GenIntBits
/-
  C09, Tie A, round 7: `<IBig as BitTest>::bit_len` (`integer/src/bits.rs`), the one regenerated definition of `Dashu/Gen/IntBits.lean`
  (`IBig_bit_len`: `self.as_sign_repr().1.bit_len()`) that had no theorem yet (round 6 proved `IBig_bit`, `IBig_trailing_zeros`,
  `IBig_trailing_ones`, `IBig_not`, `IBig_ref_not`).
  * `gen_ibig_bit_len`: for EVERY record `k` whose field `bit_len` meets the specification of `TypedReprRef::bit_len`
    (`MeetsBitLen`, which is `Props.C09.bit_len` about the executed model and `Props.GenScans.gen_bit_len_large` about the regenerated
    heap arm), the regenerated sign dispatch returns the bit length of `|x|`: 0 for 0, otherwise the `L` with `2^(L-1) ≤ |x| < 2^L` —
    the sign is ignored (the code as it is: `ASSUMPTIONS` of c09.py, two of the three characterisations of `BitTest::bit_len`'s doc).
  * `gen_ibig_bit_len_sign_bits`: the two's-complement reading — every bit at a position `≥ bit_len` is the sign bit (`Int.testBit`),
    and for `x > 0` the bit just below is 1, for `x < 0` it is 0 unless `x = −2^(L−1)` (the value where the doc's third
    characterisation differs) — that is what "infinitely many sign bits" means for `bit_len`.
  * link `modelK_meets_bit_len`, `model_ibig_bit_len`: the record `GenIntBits.modelK` of the EXECUTED magnitude model meets the
    specification, and regenerated dispatch ∘ executed magnitude model IS what the driver prints for `i.bitlen`
    (`(sOfInt W x).mag.bitLen W`) and is the specification the driver compares it with (`bitLenNat x.natAbs`).
-/
namespace Dashu.Props.C09BitLen
open Dashu Dashu.Gen Dashu.GluePrelude Dashu.Proofs.Gen Dashu.Model Dashu.Props.GenIntBits

/-- the specification of `TypedReprRef::bit_len` (the magnitude-level method the regenerated body calls) -/
def MeetsBitLen (k : BitK) : Prop := ∀ a : Nat, k.bit_len (a : Int) = (bitLenNat a : Int)

/-- **`<IBig as BitTest>::bit_len` as regenerated = the bit length of the magnitude**, every sign -/
theorem gen_ibig_bit_len (k : BitK) (h : MeetsBitLen k) (x : Int) :
    IBig_bit_len k x = (bitLenNat x.natAbs : Int) ∧
    x.natAbs < 2 ^ bitLenNat x.natAbs ∧
    (x ≠ 0 → 2 ^ (bitLenNat x.natAbs - 1) ≤ x.natAbs) := by
  refine ⟨?_, (bitLenNat_spec _).1, fun hx => (bitLenNat_spec _).2 (by omega)⟩
  unfold IBig_bit_len
  simp only [as_sign_repr, Int.ofNat_eq_natCast]
  exact h x.natAbs

/-- every bit of the two's-complement form at a position `≥ bit_len` is the sign bit -/
theorem sign_bits_above (x : Int) (i : Nat) (hi : bitLenNat x.natAbs ≤ i) : Int.testBit x i = decide (x < 0) := by
  have hlt : x.natAbs < 2 ^ i :=
    Nat.lt_of_lt_of_le (bitLenNat_spec _).1 (Nat.pow_le_pow_right (by omega) hi)
  rcases x with a | m
  · have h0 : ¬ ((Int.ofNat a) < 0) := by show ¬ ((a : Int) < 0); omega
    simp only [Int.testBit, h0, decide_false]
    exact Nat.testBit_lt_two_pow (by simpa using hlt)
  · have h0 : (Int.negSucc m) < 0 := by omega
    have hm : m < 2 ^ i := by
      have : (Int.negSucc m).natAbs = m + 1 := rfl
      omega
    simp only [Int.testBit, h0, decide_true, Nat.testBit_lt_two_pow hm, Bool.not_false]

/-- the bit just below `bit_len`: 1 for a positive value; for a negative value 0, except at `x = −2^(L−1)` where it is 1 -/
theorem top_bit_below (x : Int) (hx : x ≠ 0) :
    Int.testBit x (bitLenNat x.natAbs - 1) = decide (0 < x ∨ x = -(2 ^ (bitLenNat x.natAbs - 1) : Nat)) := by
  have hs := bitLenNat_spec x.natAbs
  have hne : x.natAbs ≠ 0 := by omega
  have hlo := hs.2 hne
  have hL : bitLenNat x.natAbs ≠ 0 := by
    intro e; rw [e] at hs; simp at hs; omega
  generalize hLd : bitLenNat x.natAbs = L at *
  obtain ⟨j, rfl⟩ : ∃ j, L = j + 1 := ⟨L - 1, by omega⟩
  simp only [Nat.add_sub_cancel] at *
  have hhi : x.natAbs < 2 ^ j * 2 := by rw [← Nat.pow_succ]; exact hs.1
  rcases x with a | m
  · have ha : (Int.ofNat a).natAbs = a := rfl
    rw [ha] at hlo hhi
    have hpos : (0 : Int) < Int.ofNat a := by
      have : a ≠ 0 := by intro e; subst e; simp at hne
      show (0 : Int) < (a : Int)
      omega
    simp only [Int.testBit, hpos, true_or, decide_true]
    rw [Nat.testBit_eq_decide_div_mod_eq]
    have : a / 2 ^ j = 1 := by
      apply Nat.div_eq_of_lt_le <;> omega
    simp [this]
  · have ha : (Int.negSucc m).natAbs = m + 1 := rfl
    rw [ha] at hlo hhi
    have hneg : ¬ (0 : Int) < Int.negSucc m := by omega
    simp only [Int.testBit, hneg, false_or]
    rw [Nat.testBit_eq_decide_div_mod_eq]
    by_cases hm : m + 1 = 2 ^ j
    · have e1 : m / 2 ^ j = 0 := Nat.div_eq_of_lt (by omega)
      have e2 : Int.negSucc m = -((2 ^ j : Nat) : Int) := by
        rw [← hm]; rfl
      simp [e1, e2]
    · have e1 : m / 2 ^ j = 1 := by
        apply Nat.div_eq_of_lt_le <;> omega
      have e2 : ¬ Int.negSucc m = -(2 : Int) ^ j := by
        intro e
        have h1 : Int.negSucc m = -((m + 1 : Nat) : Int) := rfl
        have : ((m + 1 : Nat) : Int) = ((2 ^ j : Nat) : Int) := by
          push_cast; omega
        exact hm (by exact_mod_cast this)
      simp [e1, e2]

/-- **`IBig::bit_len` as regenerated, read in two's complement**: from position `bit_len` on there are only sign bits; the bit
    below is the complement of the sign except at `x = −2^(L−1)` -/
theorem gen_ibig_bit_len_sign_bits (k : BitK) (h : MeetsBitLen k) (x : Int) :
    ∃ L : Nat, IBig_bit_len k x = (L : Int) ∧
      (∀ i, L ≤ i → Int.testBit x i = decide (x < 0)) ∧
      (x ≠ 0 → Int.testBit x (L - 1) = decide (0 < x ∨ x = -(2 ^ (L - 1) : Nat))) :=
  ⟨bitLenNat x.natAbs, (gen_ibig_bit_len k h x).1, fun i hi => sign_bits_above x i hi, top_bit_below x⟩

/-- the specification record of `GenIntBits` meets it: the hypothesis is satisfiable -/
theorem specK_meets_bit_len : MeetsBitLen specK := fun a => by simp [specK]

/-- **the executed magnitude model meets the specification of `bit_len`** (`TRepr.bitLen_spec` on the canonical `ofNat`) -/
theorem modelK_meets_bit_len (W : Nat) (hW : 1 ≤ W) : MeetsBitLen (modelK W) := fun a => by
  simp only [modelK, Int.natAbs_natCast]
  rw [TRepr.bitLen_spec W _ (ofNat_canon W hW a), ofNat_value W hW a]

/-- **regenerated sign dispatch ∘ executed magnitude model = what the driver prints for `i.bitlen` = its specification side** -/
theorem model_ibig_bit_len (W : Nat) (hW : 1 ≤ W) (x : Int) :
    IBig_bit_len (modelK W) x = (((sOfInt W x).mag.bitLen W : Nat) : Int) ∧
    (sOfInt W x).mag.bitLen W = bitLenNat x.natAbs := by
  have e : (sOfInt W x).mag.bitLen W = bitLenNat x.natAbs := by
    simp only [sOfInt]
    rw [TRepr.bitLen_spec W _ (ofNat_canon W hW x.natAbs), ofNat_value W hW x.natAbs]
  exact ⟨by rw [e]; exact (gen_ibig_bit_len _ (modelK_meets_bit_len W hW) x).1, e⟩

-- non-vacuity: −12 = …10100 has bit_len 4 (bits ≥ 4 are ones, bit 3 is 0); −8 = …1000 has bit_len 4 with bit 3 = 1; 12 has 4; 0 has 0;
-- a three-word magnitude through the executed model at W = 64
example : IBig_bit_len specK (-12) = 4 ∧ IBig_bit_len specK (-8) = 4 ∧ IBig_bit_len specK 12 = 4 ∧ IBig_bit_len specK 0 = 0 ∧
    Int.testBit (-12) 4 = true ∧ Int.testBit (-12) 3 = false ∧ Int.testBit (-8) 3 = true ∧ Int.testBit 12 3 = true ∧
    IBig_bit_len (modelK 64) (-(2 ^ 130 + 5)) = 131 := by
  refine ⟨by decide, by decide, by decide, by decide, by decide, by decide, by decide, by decide, ?_⟩
  rw [(model_ibig_bit_len 64 (by omega) _).1, (model_ibig_bit_len 64 (by omega) _).2]
  decide

end Dashu.Props.C09BitLen
