import Dashu.Gen.BitOpsHeap
import Dashu.Props.GenBitsHeap
/-
  C09, Tie A: the word loops of the unsigned bit operators (`integer/src/bits.rs`, `mod repr`: `bitand_large`,
  `bitor_large`, `bitxor_large`, `and_not_large` and the `*_large_dword` forms) as REGENERATED text
  (`Dashu/Gen/BitOpsHeap.lean`) are EQUAL to the kernels of the hand model the C09 driver executes (`zipAnd`, `zipOr`,
  `zipXor`, `zipAndNot`, `opLargeDword` of `Model/Int/Bits.lean`), for all operands.
-/
namespace Dashu.Props.GenBitOpsHeap
open Dashu.Model Dashu Dashu.GluePrelude Dashu.Gen.ShiftHeap Dashu.Gen.BitsHeap Dashu.Gen.BitOpsHeap

theorem zip_and (a b : List Nat) : zip_prefix (fun x y => x &&& y) (a.take b.length) b = zipAnd a b := by
  induction a generalizing b with
  | nil => cases b <;> simp [zip_prefix, zipAnd]
  | cons x xs ih =>
    cases b with
    | nil => simp [zip_prefix, zipAnd]
    | cons y ys => simp [zip_prefix, zipAnd, ih]

theorem zip_len (f : Nat → Nat → Nat) (a b : List Nat) : (zip_prefix f a b).length = a.length := by
  induction a generalizing b with
  | nil => cases b <;> simp [zip_prefix]
  | cons x xs ih => cases b <;> simp [zip_prefix, ih]

theorem zip_or (a b : List Nat) : zip_prefix (fun x y => x ||| y) a b ++ b.drop a.length = zipOr a b := by
  induction a generalizing b with
  | nil => cases b <;> simp [zip_prefix, zipOr]
  | cons x xs ih =>
    cases b with
    | nil => simp [zip_prefix, zipOr]
    | cons y ys => simp [zip_prefix, zipOr, ih]

theorem zip_xor (a b : List Nat) : zip_prefix (fun x y => x ^^^ y) a b ++ b.drop a.length = zipXor a b := by
  induction a generalizing b with
  | nil => cases b <;> simp [zip_prefix, zipXor]
  | cons x xs ih =>
    cases b with
    | nil => simp [zip_prefix, zipXor]
    | cons y ys => simp [zip_prefix, zipXor, ih]

theorem zip_and_not (W : Nat) (a b : List Nat) :
    zip_prefix (fun x y => x &&& MachInt.not W y) a b = zipAndNot W a b := by
  induction a generalizing b with
  | nil => cases b <;> simp [zip_prefix, zipAndNot]
  | cons x xs ih =>
    cases b with
    | nil => simp [zip_prefix, zipAndNot]
    | cons y ys => simp only [zip_prefix, zipAndNot]; rw [ih]; rfl

/-- **`bitand_large`** (truncate to the shorter operand, `&=` over the common prefix) = `zipAnd` -/
theorem gen_bitand_large (W U : Nat) (a b : List Nat) :
    bitand_large W U a b = some (fromBuffer W (zipAnd a b)) := by
  unfold bitand_large
  by_cases h : a.length > b.length
  · simp [h, truncate, zip_and]
  · have e : a.take b.length = a := List.take_of_length_le (by omega)
    have := zip_and a b
    rw [e] at this
    simp [h, this]

/-- **`bitor_large`** (`|=` over the common prefix, the rest of a longer `rhs` appended) = `zipOr` -/
theorem gen_bitor_large (W U : Nat) (a b : List Nat) :
    bitor_large W U a b = some (fromBuffer W (zipOr a b)) := by
  unfold bitor_large
  have hl := zip_len (fun x y => x ||| y) a b
  have hz := zip_or a b
  simp only [hl, push_rest_of, bind, Option.bind, pure]
  by_cases h : b.length > a.length
  · have hle : a.length ≤ b.length := by omega
    simp [h, hle, hz]
  · have e : b.drop a.length = [] := List.drop_eq_nil_iff.2 (by omega)
    rw [e, List.append_nil] at hz
    simp [h, hz]

/-- **`bitxor_large`** = `zipXor` -/
theorem gen_bitxor_large (W U : Nat) (a b : List Nat) :
    bitxor_large W U a b = some (fromBuffer W (zipXor a b)) := by
  unfold bitxor_large
  have hl := zip_len (fun x y => x ^^^ y) a b
  have hz := zip_xor a b
  simp only [hl, push_rest_of, bind, Option.bind, pure]
  by_cases h : b.length > a.length
  · have hle : a.length ≤ b.length := by omega
    simp [h, hle, hz]
  · have e : b.drop a.length = [] := List.drop_eq_nil_iff.2 (by omega)
    rw [e, List.append_nil] at hz
    simp [h, hz]

/-- **`and_not_large`** (`x &= !y` over the common prefix) = `zipAndNot` -/
theorem gen_and_not_large (W U : Nat) (a b : List Nat) :
    and_not_large W U a b = some (fromBuffer W (zipAndNot W a b)) := by
  simp [and_not_large, zip_and_not]

/-- **`bitor_large_dword`, `bitxor_large_dword`, `and_not_large_dword`** on a buffer of at least two words
    (`debug_assert!(buffer.len() >= 2)`) = `opLargeDword` with the same word operation -/
theorem gen_large_dword (W U d : Nat) (ws : List Nat) (h2 : 2 ≤ ws.length) :
    bitor_large_dword W U ws d = some (fromBuffer W (opLargeDword W (· ||| ·) ws d)) ∧
    bitxor_large_dword W U ws d = some (fromBuffer W (opLargeDword W (· ^^^ ·) ws d)) ∧
    and_not_large_dword W U ws d = some (fromBuffer W (opLargeDword W (fun p q => p &&& wnot W q) ws d)) := by
  match ws, h2 with
  | w0 :: w1 :: t, _ =>
    refine ⟨?_, ?_, ?_⟩ <;>
      simp [bitor_large_dword, bitxor_large_dword, and_not_large_dword, MachInt.split_dword, low2, opLargeDword, MachInt.not, wnot]

/-- fewer than two words: `lowest_dword_mut` is out of bounds; the regenerated text refuses -/
theorem gen_large_dword_short (W U d w : Nat) : bitor_large_dword W U [w] d = none := rfl

/-- the heap/heap arms of the four operators of the hand model are the regenerated loops -/
theorem gen_heap_heap_arms (W U : Nat) (a b : List Nat) :
    bitand_large W U a b = some (TRepr.bitand W (.large a) (.large b)) ∧
    bitor_large W U a b = some (TRepr.bitor W (.large a) (.large b)) ∧
    bitxor_large W U a b = some (TRepr.bitxor W (.large a) (.large b)) ∧
    and_not_large W U a b = some (TRepr.andNot W (.large a) (.large b)) :=
  ⟨gen_bitand_large W U a b, gen_bitor_large W U a b, gen_bitxor_large W U a b, gen_and_not_large W U a b⟩

-- non-vacuity: operands of 3 and 4 words in both orders
example : bitand_large 64 64 [7, 2 ^ 64 - 1, 5, 9] [3, 1, 4] = some (.large [3, 1, 4]) ∧
    bitor_large 64 64 [1, 2, 4] [2, 1, 3, 8] = some (.large [3, 3, 7, 8]) ∧
    bitxor_large 64 64 [1, 2, 4, 8] [1, 2, 4] = some (.large [0, 0, 0, 8]) ∧
    and_not_large 64 64 [7, 7, 7] [1, 2 ^ 64 - 1, 0, 5] = some (.large [6, 0, 7]) ∧
    bitxor_large_dword 64 64 [1, 2, 3] (5 + 2 ^ 64 * 6) = some (.large [4, 4, 3]) := by
  refine ⟨by decide, by decide, by decide, by decide, by decide⟩

end Dashu.Props.GenBitOpsHeap
