import Dashu.Gen.ReprOnes
import Dashu.Props.GenBitsSmall
/-
  C09, Tie A over `Repr::ones` (`integer/src/repr.rs`) IN FULL.  `Dashu.Gen.ReprOnes.Repr_ones` is regenerated from the Rust
  text on every run: the two inline arms (`Self::from_word(ones_word(n as _))`, `Self::from_dword(ones_dword(n as _))`) and the
  heap arm statement by statement — `lo_words`, `hi_bits`, the allocation request `lo_words + 1` (checked), `push_repeat::<{ Word::MAX }>`,
  the conditional top word `ones_word(hi_bits as _)`, and the `transmute` of the buffer into the heap value (NO normalisation).
  Theorem: for EVERY `usize` argument nothing overflows and the result is the hand model's `reprOnes` (code as it is), the
  definition the driver executes for `u.ones` and whose meaning (`2^n − 1`, canonical) is proved in `Props/C09.lean`.
  Side conditions: `2 ≤ W` (with one-bit words `lo_words + 1` would overflow at `n = usize::MAX`) and `2·W < 2^32`.
-/
namespace Dashu.Props.GenReprOnes
open Dashu.Model Dashu.GluePrelude Dashu.Gen.MathHelpers Dashu.Gen.ShiftHeap Dashu.Gen.ReprOnes Dashu.Props.GenMath
open Dashu.Props.GenBitsSmall

/-- **`Repr::ones(n)`**, the whole function as regenerated text, is the hand model's `reprOnes` for every `n < 2^U`. -/
theorem gen_repr_ones (W U n : Nat) (hW : 2 ≤ W) (h32 : 2 * W < 2 ^ 32) (hn : n < 2 ^ U) :
    Repr_ones W U n = some (reprOnes W true n) := by
  have hW0 : ¬ W = 0 := by omega
  unfold Repr_ones reprOnes
  by_cases h1 : n < W
  · simp only [h1, decide_true, if_true, cast_small W n h32 (by omega), (gen_ones_word W n (by omega)).1, bind,
      Option.bind, pure]
  · by_cases h2 : n ≤ 2 * W
    · have h2' : n < 2 * W ∨ (True ∧ n = 2 * W) := by
        by_cases h : n < 2 * W
        · exact Or.inl h
        · exact Or.inr ⟨trivial, by omega⟩
      simp only [h1, h2, h2', decide_true, decide_false, if_true, if_false, cast_small W n h32 h2, gen_ones_dword W n h2,
        bind, Option.bind, pure, Bool.false_eq_true]
    · have h2' : ¬ (n < 2 * W ∨ (True ∧ n = 2 * W)) := by
        rintro (h | ⟨_, h⟩) <;> omega
      have hdiv : n / W + 1 < 2 ^ U := by
        have : n / W ≤ n / 2 := Nat.div_le_div_left hW (by omega)
        omega
      have hrem : n % W < W := Nat.mod_lt _ (by omega)
      simp only [h1, h2, h2', decide_false, if_false, Bool.false_eq_true, MachInt.div, MachInt.rem, MachInt.add, hW0, hdiv,
        if_true, bind, Option.bind, pure, Buffer_allocate, push_repeat_max, MachInt.maxVal, List.nil_append]
      by_cases h3 : n % W > 0
      · simp only [h3, decide_true, if_true, cast_small W (n % W) h32 (by omega), (gen_ones_word W (n % W) (by omega)).1,
          push]
      · simp only [h3, decide_false, if_false, Bool.false_eq_true, List.append_nil]

/-- the regenerated text builds the two-word boundary inline: `ones(2·W)` is the canonical inline value (the historical `<`
    comparison built `[MAX, MAX]` on the heap — then this theorem fails), and `ones(2·W + 1)` is the first heap value -/
theorem gen_repr_ones_boundary (W U : Nat) (hW : 2 ≤ W) (h32 : 2 * W < 2 ^ 32) (hU : 2 * W + 1 < 2 ^ U) :
    Repr_ones W U (2 * W) = some (.small (2 ^ (2 * W) - 1)) ∧
    Repr_ones W U (2 * W + 1) = some (.large [2 ^ W - 1, 2 ^ W - 1, 1]) := by
  have hW0 : 0 < W := by omega
  refine ⟨?_, ?_⟩
  · rw [gen_repr_ones W U (2 * W) hW h32 (by omega)]
    unfold reprOnes onesN
    rw [if_neg (by omega), if_pos (Or.inr ⟨rfl, rfl⟩)]
  · rw [gen_repr_ones W U (2 * W + 1) hW h32 hU]
    unfold reprOnes onesN
    have he : 2 * W + 1 = 1 + W * 2 := by omega
    have hd : (2 * W + 1) / W = 2 := by
      rw [he, Nat.add_mul_div_left 1 2 hW0, Nat.div_eq_of_lt (by omega)]
    have hm : (2 * W + 1) % W = 1 := by
      rw [he, Nat.add_mul_mod_self_left, Nat.mod_eq_of_lt (by omega)]
    rw [if_neg (by omega), if_neg (by rintro (h | ⟨_, h⟩) <;> omega), hd, hm]
    simp [List.replicate]

-- non-vacuity on the 64-bit configuration: the inline / heap boundary, a count with a partial top word, a count that is a
-- multiple of the word size (no top word pushed), and usize::MAX (no overflow in `lo_words + 1`: the value is 2^58 words long)
example : Repr_ones 64 64 128 = some (.small (2 ^ 128 - 1)) ∧
    Repr_ones 64 64 129 = some (.large [2 ^ 64 - 1, 2 ^ 64 - 1, 1]) ∧
    Repr_ones 64 64 192 = some (.large [2 ^ 64 - 1, 2 ^ 64 - 1, 2 ^ 64 - 1]) ∧
    Repr_ones 64 64 63 = some (.small (2 ^ 63 - 1)) ∧ Repr_ones 64 64 0 = some (.small 0) := by
  decide

end Dashu.Props.GenReprOnes
