import Dashu.Model.Trans.Guards
import Dashu.Proofs.Trans.Cert
/-
  C11 — exp, exp_m1, ln, ln_1p, powi, powf are accurate to less than one unit in the last place and
  flag `Exact` only exact results.  PARTIAL, split as in DESIGN §8 C11:

  PROVED FOR ALL INPUTS (this file):
   §1  exactness / domain clauses about the model of the entry guards of `float/src/exp.rs`,
       `float/src/log.rs` (`Model/Trans/Guards.lean`, tied to the code by the correspondence run);
   §2  soundness of the rational enclosures `expEncl`, `lnEncl` (every argument, every effort);
   §3  the certificate theorems: if the executable test (`Model/Trans/Cert.lean`, the very
       definitions the driver runs on the implementation's printed result) answers `certified` then
       `(|r − f(x)| < ulp ∨ r = f(x)) ∧ (Exact → r = f(x))`; if it answers `violation` then that is false.

  NOT PROVED (kept as a comment, explored by `./check C11`):
    theorem c11_full : ∀ input in the domain, the result dashu computes passes the certificate
  — the guard-digit counts of `exp_internal` / `ln_internal` / `powi` are marked heuristic in the
  source; the statement is in fact FALSE on the pinned commit (see `known_findings.jsonl`, C11).
-/
namespace Dashu.Props.C11
open Dashu.Model.Trans

/-! ## §1 entry guards -/

/-- a finite operand -/
def fin (sig exp : Int) : FIn := ⟨false, sig, exp⟩

theorem exp_zero_exact (p : Nat) (hp : p ≠ 0) : expEntry false (fin 0 0) p = .exactConst 1 := by
  simp [expEntry, fin, FIn.isZero, hp]

theorem exp_m1_zero_exact (p : Nat) (hp : p ≠ 0) : expEntry true (fin 0 0) p = .exactConst 0 := by
  simp [expEntry, fin, FIn.isZero, hp]

theorem ln_one_exact (B p : Nat) (hp : p ≠ 0) : lnEntry B false (fin 1 0) p = .exactConst 0 := by
  simp [lnEntry, fin, FIn.isZero, FIn.isOne, hp]

theorem ln_1p_zero_exact (B p : Nat) (hp : p ≠ 0) : lnEntry B true (fin 0 0) p = .exactConst 0 := by
  simp [lnEntry, fin, FIn.isZero, FIn.isOne, hp]

/-- outside the domain (`x ≤ 0`) `ln` is refused by the documented panic -/
theorem ln_nonpositive (B : Nat) (sig exp : Int) (hs : sig ≤ 0) (p : Nat) (hp : p ≠ 0) :
    lnEntry B false (fin sig exp) p = .panic .logNonpositive := by
  have h1 : ¬ (sig = 1 ∧ exp = 0) := by omega
  simp [lnEntry, fin, FIn.isOne, hp, hs, h1]

/-- outside the domain (`x ≤ -1`) `ln_1p` is refused by the documented panic -/
theorem ln_1p_le_neg_one (B : Nat) (sig exp : Int) (hx : fval B sig exp ≤ -1) (hs : sig < 0) (p : Nat)
    (hp : p ≠ 0) : lnEntry B true (fin sig exp) p = .panic .logNonpositive := by
  have h0 : sig ≠ 0 := by omega
  simp [lnEntry, fin, FIn.isZero, hp, hs, h0, hx]

/-- `x⁰ = 1`, flagged Exact, for every finite base (also `0⁰`) and every precision (also unlimited) -/
theorem powi_zero_exact (sig exp : Int) (p : Nat) : powiEntry (fin sig exp) 0 p = .exactConst 1 := by
  simp [powiEntry, fin]

/-- `x¹` is the operand rounded to the context (`repr_round`) -/
theorem powi_one_round (sig exp : Int) (p : Nat) : powiEntry (fin sig exp) 1 p = .roundArg := by
  simp [powiEntry, fin]

theorem powf_zero_exact (x : FIn) (hx : x.inf = false) (p : Nat) (hp : p ≠ 0) :
    powfEntry x (fin 0 0) p = .exactConst 1 := by
  simp [powfEntry, fin, FIn.isZero, hx, hp]

theorem powf_one_round (x : FIn) (hx : x.inf = false) (p : Nat) (hp : p ≠ 0) :
    powfEntry x (fin 1 0) p = .roundArg := by
  simp [powfEntry, fin, FIn.isZero, FIn.isOne, hx, hp]

/-- unlimited precision is refused by panic (exp, exp_m1, ln, ln_1p, powf always; powi for negative exponents) -/
theorem exp_unlimited (m1 : Bool) (x : FIn) (hx : x.inf = false) :
    expEntry m1 x 0 = .panic .unlimitedPrecision := by simp [expEntry, hx]
theorem ln_unlimited (B : Nat) (op : Bool) (x : FIn) (hx : x.inf = false) :
    lnEntry B op x 0 = .panic .unlimitedPrecision := by simp [lnEntry, hx]
theorem powf_unlimited (x y : FIn) (hx : x.inf = false) (hy : y.inf = false) :
    powfEntry x y 0 = .panic .unlimitedPrecision := by simp [powfEntry, hx, hy]
theorem powi_neg_unlimited (x : FIn) (hx : x.inf = false) (k : Int) (hk : k < 0) :
    powiEntry x k 0 = .panic .unlimitedPrecision := by simp [powiEntry, hx, hk]

/-- infinities are refused by panic, whatever the precision -/
theorem exp_infinite (m1 : Bool) (x : FIn) (hx : x.inf = true) (p : Nat) :
    expEntry m1 x p = .panic .infinite := by simp [expEntry, hx]
theorem ln_infinite (B : Nat) (op : Bool) (x : FIn) (hx : x.inf = true) (p : Nat) :
    lnEntry B op x p = .panic .infinite := by simp [lnEntry, hx]
theorem powi_infinite (x : FIn) (hx : x.inf = true) (k : Int) (p : Nat) :
    powiEntry x k p = .panic .infinite := by simp [powiEntry, hx]
theorem powf_infinite (x y : FIn) (hx : x.inf = true ∨ y.inf = true) (p : Nat) :
    powfEntry x y p = .panic .infinite := by
  rcases hx with h | h <;> simp [powfEntry, h]

/-- a negative base of `powf` is refused by panic unless a shortcut (`y = 0`, `y = 1`) applies -/
theorem powf_negative_base (x y : FIn) (hx : x.inf = false) (hyf : y.inf = false) (hneg : x.sig < 0)
    (p : Nat) (hp : p ≠ 0) (hy0 : y.isZero = false) (hy1 : y.isOne = false) :
    powfEntry x y p = .panic .powNegativeBase := by
  have hz : x.isZero = false := by
    simp only [FIn.isZero, hx]
    have : x.sig ≠ 0 := by omega
    simp [this]
  simp [powfEntry, hx, hyf, hp, hy0, hy1, hz, hneg]

/-- behind the guards the numerical algorithm runs: exactly the inputs on which the certificate is used -/
theorem exp_compute (m1 : Bool) (sig exp : Int) (hs : sig ≠ 0) (p : Nat) (hp : p ≠ 0) :
    expEntry m1 (fin sig exp) p = .compute := by
  simp [expEntry, fin, FIn.isZero, hp, hs]

/-! non-vacuity of the guard clauses: concrete operands meeting the hypotheses -/
example : expEntry false (fin 0 0) 4 = .exactConst 1 := exp_zero_exact 4 (by decide)
example : lnEntry 10 false (fin 1 0) 53 = .exactConst 0 := ln_one_exact 10 53 (by decide)
example : lnEntry 10 false (fin (-25) (-1)) 4 = .panic .logNonpositive := ln_nonpositive 10 (-25) (-1) (by decide) 4 (by decide)
example : lnEntry 10 true (fin (-25) (-1)) 4 = .panic .logNonpositive :=
  ln_1p_le_neg_one 10 (-25) (-1) (by decide +kernel) (by decide) 4 (by decide)
example : powfEntry (fin (-3) 0) (fin 5 (-1)) 10 = .panic .powNegativeBase :=
  powf_negative_base (fin (-3) 0) (fin 5 (-1)) rfl rfl (by decide) 10 (by decide) (by decide) (by decide)
example : powiEntry ⟨true, 0, 1⟩ 3 10 = .panic .infinite := powi_infinite ⟨true, 0, 1⟩ rfl 3 10
example : powiEntry (fin 7 0) (-2) 0 = .panic .unlimitedPrecision := powi_neg_unlimited (fin 7 0) rfl (-2) (by decide)
example : expEntry true (fin 123 (-2)) 10 = .compute := exp_compute true 123 (-2) (by decide) 10 (by decide)

/-! ## §2 enclosures -/

/-- `expEncl` brackets the real exponential, for every rational argument and every effort -/
theorem expEncl_sound (x : ℚ) (n : ℕ) :
    ((expEncl x n).1 : ℝ) ≤ Real.exp (x : ℝ) ∧ Real.exp (x : ℝ) ≤ ((expEncl x n).2 : ℝ) :=
  Dashu.Model.Trans.expEncl_sound x n

/-- `lnEncl` brackets the real logarithm, for every positive rational argument and every effort -/
theorem lnEncl_sound (x : ℚ) (n : ℕ) (hx : 0 < x) :
    ((lnEncl x n).1 : ℝ) ≤ Real.log (x : ℝ) ∧ Real.log (x : ℝ) ≤ ((lnEncl x n).2 : ℝ) :=
  Dashu.Model.Trans.lnEncl_sound x n hx

/-! ## §3 certificates

  `Within r u exact v :⇔ (|r − v| < u ∨ r = v) ∧ (exact → r = v)` (`Proofs/Trans/Cert.lean`); the claim is
  `r = fval B sig e = sig·B^e`, `u = ulp B sig e p = B^(e + digits sig − p)`. -/

/-- what the six certificate theorems conclude: the claimed float is within one ulp (at precision `p`)
    of the real value `v`, and carries the flag `Exact` only if it equals `v` -/
def Ok (B : ℕ) (sig e : ℤ) (p : ℕ) (exact : Bool) (v : ℝ) : Prop :=
  (|((fval B sig e : ℚ) : ℝ) - v| < ((ulp B sig e p : ℚ) : ℝ) ∨ ((fval B sig e : ℚ) : ℝ) = v) ∧
    (exact = true → ((fval B sig e : ℚ) : ℝ) = v)

theorem ok_iff_within (B : ℕ) (sig e : ℤ) (p : ℕ) (exact : Bool) (v : ℝ) :
    Ok B sig e p exact v ↔ Within (fval B sig e) (ulp B sig e p) exact v := Iff.rfl

theorem checkedExp_sound (B : ℕ) (x : ℚ) (sig e : ℤ) (p : ℕ) (exact : Bool) (fuel n0 : ℕ) :
    ((certExp B x sig e p exact fuel n0).1 = .certified → Ok B sig e p exact (Real.exp (x : ℝ))) ∧
    ((certExp B x sig e p exact fuel n0).1 = .violation → ¬ Ok B sig e p exact (Real.exp (x : ℝ))) :=
  refine_sound _ _ _ _ _ (expEncl_encloses x) fuel n0

theorem checkedExpScaled_sound (B : ℕ) (hB : 0 < B) (x : ℚ) (sig e : ℤ) (p : ℕ) (exact : Bool) (fuel n0 : ℕ) :
    ((certExpScaled B x sig e p exact fuel n0).1 = .certified → Ok B sig e p exact (Real.exp (x : ℝ))) ∧
    ((certExpScaled B x sig e p exact fuel n0).1 = .violation → ¬ Ok B sig e p exact (Real.exp (x : ℝ))) := by
  unfold certExpScaled
  split_ifs with hbig
  · refine ⟨(by intro h; cases h), fun _ hw => ?_⟩
    have hx : Encloses ((x, x) : ℚ × ℚ) (x : ℝ) := ⟨le_refl _, le_refl _⟩
    have hv := tooBig_violation _ _ (subLogs_sound B hB _ _ hx e 64) _ _ exact hbig
    rw [exp_sub_int_mul_log B hB] at hv
    exact hv (scaled_of_within B hB sig e p exact _ hw)
  · obtain ⟨h1, h2⟩ := refine_sound (expScaledEncl B x e) (sig : ℚ) (ulpScaled B sig p) exact _
      (expScaledEncl_encloses B hB x e) fuel n0
    exact ⟨fun h => within_of_scaled B hB sig e p exact _ (h1 h),
      fun h hw => h2 h (scaled_of_within B hB sig e p exact _ hw)⟩

theorem checkedExpm1_sound (B : ℕ) (x : ℚ) (sig e : ℤ) (p : ℕ) (exact : Bool) (fuel n0 : ℕ) :
    ((certExpm1 B x sig e p exact fuel n0).1 = .certified → Ok B sig e p exact (Real.exp (x : ℝ) - 1)) ∧
    ((certExpm1 B x sig e p exact fuel n0).1 = .violation → ¬ Ok B sig e p exact (Real.exp (x : ℝ) - 1)) :=
  refine_sound _ _ _ _ _ (expm1Encl_encloses x) fuel n0

theorem checkedLn_sound (B : ℕ) (x : ℚ) (hx : 0 < x) (sig e : ℤ) (p : ℕ) (exact : Bool) (fuel n0 : ℕ) :
    ((certLn B x sig e p exact fuel n0).1 = .certified → Ok B sig e p exact (Real.log (x : ℝ))) ∧
    ((certLn B x sig e p exact fuel n0).1 = .violation → ¬ Ok B sig e p exact (Real.log (x : ℝ))) :=
  refine_sound _ _ _ _ _ (lnEncl_encloses x hx) fuel n0

theorem checkedLn1p_sound (B : ℕ) (x : ℚ) (hx : -1 < x) (sig e : ℤ) (p : ℕ) (exact : Bool) (fuel n0 : ℕ) :
    ((certLn1p B x sig e p exact fuel n0).1 = .certified → Ok B sig e p exact (Real.log (1 + (x : ℝ)))) ∧
    ((certLn1p B x sig e p exact fuel n0).1 = .violation → ¬ Ok B sig e p exact (Real.log (1 + (x : ℝ)))) := by
  have h := refine_sound (lnEncl (1 + x)) (fval B sig e) (ulp B sig e p) exact _
    (lnEncl_encloses (1 + x) (by linarith)) fuel n0
  have e1 : (((1 + x : ℚ)) : ℝ) = 1 + (x : ℝ) := by push_cast; rfl
  rw [e1] at h
  exact h

theorem checkedPowf_sound (B : ℕ) (x y : ℚ) (hx : 0 < x) (sig e : ℤ) (p : ℕ) (exact : Bool) (fuel n0 : ℕ) :
    ((certPowf B x y sig e p exact fuel n0).1 = .certified → Ok B sig e p exact ((x : ℝ) ^ (y : ℝ))) ∧
    ((certPowf B x y sig e p exact fuel n0).1 = .violation → ¬ Ok B sig e p exact ((x : ℝ) ^ (y : ℝ))) :=
  refine_sound _ _ _ _ _ (powfEncl_encloses x y hx) fuel n0

theorem checkedPowfScaled_sound (B : ℕ) (hB : 0 < B) (x y : ℚ) (hx : 0 < x) (sig e : ℤ) (p : ℕ)
    (exact : Bool) (fuel n0 : ℕ) :
    ((certPowfScaled B x y sig e p exact fuel n0).1 = .certified → Ok B sig e p exact ((x : ℝ) ^ (y : ℝ))) ∧
    ((certPowfScaled B x y sig e p exact fuel n0).1 = .violation → ¬ Ok B sig e p exact ((x : ℝ) ^ (y : ℝ))) := by
  have hx' : (0 : ℝ) < (x : ℝ) := by exact_mod_cast hx
  unfold certPowfScaled
  split_ifs with hbig
  · refine ⟨(by intro h; cases h), fun _ hw => ?_⟩
    have hv := tooBig_violation _ _
      (subLogs_sound B hB _ _ (scaleRat_sound y _ _ (lnEncl_sound x (64 + magBits y + 3) hx)) e 64) _ _ exact hbig
    rw [exp_sub_int_mul_log B hB, mul_comm, ← Real.rpow_def_of_pos hx'] at hv
    exact hv (scaled_of_within B hB sig e p exact _ hw)
  · obtain ⟨h1, h2⟩ := refine_sound (powfScaledEncl B x y e) (sig : ℚ) (ulpScaled B sig p) exact _
      (powfScaledEncl_encloses B hB x y hx e) fuel n0
    exact ⟨fun h => within_of_scaled B hB sig e p exact _ (h1 h),
      fun h hw => h2 h (scaled_of_within B hB sig e p exact _ hw)⟩

/-- exact `powf`: if `s > 0` and `s ^ y.den = x` (found by the driver, checked here as a hypothesis),
    the value `x^y = s^(y.num)` is rational and the comparison is exact -/
theorem checkedPowfExact_sound (B : ℕ) (s x y : ℚ) (hs : 0 < s) (hroot : s ^ y.den = x) (sig e : ℤ) (p : ℕ)
    (exact : Bool) :
    (certPowfExact B s y sig e p exact = .certified → Ok B sig e p exact ((x : ℝ) ^ (y : ℝ))) ∧
    (certPowfExact B s y sig e p exact = .violation → ¬ Ok B sig e p exact ((x : ℝ) ^ (y : ℝ))) := by
  rw [rpow_of_root s x y hs hroot]
  have hv : Encloses (s ^ y.num, s ^ y.num) ((s : ℝ) ^ y.num) := by
    unfold Encloses
    push_cast
    exact ⟨le_refl _, le_refl _⟩
  exact ⟨fun h => judge_certified hv h, fun h => judge_violation hv h⟩

/-- the root witness the driver uses satisfies the hypotheses of `checkedPowfExact_sound` -/
theorem ratRoot_spec (b : ℕ) (x s : ℚ) (h : ratRoot b x = some s) : 0 < s ∧ s ^ b = x := by
  unfold ratRoot at h
  by_cases h1 : b = 1
  · rw [if_pos h1] at h
    by_cases h2 : 0 < x
    · rw [if_pos h2] at h
      cases h; subst h1; exact ⟨h2, by simp⟩
    · rw [if_neg h2] at h; cases h
  · rw [if_neg h1] at h
    simp only [] at h
    by_cases h3 : 0 < mkRat (↑(iroot b x.num.natAbs)) (iroot b x.den) ∧
        mkRat (↑(iroot b x.num.natAbs)) (iroot b x.den) ^ b = x
    · rw [if_pos h3] at h
      cases h; exact h3
    · rw [if_neg h3] at h; cases h

/-- `powi` is decided by exact rational arithmetic: `(x : ℝ)^k` with an integer exponent of either sign -/
theorem checkedPowi_sound (B : ℕ) (x : ℚ) (k : ℤ) (sig e : ℤ) (p : ℕ) (exact : Bool) :
    (certPowi B x k sig e p exact = .certified → Ok B sig e p exact ((x : ℝ) ^ k)) ∧
    (certPowi B x k sig e p exact = .violation → ¬ Ok B sig e p exact ((x : ℝ) ^ k)) := by
  have hv : Encloses (powiExact x k, powiExact x k) ((x : ℝ) ^ k) := by
    unfold Encloses powiExact
    push_cast
    exact ⟨le_refl _, le_refl _⟩
  exact ⟨fun h => judge_certified hv h, fun h => judge_violation hv h⟩

/-- `powi` with an exponent too large for exact arithmetic, positive base: the `powf` certificate with the
    integer exponent cast to a rational certifies the integer power -/
theorem checkedPowiBig_sound (B : ℕ) (hB : 0 < B) (x : ℚ) (hx : 0 < x) (k : ℤ) (sig e : ℤ) (p : ℕ)
    (exact : Bool) (fuel n0 : ℕ) :
    ((certPowfScaled B x (k : ℚ) sig e p exact fuel n0).1 = .certified → Ok B sig e p exact ((x : ℝ) ^ k)) ∧
    ((certPowfScaled B x (k : ℚ) sig e p exact fuel n0).1 = .violation → ¬ Ok B sig e p exact ((x : ℝ) ^ k)) := by
  have h := checkedPowfScaled_sound B hB x (k : ℚ) hx sig e p exact fuel n0
  have e1 : (x : ℝ) ^ (((k : ℚ)) : ℝ) = (x : ℝ) ^ k := by
    rw [show (((k : ℚ)) : ℝ) = ((k : ℤ) : ℝ) from by push_cast; rfl, Real.rpow_intCast]
  rw [e1] at h
  exact h

/-- `powi` never ends undecided (the enclosure is a point) -/
theorem certPowi_decided (B : ℕ) (x : ℚ) (k : ℤ) (sig e : ℤ) (p : ℕ) (exact : Bool) :
    certPowi B x k sig e p exact ≠ .undecided := by
  unfold certPowi judge
  simp only []
  set v := powiExact x k
  set r := fval B sig e
  set u := ulp B sig e p
  split_ifs with h1 h2
  · simp
  · simp
  · exfalso
    by_cases hvr : v = r
    · exact h1 ⟨Or.inr ⟨hvr, hvr⟩, fun _ => ⟨hvr, hvr⟩⟩
    · have hd : r < v ∨ v < r := by
        rcases lt_trichotomy r v with h | h | h
        · exact Or.inl h
        · exact absurd h.symm hvr
        · exact Or.inr h
      by_cases hex : exact = true
      · exact h2 (Or.inr ⟨hex, hd⟩)
      · by_cases hfar : v ≤ r - u ∨ r + u ≤ v
        · exact h2 (Or.inl ⟨hfar, hd⟩)
        · simp only [not_or, not_le] at hfar
          exact h1 ⟨Or.inl ⟨hfar.1, hfar.2⟩, fun he => absurd he hex⟩

/-! ## non-vacuity: the certificate test does answer `certified` / `violation` on concrete claims -/

-- exp(1/2) = 1.6487…; base 2, precision 4: 13·2⁻³ = 1.625 is within one ulp (2⁻³), 15·2⁻³ = 1.875 is not
example : (certExp 2 (1/2) 13 (-3) 4 false 9 20).1 = .certified := by decide +kernel
example : (certExp 2 (1/2) 15 (-3) 4 false 9 20).1 = .violation := by decide +kernel
-- ln 2 = 0.69314…; base 10, precision 4: 6931·10⁻⁴
example : (certLn 10 2 6931 (-4) 4 false 9 30).1 = .certified := by decide +kernel
-- the exact case is certified with the flag Exact: exp 0 = 1
example : (certExp 10 0 1 0 4 true 9 20).1 = .certified := by decide +kernel
-- 2^10 = 1024 exactly, also as a `powf` with the root witness s = 2 (x = 4 = 2², y = 5 = 10/2 … here y = 5, den 1)
example : certPowi 10 2 10 1024 0 4 true = .certified := by decide +kernel
example : ratRoot 2 (9/4) = some (3/2) := by decide +kernel
example : certPowfExact 10 (3/2) (1/2) 15 (-1) 3 true = .certified := by decide +kernel

/-! ## counterexamples: results printed by the pinned commit that the certificate refutes
    (each is a theorem about the real exponential; see `known_findings.jsonl`, property C11) -/

/-- `FBig::<HalfEven, 3>` 7·3⁻⁵² at precision 2: `exp` returned `Exact(1)`; the value is within an ulp
    but it is not exact -/
theorem exact_flag_counterexample :
    ¬ Ok 3 1 0 2 true (Real.exp (((7 : ℚ) * (3 : ℚ) ^ (-52 : ℤ) : ℚ) : ℝ)) ∧
      Ok 3 1 0 2 false (Real.exp (((7 : ℚ) * (3 : ℚ) ^ (-52 : ℤ) : ℚ) : ℝ)) :=
  ⟨(checkedExp_sound 3 _ 1 0 2 true 9 64).2 (by decide +kernel),
   (checkedExp_sound 3 _ 1 0 2 false 9 64).1 (by decide +kernel)⟩

/-- `FBig::<Up, 3>` 3³¹ at precision 1: `exp` returned 2·3^562152192123592; the true exponent is 562230… -/
theorem large_argument_counterexample :
    ¬ Ok 3 2 562152192123592 1 false (Real.exp (((3 : ℚ) ^ (31 : ℕ) : ℚ) : ℝ)) :=
  (checkedExpScaled_sound 3 (by norm_num) _ 2 562152192123592 1 false 9 20).2 (by decide +kernel)

/-- `FBig::<Away, 2>` −2⁻⁵¹ at precision 10: `exp` returned 513·2⁻⁹ = 1 + 2⁻⁹, the true value is below 1 -/
theorem directed_one_ulp_counterexample :
    ¬ Ok 2 513 (-9) 10 false (Real.exp (((-1 : ℚ) / (2 : ℚ) ^ (51 : ℕ) : ℚ) : ℝ)) :=
  (checkedExp_sound 2 _ 513 (-9) 10 false 9 40).2 (by decide +kernel)

end Dashu.Props.C11
