import Dashu.Model.Int.Repr
import Dashu.Props.C01Arch
/-
  C01 ↔ C19 link, second layer (round 8).  Round 7 linked the three same-length loops of add.rs as whole loops and
  every other call site of `arch::add::add_with_carry` / `sub_with_borrow` only as a single step.  Here the four
  remaining functions of add.rs that call those routines (directly or through the same-length loops) are written as
  the Rust functions over the REGENERATED routine and proved to be the model's definitions:
  `add_dword_in_place`, `sub_dword_in_place` (first word by `overflowing_add` / `overflowing_sub` — C19's
  `Model/Arch/Prelude` contract form —, second word by the routine with the Boolean carry of the first, then
  `carry && add_one_in_place(words_hi)`), `add_in_place`, `sub_in_place` (`split_at_mut(rhs.len())`, the same-length
  loop over the routine, then `carry && add_one_in_place(lhs_hi)`).
-/
namespace Dashu.Props.C01ArchDword
open Dashu.Model Dashu.Model.Arch Dashu.Gen.ArchAdd Dashu.Props.C19 Dashu.Props.C01Arch

/-- add.rs `add_dword_in_place` over a given `add_with_carry`:
    `let (b0, b1) = split_dword(rhs); let (s0, carry) = word_0.overflowing_add(b0);
     let (s1, carry) = add_with_carry(*word_1, b1, carry); carry && add_one_in_place(words_hi)`
    (the Boolean result of `add_one_in_place` is the model's 0/1 of `addOne`) -/
def addDwordInPlaceVia (W : Nat) (awc : Nat → Nat → Bool → Nat × Bool) (ws : List Nat) (d : Nat) : List Nat × Nat :=
  match ws with
  | w0 :: w1 :: hi =>
    let p0 := overflowing_add W w0 (d % 2 ^ W)
    let p1 := awc w1 (d / 2 ^ W) p0.2
    if p1.2 then
      let q := addOne W hi
      (p0.1 :: p1.1 :: q.1, q.2)
    else (p0.1 :: p1.1 :: hi, 0)
  | _ => (ws, 0)

/-- add.rs `sub_dword_in_place` over a given `sub_with_borrow` -/
def subDwordInPlaceVia (W : Nat) (swb : Nat → Nat → Bool → Nat × Bool) (ws : List Nat) (d : Nat) : List Nat × Nat :=
  match ws with
  | w0 :: w1 :: hi =>
    let p0 := overflowing_sub W w0 (d % 2 ^ W)
    let p1 := swb w1 (d / 2 ^ W) p0.2
    if p1.2 then
      let q := subOne W hi
      (p0.1 :: p1.1 :: q.1, q.2)
    else (p0.1 :: p1.1 :: hi, 0)
  | _ => (ws, 0)

/-- add.rs `add_in_place` over a given `add_with_carry`:
    `let (lhs_lo, lhs_hi) = lhs.split_at_mut(rhs.len()); let carry = add_same_len_in_place(lhs_lo, rhs);
     carry && add_one_in_place(lhs_hi)` -/
def addInPlaceVia (W : Nat) (awc : Nat → Nat → Bool → Nat × Bool) (lhs rhs : List Nat) : List Nat × Nat :=
  let p := addSameLenVia awc (lhs.take rhs.length) rhs false
  if p.2 then
    let q := addOne W (lhs.drop rhs.length)
    (p.1 ++ q.1, q.2)
  else (p.1 ++ lhs.drop rhs.length, 0)

/-- add.rs `sub_in_place` over a given `sub_with_borrow` -/
def subInPlaceVia (W : Nat) (swb : Nat → Nat → Bool → Nat × Bool) (lhs rhs : List Nat) : List Nat × Nat :=
  let p := subSameLenVia swb (lhs.take rhs.length) rhs false
  if p.2 then
    let q := subOne W (lhs.drop rhs.length)
    (p.1 ++ q.1, q.2)
  else (p.1 ++ lhs.drop rhs.length, 0)

theorem cin_eq_zero (b : Bool) : cin b = 0 ↔ b = false := by cases b <;> simp [cin]

theorem hi_lt (W d : Nat) (hd : d < 2 ^ (2 * W)) : d / 2 ^ W < 2 ^ W := by
  have : 2 ^ (2 * W) = 2 ^ W * 2 ^ W := by rw [Nat.two_mul, Nat.pow_add]
  rw [this] at hd
  exact (Nat.div_lt_iff_lt_mul (pow_pos' W)).2 hd

theorem div_le_one (P a b k : Nat) (hp : 0 < P) (ha : a < P) : (a + P - b - k) / P ≤ 1 := by
  have : a + P - b - k < 2 * P := by omega
  have := (Nat.div_lt_iff_lt_mul hp).2 this
  omega

/-- `add_dword_in_place` over ANY routine meeting the `add_with_carry` contract is the model's `addDwordInPlace` -/
theorem add_dword_in_place_via (W : Nat) (awc : Nat → Nat → Bool → Nat × Bool) (h : AddContract W awc)
    (ws : List Nat) (d : Nat) (hW : IsWords W ws) (hd : d < 2 ^ (2 * W)) :
    addDwordInPlace W ws d = addDwordInPlaceVia W awc ws d := by
  match ws, hW with
  | [], _ => rfl
  | [_], _ => rfl
  | w0 :: w1 :: hi, hW =>
    have hp := pow_pos' W
    have h0 : w0 < 2 ^ W := hW w0 (by simp)
    have h1 : w1 < 2 ^ W := hW w1 (by simp)
    have hb0 : d % 2 ^ W < 2 ^ W := Nat.mod_lt _ hp
    have hb1 := hi_lt W d hd
    have ec : decide (2 ^ W ≤ w0 + d % 2 ^ W) = decide ((w0 + d % 2 ^ W + cin false) / 2 ^ W ≠ 0) := by
      have : cin false = 0 := rfl
      rw [this, Nat.add_zero]
      by_cases hc : 2 ^ W ≤ w0 + d % 2 ^ W
      · have : (w0 + d % 2 ^ W) / 2 ^ W ≠ 0 := by
          intro hz; have := (Nat.div_eq_zero_iff.1 hz); omega
        simp [hc, this]
      · have : (w0 + d % 2 ^ W) / 2 ^ W = 0 := Nat.div_eq_of_lt (by omega)
        simp [hc, this]
    have e0 := add_carry_num W w0 (d % 2 ^ W) false h0 hb0
    have z : cin false = 0 := rfl
    rw [z, Nat.add_zero] at e0
    simp only [addDwordInPlace, addDwordInPlaceVia, overflowing_add, ec, z, Nat.add_zero,
      h w1 (d / 2 ^ W) _ h1 hb1, e0]
    by_cases hc : (w1 + d / 2 ^ W + (w0 + d % 2 ^ W) / 2 ^ W) / 2 ^ W = 0
    · simp [hc]
    · simp [hc]

/-- `sub_dword_in_place` over ANY routine meeting the `sub_with_borrow` contract is the model's `subDwordInPlace` -/
theorem sub_dword_in_place_via (W : Nat) (swb : Nat → Nat → Bool → Nat × Bool) (h : SubContract W swb)
    (ws : List Nat) (d : Nat) (hW : IsWords W ws) (hd : d < 2 ^ (2 * W)) :
    subDwordInPlace W ws d = subDwordInPlaceVia W swb ws d := by
  match ws, hW with
  | [], _ => rfl
  | [_], _ => rfl
  | w0 :: w1 :: hi, hW =>
    have hp := pow_pos' W
    have h0 : w0 < 2 ^ W := hW w0 (by simp)
    have h1 : w1 < 2 ^ W := hW w1 (by simp)
    have hb0 : d % 2 ^ W < 2 ^ W := Nat.mod_lt _ hp
    have hb1 := hi_lt W d hd
    have z : cin false = 0 := rfl
    obtain ⟨_, e0⟩ := sub_borrow_num W w0 (d % 2 ^ W) false h0 hb0
    rw [z, Nat.add_zero, Nat.sub_zero] at e0
    simp only [subDwordInPlace, subDwordInPlaceVia, overflowing_sub, h w1 (d / 2 ^ W) _ h1 hb1, ← e0]
    generalize decide (w0 < d % 2 ^ W) = c
    obtain ⟨e1, e2⟩ := sub_borrow_num W w1 (d / 2 ^ W) c h1 hb1
    have hc := cin_le c
    have hq : (w1 + 2 ^ W - d / 2 ^ W - cin c) / 2 ^ W ≤ 1 := div_le_one (2 ^ W) w1 _ _ hp h1
    rw [e1]
    generalize (w1 + 2 ^ W - d / 2 ^ W - cin c) / 2 ^ W = q at e2 hq ⊢
    have ct : cin true = 1 := rfl
    by_cases hb : w1 < d / 2 ^ W + cin c
    · have hdt : decide (w1 < d / 2 ^ W + cin c) = true := decide_eq_true hb
      rw [hdt, ct] at e2
      have hq1 : q ≠ 1 := by omega
      simp [hdt, hq1]
    · have hdf : decide (w1 < d / 2 ^ W + cin c) = false := decide_eq_false hb
      rw [hdf, z] at e2
      have hq1 : q = 1 := by omega
      simp [hdf, hq1]

theorem isWords_take (W : Nat) (ws : List Nat) (n : Nat) (h : IsWords W ws) : IsWords W (ws.take n) :=
  fun w hw => h w (List.mem_of_mem_take hw)

/-- `add_in_place` over ANY routine meeting the contract is the model's `addInPlace` -/
theorem add_in_place_via (W : Nat) (awc : Nat → Nat → Bool → Nat × Bool) (h : AddContract W awc)
    (lhs rhs : List Nat) (hL : IsWords W lhs) (hR : IsWords W rhs) :
    addInPlace W lhs rhs = addInPlaceVia W awc lhs rhs := by
  have key := add_same_len_via W awc h (lhs.take rhs.length) rhs false (isWords_take W lhs _ hL) hR
  have z : cin false = 0 := rfl
  rw [z] at key
  simp only [addInPlace, addInPlaceVia, key, cin_eq_zero]
  cases (addSameLenVia awc (lhs.take rhs.length) rhs false).2 <;> simp

/-- `sub_in_place` over ANY routine meeting the contract is the model's `subInPlace` -/
theorem sub_in_place_via (W : Nat) (swb : Nat → Nat → Bool → Nat × Bool) (h : SubContract W swb)
    (lhs rhs : List Nat) (hL : IsWords W lhs) (hR : IsWords W rhs) :
    subInPlace W lhs rhs = subInPlaceVia W swb lhs rhs := by
  have key := sub_same_len_via W swb h (lhs.take rhs.length) rhs false (isWords_take W lhs _ hL) hR
  have z : cin false = 0 := rfl
  rw [z] at key
  simp only [subInPlace, subInPlaceVia, key, cin_eq_zero]
  cases (subSameLenVia swb (lhs.take rhs.length) rhs false).2 <;> simp

/-- LINK C01 ↔ C19, second layer: `add_dword_in_place`, `sub_dword_in_place`, `add_in_place`, `sub_in_place` of add.rs,
    written as the Rust functions over the `add_with_carry` / `sub_with_borrow` bodies REGENERATED from
    arch/generic/add.rs (every word size), arch/x86_64/add.rs (W = 64, the build the correspondence runs) and
    arch/x86/add.rs (W = 32), ARE the model's `addDwordInPlace` / `subDwordInPlace` / `addInPlace` / `subInPlace`
    (words and returned carry / borrow) that `add_large_dword`, `sub_large_dword`, `add_large`, `sub_large`,
    `sub_in_place_with_sign` and the multiplication kernels of C01 are stated over. -/
theorem add_rs_functions_over_regenerated_arch (W : Nat) (ws lhs rhs : List Nat) (d : Nat)
    (hW : IsWords W ws) (hd : d < 2 ^ (2 * W)) (hL : IsWords W lhs) (hR : IsWords W rhs) :
    (addDwordInPlace W ws d = addDwordInPlaceVia W (generic_add_with_carry W) ws d ∧
     subDwordInPlace W ws d = subDwordInPlaceVia W (generic_sub_with_borrow W) ws d ∧
     addInPlace W lhs rhs = addInPlaceVia W (generic_add_with_carry W) lhs rhs ∧
     subInPlace W lhs rhs = subInPlaceVia W (generic_sub_with_borrow W) lhs rhs) ∧
    (W = 64 →
     addDwordInPlace W ws d = addDwordInPlaceVia W x86_64_add_with_carry ws d ∧
     subDwordInPlace W ws d = subDwordInPlaceVia W x86_64_sub_with_borrow ws d ∧
     addInPlace W lhs rhs = addInPlaceVia W x86_64_add_with_carry lhs rhs ∧
     subInPlace W lhs rhs = subInPlaceVia W x86_64_sub_with_borrow lhs rhs) ∧
    (W = 32 →
     addDwordInPlace W ws d = addDwordInPlaceVia W x86_add_with_carry ws d ∧
     subDwordInPlace W ws d = subDwordInPlaceVia W x86_sub_with_borrow ws d ∧
     addInPlace W lhs rhs = addInPlaceVia W x86_add_with_carry lhs rhs ∧
     subInPlace W lhs rhs = subInPlaceVia W x86_sub_with_borrow lhs rhs) := by
  obtain ⟨hg, ⟨h64a, h64s⟩, ⟨h32a, h32s⟩⟩ := regenerated_routines_meet_contract
  refine ⟨⟨add_dword_in_place_via W _ (hg W).1 ws d hW hd, sub_dword_in_place_via W _ (hg W).2 ws d hW hd,
           add_in_place_via W _ (hg W).1 lhs rhs hL hR, sub_in_place_via W _ (hg W).2 lhs rhs hL hR⟩, ?_, ?_⟩
  · intro e; subst e
    exact ⟨add_dword_in_place_via 64 _ h64a ws d hW hd, sub_dword_in_place_via 64 _ h64s ws d hW hd,
           add_in_place_via 64 _ h64a lhs rhs hL hR, sub_in_place_via 64 _ h64s lhs rhs hL hR⟩
  · intro e; subst e
    exact ⟨add_dword_in_place_via 32 _ h32a ws d hW hd, sub_dword_in_place_via 32 _ h32s ws d hW hd,
           add_in_place_via 32 _ h32a lhs rhs hL hR, sub_in_place_via 32 _ h32s lhs rhs hL hR⟩

/-- non-vacuity (x86_64 routine, 64 bits): a double word whose addition carries out of word 0, out of word 1 and
    through an all-ones word above; a double-word subtraction borrowing through both words and a zero word above;
    `add_in_place` / `sub_in_place` with a shorter rhs whose carry / borrow runs into `lhs_hi` -/
example : IsWords 64 [2 ^ 64 - 1, 2 ^ 64 - 1, 2 ^ 64 - 1, 5] ∧ 2 ^ 128 - 1 < 2 ^ (2 * 64) ∧
    addDwordInPlaceVia 64 x86_64_add_with_carry [2 ^ 64 - 1, 2 ^ 64 - 1, 2 ^ 64 - 1, 5] (2 ^ 128 - 1)
      = ([2 ^ 64 - 2, 2 ^ 64 - 1, 0, 6], 0) ∧
    addDwordInPlace 64 [2 ^ 64 - 1, 2 ^ 64 - 1, 2 ^ 64 - 1, 5] (2 ^ 128 - 1) = ([2 ^ 64 - 2, 2 ^ 64 - 1, 0, 6], 0) ∧
    IsWords 64 [0, 0, 0, 7] ∧
    subDwordInPlaceVia 64 x86_64_sub_with_borrow [0, 0, 0, 7] (2 ^ 128 - 1) = ([1, 0, 2 ^ 64 - 1, 6], 0) ∧
    subDwordInPlace 64 [0, 0, 0, 7] (2 ^ 128 - 1) = ([1, 0, 2 ^ 64 - 1, 6], 0) ∧
    subDwordInPlaceVia 64 x86_64_sub_with_borrow [0, 0] 1 = ([2 ^ 64 - 1, 2 ^ 64 - 1], 1) ∧
    IsWords 64 [1, 0] ∧
    addInPlaceVia 64 x86_64_add_with_carry [2 ^ 64 - 1, 2 ^ 64 - 1, 2 ^ 64 - 1, 5] [1, 0] = ([0, 0, 0, 6], 0) ∧
    addInPlace 64 [2 ^ 64 - 1, 2 ^ 64 - 1, 2 ^ 64 - 1, 5] [1, 0] = ([0, 0, 0, 6], 0) ∧
    subInPlaceVia 64 x86_64_sub_with_borrow [0, 0, 0, 7] [1, 0] = ([2 ^ 64 - 1, 2 ^ 64 - 1, 2 ^ 64 - 1, 6], 0) ∧
    subInPlace 64 [0, 0, 0, 7] [1, 0] = ([2 ^ 64 - 1, 2 ^ 64 - 1, 2 ^ 64 - 1, 6], 0) := by decide

end Dashu.Props.C01ArchDword
