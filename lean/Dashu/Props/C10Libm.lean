import Dashu.Props.C10
import Dashu.Props.C10F32
/-
  C10, round 7: the public primitive `Round::round_fract` AS WRITTEN (coarse `f32` test first, exact comparison as the fall-back)
  follows the six mode definitions, from (LIBM) and (IEEE) alone — the composition of `Props/C10.round_fract_follows_mode`
  (every sound coarse oracle) with `Props/C10F32.coarse_test_sound_libm` (the test of the source with `log2_bounds` = its model
  is such an oracle on the region).  Before, the two halves were only stated apart (the second one about the clamped bounds).
-/
namespace Dashu.Props.C10Libm
open Dashu Dashu.Model.Float Dashu.Props.GenRound Dashu.Props.C10F32

/-- **`round_fract` with the `f32` test of the source returns what the exact comparison returns — from (LIBM) alone**
    (`log2_bounds` = `log2LbModel` / `log2UbModel`, every operation `rne32`), on `2 ≤ B < 2⁶⁴`, `|fract| < B^k`, `k ≤ 2²⁴` -/
theorem round_fract_coarse_irrelevant_libm (log2f : ℝ → ℝ) (h : Log2fSound log2f) (B : Nat) (m : Mode)
    (n f : Int) (k : Nat) (hB : 2 ≤ B) (hBw : B < 2 ^ 64) (hlt : f.natAbs < B ^ k) (hk : k ≤ 2 ^ 24) :
    roundFract B m (coarseIEEE (log2LbModel log2f) (log2UbModel log2f)) n f k = roundFract B m coarseNone n f k := by
  unfold roundFract
  by_cases hf : f = 0
  · simp [hf]
  · simp only [hf, if_false, coarseNone]
    have hpos : 0 < f.natAbs := Int.natAbs_pos.mpr hf
    cases hc : coarseIEEE (log2LbModel log2f) (log2UbModel log2f) B f.natAbs k with
    | none => rfl
    | some o => simp only [coarse_test_sound_libm log2f h B f.natAbs k hB hBw hpos hlt hk o hc]

/-- **`Round::round_fract::<B>(n, f, k)` as written follows the mode definitions, from (LIBM) alone**: for every mode,
    every base held in a word, every precision up to `2²⁴` digits and every `|f| < B^k`, `n + adjustment` is the neighbour of
    `n + f / B^k` that the mode names — no oracle hypothesis (`CoarseSound`) is left -/
theorem round_fract_follows_mode_libm (log2f : ℝ → ℝ) (h : Log2fSound log2f) (B : Nat) (hB : 2 ≤ B) (hBw : B < 2 ^ 64)
    (m : Mode) (n f : Int) (k : Nat) (hk : k ≤ 2 ^ 24) (hlt : |f| < ((B ^ k : Nat) : Int)) :
    ModeSpec m (n * ((B ^ k : Nat) : Int) + f) ((B ^ k : Nat) : Int)
      (n + rInt (roundFract B m (coarseIEEE (log2LbModel log2f) (log2UbModel log2f)) n f k)) := by
  have hlt' : f.natAbs < B ^ k := by
    have : ((f.natAbs : Nat) : Int) < ((B ^ k : Nat) : Int) := by rw [Int.natCast_natAbs]; exact hlt
    exact_mod_cast this
  rw [round_fract_coarse_irrelevant_libm log2f h B m n f k hB hBw hlt' hk]
  exact Dashu.Props.C10.round_fract_follows_mode B hB m coarseNone (by intro _ _ _ _ h; cases h) n f k hlt

/-- … and its flag tells the truth (the integer-scaled contract of `Props/C10.round_fract_contract`) -/
theorem round_fract_contract_libm (log2f : ℝ → ℝ) (h : Log2fSound log2f) (B : Nat) (hB : 2 ≤ B) (hBw : B < 2 ^ 64)
    (m : Mode) (n f : Int) (k : Nat) (hk : k ≤ 2 ^ 24) (hf : f ≠ 0) (hlt : |f| < ((B ^ k : Nat) : Int)) :
    IContract m ((B ^ k : Nat) : Int) (n * ((B ^ k : Nat) : Int) + f)
      ((n + rInt (roundFract B m (coarseIEEE (log2LbModel log2f) (log2UbModel log2f)) n f k)) * ((B ^ k : Nat) : Int))
      (some (roundFract B m (coarseIEEE (log2LbModel log2f) (log2UbModel log2f)) n f k)) := by
  have hlt' : f.natAbs < B ^ k := by
    have : ((f.natAbs : Nat) : Int) < ((B ^ k : Nat) : Int) := by rw [Int.natCast_natAbs]; exact hlt
    exact_mod_cast this
  rw [round_fract_coarse_irrelevant_libm log2f h B m n f k hB hBw hlt' hk]
  exact Dashu.Props.C10.round_fract_contract B hB m coarseNone (by intro _ _ _ _ h; cases h) n f k hf hlt

/-- non-vacuity: (LIBM) is met by the correctly rounded logarithm (`libm_hypothesis_satisfiable`), and the size hypotheses by
    a tie at 3 decimal digits (`n + 500/10³`, where half-even and half-away differ) -/
example : Log2fSound (fun x => rne32 (Real.logb 2 x)) ∧ (2 ≤ 10 ∧ 10 < 2 ^ 64 ∧ 3 ≤ 2 ^ 24 ∧ (500 : Int) ≠ 0 ∧
    |(500 : Int)| < ((10 ^ 3 : Nat) : Int)) ∧
    roundFract 10 .halfEven coarseNone 2 500 3 = .NoOp ∧ roundFract 10 .halfAway coarseNone 2 500 3 = .AddOne :=
  ⟨libm_hypothesis_satisfiable, by decide, by decide⟩

/-! ### both `f32` estimators as concrete functions meet the oracle hypotheses (second item of round 7)

  BOTH `f32` estimators of the float rounding code as
  concrete functions — the coarse test of `round_fract` and `Repr::digits_ub`, each with `log2_bounds` = its model and every
  operation `rne32`, clamped outside the region where the model describes the code (as `lbClamp` / `ubClamp` do) — meet the
  oracle hypotheses `CoarseSound` / `DubSound` of every theorem of `Props/C10` from (LIBM) alone; hence the integer roundings
  of `FBig` and `repr_round` / `with_precision` hold for THESE estimators without any oracle hypothesis.
-/

/-- the closure `test` of `round_fract` with `log2_bounds` = its model on the region `2 ≤ B < 2⁶⁴`, `0 < |fract| < B^k`,
    `k ≤ 2²⁴` (where `precision as f32` is exact); beyond the region the oracle that never decides -/
noncomputable def coarseLibm (log2f : ℝ → ℝ) : Coarse := fun B fmag k =>
  if 2 ≤ B ∧ B < 2 ^ 64 ∧ 0 < fmag ∧ fmag < B ^ k ∧ k ≤ 2 ^ 24 then
    coarseIEEE (log2LbModel log2f) (log2UbModel log2f) B fmag k
  else none

/-- `Repr::<B>::digits_ub` (0 for a zero significand; `log2_bounds(signif).1`, `LOG10_2`, `log2_bounds(B).0` = their models) for
    significands of at most `2³⁰` bits and `2²⁴ + 1` digits; beyond, the exact digit count -/
noncomputable def dubLibm (log2f : ℝ → ℝ) (B : Nat) : Int → Nat := fun v =>
  if v = 0 then 0
  else if Nat.log2 v.natAbs + 1 ≤ 2 ^ 30 ∧ digits B v.natAbs - 1 ≤ 2 ^ 24 then
    digitsUbReal B rne32 (log2UbModel log2f v.natAbs) log10_2_f32 (log2LbStd log2f B)
  else digitsI B v

/-- on the region the clamped test IS the test of the source -/
theorem coarseLibm_eq (log2f : ℝ → ℝ) (B fmag k : Nat) (hB : 2 ≤ B) (hBw : B < 2 ^ 64) (hf : 0 < fmag) (hlt : fmag < B ^ k)
    (hk : k ≤ 2 ^ 24) : coarseLibm log2f B fmag k = coarseIEEE (log2LbModel log2f) (log2UbModel log2f) B fmag k := by
  unfold coarseLibm; rw [if_pos ⟨hB, hBw, hf, hlt, hk⟩]

/-- on the region the clamped estimate IS `digits_ub` of the source -/
theorem dubLibm_eq (log2f : ℝ → ℝ) (B : Nat) (v : Int) (hv : v ≠ 0) (hbits : Nat.log2 v.natAbs + 1 ≤ 2 ^ 30)
    (hsmall : digits B v.natAbs - 1 ≤ 2 ^ 24) :
    dubLibm log2f B v = digitsUbReal B rne32 (log2UbModel log2f v.natAbs) log10_2_f32 (log2LbStd log2f B) := by
  unfold dubLibm; rw [if_neg hv, if_pos ⟨hbits, hsmall⟩]

/-- **both oracle hypotheses of `Props/C10` from (LIBM) alone**, every base of at most `2²⁴` bits (all bases held in a word) -/
theorem estimators_sound_libm (log2f : ℝ → ℝ) (h : Log2fSound log2f) (B : Nat) (hB : 2 ≤ B) (hBw : Nat.log2 B + 1 ≤ 2 ^ 24) :
    CoarseSound (coarseLibm log2f) ∧ DubSound B (dubLibm log2f B) := by
  constructor
  · intro B' f k o hdec
    unfold coarseLibm at hdec
    by_cases hr : 2 ≤ B' ∧ B' < 2 ^ 64 ∧ 0 < f ∧ f < B' ^ k ∧ k ≤ 2 ^ 24
    · rw [if_pos hr] at hdec
      exact coarse_test_sound_libm log2f h B' f k hr.1 hr.2.1 hr.2.2.1 hr.2.2.2.1 hr.2.2.2.2 o hdec
    · rw [if_neg hr] at hdec; cases hdec
  · intro v
    unfold dubLibm
    by_cases hv : v = 0
    · subst hv; simp [digitsI, digits_zero]
    · rw [if_neg hv]
      by_cases hr : Nat.log2 v.natAbs + 1 ≤ 2 ^ 30 ∧ digits B v.natAbs - 1 ≤ 2 ^ 24
      · rw [if_pos hr]
        exact digits_ub_sound_libm log2f h B hB hBw v.natAbs (Int.natAbs_pos.mpr hv) hr.1 hr.2
      · rw [if_neg hr]

/-- **the integer roundings of `FBig` with the `f32` estimators of the source, from (LIBM) alone**: for a float with
    fractional digits (`exp < 0`), `trunc` / `floor` / `ceil` / `round` / `to_int` name the neighbour the method (resp. the
    mode) defines, `to_int` is flagged inexact — `Props/C10.{trunc,floor,ceil,round,to_int}_correct` without oracle hypotheses -/
theorem fbig_int_roundings_libm (log2f : ℝ → ℝ) (h : Log2fSound log2f) (B : Nat) (hB : 2 ≤ B) (hBw : Nat.log2 B + 1 ≤ 2 ^ 24)
    (x : FBigM) (he : x.repr.exp < 0) :
    (∃ t : Int, (fTrunc B (dubLibm log2f B) x).repr.toRat B = (t : ℚ) ∧ IsTowardZero x.repr.signif (pointUnit B x.repr) t) ∧
    (∃ t : Int, (fFloor B (coarseLibm log2f) (dubLibm log2f B) x).repr.toRat B = (t : ℚ) ∧
      IsFloor x.repr.signif (pointUnit B x.repr) t) ∧
    (x.repr.signif ≠ 0 → ∃ t : Int, (fCeil B (coarseLibm log2f) (dubLibm log2f B) x).repr.toRat B = (t : ℚ) ∧
      IsCeil x.repr.signif (pointUnit B x.repr) t) ∧
    (∃ t : Int, (fRound B (coarseLibm log2f) (dubLibm log2f B) x).repr.toRat B = (t : ℚ) ∧
      IsNearestAway x.repr.signif (pointUnit B x.repr) t) ∧
    (∀ m : Mode, ModeSpec m x.repr.signif (pointUnit B x.repr) (fToInt B m (coarseLibm log2f) (dubLibm log2f B) x).1 ∧
      (fToInt B m (coarseLibm log2f) (dubLibm log2f B) x).2 ≠ none) := by
  obtain ⟨hc, hd⟩ := estimators_sound_libm log2f h B hB hBw
  exact ⟨Dashu.Props.C10.trunc_correct B hB _ hd x he, Dashu.Props.C10.floor_correct B hB _ hc _ hd x he,
    fun hs0 => Dashu.Props.C10.ceil_correct B hB _ hc _ hd x he hs0, Dashu.Props.C10.round_correct B hB _ hc _ hd x he,
    fun m => Dashu.Props.C10.to_int_correct B hB _ hc _ hd x he m⟩

/-- the flag of `to_int` tells the truth, with the estimators of the source (`Props/C10.to_int_contract`) -/
theorem to_int_contract_libm (log2f : ℝ → ℝ) (h : Log2fSound log2f) (B : Nat) (hB : 2 ≤ B) (hBw : Nat.log2 B + 1 ≤ 2 ^ 24)
    (m : Mode) (x : FBigM) (he : x.repr.exp < 0) (hn : x.repr.signif % (B : Int) ≠ 0) :
    IContract m (pointUnit B x.repr) x.repr.signif
      ((fToInt B m (coarseLibm log2f) (dubLibm log2f B) x).1 * pointUnit B x.repr)
      (fToInt B m (coarseLibm log2f) (dubLibm log2f B) x).2 :=
  Dashu.Props.C10.to_int_contract B hB m _ (estimators_sound_libm log2f h B hB hBw).1 _
    (estimators_sound_libm log2f h B hB hBw).2 x he hn

/-- rounding to fewer digits with the coarse test of the source: `repr_round` and `with_precision` honour the contract -/
theorem repr_round_contract_libm (log2f : ℝ → ℝ) (h : Log2fSound log2f) (B : Nat) (hB : 2 ≤ B) (m : Mode)
    (p : Nat) (hp : 1 ≤ p) (r : FRepr) (hn : Normalized B r) :
    Contract B m p (r.toRat B) ((reprRound B m (coarseLibm log2f) p r).1.toRat B) (reprRound B m (coarseLibm log2f) p r).2 :=
  Dashu.Props.C10.repr_round_contract B hB m _ (estimators_sound_libm log2f h 2 (le_refl 2) (by decide)).1 p hp r hn

/-- non-vacuity: (LIBM) satisfiable; decimal −12.75 (5 digits of precision) meets the hypotheses of the three theorems, and its
    significand lies in the region where `dubLibm` is `digits_ub` of the source -/
example : Log2fSound (fun x => rne32 (Real.logb 2 x)) ∧
    ((2 ≤ 10 ∧ Nat.log2 10 + 1 ≤ 2 ^ 24 ∧ (⟨⟨-1275, -2⟩, 5⟩ : FBigM).repr.exp < 0 ∧
      (⟨⟨-1275, -2⟩, 5⟩ : FBigM).repr.signif % ((10 : Nat) : Int) ≠ 0 ∧ (-1275 : Int) ≠ 0 ∧
      Nat.log2 (-1275 : Int).natAbs + 1 ≤ 2 ^ 30 ∧ digits 10 (-1275 : Int).natAbs - 1 ≤ 2 ^ 24) ∧ Normalized 10 ⟨12345, -2⟩) :=
  ⟨libm_hypothesis_satisfiable, by decide, by unfold Normalized; decide⟩

end Dashu.Props.C10Libm
