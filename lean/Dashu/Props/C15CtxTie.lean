import Dashu.Props.C15FloatAdd
import Dashu.Proofs.Float.Review
/-
  C15, clause "the operator forms agree with the Context method at the same precision", for `+` and `-`, ON THE REGENERATED TEXT:
  the four hand-written variants `add_val_val / add_val_ref / add_ref_val / add_ref_ref` of float/src/add.rs and
  `Context::add` / `Context::sub`, all AS REGENERATED into Gen/FloatAdd.lean on this run, return the same value (and the same
  panic) at `Context::max` of the operand contexts — for all operands.  Before /repo 164990d this was false (zero-operand
  shortcut unrounded); a change of either text that separates them breaks this theorem, not only the sampled correspondence.
-/
set_option linter.unusedSimpArgs false
namespace Dashu.Props.C15CtxTie
open Dashu Dashu.Gen Dashu.GluePrelude Dashu.Proofs.Gen Dashu.Model.Float Dashu.Props.GenFloatOps Dashu.Props.GenFloatAdd
  Dashu.Props.GenFloatForms Dashu.Props.C15FloatAdd

theorem formValue_eq_opAddSub : @formValue = @Model.Float.opAddSub := rfl

theorem value_map_toGA (f : GluePrelude.FRepr → GluePrelude.FBig) (r : Rounded Model.Float.FRepr) :
    Approx.value (Approx.map f (toGA toG r)) = f (toG r.1) := by
  obtain ⟨v, fl⟩ := r
  cases fl <;> rfl

/-- `&a + &b` as regenerated = the value of `Context::add` as regenerated, called at `Context::max(a.context, b.context)` -/
theorem add_ref_ref_eq_context_add (B : Nat) (m : Mode) (c : Coarse) (dub : Int → Nat)
    (ls le : Int) (pl : Nat) (rs re : Int) (pr : Nat) :
    add_ref_ref (modelK B m c dub) ⟨⟨ls, le⟩, ⟨(pl : Int)⟩⟩ ⟨⟨rs, re⟩, ⟨(pr : Int)⟩⟩ .Positive =
      (Context_add (modelK B m c dub) ⟨((Nat.max pl pr : Nat) : Int)⟩ ⟨ls, le⟩ ⟨rs, re⟩).map Approx.value := by
  rw [add_ref_ref_is_model, context_add_is_model, formValue_eq_opAddSub]
  simp only [rsI]
  rw [opAddSub_eq_ctx_all B m c dub _ _ _ _ (Or.inl rfl)]
  split
  · rfl
  · simp only [Except.map, value_map_toGA, rsI]

/-- `&a - &b` as regenerated = the value of `Context::sub` as regenerated at `Context::max` -/
theorem sub_ref_ref_eq_context_sub (B : Nat) (m : Mode) (c : Coarse) (dub : Int → Nat)
    (ls le : Int) (pl : Nat) (rs re : Int) (pr : Nat) :
    add_ref_ref (modelK B m c dub) ⟨⟨ls, le⟩, ⟨(pl : Int)⟩⟩ ⟨⟨rs, re⟩, ⟨(pr : Int)⟩⟩ .Negative =
      (Context_sub (modelK B m c dub) ⟨((Nat.max pl pr : Nat) : Int)⟩ ⟨ls, le⟩ ⟨rs, re⟩).map Approx.value := by
  rw [add_ref_ref_is_model, context_sub_is_model, formValue_eq_opAddSub]
  simp only [rsI]
  rw [opAddSub_eq_ctx_all B m c dub _ _ _ _ (Or.inr rfl)]
  split
  · rfl
  · simp only [Except.map, value_map_toGA, rsI]

/-- **all four variants of `FBig ± FBig` = the Context method at Context::max, on the regenerated text, for all operands** -/
theorem float_addsub_forms_eq_context (B : Nat) (m : Mode) (c : Coarse) (dub : Int → Nat) (hdub : ∀ x, dub (-x) = dub x)
    (ls le : Int) (pl : Nat) (rs re : Int) (pr : Nat) (sg : Sign)
    (f : GluePrelude.FloatK Unit → GluePrelude.FBig → GluePrelude.FBig → Sign → Except GluePrelude.Panic GluePrelude.FBig)
    (hf : f = add_val_val ∨ f = add_val_ref ∨ f = add_ref_val ∨ f = add_ref_ref) :
    f (modelK B m c dub) ⟨⟨ls, le⟩, ⟨(pl : Int)⟩⟩ ⟨⟨rs, re⟩, ⟨(pr : Int)⟩⟩ sg =
      ((match sg with
        | .Positive => Context_add (modelK B m c dub) ⟨((Nat.max pl pr : Nat) : Int)⟩ ⟨ls, le⟩ ⟨rs, re⟩
        | .Negative => Context_sub (modelK B m c dub) ⟨((Nat.max pl pr : Nat) : Int)⟩ ⟨ls, le⟩ ⟨rs, re⟩).map Approx.value) := by
  obtain ⟨h1, h2, h3⟩ := float_add_forms_agree B m c dub hdub ls le pl rs re pr sg
  have hrr : add_ref_ref (modelK B m c dub) ⟨⟨ls, le⟩, ⟨(pl : Int)⟩⟩ ⟨⟨rs, re⟩, ⟨(pr : Int)⟩⟩ sg =
      ((match sg with
        | .Positive => Context_add (modelK B m c dub) ⟨((Nat.max pl pr : Nat) : Int)⟩ ⟨ls, le⟩ ⟨rs, re⟩
        | .Negative => Context_sub (modelK B m c dub) ⟨((Nat.max pl pr : Nat) : Int)⟩ ⟨ls, le⟩ ⟨rs, re⟩).map Approx.value) := by
    cases sg
    · exact add_ref_ref_eq_context_add B m c dub ls le pl rs re pr
    · exact sub_ref_ref_eq_context_sub B m c dub ls le pl rs re pr
  rcases hf with rfl | rfl | rfl | rfl
  · rw [h1, hrr]
  · rw [h2, hrr]
  · rw [h3, hrr]
  · exact hrr

-- non-vacuity, on the witness of the repaired defect: 0 (p = 2) + 74565 (unlimited) — every variant and Context::add give 75e3
example : add_val_val (modelK 10 .halfAway coarseNone (fun v => v.natAbs)) ⟨⟨0, 0⟩, ⟨(2 : Nat)⟩⟩ ⟨⟨74565, 0⟩, ⟨(0 : Nat)⟩⟩ .Positive =
    (Context_add (modelK 10 .halfAway coarseNone (fun v => v.natAbs)) ⟨((Nat.max 2 0 : Nat) : Int)⟩ ⟨0, 0⟩ ⟨74565, 0⟩).map Approx.value :=
  float_addsub_forms_eq_context 10 .halfAway coarseNone (fun v => v.natAbs) (dub_of_magnitude id) 0 0 2 74565 0 0 .Positive
    add_val_val (Or.inl rfl)

end Dashu.Props.C15CtxTie
