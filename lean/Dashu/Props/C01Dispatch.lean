import Dashu.Model.Int.OpsForms
import Dashu.Model.Int.PowGuard
import Dashu.Proofs.Int.PowFull
import Dashu.Proofs.Int.Cmp
import Dashu.Proofs.Int.MulCompose
import Dashu.Proofs.Int.Ops
import Dashu.Proofs.Int.PowBuf
/-
  C01, Tie A for the operator dispatch.  `Dashu.Gen.IntDispatch` is rewritten from `integer/src/add_ops.rs`
  (`mod repr`, `mod repr_signed`) and `integer/src/mul_ops.rs` (`mod repr`, the public `sqr` / `cubic`) on every run:
  one definition per ownership form of `Add`, `Sub`, `SubSigned`, `Mul` on `TypedRepr` / `TypedReprRef`.
  Here: (1) the hand-written dispatch of the model (`TRepr.add/sub/subSigned/mul` with their `form` arguments, the
  functions all other C01 theorems are about) IS that regenerated dispatch over the mirrored kernels; (2) every
  ownership form returns the same exact canonical result — in particular the `UBig − UBig` underflow panic in all four
  forms, as one theorem; (3) the public `sqr` / `cubic` of `UBig` / `IBig` in the regenerated shape are exact.
  A change of an arm in the source (another callee, exchanged arguments, a dropped `.neg()`) changes the generated text
  and breaks (1).
-/
namespace Dashu.Props.C01Dispatch
open Dashu.Model Dashu.Gen

-- ====================================================================== (1) model dispatch = regenerated dispatch

/-- `+`: the `form` argument of `TRepr.add` (0 = ref/ref and val/val, 1 = ref/val) selects exactly the regenerated
    impls; the val/ref impl is `rhs.add(self)`, i.e. the ref/val impl with the operands exchanged -/
theorem add_dispatch_regenerated (W : Nat) (a b : TRepr) :
    TRepr.addF W .refRef a b = a.add W b 0 ∧ TRepr.addF W .valVal a b = a.add W b 0 ∧
    TRepr.addF W .refVal a b = a.add W b 1 ∧ TRepr.addF W .valRef a b = b.add W a 1 := by
  refine ⟨?_, ?_, ?_, ?_⟩ <;> cases a <;> cases b <;> rfl

/-- `-` on `UBig` magnitudes: three impls reach `sub_large`, the ref/val impl reaches `sub_large_ref_val` -/
theorem sub_dispatch_regenerated (W : Nat) (a b : TRepr) :
    TRepr.subF W .refRef a b = a.sub W b false ∧ TRepr.subF W .valRef a b = a.sub W b false ∧
    TRepr.subF W .valVal a b = a.sub W b false ∧ TRepr.subF W .refVal a b = a.sub W b true := by
  refine ⟨?_, ?_, ?_, ?_⟩ <;> cases a <;> cases b <;> rfl

/-- `sub_signed` -/
theorem sub_signed_dispatch_regenerated (W : Nat) (a b : TRepr) :
    TRepr.subSignedF W .refRef a b = a.subSigned W b 0 ∧ TRepr.subSignedF W .valVal a b = a.subSigned W b 0 ∧
    TRepr.subSignedF W .refVal a b = a.subSigned W b 1 ∧ TRepr.subSignedF W .valRef a b = a.subSigned W b 2 := by
  refine ⟨?_, ?_, ?_, ?_⟩ <;> cases a <;> cases b <;> rfl

/-- `*`: three impls are `TRepr.mul`; the val/ref impl is `rhs.mul(self)`, i.e. `TRepr.mul` with the operands exchanged -/
theorem mul_dispatch_regenerated (W : Nat) (a b : TRepr) :
    TRepr.mulF W .refRef a b = a.mul W b ∧ TRepr.mulF W .refVal a b = a.mul W b ∧
    TRepr.mulF W .valVal a b = a.mul W b ∧ TRepr.mulF W .valRef a b = b.mul W a := by
  refine ⟨?_, ?_, ?_, ?_⟩ <;> cases a <;> cases b <;> rfl

/-- `mul_dword`'s one-word test (`a <= Word::MAX && b <= Word::MAX`) and `mul_dword_spilled` as regenerated = the model's
    `mulDword` -/
theorem mul_dword_regenerated (W a b : Nat) :
    mulDword W a b
      = IntDispatch.mul_dword TRepr.small
          (IntDispatch.dword_spilled (mulAddCarryDword W) (fun c => (c % 2 ^ W, c / 2 ^ W)) (fromBuffer W))
          (2 ^ W - 1) a b := by
  have hp := Nat.two_pow_pos W
  have hiff : (a < 2 ^ W ∧ b < 2 ^ W) ↔ (a ≤ 2 ^ W - 1 ∧ b ≤ 2 ^ W - 1) := by omega
  unfold mulDword IntDispatch.mul_dword IntDispatch.dword_spilled
  by_cases h : a < 2 ^ W ∧ b < 2 ^ W
  · rw [if_pos h, if_pos (hiff.1 h)]
  · rw [if_neg h, if_neg (fun h' => h (hiff.2 h'))]

/-- `TypedReprRef::sqr` (`shrink_dword` test, `square_dword_spilled`, `square_large`) as regenerated = the model's `TRepr.sqr` -/
theorem repr_sqr_regenerated (W : Nat) (a : TRepr) :
    a.sqr W
      = IntDispatch.repr_sqr TRepr.small
          (fun d => IntDispatch.dword_spilled (mulAddCarryDword W) (fun c => (c % 2 ^ W, c / 2 ^ W)) (fromBuffer W) d d)
          (squareLarge W) (2 ^ W - 1) a := by
  have hp := Nat.two_pow_pos W
  cases a with
  | small d =>
    simp only [TRepr.sqr, IntDispatch.repr_sqr, IntDispatch.dword_spilled]
    by_cases h : d < 2 ^ W
    · rw [if_pos h, if_pos (show d ≤ 2 ^ W - 1 by omega)]
    · rw [if_neg h, if_neg (show ¬ d ≤ 2 ^ W - 1 by omega)]
  | large ws => rfl

/-- `mul_large_dword` (multiplier 0 / 1 / one word: power of two ⇒ `shl_in_place` by `trailing_zeros`, else
    `mul_word_in_place`, carry word pushed / two words: `mul_dword_in_place`, the carry's two words pushed only if non-zero)
    as regenerated = the model's `mulLargeDword` (which writes the shift amount of a power of two as `log2`) -/
theorem mul_large_dword_regenerated (W : Nat) (buffer : List Nat) (rhs : Nat) :
    mulLargeDword W buffer rhs
      = IntDispatch.mul_large_dword (.small 0) (fromBuffer W) isPow2 trailingZeros
          (fun b s => shlInPlace W b s 0) (fun b w => mulWordInPlace W b w 0) (fun b d => mulDwordInPlace W b d 0)
          (fun c => (c % 2 ^ W, c / 2 ^ W)) (2 ^ W - 1) buffer rhs := by
  have hp := Nat.two_pow_pos W
  rcases rhs with _ | _ | n
  · rfl
  · rfl
  · unfold mulLargeDword IntDispatch.mul_large_dword
    rw [if_neg (show ¬ n + 1 + 1 = 0 by omega), if_neg (show ¬ n + 1 + 1 = 1 by omega)]
    simp only
    by_cases h : n + 1 + 1 < 2 ^ W
    · rw [if_pos h, if_pos (show n + 1 + 1 ≤ 2 ^ W - 1 by omega)]
      by_cases hpow : isPow2 (n + 1 + 1) = true
      · have hlog : Nat.log2 (n + 1 + 1) = trailingZeros (n + 1 + 1) := by
          have he := isPow2_eq (n + 1 + 1) hpow
          conv => rhs; rw [he]
          rw [trailingZeros_two_pow]
        simp only [hpow, if_true, hlog]
      · simp only [hpow, if_false, Bool.false_eq_true]
    · rw [if_neg h, if_neg (show ¬ n + 1 + 1 ≤ 2 ^ W - 1 by omega)]
      by_cases hc : (mulDwordInPlace W buffer (n + 1 + 1) 0).2 = 0
      · simp only [hc, if_true, ne_eq, not_true_eq_false, if_false]
      · simp only [hc, if_false, ne_eq, not_false_eq_true, if_true]

/-- `mul_large` as regenerated (equal operands ⇒ `square_large(lhs)`; otherwise `mul::multiply` into a zero-filled
    buffer of `lhs.len() + rhs.len()` words, then `from_buffer`) = the model's `mulLarge`; `cmp_in_place(..).is_eq()` on
    two word slices is equality of the lists -/
theorem mul_large_regenerated (W : Nat) (lhs rhs : List Nat) :
    mulLarge W lhs rhs
      = IntDispatch.mul_large (fun l r => decide (l = r)) (squareLarge W)
          (fun resLen _ _ l r => fromBuffer W (addSignedMul W resLen (List.replicate resLen 0) false l r).1)
          lhs rhs := by
  unfold mulLarge IntDispatch.mul_large
  by_cases h : lhs = rhs
  · simp [h]
  · simp [h]

/-- **link to C05** (which owns `cmp.rs`): `cmp_in_place(lhs, rhs).is_eq()` computed by C05's mirrored `cmpInPlace`
    (length first, then `cmp_same_len` from the top word down) is equality of the word lists, so the equal-operands
    shortcut of `mul_large` in the model (`lhs = rhs`) is the test the code performs -/
theorem cmp_in_place_is_eq (W : Nat) (lhs rhs : List Nat) (hl : IsWords W lhs) (hr : IsWords W rhs) :
    (cmpInPlace lhs rhs == .eq) = decide (lhs = rhs) := by
  unfold cmpInPlace
  by_cases hlen : lhs.length = rhs.length
  · rw [hlen, Nat.compare_eq_eq.mpr rfl, Ordering.eq_then]
    rw [cmpSameLen_spec W lhs rhs hl hr hlen]
    by_cases he : lhs = rhs
    · subst he; simp
    · have hv : val W lhs ≠ val W rhs := fun h => he (val_inj W lhs rhs hl hr hlen h)
      have : compare (val W lhs) (val W rhs) ≠ .eq := fun h => hv (Nat.compare_eq_eq.mp h)
      simp [he]
      cases hc : compare (val W lhs) (val W rhs) <;> simp_all
  · have he : lhs ≠ rhs := fun h => hlen (by rw [h])
    have hc : compare lhs.length rhs.length ≠ .eq := fun h => hlen (Nat.compare_eq_eq.mp h)
    simp [he]
    cases h : compare lhs.length rhs.length <;> simp_all [Ordering.then]

/-- `mul_large` as regenerated, with C05's `cmp_in_place` as the comparison -/
theorem mul_large_regenerated_cmp (W : Nat) (lhs rhs : List Nat) (hl : IsWords W lhs) (hr : IsWords W rhs) :
    mulLarge W lhs rhs
      = IntDispatch.mul_large (fun l r => cmpInPlace l r == .eq) (squareLarge W)
          (fun resLen _ _ l r => fromBuffer W (addSignedMul W resLen (List.replicate resLen 0) false l r).1)
          lhs rhs := by
  rw [mul_large_regenerated]
  unfold IntDispatch.mul_large
  simp only [cmp_in_place_is_eq W lhs rhs hl hr]

/-- `sqr::MAX_LEN_SIMPLE`: the squaring dispatch of the model uses the constant regenerated from `sqr/mod.rs`, and takes
    `simple::square` exactly up to it -/
theorem sqr_max_len_simple_regenerated (W : Nat) (a : List Nat) :
    sqrMaxLenSimple = Dashu.Gen.sqr_MAX_LEN_SIMPLE ∧
    (a.length ≤ Dashu.Gen.sqr_MAX_LEN_SIMPLE → sqrBuffer W a = sqrSimple W a) ∧
    (Dashu.Gen.sqr_MAX_LEN_SIMPLE < a.length →
      sqrBuffer W a = (addSignedMulSameLen W a.length (List.replicate (2 * a.length) 0) false a a).1) := by
  refine ⟨rfl, fun h => ?_, fun h => ?_⟩
  · unfold sqrBuffer sqrMaxLenSimple; rw [if_pos h]
  · unfold sqrBuffer sqrMaxLenSimple; rw [if_neg (by omega)]

-- ====================================================================== (2) every ownership form, one result

theorem subF_eq (W : Nat) (f : OwnForm) (a b : TRepr) :
    TRepr.subF W f a b = a.sub W b (f == .refVal) := by
  obtain ⟨h1, h2, h3, h4⟩ := sub_dispatch_regenerated W a b
  cases f
  · exact h1
  · exact h4
  · exact h2
  · exact h3

/-- **`UBig − UBig` in all four ownership forms** (`TypedRepr`/`TypedReprRef` on either side, as regenerated from
    add_ops.rs): when `b ≤ a` all four return the SAME canonical representation of `a − b`; when `a < b` all four raise the
    documented panic (`panic_negative_ubig`), never a wrapped value -/
theorem u_sub_all_forms_exact (W : Nat) (a b : TRepr) (ha : a.Canon W) (hb : b.Canon W) :
    (b.value W ≤ a.value W →
      ∃ r, (∀ f, TRepr.subF W f a b = .ok r) ∧ r.value W = a.value W - b.value W ∧ r.Canon W) ∧
    (a.value W < b.value W → ∀ f, TRepr.subF W f a b = .error .negativeUBig) := by
  constructor
  · intro h
    obtain ⟨r, e, v, c⟩ := TRepr.sub_ok W a b false ha hb h
    refine ⟨r, fun f => ?_, by omega, c⟩
    rw [subF_eq]
    obtain ⟨r', e', v', c'⟩ := TRepr.sub_ok W a b (f == .refVal) ha hb h
    rw [e', canon_unique W r' r c' c (by omega)]
  · intro h f
    rw [subF_eq]
    exact TRepr.sub_err W a b _ ha hb h

/-- the subtraction succeeds in one form iff in all, iff it does not go below zero -/
theorem u_sub_all_forms_ok_iff (W : Nat) (a b : TRepr) (f : OwnForm) (ha : a.Canon W) (hb : b.Canon W) :
    (∃ r, TRepr.subF W f a b = .ok r) ↔ b.value W ≤ a.value W := by
  obtain ⟨h1, h2⟩ := u_sub_all_forms_exact W a b ha hb
  constructor
  · rintro ⟨r, hr⟩
    apply Nat.le_of_not_lt
    intro hlt
    rw [h2 hlt f] at hr
    cases hr
  · intro h
    obtain ⟨r, e, _⟩ := h1 h
    exact ⟨r, e f⟩

/-- **`UBig + UBig` in all four ownership forms**: the same canonical representation of the exact sum -/
theorem u_add_all_forms_exact (W : Nat) (hW : 1 ≤ W) (a b : TRepr) (ha : a.Canon W) (hb : b.Canon W) :
    ∃ r, (∀ f, TRepr.addF W f a b = r) ∧ r.value W = a.value W + b.value W ∧ r.Canon W := by
  obtain ⟨h1, h2, h3, h4⟩ := add_dispatch_regenerated W a b
  have s0 := TRepr.add_spec W hW a b 0 ha hb
  have s1 := TRepr.add_spec W hW a b 1 ha hb
  have s2 := TRepr.add_spec W hW b a 1 hb ha
  refine ⟨a.add W b 0, fun f => ?_, s0.1, s0.2⟩
  cases f
  · exact h1
  · rw [h3]; exact canon_unique W _ _ s1.2 s0.2 (by rw [s1.1, s0.1])
  · rw [h4]; exact canon_unique W _ _ s2.2 s0.2 (by rw [s2.1, s0.1, Nat.add_comm])
  · exact h2

/-- **`UBig × UBig` in all four ownership forms** (the val/ref impl multiplies in the other operand order): the same
    canonical representation of the exact product -/
theorem u_mul_all_forms_exact (W : Nat) (hW : 4 ≤ W) (a b : TRepr) (ha : a.Canon W) (hb : b.Canon W) :
    ∃ r, (∀ f, TRepr.mulF W f a b = r) ∧ r.value W = a.value W * b.value W ∧ r.Canon W := by
  obtain ⟨h1, h2, h3, h4⟩ := mul_dispatch_regenerated W a b
  have s := TRepr.mul_spec W hW a b ha hb
  have s' := TRepr.mul_spec W hW b a hb ha
  refine ⟨a.mul W b, fun f => ?_, s.1, s.2⟩
  cases f
  · exact h1
  · exact h2
  · rw [h4]; exact canon_unique W _ _ s'.2 s.2 (by rw [s'.1, s.1, Nat.mul_comm])
  · exact h3

/-- **`sub_signed` in all four ownership forms**: the exact signed difference, canonical, never "−0" -/
theorem sub_signed_all_forms_exact (W : Nat) (f : OwnForm) (a b : TRepr) (ha : a.Canon W) (hb : b.Canon W) :
    (TRepr.subSignedF W f a b).value W = (a.value W : Int) - b.value W ∧ (TRepr.subSignedF W f a b).WF W := by
  obtain ⟨h1, h2, h3, h4⟩ := sub_signed_dispatch_regenerated W a b
  cases f
  · rw [h1]; exact TRepr.subSigned_spec W a b 0 ha hb
  · rw [h3]; exact TRepr.subSigned_spec W a b 1 ha hb
  · rw [h4]; exact TRepr.subSigned_spec W a b 2 ha hb
  · rw [h2]; exact TRepr.subSigned_spec W a b 0 ha hb

-- ====================================================================== (3) public sqr / cubic

/-- **`UBig::sqr`, `UBig::cubic`** in the regenerated shape (`UBig(self.repr().sqr())`, `self * self.sqr()` through the
    ref/val impl of `Mul`): exact and canonical -/
theorem ubig_sqr_cubic_exact (W : Nat) (hW : 4 ≤ W) (a : TRepr) (ha : a.Canon W) :
    ((ubigSqr W a).value W = a.value W * a.value W ∧ (ubigSqr W a).Canon W) ∧
    ((ubigCubic W a).value W = a.value W * a.value W * a.value W ∧ (ubigCubic W a).Canon W) := by
  have hs := TRepr.sqr_spec W hW a ha
  have hm := TRepr.mul_spec W hW a (a.sqr W) ha hs.2
  have e : ubigCubic W a = a.mul W (a.sqr W) := (mul_dispatch_regenerated W a (a.sqr W)).2.1
  refine ⟨hs, ?_, ?_⟩
  · rw [e, hm.1, hs.1, Nat.mul_assoc]
  · rw [e]; exact hm.2

/-- **`IBig::sqr`** (a `UBig`: the sign is dropped) and **`IBig::cubic`** (`&IBig * UBig` with `impl_ibig_mul`:
    sign `sign0 * Positive`): exact, canonical, never "−0" -/
theorem ibig_sqr_cubic_exact (W : Nat) (hW : 4 ≤ W) (a : SRepr) (ha : a.WF W) :
    (((ibigSqr W a).value W : Int) = a.value W * a.value W ∧ (ibigSqr W a).Canon W) ∧
    ((ibigCubic W a).value W = a.value W * a.value W * a.value W ∧ (ibigCubic W a).WF W) := by
  have hs := TRepr.sqr_spec W hW a.mag ha.1
  have hsq : (((a.mag.sqr W).value W : Nat) : Int) = a.value W * a.value W := by
    rw [hs.1]; unfold SRepr.value; cases a.neg <;> simp
  have hwf : (SRepr.mk false (a.mag.sqr W)).WF W := ⟨hs.2, by simp⟩
  have hm := ibigMul_spec W hW a ⟨false, a.mag.sqr W⟩ ha hwf
  have e : ibigCubic W a = ibigMul W a ⟨false, a.mag.sqr W⟩ := by
    show withSign (TRepr.mulF W .refVal a.mag (a.mag.sqr W)) (a.neg != false) = _
    rw [(mul_dispatch_regenerated W a.mag (a.mag.sqr W)).2.1]; rfl
  refine ⟨⟨hsq, hs.2⟩, ?_, ?_⟩
  · rw [e, hm.1]
    have : (SRepr.mk false (a.mag.sqr W)).value W = a.value W * a.value W := by
      simp only [SRepr.value]; exact hsq
    rw [this, Int.mul_assoc]
  · rw [e]; exact hm.2

-- ====================================================================== (4) pow with the allocation guard of `<<`

/-- the driver's closed-form specification of `pow` for `|x| ≤ 1` (needed to drive `usize::MAX` exponents) is `x ^ n` -/
theorem spec_pow_eq (x : Int) (y n : Nat) : specPowInt x n = x ^ n ∧ specPowNat y n = y ^ n := by
  constructor
  · unfold specPowInt
    split
    · rename_i h; subst h
      cases n with
      | zero => simp
      | succ k => simp
    · split
      · rename_i h; subst h; simp
      · split
        · rename_i h; subst h
          rcases Nat.mod_two_eq_zero_or_one n with h | h
          · rw [if_pos h]
            obtain ⟨k, rfl⟩ : ∃ k, n = 2 * k := ⟨n / 2, by omega⟩
            rw [pow_mul]; simp
          · rw [if_neg (by omega)]
            obtain ⟨k, rfl⟩ : ∃ k, n = 2 * k + 1 := ⟨n / 2, by omega⟩
            rw [pow_succ, pow_mul]; simp
        · rfl
  · unfold specPowNat
    split
    · rename_i h; subst h
      cases n with
      | zero => simp
      | succ k => simp
    · split
      · rename_i h; subst h; simp
      · rfl

/-- `TypedRepr << n` with `Buffer::allocate`'s check: the shifted value, or the documented allocation panic — the
    latter exactly when the number of words `shl_one_spilled` / `shl_dword_spilled` / `shl_large_ref` ask for exceeds
    `Buffer::MAX_CAPACITY` -/
theorem shl_checked_exact (W : Nat) (r : TRepr) (n : Nat) :
    ((∃ k, shlAllocateWords W r n = some k ∧ bufMaxCapacity W < k) → r.shlChecked W n = .error .allocTooMuch) ∧
    ((∀ k, shlAllocateWords W r n = some k → k ≤ bufMaxCapacity W) → r.shlChecked W n = .ok (r.shl W n)) := by
  unfold TRepr.shlChecked
  constructor
  · rintro ⟨k, hk, hlt⟩
    rw [hk]; simp [hlt]
  · intro h
    cases hk : shlAllocateWords W r n with
    | none => rfl
    | some k =>
      have := h k hk
      simp only
      rw [if_neg (by omega)]

/-- the result-buffer check of `pow_word_base` / `pow_dword_base`: the buffer-level pow, or the allocation panic -/
theorem powBufG_cases (W : Nat) (x : TRepr) (exp : Nat) :
    x.powBufG W exp = x.powBuf W exp ∨ x.powBufG W exp = .error .allocTooMuch := by
  unfold TRepr.powBufG
  by_cases h : powBufAllocPanics W x exp = true
  · right; rw [if_pos h]
  · left; rw [if_neg h]

/-- the guarded pow is the unguarded one (`ubigPowFull`, proved exact) or the allocation panic -/
theorem ubigPowGuarded_cases (W : Nat) (a : TRepr) (exp : Nat) :
    ubigPowGuarded W a exp = ubigPowFull W a exp ∨ ubigPowGuarded W a exp = .error .allocTooMuch := by
  unfold ubigPowGuarded ubigPowFull
  cases a.trailingZeros W with
  | error e => left; rfl
  | ok tz =>
    simp only [bind, Except.bind]
    by_cases hs : tz.getD 0 ≠ 0
    · rw [if_pos hs, if_pos hs]
      by_cases ho : 2 ^ usizeBits ≤ exp * tz.getD 0
      · rw [if_pos ho, if_pos ho]; left; rfl
      · rw [if_neg ho, if_neg ho]
        rcases powBufG_cases W (a.shr W (tz.getD 0) true) exp with hg | hg
        · rw [hg]
          cases (a.shr W (tz.getD 0) true).powBuf W exp with
          | error e => left; rfl
          | ok r =>
            simp only
            unfold TRepr.shlChecked
            cases shlAllocateWords W r (exp * tz.getD 0) with
            | none => left; rfl
            | some k =>
              simp only
              by_cases hk : bufMaxCapacity W < k
              · rw [if_pos hk]; right; rfl
              · rw [if_neg hk]; left; rfl
        · rw [hg]; right; rfl
    · rw [if_neg hs, if_neg hs]
      exact powBufG_cases W a exp

/-- **`UBig::pow` exactly as the driver runs it** (mirrored kernels, real buffers, `exp.checked_mul(shift)`, the
    `Buffer::allocate` checks of the result buffer and of the final `<<`), for EVERY base and every `usize` exponent: the
    canonical representation of `base ^ exp`, or the documented allocation panic — never another panic or value
    (the panic class is characterised by `u_pow_guarded_iff`) -/
theorem u_pow_guarded_exact (W : Nat) (hW : 4 ≤ W) (a : TRepr) (exp : Nat) (ha : a.Canon W) :
    (∃ r, ubigPowGuarded W a exp = .ok r ∧ r.value W = a.value W ^ exp ∧ r.Canon W) ∨
    ubigPowGuarded W a exp = .error .allocTooMuch := by
  rcases ubigPowGuarded_cases W a exp with h | h
  · rw [h, ubigPowFull_eq W hW a exp ha]
    obtain ⟨h1, h2⟩ := ubigPowKernels_spec W hW a exp ha
    cases ho : powShiftOverflows (a.value W) exp with
    | true => right; exact h1 ho
    | false => left; exact h2 ho
  · right; exact h

/-- the panic class of `UBig::pow`, as a predicate on VALUES (`s` = trailing zero bits of the base, `o = v / 2^s` its odd
    part, in its canonical representation): the result buffer of `pow_word_base` / `pow_dword_base` for `o ^ exp` would
    exceed `MAX_CAPACITY` words; or `s > 0` and `exp * s` does not fit `usize`; or `s > 0` and shifting `o ^ exp` left by
    `exp * s` bits asks `Buffer::allocate` for more than `MAX_CAPACITY` words -/
def powAllocPanics (W v exp : Nat) : Bool :=
  powBufAllocPanics W (ofNat W (v / 2 ^ trailingZeros v)) exp ||
    (trailingZeros v != 0 &&
      (decide (2 ^ usizeBits ≤ exp * trailingZeros v) ||
        match shlAllocateWords W (ofNat W ((v / 2 ^ trailingZeros v) ^ exp)) (exp * trailingZeros v) with
        | some k => decide (bufMaxCapacity W < k)
        | none => false))

/-- **`UBig::pow` as the driver runs it, complete characterisation**: the documented allocation panic exactly on the
    class `powAllocPanics` (a condition on the mathematical values only), and otherwise the canonical representation
    of `base ^ exp` — for every base and every `usize` exponent -/
theorem u_pow_guarded_iff (W : Nat) (hW : 4 ≤ W) (a : TRepr) (exp : Nat) (ha : a.Canon W) :
    (powAllocPanics W (a.value W) exp = true → ubigPowGuarded W a exp = .error .allocTooMuch) ∧
    (powAllocPanics W (a.value W) exp = false →
      ∃ r, ubigPowGuarded W a exp = .ok r ∧ r.value W = a.value W ^ exp ∧ r.Canon W) := by
  have hW1 : 1 ≤ W := by omega
  obtain ⟨tz0, tz1⟩ := TRepr.trailingZeros_spec W a ha
  have hpbG : ∀ x : TRepr, x.Canon W → x.powBufG W exp =
      if powBufAllocPanics W x exp = true then .error .allocTooMuch else .ok (x.pow W exp) := by
    intro x hx; unfold TRepr.powBufG; rw [TRepr.powBuf_eq W hW x exp hx]
  have hp := TRepr.pow_spec W hW a exp ha
  by_cases hs0 : trailingZeros (a.value W) = 0
  · -- no factor 2 (or zero): `self.repr().pow(exp)`
    have hshift : ∃ tz : Option Nat, a.trailingZeros W = .ok tz ∧ tz.getD 0 = 0 := by
      by_cases hz : a.value W = 0
      · exact ⟨none, tz0 hz, rfl⟩
      · obtain ⟨k, hk, hkz⟩ := tz1 hz
        have hkt : k = trailingZeros (a.value W) := IsTz.unique hkz (isTz_trailingZeros _ hz)
        exact ⟨some k, hk, by simp [hkt, hs0]⟩
    obtain ⟨tz, htz, hget⟩ := hshift
    have hg : ubigPowGuarded W a exp = a.powBufG W exp := by
      simp [ubigPowGuarded, htz, bind, Except.bind, hget]
    have hao : ofNat W (a.value W / 2 ^ trailingZeros (a.value W)) = a := by
      rw [hs0, Nat.pow_zero, Nat.div_one]
      exact canon_unique W _ _ (ofNat_canon W hW1 _) ha (ofNat_value W hW1 _)
    have hcl : powAllocPanics W (a.value W) exp = powBufAllocPanics W a exp := by
      unfold powAllocPanics; rw [hao, hs0]; simp
    rw [hg, hcl, hpbG a ha]
    constructor
    · intro h; rw [if_pos h]
    · intro h; rw [if_neg (by rw [h]; simp)]; exact ⟨_, rfl, hp.1, hp.2⟩
  · have hz : a.value W ≠ 0 := by
      intro e; apply hs0; rw [e]; exact trailingZeros_zero
    obtain ⟨k, hk, hkz⟩ := tz1 hz
    have hkt : k = trailingZeros (a.value W) := IsTz.unique hkz (isTz_trailingZeros _ hz)
    subst hkt
    generalize hs' : trailingZeros (a.value W) = s at hk hs0
    have hsh := TRepr.shr_spec W hW1 a s true ha
    have hr := TRepr.pow_spec W hW _ exp hsh.2
    -- the odd part and its power are the canonical representations of their values
    have hxeq : a.shr W s true = ofNat W (a.value W / 2 ^ s) :=
      canon_unique W _ _ hsh.2 (ofNat_canon W hW1 _) (by rw [hsh.1, ofNat_value W hW1])
    have hreq : (a.shr W s true).pow W exp = ofNat W ((a.value W / 2 ^ s) ^ exp) :=
      canon_unique W _ _ hr.2 (ofNat_canon W hW1 _) (by rw [hr.1, hsh.1, ofNat_value W hW1])
    have hg : ubigPowGuarded W a exp =
        (if 2 ^ usizeBits ≤ exp * s then .error .allocTooMuch
         else if powBufAllocPanics W (ofNat W (a.value W / 2 ^ s)) exp = true then .error .allocTooMuch
         else (ofNat W ((a.value W / 2 ^ s) ^ exp)).shlChecked W (exp * s)) := by
      have h1 := hpbG _ hsh.2
      rw [hreq, hxeq] at h1
      simp only [ubigPowGuarded, hk, bind, Except.bind, Option.getD_some, ne_eq, hs0, not_false_eq_true, if_true]
      by_cases hov : 2 ^ usizeBits ≤ exp * s
      · rw [if_pos hov, if_pos hov]
      · rw [if_neg hov, if_neg hov, hxeq, h1]
        by_cases hP : powBufAllocPanics W (ofNat W (a.value W / 2 ^ s)) exp = true
        · rw [if_pos hP, if_pos hP]
        · rw [if_neg hP, if_neg hP]
    have hcl : powAllocPanics W (a.value W) exp =
        (powBufAllocPanics W (ofNat W (a.value W / 2 ^ s)) exp ||
          (decide (2 ^ usizeBits ≤ exp * s) ||
            match shlAllocateWords W (ofNat W ((a.value W / 2 ^ s) ^ exp)) (exp * s) with
            | some k => decide (bufMaxCapacity W < k)
            | none => false)) := by
      have hne : (s != 0) = true := by simp [hs0]
      unfold powAllocPanics
      rw [hs', hne, Bool.true_and]
    rw [hg, hcl]
    have hsl := TRepr.shl_spec W hW1 (ofNat W ((a.value W / 2 ^ s) ^ exp)) (exp * s) (ofNat_canon W hW1 _)
    have hval : (ofNat W ((a.value W / 2 ^ s) ^ exp)).value W * 2 ^ (exp * s) = a.value W ^ exp := by
      rw [ofNat_value W hW1, Nat.pow_mul', ← Nat.mul_pow]
      have := trailingZeros_spec (a.value W)
      rw [hs'] at this
      rw [this]
    by_cases hov : 2 ^ usizeBits ≤ exp * s
    · simp [hov]
    · by_cases hP : powBufAllocPanics W (ofNat W (a.value W / 2 ^ s)) exp = true
      · simp [hov, hP]
      · have hP' : powBufAllocPanics W (ofNat W (a.value W / 2 ^ s)) exp = false := by
          cases h : powBufAllocPanics W (ofNat W (a.value W / 2 ^ s)) exp
          · rfl
          · exact absurd h hP
        simp only [hov, hP', decide_false, Bool.false_or, if_false, Bool.false_eq_true]
        unfold TRepr.shlChecked
        cases shlAllocateWords W (ofNat W ((a.value W / 2 ^ s) ^ exp)) (exp * s) with
        | none =>
          refine ⟨fun h => (by cases h), fun _ => ⟨_, rfl, ?_, hsl.2⟩⟩
          rw [hsl.1, hval]
        | some k =>
          simp only
          by_cases hk' : bufMaxCapacity W < k
          · simp [hk']
          · simp only [hk', decide_false, if_false]
            refine ⟨fun h => (by cases h), fun _ => ⟨_, rfl, ?_, hsl.2⟩⟩
            rw [hsl.1, hval]

-- both classes are inhabited: `6.pow(5)` is computed (shift 1), `2.pow(usize::MAX)` is the allocation panic
example : powAllocPanics 64 6 5 = false := by decide +kernel

example : powAllocPanics 64 2 (2 ^ 64 - 1) = true := by
  have h1 : trailingZeros 2 = 1 := by
    rw [trailingZeros]; simp [trailingZeros_odd]
  have h2 : (2 / 2 ^ 1) ^ (2 ^ 64 - 1) = 1 := by rw [show 2 / 2 ^ 1 = 1 from rfl, Nat.one_pow]
  unfold powAllocPanics
  rw [h1, h2]
  decide +kernel

/-- **`IBig::pow` as the driver runs it, complete characterisation** (sign rule `Negative` iff the base is negative and
    the exponent odd — `exp % 2` on the full `usize`) -/
theorem i_pow_guarded_iff (W : Nat) (hW : 4 ≤ W) (a : SRepr) (exp : Nat) (ha : a.WF W) :
    (powAllocPanics W (a.mag.value W) exp = true → ibigPowGuarded W a exp = .error .allocTooMuch) ∧
    (powAllocPanics W (a.mag.value W) exp = false →
      ∃ r, ibigPowGuarded W a exp = .ok r ∧ r.value W = a.value W ^ exp ∧ r.WF W) := by
  obtain ⟨h1, h2⟩ := u_pow_guarded_iff W hW a.mag exp ha.1
  constructor
  · intro h; unfold ibigPowGuarded; rw [h1 h]; rfl
  · intro h
    obtain ⟨r, e, _, _⟩ := h2 h
    have hfull : ubigPowGuarded W a.mag exp = ubigPowFull W a.mag exp := by
      rcases ubigPowGuarded_cases W a.mag exp with h' | h'
      · exact h'
      · rw [e] at h'; cases h'
    have e2 : ibigPowGuarded W a exp = ibigPowFull W a exp := by
      unfold ibigPowGuarded ibigPowFull; rw [hfull]
    rw [e2, ibigPowFull_eq W hW a exp ha]
    have hov : powShiftOverflows (a.mag.value W) exp = false := by
      unfold powAllocPanics at h
      unfold powShiftOverflows
      rw [Bool.or_eq_false_iff] at h
      obtain ⟨_, h⟩ := h
      cases hh : (trailingZeros (a.mag.value W) != 0)
      · rfl
      · rw [hh] at h
        simp only [Bool.true_and, Bool.or_eq_false_iff] at h
        simp only [Bool.true_and]
        exact h.1
    exact (ibigPowKernels_spec W hW a exp ha).2 hov

/-- **`IBig::pow` as the driver runs it**: exact with the sign rule, or the documented allocation panic -/
theorem i_pow_guarded_exact (W : Nat) (hW : 4 ≤ W) (a : SRepr) (exp : Nat) (ha : a.WF W) :
    (∃ r, ibigPowGuarded W a exp = .ok r ∧ r.value W = a.value W ^ exp ∧ r.WF W) ∨
    ibigPowGuarded W a exp = .error .allocTooMuch := by
  rcases ubigPowGuarded_cases W a.mag exp with h | h
  · have e : ibigPowGuarded W a exp = ibigPowFull W a exp := by
      unfold ibigPowGuarded ibigPowFull; rw [h]
    rw [e, ibigPowFull_eq W hW a exp ha]
    obtain ⟨h1, h2⟩ := ibigPowKernels_spec W hW a exp ha
    cases ho : powShiftOverflows (a.mag.value W) exp with
    | true => right; exact h1 ho
    | false => left; exact h2 ho
  · right
    unfold ibigPowGuarded; rw [h]; rfl

-- `3.pow(usize::MAX)`: `pow_word_base` asks for `usize::MAX / 40 + 1` words
example : powAllocPanics 64 3 (2 ^ 64 - 1) = true := by
  have h1 : trailingZeros 3 = 0 := trailingZeros_odd 3 (by decide)
  unfold powAllocPanics
  rw [h1]
  decide +kernel

-- the guard fires: `2.pow(usize::MAX)` asks `shl_one_spilled` for 2^58 words, one more than MAX_CAPACITY
example : shlAllocateWords 64 (.small 1) (2 ^ 64 - 1) = some (2 ^ 58) ∧ bufMaxCapacity 64 = 2 ^ 58 - 1 := by
  constructor <;> decide +kernel

-- ====================================================================== (5) pow.rs control flow regenerated

/-- the sign rule of `IBig::pow` in the model (`neg && exp % 2 == 1`) is the regenerated test
    `sign == Negative && exp % 2 == 1` -/
theorem ibig_pow_sign_regenerated (neg : Bool) (exp : Nat) :
    IntDispatch.IBig_pow_sign (if neg then .Negative else .Positive) (exp : Int)
      = (if (neg && exp % 2 == 1) = true then Dashu.Sign.Negative else Dashu.Sign.Positive) := by
  have hmod : ((exp : Int) % 2 = 1) ↔ exp % 2 = 1 := by omega
  cases neg <;> rcases Nat.mod_two_eq_zero_or_one exp with h | h <;>
    simp [IntDispatch.IBig_pow_sign, Dashu.GluePrelude.eq_, Dashu.GluePrelude.rem_, hmod, h]

/-- **the magnitude flow of `UBig::pow` / `IBig::pow`** (`trailing_zeros().unwrap_or(0)`, `shift != 0`, `shr → pow → shl` with
    `exp.checked_mul(shift)` evaluated AFTER the receiver `…pow(exp)`) as regenerated = what the driver runs.  (The model
    tests the product first; that is the same function because the buffer-level pow of a canonical value can only
    fail with the same allocation panic.) -/
theorem pow_magnitude_regenerated (W : Nat) (hW : 4 ≤ W) (a : TRepr) (exp : Nat) (ha : a.Canon W) :
    ubigPowGuarded W a exp =
      (a.trailingZeros W >>= fun tz =>
        IntDispatch.pow_magnitude (fun m s => m.shr W s true) (fun m e => m.powBufG W e)
          (fun r e s => r >>= fun v =>
            if 2 ^ usizeBits ≤ e * s then .error .allocTooMuch else v.shlChecked W (e * s)) a tz exp) := by
  unfold ubigPowGuarded IntDispatch.pow_magnitude
  cases a.trailingZeros W with
  | error e => rfl
  | ok tz =>
    simp only [bind, Except.bind]
    by_cases hs : tz.getD 0 ≠ 0
    · rw [if_pos hs, if_pos hs]
      have hc := (TRepr.shr_spec W (by omega) a (tz.getD 0) true ha).2
      have hb : (a.shr W (tz.getD 0) true).powBufG W exp =
          if powBufAllocPanics W (a.shr W (tz.getD 0) true) exp = true then .error .allocTooMuch
          else .ok ((a.shr W (tz.getD 0) true).pow W exp) := by
        unfold TRepr.powBufG; rw [TRepr.powBuf_eq W hW _ exp hc]
      rw [hb]
      by_cases ho : 2 ^ usizeBits ≤ exp * tz.getD 0
      · rw [if_pos ho]
        by_cases hP : powBufAllocPanics W (a.shr W (tz.getD 0) true) exp = true
        · rw [if_pos hP]
        · rw [if_neg hP]; simp only; rw [if_pos ho]
      · rw [if_neg ho]
        by_cases hP : powBufAllocPanics W (a.shr W (tz.getD 0) true) exp = true
        · rw [if_pos hP]
        · rw [if_neg hP]; simp only; rw [if_neg ho]
    · rw [if_neg hs, if_neg hs]

/-- `TypedReprRef::pow` (shortcuts 0, 1, 2; word / double-word / heap base) as regenerated = the model's `TRepr.powBuf` -/
theorem repr_pow_regenerated (W : Nat) (a : TRepr) (exp : Nat) :
    a.powBuf W exp =
      IntDispatch.repr_pow (.ok (.small 1)) (fun x => .ok x) (fun x => .ok (x.sqr W)) (powWordBaseRepr W)
        (powDwordBaseRepr W) (fun ws e => .ok (powLargeBase W ws e)) (2 ^ W - 1) a exp := by
  have hp := Nat.two_pow_pos W
  unfold TRepr.powBuf IntDispatch.repr_pow
  rcases exp with _ | _ | _ | n
  · rfl
  · rfl
  · rfl
  · rw [if_neg (by omega), if_neg (by omega), if_neg (by omega)]
    cases a with
    | small d =>
      simp only
      by_cases h : d < 2 ^ W
      · rw [if_pos h, if_pos (by omega)]
      · rw [if_neg h, if_neg (by omega)]
    | large ws => rfl

/-- the shortcut returns of `pow_word_base` as regenerated: whenever one is taken it returns the value of the model's
    `powWordBase`, and none is taken exactly when the model enters the buffer loop; the `Buffer::allocate` arguments
    checked by `powBufAllocPanics` are the regenerated ones -/
theorem pow_word_base_shortcut_regenerated (W base exp : Nat) :
    (∀ v, IntDispatch.pow_word_base_shortcut isPow2 trailingZeros (maxExpInWord W base).1 (maxExpInWord W base).2 base exp
        = some v → powWordBase W base exp = v) ∧
    (IntDispatch.pow_word_base_shortcut isPow2 trailingZeros (maxExpInWord W base).1 (maxExpInWord W base).2 base exp = none ↔
      ¬(base = 0 ∨ base = 1 ∨ base = 2 ∨ isPow2 base = true ∨ exp < 2 * (maxExpInWord W base).1)) ∧
    exp / (maxExpInWord W base).1 + 1 = IntDispatch.pow_word_base_allocate (maxExpInWord W base).1 exp ∧
    2 * exp = IntDispatch.pow_dword_base_allocate exp := by
  have hb : base = 0 ∨ base = 1 ∨ base = 2 ∨ ∃ n, base = n + 3 := by
    rcases Nat.lt_or_ge base 3 with hlt | hge
    · have : base = 0 ∨ base = 1 ∨ base = 2 := by omega
      rcases this with h | h | h
      · exact Or.inl h
      · exact Or.inr (Or.inl h)
      · exact Or.inr (Or.inr (Or.inl h))
    · exact Or.inr (Or.inr (Or.inr ⟨base - 3, by omega⟩))
  refine ⟨?_, ?_, rfl, Nat.mul_comm 2 exp⟩
  · intro v hv
    unfold powWordBase
    rcases hb with rfl | rfl | rfl | ⟨n, rfl⟩
    · simp [IntDispatch.pow_word_base_shortcut] at hv ⊢; omega
    · simp [IntDispatch.pow_word_base_shortcut] at hv ⊢; omega
    · simp [IntDispatch.pow_word_base_shortcut] at hv ⊢; omega
    · simp only [IntDispatch.pow_word_base_shortcut] at hv
      rw [if_neg (by omega), if_neg (by omega), if_neg (by omega)]
      by_cases h1 : isPow2 (n + 3) = true
      · rw [if_pos h1] at hv ⊢; injection hv
      · rw [if_neg h1] at hv ⊢
        simp only
        by_cases h2 : exp < (maxExpInWord W (n + 3)).1
        · rw [if_pos h2] at hv ⊢; injection hv
        · rw [if_neg h2] at hv ⊢
          by_cases h3 : exp < 2 * (maxExpInWord W (n + 3)).1
          · rw [if_pos h3] at hv ⊢; injection hv
          · rw [if_neg h3] at hv; cases hv
  · rcases hb with rfl | rfl | rfl | ⟨n, rfl⟩
    · simp [IntDispatch.pow_word_base_shortcut]
    · simp [IntDispatch.pow_word_base_shortcut]
    · simp [IntDispatch.pow_word_base_shortcut]
    · simp only [IntDispatch.pow_word_base_shortcut]
      by_cases h1 : isPow2 (n + 3) = true
      · simp [h1]
      · by_cases h2 : exp < (maxExpInWord W (n + 3)).1
        · have h3 : exp < 2 * (maxExpInWord W (n + 3)).1 := by omega
          simp [h1, h2, h3]
        · by_cases h3 : exp < 2 * (maxExpInWord W (n + 3)).1
          · simp [h1, h2, h3]
          · simp [h1, h2, h3]

-- ====================================================================== non-vacuity

/-- heap operands of different lengths meet the hypotheses; the four subtraction forms run through `sub_large` /
    `sub_large_ref_val` and agree, and panic in the other order -/
example : (TRepr.large [0, 0, 1, 5]).Canon 64 ∧ (TRepr.large [1, 0, 1]).Canon 64 ∧
    (∀ f, TRepr.subF 64 f (.large [0, 0, 1, 5]) (.large [1, 0, 1]) = .ok (.large [2 ^ 64 - 1, 2 ^ 64 - 1, 2 ^ 64 - 1, 4])) ∧
    (∀ f, TRepr.subF 64 f (.large [1, 0, 1]) (.large [0, 0, 1, 5]) = .error .negativeUBig) := by
  refine ⟨by decide, by decide, ?_, ?_⟩ <;> intro f <;> cases f <;> decide +kernel

end Dashu.Props.C01Dispatch
