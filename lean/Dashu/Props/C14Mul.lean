import Dashu.Props.C14Shl
import Dashu.Props.C01
/-
  C14 ↔ C01: the `*` inside the exact steps of the rational comparisons.  `Model/Cross/Ord.lean`
  writes the cross products of rational/src/cmp.rs at their value (`n1 * d2`, `n2 * d1` of
  `repr_cmp::<ABS>` / `repr_eq`, `rhs * &lhs.denominator` of `repr_cmp_ubig/ibig::<ABS>`,
  `rhs.significand() * &lhs.denominator` followed by `<<=` in `with_float::repr_cmp_fbig`).  Here
  each product is proved equal — for every word size ≥ 4 bits — to C01's MIRRORED `impl_ibig_mul`
  (`ibigMul`: `mag0.mul(mag1).with_sign(sign0 * sign1)`, integer/src/mul_ops.rs, refined in C01 down
  to the schoolbook / Karatsuba / Toom-3 word loops) run on canonical representations, by importing
  C01's proved `i_mul_exact`; a `UBig` operand (the denominators) enters as the `Positive` magnitude
  (`forward_ibig_ubig_binop_to_repr`), which is what `sOfInt W ↑d` is (`ubig_operand_positive`).
  Composed with C05's mirrored `Ord for IBig` / `abs_cmp` (Props/C14Link) and C09's mirrored shift
  (Props/C14Shl), the exact step "multiply crosswise (shift), then compare" is the word-level code.
-/
namespace Dashu.Props.C14Mul
open Dashu.Model Dashu.Model.Cross
open Dashu.Props.C14Shl (ibigShlW)

/-- `&IBig * &IBig` / `&IBig * &UBig` (mirrored `impl_ibig_mul`, on the canonical representations) -/
def ibigMulW (W : Nat) (x y : Int) : SRepr := ibigMul W (sOfInt W x) (sOfInt W y)

/-- a `UBig` operand of `IBig * UBig` is the `Positive` magnitude: the representation used here -/
theorem ubig_operand_positive (W : Nat) (d : Nat) : sOfInt W (d : Int) = ⟨false, ofNat W d⟩ := by
  simp [sOfInt]

/-- mirrored `IBig * IBig` is the `x * y` of the cross model, and its result is canonical -/
theorem mul_mirrored (W : Nat) (hW : 4 ≤ W) (x y : Int) :
    (ibigMulW W x y).value W = x * y ∧ SCanon W (ibigMulW W x y) := by
  have hW1 : 1 ≤ W := by omega
  have h := Dashu.Props.C01.i_mul_exact W hW (sOfInt W x) (sOfInt W y)
    (sOfInt_spec W hW1 x).1 (sOfInt_spec W hW1 y).1
  rw [(sOfInt_spec W hW1 x).2, (sOfInt_spec W hW1 y).2] at h
  exact h

private theorem mag_value (W : Nat) (a : SRepr) : a.mag.value W = (a.value W).natAbs := by
  have e : ((a.mag.value W : Nat) : Int) = ((a.value W).natAbs : Int) := by
    unfold SRepr.value; split <;> simp
  exact_mod_cast e

/-- step 4 of `repr_cmp::<ABS>` (rational/src/cmp.rs: `n1d2 = &lhs.numerator * &rhs.denominator`,
    `n2d1 = &rhs.numerator * &lhs.denominator`, then `cmp` / `abs_cmp`) at word level: two C01
    products followed by C05's mirrored comparison, nothing at its value -/
theorem ratio_cross_cmp_mirrored (W : Nat) (hW : 4 ≤ W) (n1 n2 : Int) (d1 d2 : Nat) :
    compare (n1 * (d2 : Int)) (n2 * (d1 : Int)) = (ibigMulW W n1 d2).cmp (ibigMulW W n2 d1) ∧
    absCmpInt (n1 * d2) (n2 * d1) = (ibigMulW W n1 d2).mag.cmp (ibigMulW W n2 d1).mag := by
  obtain ⟨lv, lc⟩ := mul_mirrored W hW n1 d2
  obtain ⟨rv, rc⟩ := mul_mirrored W hW n2 d1
  constructor
  · rw [← Dashu.Props.C14Link.ibig_ord_any_repr W _ _ lc rc, lv, rv]
  · unfold absCmpInt
    rw [← Dashu.Props.C14Link.ubig_ord_any_repr W _ _ lc.1 rc.1, mag_value, mag_value, lv, rv]

/-- `repr_eq::<ABS>` cross products (`n1 * d2` against `n2 * d1`, equality of the magnitudes /
    of the values): decided by the mirrored comparison of the two C01 products -/
theorem ratio_cross_eq_mirrored (W : Nat) (hW : 4 ≤ W) (n1 n2 : Int) (d1 d2 : Nat) :
    ((n1 * (d2 : Int)).natAbs == (n2 * (d1 : Int)).natAbs) =
      ((ibigMulW W n1 d2).mag.cmp (ibigMulW W n2 d1).mag == .eq) := by
  rw [← (ratio_cross_cmp_mirrored W hW n1 n2 d1 d2).2]
  unfold absCmpInt
  rcases Nat.lt_trichotomy (n1 * (d2 : Int)).natAbs (n2 * (d1 : Int)).natAbs with h | h | h
  · have : compare (n1 * (d2 : Int)).natAbs (n2 * (d1 : Int)).natAbs = .lt := Nat.compare_eq_lt.2 h
    rw [this]; have : (n1 * (d2 : Int)).natAbs ≠ (n2 * (d1 : Int)).natAbs := by omega
    simp [this]
  · rw [h]; simp
  · have : compare (n1 * (d2 : Int)).natAbs (n2 * (d1 : Int)).natAbs = .gt := Nat.compare_eq_gt.2 h
    rw [this]; have : (n1 * (d2 : Int)).natAbs ≠ (n2 * (d1 : Int)).natAbs := by omega
    simp [this]

/-- the exact step of `repr_cmp_ubig/ibig::<ABS>` (rational):
    `lhs.numerator.cmp(&(rhs * &lhs.denominator))` / `.abs_cmp(..)` at word level -/
theorem ratio_int_cmp_mirrored (W : Nat) (hW : 4 ≤ W) (n r : Int) (d : Nat) :
    compare n (r * (d : Int)) = (sOfInt W n).cmp (ibigMulW W r d) ∧
    absCmpInt n (r * d) = (sOfInt W n).mag.cmp (ibigMulW W r d).mag := by
  have hW1 : 1 ≤ W := by omega
  obtain ⟨rv, rc⟩ := mul_mirrored W hW r d
  obtain ⟨nc, nv⟩ := sOfInt_spec W hW1 n
  constructor
  · rw [← Dashu.Props.C14Link.ibig_ord_any_repr W _ _ nc rc, nv, rv]
  · unfold absCmpInt
    rw [← Dashu.Props.C14Link.ubig_ord_any_repr W _ _ nc.1 rc.1, mag_value, mag_value, nv, rv]

/-- `with_float::repr_cmp_fbig` for a power-of-two base and the `NumOrd<f32/f64>` of the rational
    `Repr`: `rhs = significand * &lhs.denominator; rhs <<= k` — C01's mirrored product, then C09's
    mirrored shift; value `s * d * 2^k`, result canonical -/
theorem mul_shl_mirrored (W : Nat) (hW : 4 ≤ W) (s : Int) (d k : Nat) :
    (ibigShl W (ibigMulW W s d) k).value W = s * d * 2 ^ k ∧ SCanon W (ibigShl W (ibigMulW W s d) k) := by
  have hW1 : 1 ≤ W := by omega
  obtain ⟨pv, pc⟩ := mul_mirrored W hW s d
  have h := Dashu.Props.C09.ibig_shl_exact W hW1 (ibigMulW W s d) k pc
  rw [pv] at h
  exact h

/-- the whole exact step of that path at word level: numerator (shifted when the exponent is negative,
    `ibigShlW`) against product-then-shift -/
theorem ratio_float_step_mirrored (W : Nat) (hW : 4 ≤ W) (n s : Int) (d j k : Nat) :
    compare (n * 2 ^ j) (s * d * 2 ^ k) = (ibigShlW W n j).cmp (ibigShl W (ibigMulW W s d) k) := by
  have hW1 : 1 ≤ W := by omega
  obtain ⟨lv, lc⟩ := Dashu.Props.C14Shl.shl_mirrored W hW1 n j
  obtain ⟨rv, rc⟩ := mul_shl_mirrored W hW s d k
  rw [← Dashu.Props.C14Link.ibig_ord_any_repr W _ _ lc rc, lv, rv]

-- non-vacuity: 3-word × 2-word cross products (heap × heap, opposite signs on one side), adjacent
-- values distinguished; a product then shifted across a word boundary
example : (ibigMulW 64 (-(2 ^ 130) - 5) ((2 ^ 70 + 1 : Nat) : Int)).cmp
    (ibigMulW 64 (-(2 ^ 131) - 9) ((2 ^ 69 : Nat) : Int)) = .lt := by
  rw [← (ratio_cross_cmp_mirrored 64 (by decide) (-(2 ^ 130) - 5) (-(2 ^ 131) - 9) (2 ^ 69) (2 ^ 70 + 1)).1]
  decide +kernel
example : ((ibigMulW 64 (2 ^ 130 + 5) ((2 ^ 70 : Nat) : Int)).mag.cmp
    (ibigMulW 64 (-(2 ^ 70)) ((2 ^ 130 + 5 : Nat) : Int)).mag == .eq) = true := by
  rw [← ratio_cross_eq_mirrored 64 (by decide) (2 ^ 130 + 5) (-(2 ^ 70)) (2 ^ 130 + 5) (2 ^ 70)]
  decide +kernel
example : (ibigShlW 64 (2 ^ 200 + 1) 0).cmp
    (ibigShl 64 (ibigMulW 64 (2 ^ 66 + 3) ((2 ^ 67 : Nat) : Int)) 67) = .lt := by
  rw [← ratio_float_step_mirrored 64 (by decide) (2 ^ 200 + 1) (2 ^ 66 + 3) (2 ^ 67) 0 67]
  decide +kernel
example : (ibigMulW 64 (-7) 6).value 64 = -42 ∧ (ibigMulW 64 0 (-5)).neg = false := by decide +kernel

end Dashu.Props.C14Mul
